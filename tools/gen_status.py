#!/usr/bin/env python3
"""Regenerate the machine-written status block of DESIGN.md (between the STATUS-BEGIN / STATUS-END markers) from
MANIFEST.json, evidence/*.json, known_findings.json, seeded/RESULTS.json and `git -C /repo log`."""
import json, os, re, subprocess
V = '/verif'
man = json.load(open(V + '/MANIFEST.json'))
kf = json.load(open(V + '/known_findings.json'))
ids = [json.loads(l)['id'] for l in open(V + '/properties.jsonl')]
titles = {json.loads(l)['id']: json.loads(l)['title'] for l in open(V + '/properties.jsonl')}
out = []
out.append('### 0.1 Checks registered in MANIFEST.json (numbers from the last committed evidence files)\n')
out.append('| id | title | theorems / obligations | quick: cases (distinct non-trivial) | wall s | known findings | fixes landed |')
out.append('|---|---|---|---|---|---|---|')
claimed = {c['property_id'] for c in man['checks']}
for pid in ids:
    if pid not in claimed:
        out.append('| %s | %s | not integrated | | | | |' % (pid, titles[pid])); continue
    ev = {}
    p = '%s/evidence/%s.json' % (V, pid)
    if os.path.exists(p):
        ev = json.load(open(p))
    cov = ev.get('coverage', {})
    nf = sum(1 for f in kf['findings'] if f['property'] == pid and (f.get('signature') or not any(
        g.get('signature') and g['what'][:60] == f['what'][:60] for g in kf['findings'] if g is not f)))
    nx = sum(1 for f in kf['fixed'] if f['property'] == pid)
    out.append('| %s | %s | %s / %s | %s (%s) | %s | %d | %d |' % (pid, titles[pid], len(cov.get('theorems', [])) or '?', cov.get('obligations', '?'),
               cov.get('evaluations', '?'), cov.get('distinct_nontrivial', '?'), ev.get('wall_s', '?'), nf, nx))
out.append('\n### 0.2 Genuine defects repaired in /repo (`fix:` commits; each is re-detected when reverted)\n')
log = subprocess.check_output(['git', '-C', '/repo', 'log', '--format=%h %s', '7a062d0..HEAD']).decode().strip().split('\n')
bycommit = {f['commit']: f for f in kf['fixed']}
out.append('| commit | property | what failed before the fix |')
out.append('|---|---|---|')
for l in reversed(log):
    h, s = l.split(' ', 1)
    f = bycommit.get(h)
    out.append('| %s | %s | %s |' % (h, f['property'] if f else '?', (f['what'] if f else s).replace('|', '/')))
out.append('\n### 0.3 Known findings (genuine defects recorded, not repaired) — `known_findings.json`\n')
out.append('| property | matched by | what fails |')
out.append('|---|---|---|')
for f in kf['findings']:
    out.append('| %s | %s | %s |' % (f['property'], ('signature `%s`' % f['signature']) if f.get('signature') else ('witness %s' % f.get('witness')),
                                   f['what'].replace('|', '/')))
rp = V + '/seeded/RESULTS.json'
if os.path.exists(rp):
    res = json.load(open(rp))
    out.append('\n### 0.4 Seeded changes (written by independent sub-agents from the property text only) vs. the checks\n')
    out.append('| seed | property | what the change does (needs) | outcome | what the check reported |')
    out.append('|---|---|---|---|---|')
    for s in sorted(res):
        r = res[s]
        try:
            m = json.load(open('%s/seeded/%s/meta.json' % (V, s)))
        except Exception:
            m = {}
        out.append('| %s | %s | %s | %s%s | %s |' % (s, r['property'], (m.get('summary', '')[:160] + ' — needs: ' + m.get('needs', '')[:160]).replace('|', '/').replace('\n', ' '),
                   r['outcome'], '' if r.get('concrete_replay', True) or r['outcome'] != 'caught' else ' (no-failing-input-found)',
                   (r.get('why') or '')[:200].replace('|', '/').replace('\n', ' ')))
block = '\n'.join(out)
d = open(V + '/DESIGN.md').read()
b, e = '<!-- STATUS-BEGIN -->', '<!-- STATUS-END -->'
if b in d:
    d = d[:d.index(b) + len(b)] + '\n' + block + '\n' + d[d.index(e):]
    open(V + '/DESIGN.md', 'w').write(d)
    print('status block updated (%d lines)' % len(out))
else:
    print(block)

#!/usr/bin/env python3
"""extract the suggested MANIFEST texts from notes/Cxx.md into manifest.d/Cxx.json (only if that file does not exist, or --force)"""
import re, sys, json, os
force = '--force' in sys.argv
for pid in [a for a in sys.argv[1:] if a.startswith('C')]:
    out = '/verif/manifest.d/%s.json' % pid
    if os.path.exists(out) and not force:
        print(pid, 'exists'); continue
    t = open('/verif/notes/%s.md' % pid).read()
    i = t.lower().rfind('manifest')
    sec = t[i:]
    def grab(key):
        m = re.search(r'`?' + key + r'`?\s*:?\s*["“](.*?)["”]\s*(?:\n`|\n\n|\Z|\n\*|\n-)', sec, re.S)
        return ' '.join(m.group(1).split()) if m else None
    lt, ln = grab('level_claimed.text'), grab('level_note')
    if not lt or not ln:
        print(pid, 'COULD NOT PARSE', bool(lt), bool(ln)); continue
    json.dump({'level_text': lt, 'level_note': ln, 'technique': 'Coq proof about an executable model; vm_compute correspondence with the implementation',
               'design_ref': 'DESIGN.md section 7, %s; notes/%s.md' % (pid, pid)}, open(out, 'w'), indent=1)
    print(pid, 'ok', len(lt), len(ln))

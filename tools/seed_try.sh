#!/bin/bash
# usage: seed_try.sh <seed-id e.g. C05-1> [check-id ...]  -- run the property's check(s) against a scratch copy of /repo
# with the seeded change applied (safe while other work uses /repo). Default check = the seed's property.
sid="$1"; shift
d=/verif/seeded/$sid
pid=$(python3 -c "import json;print(json.load(open('$d/meta.json'))['property'])")
ids="${@:-$pid}"
for id in $ids; do
  echo "== $sid vs $id"
  /verif/tools/mutant_try.sh $id $d/patch.diff 2>&1 | grep -e VIOLATION -e KNOWN-FINDING -e '^rc='
done

#!/bin/bash
# usage: confirm_seed.sh Cxx   -- confirm the seeded changes delivered in /tmp/seed_Cxx/seed_out/<k>/ in a FRESH scratch worktree,
# keep the confirmed ones as /verif/seeded/Cxx-<k>/ and remove the sub-agent's worktree.
id="$1"; round="${2:-1}"; if [ "$round" = 1 ]; then W=/tmp/seed_$id; off=0; else W=/tmp/seed${round}_$id; off=$(( (round-1)*2 )); fi; C=/tmp/confirm_$id
TESTS="test/ad_topology_test.py test/attribute_collector_test.py test/catalog_test.py test/delegation_label_test.py test/maintenance_test.py test/networkxx_pg_disjoint_test.py test/networkxx_pg_test.py test/pluggable_test.py test/sliver_json_test.py test/sliver_test.py test/substrate_topology_test.py test/test_load.py test/tuple_test.py"
git -C /repo worktree add --detach -q $C HEAD 2>/dev/null
for k in $(ls $W/seed_out 2>/dev/null); do
  d=$W/seed_out/$k
  [ -f $d/patch.diff ] && [ -f $d/demo.py ] || { echo "$id-$k: incomplete"; continue; }
  (cd $C && git checkout -q -- . && git clean -fdq)
  head_out=$(cd $C && PYTHONPATH=$C PYTHONHASHSEED=0 timeout 300 /venv/bin/python $d/demo.py $C 2>&1 | grep -v conda | tail -3); head_rc=$(cd $C && PYTHONPATH=$C PYTHONHASHSEED=0 timeout 300 /venv/bin/python $d/demo.py $C >/dev/null 2>&1; echo $?)
  if ! (cd $C && git apply $d/patch.diff); then echo "$id-$k: patch does not apply"; continue; fi
  mut_rc=$(cd $C && PYTHONPATH=$C PYTHONHASHSEED=0 timeout 300 /venv/bin/python $d/demo.py $C >/dev/null 2>&1; echo $?)
  mut_out=$(cd $C && PYTHONPATH=$C PYTHONHASHSEED=0 timeout 300 /venv/bin/python $d/demo.py $C 2>&1 | grep -v conda | tail -3)
  tests=$(cd $C && PYTHONPATH=$C timeout 900 /venv/bin/python -m pytest -q -p no:cacheprovider --timeout=900 --continue-on-collection-errors $TESTS 2>&1 | grep -e '^FAILED' -e '^ERROR' -e ' passed' )
  nfail=$(echo "$tests" | grep -e '^FAILED' -e '^ERROR' | grep -v 'testLocation' | wc -l)
  npass=$(echo "$tests" | grep -o '[0-9]* passed' | grep -o '[0-9]*')
  (cd $C && git checkout -q -- . && git clean -fdq)
  echo "$id-$k: head_rc=$head_rc mut_rc=$mut_rc other_test_failures=$nfail passed=$npass"
  if [ "$head_rc" = 0 ] && [ "$mut_rc" != 0 ] && [ "$nfail" = 0 ] && [ "$npass" = 77 ]; then
    o=/verif/seeded/$id-$((k+off)); mkdir -p $o; cp $d/patch.diff $d/demo.py $o/
    python3 - "$d/meta.json" "$o/meta.json" "$id" "$head_out" "$mut_out" <<'PY'
import json,sys
try: m=json.load(open(sys.argv[1]))
except Exception as e: m={"summary":"(meta.json of the sub-agent unreadable: %r)"%e}
m["property"]=sys.argv[3]
m["confirmed_by_orchestrator"]={"what_i_ran":"fresh scratch worktree of /repo HEAD under /tmp: demo.py at HEAD (exit 0), git apply patch.diff, demo.py (exit != 0), the 13 stable test files (77 passed, only testLocation failing as in the baseline), worktree removed",
  "demo_at_head":sys.argv[4],"demo_with_change":sys.argv[5]}
json.dump(m,open(sys.argv[2],"w"),indent=1)
PY
    echo "  kept as $o"
  else echo "  NOT kept"; echo "$tests" | head -5; echo "head: $head_out"; echo "mut: $mut_out"; fi
done
git -C /repo worktree remove --force $C
git -C /repo worktree remove --force $W 2>/dev/null || rm -rf $W
git -C /repo worktree prune

#!/usr/bin/env python3
"""usage: make_seed_prompts.py <round> <outdir> [ids]   -- write the prompt of a further seeded-change round for every property.
The prompt of round r is the round-4 text (property text + task + procedure, nothing from /verif) with the worktree
path /tmp/seed<r>_Cxx, the ALREADY TRIED list rebuilt from seeded/Cxx-*/meta.json, and this round's 'Prefer' paragraph."""
import sys, os, re, json, glob
rnd, out = int(sys.argv[1]), sys.argv[2]
ids = sys.argv[3:] or ['C%02d' % i for i in range(1, 21)]
PREFER = {5: ("Prefer, this time, changes of these kinds: (a) an operation applied TWICE or undone and redone (idempotence, "
              "add-remove-add, merge-unmerge-merge, encode-decode-encode) where the second application sees what the first left behind; "
              "(b) a value that coincides with another one that is normally different (two ids, names or keys equal; old = new; a "
              "container that is empty or has exactly one element; self-reference); (c) an argument passed in its less common form "
              "(keyword vs positional, a single item vs a list, an enum vs its string, None vs absent, a generator vs a list, a subclass "
              "instance); (d) a guard or refusal moved after the first write, or a check applied to a different object than the one "
              "that is then used; (e) the less used flavour (the one-graph-per-store 'disjoint' backend, substrate/advertisement "
              "topologies, file vs string entry points, the plural vs the singular setter). Avoid plain caches/memoisation and in-place "
              "sorting (already well covered). Note: the library has received many bug fixes recently; base your work on the code as it "
              "is in your worktree now.")}
PREFER[6] = ("Prefer, this time, changes of these kinds: (a) ERROR PATHS: what an operation leaves behind when it raises part-way, an "
             "exception of one kind caught as another, a refusal that is silently turned into a no-op (or the reverse), cleanup that runs "
             "on the wrong branch; (b) TYPE CONFUSION that Python tolerates: an enum member vs its string value, int vs numeric string ids, "
             "bool vs int, tuple vs list, bytes vs str, a dict view vs a list, `is` vs `==`, truthiness of 0 / '' / [] / {} used where "
             "`is None` is meant; (c) DEFAULTS AND OPTIONAL PARAMETERS: a default value changed or evaluated once, an optional argument "
             "that is ignored on one of two code paths, keyword-only arguments forwarded under the wrong name; (d) ORDER: reliance on the "
             "first/last element, sorted vs insertion order, sets iterated where order matters, stable vs unstable sorting, reversed "
             "comparison in one of two symmetric branches; (e) TEXT: names, ids and values with unusual but legal characters (unicode, "
             "quotes, separators the code itself uses such as '-', ':' or ','), very long or empty strings, leading zeros, case "
             "differences. Avoid caches/memoisation, in-place sorting, identifier allocation from the collection size and stale handles "
             "(already well covered). Note: the library has received many bug fixes recently; base your work on the code as it is in your "
             "worktree now. Run the stable test command WITHOUT the `-x` flag (the always-failing network test testLocation would "
             "otherwise stop the run before the remaining files).")
PREFER[7] = ("Prefer, this time, changes that need TWO COOPERATING SITES that each look fine alone (a producer that changes what it "
             "writes and a consumer that still assumes the old shape; a helper whose contract is loosened and one caller that relied on "
             "it), or a MULTI-STEP HISTORY in which an earlier operation leaves something behind that a later, different operation trips "
             "over (three or more public calls of different kinds). Avoid caches/memoisation, in-place sorting, identifier allocation "
             "from the collection size, stale handles and vocabulary/character-set changes (already well covered). Note: the library has "
             "received many bug fixes recently; base your work on the code as it is in your worktree now. Run the stable test command "
             "WITHOUT the `-x` flag. You have a HARD LIMIT of 9 minutes wall-clock in total: produce ONE change only (k = 1), keep it "
             "small, and stop as soon as it is verified.")
os.makedirs(out, exist_ok=True)
for pid in ids:
    base = open('/verif/seeded/_prompts/%s_r4.txt' % pid).read() if os.path.exists('/verif/seeded/_prompts/%s_r4.txt' % pid) else None
    if base is None:
        print('no round-4 prompt for', pid); continue
    t = base.replace('/tmp/seed4_%s' % pid, '/tmp/seed%d_%s' % (rnd, pid))
    tried = []
    for m in sorted(glob.glob('/verif/seeded/%s-*/meta.json' % pid)):
        try:
            tried.append('- ' + json.load(open(m)).get('summary', '')[:260].replace('\n', ' '))
        except Exception:
            pass
    t = re.sub(r'ALREADY TRIED by others.*?\n\n(?=Prefer)', lambda _m: 'ALREADY TRIED by others (do NOT repeat these ideas or close variants; pick '
               'different mechanisms, files, entry points or clauses of the property):\n' + '\n'.join(tried) + '\n\n', t, flags=re.S)
    t = re.sub(r'Prefer, this time,.*?\n\n(?=For EACH change)', lambda _m: PREFER[rnd] + '\n\n', t, flags=re.S)
    assert '/verif/seeded' not in t
    open(os.path.join(out, '%s_r%d.txt' % (pid, rnd)), 'w').write(t)
print('wrote', len(ids), 'prompts to', out)

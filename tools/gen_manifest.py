#!/usr/bin/env python3
"""Rebuild /verif/MANIFEST.json from manifest.d/Cxx.json (one file per integrated property).
Properties without a file are listed under not_applicable with the reason in manifest.d/_pending.json (or a default)."""
import json, os, glob
V = os.path.dirname(os.path.dirname(os.path.abspath(__file__)))
ids = [json.loads(l)['id'] for l in open(os.path.join(V, 'properties.jsonl'))]
pend = {}
pp = os.path.join(V, 'manifest.d', '_pending.json')
if os.path.exists(pp):
    pend = json.load(open(pp))
checks, na = [], []
for pid in ids:
    p = os.path.join(V, 'manifest.d', pid + '.json')
    if os.path.exists(p):
        d = json.load(open(p))
        checks.append({
            "property_id": pid,
            "quick_cmd": "./check %s --tier quick" % pid,
            "thorough_cmd": "./check %s --tier thorough" % pid,
            "evidence_file": "/verif/evidence/%s.json" % pid,
            "replay_cmd_template": "./check %s --replay {path}" % pid,
            "engine": "coq-proof+correspondence",
            "level_claimed": {"category": d.get("category", "proof"), "text": d["level_text"],
                              "design_ref": d.get("design_ref", "DESIGN.md section 7, " + pid)},
            "level_note": d["level_note"],
            "technique": d["technique"]})
    else:
        na.append({"property_id": pid, "reason": pend.get(pid, "check not integrated yet (being built; see DESIGN.md section 7 for the plan) — not a statement that the technique cannot apply")})
m = {
 "version": 1,
 "setup_cmd": "cd /verif && ./setup.sh",
 "hooks": {
  "guard": "FABRIC_FIM_VERIF",
  "enable": "no source hooks: the harness imports the library from /repo (PYTHONPATH=/repo) and installs its stand-ins (counting lock, recording Neo4j driver, traced threads) at run time; FABRIC_FIM_VERIF=1 is exported by ./check but no code in /repo reads it",
  "baseline_off_cmd": "cd /repo && /venv/bin/python -m pytest -ra -q -p no:cacheprovider --timeout=900 --continue-on-collection-errors",
  "source_commits": [],
  "add_only": True},
 "engines": [{"name": "coq-proof+correspondence", "path": "/verif/check",
              "serves_properties": [c["property_id"] for c in checks],
              "kind_free_text": "Coq 8.16.1 theorems about an executable Gallina model; model tied to /repo on every run by a fail-closed ast translator (regenerated coq/Gen/*.v) and/or a correspondence check (implementation vs model evaluated by vm_compute inside coqc); independent property oracle searches for a concrete failing input when an obligation or the tie breaks"}],
 "checks": checks,
 "notes": "See DESIGN.md. Genuine defects repaired in /repo are the 'fix:' commits listed in known_findings.json (fixed); recorded ones are its 'findings'.",
 "not_applicable": na}
json.dump(m, open(os.path.join(V, 'MANIFEST.json'), 'w'), indent=1)
print('checks:', [c['property_id'] for c in checks], 'pending:', len(na))

#!/usr/bin/env python3
"""Run every kept seeded change against the check of its property (scratch copy of /repo, never /repo itself) and
record the outcome in seeded/RESULTS.json (+ a table in seeded/RESULTS.md). usage: run_all_seeded.py [--in-repo] [--md-only] [seed-id ...]  (SEEDED_RESULTS=<file> writes the outcomes elsewhere, for parallel runs)"""
import json, os, subprocess, sys, re, time
V = '/verif'
man = json.load(open(V + '/MANIFEST.json'))
claimed = {c['property_id'] for c in man['checks']}
IN_REPO = '--in-repo' in sys.argv
sys.argv = [a for a in sys.argv if a != '--in-repo']
MD_ONLY = '--md-only' in sys.argv
sys.argv = [a for a in sys.argv if a != '--md-only']
seeds = [] if MD_ONLY else sys.argv[1:] or sorted(d for d in os.listdir(V + '/seeded') if os.path.isdir(V + '/seeded/' + d) and not d.startswith('_'))
resp = os.environ.get('SEEDED_RESULTS', V + '/seeded/RESULTS.json')
res = json.load(open(resp)) if os.path.exists(resp) else {}
for s in seeds:
    meta = json.load(open('%s/seeded/%s/meta.json' % (V, s)))
    pid = meta['property']
    if pid not in claimed:
        res[s] = {'property': pid, 'outcome': 'check not integrated yet'}
        continue
    t0 = time.time()
    if IN_REPO:
        # the official way: apply to /repo itself, run the registered quick command, undo straight afterwards
        assert subprocess.run(['git', '-C', '/repo', 'status', '--porcelain', '--untracked-files=no'], capture_output=True, text=True).stdout.strip() == '', '/repo not clean'
        subprocess.run(['git', '-C', '/repo', 'apply', '%s/seeded/%s/patch.diff' % (V, s)], check=True)
        try:
            p = subprocess.run(['./check', pid, '--tier', 'quick'], cwd=V, stdout=subprocess.PIPE, stderr=subprocess.STDOUT, text=True)
            out = p.stdout + '\nrc=%d\n' % p.returncode
        finally:
            subprocess.run(['git', '-C', '/repo', 'checkout', '--', '.'], check=True)
    else:
        p = subprocess.run([V + '/tools/mutant_try.sh', pid, '%s/seeded/%s/patch.diff' % (V, s)], stdout=subprocess.PIPE,
                           stderr=subprocess.STDOUT, text=True)
        out = p.stdout
    viol = [l for l in out.split('\n') if l.startswith('VIOLATION')]
    rc = re.findall(r'^rc=(\d+)', out, re.M)
    replay_why = None
    m = re.search(r'replay=(\S+)', viol[0]) if viol else None
    if m and os.path.exists(m.group(1)):
        try:
            r = json.load(open(m.group(1)))
            replay_why = str(r.get('why') or r.get('no_longer_checks'))[:300]
        except Exception:
            pass
    res[s] = {'property': pid, 'outcome': 'caught' if viol else 'MISSED', 'violation_line': viol[0] if viol else None,
              'concrete_replay': bool(viol) and 'no-failing-input-found' not in viol[0], 'why': replay_why,
              'rc': rc[-1] if rc else None, 'wall_s': round(time.time() - t0), 'mode': 'applied in /repo, undone afterwards' if IN_REPO else 'scratch copy of /repo'}
    print(s, res[s]['outcome'], res[s]['why'], flush=True)
    json.dump(res, open(resp, 'w'), indent=1, sort_keys=True)
json.dump(res, open(resp, 'w'), indent=1, sort_keys=True)
def nat(s):
    a, b = s.split('-'); return (a, int(b))
res = {k: v for k, v in res.items() if os.path.isdir(V + '/seeded/' + k)}
json.dump(res, open(resp, 'w'), indent=1, sort_keys=True)
with open(V + '/seeded/RESULTS.md', 'w') as f:
    f.write('| seed | property | outcome | concrete replay | what the check reported |\n|---|---|---|---|---|\n')
    for s in sorted(res, key=nat):
        r = res[s]
        f.write('| %s | %s | %s | %s | %s |\n' % (s, r['property'], r['outcome'], r.get('concrete_replay', ''), (r.get('why') or '').replace('|', '/').replace('\n', ' ')))

#!/bin/bash
# usage: run_quick.sh [-P n] [ids]  -- run the quick tier of the given (default: all) checks, n at a time; one summary line each
P=3; if [ "$1" = "-P" ]; then P=$2; shift 2; fi
ids="${@:-C01 C02 C03 C04 C05 C06 C07 C08 C09 C10 C11 C12 C13 C14 C15 C16 C17 C18 C19 C20}"
mkdir -p /tmp/runquick
printf '%s\n' $ids | xargs -P $P -I{} bash -c 'cd /verif; s=$(date +%s); VERIF_JOBS=${VERIF_JOBS:-4} ./check {} --tier quick > /tmp/runquick/{}.out 2>&1; rc=$?; echo "{} rc=$rc $(( $(date +%s)-s ))s viol=$(grep -c "^VIOLATION" /tmp/runquick/{}.out) known=$(grep -c "^KNOWN-FINDING" /tmp/runquick/{}.out)"'

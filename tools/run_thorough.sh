#!/bin/bash
# usage: run_thorough.sh [-P n] [ids]  -- run the thorough tier of the given (default: all) checks, n at a time; one summary line each
P=3; if [ "$1" = "-P" ]; then P=$2; shift 2; fi
ids="${@:-C01 C02 C03 C04 C05 C06 C07 C08 C09 C10 C11 C12 C13 C14 C15 C16 C17 C18 C19 C20}"
mkdir -p /tmp/runthorough
printf '%s\n' $ids | xargs -P $P -I{} bash -c 'cd /verif; s=$(date +%s); VERIF_JOBS=${VERIF_JOBS:-5} ./check {} --tier thorough > /tmp/runthorough/{}.out 2>&1; rc=$?; echo "{} rc=$rc $(( $(date +%s)-s ))s viol=$(grep -c "^VIOLATION" /tmp/runthorough/{}.out) known=$(grep -c "^KNOWN-FINDING" /tmp/runthorough/{}.out)"'

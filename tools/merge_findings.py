#!/usr/bin/env python3
"""merge known_findings.d/<id>.json fragments into known_findings.json (single committed file); usage: merge_findings.py C13 [C12 ...]
Fragment findings are ADDED (deduplicated by signature/witness); existing findings of the property are replaced only when the
fragment says "replace_findings": true. Fixed entries are added (deduplicated by commit)."""
import json, os, sys
V = '/verif'
d = json.load(open(V + '/known_findings.json'))
for pid in sys.argv[1:]:
    p = '%s/known_findings.d/%s.json' % (V, pid)
    if not os.path.exists(p):
        print('no fragment for', pid); continue
    k = json.load(open(p))
    if k.get('replace_findings'):
        d['findings'] = [f for f in d['findings'] if f['property'] != pid]
    have = {(f['property'], f.get('signature'), f.get('witness')) for f in d['findings']}
    for f in k.get('findings', []):
        if (f['property'], f.get('signature'), f.get('witness')) not in have:
            d['findings'].append(f)
    havec = {(f['property'], f['commit']) for f in d['fixed']}
    for f in k.get('fixed', []):
        if (f['property'], f['commit']) not in havec:
            f.setdefault('line', 'fixed: property=%s %s %s' % (f['property'], f['commit'], f['what']))
            d['fixed'].append(f)
    os.remove(p)
    print(pid, 'findings:', len(k.get('findings', [])), 'fixed:', len(k.get('fixed', [])))
json.dump(d, open(V + '/known_findings.json', 'w'), indent=1)

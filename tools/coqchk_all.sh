#!/bin/bash
# independent re-check of every property file and its dependencies; prints the axiom summary (takes ~6 min)
cd /verif/coq && timeout 3000 coqchk -silent -o -Q . FIM $(ls Properties/*.vo | sed 's/\.vo$//; s/\//./; s/^/FIM./') 2>&1 | tail -20

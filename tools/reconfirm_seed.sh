#!/bin/bash
# usage: reconfirm_seed.sh <seed-id> [candidate patch]  -- re-confirm a (rebased) seeded change at /repo HEAD in a fresh scratch
# worktree: demo passes at HEAD, fails with the change, the full pytest baseline is unchanged. With a candidate patch that
# confirms, it replaces seeded/<id>/patch.diff (the old one is dropped) and notes the rebase in meta.json.
s=$1; d=/verif/seeded/$s; cand=${2:-$d/patch.diff}; W=/tmp/reconfirm_$s
git -C /repo worktree add --detach -q $W HEAD || exit 2
cd $W
h=$(PYTHONPATH=$W PYTHONHASHSEED=0 timeout 300 /venv/bin/python $d/demo.py $W >/dev/null 2>&1; echo $?)
if git apply $cand 2>/dev/null; then
  m=$(PYTHONPATH=$W PYTHONHASHSEED=0 timeout 300 /venv/bin/python $d/demo.py $W >/dev/null 2>&1; echo $?)
  t=$(/venv/bin/python -m pytest -q -p no:cacheprovider --timeout=900 --continue-on-collection-errors 2>&1 | tail -1)
  git diff > /tmp/reconfirm_$s.diff
else m=noapply; t=-; fi
cd /verif; git -C /repo worktree remove --force $W; git -C /repo worktree prune
echo "$s head=$h mut=$m tests: $t"
if [ "$h" = 0 ] && [ "$m" != 0 ] && [ "$m" != noapply ] && echo "$t" | grep -q "36 failed, 77 passed"; then
  if [ "$cand" != "$d/patch.diff" ]; then
    cp /tmp/reconfirm_$s.diff $d/patch.diff; rm -f $d/patch.diff.orig
    python3 - "$d/meta.json" "$(git -C /repo rev-parse --short HEAD)" <<'PY'
import json,sys
m=json.load(open(sys.argv[1])); r=m.get('rebased')
note='rebased onto /repo %s (same change, context moved by later fix: commits); re-confirmed in a fresh worktree: demo passes at HEAD, fails with the change, pytest baseline 77 passed / 36 failed unchanged' % sys.argv[2]
m['rebased']=(r+'; ' if isinstance(r,str) else '')+note
json.dump(m,open(sys.argv[1],'w'),indent=1)
PY
    echo "  stored rebased patch"
  fi
else echo "  NOT confirmed"; fi
rm -f /tmp/reconfirm_$s.diff

#!/bin/bash
# usage: revert_try.sh <Cxx> <fix-commit> [more commits...]  -- runs the check against a scratch copy of /repo
# with the given fix: commit(s) reverted (reverse patch), then removes the copy.
set -e
id="$1"; shift
S=/tmp/scratch_$$; rm -rf $S; mkdir -p $S
rsync -a --exclude .git /repo/ $S/
for c in "$@"; do git -C /repo show "$c" | (cd $S && patch -R -p1 -s); done
set +e
VERIF_REPO=$S /verif/check "$id" ${TIER:+--tier $TIER}; rc=$?
echo "rc=$rc"
rm -rf $S

#!/bin/bash
# usage: mutant_try.sh <Cxx> <patch-file | -e 'sed-expr' file>   -- runs the check against a scratch copy of /repo
set -e
id="$1"; shift
S=/tmp/scratch_$$; rm -rf $S; mkdir -p $S
rsync -a --exclude .git /repo/ $S/
if [ "$1" = "-e" ]; then sed -i "$2" "$S/$3"; diff -u /repo/$3 $S/$3 | head -20 || true
else (cd $S && patch -p1 -s < "$1"); fi
set +e
VERIF_REPO=$S /verif/check "$id" ${TIER:+--tier $TIER}; rc=$?
echo "rc=$rc"
rm -rf $S

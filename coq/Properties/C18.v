(* C18 - instance sizing is sufficient and minimal; components match the catalogue.
   Only statements; each is closed by `exact` of a lemma from Proofs/Catalog18Sizing.v / Catalog18Comp.v.
   `catalogue` (= inst_sizes), `comp_catalog`, `comp_types` are REGENERATED from
   fim/slivers/data/instance_sizes.json, component_catalog.json and ComponentType (Gen/Catalog.v);
   map_caps / get_caps / gen_component / enum_members are Model/Catalog18.v (transcriptions of
   instance_catalog.py:60-87 and component_catalog.py:65-184, 232-254), the sort inside map_caps is
   Base/PySort.v (CPython's list.sort run with Capacities.__lt__). *)
From Coq Require Import List ZArith NArith Bool String Permutation.
From FIM Require Import Base.Str Base.PySort Gen.Catalog Gen.CapsGen Model.Caps Model.Catalog18.
From FIM Require Import Proofs.Catalog18Sizing Proofs.Catalog18Comp Proofs.Catalog18Lt Proofs.Catalog18Hist.
From FIM Require Import Proofs.PySortPerm Proofs.Catalog18Generic Proofs.Catalog18Alias Proofs.Catalog18Lookup.
Import ListNotations.
Open Scope Z_scope.

(* the translator recognised both resource files and the ComponentType enumeration (fail-closed flag) *)
Theorem C18_translated : catalog_gen_ok = true.
Proof. exact catalog_translated. Qed.
Print Assumptions C18_translated.

(* ---------------- instance sizing ---------------- *)

(* Generic: a request matters only through how it compares (>=) with the catalogue values.  Requests in the
   same threshold cell have the same candidate list and therefore the same answer; every request of Z^3 has a
   representative of its cell in the finite list `reps cat`. *)
Theorem C18_same_cell : forall cat r1 r2,
  (forall x, In x (map snd cat) -> fits r1 x = fits r2 x) ->
  candidates cat r1 = candidates cat r2 /\ map_caps cat r1 = map_caps cat r2.
Proof. exact same_cell_same_answer. Qed.
Print Assumptions C18_same_cell.

Theorem C18_cells_cover : forall cat req,
  In (req_rep cat req) (reps cat) /\ forall x, In x (map snd cat) -> fits req x = fits (req_rep cat req) x.
Proof. exact every_request_has_rep. Qed.
Print Assumptions C18_cells_cover.

(* the finite obligation, over the regenerated catalogue: on one representative per threshold cell the model
   returns the name of an entry that fits and has no other fitting entry <= it in all three dimensions, or the
   last entry when nothing fits (vm_compute; includes running Base/PySort.v on every candidate list) *)
Theorem C18_cells_ok : forallb (class_ok catalogue) (reps catalogue) = true.
Proof. exact catalogue_cells_ok. Qed.
Print Assumptions C18_cells_ok.

(* For EVERY request (core, ram, disk) in Z^3: the result is the name of a catalogue entry e; if any size
   satisfies the request then e does (sufficient) and every satisfying entry that is <= e in every dimension
   IS e (Pareto-minimal, no ties); if no size satisfies it, e is the last entry. *)
Theorem C18_sizing : forall req : caps3,
  exists e, In e catalogue /\ map_caps catalogue req = Some (fst e) /\
    ((exists x, In x catalogue /\ fits req (snd x) = true) ->
        fits req (snd e) = true /\
        forall x, In x catalogue -> fits req (snd x) = true -> le3 (snd x) (snd e) = true -> x = e) /\
    ((forall x, In x catalogue -> fits req (snd x) = false) -> last_opt catalogue = Some e).
Proof. exact sizing_catalogue. Qed.
Print Assumptions C18_sizing.

(* ... and the same for any catalogue whose cells check out *)
Theorem C18_sizing_any_catalogue : forall cat, forallb (class_ok cat) (reps cat) = true ->
  forall req : caps3,
  exists e, In e cat /\ map_caps cat req = Some (fst e) /\
    ((exists x, In x cat /\ fits req (snd x) = true) ->
        fits req (snd e) = true /\
        forall x, In x cat -> fits req (snd x) = true -> le3 (snd x) (snd e) = true -> x = e) /\
    ((forall x, In x cat -> fits req (snd x) = false) -> last_opt cat = Some e).
Proof. exact sizing_all_requests. Qed.
Print Assumptions C18_sizing_any_catalogue.

(* "the largest size otherwise": the last entry is >= every entry in every dimension *)
Theorem C18_largest : exists l, last_opt catalogue = Some l /\ forall x, In x catalogue -> le3 (snd x) (snd l) = true.
Proof. exact catalogue_last_largest. Qed.
Print Assumptions C18_largest.

(* the size's name and its capacities agree: fabric.c<core>.m<ram>.d<disk>, get_instance_capacities gives them back *)
Theorem C18_name_agrees : forall e, In e catalogue ->
  fst e = S"fabric.c" ++ str_of_Z (core (snd e)) ++ S".m" ++ str_of_Z (ram (snd e)) ++ S".d" ++ str_of_Z (disk (snd e))
  /\ get_caps catalogue (fst e) = Some (snd e).
Proof. exact catalogue_names_agree. Qed.
Print Assumptions C18_name_agrees.

Theorem C18_names_unique : NoDup (map fst catalogue).
Proof. exact catalogue_names_unique. Qed.
Print Assumptions C18_names_unique.

(* the order handed to list.sort (clt3) and the equality used by values.index (ceq3) are Capacities.__lt__ and
   Capacities.__eq__ as REGENERATED from capacities_labels.py (Gen/CapsGen.v, Model/Caps.v of C15) on
   Capacities(core=, ram=, disk=) objects *)
Theorem C18_lt_is_capacities_lt : forall a b, clt3 a b = clt (embed a) (embed b).
Proof. exact clt3_is_capacities_lt. Qed.
Print Assumptions C18_lt_is_capacities_lt.

Theorem C18_eq_is_capacities_eq : forall a b, ceq3 a b = ceq (embed a) (embed b).
Proof. exact ceq3_is_capacities_eq. Qed.
Print Assumptions C18_eq_is_capacities_eq.

(* ---------------- components ---------------- *)

(* every catalogue entry, and every alias in AlsoModels, is what the look-up loop finds; its Type is a ComponentType *)
Theorem C18_component_found : forall e, In e comp_catalog ->
  find_entry comp_catalog (e_model e) (e_type e) = Some e /\
  (forall a, In a (e_also e) -> find_entry comp_catalog a (e_type e) = Some e) /\
  type_from_str (e_type e) = Some (e_type e).
Proof. exact comp_catalog_found. Qed.
Print Assumptions C18_component_found.

(* A component generated for a catalogued (Type, Model), for ALL names, ids and labels the code accepts:
   the entry's model, type and details; no network service when the entry has no interfaces; otherwise one
   service (id, name, P4/OVS, L2) holding exactly one interface per catalogued port, in port order, and the
   interface at position j has the port's name, the kind of the component type, the catalogued speed (0 for a
   SharedNIC), the j-th supplied id and the j-th supplied label object, local_name from the port and the
   unit count the code derives from the bdf label (units_of). *)
Theorem C18_component : forall e, In e comp_catalog ->
  forall name nsid ids labs parent, entry_args_wf e ids labs = true ->
  exists c, gen_component comp_catalog name (ByTypeModel (Some (e_type e)) (Some (e_model e))) nsid ids labs parent = Ok c /\
    c_name c = name /\ c_model c = e_model e /\ c_type c = Some (e_type e) /\ c_details c = e_details e /\
    match e_ifs e with
    | None => c_ns c = None
    | Some ports =>
        exists ns, c_ns c = Some ns /\ ns_spec e name nsid parent ns /\
          List.length (ns_ifs ns) = List.length ports /\
          forall j p, nth_error ports j = Some p ->
            exists i, nth_error (ns_ifs ns) j = Some i /\
              if_name i = name ++ S"-" ++ fst p /\
              if_kind i = kind_of (Some (e_type e)) /\
              if_bw i = (if str_eqb (e_type e) (S"SharedNIC") then 0 else snd p) /\
              match ids with
              | Some l => exists s, nth_error l j = Some s /\ if_id i = IdGiven s
              | None => if_id i = IdFresh
              end /\
              match labs with
              | Some l => exists lb, nth_error l j = Some lb /\ if_tag i = Some (lab_tag lb) /\
                                     if_bdf i = lab_bdf lb /\ if_local i = local_of (lab_bdf lb) (fst p) /\
                                     if_unit i = units_of (lab_bdf lb)
              | None => if_tag i = None /\ if_bdf i = BNone /\ if_local i = LStr (fst p) /\ if_unit i = 1
              end
    end.
Proof. exact component_matches_catalogue. Qed.
Print Assumptions C18_component.

(* the same component through an AlsoModels alias or through the combined model_type member *)
Theorem C18_component_alias : forall e a, In e comp_catalog -> In a (e_also e) ->
  forall name nsid ids labs parent,
  gen_component comp_catalog name (ByTypeModel (Some (e_type e)) (Some a)) nsid ids labs parent
  = gen_component comp_catalog name (ByTypeModel (Some (e_type e)) (Some (e_model e))) nsid ids labs parent.
Proof. exact component_alias_matches_catalogue. Qed.
Print Assumptions C18_component_alias.

Theorem C18_component_model_type : forall i e, nth_error comp_catalog i = Some e ->
  forall name nsid ids labs parent,
  gen_component comp_catalog name (ByModelType (N.of_nat (Datatypes.S i))) nsid ids labs parent
  = gen_component comp_catalog name (ByTypeModel (Some (e_type e)) (Some (e_model e))) nsid ids labs parent.
Proof. exact component_model_type_matches_catalogue. Qed.
Print Assumptions C18_component_model_type.

(* a (Type, Model) that matches no entry raises CatalogException, in any catalogue *)
Theorem C18_component_unknown : forall cat name m t nsid ids labs parent,
  (forall e, In e cat -> entry_matches m t e = false) ->
  gen_component cat name (ByTypeModel (Some t) (Some m)) nsid ids labs parent = Err (S"CatalogException").
Proof. exact component_unknown_raises. Qed.
Print Assumptions C18_component_unknown.

(* Unit counts: the number of devices behind the interface -- the length of a bdf LIST, otherwise 1 *)
Theorem C18_units : forall b, units_of b = units_spec b.
Proof. exact units_all. Qed.
Print Assumptions C18_units.

(* the combined type-model enumeration lists exactly the catalogue entries: member i is named
   massage(Type)_massage(Model), has value i+1 and maps to entry i *)
Theorem C18_enum_exact :
  List.length (enum_members comp_catalog) = List.length comp_catalog /\
  forall i e, nth_error comp_catalog i = Some e ->
    nth_error (enum_members comp_catalog) i = Some (type_model_name e, N.of_nat (Datatypes.S i), Some e).
Proof. exact enum_exact. Qed.
Print Assumptions C18_enum_exact.

(* ---------------- no state leaks between calls ---------------- *)
(* Histories of calls (Model/Catalog18.v, hrun): map_capacities_to_instance / generate_component calls interleaved
   with the caller modifying IN PLACE the request object, its id / label lists and anything earlier calls returned.
   In the model: the catalogue state is the same after every history, and the response to a call -- wherever it
   stands in whatever history -- is the function of that call's argument VALUES and the catalogue alone, so
   C18_sizing / C18_component apply to every call of every history. *)
Theorem C18_history_state_unchanged : forall ops s, fst (hrun s ops) = s.
Proof. exact hrun_state_unchanged. Qed.
Print Assumptions C18_history_state_unchanged.

Theorem C18_map_in_any_history : forall s pre req post,
  nth_error (snd (hrun s (pre ++ OpMap req :: post))) (List.length pre) = Some (observe_inst_in (s_inst s) req).
Proof. exact map_in_any_history. Qed.
Print Assumptions C18_map_in_any_history.

Theorem C18_gen_in_any_history : forall s pre c post,
  nth_error (snd (hrun s (pre ++ OpGen c :: post))) (List.length pre) = Some (gen_case_val (s_comp s) c).
Proof. exact gen_in_any_history. Qed.
Print Assumptions C18_gen_in_any_history.

(* the state every history of the implementation starts from: the two regenerated catalogues *)
Theorem C18_history_initial_state : s_inst init_state = catalogue /\ s_comp init_state = comp_catalog.
Proof. exact init_state_is_catalogues. Qed.
Print Assumptions C18_history_initial_state.

(* ---------------- what is proved about list.sort itself, and what follows for every catalogue ---------------- *)
(* Base/PySort.v only moves elements: for ANY comparison (consistent or not) the result is a permutation of the input *)
Theorem C18_sort_permutation : forall (A : Type), (forall x y : A, {x = y} + {x <> y}) ->
  forall (lt : A -> A -> bool) (l r : list A), py_sort lt l = Some r -> Permutation l r.
Proof. exact @py_sort_permutation. Qed.
Print Assumptions C18_sort_permutation.

(* hence, for EVERY catalogue and EVERY request (nothing evaluated): when candidates exist the answer names an entry that
   satisfies the request; when none exists it is the last key *)
Theorem C18_sufficient_any_catalogue : forall cat req n,
  candidates cat req <> [] -> map_caps cat req = Some n ->
  exists e, In e cat /\ fst e = n /\ fits req (snd e) = true.
Proof. exact map_caps_sufficient. Qed.
Print Assumptions C18_sufficient_any_catalogue.

Theorem C18_fallback_any_catalogue : forall cat req, candidates cat req = [] -> map_caps cat req = last_opt (map fst cat).
Proof. exact map_caps_fallback. Qed.
Print Assumptions C18_fallback_any_catalogue.

(* Minimality is NOT a consequence of "sorted and stable": Capacities.__lt__ (componentwise <=) is not a strict weak order,
   and two correct stable sorts put different elements first -- list.sort picks 5.5.5, the textbook insertion sort 2.2.2.
   C18_sizing therefore states minimality without reference to the sort (no other satisfying entry is <= the answer)
   and proves it for the shipped catalogue through what list.sort does (C18_cells_ok). *)
Theorem C18_choice_depends_on_sort_algorithm :
  exists l, py_sort_first clt3 l = Some (5, 5, 5) /\ hd_error (ins_sort clt3 l) = Some (2, 2, 2) /\
            clt3 (2, 2, 2) (5, 5, 5) = true.
Proof. exact choice_depends_on_algorithm. Qed.
Print Assumptions C18_choice_depends_on_sort_algorithm.

(* ---------------- the caller's label objects ---------------- *)
(* The code attaches a COPY of every caller-supplied Labels object before stamping local_name (fix 356ad86; the
   translator reads how the object is attached from the source: Gen.Catalog.stamps_caller_labels). *)
Theorem C18_labels_are_copied : stamps_caller_labels = false.
Proof. exact labels_are_copied. Qed.
Print Assumptions C18_labels_are_copied.

(* Hence, for ALL arguments -- label objects shared between ports included --: what the caller sees when the call returns
   is gen_component's result (each port carries ITS local_name, C18_component), and no label object handed over is modified *)
Theorem C18_caller_sees_gen_component : forall cat name s nsid ids labs parent,
  gen_component_seen cat name s nsid ids labs parent = gen_component cat name s nsid ids labs parent /\
  caller_labels_after cat name s nsid ids labs parent = match labs with Some l => map (fun _ => None) l | None => [] end.
Proof. exact caller_sees_gen_component. Qed.
Print Assumptions C18_caller_sees_gen_component.

(* why the copy matters (the behaviour before the fix, kept as the model's other branch: the check follows either tree) *)
Theorem C18_stamping_would_alias :
  let e : comp_entry := (S"M", [], S"SmartNIC", S"d", Some [(S"p1", 100); (S"p2", 100)]) in
  let lb := {| lab_bdf := BNone; lab_tag := 0%N |} in
  exists c ns i, gen_component_seen_with true [e] (S"n1") (ByTypeModel (Some (S"SmartNIC")) (Some (S"M"))) None None (Some [lb; lb]) None = Ok c /\
    c_ns c = Some ns /\ nth_error (ns_ifs ns) 0 = Some i /\ if_name i = S"n1-p1" /\ if_local i = LStr (S"p2").
Proof. exact stamping_would_alias. Qed.
Print Assumptions C18_stamping_would_alias.

(* whichever way labels are attached: with pairwise distinct label objects the caller sees gen_component's result *)
Theorem C18_distinct_labels : forall cat e name nsid ids labs parent,
  find_entry cat (e_model e) (e_type e) = Some e ->
  type_from_str (e_type e) = Some (e_type e) ->
  entry_args_wf e ids labs = true ->
  (forall ports l, e_ifs e = Some ports -> labs = Some l ->
     NoDup (map (fun pl : str * lab => lab_tag (snd pl)) (combine (map fst ports) l))) ->
  gen_component_seen cat name (ByTypeModel (Some (e_type e)) (Some (e_model e))) nsid ids labs parent
  = gen_component cat name (ByTypeModel (Some (e_type e)) (Some (e_model e))) nsid ids labs parent.
Proof. exact seen_is_gen_component_when_distinct. Qed.
Print Assumptions C18_distinct_labels.

(* ---------------- the other look-ups over the same catalogue ---------------- *)
(* component_details(model): the details of an entry with that Model (the last one), CatalogException iff there is none *)
Theorem C18_component_details_exact : forall cat m,
  match component_details cat m with
  | Ok d => exists e, In e cat /\ e_model e = m /\ e_details e = d
  | Err c => c = S"CatalogException" /\ forall e, In e cat -> e_model e <> m
  end.
Proof. exact component_details_exact. Qed.
Print Assumptions C18_component_details_exact.

(* search_catalog(ctype): exactly the entries of that Type -- every pair returned is (Model, Details) of such an entry and
   every such entry's Model is a key --, CatalogException iff there is none *)
Theorem C18_search_catalog_exact : forall cat t,
  match search_catalog cat t with
  | Ok d => (forall m dd, In (m, dd) d -> exists e, In e cat /\ e_type e = t /\ e_model e = m /\ e_details e = dd) /\
            (forall e, In e cat -> e_type e = t -> exists dd, In (e_model e, dd) d)
  | Err c => c = S"CatalogException" /\ forall e, In e cat -> e_type e <> t
  end.
Proof. exact search_catalog_exact. Qed.
Print Assumptions C18_search_catalog_exact.

(* a model_type outside the combined enumeration is refused (KeyError); by C18_history_state_unchanged a refused call,
   like every call, leaves the catalogue state as it was *)
Theorem C18_foreign_model_type_refused : forall cat name nsid ids labs parent,
  gen_component cat name (ByModelType 0) nsid ids labs parent = Err (S"KeyError").
Proof. exact foreign_model_type_refused. Qed.
Print Assumptions C18_foreign_model_type_refused.

(* ---------------- non-vacuity ---------------- *)
(* some request has candidates and some has none; the cell list is not trivial; class_ok is not constantly true *)
Example C18_nonvacuous_sizing :
  candidates catalogue (0, 0, 0) <> [] /\
  candidates catalogue (max_of (dim_vals core catalogue) + 1, 0, 0) = [] /\
  Nat.ltb 1 (List.length (reps catalogue)) = true /\
  class_ok [(S"a", (1, 1, 5)); (S"b", (1, 1, 1))] (1, 1, 1) = true /\       (* two runs, b wins: minimal *)
  class_ok [(S"a", (1, 1, 1)); (S"b", (1, 1, 1))] (1, 1, 1) = false /\      (* a tie is rejected *)
  (* list.sort with the partial order CAN put a non-minimal size first: 2.2.2 <= 5.5.5 but 5.5.5 wins *)
  map_caps [(S"a", (5, 5, 5)); (S"b", (1, 9, 1)); (S"c", (2, 2, 2))] (1, 1, 1) = Some (S"a") /\
  class_ok [(S"a", (5, 5, 5)); (S"b", (1, 9, 1)); (S"c", (2, 2, 2))] (1, 1, 1) = false.
Proof. repeat split; try (vm_compute; reflexivity); vm_compute; discriminate. Qed.

Example C18_nonvacuous_component :
  let e : comp_entry := (S"M", [S"M2"], S"SmartNIC", S"d", Some [(S"p1", 100); (S"p2", 25)]) in
  let labs := Some [{| lab_bdf := BList [S"x"; S"y"]; lab_tag := 0 |}; {| lab_bdf := BNone; lab_tag := 1 |}] in
  entry_args_wf e (Some [S"id0"; S"id1"]) labs = true /\
  option_map (fun ns => map (fun i => (if_id i, if_tag i, if_unit i, if_bw i)) (ns_ifs ns))
    (match gen_from_entry e (S"n1") None (Some [S"id0"; S"id1"]) labs None with Ok c => c_ns c | Err _ => None end)
  = Some [(IdGiven (S"id0"), Some 0%N, 2, 100); (IdGiven (S"id1"), Some 1%N, 1, 25)] /\
  (exists e', In e' comp_catalog /\ e_ifs e' <> None).
Proof.
  split; [reflexivity|]. split; [vm_compute; reflexivity|].
  destruct (find (fun e => match e_ifs e with Some _ => true | None => false end) comp_catalog) as [e'|] eqn:E.
  - exists e'. apply find_some in E. destruct E as [He Hi]. split; [exact He|]. destruct (e_ifs e'); [discriminate|discriminate].
  - vm_compute in E. discriminate.
Qed.

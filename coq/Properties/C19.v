(* C19 - persistent-backend statements are well-formed and data-independent.
   Only statements; each is closed by `exact` of a lemma from Proofs/Cypher19Sound.v / Cypher19Ops.v.
   gen_templates (Gen/Cypher.v) is REGENERATED on every run from every `session.run` site under fim/:
   one template (Lit text | Hole var kind, keyword names) per site and variant.

   Full statement:  forall t, In t gen_templates -> conforms t     (conforms: Model/Cypher19.v).
   It is FALSE of the code as long as an operation pastes a stored value unescaped; C19_all_operations_status
   says which of the two holds for the regenerated table: either the full statement, or a concrete refutation of
   the first excused template.  The `_partial` version excludes exactly the templates that belong to an operation
   registered as a known finding (known_ops) AND contain a value-class hole (the defect's signature); with
   known_ops empty it is the full statement. *)
From Coq Require Import List NArith Bool String.
Import ListNotations.
From FIM Require Import Base.Str Model.Cypher19 Gen.Cypher Proofs.Cypher19Sound Proofs.Cypher19Ops.
Open Scope N_scope.

(* the translator recognised every call site (fail-closed flag) *)
Theorem C19_translated : gen_ok = true.
Proof. exact gen_ok_true. Qed.
Print Assumptions C19_translated.

(* checker soundness, unbounded: an accepted template renders - for EVERY filling of its identifier holes with
   identifiers and EVERY two assignments of stored values - to well-formed statements on which the scanner ends
   in the same state (the texts differ inside correctly escaped literals only), and to ONE text when the
   template has no escaped literal *)
Theorem C19_sound : forall t, tmpl_ok t = true -> conforms t.
Proof. exact tmpl_ok_conforms. Qed.
Print Assumptions C19_sound.

Theorem C19_data_independent : forall t, tmpl_ok t = true -> has_esc_hole (t_frags t) = false ->
  forall e e', agree_on (ident_vars (t_frags t)) e e' -> render (t_frags t) e = render (t_frags t) e'.
Proof. exact tmpl_ok_data_independent. Qed.
Print Assumptions C19_data_independent.

Theorem C19_structure_independent : forall t, tmpl_ok t = true ->
  forall e e', idents_ok (t_frags t) e -> idents_ok (t_frags t) e' ->
  scan init (render (t_frags t) e) = scan init (render (t_frags t) e').
Proof. exact tmpl_ok_structure_independent. Qed.
Print Assumptions C19_structure_independent.

Theorem C19_well_formed : forall t, tmpl_ok t = true ->
  forall e, idents_ok (t_frags t) e -> wf_b (render (t_frags t) e) (t_params t) = true.
Proof. exact tmpl_ok_well_formed. Qed.
Print Assumptions C19_well_formed.

(* what "well-formed" delivers: the scanner reaches the end of the text between tokens with every bracket
   closed, every $name among the supplied parameters, every used variable bound *)
Theorem C19_well_formed_means : forall text ps, wf_b text ps = true ->
  exists s, final_state text = Some s /\ s_mode s = MNorm /\ s_stack s = [] /\
            subset (s_params s) ps = true /\ subset (s_uses s) (s_binds s) = true.
Proof. exact wf_b_inv. Qed.
Print Assumptions C19_well_formed_means.

(* every operation of the backend (every regenerated template), except the known findings *)
Theorem C19_all_operations_partial : forall t, In t gen_templates -> excused t = false -> conforms t.
Proof. exact all_ops_partial. Qed.
Print Assumptions C19_all_operations_partial.

Theorem C19_all_operations_checked_partial :
  forallb (fun t => tmpl_ok t || excused t) gen_templates = true.
Proof. exact all_ops_partial_b. Qed.
Print Assumptions C19_all_operations_checked_partial.

(* the full statement: it holds for the regenerated table, or the first excused template is refuted by a value
   with a quote (different text for the same identifiers, and an ill-formed statement) *)
Theorem C19_all_operations_status :
  match find excused gen_templates with
  | Some t => In t gen_templates /\ excused t = true /\ refuted_by_value t
  | None => forall t, In t gen_templates -> conforms t
  end.
Proof. exact all_ops_status. Qed.
Print Assumptions C19_all_operations_status.

(* the excuse list is tight: every excused operation really has a template with a value-class hole *)
Theorem C19_known_findings_tight :
  forallb (fun op => existsb (fun t => str_eqb (t_op t) op && has_value_hole (t_frags t)) gen_templates) known_ops = true.
Proof. exact known_ops_tight. Qed.
Print Assumptions C19_known_findings_tight.

(* the hypothesis idents_ok is met by the real identifier arguments: every class label, relation type and
   property name constant of the interface is an identifier *)
Theorem C19_interface_constants_are_identifiers : forall c, In c gen_ident_constants -> ident_okb c = true.
Proof. exact interface_constants_In. Qed.
Print Assumptions C19_interface_constants_are_identifiers.

(* the alternative the property allows: a value pasted as a correctly escaped quoted literal never changes
   the structure of the statement - for every value, whatever quotes or backslashes it contains *)
Theorem C19_escaped_literal : forall pre post ps v v' s,
  scan init pre = Some s -> s_mode s = MNorm -> is_keyctx (s_pv s) = false ->
  wf_b (pre ++ quoted_literal v ++ post) ps = wf_b (pre ++ quoted_literal v' ++ post) ps.
Proof. exact escaped_literal_wf. Qed.
Print Assumptions C19_escaped_literal.

(* ... generalised to nesting: what the reader of a literal gets back from text escaped d times is the text *)
Theorem C19_unescape_escape : forall d v, unesc_n d (esc_n d v) = v.
Proof. exact unesc_esc_n. Qed.
Print Assumptions C19_unescape_escape.

(* a statement pasted as an escaped literal into another one (the APOC export's inner statement) is a template
   of the table itself - so it is covered by C19_all_operations_* - and for every environment the parent's text
   contains exactly the escape of the nested statement's text *)
Theorem C19_nested_statements :
  forall p, In p gen_nested ->
  exists tn tp, find_by_id gen_templates (fst p) = Some tn /\ find_by_id gen_templates (snd p) = Some tp /\
    forall e, idents_ok (t_frags tn) e ->
    exists a b, render (t_frags tp) e = a ++ esc_q (render (t_frags tn) e) ++ b.
Proof. exact nested_denote. Qed.
Print Assumptions C19_nested_statements.

(* ---- non-vacuity ------------------------------------------------------------------------------ *)
(* node_exists as it is now: accepted, and for the label NetworkNode the text is the expected one; the same
   statement without the closing parenthesis of the node pattern (before fix 0697c3f) is rejected *)
Example C19_nonvacuous_node_exists :
  let t := mk_tmpl 0 (S"Neo4jPropertyGraph.node_exists")
             [Lit (S"MATCH (n:GraphNode:"); Hole 0 HIdent;
              Lit (S" {GraphID: $graphId, NodeID: $nodeId}) RETURN collect(n.NodeID) as nodeids")]
             [S"graphId"; S"nodeId"] true in
  let e := env_of_list [S"NetworkNode"] in
  tmpl_ok t = true /\ idents_okb (t_frags t) e = true /\
  render (t_frags t) e = S"MATCH (n:GraphNode:NetworkNode {GraphID: $graphId, NodeID: $nodeId}) RETURN collect(n.NodeID) as nodeids" /\
  wf_b (S"MATCH (n:GraphNode:NetworkNode {GraphID: $graphId, NodeID: $nodeId} RETURN collect(n.NodeID) as nodeids")
       [S"graphId"; S"nodeId"] = false.
Proof. vm_compute. repeat split. Qed.

(* each clause of well-formedness rejects something: unexpanded residue, unbound variable, missing
   parameter, open quote; and a value-class hole is never accepted *)
Example C19_nonvacuous_rejections :
  wf_b (S"MATCH (a:GraphNode {{GraphID: $graphId}}) RETURN a") [S"graphId"] = false /\
  wf_b (S"MATCH (a) -[r:{kind}]- (b) RETURN r") [] = false /\
  wf_b (S"MATCH (r:GraphNode {GraphID: $graphId}) SET r+= $props RETURN properties(s)") [S"graphId"; S"props"] = false /\
  wf_b (S"MATCH (r:GraphNode {GraphID: $graphId}) SET r+= $props RETURN properties(r)") [S"graphId"] = false /\
  wf_b (S"MATCH (r:GraphNode {GraphID: $graphId}) SET r+= $props RETURN properties(r)") [S"graphId"; S"props"] = true /\
  wf_b (S"MATCH (n {Name: 'it's'}) RETURN n") [] = false /\
  tmpl_ok (mk_tmpl 0 [] [Lit (S"MATCH (n {GraphID: """); Hole 0 HValue; Lit (S"""}) RETURN n")] [] true) = false.
Proof. vm_compute. repeat split. Qed.

(* the repaired serialize_graph (proposed_fixes/C19-2): the graph id escaped twice inside the inner statement
   inside the outer literal - accepted; for an id made of a, a double quote, a single quote and a backslash both
   levels read back what was written *)
Example C19_nonvacuous_nested_escape :
  let inner := [Lit (S"match(n:GraphNode {GraphID: """); Hole 0 (HEsc 1); Lit (S"""}) return n")] in
  let outer := [Lit (S"with '")] ++ esc_frags inner ++ [Lit (S"' as query CALL apoc.export.graphml.query(query, null, {stream: true}) YIELD data RETURN data")] in
  let e := env_of_list [S"a""'\"] in
  tmpl_ok (mk_tmpl 0 [] inner [] true) = true /\ tmpl_ok (mk_tmpl 1 [] outer [] true) = true /\
  nested_in inner outer = true /\ has_esc_hole outer = true /\
  render inner e = S"match(n:GraphNode {GraphID: ""a\""\'\\""}) return n" /\
  unesc (esc_q (render inner e)) = render inner e /\
  wf_b (render outer e) [] = true /\ wf_b (render inner e) [] = true.
Proof. vm_compute. repeat split. Qed.

Example C19_nonvacuous_escaped_literal :
  let pre := S"MATCH (n:GraphNode {GraphID: $graphId}) WHERE n.Name = " in
  exists s, scan init pre = Some s /\ s_mode s = MNorm /\ is_keyctx (s_pv s) = false /\
  wf_b (pre ++ quoted_literal (S"it's a \ test") ++ S" RETURN n") [S"graphId"] = true.
Proof. vm_compute. eexists. repeat split. Qed.

(* C19 - persistent-backend statements are well-formed and data-independent.
   Only statements; each is closed by `exact` of a lemma from Proofs/Cypher19Sound.v / Cypher19Ops.v.
   gen_templates (Gen/Cypher.v) is REGENERATED on every run from every `session.run` site under fim/:
   one template (Lit text | Hole var kind, keyword names) per site and variant.

   Full statement (FALSE of the current code, see C19_all_operations_refuted):
     forall t, In t gen_templates -> forall e e', idents_ok (t_frags t) e ->
       agree_on (ident_vars (t_frags t)) e e' ->
       render (t_frags t) e = render (t_frags t) e' /\ wf_b (render (t_frags t) e) (t_params t) = true.
   The `_partial` version excludes exactly the templates that belong to an operation registered as a known
   finding AND contain a value-class hole (the defect's signature). *)
From Coq Require Import List NArith Bool String.
Import ListNotations.
From FIM Require Import Base.Str Model.Cypher19 Gen.Cypher Proofs.Cypher19Sound Proofs.Cypher19Ops.
Open Scope N_scope.

(* the translator recognised every call site (fail-closed flag) *)
Theorem C19_translated : gen_ok = true.
Proof. exact gen_ok_true. Qed.
Print Assumptions C19_translated.

(* checker soundness, unbounded: an accepted template renders - for EVERY filling of its identifier holes
   with identifiers - to one text that is well-formed; the text is a function of the identifiers only *)
Theorem C19_sound : forall t, tmpl_ok t = true ->
  forall e e', idents_ok (t_frags t) e -> agree_on (ident_vars (t_frags t)) e e' ->
  render (t_frags t) e = render (t_frags t) e' /\
  wf_b (render (t_frags t) e) (t_params t) = true /\ wf_b (render (t_frags t) e') (t_params t) = true.
Proof. exact tmpl_ok_sound. Qed.
Print Assumptions C19_sound.

Theorem C19_data_independent : forall t, tmpl_ok t = true ->
  forall e e', agree_on (ident_vars (t_frags t)) e e' -> render (t_frags t) e = render (t_frags t) e'.
Proof. exact tmpl_ok_data_independent. Qed.
Print Assumptions C19_data_independent.

Theorem C19_well_formed : forall t, tmpl_ok t = true ->
  forall e, idents_ok (t_frags t) e -> wf_b (render (t_frags t) e) (t_params t) = true.
Proof. exact tmpl_ok_well_formed. Qed.
Print Assumptions C19_well_formed.

(* what "well-formed" delivers: the scanner reaches the end of the text between tokens with every bracket
   closed, every $name among the supplied parameters, every used variable bound *)
Theorem C19_well_formed_means : forall text ps, wf_b text ps = true ->
  exists s, final_state text = Some s /\ s_mode s = MNorm /\ s_stack s = [] /\
            subset (s_params s) ps = true /\ subset (s_uses s) (s_binds s) = true.
Proof. exact wf_b_inv. Qed.
Print Assumptions C19_well_formed_means.

(* every operation of the backend (every regenerated template), except the known findings *)
Theorem C19_all_operations_partial :
  forall t, In t gen_templates -> excused t = false ->
  forall e e', idents_ok (t_frags t) e -> agree_on (ident_vars (t_frags t)) e e' ->
  render (t_frags t) e = render (t_frags t) e' /\
  wf_b (render (t_frags t) e) (t_params t) = true /\ wf_b (render (t_frags t) e') (t_params t) = true.
Proof. exact all_ops_partial. Qed.
Print Assumptions C19_all_operations_partial.

Theorem C19_all_operations_checked_partial :
  forallb (fun t => tmpl_ok t || excused t) gen_templates = true.
Proof. exact all_ops_partial_b. Qed.
Print Assumptions C19_all_operations_checked_partial.

(* the full statement is false of the current code: some operation pastes a stored value into the text,
   and a value with a quote makes the statement ill-formed *)
Theorem C19_all_operations_refuted :
  exists t e e', In t gen_templates /\ idents_ok (t_frags t) e /\ agree_on (ident_vars (t_frags t)) e e' /\
                 render (t_frags t) e <> render (t_frags t) e' /\
                 wf_b (render (t_frags t) e') (t_params t) = false.
Proof. exact all_ops_refuted. Qed.
Print Assumptions C19_all_operations_refuted.

(* the excuse list is tight: every excused operation really has a template with a value-class hole *)
Theorem C19_known_findings_tight :
  forallb (fun op => existsb (fun t => str_eqb (t_op t) op && has_value_hole (t_frags t)) gen_templates) known_ops = true.
Proof. exact known_ops_tight. Qed.
Print Assumptions C19_known_findings_tight.

(* the hypothesis idents_ok is met by the real identifier arguments: every class label, relation type and
   property name constant of the interface is an identifier *)
Theorem C19_interface_constants_are_identifiers : forall c, In c gen_ident_constants -> ident_okb c = true.
Proof. exact interface_constants_In. Qed.
Print Assumptions C19_interface_constants_are_identifiers.

(* the alternative the property allows: a value pasted as a correctly escaped quoted literal never changes
   the structure of the statement - for every value, whatever quotes or backslashes it contains *)
Theorem C19_escaped_literal : forall pre post ps v v' s,
  scan init pre = Some s -> s_mode s = MNorm -> is_keyctx (s_pv s) = false ->
  wf_b (pre ++ quoted_literal v ++ post) ps = wf_b (pre ++ quoted_literal v' ++ post) ps.
Proof. exact escaped_literal_wf. Qed.
Print Assumptions C19_escaped_literal.

(* ---- non-vacuity ------------------------------------------------------------------------------ *)
(* node_exists as it is now: accepted, and for the label NetworkNode the text is the expected one; the same
   statement without the closing parenthesis of the node pattern (before fix 0697c3f) is rejected *)
Example C19_nonvacuous_node_exists :
  let t := mk_tmpl 0 (S"Neo4jPropertyGraph.node_exists")
             [Lit (S"MATCH (n:GraphNode:"); Hole 0 HIdent;
              Lit (S" {GraphID: $graphId, NodeID: $nodeId}) RETURN collect(n.NodeID) as nodeids")]
             [S"graphId"; S"nodeId"] true in
  let e := env_of_list [S"NetworkNode"] in
  tmpl_ok t = true /\ idents_okb (t_frags t) e = true /\
  render (t_frags t) e = S"MATCH (n:GraphNode:NetworkNode {GraphID: $graphId, NodeID: $nodeId}) RETURN collect(n.NodeID) as nodeids" /\
  wf_b (S"MATCH (n:GraphNode:NetworkNode {GraphID: $graphId, NodeID: $nodeId} RETURN collect(n.NodeID) as nodeids")
       [S"graphId"; S"nodeId"] = false.
Proof. vm_compute. repeat split. Qed.

(* each clause of well-formedness rejects something: unexpanded residue, unbound variable, missing
   parameter, open quote; and a value-class hole is never accepted *)
Example C19_nonvacuous_rejections :
  wf_b (S"MATCH (a:GraphNode {{GraphID: $graphId}}) RETURN a") [S"graphId"] = false /\
  wf_b (S"MATCH (a) -[r:{kind}]- (b) RETURN r") [] = false /\
  wf_b (S"MATCH (r:GraphNode {GraphID: $graphId}) SET r+= $props RETURN properties(s)") [S"graphId"; S"props"] = false /\
  wf_b (S"MATCH (r:GraphNode {GraphID: $graphId}) SET r+= $props RETURN properties(r)") [S"graphId"] = false /\
  wf_b (S"MATCH (r:GraphNode {GraphID: $graphId}) SET r+= $props RETURN properties(r)") [S"graphId"; S"props"] = true /\
  wf_b (S"MATCH (n {Name: 'it's'}) RETURN n") [] = false /\
  tmpl_ok (mk_tmpl 0 [] [Lit (S"MATCH (n {GraphID: """); Hole 0 HValue; Lit (S"""}) RETURN n")] [] true) = false.
Proof. vm_compute. repeat split. Qed.

Example C19_nonvacuous_escaped_literal :
  let pre := S"MATCH (n:GraphNode {GraphID: $graphId}) WHERE n.Name = " in
  exists s, scan init pre = Some s /\ s_mode s = MNorm /\ is_keyctx (s_pv s) = false /\
  wf_b (pre ++ quoted_literal (S"it's a \ test") ++ S" RETURN n") [S"graphId"] = true.
Proof. vm_compute. eexists. repeat split. Qed.

(* C01 - model serialization round trip is lossless and re-importable.
   Only statements; each is closed by `exact` of a lemma from Proofs/Serial1*.v.  The functions are the
   model of Model/Serial1Text.v (text items: escaping, character references, line ends) and
   Model/Serial1Graph.v (GraphML document, node-link JSON, store, importer), tied to /repo on every run by
   harness/c01.py.

   Reading aid:  content g        = attribute dicts of the nodes + edges named by the NodeIDs of their ends + edge dicts
                 restamp gid g    = g with GraphID := gid on every node
                 copy_of / copy_direct = the graph as it sits in the store after the import (fresh internal ids)
                 graph_wf         = node keys distinct, edge ends are nodes, dict keys distinct, strings XML-legal,
                                    every node and edge has a non-empty string Class
                 fmt_ok f g       = graph_wf g for GraphML;  graph_shape g && no structural JSON names for JSON *)
From Coq Require Import String.
From Coq Require Import List ZArith NArith Bool.
From FIM Require Import Base.Str Base.Json Model.Serial1Text Model.Serial1Graph Model.Serial1Json Model.Serial1Corr Model.Serial1Disjoint.
From FIM Require Import Proofs.Serial1Text Proofs.Serial1Doc Proofs.Serial1Store Proofs.Serial1Main Proofs.Serial1Inv.
From FIM Require Import Proofs.Serial1JsonText Proofs.Serial1DisjRT Proofs.Serial1Extract.
Import ListNotations.

(* ================= text layer ================= *)
(* every XML-legal string - carriage returns included - reaches the reader unchanged *)
Theorem C01_text_escape_exact : forall s, xml_legal s = true -> text_trip s = Some s.
Proof. exact text_trip_legal. Qed.
Print Assumptions C01_text_escape_exact.

(* the label / labels attribute values survive the attribute escaping and normalisation *)
Theorem C01_label_attribute_text : forall s, xml_legal s = true -> attr_out s = Some s.
Proof. exact attr_out_legal. Qed.
Print Assumptions C01_label_attribute_text.

(* ================= values ================= *)
(* a str / int / bool value, written with the type chosen from its Python type, is read back as the same value *)
Theorem C01_value_roundtrip : forall v, val_legal v = true ->
  match text_trip (text_of v) with Some t => read_value (ty_of v) t | None => None end = Some v.
Proof. exact value_roundtrip. Qed.
Print Assumptions C01_value_roundtrip.

(* ================= documents ================= *)
Theorem C01_graphml_document_roundtrip : forall g, graph_wf g = true ->
  exists d, serialize_graphml g = Some d /\ read_graphml d = Some g.
Proof. exact graphml_roundtrip. Qed.
Print Assumptions C01_graphml_document_roundtrip.

Theorem C01_json_document_roundtrip : forall g, graph_json_ok g = true -> jread (jwrite g) = Some g.
Proof. exact json_roundtrip. Qed.
Print Assumptions C01_json_document_roundtrip.

(* every node carries labels=":GraphNode:"++Class and every edge label=Class in the GraphML text *)
Theorem C01_label_markup : forall g d, graph_wf g = true -> serialize_graphml g = Some d -> labels_ok d = true.
Proof. exact graphml_label_markup. Qed.
Print Assumptions C01_label_markup.

(* ================= what the text holds, in any store ================= *)
(* also in a store with links between nodes of different graph ids (merge_nodes leaves such links until the other
   graph's nodes are re-homed): the graph serialize_graph works on consists of exactly the stored nodes that carry
   the graph id and exactly the stored links with BOTH ends among them ... *)
Theorem C01_extract_exactly_own_nodes_and_links : forall s gid g, extract s gid = Some g ->
  (forall n, In n (g_nodes g) <-> In n (s_nodes s) /\ has_gid gid n = true)
  /\ (forall e, In e (g_edges g) <->
                In e (s_edges s) /\ In (fst (fst e)) (map fst (g_nodes g)) /\ In (snd (fst e)) (map fst (g_nodes g)))
  /\ closed g.
Proof. exact extract_exact. Qed.
Print Assumptions C01_extract_exactly_own_nodes_and_links.

(* ... and the text denotes exactly that graph (so the round-trip theorems below apply to either side of a cross link) *)
Theorem C01_serialized_text_denotes_the_graph : forall f s gid g, extract s gid = Some g -> fmt_ok f g = true ->
  exists t, serialize_graph s gid f = Some (Some t) /\ text_graph t = Some g.
Proof. exact serialize_graph_denotes. Qed.
Print Assumptions C01_serialized_text_denotes_the_graph.

(* ================= store + importer: the four entry points, both formats ================= *)
(* import_graph_from_string / import_graph_from_file (new graph id gid') *)
Theorem C01_roundtrip_restamp : forall f ep s gid gid' g,
  is_direct ep = false -> store_wf s = true -> extract s gid = Some g ->
  fmt_ok f g = true -> graph_ids_ok g = true ->
  exists t s' g',
    serialize_graph s gid f = Some (Some t)
    /\ import_via ep s t gid' = (s', ROk gid')
    /\ extract s' gid' = Some g'
    /\ g' = copy_of s gid' g
    /\ content g' = content (restamp gid' g).
Proof. exact roundtrip_restamp. Qed.
Print Assumptions C01_roundtrip_restamp.

(* import_graph_from_string_direct / import_graph_from_file_direct (graph id kept) *)
Theorem C01_roundtrip_direct : forall f ep s gid g,
  is_direct ep = true -> store_wf s = true -> extract s gid = Some g -> fmt_ok f g = true ->
  forall gid', exists t s' g',
    serialize_graph s gid f = Some (Some t)
    /\ import_via ep s t gid' = (s', ROk gid)
    /\ extract s' gid = Some g'
    /\ g' = copy_direct s g
    /\ content g' = content g.
Proof. exact roundtrip_direct. Qed.
Print Assumptions C01_roundtrip_direct.

(* a refused import (a node without NodeID) under a graph id not in use leaves the store exactly as it was: no node
   under the refused id, the id counter not moved - so the import that follows is not affected *)
Theorem C01_refused_import_leaves_store : forall ep s t gid g,
  is_direct ep = false -> text_graph t = Some g -> graph_shape g = true -> graph_ids_ok g = false ->
  existsb (has_gid gid) (s_nodes s) = false ->
  import_via ep s t gid = (s, RErrImport).
Proof. exact import_refused. Qed.
Print Assumptions C01_refused_import_leaves_store.

(* ================= loading onto a graph id that is in use ================= *)
(* whatever the store holds under the target id (an older or modified version, another graph, nothing): after a
   re-stamping import of a text denoting g the id holds exactly a copy of g ... *)
Theorem C01_load_onto_id_in_use_restamp : forall ep s t gid g,
  is_direct ep = false -> store_wf s = true -> text_graph t = Some g ->
  graph_shape g = true -> graph_ids_ok g = true -> g_nodes g <> [] ->
  exists s', import_via ep s t gid = (s', ROk gid)
             /\ extract s' gid = Some (copy_of s gid g)
             /\ content (copy_of s gid g) = content (restamp gid g).
Proof. exact load_restamp_any_store. Qed.
Print Assumptions C01_load_onto_id_in_use_restamp.

(* ... and so for the direct entry points and the id the text names *)
Theorem C01_load_onto_id_in_use_direct : forall ep s t gid g,
  is_direct ep = true -> store_wf s = true -> text_graph t = Some g ->
  graph_shape g = true -> g_nodes g <> [] -> (forall n, In n (g_nodes g) -> has_gid gid n = true) ->
  forall gid', exists s', import_via ep s t gid' = (s', ROk gid)
             /\ extract s' gid = Some (copy_direct s g)
             /\ content (copy_direct s g) = content g.
Proof. exact load_direct_any_store. Qed.
Print Assumptions C01_load_onto_id_in_use_direct.

(* RELOAD UNDER THE SAME ID (t.load(graph_string=snapshot), t.load(file_name=saved), load(.., new_graph_id=current id)):
   a stored graph is serialized; whatever happens to the store in between (s2 is ANY well-formed store), loading the
   snapshot back under the graph's own id through any entry point leaves exactly the snapshot's content under that id *)
Theorem C01_reload_same_id : forall f ep s s2 gid g,
  store_wf s = true -> extract s gid = Some g -> fmt_ok f g = true -> graph_ids_ok g = true -> store_wf s2 = true ->
  exists t, serialize_graph s gid f = Some (Some t)
            /\ forall gid', exists s' g', import_via ep s2 t (if is_direct ep then gid' else gid) = (s', ROk gid)
                                         /\ extract s' gid = Some g' /\ content g' = content g.
Proof. exact reload_same_id. Qed.
Print Assumptions C01_reload_same_id.

(* ================= serializing the copy again ================= *)
(* the second text denotes exactly the imported copy, whose content is that of the first text (up to the stamp) *)
Theorem C01_reserialize_stable_restamp : forall f s gid' g,
  fmt_ok f g = true -> gid_ok f gid' = true ->
  let copy := copy_of s gid' g in
  exists t2, serialize f copy = Some t2 /\ text_graph t2 = Some copy.
Proof. exact reserialize_restamp. Qed.
Print Assumptions C01_reserialize_stable_restamp.

Theorem C01_reserialize_stable_direct : forall f s g,
  fmt_ok f g = true ->
  let copy := copy_direct s g in
  exists t2, serialize f copy = Some t2 /\ text_graph t2 = Some copy.
Proof. exact reserialize_direct. Qed.
Print Assumptions C01_reserialize_stable_direct.

(* ================= validation after import ================= *)
(* validate_graph: [jsonok] is the JSON check of the JSON-carrying properties, any predicate that does not
   concern GraphID *)
Theorem C01_validates_after_import_restamp : forall jsonok f ep s gid gid' g,
  (forall v, jsonok P_GraphID v = true) ->
  is_direct ep = false -> store_wf s = true -> extract s gid = Some g ->
  fmt_ok f g = true -> graph_ids_ok g = true -> validate jsonok g = true ->
  exists t s' g', serialize_graph s gid f = Some (Some t) /\ import_via ep s t gid' = (s', ROk gid')
                  /\ extract s' gid' = Some g' /\ validate jsonok g' = true.
Proof. exact validates_after_import_restamp. Qed.
Print Assumptions C01_validates_after_import_restamp.

Theorem C01_validates_after_import_direct : forall jsonok f ep s gid g,
  is_direct ep = true -> store_wf s = true -> extract s gid = Some g ->
  fmt_ok f g = true -> validate jsonok g = true ->
  forall gid', exists t s' g', serialize_graph s gid f = Some (Some t) /\ import_via ep s t gid' = (s', ROk gid)
                  /\ extract s' gid = Some g' /\ validate jsonok g' = true.
Proof. exact validates_after_import_direct. Qed.
Print Assumptions C01_validates_after_import_direct.

(* ================= node-link JSON at the text level ================= *)
(* json.dumps(node_link_data(g)) parsed by json.loads and read by node_link_graph gives g back: the value-level
   round trip composed with jparse (jprint v) = Some v of Base/JsonRT.v.  [tbl] is the table of property-name
   texts; strings must be free of lone surrogates (str_ok), dict keys distinct *)
Theorem C01_json_text_roundtrip : forall tbl g,
  names_ok tbl = true -> graph_json_ok g = true -> graph_json_text_ok tbl g = true ->
  exists s, json_text tbl g = Some s /\ json_read_text tbl s = Some g.
Proof. exact json_text_roundtrip. Qed.
Print Assumptions C01_json_text_roundtrip.

(* ================= the second store flavour (one nx.Graph per graph id) ================= *)
(* dget s gid = the graph filed under gid (empty graph if none); d_copy_of / d_copy_direct = the copy with ids from 1 *)
(* re-stamping entry points onto a graph id that holds no nodes: the copy is filed, no other graph changes *)
Theorem C01_disjoint_restamp_free : forall f ep s gid gid' g,
  is_direct ep = false -> dget s gid = g -> g_nodes g <> [] ->
  fmt_ok f g = true -> graph_ids_ok g = true -> nonempty (dget s gid') = false ->
  exists t s',
    d_serialize_graph s gid f = Some (Some t)
    /\ d_import_via ep s t gid' = (s', ROk gid')
    /\ dget s' gid' = d_copy_of gid' g
    /\ content (dget s' gid') = content (restamp gid' g)
    /\ (forall other, other <> gid' -> dget s' other = dget s other).
Proof. exact d_roundtrip_restamp_free. Qed.
Print Assumptions C01_disjoint_restamp_free.

(* ... onto a graph id that already holds nodes (the source id itself included): the call returns normally and the
   store is exactly as before - nothing is imported (add_graph "skipping", after fix 74c0984 without an exception) *)
Theorem C01_disjoint_restamp_in_use_is_skipped : forall f ep s gid gid' g,
  is_direct ep = false -> dget s gid = g -> g_nodes g <> [] -> fmt_ok f g = true ->
  nonempty (dget s gid') = true ->
  exists t, d_serialize_graph s gid f = Some (Some t) /\ d_import_via ep s t gid' = (s, ROk gid').
Proof. exact d_roundtrip_restamp_busy. Qed.
Print Assumptions C01_disjoint_restamp_in_use_is_skipped.

(* direct entry points: the id is read from the text; whatever that id held - here the source itself - is REPLACED *)
Theorem C01_disjoint_direct_replaces : forall f ep s gid g,
  is_direct ep = true -> dget s gid = g -> g_nodes g <> [] -> fmt_ok f g = true ->
  (forall n, In n (g_nodes g) -> has_gid gid n = true) ->
  forall gid', exists t s',
    d_serialize_graph s gid f = Some (Some t)
    /\ d_import_via ep s t gid' = (s', ROk gid)
    /\ dget s' gid = d_copy_direct g
    /\ content (dget s' gid) = content g
    /\ (forall other, other <> gid -> dget s' other = dget s other).
Proof. exact d_roundtrip_direct. Qed.
Print Assumptions C01_disjoint_direct_replaces.

(* ... also when the text names another graph id than the one it was filed under: that other graph is replaced *)
Theorem C01_disjoint_direct_replaces_named_graph : forall f ep s src gid g,
  is_direct ep = true -> dget s src = g -> g_nodes g <> [] -> fmt_ok f g = true ->
  (forall n, In n (g_nodes g) -> has_gid gid n = true) ->
  forall gid', exists t s',
    d_serialize_graph s src f = Some (Some t)
    /\ d_import_via ep s t gid' = (s', ROk gid)
    /\ dget s' gid = d_copy_direct g
    /\ (forall other, other <> gid -> dget s' other = dget s other).
Proof. exact d_direct_replaces. Qed.
Print Assumptions C01_disjoint_direct_replaces_named_graph.

Theorem C01_disjoint_reserialize_restamp : forall f gid' g, fmt_ok f g = true -> gid_ok f gid' = true ->
  exists t2, serialize f (d_copy_of gid' g) = Some t2 /\ text_graph t2 = Some (d_copy_of gid' g).
Proof. exact d_reserialize_restamp. Qed.
Print Assumptions C01_disjoint_reserialize_restamp.

Theorem C01_disjoint_reserialize_direct : forall f g, fmt_ok f g = true ->
  exists t2, serialize f (d_copy_direct g) = Some t2 /\ text_graph t2 = Some (d_copy_direct g).
Proof. exact d_reserialize_direct. Qed.
Print Assumptions C01_disjoint_reserialize_direct.

(* an id that holds nothing serializes as the empty graph, and no entry point accepts that text *)
Theorem C01_disjoint_empty_text_refused : forall f ep s gid gid', dget s gid = empty_graph ->
  exists t, d_serialize_graph s gid f = Some (Some t) /\ d_import_via ep s t gid' = (s, RErrImport).
Proof. exact d_empty_text_refused. Qed.
Print Assumptions C01_disjoint_empty_text_refused.

(* ================= API-built models ================= *)
(* harness/c01.py evaluates api_graph_ok inside Coq on every snapshot built through the topology API (slices,
   substrate sites, ARM and ADM graphs); it implies every hypothesis the theorems above put on the graph *)
Theorem C01_api_check_implies_domain : forall tbl g, api_graph_ok tbl g = true ->
  fmt_ok GraphMLFmt g = true /\ fmt_ok JsonFmt g = true /\ graph_ids_ok g = true
  /\ names_ok tbl = true /\ graph_json_ok g = true /\ graph_json_text_ok tbl g = true.
Proof. exact api_check_domain. Qed.
Print Assumptions C01_api_check_implies_domain.

(* ================= the store hypothesis holds in every reachable store ================= *)
(* store_wf (internal ids distinct and below the counter, edges between stored nodes) is kept by every load ... *)
Theorem C01_store_invariant_loads : forall ops,
  Forall (fun x : bool * str * nxg => graph_shape (snd x) = true) ops ->
  store_wf (fold_left load_op ops empty_store) = true.
Proof. exact loads_wf. Qed.
Print Assumptions C01_store_invariant_loads.

(* ... and by every import through any entry point, whatever its outcome *)
Theorem C01_store_invariant_import : forall ep s t gid, store_wf s = true ->
  (forall g, text_graph t = Some g -> graph_shape g = true) ->
  store_wf (fst (import_via ep s t gid)) = true.
Proof. exact import_via_wf. Qed.
Print Assumptions C01_store_invariant_import.

(* ================= non-vacuity ================= *)
(* ex_graph (Model/Serial1Graph.v): quotes, markup, references, non-ASCII (BMP and astral), leading/trailing
   blanks, an empty string, TAB, CR LF and a lone CR, a negative and a huge int and a bool; ex_store holds it next to another graph *)
Example C01_nonvacuous_hypotheses :
  store_wf ex_store = true /\ graph_wf ex_graph = true /\ graph_ids_ok ex_graph = true
  /\ fmt_ok JsonFmt ex_graph = true /\ gid_ok GraphMLFmt (S"new id") = true
  /\ option_map content (extract ex_store (S"g")) = Some (content ex_graph)
  /\ validate (fun _ _ => true) ex_graph = true.
Proof. vm_compute. repeat split. Qed.

(* the theorems' conclusion computed on the example: every entry point, both formats, and the other graph
   in the store is untouched *)
Example C01_nonvacuous_run :
  forall f ep,
    match extract ex_store (S"g") with
    | Some g =>
        match serialize_graph ex_store (S"g") f with
        | Some (Some t) =>
            let '(s', r) := import_via ep ex_store t (S"new id") in
            let rid := if is_direct ep then S"g" else S"new id" in
            r = ROk rid
            /\ option_map content (extract s' rid)
               = Some (content (if is_direct ep then g else restamp (S"new id") g))
            /\ option_map content (extract s' (S"other")) = Some (content ex_other)
        | _ => False
        end
    | None => False
    end.
Proof. intros [|] [| | |]; vm_compute; repeat split. Qed.

(* the graph that lost its carriage return before fix 10c1448, computed: the value comes back with its CR *)
Example C01_cr_value_kept :
  match serialize_graphml cr_witness with
  | Some d => option_map (fun g => map (fun n => pget 10%N (snd n)) (g_nodes g)) (read_graphml d)
  | None => None
  end = Some [Some (PStr [97; 13; 98]%N)].
Proof. vm_compute. reflexivity. Qed.

(* text that is not XML (here a vertical tab) makes serialization raise: the hypothesis xml_legal is needed *)
Example C01_illegal_text_refused :
  serialize_graphml {| g_nodes := [(1%N, [(P_NodeID, PStr (S"n")); (P_Class, PStr (S"C")); (10%N, PStr [97; 11; 98]%N)])];
                       g_edges := [] |} = None.
Proof. vm_compute. reflexivity. Qed.

(* JSON text: the example graph's text, computed, starts with {"directed": false and reads back as the graph *)
Example C01_json_text_example :
  names_ok ex_names = true /\ graph_json_text_ok ex_names ex_graph = true
  /\ match json_text ex_names ex_graph with
     | Some s => firstn 19 s = S"{""directed"": false," /\ json_read_text ex_names s = Some ex_graph
     | None => False
     end.
Proof. vm_compute. repeat split. Qed.

(* disjoint store: both graphs of the example filed; a re-stamping import onto the id in use changes nothing,
   onto a free id files the copy, a direct import replaces the source by its copy *)
Example C01_disjoint_example :
  let s := [(S"other", ex_other); (S"g", ex_graph)] in
  match d_serialize_graph s (S"g") GraphMLFmt with
  | Some (Some t) =>
      d_import_via EString s t (S"other") = (s, ROk (S"other"))
      /\ content (dget (fst (d_import_via EFile s t (S"new"))) (S"new")) = content (restamp (S"new") ex_graph)
      /\ dget (fst (d_import_via EStringDirect s t (S"x"))) (S"g") = d_copy_direct ex_graph
      /\ dget (fst (d_import_via EStringDirect s t (S"x"))) (S"other") = ex_other
  | _ => False
  end.
Proof. vm_compute. repeat split. Qed.

(* a store with a cross-graph link: ex_graph (graph "g") and ex_other (graph "other") loaded by ONE direct load together
   with a link between a node of each; either side serializes without the foreign node and the cross link, and
   round-trips through every entry point in both formats *)
Example C01_cross_link_example :
  store_wf ex_cross_store = true
  /\ List.length (s_edges ex_cross_store) = 2%nat
  /\ option_map content (extract ex_cross_store (S"g")) = Some (content ex_graph)
  /\ option_map content (extract ex_cross_store (S"other")) = Some (content ex_other)
  /\ forall f ep,
       match serialize_graph ex_cross_store (S"other") f with
       | Some (Some t) =>
           let '(s', r) := import_via ep ex_cross_store t (S"new id") in
           let rid := if is_direct ep then S"other" else S"new id" in
           r = ROk rid
           /\ option_map content (extract s' rid)
              = Some (content (if is_direct ep then ex_other else restamp (S"new id") ex_other))
           /\ option_map content (extract s' (S"g")) = Some (content ex_graph)
       | _ => False
       end.
Proof. repeat split; try (vm_compute; reflexivity). intros [|] [| | |]; vm_compute; repeat split. Qed.

(* format-confusing values: the opening of the other format inside property values, node id and graph id changes
   nothing - the JSON text reads back as the graph (text level), the GraphML document too, and every entry point
   imports either text *)
Example C01_format_confusing_values :
  graph_wf ex_confusing = true /\ graph_json_text_ok ex_names ex_confusing = true
  /\ match json_text ex_names ex_confusing with
     | Some s => json_read_text ex_names s = Some ex_confusing | None => False end
  /\ match serialize_graphml ex_confusing with
     | Some d => read_graphml d = Some ex_confusing | None => False end
  /\ forall f ep,
       let s := fst (add_graph_direct empty_store (S"{") ex_confusing) in
       match serialize_graph s (S"{") f with
       | Some (Some t) =>
           let '(s', r) := import_via ep s t (S"<graphml") in
           let rid := if is_direct ep then S"{" else S"<graphml" in
           r = ROk rid /\ option_map content (extract s' rid)
                          = Some (content (if is_direct ep then ex_confusing else restamp (S"<graphml") ex_confusing))
       | _ => False
       end.
Proof. repeat split; try (vm_compute; reflexivity). intros [|] [| | |]; vm_compute; repeat split. Qed.

(* C20 - store lock discipline and identifier allocation under concurrent use.
   Only statements; each is closed by `exact` of a lemma from Proofs/Locks20Sound.v, Proofs/Conc20Inv.v,
   Proofs/Locks20Gen.v.  `shared_methods` / `disjoint_methods` are the IR of every method of the two storage
   classes, REGENERATED from fim/graph/networkx_property_graph.py and networkx_property_graph_disjoint.py
   (Gen/Locks.v); `run fm m p` executes method m along path p (branch choices and, at every fault point,
   raise-or-continue); `run_sched` is the interleaving semantics (one IR event = one source line per step). *)
From Coq Require Import List NArith String Bool.
From FIM Require Import Model.Locks20 Gen.Locks Model.Conc20 Proofs.Locks20Sound Proofs.Conc20Inv Proofs.Locks20Gen.
Import ListNotations.
Open Scope N_scope.

(* the translator recognised every statement of every method (fail-closed flag) *)
Theorem C20_translated : gen_ok = true.
Proof. exact gen_ok_true. Qed.
Print Assumptions C20_translated.

(* the executable semantics never runs out of loop fuel: `run` is total without a made-up result *)
Theorem C20_run_total : forall fm m p, out_of (run fm m p) <> OFuel.
Proof. exact run_no_fuel. Qed.
Print Assumptions C20_run_total.

(* checker soundness, for ANY event automaton: if the compositional checker accepts a method from state a0
   with all exits in a0, then on EVERY path the event trace is accepted and ends in a0 *)
Theorem C20_checker_sound_any_automaton : forall tf fm a0 m,
  meth_ok tf fm a0 m = true ->
  forall p, out_of (run fm m p) <> OFuel /\ accept tf a0 (evs_of (run fm m p)) = Some a0.
Proof. exact meth_ok_sound. Qed.
Print Assumptions C20_checker_sound_any_automaton.

(* lock discipline: lock_ok m = true -> on every path (normal return, early return, exception; every statement
   of a try body may raise) each acquire is followed by exactly one release, the lock is never released while
   free nor acquired while held, and it is free at exit *)
Theorem C20_lock_checker_sound : forall m, lock_ok m = true ->
  forall p, let r := run AllFaults m p in
    out_of r <> OFuel /\ balanced (evs_of r) = true /\ count_acq (evs_of r) = count_rel (evs_of r).
Proof. exact lock_checker_sound. Qed.
Print Assumptions C20_lock_checker_sound.

(* every regenerated method of both stores passes the checker (finite table, decided by computation) *)
Theorem C20_all_methods : forallb (fun m => lock_ok (snd m)) (shared_methods ++ disjoint_methods) = true.
Proof. exact all_lock_ok. Qed.
Print Assumptions C20_all_methods.

Theorem C20_every_method_every_path : forall m p, In m (map snd (shared_methods ++ disjoint_methods)) ->
  let r := run AllFaults m p in
  out_of r <> OFuel /\ balanced (evs_of r) = true /\ count_acq (evs_of r) = count_rel (evs_of r).
Proof. exact every_method_every_path. Qed.
Print Assumptions C20_every_method_every_path.

(* any sequence of store calls, each along any path (failing ones included), leaves the lock free and never
   misuses it: no call can fail with a lock error or block a later caller *)
Theorem C20_sequences : forall cs : list (stmt * path),
  (forall c, In c cs -> In (fst c) (map snd (shared_methods ++ disjoint_methods))) ->
  balanced (run_calls cs) = true.
Proof. exact sequences_free. Qed.
Print Assumptions C20_sequences.

(* the lock OBJECT is never replaced: lock_ok rejects any assignment to self.lock and any re-run of __init__
   inside a method, so along every path, at every point of the trace, the lock is the one created with the
   store (lock_gen counts replacements); same for any sequence of calls *)
Theorem C20_lock_identity_constant : forall m, lock_ok m = true ->
  forall p pre suf g, evs_of (run AllFaults m p) = pre ++ suf -> lock_gen pre g = g.
Proof. exact lock_identity_constant. Qed.
Print Assumptions C20_lock_identity_constant.

Theorem C20_every_method_lock_identity : forall m p pre suf g,
  In m (map snd (shared_methods ++ disjoint_methods)) ->
  evs_of (run AllFaults m p) = pre ++ suf -> lock_gen pre g = g.
Proof. exact method_lock_identity. Qed.
Print Assumptions C20_every_method_lock_identity.

Theorem C20_sequences_lock_identity : forall cs : list (stmt * path),
  (forall c, In c cs -> In (fst c) (map snd (shared_methods ++ disjoint_methods))) ->
  forall pre suf g, run_calls cs = pre ++ suf -> lock_gen pre g = g.
Proof. exact sequences_identity. Qed.
Print Assumptions C20_sequences_lock_identity.

(* the STORE object itself is created once: with an accepted shape of the shell class's singleton guard
   (`X.storage_instance is None`, or `not X.storage_instance` while the inner class defines neither __len__ nor
   __bool__) constructing further shells (importers, topologies, property-graph handles) never replaces an
   existing store, whatever it holds -- so, with C20_lock_identity_constant, its lock and counters are the same
   objects for the whole process; both regenerated shell classes have an accepted shape *)
Theorem C20_singleton_identity : forall sh, singleton_ok sh = true -> forall n, replaces sh (Some n) = false.
Proof. exact singleton_identity. Qed.
Print Assumptions C20_singleton_identity.

Theorem C20_store_identity_constant :
  singleton_ok shared_singleton = true /\ singleton_ok disjoint_singleton = true /\
  forall n, replaces shared_singleton (Some n) = false /\ replaces disjoint_singleton (Some n) = false.
Proof. exact (conj (proj1 singletons_ok) (conj (proj2 singletons_ok) store_identity)). Qed.
Print Assumptions C20_store_identity_constant.

(* counter discipline of every regenerated method: counter reads/writes and node-map mutations only while
   holding the lock and in an order that keeps live ids below the counter (data automaton, declared faults) *)
Theorem C20_all_methods_counter_discipline :
  table_ok CGlobal shared_methods = true /\ table_ok CArg disjoint_methods = true.
Proof. exact all_data_ok. Qed.
Print Assumptions C20_all_methods_counter_discipline.

(* a caller removing a node from a stored graph (delete_node) while nobody is inside the store keeps the invariant
   "every live id is below its counter": ids come from the counter, a gap left by a removal is never reused *)
Theorem C20_removal_keeps_invariant : forall c s l, Inv s -> Inv (fst (do_act (XRemove c) s l)).
Proof. exact remove_keeps_Inv. Qed.
Print Assumptions C20_removal_keeps_invariant.

(* THE interleaving theorem: ANY number of threads, each running ANY programs accepted by the data automaton,
   under ANY schedule: no lock error, live node keys (cell, internal id) pairwise distinct in EVERY reachable
   state (an insertion never lands on a live node: no node lost, no live id handed out twice), and whenever
   the lock is free every live id is below its counter (so the next id handed out is fresh) *)
Theorem C20_interleavings_generic : forall c progs sched,
  Forall (accepted c 0) progs ->
  let S := run_sched (init progs) sched in
  bad S = false /\ NoDup (map nkey (nodes (sh S))) /\ (holder S = None -> Inv (sh S)).
Proof. exact interleaving_safe. Qed.
Print Assumptions C20_interleavings_generic.

(* ... instantiated on the regenerated methods: threads = any lists of calls (any graph id, any node count,
   any path incl. declared faults) of methods of the shared / the disjoint store *)
Theorem C20_interleavings_shared : forall threads sched,
  calls_from shared_methods threads ->
  let S := run_sched (init (map (flatten DeclFaults) threads)) sched in
  bad S = false /\ NoDup (map nkey (nodes (sh S))) /\ (holder S = None -> Inv (sh S)).
Proof. exact interleavings_shared. Qed.
Print Assumptions C20_interleavings_shared.

Theorem C20_interleavings_disjoint : forall threads sched,
  calls_from disjoint_methods threads ->
  let S := run_sched (init (map (flatten DeclFaults) threads)) sched in
  bad S = false /\ NoDup (map nkey (nodes (sh S))) /\ (holder S = None -> Inv (sh S)).
Proof. exact interleavings_disjoint. Qed.
Print Assumptions C20_interleavings_disjoint.

(* nobody blocks for ever: in every reachable state in which some thread still has work, some thread can
   execute its next instruction (the holder of the lock is never itself waiting, and it releases before it
   finishes) -- "no call can block later callers" under any fair scheduler *)
Theorem C20_no_deadlock_generic : forall c progs sched,
  Forall (accepted c 0) progs ->
  let S := run_sched (init progs) sched in
  unfinished S ->
  exists t i rest lo lo', nth_error (thr S) t = Some (i :: rest, lo) /\ nth_error (thr (step S t)) t = Some (rest, lo').
Proof. exact no_deadlock. Qed.
Print Assumptions C20_no_deadlock_generic.

Theorem C20_no_deadlock_shared : forall threads sched,
  calls_from shared_methods threads ->
  let S := run_sched (init (map (flatten DeclFaults) threads)) sched in
  unfinished S ->
  exists t i rest lo lo', nth_error (thr S) t = Some (i :: rest, lo) /\ nth_error (thr (step S t)) t = Some (rest, lo').
Proof. exact no_deadlock_shared. Qed.
Print Assumptions C20_no_deadlock_shared.

Theorem C20_no_deadlock_disjoint : forall threads sched,
  calls_from disjoint_methods threads ->
  let S := run_sched (init (map (flatten DeclFaults) threads)) sched in
  unfinished S ->
  exists t i rest lo lo', nth_error (thr S) t = Some (i :: rest, lo) /\ nth_error (thr (step S t)) t = Some (rest, lo').
Proof. exact no_deadlock_disjoint. Qed.
Print Assumptions C20_no_deadlock_disjoint.

(* ---- non-vacuity ---- *)
(* the checker rejects the pre-fix disjoint add_graph (explicit release + finally) and a path releasing twice exists *)
Example C20_checker_rejects_double_release :
  lock_ok old_disjoint_add_graph = false /\
  exists p, balanced (evs_of (run AllFaults old_disjoint_add_graph p)) = false.
Proof. exact old_code_rejected. Qed.

(* early return, exception and normal end of the current disjoint add_graph: one acquire, one release each *)
Example C20_three_paths :
  let m := lookup_m disjoint_methods "add_graph" in
  let r1 := run AllFaults m [false; true] in
  let r2 := run AllFaults m [false; false; false; false; true; false; true] in
  let r3 := run AllFaults m [false; false; false; false; true; false; false; false; false] in
  (out_of r1, count_acq (evs_of r1), count_rel (evs_of r1)) = (OReturn, 1%nat, 1%nat) /\
  (out_of r2, count_acq (evs_of r2), count_rel (evs_of r2)) = (ORaise, 1%nat, 1%nat) /\
  (out_of r3, count_acq (evs_of r3), count_rel (evs_of r3)) = (ONormal, 1%nat, 1%nat).
Proof. exact paths_example. Qed.

(* two threads, interleaved: ids 1 and 2; the same updates without the lock are rejected by the automaton and
   lose a node under the alternating schedule *)
Example C20_two_threads :
  let S := run_sched (init (map (flatten DeclFaults) [[blank_call]; [blank_call]])) [0;1;0;1;1;0;0;0;0;0;0;1;1;1;1;1;1;1]%nat in
  map nkey (nodes (sh S)) = [(0, 2); (0, 1)] /\ map (fun t => rets (snd t)) (thr S) = [[1]; [2]]
  /\ holder S = None /\ forallb (fun t => match fst t with [] => true | _ => false end) (thr S) = true.
Proof. exact two_threads_example. Qed.

Example C20_without_lock_a_node_is_lost :
  accepti (dataA CGlobal) 0 unlocked_blank = None /\
  let S := run_sched (init [unlocked_blank; unlocked_blank]) [0;1;0;1;0;1;0;1]%nat in
  map nkey (nodes (sh S)) = [(0, 1); (0, 1)] /\ ~ NoDup (map nkey (nodes (sh S))).
Proof. exact unlocked_loses_a_node. Qed.

(* a waiting thread: thread 1's acquire is disabled while thread 0 holds the lock, thread 0 can proceed *)
Example C20_waiting_thread :
  let S := run_sched (init (map (flatten DeclFaults) [[blank_call]; [blank_call]])) [0;0;1]%nat in
  holder S = Some 0%nat /\ step S 1%nat = S /\ unfinished S /\ step S 0%nat <> S.
Proof. exact waiting_example. Qed.

(* `with self.lock:` is accepted (balanced also on the raising path); re-running __init__ under it is rejected *)
Example C20_with_form :
  lock_ok with_del_all = true /\ data_ok CGlobal with_del_all = true /\
  map ev_code (evs_of (run AllFaults with_del_all [true])) = [(830, 1); (831, 0); (830, 2)] /\
  out_of (run AllFaults with_del_all [true]) = ORaise /\
  lock_ok reinit_del_all = false /\ data_ok CGlobal reinit_del_all = false /\
  lock_gen (evs_of (run AllFaults reinit_del_all [])) 0 = 1.
Proof. exact with_form_example. Qed.

(* an id computed from the size of the graph is rejected by the counter discipline and, after a caller deleted a
   node, is handed out twice; the regenerated method (id from the counter) hands out a fresh one *)
Example C20_id_from_size_is_rejected :
  lock_ok len_blank = true /\ data_ok CArg len_blank = false /\
  find_bad (dataA CArg) DeclFaults 0 len_blank 8 2 = Some [] /\
  (let S := run_sched (init [flatten DeclFaults [imp2; rm1; mkCall len_blank 1 0 []]]) (repeat 0%nat 60) in
   map nkey (nodes (sh S)) = [(1, 2); (1, 2)] /\ map (fun t => rets (snd t)) (thr S) = [[2]]) /\
  (let S := run_sched (init [flatten DeclFaults [imp2; rm1; mkCall (lookup_m disjoint_methods "add_blank_node_to_graph") 1 0 []]]) (repeat 0%nat 60) in
   map nkey (nodes (sh S)) = [(1, 3); (1, 2)] /\ map (fun t => rets (snd t)) (thr S) = [[3]]).
Proof. exact id_from_size_example. Qed.

(* acquire(timeout=..) with the result ignored is rejected (witness: the timed-out path); checked, it is accepted *)
Example C20_acquire_timeout :
  lock_ok acq_ignored = false /\ find_bad lockA AllFaults 0 acq_ignored 6 2 = Some [true] /\
  data_ok CGlobal acq_ignored = false /\
  lock_ok acq_checked = true /\ data_ok CGlobal acq_checked = true /\
  out_of (run AllFaults acq_checked [true]) = ORaise /\ count_acq (evs_of (run AllFaults acq_checked [true])) = 0%nat.
Proof. exact acquire_timeout_example. Qed.

(* `del d[k]` of a possibly absent key between acquire and release, outside try/finally: rejected, the witness path
   raises after the acquire and never releases *)
Example C20_raising_statement_outside_try :
  lock_ok tidy_del_graph = false /\ find_bad lockA AllFaults 0 tidy_del_graph 6 2 = Some [true; true] /\
  out_of (run AllFaults tidy_del_graph [true; true]) = ORaise /\
  map ev_code (evs_of (run AllFaults tidy_del_graph [true; true])) = [(1, 1); (2, 0); (3, 0); (4, 0)] /\
  balanced (evs_of (run AllFaults tidy_del_graph [true; true])) = false.
Proof. exact raising_outside_try_example. Qed.

(* truthiness is not identity once the inner class has __len__: the empty store (size 0) is replaced *)
Example C20_singleton_guard_shapes :
  singleton_ok (mkSing GTruthy false false) = true /\ singleton_ok (mkSing GIsNone true true) = true /\
  singleton_ok (mkSing GTruthy true false) = false /\ singleton_witness (mkSing GTruthy true false) = Some 0 /\
  replaces (mkSing GTruthy true false) (Some 0) = true /\ replaces (mkSing GTruthy true false) (Some 3) = false.
Proof. exact singleton_shape_example. Qed.

(* C13 - partitioning an aggregate model yields sound per-delegation models.
   Only statements; each is closed by `exact` of a lemma from Proofs/Adm13*.v.

   generate_adms / st_generate_adms / rewrite_delegations are the transcriptions in Model/Adm13.v of
   ABCARMPropertyGraph.generate_adms (with catalog_delegations, the stitch nodes, the link trace and the two
   owner traces through get_first_and_second_neighbor AS CODED, the removal of the rest) and of
   ABCADMPropertyGraph.rewrite_delegations; the class/relation arguments of the trace calls, the
   (in)effectiveness of the second-hop relation filter and the delegation-type order are REGENERATED from the
   source into Gen/Adm13Gen.v on every run.

   Hypotheses: wfb A = true (NodeIDs unique, every edge joins two distinct existing nodes, one edge per pair,
   delegation ids unique within a delegation property) -- a boolean predicate evaluated on every generated case of
   the correspondence; generate_adms A = Ok L excludes only the explicit error branch (a model without nodes).
   Vocabulary (Model/Adm13.v): delegated d n, restricted d n n', joins e x y, is_stitch n, rekeyed gid n. *)
From Coq Require Import List NArith Bool.
From FIM Require Import Gen.Adm13Gen Model.Adm13 Proofs.Adm13Gen Proofs.Adm13Main.
Import ListNotations.
Open Scope N_scope.

(* the translator recognised the skeleton of generate_adms, and the trace calls are the expected ones *)
Theorem C13_translated : gen_ok = true.
Proof. exact gen_ok_true. Qed.
Print Assumptions C13_translated.

Theorem C13_trace_calls :
  cp_label = CLS_ConnectionPoint /\
  trace_link = (REL_connects, CLS_Link, REL_connects, CLS_ConnectionPoint) /\
  trace_owner = [(REL_connects, CLS_NetworkService, REL_has, CLS_NetworkNode);
                 (REL_connects, CLS_NetworkService, REL_has, CLS_Component)] /\
  deleg_label_first = true.
Proof. exact gen_shape. Qed.
Print Assumptions C13_trace_calls.

(* one model per delegation id, for every well-formed non-empty aggregate model (no raise, in particular
   none on label-only / capacity-only nodes) *)
Theorem C13_total_one_model_per_id : forall A, wfb A = true -> gnodes A <> [] ->
  exists L, generate_adms A = Ok L /\ NoDup (map fst L) /\
            forall d, In d (map fst L) <-> exists n, In n (gnodes A) /\ delegated d n.
Proof. exact total_one_model_per_id. Qed.
Print Assumptions C13_total_one_model_per_id.

(* every resource delegated to d is present and carries exactly its own entries for d (each type separately) *)
Theorem C13_present_exact : forall A L d P, wfb A = true -> generate_adms A = Ok L -> In (d, P) L ->
  forall n, In n (gnodes A) -> delegated d n -> exists n', In n' (gnodes P) /\ restricted d n n'.
Proof. exact present_exact. Qed.
Print Assumptions C13_present_exact.

(* no entry of another delegation anywhere in the partition *)
Theorem C13_no_leak : forall A L d P, wfb A = true -> generate_adms A = Ok L -> In (d, P) L ->
  forall n' d' x, In n' (gnodes P) ->
    In (d', x) (entries (ldel n')) \/ In (d', x) (entries (cdel n')) -> d' = d.
Proof. exact no_leak. Qed.
Print Assumptions C13_no_leak.

(* sub-model: every node comes from a node of A with the same id and other properties (and only its d-entries);
   ids stay unique; the edges are exactly the edges of A (same class, same properties) between two kept nodes *)
Theorem C13_submodel : forall A L d P, wfb A = true -> generate_adms A = Ok L -> In (d, P) L ->
  (forall n', In n' (gnodes P) -> exists n, In n (gnodes A) /\ restricted d n n') /\
  NoDup (node_ids P) /\
  (forall e, In e (gedges P) <-> In e (gedges A) /\ In (ea e) (node_ids P) /\ In (eb e) (node_ids P)).
Proof. exact submodel. Qed.
Print Assumptions C13_submodel.

(* closure.  FULL STATEMENT (false of the code, see C13_closure_every_kept_interface_refuted):
     every connection point c of P keeps every Link l it connects to and every peer p of c on l.
   PARTIAL: it holds when c itself is delegated to d or is a stitch node (extra hypothesis = exactly the
   complement of the refuted case: c is in P only as somebody's peer).  The hypothesis that l has a peer p is
   part of the full statement too (a link without a second connection point is not traced). *)
Theorem C13_closure_seed_partial : forall A L d P, wfb A = true -> generate_adms A = Ok L -> In (d, P) L ->
  forall c l p e1 e2,
    In c (gnodes A) -> ncls c = CLS_ConnectionPoint -> (delegated d c \/ is_stitch c = true) ->
    In l (gnodes A) -> ncls l = CLS_Link -> In e1 (gedges A) -> joins e1 (nid c) (nid l) -> ecls e1 = REL_connects ->
    In p (gnodes A) -> ncls p = CLS_ConnectionPoint -> In e2 (gedges A) -> joins e2 (nid l) (nid p) -> ecls e2 = REL_connects ->
    nid p <> nid c ->
    In (nid c) (node_ids P) /\ In (nid l) (node_ids P) /\ In (nid p) (node_ids P) /\ In e1 (gedges P) /\ In e2 (gedges P).
Proof. exact closure_seed. Qed.
Print Assumptions C13_closure_seed_partial.

Theorem C13_closure_every_kept_interface_refuted :
  exists A L d P c l p e1 e2,
    wfb A = true /\ generate_adms A = Ok L /\ In (d, P) L /\
    In c (gnodes A) /\ ncls c = CLS_ConnectionPoint /\ In (nid c) (node_ids P) /\
    In l (gnodes A) /\ ncls l = CLS_Link /\ In e1 (gedges A) /\ joins e1 (nid c) (nid l) /\ ecls e1 = REL_connects /\
    In p (gnodes A) /\ ncls p = CLS_ConnectionPoint /\ In e2 (gedges A) /\ joins e2 (nid l) (nid p) /\ ecls e2 = REL_connects /\
    nid p <> nid c /\
    ~ In (nid l) (node_ids P).
Proof. exact closure_every_kept_interface_refuted. Qed.
Print Assumptions C13_closure_every_kept_interface_refuted.

(* closure, second half, at full strength: EVERY connection point of P (seed or traced) keeps its owning
   network service and that service's owner (network node or component), with the connecting edges *)
Theorem C13_closure_service : forall A L d P, wfb A = true -> generate_adms A = Ok L -> In (d, P) L ->
  forall c s o e1 e2,
    In c (gnodes A) -> ncls c = CLS_ConnectionPoint -> In (nid c) (node_ids P) ->
    In s (gnodes A) -> ncls s = CLS_NetworkService -> In e1 (gedges A) -> joins e1 (nid c) (nid s) -> ecls e1 = REL_connects ->
    In o (gnodes A) -> (ncls o = CLS_NetworkNode \/ ncls o = CLS_Component) ->
    In e2 (gedges A) -> joins e2 (nid s) (nid o) -> ecls e2 = REL_has ->
    In (nid s) (node_ids P) /\ In (nid o) (node_ids P) /\ In e1 (gedges P) /\ In e2 (gedges P).
Proof. exact closure_service. Qed.
Print Assumptions C13_closure_service.

(* all stitching elements are present in every partition *)
Theorem C13_stitch_everywhere : forall A L d P, wfb A = true -> generate_adms A = Ok L -> In (d, P) L ->
  forall n, In n (gnodes A) -> is_stitch n = true -> In (nid n) (node_ids P).
Proof. exact stitch_everywhere. Qed.
Print Assumptions C13_stitch_everywhere.

(* the original model is left untouched: generate_adms executed on a store of graphs (clone under a new graph id,
   writes addressed to the clone, traces read from the source), with ANY caller-supplied delegation_guids: whenever
   the call returns, the source and every bystander graph are as they were and the graph stored under the id of
   d is exactly the partition for d computed by generate_adms.  uuid_fresh concerns only the ids uuid4 hands out
   for delegation ids without a supplied graph id (not the ARM's, distinct, not among the supplied ones); it is
   trivially true when the caller supplies every id. *)
Theorem C13_source_untouched : forall st garm A supplied fresh st' dgs,
  sget st garm = Some A -> wfb A = true ->
  uuid_fresh garm supplied fresh (c_ids (catalog_delegations A)) ->
  st_generate_adms st garm supplied fresh = (st', Ok dgs) ->
  exists L, generate_adms A = Ok L /\
    dgs = map (fun dp => (fst dp, gid_for supplied fresh (fst dp))) L /\
    sget st' garm = Some A /\
    (forall d P, In (d, P) L -> sget st' (gid_for supplied fresh d) = Some P) /\
    (forall k, ~ In k (map snd dgs) -> sget st' k = sget st k).
Proof. exact store_level. Qed.
Print Assumptions C13_source_untouched.

(* ... and a dictionary that names the ARM's own graph id, or one graph id for two delegation ids present, is
   rejected (since 59579dc) with the store exactly as it was *)
Theorem C13_bad_guids_rejected : forall st garm supplied fresh,
  guids_ok garm supplied (c_ids (catalog_delegations (sview st garm))) = false ->
  st_generate_adms st garm supplied fresh = (st, Err EQuery).
Proof. exact bad_guids_rejected. Qed.
Print Assumptions C13_bad_guids_rejected.

Theorem C13_guids_ok_reading : forall garm supplied ds,
  guids_ok garm supplied ds = true <->
  ~ In garm (supplied_for supplied ds) /\ NoDup (supplied_for supplied ds).
Proof. exact guids_ok_iff. Qed.
Print Assumptions C13_guids_ok_reading.

(* no memory of earlier calls: the outcome (raise or not, the id -> graph-id list) depends only on the graph stored
   under garm and on the ids, whatever else the store holds; the partitions stored are the same; and a second call
   on the store left by a first one partitions the same graph the same way.  (The implementation's per-object
   cache self.node_ids is refreshed on every call; the `hist` stream of the correspondence partitions, changes the
   aggregate through the topology API and partitions again with the same ARM object against this model.) *)
Theorem C13_outcome_depends_only_on_current_graph : forall st1 st2 garm supplied fresh,
  sview st1 garm = sview st2 garm ->
  snd (st_generate_adms st1 garm supplied fresh) = snd (st_generate_adms st2 garm supplied fresh).
Proof. exact outcome_only_current. Qed.
Print Assumptions C13_outcome_depends_only_on_current_graph.

Theorem C13_partitions_depend_only_on_current_graph : forall st1 st2 garm A supplied fresh st1' st2' dgs1 dgs2,
  sget st1 garm = Some A -> sget st2 garm = Some A -> wfb A = true ->
  uuid_fresh garm supplied fresh (c_ids (catalog_delegations A)) ->
  st_generate_adms st1 garm supplied fresh = (st1', Ok dgs1) ->
  st_generate_adms st2 garm supplied fresh = (st2', Ok dgs2) ->
  dgs1 = dgs2 /\ (forall d gid, In (d, gid) dgs1 -> sget st1' gid = sget st2' gid) /\
  sget st1' garm = Some A /\ sget st2' garm = Some A.
Proof. exact depends_only_on_current_graph. Qed.
Print Assumptions C13_partitions_depend_only_on_current_graph.

Theorem C13_repeatable : forall st garm A sup1 fresh1 sup2 fresh2 st' dgs1 st'' dgs2,
  sget st garm = Some A -> wfb A = true ->
  uuid_fresh garm sup1 fresh1 (c_ids (catalog_delegations A)) ->
  uuid_fresh garm sup2 fresh2 (c_ids (catalog_delegations A)) ->
  st_generate_adms st garm sup1 fresh1 = (st', Ok dgs1) ->
  st_generate_adms st' garm sup2 fresh2 = (st'', Ok dgs2) ->
  exists L, generate_adms A = Ok L /\ sget st'' garm = Some A /\
    (forall d P, In (d, P) L -> sget st' (gid_for sup1 fresh1 d) = Some P /\ sget st'' (gid_for sup2 fresh2 d) = Some P).
Proof. exact repeatable. Qed.
Print Assumptions C13_repeatable.

(* re-keying a partition's delegations to a graph id succeeds and changes only the key *)
Theorem C13_rekey_only_key : forall A L d P, wfb A = true -> generate_adms A = Ok L -> In (d, P) L ->
  forall gid, rewrite_delegations P gid = (mkGraph (map (rekeyed gid) (gnodes P)) (gedges P), None).
Proof. exact rekey_only_key. Qed.
Print Assumptions C13_rekey_only_key.

(* several aggregates in one store: a later partitioning (of the same or of another aggregate) whose graph ids are not
   in use by an earlier result leaves that earlier result exactly the partitions of ITS aggregate.  The hypothesis
   is about the ids the later call uses (uuid4 draws new ones on every call; a caller must not hand the same ids
   to two calls); that generate_adms keeps no ids from one call to the next is checked by the `pair` stream. *)
Theorem C13_earlier_result_unchanged :
  forall st garm1 A1 sup1 fresh1 st1 dgs1 garm2 A2 sup2 fresh2 st2 dgs2,
  sget st garm1 = Some A1 -> wfb A1 = true -> uuid_fresh garm1 sup1 fresh1 (c_ids (catalog_delegations A1)) ->
  st_generate_adms st garm1 sup1 fresh1 = (st1, Ok dgs1) ->
  sget st1 garm2 = Some A2 -> wfb A2 = true -> uuid_fresh garm2 sup2 fresh2 (c_ids (catalog_delegations A2)) ->
  st_generate_adms st1 garm2 sup2 fresh2 = (st2, Ok dgs2) ->
  (forall gid, In gid (map snd dgs1) -> ~ In gid (map snd dgs2)) ->
  exists L1, generate_adms A1 = Ok L1 /\
    forall d P, In (d, P) L1 -> sget st2 (gid_for sup1 fresh1 d) = Some P.
Proof. exact earlier_result_unchanged. Qed.
Print Assumptions C13_earlier_result_unchanged.

(* store-level frame of the re-keying: rewrite_delegations on the graph stored under gid changes nothing outside
   that graph (the source, the other partitions, other models), and what it does to that graph is
   rewrite_delegations; hence partition / re-key a partition / partition again finds the source as it was and
   yields the same models.  (That no state is shared through the parsed Delegations objects either is what the
   `hist` stream of the correspondence checks: re-keying, then parsing the source again through the API.) *)
Theorem C13_rekey_frame : forall st gid key k, k <> gid ->
  sget (fst (st_rewrite_delegations st gid key)) k = sget st k.
Proof. exact rekey_frame. Qed.
Print Assumptions C13_rekey_frame.

Theorem C13_rekey_in_store : forall st gid key g, sget st gid = Some g ->
  sget (fst (st_rewrite_delegations st gid key)) gid = Some (fst (rewrite_delegations g key)) /\
  snd (st_rewrite_delegations st gid key) = snd (rewrite_delegations g key).
Proof. exact rekey_at. Qed.
Print Assumptions C13_rekey_in_store.

Theorem C13_rekey_then_repartition : forall st garm A sup1 fresh1 st1 dgs1 d gid key sup2 fresh2 st3 dgs2,
  sget st garm = Some A -> wfb A = true ->
  uuid_fresh garm sup1 fresh1 (c_ids (catalog_delegations A)) ->
  uuid_fresh garm sup2 fresh2 (c_ids (catalog_delegations A)) ->
  st_generate_adms st garm sup1 fresh1 = (st1, Ok dgs1) -> In (d, gid) dgs1 ->
  let st2 := fst (st_rewrite_delegations st1 gid key) in
  st_generate_adms st2 garm sup2 fresh2 = (st3, Ok dgs2) ->
  gid <> garm /\ sget st2 garm = Some A /\
  exists L, generate_adms A = Ok L /\ sget st3 garm = Some A /\
    (forall d' P, In (d', P) L -> sget st3 (gid_for sup2 fresh2 d') = Some P).
Proof. exact rekey_then_repartition. Qed.
Print Assumptions C13_rekey_then_repartition.

(* re-keying again: only the last key counts; re-keying to the key the entries already carry is the identity --
   a second re-keying to the same id, and re-keying a fresh partition to its own delegation id (e.g. a partition
   whose graph was named after the delegation) *)
Theorem C13_rekey_twice : forall A L d P, wfb A = true -> generate_adms A = Ok L -> In (d, P) L ->
  forall g1 g2, rewrite_delegations (fst (rewrite_delegations P g1)) g2 = rewrite_delegations P g2.
Proof. exact rekey_twice. Qed.
Print Assumptions C13_rekey_twice.

Theorem C13_rekey_idempotent : forall A L d P, wfb A = true -> generate_adms A = Ok L -> In (d, P) L ->
  forall gid,
    rewrite_delegations (fst (rewrite_delegations P gid)) gid = (fst (rewrite_delegations P gid), None) /\
    rewrite_delegations P d = (P, None).
Proof. exact rekey_idempotent. Qed.
Print Assumptions C13_rekey_idempotent.

Theorem C13_rekeyed_changes_only_the_key : forall gid n,
  nid (rekeyed gid n) = nid n /\ ncls (rekeyed gid n) = ncls n /\ nstitch (rekeyed gid n) = nstitch n /\
  nprops (rekeyed gid n) = nprops n /\
  is_some (ldel (rekeyed gid n)) = is_some (ldel n) /\ is_some (cdel (rekeyed gid n)) = is_some (cdel n) /\
  entries (ldel (rekeyed gid n)) = map (fun p => (gid, snd p)) (entries (ldel n)) /\
  entries (cdel (rekeyed gid n)) = map (fun p => (gid, snd p)) (entries (cdel n)).
Proof. exact Proofs.Adm13Rekey.rekeyed_only_key. Qed.
Print Assumptions C13_rekeyed_changes_only_the_key.

(* non-vacuity: a well-formed model with two delegation ids (label-only, capacity-only, both, pooled), two
   different proper partitions, exact entries on the shared node, re-keying succeeds on the partitions and
   raises on the aggregate model, store run with a supplied and a generated id next to a bystander graph, the
   two kinds of bad dictionaries rejected without effect *)
Example C13_nonvacuous :
  wfb ex_A = true /\
  (exists L, generate_adms ex_A = Ok L /\ map fst L = [1; 2] /\
     map (fun dp => node_ids (snd dp)) L = [[1; 2; 3; 4; 6; 7; 8; 9; 10; 11; 12; 13]; [2; 4; 7; 8; 9; 10; 11; 13]] /\
     map (fun dp => option_map (fun n => (ldel n, cdel n)) (find_node (snd dp) 8)) L =
       [Some (Some [(1, DPoolDef 1 3)], Some [(1, DSingle 5)]); Some (Some [(2, DSingle 4)], Some [(2, DSingle 6)])] /\
     map (fun dp => snd (rewrite_delegations (snd dp) 99)) L = [None; None] /\
     snd (rewrite_delegations ex_A 99) = Some EQuery) /\
  (exists st', st_generate_adms [(50, wit_A); (100, ex_A)] 100 [(1, 101); (7, 100)] (fun d => 100 + d) = (st', Ok [(1, 101); (2, 102)]) /\
     map fst st' = [50; 100; 101; 102] /\ sget st' 100 = Some ex_A /\ sget st' 50 = Some wit_A /\
     uuid_fresh 100 [(1, 101); (7, 100)] (fun d => 100 + d) (c_ids (catalog_delegations ex_A))) /\
  st_generate_adms [(50, wit_A); (100, ex_A)] 100 [(2, 100)] (fun d => 100 + d) = ([(50, wit_A); (100, ex_A)], Err EQuery) /\
  st_generate_adms [(50, wit_A); (100, ex_A)] 100 [(1, 77); (2, 77)] (fun d => 100 + d) = ([(50, wit_A); (100, ex_A)], Err EQuery).
Proof. exact ex_nonvacuous. Qed.

(* C16 - label, tag, name and data validation holds on every construction path. *)
From Coq Require Import List ZArith NArith Bool String.
From FIM Require Import Base.Str Base.Regex Base.RegexSound Model.Labels16Types Gen.UnicodeClasses Gen.LabelValidators Model.Labels16 Proofs.Validate16.
Import ListNotations.

Theorem C16_translated : lv_gen_ok = true /\ uc_ok = true.
Proof. exact lv_gen_ok_true. Qed.
Print Assumptions C16_translated.

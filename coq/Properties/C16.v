(* C16 - label, tag, name and data validation holds on every construction path.
   Only statements; each is closed by `exact` of a lemma from Base/RegexSound.v, Proofs/Validate16.v or
   Proofs/Validate16Misc.v.  The model (Model/Labels16.v) is instantiated with the tables REGENERATED
   from fim/slivers/*.py and from the running interpreter (Gen/LabelValidators.v, Gen/UnicodeClasses.v);
   the specification is Model/Labels16Spec.v: `in_domain k s` = s is in the language (declarative `lang`,
   whole string) of field k's pattern and satisfies k's range predicate; tags / names / sizes are in
   addition pinned by hand (tag_char, name_doc, jd_doc, boot_doc_limit). *)
From Coq Require Import List ZArith NArith Bool String.
From FIM Require Import Base.Str Base.Regex Base.RegexSound Model.Labels16Types Gen.UnicodeClasses Gen.LabelValidators
  Model.Labels16 Model.Labels16Spec Proofs.Validate16 Proofs.Validate16Misc Proofs.Validate16Int Proofs.Validate16Entry.
Import ListNotations.

(* ---- the tie's static part: the translator recognised every construct; every call site matches the whole string ---- *)
Theorem C16_translated : lv_gen_ok = true /\ uc_ok = true.
Proof. exact lv_gen_ok_true. Qed.
Print Assumptions C16_translated.

Theorem C16_every_call_site_matches_whole_string :
  label_scalar_mode = Full /\ label_list_mode = Full /\ tag_mode = Full /\
  forallb (fun x => mmode_eqb (snd (snd x)) Full) name_rules = true.
Proof. exact modes_full. Qed.
Print Assumptions C16_every_call_site_matches_whole_string.

(* ---- the regex engine ---- *)
Theorem C16_matcher_decides_language : forall catf s r, rmatch catf r s = true <-> lang catf r s.
Proof. exact rmatch_spec. Qed.
Print Assumptions C16_matcher_decides_language.

Theorem C16_fullmatch_is_membership : forall catf r s, py_match catf Full r s = true <-> lang catf r s.
Proof. exact py_fullmatch_spec. Qed.
Print Assumptions C16_fullmatch_is_membership.

(* what the pre-fix idiom re.match('^' + r + '$') accepts: members, and members followed by one newline *)
Theorem C16_dollar_idiom : forall catf r s,
  py_match catf Dollar r s = true <-> lang catf r s \/ exists t, s = t ++ [10%N] /\ lang catf r t.
Proof. exact py_dollar_spec. Qed.
Print Assumptions C16_dollar_idiom.

Theorem C16_dollar_idiom_accepts_trailing_newline : forall catf r t,
  lang catf r t -> ~ lang catf r (t ++ [10%N]) ->
  py_match catf Dollar r (t ++ [10%N]) = true /\ py_match catf Full r (t ++ [10%N]) = false.
Proof. exact py_dollar_accepts_trailing_newline. Qed.
Print Assumptions C16_dollar_idiom_accepts_trailing_newline.

Theorem C16_unanchored_idiom : forall catf r s,
  py_match catf Prefix r s = true <-> exists p q, s = p ++ q /\ lang catf r p.
Proof. exact py_prefix_spec. Qed.
Print Assumptions C16_unanchored_idiom.

(* r{m,n} means "k copies for some m <= k <= n"; for a character class: length and membership *)
Theorem C16_bounded_repeat : forall catf r m n s, (m <= n)%nat ->
  (lang catf (rep r m (Some n)) s <-> exists k, (m <= k <= n)%nat /\ lang catf (pow r k) s).
Proof. exact lang_rep_bounded. Qed.
Print Assumptions C16_bounded_repeat.

Theorem C16_bounded_repeat_of_class : forall catf neg it m n s, (m <= n)%nat ->
  (lang catf (rep (Cls neg it) m (Some n)) s <->
   (m <= List.length s <= n)%nat /\ forallb (cls_in catf neg it) s = true).
Proof. exact lang_rep_cls. Qed.
Print Assumptions C16_bounded_repeat_of_class.

(* ---- Labels: acceptance = membership in the documented domain, scalar and list, forgiving or not ---- *)
Theorem C16_accept_iff_domain : forall forgiving st k v,
  mem_str k label_fields = true -> is_strs v = true ->
  (snd (set_one forgiving st (k, v)) = None <-> Forall (in_domain k) (elems v)).
Proof. exact accept_iff_domain. Qed.
Print Assumptions C16_accept_iff_domain.

Theorem C16_accepted_value_is_the_one_stored : forall forgiving st k v,
  mem_str k label_fields = true -> snd (set_one forgiving st (k, v)) = None ->
  fst (set_one forgiving st (k, v)) = lset st k v.
Proof. exact accepted_is_stored. Qed.
Print Assumptions C16_accepted_value_is_the_one_stored.

Theorem C16_rejected_value_changes_nothing : forall forgiving st kv,
  snd (set_one forgiving st kv) <> None -> fst (set_one forgiving st kv) = st.
Proof. exact rejected_unchanged. Qed.
Print Assumptions C16_rejected_value_changes_nothing.

Theorem C16_range_predicate_meaning : forall rk s, range_check rk s = None <-> range_spec rk s.
Proof. exact range_check_spec. Qed.
Print Assumptions C16_range_predicate_meaning.

(* int(str) as the range predicates use it: exactly the declarative integer literals (white space, sign,
   digits of any script with single underscores between digits, digit-count limit), with their value *)
Theorem C16_int_parsing : forall s z, py_int s = Some z <-> int_literal s z.
Proof. exact py_int_spec. Qed.
Print Assumptions C16_int_parsing.

Theorem C16_int_of_plain_digits : forall s ds, s <> [] -> Forall2 (fun c d => digit_val c = Some d) s ds ->
  (int_max_str_digits = 0%N \/ (N.of_nat (List.length ds) <= int_max_str_digits)%N) ->
  py_int s = Some (Z.of_N (dec_value ds)).
Proof. exact py_int_plain_digits. Qed.
Print Assumptions C16_int_of_plain_digits.

(* one numeric field spelled out: a VLAN label is 1..4 decimal digits denoting 0..4096 *)
Theorem C16_vlan_domain_pinned : forall s,
  scalar_accepted (S"vlan") s = true <->
  (1 <= List.length s <= 4)%nat /\ forallb is_re_digit s = true /\ exists z, int_literal s z /\ (0 <= z <= 4096)%Z.
Proof. exact vlan_domain_pinned. Qed.
Print Assumptions C16_vlan_domain_pinned.

(* _set_fields keeps "every field is None or documented" even when it raises half way *)
Theorem C16_set_fields_invariant : forall forgiving kws st,
  labels_inv st -> labels_inv (fst (set_fields forgiving st kws)).
Proof. exact set_fields_inv. Qed.
Print Assumptions C16_set_fields_invariant.

(* constructor, JSONField.update of a constructed object, from_json *)
Theorem C16_every_entry_point : forall e st, run_entry e = Ok st -> labels_inv st /\ labels_wf st.
Proof. exact every_entry_point. Qed.
Print Assumptions C16_every_entry_point.

(* any chain constructor/from_json followed by any number of updates *)
Theorem C16_every_reachable_object : forall st, reachable st -> labels_inv st /\ labels_wf st.
Proof. exact reachable_inv. Qed.
Print Assumptions C16_every_reachable_object.

Theorem C16_stored_values_in_domain : forall st k v,
  labels_inv st -> lget st k = Some v -> is_strs v = true /\ Forall (in_domain k) (elems v).
Proof. exact stored_values_in_domain. Qed.
Print Assumptions C16_stored_values_in_domain.

(* whatever was accepted encodes (to_dict/to_json) and decodes (from_json) to the same object, not rejected *)
Theorem C16_accepted_recodes : forall st, labels_inv st -> labels_wf st -> labels_recode st = Ok st.
Proof. exact accepted_recodes. Qed.
Print Assumptions C16_accepted_recodes.

Theorem C16_entry_point_result_recodes : forall e st, run_entry e = Ok st -> labels_recode st = Ok st.
Proof. exact entry_point_recodes. Qed.
Print Assumptions C16_entry_point_result_recodes.

(* the documented boundary values (Model/Labels16Spec.v boundary_table), scalar and one-element list *)
Theorem C16_documented_boundaries :
  forallb (fun x => Bool.eqb (scalar_accepted (fst (fst x)) (snd (fst x))) (snd x) &&
                    Bool.eqb (list_accepted (fst (fst x)) (snd (fst x))) (snd x)) boundary_table = true.
Proof. exact boundaries_hold. Qed.
Print Assumptions C16_documented_boundaries.

(* ---- entry-point independence, as ONE statement over the type of entry-point semantics (Model/Labels16Types.v ep_sem;
   the table label_entry_points is regenerated: constructor, update, from_json, element.update_labels with/without
   labels, direct attribute assignment, attaching an object to an element) ---- *)
Theorem C16_entry_point_independence : forall sem, ep_checked sem = true ->
  forall cur k v, labels_inv cur -> labels_wf cur -> mem_str k label_fields = true -> is_strs v = true ->
    (snd (ep_apply sem cur (k, v)) = None <-> Forall (in_domain k) (elems v)) /\
    labels_inv (fst (ep_apply sem cur (k, v))) /\ labels_wf (fst (ep_apply sem cur (k, v))).
Proof. exact entry_point_independence. Qed.
Print Assumptions C16_entry_point_independence.

(* every semantics that does not validate is refuted (an undocumented value gets into an object) *)
Theorem C16_unchecked_entry_point_refuted : forall sem, ep_checked sem = false ->
  exists cur k v, labels_inv cur /\ labels_wf cur /\ mem_str k label_fields = true /\ is_strs v = true /\
    snd (ep_apply sem cur (k, v)) = None /\ ~ labels_inv (fst (ep_apply sem cur (k, v))).
Proof. exact unchecked_entry_point_refuted. Qed.
Print Assumptions C16_unchecked_entry_point_refuted.

(* over the REGENERATED table: the full statement for every listed entry point, or (the code as it is: plain
   attribute assignment on a Labels object is unchecked, and set_labels does not re-validate the object it attaches)
   a listed entry point that is refuted.  Known finding + proposed_fixes/C16-4.patch. *)
Theorem C16_entry_point_table_full_or_refuted :
  if forallb (fun e => ep_checked (snd e)) label_entry_points
  then forall name sem, In (name, sem) label_entry_points ->
         forall cur k v, labels_inv cur -> labels_wf cur -> mem_str k label_fields = true -> is_strs v = true ->
           (snd (ep_apply sem cur (k, v)) = None <-> Forall (in_domain k) (elems v)) /\
           labels_inv (fst (ep_apply sem cur (k, v))) /\ labels_wf (fst (ep_apply sem cur (k, v)))
  else exists name sem, In (name, sem) label_entry_points /\ ep_checked sem = false /\
         exists cur k v, labels_inv cur /\ labels_wf cur /\ mem_str k label_fields = true /\ is_strs v = true /\
           snd (ep_apply sem cur (k, v)) = None /\ ~ labels_inv (fst (ep_apply sem cur (k, v))).
Proof. exact entry_point_table_full_or_refuted. Qed.
Print Assumptions C16_entry_point_table_full_or_refuted.

(* re-validation (what set_labels does once proposed_fixes/C16-4 is in) accepts exactly the documented objects *)
Theorem C16_revalidation_sound : forall st, labels_wf st -> revalidate st = None -> labels_inv st.
Proof. exact revalidate_sound. Qed.
Print Assumptions C16_revalidation_sound.

Theorem C16_revalidation_complete : forall st, labels_wf st -> labels_inv st -> revalidate st = None.
Proof. exact revalidate_complete. Qed.
Print Assumptions C16_revalidation_complete.

(* a Tags object whose list was changed directly / a Capacities object whose fields were assigned directly, attached to a
   sliver: FULL = only documented content is attached (set_tags / set_capacities re-validate, regenerated flags) *)
Theorem C16_tags_attach_full_or_refuted : if set_tags_revalidates then tags_attach_full else tags_attach_refuted.
Proof. exact tags_attach_full_or_refuted. Qed.
Print Assumptions C16_tags_attach_full_or_refuted.

Theorem C16_capacities_attach_full_or_refuted : if set_capacities_revalidates then caps_attach_full else caps_attach_refuted.
Proof. exact caps_attach_full_or_refuted. Qed.
Print Assumptions C16_capacities_attach_full_or_refuted.

(* list values with an element that is not a string: FULL = never stored; for the code as it is (elements are not
   type-checked) REFUTED: Labels(numa=[5]) is stored.  Known finding + proposed_fixes/C16-2.patch. *)
Theorem C16_nonstring_elements_full_or_refuted : if label_list_elements_typechecked then mixed_full else mixed_refuted.
Proof. exact mixed_full_or_refuted. Qed.
Print Assumptions C16_nonstring_elements_full_or_refuted.

(* a keyword naming an attribute that is not a field (method, class table): FULL = never stored; for the code as it
   is (field test by __getattribute__) REFUTED: Labels(to_json='x') is stored.  proposed_fixes/C16-3.patch. *)
Theorem C16_nonfield_keyword_full_or_refuted :
  if label_field_test_is_dict then (forall fg, nonfield_attr_outcome fg <> KW_stored) else nonfield_attr_outcome false = KW_stored.
Proof. exact nonfield_attr_full_or_refuted. Qed.
Print Assumptions C16_nonfield_keyword_full_or_refuted.

Theorem C16_capacity_nonfield_keyword_full_or_refuted :
  if caps_field_test_is_dict then (forall fg, caps_nonfield_attr_outcome fg <> KW_stored) else caps_nonfield_attr_outcome false = KW_stored.
Proof. exact caps_nonfield_attr_full_or_refuted. Qed.
Print Assumptions C16_capacity_nonfield_keyword_full_or_refuted.

Theorem C16_nonfield_keyword_from_json : from_json_prefilters = true -> nonfield_attr_outcome_from_json = KW_skipped.
Proof. exact nonfield_attr_from_json. Qed.
Print Assumptions C16_nonfield_keyword_from_json.

(* ---- Tags ---- *)
Theorem C16_tags_accept_iff_domain : forall args out,
  tags_ctor args = Some out <->
  Forall tag_in_domain (flat_map targ_items args) /\ map TStr out = flat_map targ_items args.
Proof. exact tags_accept_iff_domain. Qed.
Print Assumptions C16_tags_accept_iff_domain.

Theorem C16_tags_recode : forall args out, tags_ctor args = Some out -> tags_ctor [TA_many (map TStr out)] = Some out.
Proof. exact tags_recode. Qed.
Print Assumptions C16_tags_recode.

Theorem C16_tag_domain_pinned : forall s,
  tag_accepts s = true <-> (1 <= List.length s <= 255)%nat /\ forallb tag_char s = true.
Proof. exact tag_domain_pinned. Qed.
Print Assumptions C16_tag_domain_pinned.

(* ---- names, per sliver class ---- *)
Theorem C16_set_name_iff_language : forall cls r m s, lookup cls name_rules = Some (r, m) ->
  (set_name cls (SStr s) = Ok s <-> re_lang r s).
Proof. exact set_name_iff_lang. Qed.
Print Assumptions C16_set_name_iff_language.

Theorem C16_names_domain_pinned : forall cls lo hi extra, In (cls, (lo, hi, extra)) name_doc ->
  forall s, set_name cls (SStr s) = Ok s <-> (lo <= List.length s <= hi)%nat /\ forallb (name_char extra) s = true.
Proof. exact names_domain_pinned. Qed.
Print Assumptions C16_names_domain_pinned.

Theorem C16_name_classes_covered :
  forallb (fun x => existsb (fun d => str_eqb (fst x) (fst d)) name_doc) name_rules = true /\
  forallb (fun d => existsb (fun x => str_eqb (fst x) (fst d)) name_rules) name_doc = true.
Proof. exact name_rules_covered. Qed.
Print Assumptions C16_name_classes_covered.

Theorem C16_set_name_stores_argument : forall cls v s, set_name cls v = Ok s -> v = SStr s.
Proof. exact set_name_stores_argument. Qed.
Print Assumptions C16_set_name_stores_argument.

(* ---- names assigned through an element handle (ModelElement.name setter, rename) ---- *)
(* the name in the model graph is always documented and changes exactly when the call succeeds *)
Theorem C16_element_name_in_model : forall cls r m old s taken h g e,
  lookup cls name_rules = Some (r, m) -> re_lang r old -> elem_set_name cls old s taken = ((h, g), e) ->
  re_lang r g /\ (e = None -> h = s /\ g = s /\ re_lang r s) /\
  (e <> None -> g = old /\ (~ re_lang r s \/ (name_set_checks_unique = true /\ taken = true))).
Proof. exact elem_name_graph. Qed.
Print Assumptions C16_element_name_in_model.

(* FULL STATEMENT handle_name_full: every name readable after the call -- from the handle or from the model -- is in
   the class's language.  For the code as it is (Gen/LabelValidators.v name_setter_validates_first = false: the setter
   caches the value before the sliver validates it) this theorem reads handle_name_refuted: a rejected assignment
   leaves the rejected string in the handle (witness NodeSliver, "n1", "x"; replayed on the implementation on every
   run; known finding, proposed_fixes/C16-1.patch).  Once the setter validates first the same theorem is the full
   statement. *)
Theorem C16_handle_name_full_or_refuted :
  if name_setter_validates_first then handle_name_full else handle_name_refuted.
Proof. exact handle_name_full_or_refuted. Qed.
Print Assumptions C16_handle_name_full_or_refuted.

(* ---- boot script ---- *)
Theorem C16_boot_script : forall s, set_boot_script (SStr s) = Ok (Some s) <-> (List.length s < boot_doc_limit)%nat.
Proof. exact boot_script_domain. Qed.
Print Assumptions C16_boot_script.

Theorem C16_boot_script_stored : forall v r, set_boot_script v = Ok r ->
  match v with SStr s => r = Some s /\ (List.length s < boot_doc_limit)%nat | SNone => r = None | SOther => False end.
Proof. exact boot_script_stores_argument. Qed.
Print Assumptions C16_boot_script_stored.

(* ---- opaque JSON data: string path, object path, and re-acceptance of what was stored ---- *)
Theorem C16_jsondata_string_path : forall cls mx s valid, In (cls, mx) jd_doc ->
  (jd_new cls (JD_str s valid) = Ok s <-> (List.length s <= mx)%nat /\ valid = true).
Proof. exact jd_str_domain. Qed.
Print Assumptions C16_jsondata_string_path.

Theorem C16_jsondata_object_path : forall cls mx t, In (cls, mx) jd_doc ->
  (jd_new cls (JD_obj (Some t)) = Ok t <-> (List.length t <= mx)%nat).
Proof. exact jd_obj_domain. Qed.
Print Assumptions C16_jsondata_object_path.

Theorem C16_jsondata_stored : forall cls mx d t, In (cls, mx) jd_doc -> jd_new cls d = Ok t ->
  (List.length t <= mx)%nat /\
  match d with JD_str s valid => t = s /\ valid = true | JD_obj o => o = Some t | JD_none => t = empty_obj_text end.
Proof. exact jd_stored. Qed.
Print Assumptions C16_jsondata_stored.

Theorem C16_jsondata_reaccepted : forall cls mx d t, In (cls, mx) jd_doc -> jd_new cls d = Ok t ->
  jd_new cls (JD_str t true) = Ok t.
Proof. exact jd_reaccepted. Qed.
Print Assumptions C16_jsondata_reaccepted.

Theorem C16_jsondata_classes_covered :
  forallb (fun x => existsb (fun d => str_eqb (fst x) (fst d)) jd_doc) jd_max = true.
Proof. exact jd_max_covered. Qed.
Print Assumptions C16_jsondata_classes_covered.

(* ---- Capacities ---- *)
Theorem C16_capacity_accept_iff : forall forgiving st k v, mem_str k cap_field_names = true ->
  (snd (cap_set_one forgiving st (k, v)) = None <-> cval_ok v).
Proof. exact caps_accept_iff. Qed.
Print Assumptions C16_capacity_accept_iff.

Theorem C16_capacities_invariant : forall forgiving kws st, caps_inv st -> caps_inv (fst (cap_set_fields forgiving st kws)).
Proof. exact cap_set_fields_inv. Qed.
Print Assumptions C16_capacities_invariant.

Theorem C16_capacities_constructed : forall forgiving kws st, caps_ctor forgiving kws = Ok st -> caps_inv st.
Proof. exact caps_ctor_inv. Qed.
Print Assumptions C16_capacities_constructed.

(* ---- non-vacuity ---- *)
Example C16_nonvacuous_labels :
  match run_entry (E_update [(S"vlan", LStr (S"100")); (S"mac", LList [S"00:11:22:33:44:55"; S"aa:bb:cc:dd:ee:ff"])]
                            [(S"vlan_range", LStr (S"100-200")); (S"numa", LStr (S"-1"))]) with
  | Ok st => lget st (S"vlan_range") = Some (LStr (S"100-200")) /\ lget st (S"vlan") = Some (LStr (S"100")) /\
             labels_recode st = Ok st
  | Err _ => False
  end.
Proof. vm_compute. repeat split. Qed.

Example C16_nonvacuous_rejections :
  run_entry (E_ctor [(S"vlan", LStr (S"123" ++ [10%N]))]) = Err ELabel /\
  run_entry (E_ctor [(S"vlan", LList [S"1"; S"4097"])]) = Err ELabel /\
  run_entry (E_from_json [(S"numa", LStr (S"x"))]) = Err EValue /\
  run_entry (E_from_json [(S"zz", LStr (S"x"))]) = Ok labels_init /\
  run_entry (E_ctor [(S"zz", LStr (S"x"))]) = Err ELabel.
Proof. vm_compute. repeat split. Qed.

Example C16_nonvacuous_misc :
  tags_ctor [TA_one (TStr (S"a-b")); TA_many [TStr (S"c_d")]] = Some [S"a-b"; S"c_d"] /\
  tags_ctor [TA_one (TStr (S"a b"))] = None /\
  set_name (S"NodeSliver") (SStr (S"n1")) = Ok (S"n1") /\ set_name (S"NodeSliver") (SStr (S"n")) = Err EValue /\
  set_name (S"InterfaceSliver") (SStr (S"n")) = Ok (S"n") /\
  jd_new (S"UserData") (JD_str (S"{}") true) = Ok (S"{}") /\
  caps_ctor false [(S"cpu", CV_int (-1))] = Err EAssert.
Proof. vm_compute. repeat split. Qed.

(* C05 - the in-memory graph backends agree with each other and with the documented semantics.
   Statements only; every theorem is closed by `exact` of a lemma of Proofs/Refine*.v.

   Models (tied to the code on every run by the lock-step streams of harness/c05.py):
     Model/Store.v          shared store + the methods of NetworkXPropertyGraph over one nx.Graph
     Model/StoreDisjoint.v  one nx.Graph per graph id, same methods (as the Python class inherits them)
     Model/PGSpec.v         reference model of the documented interface: per graph id, no store, no
                            internal ids; [abs_shared s g] / [abs_disjoint d g] = the reference graph
                            that graph id g sees in a store.
   [refine_scope0 o] = o is one of the operations of the property's quantifier (add/delete node, add link,
                       update/unset node and link properties singly and in bulk, whole-graph update,
                       listings, existence/uniqueness tests, matching, delete graph) and does not REWRITE
                       GraphID / NodeID (re-homing / renaming: outside the documented interface, C14).
   [refine_scope o]  = the same plus the storage operations import / direct import / clone, the imported graph
                       being a networkx graph (distinct node keys, links join its own nodes, one link per pair;
                       a direct import carries its graph id on every node).
   merge_nodes has its own theorems (and is followed by the extended reference model in the lock-step stream). *)
From Coq Require Import List NArith Bool.
From FIM Require Import Base.Assoc Gen.PGConst Model.Store Model.StoreDisjoint Model.PGSpec.
From FIM Require Import Proofs.IsolationShared Proofs.RefineGuards Proofs.RefineUnique Proofs.RefineMerge
                        Proofs.RefineSim Proofs.RefineStores Proofs.RefineWitness Proofs.IsolationClone Proofs.RefineImport.
Import ListNotations.
Open Scope N_scope.

(* the constants and guard placements REGENERATED from the source are the model's: NO_UNSET_PROPERTIES,
   NETWORKX_LABEL, the Class guard of all seven mutators, the identity guard of unset_node_property,
   add_node's class-independent existence test, the unsupported merge of the second backend *)
Theorem C05_translated : constants_tied = true.
Proof. exact constants_tied_true. Qed.
Print Assumptions C05_translated.

(* ---- agreement with the reference model and with each other ---- *)
(* the shared store refines the reference model on every history, imports, re-imports and clones included *)
Theorem C05_shared_refines_spec : forall ops,
  (forall o, In o ops -> refine_scope o = true) ->
  sresults init_store ops = spec_results [] ops /\
  forall g, abs_shared (srun ops init_store) g = sget (spec_run ops []) g.
Proof. exact shared_refines_spec_import. Qed.
Print Assumptions C05_shared_refines_spec.

(* the one-graph-per-id store refines it as long as every import goes to an id that holds no nodes and every
   clone of a graph that holds nodes goes to an id that holds none ([disjoint_scope_run], evaluated on the
   reference run) ... *)
Theorem C05_disjoint_refines_spec_partial : forall ops,
  (forall o, In o ops -> refine_scope o = true) -> disjoint_scope_run [] ops = true ->
  dresults init_dstore ops = spec_results [] ops /\
  forall g, abs_disjoint (drun ops init_dstore) g = sget (spec_run ops []) g.
Proof. exact disjoint_refines_spec_import. Qed.
Print Assumptions C05_disjoint_refines_spec_partial.

(* ... and these are exactly its deviations (FULL statement - the same without [disjoint_scope_run] - is false):
   an import or a clone onto an id that holds nodes does nothing and returns normally (the reference and the
   shared store replace the graph).  Known finding of C05 / C04 (deliberate in the code; proposed fix C05-3 not landed). *)
Theorem C05_disjoint_reimport_live_skips : forall d g ig,
  gn (dget d g) <> [] -> dstep d (OImport g ig) = (d, Ok RUnit).
Proof. exact disjoint_reimport_live_skips. Qed.
Print Assumptions C05_disjoint_reimport_live_skips.

Theorem C05_disjoint_clone_live_skips : forall d g g2,
  gn (dget d g) <> [] -> gn (dget d g2) <> [] -> dstep d (OClone g g2) = (d, Ok RUnit).
Proof. exact disjoint_clone_live_skips. Qed.
Print Assumptions C05_disjoint_clone_live_skips.

(* a clone of a graph without nodes is refused by both stores and the reference alike (PropertyGraphQueryException,
   fix fdc67eb), nothing changes *)
Theorem C05_clone_absent_source_agrees : forall s d g g2,
  fst (view (sg s) g) = [] -> NoDup (ids (sg s)) -> gn (dget d g) = [] ->
  sstep s (OClone g g2) = (s, Err EQuery) /\ dstep d (OClone g g2) = (d, Err EQuery).
Proof. exact clone_absent_source_agrees. Qed.
Print Assumptions C05_clone_absent_source_agrees.

(* same results, same exceptions, same content, step by step: FULL strength on the operations the property
   quantifies over (no import / clone in the history) ... *)
Theorem C05_backends_agree : forall ops,
  (forall o, In o ops -> refine_scope0 o = true) ->
  sresults init_store ops = dresults init_dstore ops /\
  forall g, abs_shared (srun ops init_store) g = abs_disjoint (drun ops init_dstore) g.
Proof. exact backends_agree. Qed.
Print Assumptions C05_backends_agree.

(* ... and with the storage operations in the history, under the domain condition above *)
Theorem C05_backends_agree_storage_partial : forall ops,
  (forall o, In o ops -> refine_scope o = true) -> disjoint_scope_run [] ops = true ->
  sresults init_store ops = dresults init_dstore ops /\
  forall g, abs_shared (srun ops init_store) g = abs_disjoint (drun ops init_dstore) g.
Proof. exact backends_agree_import. Qed.
Print Assumptions C05_backends_agree_storage_partial.

(* the reference model extended by cross-graph links (used three-way after merge_nodes by the lock-step
   stream) coincides with the reference model on merge-free histories *)
Theorem C05_xspec_conservative : forall ops sp,
  (forall o, In o ops -> (match o with OMerge _ _ _ _ => false | _ => true end) = true) ->
  xspec_results (mkX sp []) ops = spec_results sp ops /\ xspec_run ops (mkX sp []) = mkX (spec_run ops sp) [].
Proof. exact xspec_merge_free. Qed.
Print Assumptions C05_xspec_conservative.

(* concrete witness of the deviation (replayed on the real code on every run) *)
Theorem C05_agree_reimport_live_refuted :
  exists ops, (forall o, In o ops -> in_spec_scope o = true) /\
              results_eqb (sresults init_store ops) (dresults init_dstore ops) = false.
Proof. exact agree_reimport_live_refuted. Qed.
Print Assumptions C05_agree_reimport_live_refuted.

(* ---- identity properties cannot be unset, Class cannot be changed ---- *)
Theorem C05_identity_unset_rejected : forall s g n p,
  In p no_unset -> sstep s (OUnsetNode g n p) = (s, Err EQuery).
Proof. exact unset_identity_shared. Qed.
Print Assumptions C05_identity_unset_rejected.

Theorem C05_identity_unset_rejected_disjoint : forall d g n p,
  In p no_unset ->
  snd (dstep d (OUnsetNode g n p)) = Err EQuery /\
  forall g', dget (fst (dstep d (OUnsetNode g n p))) g' = dget d g'.
Proof. exact unset_identity_disjoint. Qed.
Print Assumptions C05_identity_unset_rejected_disjoint.

Theorem C05_class_write_rejected : forall s o, writes_class o = true -> sstep s o = (s, Err EQuery).
Proof. exact class_write_rejected_shared. Qed.
Print Assumptions C05_class_write_rejected.

Theorem C05_class_write_rejected_disjoint : forall d o,
  writes_class o = true ->
  snd (dstep d o) = Err EQuery /\ forall g', dget (fst (dstep d o)) g' = dget d g'.
Proof. exact class_write_rejected_disjoint. Qed.
Print Assumptions C05_class_write_rejected_disjoint.

(* over ALL histories - imports, clones, failing calls, identity rewriting AND merges - a stored node never
   loses GraphID / NodeID / Type / Class / Name and its Class value never changes.  [class_scope]: a
   merge policy does not name Class (naming it is the caller's explicit request for the other node's class) *)
Theorem C05_identity_kept : forall pre ops,
  (forall o, In o ops -> class_scope o = true) ->
  evolves (sg (srun pre init_store)) (sg (srun (pre ++ ops) init_store)).
Proof. exact identity_kept_all. Qed.
Print Assumptions C05_identity_kept.

(* a failing merge_nodes leaves both graphs - the whole store - unchanged (fix e66ee73) *)
Theorem C05_merge_fails_unchanged : forall s g n g2 pol e,
  snd (sstep s (OMerge g n g2 pol)) = Err e -> fst (sstep s (OMerge g n g2 pol)) = s.
Proof. exact merge_fails_unchanged_step. Qed.
Print Assumptions C05_merge_fails_unchanged.

(* ---- a NodeID is unique within its graph whatever the class ---- *)
(* [nid_scope]: no rewriting of GraphID / NodeID, imported graphs have unique NodeIDs, a merge policy
   does not name GraphID / NodeID; everything else (all classes, failing calls, merges) is allowed *)
Theorem C05_nodeid_unique : forall ops,
  (forall o, In o ops -> nid_scope o = true) ->
  forall g n, (length (search (sg (srun ops init_store)) [(k_nodeid, n); (k_graphid, g)]) <= 1)%nat.
Proof. exact nodeid_unique_all. Qed.
Print Assumptions C05_nodeid_unique.

Theorem C05_nodeid_unique_disjoint : forall ops,
  (forall o, In o ops -> nid_scope o = true) ->
  forall g n, (length (search (dget (drun ops init_dstore) g) [(k_nodeid, n); (k_graphid, g)]) <= 1)%nat.
Proof. exact nodeid_unique_all_disjoint. Qed.
Print Assumptions C05_nodeid_unique_disjoint.

(* ---- merge_nodes keeps every link of both nodes, leaves none of networkx's 'contraction' bookkeeping on
   them (fix 7e2b502) and applies the policy ---- *)
Theorem C05_merge_keeps_edges_and_policy : forall G g n g2 pol G',
  NoDup (ids G) -> s_merge G g n g2 pol = (G', Ok RUnit) ->
  exists u v mine other,
    find_node G g n = Some u /\ find_node G g2 n = Some v /\ u <> v /\
    nx_node G u = Some mine /\ nx_node G v = Some other /\
    nx_node G' v = None /\
    (forall i, i <> u -> i <> v -> nx_node G' i = nx_node G i) /\
    (forall y, y <> u -> y <> v -> pres G' u y = pres G u y || pres G v y) /\
    (forall a b, a <> u -> b <> u -> a <> v -> b <> v -> nx_edge G' a b = nx_edge G a b) /\
    (forall y ps, nx_edge G' u y = Some ps -> aget k_contraction ps = None) /\
    exists np, nx_node G' u = Some np /\
      forall k, aget k np = match aget k mine with
                            | Some m => match pol with Some p => policy_spec p other k m | None => Some m end
                            | None => None
                            end.
Proof. exact merge_ok_spec. Qed.
Print Assumptions C05_merge_keeps_edges_and_policy.

(* ---- non-vacuity ---- *)
Example C05_merge_fails_nonvacuous :
  snd (sstep (srun (firstn 2 w_merge) init_store) (OMerge 10 20 11 (Some [(50, s_overwrite)]))) = Err EKey /\
  fst (sstep (srun (firstn 2 w_merge) init_store) (OMerge 10 20 11 (Some [(50, s_overwrite)]))) = srun (firstn 2 w_merge) init_store.
Proof. exact merge_fails_nonvacuous. Qed.

Example C05_agree_nonvacuous :
  forallb refine_scope0 w_agree = true /\
  sresults init_store w_agree =
    [Ok RUnit; Ok RUnit; Ok RUnit; Ok RUnit; Err EQuery; Ok RUnit; Err EQuery; Ok RUnit; Ok RUnit;
     Ok (RVals [PV 20]); Ok (RVals [PV 20; PV 21]); Ok RUnit; Err EQuery; Ok RUnit; Ok (RBool false); Ok (RVals [])] /\
  dresults init_dstore w_agree = sresults init_store w_agree.
Proof. exact agree_nonvacuous. Qed.

Example C05_merge_nonvacuous :
  let ops := [OAddNode 10 20 30 (Some [(50, PV 60)]); OAddNode 10 21 30 None; OAddLink 10 20 40 21 None;
              OAddNode 11 20 30 (Some [(50, PV 61)]); OAddNode 11 22 30 None; OAddLink 11 20 40 22 None] in
  let s := srun ops init_store in
  exists G', s_merge (sg s) 10 20 11 (Some [(50, s_combine)]) = (G', Ok RUnit) /\
             nx_node G' 1 = Some [(k_graphid, PV 10); (k_nodeid, PV 20); (k_class, PV 30); (50, PL [PV 60; PV 61])] /\
             nx_node G' 3 = None /\ nx_edge G' 1 2 <> None /\ nx_edge G' 1 4 <> None.
Proof. exact merge_nonvacuous. Qed.

(* C05 - in-memory backends agree with each other and with the documented semantics. (statements only) *)
From Coq Require Import List NArith Bool.
From FIM Require Import Base.Assoc Gen.PGConst Model.Store Model.StoreDisjoint Model.PGSpec.
Import ListNotations.

Theorem C05_translated : gen_ok = true.
Proof. exact eq_refl. Qed.
Print Assumptions C05_translated.

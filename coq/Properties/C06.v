(* C06 - neighbour and path queries return exactly what their contract describes.
   Only statements; each is closed by `exact` of a lemma from Proofs/Query6{Nbr,Path,Api}.v.  The functions
   first_neighbor / first_and_second_neighbor / shortest_path / path_with_hops / get_parent /
   find_peer_connection_points / get_all_node_or_component_connection_points are Model/Query6.v, the
   transcription of fim/graph/networkx_property_graph.py:395-545 (+ networkx_mixin.py, abc_property_graph.py),
   tied to the code on every run by harness/c06.py.  A store holds several graphs; nodes carry the
   internal networkx key, GraphID, NodeID, Class; `Err` = the call raised.

   Vocabulary (Model/Query6.v): in_graph s gid m  = m is a node of the store with GraphID gid;
   joined s n m rel = the store has an edge of relation rel between n and m;  find_node = _find_node
   (exactly one node of that graph with that NodeID, else the call raises). *)
From Coq Require Import List NArith ZArith Bool.
From FIM Require Import Gen.Query6Gen Model.Query6 Model.Query6Check Model.Query6Hist Proofs.Query6Hist Proofs.Query6Nbr Proofs.Query6Path Proofs.Query6Api Proofs.Query6Gen Proofs.Query6Own.
Import ListNotations.
Open Scope N_scope.

(* ex_store (Model/Query6.v): two graphs in one store; graph 1: a(1) -has- b(2), b -connects- c(3), b -has- d(4),
   c -connects- e(5), d -connects- e; graph 2 reuses the NodeIDs 1 and 2.  classes: 1 NetworkNode, 4 NetworkService,
   5 ConnectionPoint; relations: 1 has, 2 connects *)

(* ------------------------------------------------------------------------------------------------- *)
(* _find_node *)
Theorem C06_find_node_spec : forall s gid id n,
  find_node s gid id = Ok n -> in_graph s gid n /\ n_id n = id.
Proof. exact find_node_Ok. Qed.
Print Assumptions C06_find_node_spec.

Theorem C06_find_node_unique : forall s gid id n n',
  find_node s gid id = Ok n -> in_graph s gid n' -> n_id n' = id -> n' = n.
Proof. exact find_node_unique. Qed.
Print Assumptions C06_find_node_unique.

(* ------------------------------------------------------------------------------------------------- *)
(* first neighbours: exactly the nodes of the requested class joined to the start node by an edge of the
   requested relation - nothing missing, nothing extra, nothing twice *)
Theorem C06_first_neighbor_exact : forall s gid id rel cls r,
  keys_distinct s = true ->
  first_neighbor s gid id rel cls = Ok r ->
  exists n, find_node s gid id = Ok n /\
  forall x, In x r <-> exists m, in_graph s gid m /\ n_id m = x /\ n_cls m = cls /\ joined s n m rel.
Proof. exact first_neighbor_exact. Qed.
Print Assumptions C06_first_neighbor_exact.

Theorem C06_first_neighbor_nodup : forall s gid id rel cls r,
  wf_store s = true -> first_neighbor s gid id rel cls = Ok r -> NoDup r.
Proof. exact first_neighbor_nodup. Qed.
Print Assumptions C06_first_neighbor_nodup.

(* the query answers exactly when the start node exists *)
Theorem C06_first_neighbor_total : forall s gid id rel cls,
  (exists n, find_node s gid id = Ok n) <-> (exists r, first_neighbor s gid id rel cls = Ok r).
Proof. exact first_neighbor_total. Qed.
Print Assumptions C06_first_neighbor_total.

Example C06_first_neighbor_example :
  wf_store ex_store = true /\ first_neighbor ex_store 1 2 1 5 = Ok [4] /\ first_neighbor ex_store 1 2 2 5 = Ok [3]
  /\ first_neighbor ex_store 2 2 2 5 = Ok [1] /\ first_neighbor ex_store 1 7 1 5 = Err.
Proof. vm_compute. repeat split. Qed.

(* ------------------------------------------------------------------------------------------------- *)
(* two-hop query.  The FULL statement (the contract) is

     forall s gid id rel1 c1 rel2 c2 r, keys_distinct s = true ->
       first_and_second_neighbor s gid id rel1 c1 rel2 c2 = Ok r ->
       exists n, find_node s gid id = Ok n /\
       forall b c, In (b, c) r <-> second_spec s gid n rel1 c1 rel2 c2 b c

   and it is FALSE of the code: networkx_property_graph.py:529 appends the first-hop node n instead of the
   offending neighbour k to the drop list, so the second relation is not enforced. *)
Theorem C06_second_neighbor_exact_refuted :
  exists s gid id rel1 c1 rel2 c2 r n b c,
    wf_store s = true /\ first_and_second_neighbor s gid id rel1 c1 rel2 c2 = Ok r /\
    find_node s gid id = Ok n /\ In (b, c) r /\ ~ second_spec s gid n rel1 c1 rel2 c2 b c.
Proof. exact second_neighbor_exact_refuted. Qed.
Print Assumptions C06_second_neighbor_exact_refuted.

(* what the code does return, exactly (second_coded: any relation on the second hop, plus the self-loop
   clause the mis-filled drop list produces) *)
Theorem C06_second_neighbor_returned_partial : forall s gid id rel1 c1 rel2 c2 r,
  keys_distinct s = true ->
  first_and_second_neighbor s gid id rel1 c1 rel2 c2 = Ok r ->
  exists n, find_node s gid id = Ok n /\
  forall b c, In (b, c) r <-> second_coded s gid n rel1 c1 rel2 c2 b c.
Proof. exact second_neighbor_returned. Qed.
Print Assumptions C06_second_neighbor_returned_partial.

(* the contract holds whenever the defect's signature is absent (rel2_uniformb: no qualifying first-hop node
   has a self-loop or an edge of another relation to a class-c2 node other than the start node) *)
Theorem C06_second_neighbor_exact_partial : forall s gid id rel1 c1 rel2 c2 r,
  keys_distinct s = true ->
  rel2_uniformb s gid id rel1 c1 rel2 c2 = true ->
  first_and_second_neighbor s gid id rel1 c1 rel2 c2 = Ok r ->
  exists n, find_node s gid id = Ok n /\
  forall b c, In (b, c) r <-> second_spec s gid n rel1 c1 rel2 c2 b c.
Proof. exact second_neighbor_exact_partial. Qed.
Print Assumptions C06_second_neighbor_exact_partial.

(* never the start node itself *)
Theorem C06_second_neighbor_never_start : forall s gid id rel1 c1 rel2 c2 r b c,
  keys_distinct s = true ->
  first_and_second_neighbor s gid id rel1 c1 rel2 c2 = Ok r -> In (b, c) r -> c <> id.
Proof. exact second_neighbor_never_start. Qed.
Print Assumptions C06_second_neighbor_never_start.

Theorem C06_second_neighbor_total : forall s gid id rel1 c1 rel2 c2,
  (exists n, find_node s gid id = Ok n) <-> (exists r, first_and_second_neighbor s gid id rel1 c1 rel2 c2 = Ok r).
Proof. exact fsn_total. Qed.
Print Assumptions C06_second_neighbor_total.

Example C06_second_neighbor_example :
  (* the defect: (b,d) comes back although b-d is `has`, not `connects` *)
  first_and_second_neighbor ex_store 1 1 1 4 2 5 = Ok [(2, 3); (2, 4)] /\ rel2_uniformb ex_store 1 1 1 4 2 5 = false
  (* a non-trivial instance of the hypothesis of the _partial theorem, with a non-empty answer that
     excludes the start node c although c -connects- e -connects- d ... *)
  /\ rel2_uniformb ex_store 1 3 2 5 2 5 = true /\ first_and_second_neighbor ex_store 1 3 2 5 2 5 = Ok [(5, 4)].
Proof. vm_compute. repeat split. Qed.

(* ------------------------------------------------------------------------------------------------- *)
(* shortest path.  graph_for s gid rel = the extracted graph, restricted to the edges of relation rel when
   one is given (_drop_edges_not_of_type); is_path G p a z = p is non-empty, starts at a, ends at z, its
   nodes are nodes of G and consecutive nodes are adjacent in G. *)

(* what adjacency in graph_for means in terms of the store: both keys belong to nodes of the graph and the
   store has an edge between them whose relation is the requested one (any, when none is requested) *)
Theorem C06_path_graph_meaning : forall s gid rel G,
  graph_for s gid rel = Ok G ->
  g_nodes G = graph_nodes s gid /\
  forall x y, adjb G x y = true <->
              (In x (map n_int (graph_nodes s gid)) /\ In y (map n_int (graph_nodes s gid)) /\
               exists r, edge_rel (s_edges s) x y = Some r /\ rel_ok rel r).
Proof. exact graph_for_Ok. Qed.
Print Assumptions C06_path_graph_meaning.

Theorem C06_path_ids_meaning : forall s gid rel G m,
  keys_distinct s = true -> graph_for s gid rel = Ok G -> in_graph s gid m -> id_of G (n_int m) = n_id m.
Proof. exact id_of_node. Qed.
Print Assumptions C06_path_ids_meaning.

(* a non-empty answer is an actual path between the end nodes over edges of the requested relation only,
   and no path between them is shorter *)
Theorem C06_shortest_path_sound_min : forall s gid a z rel ids,
  shortest_path s gid a z rel = Ok ids -> ids <> [] ->
  exists G na nz p,
    graph_for s gid rel = Ok G /\ find_node s gid a = Ok na /\ find_node s gid z = Ok nz /\
    ids = ids_of G p /\ is_path G p (n_int na) (n_int nz) = true /\
    forall q, is_path G q (n_int na) (n_int nz) = true -> (length ids <= length q)%nat.
Proof. exact shortest_path_sound_min. Qed.
Print Assumptions C06_shortest_path_sound_min.

(* the answer is empty exactly when no path exists *)
Theorem C06_shortest_path_empty_iff_unreachable : forall s gid a z rel ids,
  shortest_path s gid a z rel = Ok ids ->
  exists G na nz,
    graph_for s gid rel = Ok G /\ find_node s gid a = Ok na /\ find_node s gid z = Ok nz /\
    (ids = [] <-> forall q, is_path G q (n_int na) (n_int nz) = false).
Proof. exact shortest_path_empty_iff. Qed.
Print Assumptions C06_shortest_path_empty_iff_unreachable.

(* it never fails because other kinds of edges are present: for EVERY relation argument the call answers
   exactly when both end nodes exist *)
Theorem C06_shortest_path_total : forall s gid a z rel,
  (exists na nz, find_node s gid a = Ok na /\ find_node s gid z = Ok nz) <->
  (exists ids, shortest_path s gid a z rel = Ok ids).
Proof. exact shortest_path_total. Qed.
Print Assumptions C06_shortest_path_total.

Example C06_shortest_path_example :
  shortest_path ex_store 1 1 5 None = Ok [1; 2; 3; 5] /\ shortest_path ex_store 1 1 5 (Some 1) = Ok []
  /\ shortest_path ex_store 1 3 4 (Some 2) = Ok [3; 5; 4] /\ shortest_path ex_store 1 3 4 None = Ok [3; 2; 4]
  /\ shortest_path ex_store 1 1 1 (Some 2) = Ok [1] /\ shortest_path ex_store 2 1 5 None = Err.
Proof. vm_compute. repeat split. Qed.

(* ------------------------------------------------------------------------------------------------- *)
(* path with hops.  hop_path G a z hops cutoff q = q is a path from a to z in G without repeated nodes, whose
   induced sub-graph has no cycle (the code's loop-free test: no self-loop, no chord), which contains every
   requested hop (by NodeID) and has at most cutoff edges.  The answer is empty exactly when there is no
   such path; otherwise it is one of them and none of them is shorter. *)
Theorem C06_path_with_hops_spec : forall s gid a z hops cutoff ids,
  path_with_hops s gid a z hops cutoff = Ok ids ->
  exists G na nz p,
    graph_for s gid None = Ok G /\ find_node s gid a = Ok na /\ find_node s gid z = Ok nz /\
    ids = ids_of G p /\
    (ids = [] <-> forall q, ~ hop_path G (n_int na) (n_int nz) hops cutoff q) /\
    (ids <> [] -> hop_path G (n_int na) (n_int nz) hops cutoff p /\
                  forall q, hop_path G (n_int na) (n_int nz) hops cutoff q -> (length ids <= length q)%nat).
Proof. exact path_with_hops_spec. Qed.
Print Assumptions C06_path_with_hops_spec.

Theorem C06_path_with_hops_total : forall s gid a z hops cutoff,
  (exists na nz, find_node s gid a = Ok na /\ find_node s gid z = Ok nz) <->
  (exists ids, path_with_hops s gid a z hops cutoff = Ok ids).
Proof. exact path_with_hops_total. Qed.
Print Assumptions C06_path_with_hops_total.

Example C06_path_with_hops_example :
  path_with_hops ex_store 1 1 5 [4] 100 = Ok [1; 2; 4; 5] /\ path_with_hops ex_store 1 1 5 [] 100 = Ok [1; 2; 3; 5]
  /\ path_with_hops ex_store 1 1 5 [4] 2 = Ok [] /\ path_with_hops ex_store 1 3 4 [2; 5] 100 = Ok []
  /\ path_with_hops ex_store 1 1 5 [] (-1) = Ok [].
Proof. vm_compute. repeat split. Qed.

(* ------------------------------------------------------------------------------------------------- *)
(* several graphs in one store: whatever edges the store holds - also edges that cross graph boundaries, as
   merge_nodes leaves them until the other graph's nodes are re-homed - every NodeID a query returns is the
   NodeID of a node OF THE QUERIED GRAPH (owned s gid x = exists m, in_graph s gid m /\ n_id m = x).
   For ANY store: no well-formedness hypothesis. *)
Theorem C06_first_neighbor_own_graph : forall s gid id rel cls r x,
  first_neighbor s gid id rel cls = Ok r -> In x r -> owned s gid x.
Proof. exact first_neighbor_owned. Qed.
Print Assumptions C06_first_neighbor_own_graph.

Theorem C06_second_neighbor_own_graph : forall s gid id rel1 c1 rel2 c2 r b c,
  first_and_second_neighbor s gid id rel1 c1 rel2 c2 = Ok r -> In (b, c) r -> owned s gid b /\ owned s gid c.
Proof. exact second_neighbor_owned. Qed.
Print Assumptions C06_second_neighbor_own_graph.

Theorem C06_shortest_path_own_graph : forall s gid a z rel ids x,
  shortest_path s gid a z rel = Ok ids -> In x ids -> owned s gid x.
Proof. exact shortest_path_owned. Qed.
Print Assumptions C06_shortest_path_own_graph.

Theorem C06_path_with_hops_own_graph : forall s gid a z hops cutoff ids x,
  path_with_hops s gid a z hops cutoff = Ok ids -> In x ids -> owned s gid x.
Proof. exact path_with_hops_owned. Qed.
Print Assumptions C06_path_with_hops_own_graph.

Theorem C06_get_parent_own_graph : forall s gid id rel parent p,
  get_parent s gid id rel parent = Ok (Some p) -> owned s gid p.
Proof. exact get_parent_owned. Qed.
Print Assumptions C06_get_parent_own_graph.

Theorem C06_peer_connection_points_own_graph : forall V s gid id l c,
  find_peer_connection_points V s gid id = Ok (Some l) -> In c l -> owned s gid c.
Proof. exact peers_owned. Qed.
Print Assumptions C06_peer_connection_points_own_graph.

Theorem C06_node_connection_points_own_graph : forall V s gid id l c,
  get_all_node_or_component_connection_points V s gid id = Ok l -> In c l -> owned s gid c.
Proof. exact node_cps_owned. Qed.
Print Assumptions C06_node_connection_points_own_graph.

(* cross_store: ConnectionPoint 1 of graph 1 is joined to Link 5 of graph 2.  The Link is not reported as a
   neighbour, parent, peer or path node of graph 1; it is reported inside graph 2 *)
Example C06_cross_graph_example :
  wf_store cross_store = true
  /\ first_neighbor cross_store 1 1 2 6 = Ok [] /\ first_neighbor cross_store 1 1 2 4 = Ok [2]
  /\ get_parent cross_store 1 1 2 6 = Ok None
  /\ first_and_second_neighbor cross_store 1 2 2 5 2 6 = Ok []
  /\ find_peer_connection_points std_vocab cross_store 1 1 = Ok None
  /\ shortest_path cross_store 1 2 5 None = Err /\ shortest_path cross_store 1 2 1 None = Ok [2; 1]
  /\ first_neighbor cross_store 2 5 2 5 = Ok [6] /\ first_neighbor cross_store 2 6 2 6 = Ok [5].
Proof. vm_compute. repeat split. Qed.

(* ------------------------------------------------------------------------------------------------- *)
(* query histories (Model/Query6Hist.v).  Queries and mutations may be issued through any number of graph objects
   for one graph id, in any order.  In the model the only state is the store content: HSet s' = the store content
   becomes s' (any mutation through any object), HAsk a = a question (any of the seven query kinds, answer_of).
   The three statements are what "query results depend only on the current store content, not on earlier
   queries" means; they hold of the model by construction (it has no other state) and the correspondence stream
   `history` checks that the code behaves like the model (two live objects, interleaved mutations, repeated
   identical questions, every answer compared on the store content at that moment). *)
Theorem C06_history_answer_from_current_store : forall V s pre a post,
  run V s (pre ++ HAsk a :: post) = run V s pre ++ answer_of V (current s pre) a :: run V (current s pre) post.
Proof. exact run_ask. Qed.
Print Assumptions C06_history_answer_from_current_store.

Theorem C06_history_earlier_questions_irrelevant : forall pre s, current s pre = current s (filter is_set pre).
Proof. exact current_ignores_asks. Qed.
Print Assumptions C06_history_earlier_questions_irrelevant.

Theorem C06_history_repeat_same_answer : forall V s pre a mid,
  forallb (fun h => negb (is_set h)) mid = true ->
  run V s (pre ++ HAsk a :: mid ++ [HAsk a]) =
  run V s pre ++ answer_of V (current s pre) a :: run V (current s pre) mid ++ [answer_of V (current s pre) a].
Proof. exact repeat_same. Qed.
Print Assumptions C06_history_repeat_same_answer.

(* ask, change the store, ask the identical question again: the second answer is that of the NEW content *)
Example C06_history_example :
  run std_vocab ex_store [HAsk (AHops 1 1 5 [] 100); HSet cross_store; HAsk (AHops 1 1 5 [] 100); HAsk (AHops 1 2 1 [] 100);
                          HSet ex_store; HAsk (AHops 1 1 5 [] 100)]
  = [RIds (Ok [1; 2; 3; 5]); RIds Err; RIds (Ok [2; 1]); RIds (Ok [1; 2; 3; 5])].
Proof. vm_compute. reflexivity. Qed.

(* ------------------------------------------------------------------------------------------------- *)
(* derived helpers *)

(* the translator recognised the helper bodies and what it read from the source is what the model transcribes:
   the relation/class constants passed to the two-hop query, the accepted parent classes, `None` on no
   candidate, the `!= 1` guard of get_parent, and the snapshot iteration of _drop_edges_not_of_type
   (for the vocabulary std_vocab the harness interns with) *)
Theorem C06_helpers_translated :
  Query6Gen.gen_ok = true /\
  gen_peer_args = (v_connects std_vocab, v_Link std_vocab, v_connects std_vocab, v_ConnectionPoint std_vocab) /\
  gen_peer_none_when_empty = true /\
  gen_nodecps_args = (v_has std_vocab, v_NetworkService std_vocab, v_connects std_vocab, v_ConnectionPoint std_vocab) /\
  gen_nodecps_classes = [v_NetworkNode std_vocab; v_Component std_vocab; v_CompositeNode std_vocab] /\
  gen_parent_requires_exactly_one = true /\
  gen_drop_iterates_snapshot = true.
Proof. exact helpers_translated. Qed.
Print Assumptions C06_helpers_translated.
Theorem C06_get_parent_exact : forall s gid id rel parent p,
  keys_distinct s = true ->
  get_parent s gid id rel parent = Ok (Some p) ->
  exists n, find_node s gid id = Ok n /\
  forall x, (exists m, in_graph s gid m /\ n_id m = x /\ n_cls m = parent /\ joined s n m rel) <-> x = p.
Proof. exact get_parent_some. Qed.
Print Assumptions C06_get_parent_exact.

Theorem C06_get_parent_none : forall s gid id rel parent,
  get_parent s gid id rel parent = Ok None ->
  exists l, first_neighbor s gid id rel parent = Ok l /\ length l <> 1%nat.
Proof. exact get_parent_none. Qed.
Print Assumptions C06_get_parent_none.

(* the two helpers built on the two-hop query inherit its defect: they return the projection of second_coded *)
Theorem C06_peer_connection_points_partial : forall V s gid id o,
  keys_distinct s = true ->
  find_peer_connection_points V s gid id = Ok o ->
  exists n, find_node s gid id = Ok n /\
  forall c, (exists l, o = Some l /\ In c l) <->
            (exists b, second_coded s gid n (v_connects V) (v_Link V) (v_connects V) (v_ConnectionPoint V) b c).
Proof. exact peers_returned. Qed.
Print Assumptions C06_peer_connection_points_partial.

Theorem C06_node_connection_points_partial : forall V s gid id l,
  keys_distinct s = true ->
  get_all_node_or_component_connection_points V s gid id = Ok l ->
  exists n, find_node s gid id = Ok n /\
  (n_cls n = v_NetworkNode V \/ n_cls n = v_Component V \/ n_cls n = v_CompositeNode V) /\
  forall c, In c l <->
            (exists b, second_coded s gid n (v_has V) (v_NetworkService V) (v_connects V) (v_ConnectionPoint V) b c).
Proof. exact node_cps_returned. Qed.
Print Assumptions C06_node_connection_points_partial.

Example C06_helpers_example :
  let V := std_vocab in
  get_parent ex_store 1 2 1 1 = Ok (Some 1) /\ get_parent ex_store 1 2 1 5 = Ok (Some 4)
  /\ get_parent ex_store 1 5 2 5 = Ok None
  /\ get_all_node_or_component_connection_points V ex_store 1 1 = Ok [3; 4]
  /\ get_all_node_or_component_connection_points V ex_store 1 2 = Err
  /\ find_peer_connection_points V ex_store 1 3 = Ok None.
Proof. vm_compute. repeat split. Qed.

(* C10 - slice validation accepts a topology exactly when the constraint tables allow it.
   Statements only; each is closed by `exact` of a lemma of Proofs/Validate10*.v.

   validate_cur           = Model/Validate10.v: Topology.validate -> Node.validate_constraints ->
                            NetworkService.validate_constraints / __validate_nstype_constraints in the code's
                            order, on an abstract slice, interpreting the tables REGENERATED from the source
                            (Gen/Constraints.v); returns the site of every service afterwards and the outcome.
   allowed T fac agree    = Model/C10Spec.v: the declarative specification written from the tables only.
   allowed_full           = allowed pinned_tables true true = the property of properties.jsonl.

   Both directions hold since proposed_fixes/C10-1..3 landed (flags cur_* = true). *)
From Coq Require Import List ZArith String Bool NArith Permutation.
From FIM Require Import Base.C10Types Gen.Constraints Model.Validate10 Model.C10Pinned Model.C10Spec
  Proofs.Validate10Tables Proofs.Validate10Main Proofs.Validate10Extra Proofs.Validate10Stable.
Import ListNotations.

(* ---- the tables ---- *)
Theorem C10_translated : gen_ok = true.
Proof. exact gen_ok_true. Qed.
Print Assumptions C10_translated.

(* the constraint tables, the three enums and the guardrail read from the source ARE the pinned specification *)
Theorem C10_table_pinned : gen_tables = pinned_tables.
Proof. exact table_pinned. Qed.
Print Assumptions C10_table_pinned.

(* finite checks on the pinned tables: no per-site instance limit (so the unmodelled instance count is
   unreachable), every constrained property is readable; every enum member has an entry; every pair the
   guardrail refuses is excluded by the service type's interface-type list *)
Theorem C10_tables_ok : table_ok pinned_tables = true.
Proof. exact pinned_table_ok. Qed.
Print Assumptions C10_tables_ok.

Theorem C10_tables_total : tables_total pinned_tables = true.
Proof. exact pinned_tables_total. Qed.
Print Assumptions C10_tables_total.

(* ---- accept / reject ---- *)
(* THE FULL-STRENGTH STATEMENT *)
Theorem C10_validate_iff : forall sl, snd (validate_cur sl) = Ok <-> allowed_full sl.
Proof. exact validate_cur_iff. Qed.
Print Assumptions C10_validate_iff.

(* no valid slice is rejected (full strength) *)
Theorem C10_validate_complete : forall sl, allowed_full sl -> snd (validate_cur sl) = Ok.
Proof. exact validate_cur_complete. Qed.
Print Assumptions C10_validate_complete.

(* no invalid slice is accepted -- partial: outside the two defect signatures *)
Theorem C10_validate_sound_partial : forall sl, snd (validate_cur sl) = Ok ->
  facilities_meet_constraints pinned_tables sl -> declared_sites_agree pinned_tables sl -> allowed_full sl.
Proof. exact validate_cur_sound_partial. Qed.
Print Assumptions C10_validate_sound_partial.

(* exactly what the current code accepts: the specification minus the clauses whose flag is false
   (cur_checks_facilities = false, cur_enforces_declared_site = false today) *)
Theorem C10_validate_cur_exact : forall sl,
  snd (validate_cur sl) = Ok <-> allowed pinned_tables cur_checks_facilities cur_enforces_declared_site sl.
Proof. exact validate_cur_exact. Qed.
Print Assumptions C10_validate_cur_exact.

(* the full equivalence, for the validation with both repairs (flags true true) *)
Theorem C10_validate_iff_repaired : forall sl, snd (validate pinned_tables true true sl) = Ok <-> allowed_full sl.
Proof. exact validate_iff_repaired. Qed.
Print Assumptions C10_validate_iff_repaired.

(* ---- the recorded site ---- *)
(* after a successful validation every service carries the site the specification determines ... *)
Theorem C10_site_recorded : forall sl sts, validate_cur sl = (sts, Ok) ->
  Forall2 (svc_ok pinned_tables cur_enforces_declared_site) (sl_services sl) sts.
Proof. exact site_recorded_cur. Qed.
Print Assumptions C10_site_recorded.

(* ... which is unique, ... *)
Theorem C10_recorded_site_unique : forall agree s a b,
  svc_ok pinned_tables agree s a -> svc_ok pinned_tables agree s b -> a = b.
Proof. exact recorded_site_unique. Qed.
Print Assumptions C10_recorded_site_unique.

(* ... is the inferred site on a single-site service without a declared site, ... *)
Theorem C10_site_recorded_inferred : forall agree s after r eps a, svc_ok pinned_tables agree s after ->
  assoc (s_type s) (t_services pinned_tables) = Some r -> sc_num_sites r <> t_no_limit pinned_tables ->
  Forall2 attached_to (s_ifaces s) eps -> (forall b, spans eps b <-> b = a) ->
  s_site s = None -> after = a.
Proof. exact recorded_inferred_pinned. Qed.
Print Assumptions C10_site_recorded_inferred.

(* ... and a declared site is never overwritten *)
Theorem C10_site_recorded_declared : forall agree s d after,
  svc_ok pinned_tables agree s after -> s_site s = Some d -> after = Some d.
Proof. exact recorded_declared_pinned. Qed.
Print Assumptions C10_site_recorded_declared.

(* ---- further consequences ---- *)
(* accept/reject does not depend on the order in which nodes and services are enumerated *)
Theorem C10_validate_order_independent : forall n n' s s', Permutation n n' -> Permutation s s' ->
  (snd (validate_cur (mk_slice n s)) = Ok <-> snd (validate_cur (mk_slice n' s')) = Ok).
Proof. exact validate_cur_order_independent. Qed.
Print Assumptions C10_validate_order_independent.

(* validating again the slice that now carries the recorded sites succeeds and records the same sites *)
Theorem C10_validate_idempotent : forall sl sts,
  validate_cur sl = (sts, Ok) -> validate_cur (recorded sl sts) = (sts, Ok).
Proof. exact validate_cur_idempotent. Qed.
Print Assumptions C10_validate_idempotent.

(* validate is a function of the CURRENT slice and its own side effect never changes its verdict: whatever the
   outcome (also a rejection that had already written some sites), validating again the slice as validate left it
   gives the same outcome and the same sites *)
Theorem C10_validate_stable : forall sl sts res,
  validate_cur sl = (sts, res) -> validate_cur (recorded sl sts) = (sts, res).
Proof. exact validate_cur_stable. Qed.
Print Assumptions C10_validate_stable.

(* sessions on one topology (mutations interleaved with validations): the outcomes of the validations after any
   prefix are those of a fresh session on the slice as it is at that moment -- nothing else is remembered *)
Theorem C10_session_memoryless : forall pre post st,
  (session st (pre ++ post) = session st pre ++ session (state_after st pre) post)%list.
Proof. exact session_memoryless. Qed.
Print Assumptions C10_session_memoryless.

Theorem C10_session_revalidate : forall st,
  session st [Validate; Validate] = [validate_cur st; validate_cur st] /\
  state_after st [Validate; Validate] = state_after st [Validate].
Proof. exact session_revalidate. Qed.
Print Assumptions C10_session_revalidate.

(* on well-formed input (every type has a table entry; interfaces of site-limited services belong to nodes)
   a rejection is the documented TopologyException, never another exception *)
Theorem C10_rejection_is_topology_exception : forall sl, slice_wf pinned_tables sl = true ->
  snd (validate_cur sl) = Ok \/ snd (validate_cur sl) = Err ETopology.
Proof. exact validate_cur_class. Qed.
Print Assumptions C10_rejection_is_topology_exception.

(* ---- connect time ---- *)
(* the constructor path refuses exactly L2PTP x SharedPort, with a TopologyException ... *)
Theorem C10_guardrail_exact : forall st it,
  connect_ctor gen_tables st it <> Ok <-> (st = "L2PTP"%string /\ it = "SharedPort"%string).
Proof. exact guard_exact. Qed.
Print Assumptions C10_guardrail_exact.

(* ... and only combinations no valid slice can contain (whatever the flags) *)
Theorem C10_guardrail_only_unsupported : forall st it, connect_ctor gen_tables st it <> Ok ->
  forall fac agree sl s i e, In s (sl_services sl) -> s_type s = st -> In i (s_ifaces s) -> attached_to i e ->
    ep_type e = it -> snd (validate gen_tables fac agree sl) <> Ok.
Proof. exact guardrail_only_unsupported_pinned. Qed.
Print Assumptions C10_guardrail_only_unsupported.

(* connect_interface() applies the same guardrail as the constructor *)
Theorem C10_connect_interface_guarded : forall st it,
  connect_method gen_tables cur_connect_interface_guarded st it = connect_ctor gen_tables st it.
Proof. exact connect_interface_guarded. Qed.
Print Assumptions C10_connect_interface_guarded.

(* ---- non-vacuity ---- *)
Example C10_nonvacuous_valid :      (* a 3-node, 6-service slice satisfies the full specification ... *)
  allowed_full example_valid /\
  validate_cur example_valid = ([Some 1%N; Some 2%N; Some 2%N; None; Some 2%N; Some 1%N], Ok).
Proof. split; [exact example_valid_allowed | exact example_valid_sites]. Qed.

Example C10_nonvacuous_hyps :       (* ... and the hypotheses of the partial theorem (it has a facility and a declared site) *)
  facilities_meet_constraints pinned_tables example_valid /\ declared_sites_agree pinned_tables example_valid.
Proof. exact (allowed_full_hyps example_valid example_valid_allowed). Qed.

Example C10_nonvacuous_wf : slice_wf pinned_tables example_valid = true.
Proof. exact example_valid_wf. Qed.

Example C10_nonvacuous_session :   (* valid L2STS; a node moves to a third site: rejected; moves back: accepted *)
  map snd (session (ex_sts 2%N) [Validate; Mutate (fun _ => ex_sts 3%N); Validate; Mutate (fun _ => ex_sts 1%N); Validate])
  = [Ok; Err ETopology; Ok].
Proof. exact example_session. Qed.

Example C10_nonvacuous_reconnect :  (* declared site 1: valid; emptied: too few interfaces; reconnected at site 2: site
                                       mismatch; reconnected at site 1: valid *)
  map snd (session (ex_bridge [1%N]) [Validate; Mutate (fun _ => ex_bridge []); Validate;
                                      Mutate (fun _ => ex_bridge [2%N]); Validate;
                                      Mutate (fun _ => ex_bridge [1%N; 1%N]); Validate])
  = [Ok; Err ETopology; Err ETopology; Ok].
Proof. exact example_reconnect. Qed.

Example C10_nonvacuous_invalid :
  snd (validate_cur (mk_slice [] [mk_asvc "L2PTP" None []
        [mk_if "ServicePort" None (Some [mk_ep "SharedPort" (Some (Some 1%N))]);
         mk_if "ServicePort" None (Some [mk_ep "DedicatedPort" (Some (Some 2%N))])]])) = Err ETopology /\
  snd (validate_cur (mk_slice [mk_anode "Switch" ["site"; "image_type"; "image_ref"]] [])) = Err ETopology.
Proof. exact example_invalid_rejected. Qed.

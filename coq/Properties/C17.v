(* C17 - sliver comparison reports exactly the differences between two slivers.
   Only statements; each is closed by `exact` of a lemma from Proofs/Diff17Lemmas.v / Diff17Edits.v.
   [iface_diff], [svc_diff], [node_diff] are the transcriptions (Model/Diff17.v) of InterfaceSliver.diff,
   NetworkServiceSliver.diff and NodeSliver.diff; [*_expected] is the declarative specification:
   added/removed = key-set differences of each child dictionary, and for the entries present in both
   exactly the flags LABELS / CAPACITIES / USER_DATA / SUB_INTERFACES of what differs.
   Hypotheses: [wf_*] (boolean): keys of a dictionary are distinct, only a DedicatedPort has child interfaces,
   a SmartNIC component carries exactly one network service; [compat_*] (boolean): an element present in both
   versions keeps its type (no edit of the property's edit vocabulary changes a type). *)
From Coq Require Import List NArith ZArith Bool.
From FIM Require Import Model.Diff17 Model.TopoDiff17 Proofs.Diff17Lemmas Proofs.Diff17Edits Proofs.Diff17Fixed
  Proofs.Diff17History Proofs.TopoDiff17.
Import ListNotations.

(* ---- 1. comparing a sliver with an identical copy reports no difference ---------------------- *)

Theorem C17_self_copy_none_node : forall s, wf_node s = true -> node_diff s s = Ok None.
Proof. exact node_diff_self. Qed.
Print Assumptions C17_self_copy_none_node.

Theorem C17_self_copy_none_service : forall s, wf_svc s = true -> svc_diff s s = None.
Proof. exact svc_diff_self. Qed.
Print Assumptions C17_self_copy_none_service.

Theorem C17_self_copy_none_interface : forall i, wf_iface i = true -> iface_diff i i = None.
Proof. exact iface_diff_self. Qed.
Print Assumptions C17_self_copy_none_interface.

(* "identical copy" up to what a copy may legitimately change: dictionary order, an absent container
   versus an empty one, user data / labels / capacities held by distinct but equal-valued objects -
   and conversely: no difference is reported ONLY for such copies *)
Theorem C17_no_difference_iff_same_node : forall a b,
  wf_node a = true -> wf_node b = true -> compat_node a b = true ->
  (node_diff a b = Ok None <-> node_same a b = true).
Proof. exact node_diff_none_iff. Qed.
Print Assumptions C17_no_difference_iff_same_node.

Theorem C17_no_difference_iff_same_service : forall a b,
  wf_svc a = true -> wf_svc b = true -> compat_svc a b = true ->
  (svc_diff a b = None <-> svc_same a b = true).
Proof. exact svc_diff_none_iff. Qed.
Print Assumptions C17_no_difference_iff_same_service.

Theorem C17_no_difference_iff_same_interface : forall a b, iface_diff a b = None <-> iface_same a b = true.
Proof. exact iface_diff_none_iff. Qed.
Print Assumptions C17_no_difference_iff_same_interface.

(* ---- 2. exactly the differences ------------------------------------------------------------- *)

(* interface level (sub-interfaces added / removed / modified, the port's own flags): unconditional *)
Theorem C17_interface_exact : forall a b, iface_diff a b = iface_expected a b.
Proof. exact iface_diff_exact. Qed.
Print Assumptions C17_interface_exact.

(* node level (components and node-level services added / removed / modified, the node's own flags) *)
Theorem C17_node_exact : forall a b,
  wf_node a = true -> wf_node b = true -> compat_node a b = true ->
  node_diff a b = Ok (node_expected a b).
Proof. exact node_diff_exact. Qed.
Print Assumptions C17_node_exact.

(* service level.  The full statement
       forall a b, wf_svc a = true -> wf_svc b = true -> compat_svc a b = true -> svc_diff a b = svc_expected a b
   is FALSE of the code (finding C17-1): for a dedicated port present in both versions SUB_INTERFACES is also
   raised when only the port's own labels / capacities / user data changed. *)
Theorem C17_service_flags_exact_refuted :
  exists a b, wf_svc a = true /\ wf_svc b = true /\ compat_svc a b = true /\ svc_diff a b <> svc_expected a b.
Proof. exact svc_exact_refuted. Qed.
Print Assumptions C17_service_flags_exact_refuted.

(* what IS true of every pair: the specification with exactly that deviation in the port flag ... *)
Theorem C17_service_exact_up_to_port_flag : forall a b, svc_diff a b = svc_expected_code a b.
Proof. exact svc_diff_exact_code. Qed.
Print Assumptions C17_service_exact_up_to_port_flag.

(* ... hence the full specification whenever no dedicated port changed its own properties while keeping
   its sub-interfaces (the hypothesis excludes exactly the finding's signature) *)
Theorem C17_service_exact_partial : forall a b,
  wf_svc a = true -> wf_svc b = true -> compat_svc a b = true -> no_port_only_change a b = true ->
  svc_diff a b = svc_expected a b.
Proof. exact svc_diff_exact_partial. Qed.
Print Assumptions C17_service_exact_partial.

(* with proposed_fixes/C17-1.patch applied ([svc_diff_fixed]; the harness selects the variant the
   implementation under test actually shows) the FULL statement holds *)
Theorem C17_service_exact_after_fix : forall a b,
  wf_svc a = true -> wf_svc b = true -> compat_svc a b = true -> svc_diff_fixed a b = svc_expected a b.
Proof. exact svc_diff_fixed_exact. Qed.
Print Assumptions C17_service_exact_after_fix.

(* the repair does not change WHETHER a service comparison reports something (all NodeSliver.diff looks at) *)
Theorem C17_service_none_independent_of_fix : forall a b, isSome (svc_diff_fixed a b) = isSome (svc_diff a b).
Proof. exact svc_diff_fixed_some. Qed.
Print Assumptions C17_service_none_independent_of_fix.

Theorem C17_self_copy_none_service_after_fix : forall s, wf_svc s = true -> svc_diff_fixed s s = None.
Proof. exact svc_diff_fixed_self. Qed.
Print Assumptions C17_self_copy_none_service_after_fix.

Theorem C17_added_is_removed_service_after_fix : forall a b,
  sd_added (svc_diff_fixed a b) = sd_removed (svc_diff_fixed b a) /\
  sd_removed (svc_diff_fixed a b) = sd_added (svc_diff_fixed b a).
Proof. exact svc_fixed_antisym. Qed.
Print Assumptions C17_added_is_removed_service_after_fix.

(* the specification lists read declaratively *)
Theorem C17_expected_added_reading : forall (E : Type) (nm : E -> N) oa ob x,
  In x (exp_added nm oa ob) <-> In x (dflt ob) /\ ~ In (nm x) (map nm (dflt oa)).
Proof. exact @exp_added_spec. Qed.
Print Assumptions C17_expected_added_reading.

Theorem C17_expected_removed_reading : forall (E : Type) (nm : E -> N) oa ob x,
  In x (exp_removed nm oa ob) <-> In x (dflt oa) /\ ~ In (nm x) (map nm (dflt ob)).
Proof. exact @exp_removed_spec. Qed.
Print Assumptions C17_expected_removed_reading.

Theorem C17_expected_modified_reading : forall (E : Type) (nm : E -> N) fl oa ob x f,
  NoDup (map nm (dflt ob)) ->
  (In (x, f) (exp_mod nm fl oa ob) <->
   In x (dflt oa) /\ exists y, In y (dflt ob) /\ nm y = nm x /\ f = fl x y /\ is_none f = false).
Proof. exact @exp_mod_spec. Qed.
Print Assumptions C17_expected_modified_reading.

(* ---- 3. what is 'added' from old to new is what is 'removed' from new to old ------------------ *)

Theorem C17_added_is_removed_node : forall a b oab oba,
  node_diff a b = Ok oab -> node_diff b a = Ok oba ->
  nd_added_c oab = nd_removed_c oba /\ nd_removed_c oab = nd_added_c oba /\
  nd_added_s oab = nd_removed_s oba /\ nd_removed_s oab = nd_added_s oba.
Proof. exact node_antisym. Qed.
Print Assumptions C17_added_is_removed_node.

Theorem C17_added_is_removed_service : forall a b,
  sd_added (svc_diff a b) = sd_removed (svc_diff b a) /\ sd_removed (svc_diff a b) = sd_added (svc_diff b a).
Proof. exact svc_antisym. Qed.
Print Assumptions C17_added_is_removed_service.

Theorem C17_added_is_removed_interface : forall a b,
  id_added (iface_diff a b) = id_removed (iface_diff b a) /\ id_removed (iface_diff a b) = id_added (iface_diff b a).
Proof. exact iface_antisym. Qed.
Print Assumptions C17_added_is_removed_interface.

(* ---- 4. single edits applied to a copy -------------------------------------------------------- *)

Theorem C17_add_component_reported : forall s c,
  wf_node s = true -> wf_node (add_comp c s) = true ->
  node_diff s (add_comp c s) = Ok (Some (mkNdiff [c] [] [] [] [] [] [])).
Proof. exact add_comp_reported. Qed.
Print Assumptions C17_add_component_reported.

Theorem C17_add_component_reverse_removed : forall s c,
  wf_node s = true -> wf_node (add_comp c s) = true ->
  exists o, node_diff (add_comp c s) s = Ok o /\ nd_removed_c o = [c] /\ nd_added_c o = [] /\
            nd_added_s o = [] /\ nd_removed_s o = [].
Proof. exact add_comp_reported_reverse. Qed.
Print Assumptions C17_add_component_reverse_removed.

Theorem C17_change_node_properties_reported : forall s p,
  wf_node s = true ->
  node_diff s (set_node_props p s)
  = Ok (if props_same (n_props s) p then None else Some (mkNdiff [] [] [] [] (exp_self (n_props s) p) [] [])).
Proof. exact set_props_reported. Qed.
Print Assumptions C17_change_node_properties_reported.

(* ---- 5. histories on long-lived slivers ------------------------------------------------------- *)
(* The modelled comparison is a function of its two operands, so these hold by construction; they are what the
   `history` stream checks of the implementation (edit in place, compare, edit more, compare again, undo, compare;
   every call twice, deep snapshots of both operands around each call). *)

Theorem C17_diff_history_memoryless : forall pre a b post,
  nth_error (run_history (pre ++ (a, b) :: post)) (length pre) = Some (node_diff a b).
Proof. exact history_memoryless. Qed.
Print Assumptions C17_diff_history_memoryless.

Theorem C17_diff_history_repeatable : forall h i j p,
  nth_error h i = Some p -> nth_error h j = Some p -> nth_error (run_history h) i = nth_error (run_history h) j.
Proof. exact history_repeatable. Qed.
Print Assumptions C17_diff_history_repeatable.

Theorem C17_diff_history_undo_none : forall h s,
  wf_node s = true -> nth_error (run_history (h ++ [(s, s)])) (length h) = Some (Ok None).
Proof. exact history_undo_none. Qed.
Print Assumptions C17_diff_history_undo_none.

(* ---- 6. Topology.diff (Model/TopoDiff17.v: the Python of fim/user/topology.py over flat graph views; the two
        Cypher queries as read there, modelled not verified) ----------------------------------------------- *)

Theorem C17_topology_self_copy_empty : forall t, wf_topo t = true -> tdiff_empty (topo_diff t t) = true.
Proof. exact topo_diff_self. Qed.
Print Assumptions C17_topology_self_copy_empty.

(* The full statement  forall a b, wf_topo a = true -> wf_topo b = true -> topo_diff a b = topo_expected a b  is FALSE
   of the modelled method, in two ways (findings C17-T2 and C17-T1; witnesses replayed through the stand-in): *)
Theorem C17_topology_exact_refuted_silent_change :
  wf_topo wt1_old = true /\ wf_topo wt1_new = true /\ topo_diff wt1_old wt1_new <> topo_expected wt1_old wt1_new /\
  tdiff_empty (topo_diff wt1_old wt1_new) = true /\ tdiff_empty (topo_expected wt1_old wt1_new) = false.
Proof. exact topo_exact_refuted_silent_change. Qed.
Print Assumptions C17_topology_exact_refuted_silent_change.

Theorem C17_topology_exact_refuted_last_of_class :
  wf_topo wt2_old = true /\ wf_topo wt2_new = true /\ topo_diff wt2_old wt2_new <> topo_expected wt2_old wt2_new /\
  tdiff_empty (topo_diff wt2_old wt2_new) = true /\ tdiff_empty (topo_expected wt2_old wt2_new) = false.
Proof. exact topo_exact_refuted_last_of_class. Qed.
Print Assumptions C17_topology_exact_refuted_last_of_class.

(* [visible_pair] excludes exactly the two signatures: no class is empty on one side only, and every element whose
   capacities or user data changed also changed its labels *)
Theorem C17_topology_exact_partial : forall a b,
  wf_topo b = true -> visible_pair a b = true -> topo_diff a b = topo_expected a b.
Proof. exact topo_diff_exact_partial. Qed.
Print Assumptions C17_topology_exact_partial.

Theorem C17_topology_added_is_removed : forall a b,
  td_added (topo_diff a b) = td_removed (topo_diff b a) /\ td_removed (topo_diff a b) = td_added (topo_diff b a).
Proof. exact topo_antisym. Qed.
Print Assumptions C17_topology_added_is_removed.

Theorem C17_topology_expected_added_reading : forall a b x,
  In x (only_in a b) <-> In x a /\ ~ In (g_id x) (map g_id b).
Proof. exact only_in_spec. Qed.
Print Assumptions C17_topology_expected_added_reading.

Theorem C17_topology_expected_modified_reading : forall a b x f,
  NoDup (map g_id b) ->
  (In (x, f) (exp_gmod a b) <->
   In x a /\ exists y, In y b /\ g_id y = g_id x /\ f = gflags x y /\ is_none f = false).
Proof. exact exp_gmod_spec. Qed.
Print Assumptions C17_topology_expected_modified_reading.

(* ---- non-vacuity ------------------------------------------------------------------------------ *)

Local Open Scope N_scope.
Definition ex_sub (n : N) (vlan : N) : subif := mkSub n n (mkProps (Some [(9, vlan)]%N) None None).
Definition ex_port (n : N) (vlan : N) (subs : list subif) : iface :=
  mkIf n n (mkProps (Some [(9%N, vlan)]) (Some [(4%N, 100%Z)]) None) true (Some subs).
Definition ex_svc (n : N) (ifs : list iface) : svc := mkSvc n n (mkProps None None (Some 7%N)) (Some ifs).
Definition ex_nic (n : N) (s : svc) : comp := mkComp n n (mkProps None None None) true (Some [s]).
Definition ex_gpu (n : N) : comp := mkComp n n (mkProps None (Some [(6%N, 1%Z)]) None) false None.
Definition ex_old : node :=
  mkNode 1 1 (mkProps None (Some [(1%N, 4%Z); (2%N, 16%Z)]) (Some 5%N))
         (Some [ex_nic 10 (ex_svc 11 [ex_port 12 100 [ex_sub 13 5]; ex_port 14 200 []]); ex_gpu 20])
         (Some [ex_svc 30 []]).
Definition ex_new : node :=
  mkNode 1 1 (mkProps (Some [(2%N, 1%N)]) (Some [(2%N, 16%Z); (1%N, 4%Z)]) (Some 5%N))
         (Some [ex_gpu 21; ex_nic 10 (ex_svc 11 [ex_port 12 100 [ex_sub 13 5; ex_sub 15 6]; ex_port 14 200 []])])
         None.

(* a well-formed, compatible pair with a non-trivial difference: node labels changed (capacities only
   reordered), GPU 20 removed, GPU 21 added, SmartNIC 10 gained a sub-interface, node-level service 30 removed *)
Example C17_nonvacuous :
  wf_node ex_old = true /\ wf_node ex_new = true /\ compat_node ex_old ex_new = true /\
  node_same ex_old ex_new = false /\
  obs_of_ndiff ex_old (node_diff ex_old ex_new)
  = ODiff [[]; [(21, 21)]; []; []] [[]; [(20, 20)]; [(30, 30)]; []] [[((1, 1), 1)]; [((10, 10), 8)]; []; []]%N /\
  node_diff ex_old ex_old = Ok None.
Proof. vm_compute. repeat split; reflexivity. Qed.

(* the service-level partial theorem is not vacuous either: a pair satisfying its hypotheses with a
   difference that includes a genuinely changed sub-interface set *)
Example C17_nonvacuous_service :
  let a := ex_svc 11 [ex_port 12 100 [ex_sub 13 5]; ex_port 14 200 []] in
  let b := ex_svc 11 [ex_port 12 101 [ex_sub 13 5; ex_sub 15 6]; ex_port 14 200 []] in
  wf_svc a = true /\ wf_svc b = true /\ compat_svc a b = true /\ no_port_only_change a b = true /\
  obs_of_sdiff a (svc_diff a b) = ODiff [[]; []; []; []] [[]; []; []; []] [[]; []; []; [((12, 12), 9)]]%N.
Proof. vm_compute. repeat split; reflexivity. Qed.

(* a topology pair inside the partial theorem's domain with a non-trivial difference: node 1 relabelled (and its
   capacities changed), node 2 removed with its component 20 (left to the parent), component 11 added to node 1 *)
Example C17_nonvacuous_topology :
  let a := mkTopo [mkG 1 1 (Some 5) (Some 6) None None; mkG 2 2 None None None None]
                  [mkG 10 10 None None None (Some 1); mkG 20 20 None None None (Some 2)] [] [] in
  let b := mkTopo [mkG 1 1 (Some 7) (Some 8) None None]
                  [mkG 10 10 None None None (Some 1); mkG 11 11 None None None (Some 1)] [] [] in
  wf_topo a = true /\ wf_topo b = true /\ visible_pair a b = true /\
  obs_of_tdiff (topo_diff a b)
  = ODiff [[]; [(11, 11)]; []; []] [[(2, 2)]; []; []; []] [[((1, 1), 3)]; []; []; []].
Proof. vm_compute. repeat split; reflexivity. Qed.

(* C07 - every model the topology API builds satisfies the published graph rules.
   Only statements; each is closed by `exact` of a lemma from Proofs/T7*.v.
   The model: Model/T7Graph.v (graph, primitive mutations, state/exception monad), Model/T7Ops.v (the building
   calls as monadic programs, `step`), Model/T7WF.v (the rules: boolean wf_b and declarative WF, the views),
   Model/T7Steps.v (unit mutations, their side conditions, the claim about histories: op_pre, run_hist, pre_along).
   Tables regenerated from the source: Gen/Rules.v, pinned in Model/T7Pinned.v. *)
From Coq Require Import String List NArith Bool.
From FIM Require Import Base.Str Gen.Rules Model.T7Pinned Model.T7Graph Model.T7Ops Model.T7WF Model.T7Steps
     Model.T7Rel Proofs.T7Tables Proofs.T7WFRefl Proofs.T7Units Proofs.T7Api Proofs.T7Api2 Proofs.T7Api3 Proofs.T7Api4
     Proofs.T7RelAdd Proofs.T7Api5 Proofs.T7Api6 Proofs.T7Rem3 Proofs.T7Rem5 Proofs.T7AddNs Proofs.T7AddFac Proofs.T7Hist Proofs.T7Views Proofs.T7Refuted.
Import ListNotations.

(* ---- the tables ------------------------------------------------------------------------------------------ *)
(* the translator recognised every source it reads (fail-closed flag) *)
Theorem C07_translated : gen_ok = true.
Proof. exact tables_gen_ok. Qed.
Print Assumptions C07_translated.

(* the regenerated vocabularies, rule texts, enum member lists, catalogue shape, NAME_REGEX texts and the
   ViewOnlyDict method list are the pinned specification tables *)
Theorem C07_tables_are_pinned : all_tables = all_pinned.
Proof. exact tables_are_pinned. Qed.
Print Assumptions C07_tables_are_pinned.

(* every member of the enums the API takes may be written under the published vocabularies ... *)
Theorem C07_node_types_in_vocabulary : forall t, In t enum_node_types -> type_allowed KNode t = true.
Proof. exact node_types_in_vocab. Qed.
Print Assumptions C07_node_types_in_vocabulary.
Theorem C07_component_types_in_vocabulary : forall t, In t enum_component_types -> type_allowed KComp t = true.
Proof. exact component_types_in_vocab. Qed.
Print Assumptions C07_component_types_in_vocabulary.
Theorem C07_interface_types_in_vocabulary : forall t, In t enum_interface_types -> type_allowed KCP t = true.
Proof. exact interface_types_in_vocab. Qed.
Print Assumptions C07_interface_types_in_vocabulary.
Theorem C07_link_types_in_vocabulary : forall t, In t enum_link_types -> type_allowed KLink t = true.
Proof. exact link_types_in_vocab. Qed.
Print Assumptions C07_link_types_in_vocabulary.
Theorem C07_service_types_in_vocabulary : forall t, In t enum_service_types -> type_allowed KNS t = true.
Proof. exact service_types_in_vocab. Qed.
Print Assumptions C07_service_types_in_vocabulary.
(* the types the API chooses itself (catalogue components, facility / switch / peering constructs) *)
Theorem C07_builtin_types_in_vocabulary : builtin_types_ok = true.
Proof. exact builtin_types_in_vocab. Qed.
Print Assumptions C07_builtin_types_in_vocabulary.

(* ---- the rules -------------------------------------------------------------------------------------------- *)
(* the boolean checker the harness evaluates on every snapshot of the implementation decides the declarative
   statement of the rules (fields, vocabularies, distinct ids, one owning node per component, one owner per
   interface, links join only interfaces, one peer per service port, names unique per scope) *)
Theorem C07_wf_b_decides_WF : forall g, wf_b g = true <-> WF g.
Proof. exact wf_b_reflect. Qed.
Print Assumptions C07_wf_b_decides_WF.

(* ---- the unit mutations keep the rules (arbitrary graph, arbitrary element) -------------------------------- *)
Theorem C07_add_plain_preserves : forall g n, WF g -> plain_ok g n = true -> WF (add_plain g n).
Proof. exact WF_add_plain. Qed.
Print Assumptions C07_add_plain_preserves.
(* element + owner edge as a unit: component, node-level service, interface, sub-interface *)
Theorem C07_add_owned_preserves : forall g n a r, WF g -> owned_ok g n a r = true -> WF (add_owned g n a r).
Proof. exact WF_add_owned. Qed.
Print Assumptions C07_add_owned_preserves.
Theorem C07_add_link_edge_preserves : forall g l i, WF g -> link_edge_ok g l i = true -> WF (add_link_edge g l i).
Proof. exact WF_add_link_edge. Qed.
Print Assumptions C07_add_link_edge_preserves.
Theorem C07_relabel_preserves : forall g x f, WF g -> relabel_ok g x f = true -> WF (relabel g x f).
Proof. exact WF_relabel. Qed.
Print Assumptions C07_relabel_preserves.
(* removal of ANY closed set of elements (owners take their components / services / interfaces along, a service
   port survives only with its link and peer): every removal program deletes by delete_node only *)
Theorem C07_closed_removal_preserves : forall g del, WF g -> closed_b g del = true -> WF (remove_set g del).
Proof. exact WF_remove_set. Qed.
Print Assumptions C07_closed_removal_preserves.
(* a service port together with its link, as a unit: under service s, joined to the interface i (connect_interface) *)
Theorem C07_add_peering_preserves :
  forall g s i sp l, WF g -> peering_ok g s i sp l = true -> WF (add_peering g s i sp l).
Proof. exact WF_add_peering. Qed.
Print Assumptions C07_add_peering_preserves.
(* ... two service ports under two services joined by one link (peer) *)
Theorem C07_add_peering2_preserves :
  forall g a b pa pb l, WF g -> peering2_ok g a b pa pb l = true -> WF (add_peering2 g a b pa pb l).
Proof. exact WF_add_peering2. Qed.
Print Assumptions C07_add_peering2_preserves.

(* ---- the building calls ------------------------------------------------------------------------------------ *)
(* UNCONDITIONAL STATEMENT (false of the faithful model, see the ..._refuted theorems and the notes):
     forall sub fl g o drawn hint, WF g -> WF (fst (step sub fl g o drawn hint))
   PROVED, for EVERY building call of the API made through a handle of an element that exists (25 of the 26 constructors
   of `op`; the 26th, OStaleAddIface = add_interface through the kept handle of a REMOVED service, leaves an interface without
   owner before a4fc126 and nothing since, C07_stale_add_interface_refuted): add_node, remove_node, node.add_component,
   node.add_storage, node.remove_component, add_facility, remove_facility, add_switch, remove_switch, add_network_service
   with or without interfaces, add_port_mirror_service, remove_network_service, node.add_network_service,
   node.remove_network_service, add_link, remove_link, connect_interface, disconnect_interface, peer, unpeer,
   add_child_interface, remove_child_interface, rename, set_property, unset_property) under the precondition op_pre of
   the call (Model/T7Steps.v) and whatever its outcome -- normal return or any exception with the partial effects made
   before it, including the states the rollbacks of add_facility / add_switch / add_network_service / peer /
   connect_interface leave; the removals are shown never to fail once they have deleted something.
   op_pre holds: enum arguments inside their enum; the documented domain of add_link / connect / disconnect (interfaces,
   no service port handed in -- for disconnect_interface not needed when the library refuses peering ports, C07-10);
   what excludes exactly the signature of a recorded defect (rename / set_property('name') to a name
   used in the scope, remove_link of a peering link, peer(a, a), a taken `<a>-<b>-link` name for peer); the repairs the
   proof relies on, as behaviour flags read off the running library (connect: 8b1a93d + 7b7379b; removals: 5286851);
   and three structural side conditions for the calls that remove service ports (every model the API builds has them,
   the published rules do not state them): subs_under_dedicated, ns_cp_connects, one_sp_peer. *)
Theorem C07_step_preserves :
  forall sub fl g o drawn hint g' out, WF g -> op_pre fl g o = true -> step sub fl g o drawn hint = (g', out) -> WF g'.
Proof. exact step_preserves. Qed.
Print Assumptions C07_step_preserves.

(* the calls that make or take away a service port with its link, one by one and with their hypotheses spelled out.
   connect_interface of an interface that is not a service port, by a library that checks the derived names: the
   result is well-formed, except -- for a library WITHOUT the rollback 7b7379b -- when the call raised between the
   two constructions (no id to draw / duplicate id / derived link name too long), which leaves the port without link *)
Theorem C07_connect_interface_preserves :
  forall fl sub s i st st' r,
    WF (sg st) -> fl_connect_names fl = true ->
    cls_is (sg st) s KNS = true -> cls_is (sg st) i KCP = true -> typ_is (sg st) i sServicePort = false ->
    connect_interface fl sub s i st = (st', r) -> WF (sg st') \/ (fl_connect_undo fl = false /\ late r).
Proof. exact api_connect. Qed.
Print Assumptions C07_connect_interface_preserves.
(* subs_under_dedicated: every interface-to-interface edge has a DedicatedPort end (add_child_interface enforces it) *)
Theorem C07_disconnect_interface_preserves :
  forall i s s' r,
    WF (sg s) -> subs_under_dedicated (sg s) = true -> cls_is (sg s) i KCP = true -> typ_is (sg s) i sServicePort = false ->
    disconnect_interface i s = (s', r) -> WF (sg s').
Proof. exact api_disconnect. Qed.
Print Assumptions C07_disconnect_interface_preserves.
Theorem C07_remove_child_interface_preserves :
  forall i name s s' r,
    WF (sg s) -> subs_under_dedicated (sg s) = true -> iface_remove_child i name s = (s', r) -> WF (sg s').
Proof. exact api_remove_child. Qed.
Print Assumptions C07_remove_child_interface_preserves.
(* peer: all or nothing -- when it raises after the first port was made, the handlers give back the graph before the
   call.  The library does not look whether the two services differ (peer(a, a) gives two ports of one name: the second
   handle's cached interface list does not see the first port) nor whether the derived link name is free: either the
   caller sees to both, or the library does (proposed C07-7, flag fl_peer_checks) *)
Theorem C07_peer_preserves :
  forall fl sub a b st st' r,
    WF (sg st) -> cls_is (sg st) a KNS = true -> cls_is (sg st) b KNS = true ->
    (fl_peer_checks fl = false ->
     a <> b /\ forall an bn, name_of (sg st) a = Some an -> name_of (sg st) b = Some bn ->
                 name_free (sg st) KLink (Some (an ++ dash ++ bn ++ S "-link")) = true) ->
    ns_peer fl sub a b st = (st', r) -> WF (sg st').
Proof. exact api_peer. Qed.
Print Assumptions C07_peer_preserves.
(* unpeer (after 24d5e04): every peering between the two services is taken away, ports and link *)
Theorem C07_unpeer_preserves :
  forall a b st st' r,
    WF (sg st) -> subs_under_dedicated (sg st) = true -> ns_unpeer a b st = (st', r) -> WF (sg st').
Proof. exact api_unpeer. Qed.
Print Assumptions C07_unpeer_preserves.

(* the removals, one by one.  Side conditions (Model/T7Steps.v; each holds of every model the API builds, none is a
   published rule): subs_under_dedicated -- interface-to-interface edges have a DedicatedPort end; ns_cp_connects -- an
   interface hangs off a service over `connects`; one_sp_peer -- an interface has at most one service-port peer. *)
Theorem C07_remove_network_service_preserves :
  forall fl hint name s s' r,
    WF (sg s) -> subs_under_dedicated (sg s) = true -> one_sp_peer (sg s) = true -> fl_skip_gone fl = true ->
    t_remove_ns fl hint name s = (s', r) -> WF (sg s').
Proof. exact api_t_remove_ns. Qed.
Print Assumptions C07_remove_network_service_preserves.
Theorem C07_node_remove_network_service_preserves :
  forall fl hint nd name s s' r,
    WF (sg s) -> subs_under_dedicated (sg s) = true -> one_sp_peer (sg s) = true -> fl_skip_gone fl = true ->
    node_remove_ns fl hint nd name s = (s', r) -> WF (sg s').
Proof. exact api_node_remove_ns. Qed.
Print Assumptions C07_node_remove_network_service_preserves.
Theorem C07_remove_node_preserves :
  forall fl hint name s s' r,
    WF (sg s) -> subs_under_dedicated (sg s) = true -> ns_cp_connects (sg s) = true -> one_sp_peer (sg s) = true ->
    fl_skip_gone fl = true -> t_remove_node fl hint name s = (s', r) -> WF (sg s').
Proof. exact api_t_remove_node. Qed.
Print Assumptions C07_remove_node_preserves.
Theorem C07_remove_facility_preserves :
  forall fl hint name s s' r,
    WF (sg s) -> subs_under_dedicated (sg s) = true -> ns_cp_connects (sg s) = true -> one_sp_peer (sg s) = true ->
    fl_skip_gone fl = true -> t_remove_facility fl hint name s = (s', r) -> WF (sg s').
Proof. exact api_t_remove_facility. Qed.
Print Assumptions C07_remove_facility_preserves.
Theorem C07_remove_switch_preserves :
  forall fl hint name s s' r,
    WF (sg s) -> subs_under_dedicated (sg s) = true -> ns_cp_connects (sg s) = true -> one_sp_peer (sg s) = true ->
    fl_skip_gone fl = true -> t_remove_switch fl hint name s = (s', r) -> WF (sg s').
Proof. exact api_t_remove_switch. Qed.
Print Assumptions C07_remove_switch_preserves.
Theorem C07_remove_component_preserves :
  forall fl hint nd name s s' r,
    WF (sg s) -> subs_under_dedicated (sg s) = true -> ns_cp_connects (sg s) = true -> one_sp_peer (sg s) = true ->
    fl_skip_gone fl = true -> node_remove_component fl hint nd name s = (s', r) -> WF (sg s').
Proof. exact api_node_remove_component. Qed.
Print Assumptions C07_remove_component_preserves.

(* constructor level (used by the calls above AND by the unproved add_component / add_facility / add_switch):
   the sliver additions create node + owner edge together (abc_property_graph.py:1242-1301) -- the pair
   add_node ; add_link keeps WF whatever its outcome, and when it returns normally the graph is the unit add_owned *)
Theorem C07_node_and_owner_edge_unit :
  forall n a rl s s' r, WF (sg s) -> (has_id (sg s) (nid n) = false -> owned_ok (sg s) n a rl = true) ->
    bind (add_node n) (fun _ => add_link a rl (nid n)) s = (s', r) ->
    WF (sg s') /\ (r = Ok tt -> sg s' = add_owned (sg s) n a rl).
Proof. exact api_add_owned. Qed.
Print Assumptions C07_node_and_owner_edge_unit.
(* Interface(NEW) (interface.py:62-80) for every interface kind but a service port, under a service or a parent port *)
Theorem C07_new_interface_preserves :
  forall sub name iid parent itype lab s s' r,
    WF (sg s) -> type_allowed KCP itype = true -> str_eqb itype sServicePort = false ->
    (if str_eqb itype sSubInterface then cls_is (sg s) parent KCP && negb (typ_is (sg s) parent sSubInterface)
     else cls_is (sg s) parent KNS) = true ->
    sibling_free (sg s) parent Connects KCP (Some name) = true ->
    new_interface sub name iid parent itype lab s = (s', r) -> WF (sg s').
Proof. exact api_new_interface. Qed.
Print Assumptions C07_new_interface_preserves.
(* NetworkService(NEW) under a node or component (network_service.py:80-98) *)
Theorem C07_new_owned_service_preserves :
  forall name sid nstype p s s' r,
    WF (sg s) -> type_allowed KNS nstype = true ->
    (cls_is (sg s) p KNode = true \/ cls_is (sg s) p KComposite = true \/ cls_is (sg s) p KComp = true) ->
    sibling_free (sg s) p Has KNS (Some name) = true ->
    new_service name sid nstype (Some p) s = (s', r) -> WF (sg s').
Proof. exact api_new_service_owned. Qed.
Print Assumptions C07_new_owned_service_preserves.

(* add_facility / add_switch build node + service + interfaces, each element with its owner edge; a rejected later step
   (e.g. a repeated interface name) takes the node away again.  Every outcome, no precondition: nothing but the call
   itself has touched the new node, so its interfaces carry no link and the removal strands nothing *)
Theorem C07_add_facility_preserves :
  forall sub name nid ifnames s s' r, WF (sg s) -> t_add_facility sub name nid ifnames s = (s', r) -> WF (sg s').
Proof. exact api_add_facility. Qed.
Print Assumptions C07_add_facility_preserves.
Theorem C07_add_switch_preserves :
  forall sub name nid nports s s' r, WF (sg s) -> t_add_switch sub name nid nports s = (s', r) -> WF (sg s').
Proof. exact api_add_switch. Qed.
Print Assumptions C07_add_switch_preserves.
(* add_network_service with interfaces (and add_port_mirror_service): the service, one connect_interface per interface;
   a failure disconnects what was connected and removes the service (16ce105).  The new service owns only the service
   ports this call made, each peered with the interface it was made for *)
Theorem C07_add_network_service_preserves :
  forall fl sub name sid nstype ifs s s' r,
    WF (sg s) -> subs_under_dedicated (sg s) = true -> type_allowed KNS nstype = true ->
    fl_connect_names fl = true -> fl_connect_undo fl = true ->
    (forall j, In j ifs -> cls_is (sg s) j KCP = true /\ typ_is (sg s) j sServicePort = false) ->
    t_add_ns fl sub name sid nstype ifs s = (s', r) -> WF (sg s').
Proof. exact api_add_ns. Qed.
Print Assumptions C07_add_network_service_preserves.

(* all histories of calls whose preconditions hold along the way, by induction over the history, from any well-formed
   model -- in particular from the empty one *)
Theorem C07_all_histories :
  forall sub fl h g, WF g -> pre_along sub fl g h = true -> WF (run_hist sub fl g h).
Proof. exact histories. Qed.
Print Assumptions C07_all_histories.
Theorem C07_empty_model_well_formed : WF empty_graph.
Proof. exact WF_empty. Qed.
Print Assumptions C07_empty_model_well_formed.

(* the defects that make the full statement false of the library WITHOUT the proposed repairs (flags_off) *)
Theorem C07_rename_refuted :
  let g := run_hist false flags_off empty_graph w_rename_hist in
  WF g /\ ~ WF (fst (step false flags_off g w_rename_op [] [])).
Proof. exact rename_refuted. Qed.
Print Assumptions C07_rename_refuted.
Theorem C07_remove_link_refuted :
  let g := run_hist false flags_off empty_graph w_link_hist in
  WF g /\ ~ WF (fst (step false flags_off g w_link_op [] [])).
Proof. exact remove_link_refuted. Qed.
Print Assumptions C07_remove_link_refuted.
(* the library as it is (all landed repairs, incl. the rename check): rename to a used name is refused, the same name
   through set_properties(name=...) is written; with the proposed C07-8 it is refused too *)
Theorem C07_set_properties_name_refuted :
  let g := run_hist false flags_rename_only empty_graph w_rename_hist in
  WF g /\ ~ WF (fst (step false flags_rename_only g w_setprops_op [] [])) /\
  snd (step false flags_rename_only g w_setprops_op [] []) = None /\
  step false flags_rename_only g w_rename_op [] [] = (g, Some ETopology) /\
  step false flags_on g w_setprops_op [] [] = (g, Some ETopology).
Proof. exact set_properties_name_refuted. Qed.
Print Assumptions C07_set_properties_name_refuted.
(* three entry points found in round 5 (HEAD a4fc126 = flags_head); the first two are refused under flags_on (proposed
   C07-9, C07-10), the third was repaired by a4fc126 (C09's side: the parent is looked up before the node is added) *)
Theorem C07_add_link_non_interfaces_refuted :
  let g := run_hist false flags_head empty_graph w_rename_hist in
  WF g /\ ~ WF (fst (step false flags_head g w_linknodes_op [] [])) /\
  snd (step false flags_head g w_linknodes_op [] []) = None /\
  step false flags_on g w_linknodes_op [] [] = (g, Some ETopology).
Proof. exact add_link_non_interfaces_refuted. Qed.
Print Assumptions C07_add_link_non_interfaces_refuted.
Theorem C07_disconnect_peering_port_refuted :
  let g := run_hist false flags_head empty_graph w_discpeer_hist in
  WF g /\ ~ WF (fst (step false flags_head g w_discpeer_op [] [])) /\
  snd (step false flags_head g w_discpeer_op [] []) = None /\
  step false flags_on g w_discpeer_op [] [] = (g, Some ETopology).
Proof. exact disconnect_peering_port_refuted. Qed.
Print Assumptions C07_disconnect_peering_port_refuted.
Theorem C07_stale_add_interface_refuted :
  ~ WF (fst (step false flags_before_parent_first empty_graph w_stale_op [] [])) /\
  snd (step false flags_before_parent_first empty_graph w_stale_op [] []) = Some EQuery /\
  step false flags_head empty_graph w_stale_op [] [] = (empty_graph, Some EQuery).
Proof. exact stale_add_interface_refuted. Qed.
Print Assumptions C07_stale_add_interface_refuted.
Theorem C07_peer_self_refuted :
  let g := run_hist false flags_off empty_graph w_selfpeer_hist in
  WF g /\ ~ WF (fst (step false flags_off g w_selfpeer_op w_selfpeer_ids [])) /\
  snd (step false flags_off g w_selfpeer_op w_selfpeer_ids []) = None.
Proof. exact peer_self_refuted. Qed.
Print Assumptions C07_peer_self_refuted.
Theorem C07_peer_link_name_refuted :
  let g := run_hist false flags_off empty_graph w_peerlink_hist in
  WF g /\ ~ WF (fst (step false flags_off g w_peerlink_op w_selfpeer_ids [])) /\
  snd (step false flags_off g w_peerlink_op w_selfpeer_ids []) = None.
Proof. exact peer_link_name_refuted. Qed.
Print Assumptions C07_peer_link_name_refuted.
Theorem C07_peer_witnesses_refused_when_repaired :
  step false flags_on (run_hist false flags_on empty_graph w_selfpeer_hist) w_selfpeer_op w_selfpeer_ids []
    = (run_hist false flags_on empty_graph w_selfpeer_hist, Some ETopology) /\
  step false flags_on (run_hist false flags_on empty_graph w_peerlink_hist) w_peerlink_op w_selfpeer_ids []
    = (run_hist false flags_on empty_graph w_peerlink_hist, Some ETopology).
Proof. exact peer_witnesses_refused_when_repaired. Qed.
Print Assumptions C07_peer_witnesses_refused_when_repaired.
(* ... and with the proposed repairs (flags_on) the same two calls are refused and change nothing *)
Theorem C07_witnesses_refused_when_repaired :
  step false flags_on (run_hist false flags_on empty_graph w_rename_hist) w_rename_op [] []
    = (run_hist false flags_on empty_graph w_rename_hist, Some ETopology) /\
  step false flags_on (run_hist false flags_on empty_graph w_link_hist) w_link_op [] []
    = (run_hist false flags_on empty_graph w_link_hist, Some ETopology).
Proof. exact witnesses_refused_when_repaired. Qed.
Print Assumptions C07_witnesses_refused_when_repaired.
(* a repeated interface name in add_facility is refused and the half-built facility removed (fixes 18a115a, 2982a89) *)
Theorem C07_add_facility_duplicate_refused :
  forall fl, step false fl empty_graph w_facility_op [] [] = (empty_graph, Some ETopology).
Proof. exact add_facility_duplicate_refused. Qed.
Print Assumptions C07_add_facility_duplicate_refused.

(* ---- the read-only views ----------------------------------------------------------------------------------- *)
Theorem C07_view_nodes_exact : forall g, WF g -> view_nodes g = map nid (nodes_view g).
Proof. exact view_nodes_exact. Qed.
Print Assumptions C07_view_nodes_exact.
Theorem C07_view_facilities_exact : forall g, WF g -> view_facilities g = map nid (facilities_view g).
Proof. exact view_facilities_exact. Qed.
Print Assumptions C07_view_facilities_exact.
Theorem C07_view_links_exact : forall g, WF g -> view_links g = map nid (of_class KLink g).
Proof. exact view_links_exact. Qed.
Print Assumptions C07_view_links_exact.
Theorem C07_view_interface_list_exact :
  forall g, WF g -> view_interface_list g = flat_map (node_ifs g) (map nid (nodes_view g)).
Proof. exact view_interface_list_exact. Qed.
Print Assumptions C07_view_interface_list_exact.
(* FULL STATEMENT (false): forall g, WF g -> view_services g = map nid (of_class KNS g) *)
Theorem C07_view_services_exact_partial :
  forall g, NoDup (map nname (of_class KNS g)) -> view_services g = map nid (of_class KNS g).
Proof. exact view_services_exact_partial. Qed.
Print Assumptions C07_view_services_exact_partial.
Theorem C07_view_services_refuted :
  let g := run_hist false flags_off empty_graph w_services_hist in WF g /\ length (view_services g) <> length (of_class KNS g).
Proof. exact view_services_refuted. Qed.
Print Assumptions C07_view_services_refuted.
(* ViewOnlyDict(Mapping) defines read methods only *)
Theorem C07_viewonly_read_methods :
  viewonly_bases = [S "Mapping"] /\ forall m, In m viewonly_methods -> In m read_methods.
Proof. exact viewonly_is_read_only. Qed.
Print Assumptions C07_viewonly_read_methods.

(* ---- non-vacuity ------------------------------------------------------------------------------------------- *)
(* a model with components and a connected service ... *)
Definition base_hist : list hstep :=
  [(OAddNode (S "n1") None (S "VM"), [S "u1"], []);
   (OAddComponent (S "u1") (S "c1") None (S "SmartNIC") (S "ConnectX-6") None None, [S "u2"; S "u3"; S "u4"; S "u5"], []);
   (OAddComponent (S "u1") (S "c2") None (S "SharedNIC") (S "ConnectX-6") None None, [S "u6"; S "u7"; S "u8"], []);
   (OAddNS (S "s1") None (S "L2Bridge") [S "u7"], [S "u9"; S "u10"; S "u11"], [])].
Definition ex_base : graph := run_hist false flags_off empty_graph base_hist.
(* ... extended by a history of calls whose preconditions all hold: the hypothesis of C07_all_histories is satisfied by
   a non-trivial history (20 elements at the end) *)
Definition ex_hist : list hstep :=
  [(OAddNode (S "n2") None (S "Server"), [S "v1"], []);
   (ONodeAddNS (S "v1") (S "ns") None (S "P4"), [S "v2"], []);
   (OAddSub (S "u3") (S "sub1") None true, [S "v3"], []);
   (OAddComponent (S "v1") (S "nic") None (S "SmartNIC") (S "ConnectX-5") None None, [S "w1"; S "w2"; S "w3"; S "w4"], []);
   (OAddStorage (S "v1") (S "vol") None, [S "w5"], []);
   (OAddLink (S "l1") None (S "L2Path") [S "u3"; S "u4"], [S "v4"], []);
   (ORename (RNode (S "v1")) (S "n3"), [], []);
   (OSetProp (RIface (S "u4")) PLabels (S ""), [], []);
   (OUnsetProp (RIface (S "u4")) ULabels, [], []);
   (ORemoveLink (S "l1"), [], []);
   (OAddNS (S "s2") None (S "L2STS") [], [S "v5"], [])].
Example C07_histories_hypothesis_satisfiable :
  wf_b ex_base = true /\ pre_along false flags_off ex_base ex_hist = true /\ pre_along false flags_on ex_base ex_hist = true /\
  length (gnodes (run_hist false flags_on ex_base ex_hist)) = 20 /\ wf_b (run_hist false flags_on ex_base ex_hist) = true.
Proof. vm_compute. repeat split. Qed.
(* ... and by a history of the calls that make and take away service ports: two connections (one of a sub-interface),
   a peering, and their removal by disconnect_interface, unpeer and remove_child_interface; every call returns *)
Definition ex_hist2 : list hstep :=
  [(OAddNS (S "s2") None (S "L2Bridge") [], [S "v1"], []);
   (OAddNS (S "s3") None (S "L2Bridge") [], [S "v2"], []);
   (OAddSub (S "u3") (S "sub1") None true, [S "v3"], []);
   (OConnect (S "v1") (S "u3"), [S "v4"; S "v5"], []);
   (OConnect (S "v1") (S "v3"), [S "v6"; S "v7"], []);
   (OPeer (S "v1") (S "v2"), [S "v8"; S "v9"; S "v10"], []);
   (ODisconnect (S "v1") (S "u3"), [], []);
   (OUnpeer (S "v1") (S "v2"), [], []);
   (ORemoveSub (S "u3") (S "sub1"), [], [])].
Example C07_histories_hypothesis_satisfiable_ports :
  pre_along false flags_on ex_base ex_hist2 = true /\
  map (fun k => length (gnodes (run_hist false flags_on ex_base (firstn k ex_hist2)))) [3; 6; 7; 8; 9] = [14; 21; 19; 16; 13] /\
  wf_b (run_hist false flags_on ex_base ex_hist2) = true.
Proof. vm_compute. repeat split. Qed.
(* ... and by the removals, on a model with connections, a peering and a node-level service: the service with two
   connections and a peering goes (24 -> 16 elements), then the node-level service, a component whose port is connected
   to another service, and the node with what is left on it; the two services that remain are all that is left *)
Definition ex_hist3 : list hstep :=
  firstn 6 ex_hist2 ++
  [(ONodeAddNS (S "u1") (S "ns") None (S "OVS"), [S "v11"], []);
   (OConnect (S "v2") (S "u4"), [S "v12"; S "v13"], []);
   (ORemoveNS (S "s2"), [], []);
   (ONodeRemoveNS (S "u1") (S "ns"), [], []);
   (ORemoveComponent (S "u1") (S "c2"), [], []);
   (ORemoveNode (S "n1"), [], [])].
Example C07_histories_hypothesis_satisfiable_removals :
  pre_along false flags_on ex_base ex_hist3 = true /\
  map (fun k => length (gnodes (run_hist false flags_on ex_base (firstn k ex_hist3)))) [8; 9; 10; 11; 12] = [24; 16; 15; 10; 2] /\
  map nid (gnodes (run_hist false flags_on ex_base ex_hist3)) = [S "u9"; S "v2"] /\
  wf_b (run_hist false flags_on ex_base ex_hist3) = true.
Proof. vm_compute. repeat split. Qed.
(* ... and from the EMPTY model: the base, a facility, a switch, a facility whose repeated interface name is refused and
   rolled back (19 elements before and after), a service over a facility port and a switch port, a port mirror service,
   and the removal of facility and switch with what was connected to them *)
Definition fac_hist : list hstep :=
  [(OAddFacility (S "f1") None (Some [S "a"; S "b"]), [S "f1"; S "f2"; S "f3"; S "f4"], []);
   (OAddSwitch (S "w1") None 2, [S "w1"; S "w2"; S "w3"; S "w4"], []);
   (OAddFacility (S "f2") None (Some [S "a"; S "a"]), [S "x1"; S "x2"; S "x3"; S "x4"], []);
   (OAddNS (S "s9") None (S "L2STS") [S "f3"; S "w3"], [S "y1"; S "y2"; S "y3"; S "y4"; S "y5"], []);
   (OAddPM (S "pm") None (S "w4"), [S "z1"; S "z2"; S "z3"], []);
   (ORemoveFacility (S "f1"), [], []);
   (ORemoveSwitch (S "w1"), [], [])].
Example C07_histories_from_the_empty_model :
  pre_along false flags_on empty_graph (base_hist ++ fac_hist) = true /\
  map (fun k => length (gnodes (run_hist false flags_on empty_graph (firstn k (base_hist ++ fac_hist))))) [4; 5; 6; 7; 8; 9; 10; 11]
    = [11; 15; 19; 19; 24; 27; 21; 13] /\
  snd (step false flags_on (run_hist false flags_on empty_graph (firstn 6 (base_hist ++ fac_hist)))
         (OAddFacility (S "f2") None (Some [S "a"; S "a"])) [S "x1"; S "x2"; S "x3"; S "x4"] []) = Some ETopology /\
  wf_b (run_hist false flags_on empty_graph (base_hist ++ fac_hist)) = true.
Proof. vm_compute. repeat split. Qed.
(* a closed removal set that is not trivial: the component c1 with its service, ports and sub-interface *)
Example C07_closed_removal_satisfiable :
  let g := run_hist false flags_off ex_base (firstn 3 ex_hist) in
  let del := fun y => mem_str y [S "u2"; S "u3"; S "u4"; S "u5"; S "v3"] in
  closed_b g del = true /\ length (gnodes (remove_set g del)) = 9.
Proof. vm_compute. split; reflexivity. Qed.
(* the side condition of add_owned on a real element: a sub-interface under a dedicated port *)
Example C07_owned_ok_satisfiable :
  owned_ok ex_base (mkNode (S "new") KCP (Some sSubInterface) (Some (S "sub9")) true) (S "u3") Connects = true.
Proof. vm_compute. reflexivity. Qed.

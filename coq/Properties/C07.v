(* C07 - every model the topology API builds satisfies the published graph rules.
   Statements only; each is closed by `exact` of a lemma from Proofs/T7*.v. *)
From Coq Require Import String List NArith Bool.
From FIM Require Import Base.Str Gen.Rules Model.T7Pinned Model.T7Graph Model.T7Ops Model.T7WF Proofs.T7Tables.
Import ListNotations.

(* the translator recognised every source it reads (fail-closed flag) *)
Theorem C07_translated : gen_ok = true.
Proof. exact tables_gen_ok. Qed.
Print Assumptions C07_translated.

(* the regenerated vocabularies, rule texts, enum member lists, catalogue shape, NAME_REGEX texts and the
   ViewOnlyDict method list are the pinned specification tables *)
Theorem C07_tables_are_pinned : all_tables = all_pinned.
Proof. exact tables_are_pinned. Qed.
Print Assumptions C07_tables_are_pinned.

(* C03 - attribute value codecs are lossless, canonical and never mutate their input.
   Only statements; each is closed by `exact` of a lemma from Proofs/Codec*.v or Base/JsonRT.v. *)
From Coq Require Import String List NArith ZArith Bool.
From FIM Require Import Base.Str Base.Json Gen.CodecGen Model.CodecField Model.CodecMisc Proofs.CodecTables.
Import ListNotations.

Theorem C03_translated : codec_gen_ok = true.
Proof. exact codec_gen_ok_true. Qed.
Print Assumptions C03_translated.

Theorem C03_enumerations_match_source :
  path_type_names = ptype_names /\ maint_state_names = mstate_names /\
  maint_entry_fields = ["state"; "deadline"; "expected_end"]%string /\
  gen_class_names = ["Capacities"; "CapacityHints"; "Labels"; "ReservationInfo"; "StructuralInfo"; "Location"; "Flags"]%string /\
  jsondata_names = ["MeasurementData"; "UserData"; "LayoutData"]%string.
Proof. exact codec_enums_match. Qed.
Print Assumptions C03_enumerations_match_source.

(* C03 - attribute value codecs are lossless, canonical and never mutate their input.
   Only statements; each is closed by `exact` of a lemma from Base/JsonRT.v or Proofs/Codec*.v.

   The model (Model/CodecField.v, Model/CodecMisc.v over Base/Json.v) is parameterised by the REGENERATED
   class table Gen/CodecGen.v and by the validators (V: label regexes/lambdas, VT: tag pattern, VISO:
   datetime.fromisoformat), which stay universally quantified: the theorems hold whatever they accept.
   Encoders and decoders work on the TEXT (jprint/jparse are the models of json.dumps/json.loads).
   `_partial` = extra hypothesis excluding exactly a recorded finding; `_refuted` = the full statement fails,
   with a witness that the harness replays on the implementation.  The model follows /repo after the fix: commits
   eb213ea (Location), a836d08 (from_json skips unknown keys first), 9b14727 (PathInfo/ERO nothing set => ''),
   9153c3e (MaintenanceInfo.from_json ignores unknown entry fields), 450b7bb (Gateway.from_json: no labels => absent), 2623e10 (update copies lists). *)
From Coq Require Import String List NArith ZArith Bool Permutation.
From FIM Require Import Base.Str Base.Json Base.JsonRT Gen.CodecGen Model.CodecField Model.CodecMisc Model.CodecWf
     Model.CodecChk Proofs.CodecAssoc Proofs.CodecTables Proofs.CodecFieldRT Proofs.CodecMiscRT Proofs.CodecGateway Proofs.CodecDecode.
Import ListNotations.

(* ---------------------------------------------------------------- tables *)
Theorem C03_translated : codec_gen_ok = true.
Proof. exact codec_gen_ok_true. Qed.
Print Assumptions C03_translated.

Theorem C03_enumerations_match_source :
  path_type_names = ptype_names /\ maint_state_names = mstate_names /\
  maint_entry_fields = ["state"; "deadline"; "expected_end"]%string /\
  gen_class_names = ["Capacities"; "CapacityHints"; "Labels"; "ReservationInfo"; "StructuralInfo"; "Location"; "Flags"]%string /\
  jsondata_names = ["MeasurementData"; "UserData"; "LayoutData"]%string.
Proof. exact codec_enums_match. Qed.
Print Assumptions C03_enumerations_match_source.

Theorem C03_classes_wellformed : forall V c, In c gen_classes -> cls_ok V c = true.
Proof. exact classes_ok. Qed.
Print Assumptions C03_classes_wellformed.

(* ---------------------------------------------------------------- JSON text level *)
(* json.loads (json.dumps (v [, sort_keys])) = v [with sorted keys], for every value without lone surrogates,
   with float tokens the scanner reads back and pairwise distinct dict keys; unbounded nesting *)
Theorem C03_json_text_roundtrip : forall b v, jwfb v = true ->
  jparse (jdumps b v) = Some (if b then jsort v else v).
Proof. exact jparse_jdumps. Qed.
Print Assumptions C03_json_text_roundtrip.

Theorem C03_json_sorted_form_wellformed : forall v, jwfb v = true -> jwfb (jsort v) = true.
Proof. exact jwfb_jsort. Qed.
Print Assumptions C03_json_sorted_form_wellformed.

(* ---------------------------------------------------------------- the JSONField family *)
(* lossless: decode (encode x) = x; a value with nothing to encode becomes '' and is read back as absent
   (Flags, which overrides to_json, is always encoded in full) *)
Theorem C03_field_roundtrip : forall V c o, In c gen_classes -> wf_obj V c o = true ->
  from_json V c (Some (to_json c o)) = Ok (if nothing_kept c o && jc_json_blank c then None else Some o).
Proof. exact (fun V c o H => field_roundtrip V c o (classes_ok V c H)). Qed.
Print Assumptions C03_field_roundtrip.

(* canonical: re-encoding the decoded value gives the identical text *)
Theorem C03_field_canonical : forall V c o y, In c gen_classes -> wf_obj V c o = true ->
  from_json V c (Some (to_json c o)) = Ok (Some y) -> to_json c y = to_json c o.
Proof. exact (fun V c o y H => field_canonical V c o y (classes_ok V c H)). Qed.
Print Assumptions C03_field_canonical.

(* wf_obj excludes a value only if the encoder drops it; that exclusion is harmless exactly when every accepted
   value the encoder drops IS the default -- true of every regenerated class but Capacities (next three).
   This is the obligation that a `== 0` drop rule on a float-valued class (Location before eb213ea) breaks. *)
Theorem C03_drop_rule_lossless : forall c, In c gen_classes -> jc_name c <> n_capacities -> lossless_cls c = true.
Proof. exact drop_rule_lossless. Qed.
Print Assumptions C03_drop_rule_lossless.

Theorem C03_capacities_drop_rule_lossless_partial :
  In cls_Capacities gen_classes /\ jc_name cls_Capacities = n_capacities /\
  lossless_cls_but [JNull; JBool false] cls_Capacities = true.
Proof. exact capacities_lossless_partial. Qed.
Print Assumptions C03_capacities_drop_rule_lossless_partial.

(* FULL: lossless_cls cls_Capacities = true.  Refuted: Capacities(core=None, ram=1) reads back with core = 0
   (False, also accepted and dropped, reads back as 0, which Python considers equal). *)
Theorem C03_capacities_none_refuted :
  exists kw o o', construct VA cls_Capacities kw = Ok o
    /\ from_json VA cls_Capacities (Some (to_json cls_Capacities o)) = Ok (Some o')
    /\ json_eqb (JObj o) (JObj o') = false.
Proof. exact capacities_none_refuted. Qed.
Print Assumptions C03_capacities_none_refuted.

(* forward compatibility, full strength: a text decodes exactly as its known part -- unknown keys, whatever their
   values (and whether or not they are attribute names of the class), are ignored and no known key is dropped *)
Theorem C03_field_forward_compat : forall V c t d, jparse t = Some (JObj d) -> absent_text t = false ->
  from_json V c (Some t) = some_res (of_dict V c (filter (known_key c) d)).
Proof. exact field_forward_compat. Qed.
Print Assumptions C03_field_forward_compat.

Theorem C03_field_forward_compat_same_known_part : forall V c t t' d d',
  jparse t = Some (JObj d) -> jparse t' = Some (JObj d') -> absent_text t = false -> absent_text t' = false ->
  filter (known_key c) d' = filter (known_key c) d -> from_json V c (Some t') = from_json V c (Some t).
Proof. exact field_forward_compat_same. Qed.
Print Assumptions C03_field_forward_compat_same_known_part.

Theorem C03_field_forward_compat_value : forall V c o t d, In c gen_classes -> wf_obj V c o = true ->
  jparse t = Some (JObj d) -> absent_text t = false ->
  Permutation (filter (known_key c) d) (kept (jc_json_drop c) o) ->
  from_json V c (Some t) = Ok (Some o).
Proof. exact (fun V c o t d H => field_forward_compat_value V c o t d (classes_ok V c H)). Qed.
Print Assumptions C03_field_forward_compat_value.

(* copy-with-changes: same fields in the same order, the named ones replaced, every other one taken from the
   original; all new values were accepted by the class.  (That the ORIGINAL OBJECT is untouched is an aliasing
   fact a pure model cannot state; it is checked on every run by before/after snapshots in the field stream.) *)
Theorem C03_update_spec : forall V c o kw y, NoDup (map fst kw) -> update V c o kw = Ok y ->
  map fst y = map fst o
  /\ (forall k, aget k y = match aget k kw with Some v => Some v | None => aget k o end)
  /\ (forall k v, In (k, v) kw -> ahas k o = true /\ elem_ok V c k v = true).
Proof. exact update_spec. Qed.
Print Assumptions C03_update_spec.

(* the original is independent of the result (2623e10: list-valued fields are copied).  In a pure model this is by
   construction; the field stream grows every list of the RESULT in place and re-reads the ORIGINAL on every run, and
   checks `result is not original` also for update() without (effective) changes *)
Theorem C03_update_original_independent : forall o kw marker, orig_after_result_lists_grow o kw marker = o.
Proof. exact update_original_independent. Qed.
Print Assumptions C03_update_original_independent.

Theorem C03_update_without_changes_is_copy : forall V c o, update V c o [] = Ok o.
Proof. exact update_nil. Qed.
Print Assumptions C03_update_without_changes_is_copy.

(* ---------------------------------------------------------------- Tags, JSONData, Gateway *)
Theorem C03_tags_roundtrip : forall VT t, tags_wf VT t = true -> tags_from_json VT (Some (tags_to_json t)) = Ok (Some t).
Proof. exact tags_roundtrip. Qed.
Print Assumptions C03_tags_roundtrip.

Theorem C03_tags_canonical : forall VT t u, tags_wf VT t = true ->
  tags_from_json VT (Some (tags_to_json t)) = Ok (Some u) -> tags_to_json u = tags_to_json t.
Proof. exact tags_canonical. Qed.
Print Assumptions C03_tags_canonical.

Theorem C03_tags_constructed_are_valid : forall VT args t, tags_make VT args = Ok t -> forallb VT t = true.
Proof. exact tags_make_valid. Qed.
Print Assumptions C03_tags_constructed_are_valid.

(* the stored text is kept verbatim: re-reading it gives the identical text and the same value *)
Theorem C03_jsondata_roundtrip : forall mx exn i t, (2 <= mx)%N -> jd_input_wf i = true -> jd_make mx exn i = Ok t ->
  jd_make mx exn (JDText (jd_json t)) = Ok t /\ jd_data t = jd_value i /\ jd_data t <> None.
Proof. exact jd_roundtrip. Qed.
Print Assumptions C03_jsondata_roundtrip.

Theorem C03_jsondata_limits : forallb (fun x => (2 <=? snd (fst x))%N) jsondata_classes = true.
Proof. exact jsondata_limits_ok. Qed.
Print Assumptions C03_jsondata_limits.

Theorem C03_gateway_constructor_idempotent : forall V l g, gw_make V (Some l) = Ok (Some g) -> gw_make V (Some g) = Ok (Some g).
Proof. exact gw_make_idempotent. Qed.
Print Assumptions C03_gateway_constructor_idempotent.

Theorem C03_gateway_roundtrip : forall V g, wf_obj V cls_Labels g = true -> nothing_kept cls_Labels g = false ->
  gw_make V (Some g) = Ok (Some g) -> gw_from_json V (gw_to_json (Some g)) = Ok (Some (Some g)).
Proof. exact (fun V g => gw_roundtrip V g (classes_ok_labels V)). Qed.
Print Assumptions C03_gateway_roundtrip.

(* nothing recorded reads back as ABSENT (450b7bb), never as an empty Gateway object *)
Theorem C03_gateway_nothing_set_is_absent : forall V,
  gw_to_json None = None /\ gw_from_json V None = Ok None /\ gw_from_json V (Some []) = Ok None.
Proof. exact gw_none_roundtrip. Qed.
Print Assumptions C03_gateway_nothing_set_is_absent.

Theorem C03_gateway_absent_labels_absent_gateway : forall V t, from_json V cls_Labels t = Ok None -> gw_from_json V t = Ok None.
Proof. exact gw_absent_labels_absent_gateway. Qed.
Print Assumptions C03_gateway_absent_labels_absent_gateway.

Theorem C03_gateway_decoded_has_labels : forall V t g, gw_from_json V t = Ok (Some g) -> g <> None.
Proof. exact gw_decoded_has_labels. Qed.
Print Assumptions C03_gateway_decoded_has_labels.

(* ---------------------------------------------------------------- PathInfo / ERO *)
(* pinfo_wf: everything the constructor and set() build, set() called or not; nothing set => '' => absent *)
Theorem C03_pathinfo_roundtrip : forall ero p, pinfo_wf ero p = true ->
  exists s, pi_to_json p = Ok s /\ pi_from_json ero (Some s) = Ok (if pinfo_nothing p then None else Some p).
Proof. exact pi_roundtrip. Qed.
Print Assumptions C03_pathinfo_roundtrip.

Theorem C03_pathinfo_nothing_set_is_empty_text : forall p, pinfo_nothing p = true -> pi_to_json p = Ok [].
Proof. exact pi_unset_empty. Qed.
Print Assumptions C03_pathinfo_nothing_set_is_empty_text.

Theorem C03_pathinfo_canonical : forall ero p q s, pinfo_wf ero p = true -> pi_to_json p = Ok s ->
  pi_from_json ero (Some s) = Ok (Some q) -> pi_to_json q = Ok s.
Proof. exact pi_canonical. Qed.
Print Assumptions C03_pathinfo_canonical.

Theorem C03_pathinfo_forward_compat : forall ero d d',
  (forall k, In k [k_type; k_payload; k_strict] -> aget k d' = aget k d) ->
  pi_of_jv ero (JObj d') = pi_of_jv ero (JObj d).
Proof. exact pi_forward_compat. Qed.
Print Assumptions C03_pathinfo_forward_compat.

(* ---------------------------------------------------------------- MaintenanceInfo *)
(* "a finalized maintenance record cannot be altered": induction over all operation sequences *)
Theorem C03_maint_finalized_immutable : forall ops m, mi_lock m = true ->
  fst (mrun m ops) = m /\ Forall2 (fun o r => mutating o = true -> r = RErr e_maint) ops (snd (mrun m ops)).
Proof. exact maint_finalized_immutable. Qed.
Print Assumptions C03_maint_finalized_immutable.

(* copy(): unfinalized, same entries; nothing done to the copy reaches the original; a finalized original survives
   every mixed history over itself and its copies (pure model: by construction -- the aliasing teeth are in the tie:
   the maint stream re-observes the ORIGINAL's entries and encoding after every operation on the copy) *)
Theorem C03_maint_copy_spec : forall m, mi_nodes (mi_copy m) = mi_nodes m /\ mi_lock (mi_copy m) = false.
Proof. exact maint_copy_spec. Qed.
Print Assumptions C03_maint_copy_spec.

Theorem C03_maint_copy_independent : forall ops s, forallb (fun o => negb (on_original o)) ops = true ->
  fst (fst (mrun2 s ops)) = fst s.
Proof. exact maint_copy_independent. Qed.
Print Assumptions C03_maint_copy_independent.

Theorem C03_maint_finalized_immutable_with_copies : forall ops s, mi_lock (fst s) = true ->
  fst (fst (mrun2 s ops)) = fst s.
Proof. exact maint_finalized_immutable_with_copies. Qed.
Print Assumptions C03_maint_finalized_immutable_with_copies.

Theorem C03_maint_roundtrip : forall VISO m, minfo_wf VISO m = true -> mi_lock m = true ->
  exists s, mi_to_json m = Ok s /\ mi_from_json VISO (Some s) = Ok (Some m).
Proof. exact maint_roundtrip. Qed.
Print Assumptions C03_maint_roundtrip.

Theorem C03_maint_decoded_is_finalized : forall VISO t m, mi_from_json VISO t = Ok (Some m) -> mi_lock m = true.
Proof. exact maint_decoded_is_finalized. Qed.
Print Assumptions C03_maint_decoded_is_finalized.

Theorem C03_maint_forward_compat_extra_node : forall VISO d n v l e, mentries_of VISO d = Ok l ->
  mentry_of_jv VISO v = Ok e -> mentries_of VISO (d ++ [(n, v)]) = Ok (l ++ [(n, e)]).
Proof. exact maint_extra_node. Qed.
Print Assumptions C03_maint_forward_compat_extra_node.

Theorem C03_maint_forward_compat_entry_fields : forall VISO d d',
  (forall k, In k [k_state; k_deadline; k_end] -> aget k d' = aget k d) ->
  mentry_of_jv VISO (JObj d') = mentry_of_jv VISO (JObj d).
Proof. exact maint_entry_forward_compat. Qed.
Print Assumptions C03_maint_forward_compat_entry_fields.

(* ---------------------------------------------------------------- legacy typed tuples *)
Theorem C03_tuple_vocabulary_ok : tuple_vocab_ok = true.
Proof. exact tuple_vocab_ok_true. Qed.
Print Assumptions C03_tuple_vocabulary_ok.

Theorem C03_tuple_roundtrip_partial : forall cat t, tuple_vocab_ok = true -> ttuple_wf cat t = true ->
  tval_plain (tt_val t) = true -> tt_fromstring cat (tt_string t) = Ok t.
Proof. exact tt_roundtrip_partial. Qed.
Print Assumptions C03_tuple_roundtrip_partial.

(* FULL: the same for every value.  Refuted for int values (read back as str; text stays canonical) and for
   values with trailing whitespace (strip()). *)
Theorem C03_tuple_int_value_refuted : exists cat t u, ttuple_wf cat t = true /\ tt_fromstring cat (tt_string t) = Ok u
  /\ u <> t /\ tt_string u = tt_string t.
Proof. exact tt_int_value_refuted. Qed.
Print Assumptions C03_tuple_int_value_refuted.

Theorem C03_tuple_trailing_space_refuted : exists cat t u, ttuple_wf cat t = true /\ tt_fromstring cat (tt_string t) = Ok u /\ u <> t.
Proof. exact tt_trailing_space_refuted. Qed.
Print Assumptions C03_tuple_trailing_space_refuted.

(* ---------------------------------------------------------------- decode side: accepted language, closure, idempotence *)
(* EXACTLY the texts a JSONField class decodes to a value: not absent, a JSON object (any whitespace and key order; a
   repeated key counts with its last value; unknown keys ignored) whose known members all carry a value the class accepts;
   the value is the defaults overwritten in text order by the known members.  A decoder that accepted more, or less, or
   built the value differently would make this statement false. *)
Theorem C03_field_accepted_language : forall V c t y,
  from_json V c (Some t) = Ok (Some y) <->
  absent_text t = false /\ exists d, jparse t = Some (JObj d)
    /\ (forall k v, In (k, v) (filter (known_key c) d) -> elem_ok V c k v = true)
    /\ y = aset_all (filter (known_key c) d) (jc_fields c).
Proof. exact field_decode_iff. Qed.
Print Assumptions C03_field_accepted_language.

(* everything decodable (from a text without lone surrogates whose member values hold no dict) is semi_wf: every field is
   the default or a value the class accepts *)
Theorem C03_field_decode_closed : forall V c t j y, In c gen_classes -> jparse t = Some j -> jwfb j = true ->
  flat_obj j = true -> from_json V c (Some t) = Ok (Some y) -> semi_wf V c y = true.
Proof. exact (fun V c t j y H => field_decode_closed V c t j y (classes_ok V c H)). Qed.
Print Assumptions C03_field_decode_closed.

(* encode / decode of ANY accepted value (also Capacities with None/False fields) gives the normalised value ... *)
Theorem C03_field_reencode_any_accepted_value : forall V c o, In c gen_classes -> semi_wf V c o = true ->
  from_json V c (Some (to_json c o)) = Ok (if nothing_kept c o && jc_json_blank c then None else Some (norm_obj c o)).
Proof. exact (fun V c o H => field_reencode V c o (classes_ok V c H)). Qed.
Print Assumptions C03_field_reencode_any_accepted_value.

(* ... so encode . decode . encode = encode for ALL of them (canonical text), *)
Theorem C03_field_canonical_any_accepted_value : forall V c o y, In c gen_classes -> semi_wf V c o = true ->
  from_json V c (Some (to_json c o)) = Ok (Some y) -> to_json c y = to_json c o.
Proof. exact (fun V c o y H => field_canonical_all V c o y (classes_ok V c H) (norm_stable_ok c H)). Qed.
Print Assumptions C03_field_canonical_any_accepted_value.

(* ... and decode t = y implies decode (encode y) = normalised y, which is y itself wherever the drop rule is lossless *)
Theorem C03_field_decode_reencode : forall V c t j y, In c gen_classes -> jparse t = Some j -> jwfb j = true ->
  flat_obj j = true -> from_json V c (Some t) = Ok (Some y) ->
  from_json V c (Some (to_json c y)) = Ok (if nothing_kept c y && jc_json_blank c then None else Some (norm_obj c y)).
Proof. exact (fun V c t j y H => field_decode_reencode V c t j y (classes_ok V c H)). Qed.
Print Assumptions C03_field_decode_reencode.

Theorem C03_field_decode_reencode_lossless : forall V c t j y, In c gen_classes -> jc_name c <> n_capacities ->
  jparse t = Some j -> jwfb j = true -> flat_obj j = true -> from_json V c (Some t) = Ok (Some y) ->
  from_json V c (Some (to_json c y)) = Ok (if nothing_kept c y && jc_json_blank c then None else Some y).
Proof. exact (fun V c t j y H N => field_decode_reencode_lossless V c t j y (classes_ok V c H) (drop_rule_lossless c H N)). Qed.
Print Assumptions C03_field_decode_reencode_lossless.

Theorem C03_tags_decode_closed : forall VT t j l, jparse t = Some j -> jwfb j = true ->
  tags_from_json VT (Some t) = Ok (Some l) ->
  tags_wf VT l = true /\ tags_from_json VT (Some (tags_to_json l)) = Ok (Some l).
Proof. exact tags_decode_closed. Qed.
Print Assumptions C03_tags_decode_closed.

Theorem C03_jsondata_text_kept_verbatim : forall mx exn s t, jd_make mx exn (JDText s) = Ok t -> t = s /\ jparse s <> None.
Proof. exact jd_text_kept_verbatim. Qed.
Print Assumptions C03_jsondata_text_kept_verbatim.

(* PathInfo / ERO: whatever decodes (also an unknown type string, a Graph payload of any JSON kind) re-encodes to a text
   that decodes to the same value -- or to absent when the decoded value has nothing set ("payload": null) *)
Theorem C03_pathinfo_decode_reencode : forall ero j p, jwfb j = true -> pi_of_jv ero j = Ok (Some p) ->
  exists s, pi_to_json p = Ok s /\ pi_from_json ero (Some s) = Ok (if pinfo_nothing p then None else Some p).
Proof. exact pi_decode_reencode. Qed.
Print Assumptions C03_pathinfo_decode_reencode.

Theorem C03_maint_decode_closed : forall VISO j m, jwfb j = true -> mi_of_jv VISO j = Ok (Some m) ->
  minfo_wf VISO m = true /\ mi_lock m = true /\
  exists s, mi_to_json m = Ok s /\ mi_from_json VISO (Some s) = Ok (Some m).
Proof. exact maint_decode_closed. Qed.
Print Assumptions C03_maint_decode_closed.

Theorem C03_tuple_decode_closed : forall cat s t, tt_fromstring cat s = Ok t ->
  ttuple_wf cat t = true /\ tval_plain (tt_val t) = true.
Proof. exact tt_decode_closed. Qed.
Print Assumptions C03_tuple_decode_closed.

Theorem C03_tuple_decode_reencode : forall cat s t, tuple_vocab_ok = true -> tt_fromstring cat s = Ok t ->
  tt_fromstring cat (tt_string t) = Ok t.
Proof. exact tt_decode_reencode. Qed.
Print Assumptions C03_tuple_decode_reencode.

(* ---------------------------------------------------------------- non-vacuity *)
Example C03_nonvacuous_decode_side :
  let t := S"{""zz"": [1], ""ram"": 1, ""core"": null,  ""ram"": 2}" in
  let y := aset (S"ram") (JInt 2) (aset (S"core") JNull (jc_fields cls_Capacities)) in
  from_json VA cls_Capacities (Some t) = Ok (Some y) /\ semi_wf VA cls_Capacities y = true /\
  wf_obj VA cls_Capacities y = false /\ norm_obj cls_Capacities y = aset (S"ram") (JInt 2) (jc_fields cls_Capacities) /\
  to_json cls_Capacities y = S"{""ram"": 2}" /\
  from_json VA cls_Capacities (Some (to_json cls_Capacities y)) = Ok (Some (norm_obj cls_Capacities y)).
Proof. vm_compute. repeat split. Qed.


Example C03_nonvacuous_json :
  let v := JObj [(S"b", JArr [JInt (-5); JFloat (S"0.0"); JNull; JObj [(S"z", JBool true); (S"a", JStr [233; 128512; 34; 10])]]);
                 (S"a", JFloat (S"1e+22"))] in
  jwfb v = true /\ jparse (jdumps true v) = Some (jsort v) /\ jsort v <> v.
Proof. vm_compute. repeat split; discriminate. Qed.

Example C03_nonvacuous_location :     (* lat = 0.0 is kept and read back *)
  let o := [(S"postal", JNull); (S"lat", JFloat (S"0.0")); (S"lon", JFloat (S"-78.6382"))] in
  In cls_Location gen_classes /\ wf_obj VA cls_Location o = true /\ nothing_kept cls_Location o = false /\
  to_json cls_Location o = S"{""lat"": 0.0, ""lon"": -78.6382}" /\
  from_json VA cls_Location (Some (to_json cls_Location o)) = Ok (Some o).
Proof. vm_compute. repeat split; auto 10. Qed.

Example C03_nonvacuous_labels_and_flags :
  let l := aset (S"vlan") (JArr [JStr (S"100"); JStr (S"200")]) (aset (S"local_name") (JStr []) (jc_fields cls_Labels)) in
  let f := jc_fields cls_Flags in
  wf_obj VA cls_Labels l = true /\ to_json cls_Labels l = S"{""local_name"": """", ""vlan"": [""100"", ""200""]}" /\
  wf_obj VA cls_Flags f = true /\ nothing_kept cls_Flags f = false /\
  wf_obj VA cls_Capacities (jc_fields cls_Capacities) = true /\ to_json cls_Capacities (jc_fields cls_Capacities) = [] /\
  from_json VA cls_Capacities (Some []) = Ok None.
Proof. vm_compute. repeat split. Qed.

Example C03_former_counterexamples_now_hold :
  from_json VA cls_Capacities (Some (S"{""core"": 2, ""gpu_model"": ""A100"", ""to_json"": [1]}"))
  = from_json VA cls_Capacities (Some (S"{""core"": 2}")) /\
  pinfo_wf false {| pi_type := Some PTPath; pi_payload := PLRaw JNull; pi_strict := None |} = true /\
  pi_to_json {| pi_type := Some PTPath; pi_payload := PLRaw JNull; pi_strict := Some false |} = Ok [] /\
  mentry_of_jv VISOA (JObj [(k_state, JStr (S"Maint")); (k_deadline, JNull); (k_end, JNull); (S"reason", JStr (S"x"))])
  = Ok {| me_state := Some MMaint; me_deadline := None; me_end := None |}.
Proof. vm_compute. repeat split. Qed.

Example C03_nonvacuous_others :
  tags_wf VTA [S"a"; S"tag-1"] = true /\
  pinfo_wf true {| pi_type := Some PTPath; pi_payload := PLPath (JArr [JStr (S"n1"); JStr (S"n2")]) JNull; pi_strict := Some true |} = true /\
  pinfo_wf false {| pi_type := Some PTGraph; pi_payload := PLRaw (JStr (S"g1")); pi_strict := None |} = true /\
  (let m := {| mi_nodes := [(S"n1", {| me_state := Some MMaint; me_deadline := Some (S"2024-01-02T03:04:05+00:00"); me_end := None |})];
               mi_lock := true |} in
   minfo_wf VISOA m = true /\ snd (mrun m [MAdd (S"x") {| me_state := None; me_deadline := None; me_end := None |}; MGet (S"n1")])
                              = [RErr e_maint; REntry {| me_state := Some MMaint; me_deadline := Some (S"2024-01-02T03:04:05+00:00"); me_end := None |}]) /\
  (let t := {| tt_type := S"mac"; tt_val := TVStr (S"00:11:22:33:44:55") |} in
   ttuple_wf (S"label") t = true /\ tval_plain (tt_val t) = true /\ tt_string t = S"mac:00:11:22:33:44:55").
Proof. vm_compute. repeat split. Qed.

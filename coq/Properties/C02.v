(* C02 - sliver <-> graph / dictionary / JSON conversion preserves every settable field.
   Statements only; each is closed by `exact` of a lemma of Proofs/Sliver2*.v.

   The model (Model/Sliver2Map.v, Sliver2Deep.v, Sliver2Graph.v) INTERPRETS the tables that
   translator/gen_propmap.py regenerates from fim/graph/abc_property_graph.py and the setters/getters of
   fim/slivers/*.py (Gen/PropMap.v) on every run:
     to_props / from_props   <kind>_sliver_to_graph_properties_dict / <kind>_sliver_from_graph_properties_dict
     to_dict / from_dict     sliver_to_dict / build_deep_*_sliver_from_dict
     sliver_to_json / sliver_from_json   JSONSliver (JSON values; the text level is not modelled)
     graph_roundtrip         add_*_sliver into an empty in-memory graph, then build_deep_*_sliver
     set_property / get_property         <Element>.set_property / get_property / unset_property
   k ranges over the five sliver classes; attrs is the sliver's __dict__ (data attributes); field values
   are tokens (Model/Sliver2Kinds.v fval).

   What is NOT true of the code and therefore not claimed (witness replayed on every run): at the
   SLIVER level image_ref and image_type are one graph property, written only when both are set, so a
   NodeSliver carrying only one of them loses it in every converter (C02_lone_image_half_lost_refuted);
   attrs_wf excludes exactly that combination.  At the ELEMENT level this is repaired (c7cf34d): a lone
   half is completed from the stored pair or refused loudly (C02_lone_image_half), C02_set_get is full strength.
   Documented, not a deviation: a value object with nothing set is encoded as empty text and read back as
   absent (C03's statement; C02_empty_value_reads_absent) - attrs_wf asks for non-empty objects. *)
From Coq Require Import List String NArith Bool.
From FIM Require Import Base.Str Model.Sliver2Kinds Gen.PropMap Model.Sliver2Map Model.Sliver2WF
  Model.Sliver2Deep Model.Sliver2DeepWF Model.Sliver2Graph Model.Sliver2GraphWF Proofs.Sliver2Multi
  Proofs.Sliver2DeepRT Proofs.Sliver2Tables Model.Sliver2Store Proofs.Sliver2History.
Import ListNotations.

(* the translator recognised every statement of the conversion functions (fail-closed flag) *)
Theorem C02_translated : gen_ok = true.
Proof. exact gen_ok_true. Qed.
Print Assumptions C02_translated.

(* TABLE SYMMETRY.  For every sliver class and every data attribute of the class: the attribute is
   written by exactly one statement, read back by exactly one keyword whose setter assigns that
   attribute, through the same graph property, with an encoder/decoder/setter triple that is inverse
   (inv_ok); no graph property collides with a child key or NodeID; an absent property reads as None
   (no from_json wraps it).  A finite check over the regenerated tables - the domain is the table. *)
Theorem C02_tables_symmetric :
  forallb (fun k => tables_symmetric k && dict_tables_ok k && absent_ok k && absent_none k)
          [KNode; KComponent; KService; KInterface; KLink] = true.
Proof. exact all_tables_ok_true. Qed.
Print Assumptions C02_tables_symmetric.

(* add_interface_sliver descends into the interface's child interfaces (regenerated flag) *)
Theorem C02_interface_writer_descends : add_interface_descends = true.
Proof. exact add_interface_descends_true. Qed.
Print Assumptions C02_interface_writer_descends.

(* FLAT ROUND TRIP, all well-formed slivers of all five classes (lifted from the table check by a
   generic lemma): the sliver rebuilt from its graph properties has the same value for every attribute. *)
Theorem C02_props_roundtrip : forall k a,
  attrs_wf k a = true -> bind (to_props k a) (from_props k) = Ok a.
Proof. exact props_roundtrip. Qed.
Print Assumptions C02_props_roundtrip.

(* (R) is false at the sliver level for ONE combination of settable properties: a NodeSliver that
   carries image_ref without image_type (or the reverse) comes back without it on every route - the two
   are one graph property, written only when both are set.  attrs_wf excludes exactly this (the
   pair set together or not at all).  Witness replayed on the implementation on every run. *)
Theorem C02_lone_image_half_lost_refuted :
  bind (to_props KNode w_lone_image) (from_props KNode) = Ok (aset "image_ref" None w_lone_image) /\
  aset "image_ref" None w_lone_image <> w_lone_image /\ attrs_wf KNode w_lone_image = false.
Proof. exact lone_image_half_lost. Qed.
Print Assumptions C02_lone_image_half_lost_refuted.

(* documented (C03): a value object with nothing set is encoded as '' and reads back as absent *)
Theorem C02_empty_value_reads_absent :
  bind (to_props KNode w_empty_caps) (from_props KNode) = Ok (aset "capacities" None w_empty_caps).
Proof. exact empty_value_reads_absent. Qed.
Print Assumptions C02_empty_value_reads_absent.

(* DEEP DICTIONARY ROUND TRIP, any nesting (induction on the sliver tree): same structure, same value
   of every attribute; node ids are not part of the dictionary form (forget_ids). *)
Theorem C02_dict_roundtrip : forall t,
  tree_wf t = true -> bind (to_dict t) (from_dict (t_kind t)) = Ok (forget_ids t).
Proof. exact dict_roundtrip. Qed.
Print Assumptions C02_dict_roundtrip.

(* JSON ROUND TRIP (JSONSliver), any nesting, over JSON values *)
Theorem C02_json_roundtrip : forall t,
  tree_wf t = true -> bind (sliver_to_json t) (sliver_from_json (t_kind t)) = Ok (forget_ids t).
Proof. exact json_roundtrip. Qed.
Print Assumptions C02_json_roundtrip.

Theorem C02_json_values_roundtrip : forall d, jv_to_dd (dd_to_jv d) = Some d.
Proof. exact json_value_roundtrip. Qed.
Print Assumptions C02_json_values_roundtrip.

(* GRAPH ROUND TRIP, any nesting: node > components > services > interfaces > sub-interfaces,
   node > services, stand-alone service / interface / link, any number of children at every level.
   Written into an empty graph of the in-memory backend model with add_*_sliver and rebuilt with
   build_deep_*_sliver, the tree comes back IDENTICAL: structure, every attribute, node ids.
   graph_wf: tree_wf, every sliver has its own node id, only DedicatedPort interfaces have child
   interfaces and those are leaves that are not DedicatedPorts (what the readers descend into),
   the root is not a component (components are only written under a node). *)
Theorem C02_graph_roundtrip : forall t, graph_wf t = true -> graph_roundtrip t = Ok t.
Proof. exact graph_roundtrip_thm. Qed.
Print Assumptions C02_graph_roundtrip.

(* THE SAME INTO ANY GRAPH (what add_*_sliver is used for in practice): the graph is well-formed
   (distinct node ids, edges between its nodes), the tree's node ids are fresh in it, and the tree is
   written stand-alone or under an existing node of a class that owns such slivers (parent_ok: a
   component under a node; a service under a node or component; an interface under a service, or - a leaf
   that is not a DedicatedPort - under an interface).  Then the writer succeeds, the tree is rebuilt
   identical, and the rest of the graph is untouched (frame): the graph stays well-formed, its node ids are
   the old ones followed by the tree's, every old node keeps its record, and every old node except the
   parent keeps its neighbours for every relation and class. *)
Theorem C02_graph_under : forall g parent t,
  good_graph g = true -> graph_wf_sub t = true -> fresh_in g t = true -> parent_ok g parent t = true ->
  exists g', add_under g parent t = Ok g' /\
    build_deep g' (t_kind t) (id_of t) = Ok t /\
    good_graph g' = true /\
    gids g' = gids g ++ map id_of (subtrees t) /\
    (forall x, In x (gids g) -> find_node g' x = find_node g x) /\
    (forall x rel L, In x (gids g) -> parent <> Some x ->
                     get_first_neighbor g' x rel L = get_first_neighbor g x rel L).
Proof. exact graph_under. Qed.
Print Assumptions C02_graph_under.

(* FRAME AFTER ANY HISTORY.  run_history: any sequence of slivers written (stand-alone or under a
   parent) and nodes removed (delete_node: the node and its incident edges), starting from the empty
   graph; refused operations leave the graph as it was.  Every graph so reached is well-formed
   (C02_history_good), hence a sliver with fresh ids written next comes back identical and every node that
   was in the graph keeps its properties and - except the parent, which gains the new root - its links. *)
Theorem C02_history_good : forall h g, good_graph g = true -> good_graph (run_history g h) = true.
Proof. exact history_good. Qed.
Print Assumptions C02_history_good.

Theorem C02_graph_history_frame : forall h parent t,
  let g := run_history empty_graph h in
  graph_wf_sub t = true -> fresh_in g t = true -> parent_ok g parent t = true ->
  exists g', add_under g parent t = Ok g' /\
    build_deep g' (t_kind t) (id_of t) = Ok t /\
    (forall x, In x (gids g) -> find_node g' x = find_node g x) /\
    (forall x rel L, In x (gids g) -> parent <> Some x ->
                     get_first_neighbor g' x rel L = get_first_neighbor g x rel L).
Proof. exact history_frame. Qed.
Print Assumptions C02_graph_history_frame.

(* EITHER STORE.  Under the graph view both in-memory stores keep NetworkX nodes under internal integer
   ids handed out by a counter (one global start_id, or one per graph) that removal never moves back
   (sgraph, s_add_node alloc_counter, s_delete_node).  With the store invariant (internal ids distinct
   and below the counter, NodeIDs distinct, edges between nodes) the id handed to a new node is never in
   use - also after removals - and add_node on the store is add_node on the graph view. *)
Theorem C02_store_counter_fresh : forall s, store_ok s = true -> ~ In (alloc_counter s) (s_ids s).
Proof. exact counter_fresh. Qed.
Print Assumptions C02_store_counter_fresh.

Theorem C02_store_removal_keeps_fresh : forall s id s',
  store_ok s = true -> s_delete_node s id = Ok s' ->
  (forall k, In k (s_ids s') -> (k < s_ctr s')%N) /\ ~ In (alloc_counter s') (s_ids s').
Proof. exact store_delete_keeps_fresh. Qed.
Print Assumptions C02_store_removal_keeps_fresh.

Theorem C02_store_add_node_refines : forall s id label p s',
  store_ok s = true -> s_add_node alloc_counter s id label p = Ok s' ->
  add_node (view s) id label p = Ok (view s').
Proof. exact store_add_node_refines. Qed.
Print Assumptions C02_store_add_node_refines.

(* an allocator that derives the id from the number of nodes (seeded change C02-9) is refuted: after
   A, B, C are added and A removed, it hands out C's internal id; the node written next takes C over *)
Theorem C02_size_allocator_refuted :
  store_ok s_after_removal = true /\
  In (alloc_size s_after_removal) (s_ids s_after_removal) /\
  exists s', s_add_node alloc_size s_after_removal (sn "D") "NetworkNode" [] = Ok s' /\
             find_node (view s') (sn "C") = None /\
             find_node (view s_after_removal) (sn "C") <> None /\
             add_node (view s_after_removal) (sn "D") "NetworkNode" [] <> Ok (view s').
Proof. exact size_allocator_refuted. Qed.
Print Assumptions C02_size_allocator_refuted.

(* GET AFTER SET, every element class, EVERY settable property (l' = the keyword after
   Node._complete_image_pair: the keyword itself, or - for a lone image_ref / image_type - the pair
   completed with the stored other half; a node without the other half refuses loudly,
   C02_lone_image_half): reading back returns what the setter stores. *)
Theorem C02_set_get : forall k p v d x l',
  settable k p = Some x ->
  completed_kvs node_completes_image_pair k [(p, Some v)] d = Ok l' ->
  kws_ok k l' = true -> values_ok k l' = true -> readable k d = true ->
  exists d', set_property k p (Some v) d = Ok d' /\ get_property k p d' = Ok (stored k p v).
Proof. exact set_get. Qed.
Print Assumptions C02_set_get.

(* the simple form for every keyword but the two halves of the pair *)
Theorem C02_set_get_plain : forall k p v d x,
  settable k p = Some x -> mem p ["image_ref"; "image_type"]%string = false ->
  value_ok k p v = true -> readable k d = true ->
  exists d', set_property k p (Some v) d = Ok d' /\ get_property k p d' = Ok (stored k p v).
Proof. exact set_get_plain. Qed.
Print Assumptions C02_set_get_plain.

Theorem C02_set_get_same : forall k p v d x,
  settable k p = Some x -> mem p ["image_ref"; "image_type"]%string = false -> stores_argument k p = true ->
  value_ok k p v = true -> readable k d = true ->
  exists d', set_property k p (Some v) d = Ok d' /\ get_property k p d' = Ok (Some v).
Proof. exact set_get_same. Qed.
Print Assumptions C02_set_get_same.

(* FRAME: setting p leaves every other settable property as it was (except the stitch_node flag,
   which every write resets: always_written) *)
Theorem C02_set_frame : forall k p v d x q y,
  settable k p = Some x -> mem p ["image_ref"; "image_type"]%string = false ->
  value_ok k p v = true -> readable k d = true ->
  settable k q = Some y -> y <> x -> aget y (blank k) = None -> always_written k y = false ->
  exists d', set_property k p (Some v) d = Ok d' /\ get_property k q d' = get_property k q d.
Proof. exact set_frame. Qed.
Print Assumptions C02_set_frame.

(* SET_PROPERTIES with any number of keywords (l' = the keyword list after Node._complete_image_pair,
   which is l itself on the current tree: C02_no_pair_completion): every keyword reads back as stored,
   every other property as before, and the node stays readable *)
Theorem C02_set_properties_get : forall k l l' d,
  completed_kvs node_completes_image_pair k l d = Ok l' ->
  kws_ok k l' = true -> values_ok k l' = true -> readable k d = true ->
  exists d', set_properties k l d = Ok d' /\ readable k d' = true /\
    (forall p v x, In (p, Some v) l' -> settable k p = Some x -> get_property k p d' = Ok (stored k p v)) /\
    (forall q y, settable k q = Some y -> ~ In y (kw_targets k l') -> aget y (blank k) = None ->
                 always_written k y = false -> get_property k q d' = get_property k q d).
Proof. exact set_properties_get. Qed.
Print Assumptions C02_set_properties_get.

Theorem C02_pair_completion : node_completes_image_pair = true.
Proof. exact node_completes_true. Qed.
Print Assumptions C02_pair_completion.

(* the order of the keywords is irrelevant: the same node properties result (for keyword lists that
   need no completion - on the current tree every list: C02_no_pair_completion) *)
Theorem C02_set_properties_order : forall k l l2 d d1,
  completed_kvs node_completes_image_pair k l d = Ok l ->
  completed_kvs node_completes_image_pair k l2 d = Ok l2 ->
  kws_ok k l = true -> Permutation.Permutation l l2 ->
  set_properties k l d = Ok d1 -> set_properties k l2 d = Ok d1.
Proof. exact set_properties_order. Qed.
Print Assumptions C02_set_properties_order.

(* one set_properties call is, for every settable property q read afterwards, the same as setting the
   keywords one after the other with set_property (plain keywords: kw_plain excludes the stitch_node flag,
   for which the two differ - C02_stitch_node_fold_refuted) *)
Theorem C02_set_properties_is_fold : forall k (l : list (string * fval)) d,
  forallb (kw_plain k) l = true -> kws_ok k (opt_kvs l) = true -> values_ok k (opt_kvs l) = true ->
  readable k d = true ->
  exists df dm, set_each_actual k l d = Ok df /\ set_properties k (opt_kvs l) d = Ok dm /\
    forall q y, settable k q = Some y -> aget y (blank k) = None -> always_written k y = false ->
                get_property k q df = get_property k q dm.
Proof. exact set_properties_is_fold. Qed.
Print Assumptions C02_set_properties_is_fold.

Theorem C02_stitch_node_fold_refuted :
  exists df dm,
    set_each_actual KNode [("stitch_node", FBool true); ("site", FStr (S"UKY"))]%string w_node_props = Ok df /\
    set_properties KNode [("stitch_node", Some (FBool true)); ("site", Some (FStr (S"UKY")))]%string w_node_props = Ok dm /\
    get_property KNode "stitch_node" df = Ok (Some (FBool false)) /\
    get_property KNode "stitch_node" dm = Ok (Some (FBool true)).
Proof. exact stitch_fold_refuted. Qed.
Print Assumptions C02_stitch_node_fold_refuted.

(* a lone half on a node without an image is refused loudly (documented precondition); with an image
   it replaces its half and keeps the other *)
Theorem C02_lone_image_half :
  set_property KNode "image_ref" (Some (FStr (S"img"))) w_node_props = Err ExOther /\
  exists l' d', completed_kvs node_completes_image_pair KNode [("image_ref", Some (FStr (S"img2")))]%string w_node_img_props = Ok l' /\
    kws_ok KNode l' = true /\ values_ok KNode l' = true /\ readable KNode w_node_img_props = true /\
    set_property KNode "image_ref" (Some (FStr (S"img2"))) w_node_img_props = Ok d' /\
    get_property KNode "image_type" d' = Ok (Some (FStr (S"qcow2"))).
Proof. exact image_ref_alone. Qed.
Print Assumptions C02_lone_image_half.

(* GET AFTER UNSET, every element class, every property SLIVER_PROPERTY_TO_GRAPH maps to a graph
   property that may be removed: reads the absent value unset_reads, which is None (for a boolean flag
   with an unset mapping - none on the current tree - its default False). *)
Theorem C02_unset_get_value : forall k p d x g,
  settable k p = Some x -> alookup p sliver_property_to_graph = Some g ->
  mem g no_unset_properties = false -> readable k d = true ->
  exists d', set_property k p None d = Ok d' /\ get_property k p d' = Ok (unset_reads k x).
Proof. exact unset_get. Qed.
Print Assumptions C02_unset_get_value.

Theorem C02_unset_get : forall k p d x g,
  settable k p = Some x -> alookup p sliver_property_to_graph = Some g ->
  mem g no_unset_properties = false -> readable k d = true -> String.eqb p "stitch_node" = false ->
  exists d', set_property k p None d = Ok d' /\ get_property k p d' = Ok None.
Proof. exact unset_get_absent. Qed.
Print Assumptions C02_unset_get.

(* which settable properties have no unset mapping (their unset is a silent no-op): none any more -
   a forgotten mapping (as `location` was before fix 85687de) changes this list *)
Theorem C02_unmapped_setters :
  map unmapped_setters [KNode; KComponent; KService; KInterface; KLink] =
  [[]; []; []; []; []].
Proof. exact unmapped_exact. Qed.
Print Assumptions C02_unmapped_setters.

Theorem C02_unset_unmapped_is_noop : forall k p d,
  alookup p sliver_property_to_graph = None -> set_property k p None d = Ok d.
Proof. exact unset_unmapped_noop. Qed.
Print Assumptions C02_unset_unmapped_is_noop.

(* documented precondition: Name and Type (NO_UNSET_PROPERTIES) cannot be unset, the backend refuses *)
Theorem C02_unset_refused : forall k p d g,
  alookup p sliver_property_to_graph = Some g -> mem g no_unset_properties = true ->
  set_property k p None d = Err ExQuery.
Proof. exact unset_refused. Qed.
Print Assumptions C02_unset_refused.

(* ---------- non-vacuity ---------- *)
(* a 5-level tree (node > component > service > DedicatedPort > sub-interface) satisfies graph_wf and
   tree_wf and round-trips through the graph and through the dictionary *)
Example C02_graph_nonvacuous :
  graph_wf w_tree = true /\ graph_roundtrip w_tree = Ok w_tree /\ List.length (subtrees w_tree) = 5%nat.
Proof. exact graph_example. Qed.

(* a component with a service and a port is added under the node of the graph that holds w_tree: the
   hypotheses of C02_graph_under hold, the new component is rebuilt, the node now has two components,
   the old one is rebuilt as before *)
Example C02_graph_under_nonvacuous :
  good_graph w_graph1 = true /\ graph_wf_sub w_comp2 = true /\ fresh_in w_graph1 w_comp2 = true /\
  parent_ok w_graph1 (Some (S"n1")) w_comp2 = true /\ List.length (g_nodes w_graph1) = 5%nat /\
  exists g2, add_under w_graph1 (Some (S"n1")) w_comp2 = Ok g2 /\
    build_deep g2 KComponent (S"c9") = Ok w_comp2 /\
    get_first_neighbor g2 (S"n1") rel_has (class_label KComponent) = Ok [S"c1"; S"c9"] /\
    build_deep g2 KComponent (S"c1") = Ok w_comp.
Proof. exact graph_under_example. Qed.

(* a history with a removal of a node that is not the newest, then a write under the node: the
   hypotheses of C02_graph_history_frame hold; and the counter allocator keeps node C in the scenario
   that refutes the size allocator *)
Example C02_history_nonvacuous :
  let g := run_history empty_graph w_history in
  List.length (g_nodes g) = 4%nat /\ graph_wf_sub w_comp2 = true /\ fresh_in g w_comp2 = true /\
  parent_ok g (Some (S"n1")) w_comp2 = true.
Proof. exact history_example. Qed.

Example C02_counter_allocator_keeps_nodes :
  store_ok s_after_removal_ctr = true /\
  exists s', s_add_node alloc_counter s_after_removal_ctr (sn "D") "NetworkNode" [] = Ok s' /\
             find_node (view s') (sn "C") = find_node (view s_after_removal_ctr) (sn "C") /\
             find_node (view s') (sn "C") <> None.
Proof. exact counter_allocator_example. Qed.

Example C02_deep_nonvacuous :
  tree_wf w_tree = true /\ bind (to_dict w_tree) (from_dict KNode) = Ok (forget_ids w_tree)
  /\ forget_ids w_tree <> T KNode None [] None None None.
Proof. exact deep_example. Qed.

(* a freshly built named service (gateway None) comes back equal *)
Example C02_fresh_service :
  attrs_wf KService w_service = true /\ bind (to_props KService w_service) (from_props KService) = Ok w_service.
Proof. exact fresh_service_roundtrip. Qed.

(* real values satisfy the hypotheses of the element theorems *)
Example C02_element_nonvacuous :
  settable KNode "site" = Some "site"%string /\
  value_ok KNode "site" (FStr (S"UKY")) = true /\ readable KNode w_node_props = true /\
  stores_argument KNode "site" = true /\
  value_ok KNode "management_ip" (FStr (S"10.0.0.1")) = true /\
  stored KNode "management_ip" (FStr (S"10.0.0.1")) = Some (FIp (S"10.0.0.1")) /\
  alookup "site"%string sliver_property_to_graph = Some "Site"%string /\
  mem "Site" no_unset_properties = false.
Proof. vm_compute. repeat split; reflexivity. Qed.

(* the pair set together is read back, also with a comma in the reference (fix 8fdfa94); unsetting the
   gateway of a service reads None (fix 450b7bb) - instances, by computation *)
Example C02_image_pair_set_together :
  exists d', set_properties KNode [("image_ref", Some (FStr (S"a,b"))); ("image_type", Some (FStr (S"qcow2")))]%string
                            w_node_props = Ok d' /\
             get_property KNode "image_ref" d' = Ok (Some (FStr (S"a,b"))) /\
             get_property KNode "image_type" d' = Ok (Some (FStr (S"qcow2"))).
Proof. exact image_comma_example. Qed.

(* the model of proposed fix C02-4 (completion flag true): a lone half is completed with the stored
   other half, and refused loudly when there is none *)
Example C02_pair_completion_model :
  (exists d', set_property_with true KNode "image_ref" (Some (FStr (S"img2"))) w_node_img_props = Ok d' /\
              get_property KNode "image_ref" d' = Ok (Some (FStr (S"img2"))) /\
              get_property KNode "image_type" d' = Ok (Some (FStr (S"qcow2")))) /\
  set_property_with true KNode "image_ref" (Some (FStr (S"img2"))) w_node_props = Err ExOther.
Proof. exact completion_example. Qed.

(* real keyword lists satisfy the hypotheses of the set_properties theorems *)
Example C02_set_properties_nonvacuous :
  let l := [("site", Some (FStr (S"UKY"))); ("image_ref", Some (FStr (S"a,b"))); ("image_type", Some (FStr (S"qcow2")))]%string in
  completed_kvs node_completes_image_pair KNode l w_node_props = Ok l /\ kws_ok KNode l = true /\
  values_ok KNode l = true /\
  forallb (kw_plain KNode) [("site", FStr (S"UKY")); ("details", FStr (S"x"))]%string = true.
Proof. vm_compute. repeat split; reflexivity. Qed.

Example C02_unset_gateway :
  readable KService w_service_props = true /\
  exists d', set_property KService "gateway" None w_service_props = Ok d' /\
             get_property KService "gateway" d' = Ok None.
Proof. exact unset_gateway_example. Qed.

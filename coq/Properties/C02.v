(* C02 - sliver <-> graph / dictionary / JSON conversion preserves every settable field. *)
From Coq Require Import List String NArith Bool.
From FIM Require Import Base.Str Model.Sliver2Kinds Gen.PropMap Model.Sliver2Map Proofs.Sliver2Tables.
Import ListNotations.

Theorem C02_translated : gen_ok = true.
Proof. exact gen_ok_true. Qed.
Print Assumptions C02_translated.

(* C02 - sliver <-> graph / dictionary / JSON conversion preserves every settable field.
   Statements only; each is closed by `exact` of a lemma of Proofs/Sliver2*.v.

   The model (Model/Sliver2Map.v, Sliver2Deep.v, Sliver2Graph.v) INTERPRETS the tables that
   translator/gen_propmap.py regenerates from fim/graph/abc_property_graph.py and the setters/getters of
   fim/slivers/*.py (Gen/PropMap.v) on every run:
     to_props / from_props   <kind>_sliver_to_graph_properties_dict / <kind>_sliver_from_graph_properties_dict
     to_dict / from_dict     sliver_to_dict / build_deep_*_sliver_from_dict
     sliver_to_json / sliver_from_json   JSONSliver (JSON values; the text level is not modelled)
     set_property / get_property         <Element>.set_property / get_property / unset_property
   k ranges over the five sliver classes; attrs is the sliver's __dict__ (data attributes);
   field values are tokens (Model/Sliver2Kinds.v fval).

   FULL STATEMENT (what the property asks):
     (R)  forall k a, attrs_wf k a = true -> bind (to_props k a) (from_props k) = Ok a
          and the same for trees through the dictionary, JSON and graph routes;
     (S)  get (set p v) = v and get (unset p) = None for every settable property p.
   (R) and (S) are FALSE of the faithful model in the ways named by the `_refuted` theorems below (each
   witness is replayed on the implementation on every run, harness/c02.py refuted_witnesses); what
   holds instead is stated exactly (normalize, forget_ids, stored, unset_reads) and the `_exact`/`_absent`
   versions give the property as asked under a hypothesis that excludes just the defect's signature. *)
From Coq Require Import List String NArith Bool.
From FIM Require Import Base.Str Model.Sliver2Kinds Gen.PropMap Model.Sliver2Map Model.Sliver2WF
  Model.Sliver2Deep Model.Sliver2DeepWF Model.Sliver2Graph Proofs.Sliver2DeepRT Proofs.Sliver2GraphRT
  Proofs.Sliver2Tables.
Import ListNotations.

(* the translator recognised every statement of the conversion functions (fail-closed flag) *)
Theorem C02_translated : gen_ok = true.
Proof. exact gen_ok_true. Qed.
Print Assumptions C02_translated.

(* TABLE SYMMETRY.  For every sliver class and every data attribute of the class: the attribute is
   written by exactly one statement, read back by exactly one keyword whose setter assigns that
   attribute, through the same graph property, with an encoder/decoder/setter triple that is inverse
   (inv_ok); no graph property collides with a child key or NodeID; absent properties read as
   documented.  A finite check over the regenerated tables - the domain is the table. *)
Theorem C02_tables_symmetric :
  forallb (fun k => tables_symmetric k && dict_tables_ok k && absent_ok k)
          [KNode; KComponent; KService; KInterface; KLink] = true.
Proof. exact all_tables_ok_true. Qed.
Print Assumptions C02_tables_symmetric.

(* FLAT ROUND TRIP, all well-formed slivers of all five classes (lifted from the table check by a
   generic lemma): rebuilding a sliver from its graph properties returns the same value for every
   attribute, except that an attribute that is None comes back as what an absent property reads as
   (normalize: identity but for the gateway of a service, see C02_props_roundtrip_refuted). *)
Theorem C02_props_roundtrip : forall k a,
  attrs_wf k a = true -> bind (to_props k a) (from_props k) = Ok (normalize k a).
Proof. exact props_roundtrip. Qed.
Print Assumptions C02_props_roundtrip.

Theorem C02_props_roundtrip_exact_partial : forall k a,
  attrs_wf k a = true -> is_normal k a = true -> bind (to_props k a) (from_props k) = Ok a.
Proof. exact props_roundtrip_exact. Qed.
Print Assumptions C02_props_roundtrip_exact_partial.

(* (R) is false: a freshly built named network service (gateway None) comes back with an empty
   Gateway object *)
Theorem C02_props_roundtrip_refuted :
  exists k a, attrs_wf k a = true /\ bind (to_props k a) (from_props k) <> Ok a.
Proof. exact props_roundtrip_refuted. Qed.
Print Assumptions C02_props_roundtrip_refuted.

(* the hypothesis attrs_wf excludes empty value objects (canonical text ''): they read back as absent *)
Theorem C02_empty_object_reads_absent_refuted :
  bind (to_props KNode w_empty_caps) (from_props KNode) = Ok (aset "capacities" None w_empty_caps).
Proof. exact empty_object_refuted. Qed.
Print Assumptions C02_empty_object_reads_absent_refuted.

(* DEEP DICTIONARY ROUND TRIP, any nesting (induction on the sliver tree): same structure, same value
   of every attribute; node ids are not part of the dictionary form (forget_ids). *)
Theorem C02_dict_roundtrip : forall t,
  tree_wf t = true -> bind (to_dict t) (from_dict (t_kind t)) = Ok (forget_ids t).
Proof. exact dict_roundtrip. Qed.
Print Assumptions C02_dict_roundtrip.

(* JSON ROUND TRIP (JSONSliver), any nesting, over JSON values *)
Theorem C02_json_roundtrip : forall t,
  tree_wf t = true -> bind (sliver_to_json t) (sliver_from_json (t_kind t)) = Ok (forget_ids t).
Proof. exact json_roundtrip. Qed.
Print Assumptions C02_json_roundtrip.

Theorem C02_json_values_roundtrip : forall d, jv_to_dd (dd_to_jv d) = Some d.
Proof. exact json_value_roundtrip. Qed.
Print Assumptions C02_json_values_roundtrip.

(* GET AFTER SET, every element class, every settable property written by a statement of its own:
   reading back returns what the setter stores (stored), which is the argument itself for every setter
   but set_management_ip (C02_set_get_same). *)
Theorem C02_set_get : forall k p v d x,
  settable k p = Some x -> single_written k x = true -> value_ok k p v = true -> readable k d = true ->
  exists d', set_property k p (Some v) d = Ok d' /\ get_property k p d' = Ok (stored k p v).
Proof. exact set_get. Qed.
Print Assumptions C02_set_get.

Theorem C02_set_get_same_partial : forall k p v d x,
  settable k p = Some x -> single_written k x = true -> stores_argument k p = true ->
  value_ok k p v = true -> readable k d = true ->
  exists d', set_property k p (Some v) d = Ok d' /\ get_property k p d' = Ok (Some v).
Proof. exact set_get_same. Qed.
Print Assumptions C02_set_get_same_partial.

(* (S) is false for the two halves of the image pair: set_property('image_ref', v) is a silent no-op *)
Theorem C02_set_get_image_ref_refuted :
  readable KNode w_node_props = true /\
  exists d', set_property KNode "image_ref" (Some (FStr (S"img"))) w_node_props = Ok d' /\
             get_property KNode "image_ref" d' = Ok None.
Proof. exact image_ref_alone_refuted. Qed.
Print Assumptions C02_set_get_image_ref_refuted.

(* ... and an image_ref with a comma makes every later read of the node raise *)
Theorem C02_image_ref_with_comma_refuted :
  exists d', set_properties KNode [("image_ref", Some (FStr (S"a,b"))); ("image_type", Some (FStr (S"qcow2")))]%string
                            w_node_props = Ok d' /\
             get_property KNode "site" d' = Err ExValue.
Proof. exact image_comma_refuted. Qed.
Print Assumptions C02_image_ref_with_comma_refuted.

(* GET AFTER UNSET, every element class, every property SLIVER_PROPERTY_TO_GRAPH maps to a graph
   property that may be removed: reads the absent value (unset_reads), which is None for every such
   property but the gateway of a service. *)
Theorem C02_unset_get : forall k p d x g,
  settable k p = Some x -> alookup p sliver_property_to_graph = Some g ->
  mem g no_unset_properties = false -> readable k d = true ->
  exists d', set_property k p None d = Ok d' /\ get_property k p d' = Ok (unset_reads k x).
Proof. exact unset_get. Qed.
Print Assumptions C02_unset_get.

Theorem C02_unset_get_absent_partial : forall k p d x g,
  settable k p = Some x -> alookup p sliver_property_to_graph = Some g ->
  mem g no_unset_properties = false -> readable k d = true ->
  (kind_eqb k KService && String.eqb p "gateway") = false ->
  exists d', set_property k p None d = Ok d' /\ get_property k p d' = Ok None.
Proof. exact unset_get_absent. Qed.
Print Assumptions C02_unset_get_absent_partial.

Theorem C02_unset_gateway_refuted :
  readable KService w_service_props = true /\
  exists d', set_property KService "gateway" None w_service_props = Ok d' /\
             get_property KService "gateway" d' = Ok (Some (FObj "Gateway" None)).
Proof. exact unset_gateway_refuted. Qed.
Print Assumptions C02_unset_gateway_refuted.

(* which settable properties have no unset mapping (their unset is a silent no-op): exactly these -
   a forgotten mapping (as `location` was before fix 85687de) changes this list *)
Theorem C02_unmapped_setters :
  map unmapped_setters [KNode; KComponent; KService; KInterface; KLink] =
  [["image_type"; "stitch_node"]; ["stitch_node"]; ["stitch_node"]; ["stitch_node"]; ["stitch_node"]]%string.
Proof. exact unmapped_exact. Qed.
Print Assumptions C02_unmapped_setters.

Theorem C02_unset_unmapped_is_noop : forall k p d,
  alookup p sliver_property_to_graph = None -> set_property k p None d = Ok d.
Proof. exact unset_unmapped_noop. Qed.
Print Assumptions C02_unset_unmapped_is_noop.

(* documented precondition: Name and Type (NO_UNSET_PROPERTIES) cannot be unset, the backend refuses *)
Theorem C02_unset_refused : forall k p d g,
  alookup p sliver_property_to_graph = Some g -> mem g no_unset_properties = true ->
  set_property k p None d = Err ExQuery.
Proof. exact unset_refused. Qed.
Print Assumptions C02_unset_refused.

(* GRAPH ROUTE (model of the in-memory backend).  Slivers without children - node, stand-alone service,
   interface, link - written into an empty graph and rebuilt: every attribute and the node id come
   back (flat k id a = T k (Some id) a None None None).  For trees with children the graph route has
   no unbounded theorem: executable model tied on every run, and: *)
Theorem C02_graph_flat_roundtrip : forall k id a,
  kind_eqb k KComponent = false -> attrs_wf k a = true -> is_normal k a = true ->
  graph_roundtrip (flat k id a) = Ok (flat k id a).
Proof. exact graph_flat_roundtrip. Qed.
Print Assumptions C02_graph_flat_roundtrip.

(* it loses the sub-interfaces of interfaces: *)
Theorem C02_graph_route_drops_subinterfaces_refuted :
  tree_wf w_tree' = true /\ graph_roundtrip w_tree' = Ok (drop_subifs w_tree') /\ drop_subifs w_tree' <> w_tree'.
Proof. exact graph_route_refuted. Qed.
Print Assumptions C02_graph_route_drops_subinterfaces_refuted.

(* ---------- non-vacuity ---------- *)
(* a 5-level tree satisfies tree_wf and round-trips through the dictionary *)
Example C02_deep_nonvacuous :
  tree_wf w_tree' = true /\ bind (to_dict w_tree') (from_dict KNode) = Ok (forget_ids w_tree')
  /\ forget_ids w_tree' <> T KNode None [] None None None.
Proof. exact deep_example. Qed.

Example C02_graph_flat_nonvacuous :
  attrs_wf KService (aset "gateway" gw_none w_service) = true /\
  is_normal KService (aset "gateway" gw_none w_service) = true /\
  graph_roundtrip (flat KService (S"s1") (aset "gateway" gw_none w_service))
  = Ok (flat KService (S"s1") (aset "gateway" gw_none w_service)).
Proof. exact graph_flat_example. Qed.

(* real values satisfy the hypotheses of the element theorems *)
Example C02_element_nonvacuous :
  settable KNode "site" = Some "site"%string /\ single_written KNode "site" = true /\
  value_ok KNode "site" (FStr (S"UKY")) = true /\ readable KNode w_node_props = true /\
  stores_argument KNode "site" = true /\
  value_ok KNode "management_ip" (FStr (S"10.0.0.1")) = true /\
  stored KNode "management_ip" (FStr (S"10.0.0.1")) = Some (FIp (S"10.0.0.1")) /\
  alookup "site"%string sliver_property_to_graph = Some "Site"%string /\
  mem "Site" no_unset_properties = false.
Proof. vm_compute. repeat split; reflexivity. Qed.

(* the pair set together is read back (by computation on an instance; no general theorem) *)
Example C02_image_pair_set_together :
  exists d', set_properties KNode [("image_ref", Some (FStr (S"img"))); ("image_type", Some (FStr (S"qcow2")))]%string
                            w_node_props = Ok d' /\
             get_property KNode "image_ref" d' = Ok (Some (FStr (S"img"))) /\
             get_property KNode "image_type" d' = Ok (Some (FStr (S"qcow2"))).
Proof. exact image_pair_example. Qed.

(* C09 - a topology operation that fails leaves the model unchanged.
   Only statements; each is closed by `exact` of a lemma from Proofs/T9*.v.  The operations are the monadic
   programs of Model/T9Ops.v (transcriptions of fim/user/*.py and of the add_*_sliver / remove_* methods of
   fim/graph/abc_property_graph.py that keep the order of checks and primitive graph mutations; effects before
   a raise stay in the state).  `sg` is the graph component of the state, `sfresh` the uuid supply.

   The statement of the property for a call `op`:
       forall g g' e,  run op g = (g', Err e)  ->  g' = g
   holds (after the fixes 16ce105, b5829c4, 2982a89, 1e03994 that this development prompted) for eight of the
   ten modelled calls; it is still FALSE for add_component with duplicate caller-supplied child ids and for
   add_switch without the rollback of proposed_fixes/C09-5.patch: `_refuted` theorems exhibit the witnesses
   (replayed on the real code on every run), `_partial` theorems carry the hypothesis excluding the defect. *)
From Coq Require Import List NArith Bool String.
From FIM Require Import Base.Str Gen.T9Names Model.T9Graph Model.T9Ops Model.T9Check
     Proofs.T9Monad Proofs.T9Simple Proofs.T9Ext Proofs.T9Connect Proofs.T9Refuted Proofs.T9Atomic
     Proofs.T9Facility Proofs.T9Peer Proofs.T9Component Proofs.T9CompFresh Proofs.T9Final Proofs.T9More Proofs.T9Handles.
Import ListNotations.
Open Scope N_scope.

(* the translator recognised every NAME_REGEX (fail-closed flag) *)
Theorem C09_names_translated : t9_gen_ok = true.
Proof. exact names_translated. Qed.
Print Assumptions C09_names_translated.

(* ---- validate-before-mutate: element constructors whose checks all precede the mutation.
   For EVERY state, flavour and argument: if the call raises (any exception), the graph is unchanged. *)
Theorem C09_add_node_atomic : forall fl name node_id ntype pure s s' e,
  op_add_node fl name node_id ntype pure s = (s', Err e) -> sg s' = sg s.
Proof. exact add_node_atomic_all. Qed.
Print Assumptions C09_add_node_atomic.
Example C09_add_node_atomic_ex :
  let r := op_add_node Experiment (S "n1") None (Some tVM) None (mkSt g_two_nodes supply) in
  snd r = Err ETopology /\ sg (fst r) = g_two_nodes.
Proof. exact ex_add_node_dup. Qed.

Theorem C09_add_node_service_atomic : forall fl pn name node_id nstype pure s s' e,
  op_add_node_service fl pn name node_id nstype pure s = (s', Err e) -> sg s' = sg s.
Proof. exact add_node_service_atomic_all. Qed.
Print Assumptions C09_add_node_service_atomic.

Theorem C09_add_interface_atomic : forall fl ns name node_id itype pure s s' e,
  op_add_interface fl ns name node_id itype pure s = (s', Err e) -> sg s' = sg s.
Proof. exact add_interface_atomic_all. Qed.
Print Assumptions C09_add_interface_atomic.

(* Topology.add_link (fix b5829c4: every interface is looked up before the Link node is added) *)
Theorem C09_add_link_atomic : forall fl name node_id ltype ifs pure s s' e,
  op_add_link fl name node_id ltype ifs pure s = (s', Err e) -> sg s' = sg s.
Proof. exact add_link_atomic_all. Qed.
Print Assumptions C09_add_link_atomic.
Example C09_add_link_atomic_ex :
  let r := op_add_link Experiment (S "l1") None (Some tPatch) (Some [mkIface 4 (S "nic1-p1"); mkIface 40 (S "gone")]) None
                       (mkSt g_two_nodes supply) in
  snd r = Err EQuery /\ sg (fst r) = g_two_nodes.
Proof. exact ex_link_stale. Qed.
Example C09_add_link_ok_ex :
  let r := op_add_link Experiment (S "l1") None (Some tPatch) (Some [mkIface 4 (S "nic1-p1"); mkIface 8 (S "nic1-p1")]) None
                       (mkSt g_two_nodes supply) in
  snd r = Ok 50 /\ List.length (gedges (sg (fst r))) = 9%nat.
Proof. exact ex_link_ok. Qed.

(* ---- the service constructor's rollback (network_service.py:100-119, fix 16ce105).
   For every well-formed graph, every list of interface handles (each a ConnectionPoint of the graph or a
   stale handle), whichever element of the list is the rejected one and WHATEVER the exception
   (TopologyException: not owned by a node, already connected - also by an earlier element of the same list -,
   shared port on L2PTP, substrate flavour, missing service type; PropertyGraphQueryException: stale handle,
   id already taken; ValueError: derived port or link name too long - raised after the ServicePort exists -;
   exhausted id supply; invalid property; duplicate service name): the graph is unchanged. *)
Theorem C09_service_rollback : forall fl name node_id nstype ifs pure g fresh s' e,
  wf_graph g = true -> ifaces_typed g ifs = true -> supply_apart node_id fresh ifs = true ->
  op_add_service fl name node_id nstype ifs pure (mkSt g fresh) = (s', Err e) ->
  sg s' = g.
Proof. exact service_rollback. Qed.
Print Assumptions C09_service_rollback.
Example C09_service_rollback_ex_hyps :
  wf_graph g_two_nodes = true /\ ifaces_typed g_two_nodes ex_ifs = true /\ supply_apart None supply ex_ifs = true
  /\ ifaces_typed g_two_nodes ex_ifs_stale = true /\ supply_apart None supply ex_ifs_stale = true.
Proof. exact ex_service_hyps. Qed.
Example C09_service_rollback_ex_topology :
  let r := op_add_service Experiment (S "s1") None (Some tL2Bridge) ex_ifs None (mkSt g_two_nodes supply) in
  snd r = Err ETopology /\ sg (fst r) = g_two_nodes /\ List.length (sfresh (fst r)) = 3%nat.
Proof. exact ex_service_rollback_runs. Qed.
Example C09_service_rollback_ex_stale_handle :
  let r := op_add_service Experiment (S "s1") None (Some tL2Bridge) ex_ifs_stale None (mkSt g_two_nodes supply) in
  snd r = Err EQuery /\ sg (fst r) = g_two_nodes.
Proof. exact ex_service_stale_runs. Qed.
Example C09_service_rollback_ex_long_link_name :
  let r := op_add_service Experiment (S "s1") None (Some tL2Bridge) [mkIface 4 (long_name 50)] None (mkSt g_long supply) in
  snd r = Err EValue /\ sg (fst r) = g_long /\ List.length (sfresh (fst r)) = 5%nat.
Proof. exact ex_service_long_runs. Qed.
Example C09_service_ok_ex :
  let r := op_add_service Experiment (S "s1") None (Some tL2Bridge) (firstn 2 ex_ifs) None (mkSt g_two_nodes supply) in
  snd r = Ok 50 /\ List.length (gnodes (sg (fst r))) = 14%nat.
Proof. exact ex_service_ok. Qed.

(* ---- Topology.add_facility (fix 2982a89: the steps after add_node in a try whose handler removes the node
   with its service and ports): atomic for every exception and every argument *)
Theorem C09_add_facility_atomic :
  forall fl name node_id d_ns d_int d_intk nstype pure_ns ports pure_single g fresh s' e,
  wf_graph g = true ->
  op_add_facility fl name node_id d_ns d_int d_intk nstype pure_ns ports pure_single (mkSt g fresh) = (s', Err e) ->
  sg s' = g.
Proof. exact add_facility_atomic. Qed.
Print Assumptions C09_add_facility_atomic.
Example C09_add_facility_atomic_ex :
  let r := op_add_facility Experiment (S "fac1") None 0 0 [] tVLAN None
             (Some [mkFacPort (S "pa") None; mkFacPort [] None]) None (mkSt g_two_nodes supply) in
  snd r = Err EValue /\ sg (fst r) = g_two_nodes /\ List.length (sfresh (fst r)) = 4%nat.
Proof. exact ex_facility_late. Qed.
Example C09_add_facility_ok_ex :
  let r := op_add_facility Experiment (S "fac1") None 0 0 [] tVLAN None
             (Some [mkFacPort (S "pa") None; mkFacPort (S "pb") None]) None (mkSt g_two_nodes supply) in
  snd r = Ok 50 /\ List.length (gnodes (sg (fst r))) = 13%nat.
Proof. exact ex_facility_ok. Qed.

(* ---- NetworkService.peer (fix 1e03994): atomic for every exception, for two NetworkService nodes *)
Theorem C09_peer_atomic : forall fl a b pure g fresh s' e,
  wf_graph g = true -> node_cls g a = Ok cNS -> node_cls g b = Ok cNS ->
  op_peer fl a b pure (mkSt g fresh) = (s', Err e) -> sg s' = g.
Proof. exact peer_atomic. Qed.
Print Assumptions C09_peer_atomic.
Example C09_peer_atomic_ex_hyps :
  wf_graph g_two_services = true /\ node_cls g_two_services 30 = Ok cNS /\ node_cls g_two_services 31 = Ok cNS.
Proof. exact ex_peer_hyps. Qed.
Example C09_peer_atomic_ex :
  let r := op_peer Experiment 30 31 None (mkSt g_two_services supply) in
  snd r = Err ETopology /\ sg (fst r) = g_two_services /\ List.length (sfresh (fst r)) = 7%nat.
Proof. exact ex_peer_late. Qed.
Example C09_peer_ok_ex :
  let r := op_peer Experiment 30 31 None (mkSt (mkGraph (firstn 2 (gnodes g_two_services)) []) supply) in
  snd r = Ok tt /\ List.length (gnodes (sg (fst r))) = 5%nat /\ List.length (gedges (sg (fst r))) = 4%nat.
Proof. exact ex_peer_ok. Qed.

(* ---- Topology.add_switch.  `rollback` = does the running library wrap the steps after add_node in the
   try/except of proposed_fixes/C09-5.patch (read off its source by the harness).
   With it: atomic as add_facility. *)
Theorem C09_add_switch_atomic_with_rollback :
  forall fl name node_id d_ns d_intk nstype pure_ns nports pure_port g fresh s' e,
  wf_graph g = true ->
  op_add_switch true fl name node_id d_ns d_intk nstype pure_ns nports pure_port (mkSt g fresh) = (s', Err e) ->
  sg s' = g.
Proof. exact add_switch_atomic_rb. Qed.
Print Assumptions C09_add_switch_atomic_with_rollback.
Example C09_add_switch_atomic_with_rollback_ex :
  let r := op_add_switch true Experiment (S "sw1") None 0 [] tVLAN None 2 (Some EAssert) (mkSt g_two_nodes supply) in
  snd r = Err EAssert /\ sg (fst r) = g_two_nodes.
Proof. exact ex_switch_rb_late. Qed.

(* Without it the full statement is FALSE: node, service, ports in three steps *)
Theorem C09_add_switch_atomic_refuted :
  exists fl name nid dns dk ty pns np pp g fresh s' e,
    wf_graph g = true /\ op_add_switch false fl name nid dns dk ty pns np pp (mkSt g fresh) = (s', Err e) /\ sg s' <> g.
Proof. exact add_switch_atomic_refuted. Qed.
Print Assumptions C09_add_switch_atomic_refuted.

(* ... atomic (either way) when it is the switch node itself that is rejected *)
Theorem C09_add_switch_atomic_partial :
  forall rb fl name node_id d_ns d_intk nstype pure_ns nports pure_port s s' e,
  op_add_switch rb fl name node_id d_ns d_intk nstype pure_ns nports pure_port s = (s', Err e) ->
  (forall s1 id, op_add_node fl name node_id (Some tSwitch) None s <> (s1, Ok id)) ->
  sg s' = sg s.
Proof. exact add_switch_first_step. Qed.
Print Assumptions C09_add_switch_atomic_partial.
Example C09_add_switch_ok_ex :
  let r := op_add_switch false Experiment (S "sw1") None 0 [] tVLAN None 2 None (mkSt g_two_nodes supply) in
  snd r = Ok 50 /\ List.length (gnodes (sg (fst r))) = 13%nat.
Proof. exact ex_switch_ok. Qed.

(* ---- Node.add_component.  `precheck` = does the running library's add_component_sliver check, before it adds
   anything, that the parent exists and the ids it is going to add are new and pairwise distinct
   (proposed_fixes/C09-6.patch; read off its source by the harness).
   With it: atomic for EVERY state, argument and exception. *)
Theorem C09_add_component_atomic_with_precheck :
  forall fl pn name node_id spec_given nic sub_ids cat pure s s' e,
  op_add_component true fl pn name node_id spec_given nic sub_ids cat pure s = (s', Err e) -> sg s' = sg s.
Proof. exact add_component_atomic_precheck. Qed.
Print Assumptions C09_add_component_atomic_with_precheck.
Example C09_add_component_atomic_with_precheck_ex :
  let r := op_add_component true Substrate 1 (S "nic2") (Some 20) true true true (Ok (spec_smartnic 21 22 22)) None
                            (mkSt g_two_nodes supply) in
  snd r = Err EQuery /\ sg (fst r) = g_two_nodes.
Proof. exact ex_component_precheck. Qed.

(* Without it: composite sliver adder, duplicate caller-supplied child ids are found late *)
Theorem C09_add_component_atomic_refuted :
  exists fl pn name nid a b c cat pure g fresh s' e,
    wf_graph g = true /\ op_add_component false fl pn name nid a b c cat pure (mkSt g fresh) = (s', Err e) /\ sg s' <> g.
Proof. exact add_component_atomic_refuted. Qed.
Print Assumptions C09_add_component_atomic_refuted.

(* ... atomic for every failure that is not a PropertyGraphQueryException: duplicate component name, unknown
   component model (CatalogException), invalid property among valid ones, missing model or ids, wrong number
   of ids (RuntimeError) - for every state and every argument *)
Theorem C09_add_component_atomic_nonquery_partial :
  forall pc fl pn name node_id spec_given nic sub_ids cat pure s s' e,
  op_add_component pc fl pn name node_id spec_given nic sub_ids cat pure s = (s', Err e) ->
  e <> EQuery -> sg s' = sg s.
Proof. exact add_component_atomic_nonquery. Qed.
Print Assumptions C09_add_component_atomic_nonquery_partial.
Example C09_add_component_unknown_model_ex :
  let r := op_add_component false Experiment 1 (S "x1") None true true false (Err ECatalog) None (mkSt g_two_nodes supply) in
  snd r = Err ECatalog /\ sg (fst r) = g_two_nodes.
Proof. exact ex_component_unknown_model. Qed.
Example C09_add_component_ok_ex :
  let r := op_add_component false Experiment 1 (S "nic2") None true false false
             (Ok (mkCompSpec tNIC (Some (mkChildNs (S "n1-nic2-l2ovs") tOVS None [mkChildIf (S "nic2-p1") tSharedPort None]))))
             None (mkSt g_two_nodes supply) in
  snd r = Ok 50 /\ List.length (gnodes (sg (fst r))) = 12%nat.
Proof. exact ex_component_ok. Qed.

(* ... and atomic for EVERY exception when the ids the call is going to use (caller-supplied or drawn, in the
   order component, interfaces, service) are pairwise distinct and not in the graph - the hypothesis that
   excludes exactly the witness above *)
Theorem C09_add_component_atomic_partial :
  forall fl pn name node_id spec_given nic sub_ids cat pure g fresh s' e,
  ids_fresh g (component_ids node_id cat fresh) = true ->
  op_add_component false fl pn name node_id spec_given nic sub_ids cat pure (mkSt g fresh) = (s', Err e) ->
  sg s' = g.
Proof. exact add_component_atomic_fresh. Qed.
Print Assumptions C09_add_component_atomic_partial.
Example C09_add_component_atomic_partial_ex :
  ids_fresh g_two_nodes (component_ids (Some 20) (Ok (spec_smartnic 21 22 23)) supply) = true /\
  ids_fresh g_two_nodes (component_ids (Some 20) (Ok (spec_smartnic 21 22 22)) supply) = false /\
  ids_fresh g_two_nodes (component_ids None (Ok (mkCompSpec tNIC (Some (mkChildNs (S "x") tOVS None
                                         [mkChildIf (S "p") tSharedPort None])))) supply) = true.
Proof. exact ex_ids_fresh. Qed.

(* ==== calls on existing elements ==== *)

(* ModelElement.rename / set_property('name', v) (fix 6648cd3): scope uniqueness check, NAME_REGEX, then the write *)
Theorem C09_rename_atomic : forall x kind new_name s s' e,
  op_rename x kind new_name s = (s', Err e) -> sg s' = sg s.
Proof. exact rename_atomic_all. Qed.
Print Assumptions C09_rename_atomic.
Example C09_rename_atomic_ex :
  snd (op_rename 5 cNN (S "n1") (mkSt g_two_nodes supply)) = Err ETopology /\
  sg (fst (op_rename 5 cNN (S "n1") (mkSt g_two_nodes supply))) = g_two_nodes /\
  snd (op_rename 6 cComp (S "nic1") (mkSt g_two_nodes supply)) = Ok tt /\
  snd (op_rename 8 cCP (S "nic1-p2") (mkSt g_two_nodes supply)) = Err ETopology /\
  snd (op_rename 8 cCP (S "x") (mkSt g_two_nodes supply)) = Ok tt /\
  snd (op_rename 5 cNN (S "x") (mkSt g_two_nodes supply)) = Err EValue.
Proof. exact ex_rename. Qed.

(* <element>.set_properties(kwargs): an invalid property among valid ones leaves the element as it was *)
Theorem C09_set_properties_atomic : forall x pure new_rest s s' e,
  op_set_props x pure new_rest s = (s', Err e) -> sg s' = sg s.
Proof. exact set_props_atomic_all. Qed.
Print Assumptions C09_set_properties_atomic.

(* Topology.remove_link (fix 65db950): unknown name, or a link made by connect_interface / peer *)
Theorem C09_remove_link_atomic : forall name s s' e,
  op_remove_link name s = (s', Err e) -> sg s' = sg s.
Proof. exact remove_link_atomic_all. Qed.
Print Assumptions C09_remove_link_atomic.

(* Interface.add_child_interface *)
Theorem C09_add_child_interface_atomic : forall fl x name node_id lv pure s s' e,
  op_add_child fl x name node_id lv pure s = (s', Err e) -> sg s' = sg s.
Proof. exact add_child_atomic_all. Qed.
Print Assumptions C09_add_child_interface_atomic.

(* NetworkService.unpeer (fix 24d5e04): "do not peer" is raised before anything is touched - every
   TopologyException of unpeer leaves the graph unchanged, for every graph *)
Theorem C09_unpeer_topology_exception_atomic : forall a b s s',
  op_unpeer a b s = (s', Err ETopology) -> sg s' = sg s.
Proof. exact unpeer_topo_all. Qed.
Print Assumptions C09_unpeer_topology_exception_atomic.
(* ... and every failure when the two services have no peering *)
Theorem C09_unpeer_not_peering_atomic : forall a b s s' e,
  op_unpeer a b s = (s', Err e) ->
  (forall m t, peerings (sg s) a b = Ok (m, t) -> m = []) ->
  sg s' = sg s.
Proof. exact op_unpeer_not_peering. Qed.
Print Assumptions C09_unpeer_not_peering_atomic.
Example C09_unpeer_ex :
  wf_graph g_peered = true /\
  snd (op_remove_link (S "a-b-link") (mkSt g_peered supply)) = Err ETopology /\
  snd (op_unpeer 30 33 (mkSt g_peered supply)) = Err ETopology /\
  sg (fst (op_unpeer 30 33 (mkSt g_peered supply))) = g_peered /\
  snd (op_unpeer 30 31 (mkSt g_peered supply)) = Ok tt /\
  List.length (gnodes (sg (fst (op_unpeer 30 31 (mkSt g_peered supply))))) = 3%nat.
Proof. exact ex_peered. Qed.

(* Topology.add_port_mirror_service = two assertions + the service constructor with one interface *)
Theorem C09_port_mirror_atomic : forall fl name node_id to_if from_given pure g fresh s' e,
  wf_graph g = true ->
  (forall i, to_if = Some i -> ifaces_typed g [i] = true /\ supply_apart node_id fresh [i] = true) ->
  op_port_mirror fl name node_id to_if from_given pure (mkSt g fresh) = (s', Err e) -> sg s' = g.
Proof. exact port_mirror_atomic. Qed.
Print Assumptions C09_port_mirror_atomic.

(* NetworkService.connect_interface called directly on an existing service.  `rollback` = does the running library
   remove the ServicePort again when the link cannot be made (proposed_fixes/C09-7.patch).
   Either way every TopologyException (guardrails, not owned, already connected, derived port name already on the
   service or derived link name in use - fix 8b1a93d -, substrate) is raised before anything is made. *)
Theorem C09_connect_interface_topology_exception_atomic : forall rb fl ns i s s',
  op_connect rb fl ns i s = (s', Err ETopology) -> sg s' = sg s.
Proof. exact connect_topo_all. Qed.
Print Assumptions C09_connect_interface_topology_exception_atomic.
(* With the rollback: atomic for every exception *)
Theorem C09_connect_interface_atomic_with_rollback : forall fl ns i g fresh s' e,
  wf_graph g = true -> node_cls g ns = Ok cNS ->
  op_connect true fl ns i (mkSt g fresh) = (s', Err e) -> sg s' = g.
Proof. exact connect_rb_atomic. Qed.
Print Assumptions C09_connect_interface_atomic_with_rollback.
Example C09_connect_interface_atomic_with_rollback_ex :
  let r := op_connect true Experiment 9 (mkIface 4 (long_name 50)) (mkSt g_long_svc supply) in
  snd r = Err EValue /\ sg (fst r) = g_long_svc /\ List.length (sfresh (fst r)) = 6%nat.
Proof. exact ex_connect_rb_long. Qed.
(* Without it the full statement is FALSE: a derived link name of 256 characters leaves the ServicePort *)
Theorem C09_connect_interface_atomic_refuted :
  exists fl ns i g fresh s',
    wf_graph g = true /\ node_cls g ns = Ok cNS /\
    op_connect false fl ns i (mkSt g fresh) = (s', Err EValue) /\ sg s' <> g.
Proof. exact connect_atomic_refuted. Qed.
Print Assumptions C09_connect_interface_atomic_refuted.

(* ==== handles that may be stale ====
   NetworkService.add_interface (and peer, which calls it on both services) checks the name against the names CACHED
   in the handle and reads nothing from the graph before it writes.  `parent_check` = does the running library's
   add_interface_sliver look the parent up before it adds the ConnectionPoint (proposed_fixes/C09-8.patch). *)
Theorem C09_add_interface_any_handle_atomic_with_parent_check : forall fl ns cached name node_id itype pure s s' e,
  add_interface_h true fl ns cached name node_id itype pure s = (s', Err e) -> sg s' = sg s.
Proof. exact add_interface_h_pc_all. Qed.
Print Assumptions C09_add_interface_any_handle_atomic_with_parent_check.
Example C09_add_interface_any_handle_atomic_with_parent_check_ex :
  let r := add_interface_h true Experiment 77 [] (S "p9") None (Some tFacilityPort) None (mkSt g_two_nodes supply) in
  snd r = Err EQuery /\ sg (fst r) = g_two_nodes.
Proof. exact ex_add_interface_stale_pc. Qed.

(* either way atomic when the service the handle names is in the graph *)
Theorem C09_add_interface_any_handle_atomic_partial : forall pc fl ns cached name node_id itype pure s s' e,
  (exists n, find_node (sg s) ns = Ok n) ->
  add_interface_h pc fl ns cached name node_id itype pure s = (s', Err e) -> sg s' = sg s.
Proof. exact add_interface_h_found_all. Qed.
Print Assumptions C09_add_interface_any_handle_atomic_partial.

(* without the look-up the full statement is FALSE: the stale handle of a removed service leaves an orphan port *)
Theorem C09_add_interface_stale_handle_refuted :
  exists fl ns cached name nid ty pure g fresh s' e,
    wf_graph g = true /\ add_interface_h false fl ns cached name nid ty pure (mkSt g fresh) = (s', Err e) /\ sg s' <> g.
Proof. exact add_interface_stale_refuted. Qed.
Print Assumptions C09_add_interface_stale_handle_refuted.

(* peer through any two handles of two NetworkService nodes of the graph: atomic, with or without the look-up *)
Theorem C09_peer_any_handles_atomic : forall pc fl a an ca b bn cb pure g fresh s' e,
  wf_graph g = true -> node_cls g a = Ok cNS -> node_cls g b = Ok cNS ->
  op_peer_h pc fl a an ca b bn cb pure (mkSt g fresh) = (s', Err e) -> sg s' = g.
Proof. exact peer_h_atomic. Qed.
Print Assumptions C09_peer_any_handles_atomic.
(* ... and FALSE without the look-up when one handle is stale *)
Theorem C09_peer_stale_handle_refuted :
  exists fl a an ca b bn cb pure g fresh s' e,
    wf_graph g = true /\ op_peer_h false fl a an ca b bn cb pure (mkSt g fresh) = (s', Err e) /\ sg s' <> g.
Proof. exact peer_stale_refuted. Qed.
Print Assumptions C09_peer_stale_handle_refuted.
Example C09_peer_stale_handle_with_parent_check_ex :
  let r := op_peer_h true Experiment 30 (S "a") [] 77 (S "gone") [] None (mkSt g_two_services supply) in
  snd r = Err EQuery /\ sg (fst r) = g_two_services.
Proof. exact ex_peer_stale_pc. Qed.

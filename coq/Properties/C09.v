(* C09 - a topology operation that fails leaves the model unchanged.
   Only statements; each is closed by `exact` of a lemma from Proofs/T9*.v.  The operations are the monadic
   programs of Model/T9Ops.v (transcriptions of fim/user/*.py and of the add_*_sliver / remove_* methods of
   fim/graph/abc_property_graph.py that keep the order of checks and primitive graph mutations; effects before
   a raise stay in the state).  `sg` is the graph component of the state, `sfresh` the uuid supply.

   The statement of the property for a call `op`:
       forall g g' e,  run op g = (g', Err e)  ->  g' = g
   holds (after the fixes 16ce105, b5829c4, 2982a89, 1e03994 that this development prompted) for eight of the
   ten modelled calls; it is still FALSE for add_component with duplicate caller-supplied child ids and for
   add_switch without the rollback of proposed_fixes/C09-5.patch: `_refuted` theorems exhibit the witnesses
   (replayed on the real code on every run), `_partial` theorems carry the hypothesis excluding the defect. *)
From Coq Require Import List NArith Bool String.
From FIM Require Import Base.Str Gen.T9Names Model.T9Graph Model.T9Ops Model.T9Check
     Proofs.T9Monad Proofs.T9Simple Proofs.T9Ext Proofs.T9Connect Proofs.T9Refuted Proofs.T9Atomic
     Proofs.T9Facility Proofs.T9Peer Proofs.T9Component Proofs.T9CompFresh Proofs.T9Final.
Import ListNotations.
Open Scope N_scope.

(* the translator recognised every NAME_REGEX (fail-closed flag) *)
Theorem C09_names_translated : t9_gen_ok = true.
Proof. exact names_translated. Qed.
Print Assumptions C09_names_translated.

(* ---- validate-before-mutate: element constructors whose checks all precede the mutation.
   For EVERY state, flavour and argument: if the call raises (any exception), the graph is unchanged. *)
Theorem C09_add_node_atomic : forall fl name node_id ntype pure s s' e,
  op_add_node fl name node_id ntype pure s = (s', Err e) -> sg s' = sg s.
Proof. exact add_node_atomic_all. Qed.
Print Assumptions C09_add_node_atomic.
Example C09_add_node_atomic_ex :
  let r := op_add_node Experiment (S "n1") None (Some tVM) None (mkSt g_two_nodes supply) in
  snd r = Err ETopology /\ sg (fst r) = g_two_nodes.
Proof. exact ex_add_node_dup. Qed.

Theorem C09_add_node_service_atomic : forall fl pn name node_id nstype pure s s' e,
  op_add_node_service fl pn name node_id nstype pure s = (s', Err e) -> sg s' = sg s.
Proof. exact add_node_service_atomic_all. Qed.
Print Assumptions C09_add_node_service_atomic.

Theorem C09_add_interface_atomic : forall fl ns name node_id itype pure s s' e,
  op_add_interface fl ns name node_id itype pure s = (s', Err e) -> sg s' = sg s.
Proof. exact add_interface_atomic_all. Qed.
Print Assumptions C09_add_interface_atomic.

(* Topology.add_link (fix b5829c4: every interface is looked up before the Link node is added) *)
Theorem C09_add_link_atomic : forall fl name node_id ltype ifs pure s s' e,
  op_add_link fl name node_id ltype ifs pure s = (s', Err e) -> sg s' = sg s.
Proof. exact add_link_atomic_all. Qed.
Print Assumptions C09_add_link_atomic.
Example C09_add_link_atomic_ex :
  let r := op_add_link Experiment (S "l1") None (Some tPatch) (Some [mkIface 4 (S "nic1-p1"); mkIface 40 (S "gone")]) None
                       (mkSt g_two_nodes supply) in
  snd r = Err EQuery /\ sg (fst r) = g_two_nodes.
Proof. exact ex_link_stale. Qed.
Example C09_add_link_ok_ex :
  let r := op_add_link Experiment (S "l1") None (Some tPatch) (Some [mkIface 4 (S "nic1-p1"); mkIface 8 (S "nic1-p1")]) None
                       (mkSt g_two_nodes supply) in
  snd r = Ok 50 /\ List.length (gedges (sg (fst r))) = 9%nat.
Proof. exact ex_link_ok. Qed.

(* ---- the service constructor's rollback (network_service.py:100-119, fix 16ce105).
   For every well-formed graph, every list of interface handles (each a ConnectionPoint of the graph or a
   stale handle), whichever element of the list is the rejected one and WHATEVER the exception
   (TopologyException: not owned by a node, already connected - also by an earlier element of the same list -,
   shared port on L2PTP, substrate flavour, missing service type; PropertyGraphQueryException: stale handle,
   id already taken; ValueError: derived port or link name too long - raised after the ServicePort exists -;
   exhausted id supply; invalid property; duplicate service name): the graph is unchanged. *)
Theorem C09_service_rollback : forall fl name node_id nstype ifs pure g fresh s' e,
  wf_graph g = true -> ifaces_typed g ifs = true -> supply_apart node_id fresh ifs = true ->
  op_add_service fl name node_id nstype ifs pure (mkSt g fresh) = (s', Err e) ->
  sg s' = g.
Proof. exact service_rollback. Qed.
Print Assumptions C09_service_rollback.
Example C09_service_rollback_ex_hyps :
  wf_graph g_two_nodes = true /\ ifaces_typed g_two_nodes ex_ifs = true /\ supply_apart None supply ex_ifs = true
  /\ ifaces_typed g_two_nodes ex_ifs_stale = true /\ supply_apart None supply ex_ifs_stale = true.
Proof. exact ex_service_hyps. Qed.
Example C09_service_rollback_ex_topology :
  let r := op_add_service Experiment (S "s1") None (Some tL2Bridge) ex_ifs None (mkSt g_two_nodes supply) in
  snd r = Err ETopology /\ sg (fst r) = g_two_nodes /\ List.length (sfresh (fst r)) = 3%nat.
Proof. exact ex_service_rollback_runs. Qed.
Example C09_service_rollback_ex_stale_handle :
  let r := op_add_service Experiment (S "s1") None (Some tL2Bridge) ex_ifs_stale None (mkSt g_two_nodes supply) in
  snd r = Err EQuery /\ sg (fst r) = g_two_nodes.
Proof. exact ex_service_stale_runs. Qed.
Example C09_service_rollback_ex_long_link_name :
  let r := op_add_service Experiment (S "s1") None (Some tL2Bridge) [mkIface 4 (long_name 50)] None (mkSt g_long supply) in
  snd r = Err EValue /\ sg (fst r) = g_long /\ List.length (sfresh (fst r)) = 5%nat.
Proof. exact ex_service_long_runs. Qed.
Example C09_service_ok_ex :
  let r := op_add_service Experiment (S "s1") None (Some tL2Bridge) (firstn 2 ex_ifs) None (mkSt g_two_nodes supply) in
  snd r = Ok 50 /\ List.length (gnodes (sg (fst r))) = 14%nat.
Proof. exact ex_service_ok. Qed.

(* ---- Topology.add_facility (fix 2982a89: the steps after add_node in a try whose handler removes the node
   with its service and ports): atomic for every exception and every argument *)
Theorem C09_add_facility_atomic :
  forall fl name node_id d_ns d_int d_intk nstype pure_ns ports pure_single g fresh s' e,
  wf_graph g = true ->
  op_add_facility fl name node_id d_ns d_int d_intk nstype pure_ns ports pure_single (mkSt g fresh) = (s', Err e) ->
  sg s' = g.
Proof. exact add_facility_atomic. Qed.
Print Assumptions C09_add_facility_atomic.
Example C09_add_facility_atomic_ex :
  let r := op_add_facility Experiment (S "fac1") None 0 0 [] tVLAN None
             (Some [mkFacPort (S "pa") None; mkFacPort [] None]) None (mkSt g_two_nodes supply) in
  snd r = Err EValue /\ sg (fst r) = g_two_nodes /\ List.length (sfresh (fst r)) = 4%nat.
Proof. exact ex_facility_late. Qed.
Example C09_add_facility_ok_ex :
  let r := op_add_facility Experiment (S "fac1") None 0 0 [] tVLAN None
             (Some [mkFacPort (S "pa") None; mkFacPort (S "pb") None]) None (mkSt g_two_nodes supply) in
  snd r = Ok 50 /\ List.length (gnodes (sg (fst r))) = 13%nat.
Proof. exact ex_facility_ok. Qed.

(* ---- NetworkService.peer (fix 1e03994): atomic for every exception, for two NetworkService nodes *)
Theorem C09_peer_atomic : forall fl a b pure g fresh s' e,
  wf_graph g = true -> node_cls g a = Ok cNS -> node_cls g b = Ok cNS ->
  op_peer fl a b pure (mkSt g fresh) = (s', Err e) -> sg s' = g.
Proof. exact peer_atomic. Qed.
Print Assumptions C09_peer_atomic.
Example C09_peer_atomic_ex_hyps :
  wf_graph g_two_services = true /\ node_cls g_two_services 30 = Ok cNS /\ node_cls g_two_services 31 = Ok cNS.
Proof. exact ex_peer_hyps. Qed.
Example C09_peer_atomic_ex :
  let r := op_peer Experiment 30 31 None (mkSt g_two_services supply) in
  snd r = Err ETopology /\ sg (fst r) = g_two_services /\ List.length (sfresh (fst r)) = 7%nat.
Proof. exact ex_peer_late. Qed.
Example C09_peer_ok_ex :
  let r := op_peer Experiment 30 31 None (mkSt (mkGraph (firstn 2 (gnodes g_two_services)) []) supply) in
  snd r = Ok tt /\ List.length (gnodes (sg (fst r))) = 5%nat /\ List.length (gedges (sg (fst r))) = 4%nat.
Proof. exact ex_peer_ok. Qed.

(* ---- Topology.add_switch.  `rollback` = does the running library wrap the steps after add_node in the
   try/except of proposed_fixes/C09-5.patch (read off its source by the harness).
   With it: atomic as add_facility. *)
Theorem C09_add_switch_atomic_with_rollback :
  forall fl name node_id d_ns d_intk nstype pure_ns nports pure_port g fresh s' e,
  wf_graph g = true ->
  op_add_switch true fl name node_id d_ns d_intk nstype pure_ns nports pure_port (mkSt g fresh) = (s', Err e) ->
  sg s' = g.
Proof. exact add_switch_atomic_rb. Qed.
Print Assumptions C09_add_switch_atomic_with_rollback.
Example C09_add_switch_atomic_with_rollback_ex :
  let r := op_add_switch true Experiment (S "sw1") None 0 [] tVLAN None 2 (Some EAssert) (mkSt g_two_nodes supply) in
  snd r = Err EAssert /\ sg (fst r) = g_two_nodes.
Proof. exact ex_switch_rb_late. Qed.

(* Without it the full statement is FALSE: node, service, ports in three steps *)
Theorem C09_add_switch_atomic_refuted :
  exists fl name nid dns dk ty pns np pp g fresh s' e,
    wf_graph g = true /\ op_add_switch false fl name nid dns dk ty pns np pp (mkSt g fresh) = (s', Err e) /\ sg s' <> g.
Proof. exact add_switch_atomic_refuted. Qed.
Print Assumptions C09_add_switch_atomic_refuted.

(* ... atomic (either way) when it is the switch node itself that is rejected *)
Theorem C09_add_switch_atomic_partial :
  forall rb fl name node_id d_ns d_intk nstype pure_ns nports pure_port s s' e,
  op_add_switch rb fl name node_id d_ns d_intk nstype pure_ns nports pure_port s = (s', Err e) ->
  (forall s1 id, op_add_node fl name node_id (Some tSwitch) None s <> (s1, Ok id)) ->
  sg s' = sg s.
Proof. exact add_switch_first_step. Qed.
Print Assumptions C09_add_switch_atomic_partial.
Example C09_add_switch_ok_ex :
  let r := op_add_switch false Experiment (S "sw1") None 0 [] tVLAN None 2 None (mkSt g_two_nodes supply) in
  snd r = Ok 50 /\ List.length (gnodes (sg (fst r))) = 13%nat.
Proof. exact ex_switch_ok. Qed.

(* ---- Node.add_component: composite sliver adder, duplicate caller-supplied child ids are found late *)
Theorem C09_add_component_atomic_refuted :
  exists fl pn name nid a b c cat pure g fresh s' e,
    wf_graph g = true /\ op_add_component fl pn name nid a b c cat pure (mkSt g fresh) = (s', Err e) /\ sg s' <> g.
Proof. exact add_component_atomic_refuted. Qed.
Print Assumptions C09_add_component_atomic_refuted.

(* ... atomic for every failure that is not a PropertyGraphQueryException: duplicate component name, unknown
   component model (CatalogException), invalid property among valid ones, missing model or ids, wrong number
   of ids (RuntimeError) - for every state and every argument *)
Theorem C09_add_component_atomic_nonquery_partial :
  forall fl pn name node_id spec_given nic sub_ids cat pure s s' e,
  op_add_component fl pn name node_id spec_given nic sub_ids cat pure s = (s', Err e) ->
  e <> EQuery -> sg s' = sg s.
Proof. exact add_component_atomic_nonquery. Qed.
Print Assumptions C09_add_component_atomic_nonquery_partial.
Example C09_add_component_unknown_model_ex :
  let r := op_add_component Experiment 1 (S "x1") None true true false (Err ECatalog) None (mkSt g_two_nodes supply) in
  snd r = Err ECatalog /\ sg (fst r) = g_two_nodes.
Proof. exact ex_component_unknown_model. Qed.
Example C09_add_component_ok_ex :
  let r := op_add_component Experiment 1 (S "nic2") None true false false
             (Ok (mkCompSpec tNIC (Some (mkChildNs (S "n1-nic2-l2ovs") tOVS None [mkChildIf (S "nic2-p1") tSharedPort None]))))
             None (mkSt g_two_nodes supply) in
  snd r = Ok 50 /\ List.length (gnodes (sg (fst r))) = 12%nat.
Proof. exact ex_component_ok. Qed.

(* ... and atomic for EVERY exception when the ids the call is going to use (caller-supplied or drawn, in the
   order component, interfaces, service) are pairwise distinct and not in the graph - the hypothesis that
   excludes exactly the witness above *)
Theorem C09_add_component_atomic_partial :
  forall fl pn name node_id spec_given nic sub_ids cat pure g fresh s' e,
  ids_fresh g (component_ids node_id cat fresh) = true ->
  op_add_component fl pn name node_id spec_given nic sub_ids cat pure (mkSt g fresh) = (s', Err e) ->
  sg s' = g.
Proof. exact add_component_atomic_fresh. Qed.
Print Assumptions C09_add_component_atomic_partial.
Example C09_add_component_atomic_partial_ex :
  ids_fresh g_two_nodes (component_ids (Some 20) (Ok (spec_smartnic 21 22 23)) supply) = true /\
  ids_fresh g_two_nodes (component_ids (Some 20) (Ok (spec_smartnic 21 22 22)) supply) = false /\
  ids_fresh g_two_nodes (component_ids None (Ok (mkCompSpec tNIC (Some (mkChildNs (S "x") tOVS None
                                         [mkChildIf (S "p") tSharedPort None])))) supply) = true.
Proof. exact ex_ids_fresh. Qed.

(* C09 - a topology operation that fails leaves the model unchanged.
   Only statements; each is closed by `exact` of a lemma from Proofs/T9*.v.  The operations are the monadic
   programs of Model/T9Ops.v (transcriptions of fim/user/*.py and of the add_*_sliver / remove_* methods of
   fim/graph/abc_property_graph.py that keep the order of checks and primitive graph mutations; effects before
   a raise stay in the state).  `sg` is the graph component of the state, `sfresh` the uuid supply.

   The FULL statement of the property
       forall op g g' e,  run op g = (g', Err e)  ->  g' = g
   is FALSE of the faithful model for four of the seven modelled calls (the code violates the property):
   the `_refuted` theorems exhibit witnesses (replayed on the real code on every run), the `_partial`
   theorems carry the hypothesis that excludes exactly the defect. *)
From Coq Require Import List NArith Bool String.
From FIM Require Import Base.Str Gen.T9Names Model.T9Graph Model.T9Ops Model.T9Check
     Proofs.T9Monad Proofs.T9Simple Proofs.T9Ext Proofs.T9Connect Proofs.T9Refuted Proofs.T9Atomic
     Proofs.T9Component Proofs.T9CompFresh.
Import ListNotations.
Open Scope N_scope.

(* the translator recognised every NAME_REGEX (fail-closed flag) *)
Theorem C09_names_translated : t9_gen_ok = true.
Proof. exact names_translated. Qed.
Print Assumptions C09_names_translated.

(* ---- validate-before-mutate: element constructors whose checks all precede the mutation.
   For EVERY state, flavour and argument: if the call raises (any exception), the graph is unchanged. *)
Theorem C09_add_node_atomic : forall fl name node_id ntype pure s s' e,
  op_add_node fl name node_id ntype pure s = (s', Err e) -> sg s' = sg s.
Proof. exact add_node_atomic_all. Qed.
Print Assumptions C09_add_node_atomic.
Example C09_add_node_atomic_ex :
  let r := op_add_node Experiment (S "n1") None (Some tVM) None (mkSt g_two_nodes supply) in
  snd r = Err ETopology /\ sg (fst r) = g_two_nodes.
Proof. exact ex_add_node_dup. Qed.

Theorem C09_add_node_service_atomic : forall fl pn name node_id nstype pure s s' e,
  op_add_node_service fl pn name node_id nstype pure s = (s', Err e) -> sg s' = sg s.
Proof. exact add_node_service_atomic_all. Qed.
Print Assumptions C09_add_node_service_atomic.

Theorem C09_add_interface_atomic : forall fl ns name node_id itype pure s s' e,
  op_add_interface fl ns name node_id itype pure s = (s', Err e) -> sg s' = sg s.
Proof. exact add_interface_atomic_all. Qed.
Print Assumptions C09_add_interface_atomic.

(* ---- the service constructor's rollback (network_service.py:100-115).
   For every well-formed graph, every list of interface handles (each a ConnectionPoint of the graph or a
   stale handle), whichever element of the list is the rejected one and for whatever reason the code
   reports as TopologyException (not owned by a node, already connected - also by an earlier element of the
   same list -, shared port on L2PTP, substrate flavour, missing service type): the graph is unchanged. *)
Theorem C09_service_rollback : forall fl name node_id nstype ifs pure g fresh s',
  wf_graph g = true -> ifaces_typed g ifs = true -> supply_apart node_id fresh ifs = true ->
  op_add_service fl name node_id nstype ifs pure (mkSt g fresh) = (s', Err ETopology) ->
  sg s' = g.
Proof. exact service_rollback. Qed.
Print Assumptions C09_service_rollback.
Example C09_service_rollback_ex_hyps :
  wf_graph g_two_nodes = true /\ ifaces_typed g_two_nodes ex_ifs = true /\ supply_apart None supply ex_ifs = true.
Proof. exact ex_service_rollback_hyps. Qed.
Example C09_service_rollback_ex_runs :
  let r := op_add_service Experiment (S "s1") None (Some tL2Bridge) ex_ifs None (mkSt g_two_nodes supply) in
  snd r = Err ETopology /\ sg (fst r) = g_two_nodes /\ List.length (sfresh (fst r)) = 3%nat.
Proof. exact ex_service_rollback_runs. Qed.
Example C09_service_ok_ex :
  let r := op_add_service Experiment (S "s1") None (Some tL2Bridge) (firstn 2 ex_ifs) None (mkSt g_two_nodes supply) in
  snd r = Ok 50 /\ List.length (gnodes (sg (fst r))) = 14%nat.
Proof. exact ex_service_ok. Qed.

(* FULL statement for the service constructor (any exception) - FALSE: the handler catches
   TopologyException only.
     forall ..., wf_graph g = true -> ifaces_typed g ifs = true -> supply_apart node_id fresh ifs = true ->
       op_add_service fl name node_id nstype ifs pure (mkSt g fresh) = (s', Err e) -> sg s' = g        *)
Theorem C09_service_atomic_refuted_stale_handle :
  exists fl name nid ty ifs pure g fresh s',
    wf_graph g = true /\ op_add_service fl name nid ty ifs pure (mkSt g fresh) = (s', Err EQuery) /\ sg s' <> g.
Proof. exact service_atomic_refuted_query. Qed.
Print Assumptions C09_service_atomic_refuted_stale_handle.

Theorem C09_service_atomic_refuted_long_name :
  exists fl name nid ty ifs pure g fresh s',
    wf_graph g = true /\ op_add_service fl name nid ty ifs pure (mkSt g fresh) = (s', Err EValue) /\ sg s' <> g.
Proof. exact service_atomic_refuted_value. Qed.
Print Assumptions C09_service_atomic_refuted_long_name.

(* ---- Topology.add_link: the Link node is added before its edges *)
Theorem C09_add_link_atomic_refuted :
  exists fl name nid lt ifs pure g fresh s' e,
    wf_graph g = true /\ op_add_link fl name nid lt ifs pure (mkSt g fresh) = (s', Err e) /\ sg s' <> g.
Proof. exact add_link_atomic_refuted. Qed.
Print Assumptions C09_add_link_atomic_refuted.

(* ... atomic when every interface handle names a node of the graph (no stale handle) *)
Theorem C09_add_link_atomic_partial : forall fl name node_id ltype ifs pure s s' e,
  (forall l, ifs = Some l -> ifaces_exist (sg s) l) ->
  op_add_link fl name node_id ltype ifs pure s = (s', Err e) -> sg s' = sg s.
Proof. exact add_link_atomic_existing. Qed.
Print Assumptions C09_add_link_atomic_partial.
Example C09_add_link_atomic_partial_ex :
  ifaces_exist g_two_nodes [mkIface 4 (S "nic1-p1"); mkIface 8 (S "nic1-p1")].
Proof. exact ex_add_link_ok_hyp. Qed.

(* ---- Node.add_component: composite sliver adder, duplicate caller-supplied child ids are found late *)
Theorem C09_add_component_atomic_refuted :
  exists fl pn name nid a b c cat pure g fresh s' e,
    wf_graph g = true /\ op_add_component fl pn name nid a b c cat pure (mkSt g fresh) = (s', Err e) /\ sg s' <> g.
Proof. exact add_component_atomic_refuted. Qed.
Print Assumptions C09_add_component_atomic_refuted.

(* ... atomic for every failure that is not a PropertyGraphQueryException: duplicate component name, unknown
   component model (CatalogException), invalid property among valid ones, missing model or ids, wrong number
   of ids (RuntimeError) - for every state and every argument *)
Theorem C09_add_component_atomic_nonquery_partial :
  forall fl pn name node_id spec_given nic sub_ids cat pure s s' e,
  op_add_component fl pn name node_id spec_given nic sub_ids cat pure s = (s', Err e) ->
  e <> EQuery -> sg s' = sg s.
Proof. exact add_component_atomic_nonquery. Qed.
Print Assumptions C09_add_component_atomic_nonquery_partial.
Example C09_add_component_unknown_model_ex :
  let r := op_add_component Experiment 1 (S "x1") None true true false (Err ECatalog) None (mkSt g_two_nodes supply) in
  snd r = Err ECatalog /\ sg (fst r) = g_two_nodes.
Proof. exact ex_component_unknown_model. Qed.
Example C09_add_component_ok_ex :
  let r := op_add_component Experiment 1 (S "nic2") None true false false
             (Ok (mkCompSpec tNIC (Some (mkChildNs (S "n1-nic2-l2ovs") tOVS None [mkChildIf (S "nic2-p1") tSharedPort None]))))
             None (mkSt g_two_nodes supply) in
  snd r = Ok 50 /\ List.length (gnodes (sg (fst r))) = 12%nat.
Proof. exact ex_component_ok. Qed.

(* ... and atomic for EVERY exception when the ids the call is going to use (caller-supplied or drawn, in the
   order component, interfaces, service) are pairwise distinct and not in the graph - the hypothesis that
   excludes exactly the witness above *)
Theorem C09_add_component_atomic_partial :
  forall fl pn name node_id spec_given nic sub_ids cat pure g fresh s' e,
  ids_fresh g (component_ids node_id cat fresh) = true ->
  op_add_component fl pn name node_id spec_given nic sub_ids cat pure (mkSt g fresh) = (s', Err e) ->
  sg s' = g.
Proof. exact add_component_atomic_fresh. Qed.
Print Assumptions C09_add_component_atomic_partial.
Example C09_add_component_atomic_partial_ex :
  ids_fresh g_two_nodes (component_ids (Some 20) (Ok (spec_smartnic 21 22 23)) supply) = true /\
  ids_fresh g_two_nodes (component_ids (Some 20) (Ok (spec_smartnic 21 22 22)) supply) = false /\
  ids_fresh g_two_nodes (component_ids None (Ok (mkCompSpec tNIC (Some (mkChildNs (S "x") tOVS None
                                         [mkChildIf (S "p") tSharedPort None])))) supply) = true.
Proof. exact ex_ids_fresh. Qed.

(* ---- Topology.add_facility: node, service, ports in three steps without rollback *)
Theorem C09_add_facility_atomic_refuted :
  exists fl name nid dns dint dk ty pns ports ps g fresh s' e,
    wf_graph g = true /\ op_add_facility fl name nid dns dint dk ty pns ports ps (mkSt g fresh) = (s', Err e) /\ sg s' <> g.
Proof. exact add_facility_atomic_refuted. Qed.
Print Assumptions C09_add_facility_atomic_refuted.

(* ... atomic when it is the facility node itself that is rejected (duplicate name or id, invalid name,
   missing id in a substrate topology) *)
Theorem C09_add_facility_atomic_partial :
  forall fl name node_id d_ns d_int d_intk nstype pure_ns ports pure_single s s' e,
  op_add_facility fl name node_id d_ns d_int d_intk nstype pure_ns ports pure_single s = (s', Err e) ->
  (forall s1 id, op_add_node fl name node_id (Some tFacility) None s <> (s1, Ok id)) ->
  sg s' = sg s.
Proof. exact add_facility_first_step. Qed.
Print Assumptions C09_add_facility_atomic_partial.

(* ---- Topology.add_switch: same structure as add_facility *)
Theorem C09_add_switch_atomic_refuted :
  exists fl name nid dns dk ty pns np pp g fresh s' e,
    wf_graph g = true /\ op_add_switch fl name nid dns dk ty pns np pp (mkSt g fresh) = (s', Err e) /\ sg s' <> g.
Proof. exact add_switch_atomic_refuted. Qed.
Print Assumptions C09_add_switch_atomic_refuted.

Theorem C09_add_switch_atomic_partial :
  forall fl name node_id d_ns d_intk nstype pure_ns nports pure_port s s' e,
  op_add_switch fl name node_id d_ns d_intk nstype pure_ns nports pure_port s = (s', Err e) ->
  (forall s1 id, op_add_node fl name node_id (Some tSwitch) None s <> (s1, Ok id)) ->
  sg s' = sg s.
Proof. exact add_switch_first_step. Qed.
Print Assumptions C09_add_switch_atomic_partial.
Example C09_add_switch_ok_ex :
  let r := op_add_switch Experiment (S "sw1") None 0 [] tVLAN None 2 None (mkSt g_two_nodes supply) in
  snd r = Ok 50 /\ List.length (gnodes (sg (fst r))) = 13%nat.
Proof. exact ex_switch_ok. Qed.

(* ---- NetworkService.peer: port on this service, port on the other service, link - no rollback; the refusal
   of the second step is even reported as TopologyException *)
Theorem C09_peer_atomic_refuted :
  exists fl a b pure g fresh s',
    wf_graph g = true /\ op_peer fl a b pure (mkSt g fresh) = (s', Err ETopology) /\ sg s' <> g.
Proof. exact peer_atomic_refuted. Qed.
Print Assumptions C09_peer_atomic_refuted.

(* ... atomic when the first step (the port on the calling service: duplicate name, name too long, invalid
   property, substrate topology) is the one refused *)
Theorem C09_peer_atomic_partial : forall fl a b pure s s' e,
  op_peer fl a b pure s = (s', Err e) ->
  (forall an bn ca s1 id, node_name (sg s) a = Ok an -> node_name (sg s) b = Ok bn ->
       service_iface_names (sg s) a = Ok ca ->
       add_interface_cached fl a ca (an ++ dash ++ bn) None (Some tServicePort) pure s <> (s1, Ok id)) ->
  sg s' = sg s.
Proof. exact peer_first_step. Qed.
Print Assumptions C09_peer_atomic_partial.
Example C09_peer_ok_ex :
  let r := op_peer Experiment 30 31 None (mkSt (mkGraph (firstn 2 (gnodes g_two_services)) []) supply) in
  snd r = Ok tt /\ List.length (gnodes (sg (fst r))) = 5%nat /\ List.length (gedges (sg (fst r))) = 4%nat.
Proof. exact ex_peer_ok. Qed.

(* C14 - combined broker model: merge is order-independent and unmerge is its inverse.
   Only statements; each is closed by `exact` of a lemma from Proofs/Cbm14*.v.
   The statements are about the abstract combined model of Model/Cbm14Spec.v (finite map NodeID -> class,
   properties, contributors, delegations keyed by contributor; finite map of connections; smerge / sunmerge;
   histories hstep / hrun with snapshots).  Both that model and the store-level transcription of
   merge_adm / _update_node_delegations / unmerge_adm / snapshot / rollback (Model/Cbm14Store.v) are compared
   with the real code on every run (harness/c14.py, Model/Cbm14Check.v, Model/Cbm14SpecCheck.v).
   eqv: same elements, class, properties and delegations, contributors as a set, same connections. *)
From Coq Require Import List NArith Bool Permutation.
From FIM Require Import Model.Cbm14Spec Proofs.Cbm14Assoc Proofs.Cbm14Merge Proofs.Cbm14Unmerge Proofs.Cbm14Inv
     Proofs.Cbm14Hist Proofs.Cbm14Dec.
From FIM Require Gen.Cbm14Gen.
From FIM Require Model.Cbm14Store Model.Cbm14Check Model.Cbm14Abs Proofs.Cbm14Frame Proofs.Cbm14RefBase Proofs.Cbm14RefMerge
     Proofs.Cbm14RefUnmerge Proofs.Cbm14RefSnap Proofs.Cbm14RefHist Proofs.Cbm14RefOrder
     Proofs.Cbm14RefEdge Proofs.Cbm14RefEdgeMerge Proofs.Cbm14RefEdgeOps Proofs.Cbm14RefFull
     Proofs.Cbm14Refusal.
Import ListNotations.
Open Scope N_scope.

(* ---- what one merge does, element by element: union; shared elements once; combined model's data kept;
   contributor appended; delegation taken from whichever side has one, keyed by the merged model's id ---- *)
Theorem C14_merge_elementwise : forall C A C' k,
  smerge C A = Some C' ->
  getn k (nodes C') =
  match getn k (nodes C), getn k (adm_nodes A) with
  | Some c, Some a => Some (upd (adm_id A) a c)
  | Some c, None => Some c
  | None, Some a => Some (stamp (adm_id A) a)
  | None, None => None
  end.
Proof. exact smerge_get_node. Qed.
Print Assumptions C14_merge_elementwise.

Theorem C14_merge_connections : forall C A C' e,
  smerge C A = Some C' ->
  gete e (edges C') =
  match gete e (edges C), gete e (adm_edges A) with
  | Some d, _ => Some d
  | None, Some d => Some d
  | None, None => None
  end.
Proof. exact smerge_get_edge. Qed.
Print Assumptions C14_merge_connections.

Theorem C14_shared_elements_once : forall C A C',
  wf_adm A -> nodup_keys C -> smerge C A = Some C' -> nodup_keys C'.
Proof. exact smerge_nodup. Qed.
Print Assumptions C14_shared_elements_once.

(* only one delegation model may speak for a resource: the merge is refused *)
Theorem C14_double_speaker_rejected : forall C A k c a,
  getn k (nodes C) = Some c -> In (k, a) (adm_nodes A) -> clash c a = true -> smerge C A = None.
Proof. exact double_speaker_rejected. Qed.
Print Assumptions C14_double_speaker_rejected.

(* ---- families: merging As left to right from the empty combined model ---- *)
(* element set = union, every element once, contributors EXACTLY the merged models having the element,
   delegations keyed by the contributor that supplied them, no dangling connection *)
Theorem C14_family_invariant : forall As C,
  Forall wf_adm As -> NoDup (map adm_id As) -> merge_all As = Some C ->
  nodup_keys C /\ all_alive C /\ no_dangling C /\ NoDup (map adm_id As) /\ Forall wf_adm As /\
  contributors_exact As C /\ keyed_by As C.
Proof. exact family_inv. Qed.
Print Assumptions C14_family_invariant.

(* connections = union of the families' connections, each with the data of a member; class and plain
   properties of every element are those of a member *)
Theorem C14_family_union : forall As C, merge_all As = Some C -> from_family As C.
Proof. exact family_union. Qed.
Print Assumptions C14_family_union.

Theorem C14_family_never_refused : forall As,
  Forall wf_adm As -> consistent As -> exists C, merge_all As = Some C.
Proof. exact family_total. Qed.
Print Assumptions C14_family_never_refused.

(* ---- order independence: any permutation of a family of pairwise compatible models, merged into any
   combined model C, is accepted as well and gives an equivalent result ---- *)
Theorem C14_order_independent : forall As As',
  Permutation As As' ->
  forall C D, Forall wf_adm As -> pairwise_compatible As -> merge_from C As = Some D ->
  exists D', merge_from C As' = Some D' /\ eqv D D'.
Proof. exact merge_from_perm. Qed.
Print Assumptions C14_order_independent.

(* the hypothesis is needed: FULL statement without `pairwise_compatible` is FALSE of the model and of the code
   (known finding F4; the repository's own four site/network advertisements describe their common nodes
   differently, so their combined model depends on the merge order) *)
Theorem C14_order_independent_refuted :
  exists A B C C', wf_adm A /\ wf_adm B /\ one_speaker A B /\
                   merge_all [A; B] = Some C /\ merge_all [B; A] = Some C' /\ ~ eqv C C'.
Proof. exact order_dependent_refuted. Qed.
Print Assumptions C14_order_independent_refuted.

(* ---- unmerge is the inverse of merge ----
   FULL statement (the property as written):
     wf_cbm C -> wf_adm A -> not_contributor (adm_id A) C -> smerge C A = Some C' -> eqv (sunmerge C' (adm_id A)) C
   It is FALSE of the faithful model and of the code (witness replayed on the implementation by the harness,
   known finding F2): connections carry no contributor record *)
Theorem C14_unmerge_inverse_edge_refuted :
  exists C A C', wf_cbm C /\ wf_adm A /\ not_contributor (adm_id A) C /\
                 smerge C A = Some C' /\ ~ eqv (sunmerge C' (adm_id A)) C.
Proof. exact unmerge_inverse_edge_refuted. Qed.
Print Assumptions C14_unmerge_inverse_edge_refuted.

(* partial: the merged model brings no connection between two elements already present - then unmerge restores
   the previous combined model *)
Theorem C14_unmerge_inverse_partial : forall C A C',
  wf_cbm C -> wf_adm A -> not_contributor (adm_id A) C -> no_new_inner_edges C A ->
  smerge C A = Some C' -> eqv (sunmerge C' (adm_id A)) C.
Proof. exact unmerge_inverse. Qed.
Print Assumptions C14_unmerge_inverse_partial.

(* ---- all histories of merge / unmerge / snapshot / rollback: the current combined model and every saved
   snapshot satisfy the invariant w.r.t. the delegation models currently merged (h_ms) ---- *)
Theorem C14_history_invariant : forall ops, Forall op_wf ops -> HInv (hrun hinit ops).
Proof. exact hinv_all. Qed.
Print Assumptions C14_history_invariant.

(* the invariant supplies the hypotheses of the unmerge theorems in every reachable state *)
Theorem C14_reachable_wf : forall Ms C, Inv Ms C -> wf_cbm C.
Proof. exact Inv_wf_cbm. Qed.
Print Assumptions C14_reachable_wf.

Theorem C14_reachable_not_contributor : forall Ms C g, Inv Ms C -> ~ In g (map adm_id Ms) -> not_contributor g C.
Proof. exact Inv_not_contributor. Qed.
Print Assumptions C14_reachable_not_contributor.

(* ---- rollback: after a snapshot and any operations that do not use that snapshot id - merges, unmerges,
   FURTHER snapshots under other ids and rollbacks to those - rolling back restores the combined model (and the
   record of what is merged) exactly; so with several snapshots outstanding each rollback gives the model of its own
   snapshot, in whatever order they are consumed (C14_ex_two_snapshots) ---- *)
Theorem C14_rollback : forall s id ops,
  hasn id (h_snaps s) = false ->
  forallb (fun o => negb (touches id o)) ops = true ->
  let s' := hstep (hrun (hstep s (HSnap id)) ops) (HRollback id) in
  h_cur s' = h_cur s /\ h_ms s' = h_ms s.
Proof. exact rollback_restores. Qed.
Print Assumptions C14_rollback.

(* ---- STORE LEVEL (Model/Cbm14Store.v, the transcription of the code over the shared in-memory store):
   merging does not alter the source models - nor any other graph of the store, e.g. the snapshots.
   For every history of merge_adm / unmerge_adm / snapshot / rollback on the combined graph cbm and every graph g
   that is none of the graphs the operations work on (cbm itself, the temporary / snapshot id an operation
   creates, the snapshot a rollback consumes), the nodes of g with all their properties, and g's canonical view
   (nodes + connections), are unchanged.  Good g st: internal ids unique and below start_id, no connection
   leaves g (decidable: goodb, checked on the initial store of every correspondence case). ---- *)
Theorem C14_sources_untouched : forall g cbm ops st st',
  Cbm14Frame.Good g st -> Forall (Cbm14Frame.outside cbm g) ops -> Cbm14Frame.run cbm st ops = Some st' ->
  Cbm14Store.view_of g st' = Cbm14Store.view_of g st /\ Cbm14Store.of_gid g st' = Cbm14Store.of_gid g st /\
  Cbm14Frame.Good g st'.
Proof. exact Cbm14Frame.history_frame. Qed.
Print Assumptions C14_sources_untouched.

Theorem C14_store_invariant_decidable : forall g st, Cbm14Store.goodb g st = true -> Cbm14Frame.Good g st.
Proof. exact Cbm14Frame.goodb_sound. Qed.
Print Assumptions C14_store_invariant_decidable.

(* ---- REFINEMENT (node part): the store-level transcription does to the nodes of the combined graph exactly
   what the abstract model does.  Abstraction (Model/Cbm14Abs.v): abs_nodes g st = the nodes of graph g keyed by
   NodeID with class, plain properties, contributors read from adm_graph_ids, delegations read from the two
   delegation properties; abs_adm_nodes for a source model.  Invariant: J (internal ids unique and below
   start_id, (GraphID, NodeID) unique) and cbm_ok (nodes of the combined graph well-formed, contributors
   recorded once, at least one) - decidable for the initial store (rgoodb, evaluated on every correspondence case).
   (The FULL statements with the connections are C14_merge_refines, C14_unmerge_refines, C14_snapshot_refines,
   C14_rollback_refines and C14_store_simulates below; the node-only versions are kept because they need fewer
   hypotheses.)  Full statements:
     merge_adm cbm adm tmp st = OOk st' -> exists C', smerge (abs_cbm cbm st) (abs_adm adm st) = Some C' /\ eqv (abs_cbm cbm st') C'
   and likewise unmerge_adm / sunmerge, snapshot, rollback.  What IS proved is the same with abs_nodes / nodes
   in place of abs_cbm (hence `_nodes_partial`); refusal is explicit: the store model returning normally implies
   the abstract merge is not refused (a double speaker makes both refuse). ---- *)
Theorem C14_merge_refines_nodes_partial : forall cbm adm tmp st st',
  Cbm14RefBase.J (Cbm14Store.s_next st) (Cbm14Store.s_nodes st) -> Cbm14RefBase.cbm_wf cbm (Cbm14Store.s_nodes st) ->
  cbm <> tmp -> adm <> cbm -> Cbm14Store.gexists tmp st = false ->
  Cbm14Store.merge_adm cbm adm tmp st = Cbm14Store.OOk st' ->
  conflict (Cbm14Abs.abs_cbm cbm st) (Cbm14Abs.abs_adm adm st) = false /\
  (forall k, getn k (Cbm14Abs.abs_nodes cbm st') =
             getn k (merge_nodes adm (Cbm14Abs.abs_nodes cbm st) (Cbm14Abs.abs_adm_nodes adm st))) /\
  Cbm14RefBase.J (Cbm14Store.s_next st') (Cbm14Store.s_nodes st') /\ Cbm14RefBase.cbm_wf cbm (Cbm14Store.s_nodes st') /\
  (forall g k, g <> cbm -> g <> tmp ->
               Cbm14RefBase.at_ g k (Cbm14Store.s_nodes st') = Cbm14RefBase.at_ g k (Cbm14Store.s_nodes st)) /\
  (forall k, Cbm14RefBase.at_ tmp k (Cbm14Store.s_nodes st') = None).
Proof. exact Cbm14RefMerge.merge_refines_nodes. Qed.
Print Assumptions C14_merge_refines_nodes_partial.

(* ---- FULL refinement for merge_adm (nodes AND connections): whenever the store model returns normally the abstract
   merge is accepted and the abstraction of the resulting combined graph is the abstract result - same lookup for
   every NodeID and for every connection key, hence eqv.  Extra hypotheses: connection ids below start_id (ebelow,
   part of goodb) and no self-loop in the merged source.  "An existing connection wins" (contracted_nodes keeps the
   combined graph's connection and drops the image's) is the invariant EI of Proofs/Cbm14RefEdgeLoop.v. ---- *)
Theorem C14_merge_refines : forall cbm adm tmp st st',
  Cbm14RefBase.J (Cbm14Store.s_next st) (Cbm14Store.s_nodes st) ->
  Cbm14Frame.ebelow (Cbm14Store.s_next st) (Cbm14Store.s_edges st) ->
  Cbm14RefBase.cbm_wf cbm (Cbm14Store.s_nodes st) ->
  cbm <> tmp -> adm <> cbm -> Cbm14Store.gexists tmp st = false ->
  (forall n, In n (Cbm14Store.of_gid adm st) ->
             Cbm14RefEdge.edat (Cbm14Store.s_edges st) (Cbm14Store.n_int n) (Cbm14Store.n_int n) = None) ->
  Cbm14Store.merge_adm cbm adm tmp st = Cbm14Store.OOk st' ->
  exists C', smerge (Cbm14Abs.abs_cbm cbm st) (Cbm14Abs.abs_adm adm st) = Some C' /\
             (forall k, getn k (nodes (Cbm14Abs.abs_cbm cbm st')) = getn k (nodes C')) /\
             (forall e, gete e (edges (Cbm14Abs.abs_cbm cbm st')) = gete e (edges C')) /\
             eqv (Cbm14Abs.abs_cbm cbm st') C'.
Proof. exact Cbm14RefEdgeMerge.merge_refines. Qed.
Print Assumptions C14_merge_refines.

Theorem C14_unmerge_refines_nodes_partial : forall cbm g st,
  Cbm14RefBase.J (Cbm14Store.s_next st) (Cbm14Store.s_nodes st) -> Cbm14RefUnmerge.cbm_ok cbm (Cbm14Store.s_nodes st) ->
  Cbm14Store.gexists cbm st = true ->
  exists st', Cbm14Store.unmerge_adm cbm g st = Cbm14Store.OOk st' /\
    (forall k, getn k (Cbm14Abs.abs_nodes cbm st') = getn k (nodes (sunmerge (Cbm14Abs.abs_cbm cbm st) g))) /\
    Cbm14RefBase.J (Cbm14Store.s_next st') (Cbm14Store.s_nodes st') /\ Cbm14RefUnmerge.cbm_ok cbm (Cbm14Store.s_nodes st') /\
    (forall h k, h <> cbm -> Cbm14RefBase.at_ h k (Cbm14Store.s_nodes st') = Cbm14RefBase.at_ h k (Cbm14Store.s_nodes st)).
Proof. exact Cbm14RefUnmerge.unmerge_refines_nodes. Qed.
Print Assumptions C14_unmerge_refines_nodes_partial.

Theorem C14_snapshot_refines_nodes_partial : forall cbm new st,
  Cbm14RefBase.J (Cbm14Store.s_next st) (Cbm14Store.s_nodes st) ->
  Cbm14Store.gexists cbm st = true -> Cbm14Store.gexists new st = false ->
  exists st', Cbm14Store.snapshot cbm new st = Cbm14Store.OOk st' /\
    (forall k, getn k (Cbm14Abs.abs_nodes new st') = getn k (Cbm14Abs.abs_nodes cbm st)) /\
    (forall h k, h <> new -> Cbm14RefBase.at_ h k (Cbm14Store.s_nodes st') = Cbm14RefBase.at_ h k (Cbm14Store.s_nodes st)) /\
    Cbm14RefBase.J (Cbm14Store.s_next st') (Cbm14Store.s_nodes st') /\
    (Cbm14RefUnmerge.cbm_ok cbm (Cbm14Store.s_nodes st) -> Cbm14RefUnmerge.cbm_ok new (Cbm14Store.s_nodes st')).
Proof. exact Cbm14RefSnap.snapshot_refines_nodes. Qed.
Print Assumptions C14_snapshot_refines_nodes_partial.

Theorem C14_rollback_refines_nodes_partial : forall cbm sid st,
  Cbm14RefBase.J (Cbm14Store.s_next st) (Cbm14Store.s_nodes st) -> sid <> cbm -> Cbm14Store.gexists sid st = true ->
  exists st', Cbm14Store.rollback cbm sid st = Cbm14Store.OOk st' /\
    (forall k, getn k (Cbm14Abs.abs_nodes cbm st') = getn k (Cbm14Abs.abs_nodes sid st)) /\
    (forall h k, h <> cbm -> h <> sid ->
                 Cbm14RefBase.at_ h k (Cbm14Store.s_nodes st') = Cbm14RefBase.at_ h k (Cbm14Store.s_nodes st)) /\
    (forall k, Cbm14RefBase.at_ sid k (Cbm14Store.s_nodes st') = None) /\
    Cbm14RefBase.J (Cbm14Store.s_next st') (Cbm14Store.s_nodes st') /\
    (Cbm14RefUnmerge.cbm_ok sid (Cbm14Store.s_nodes st) -> Cbm14RefUnmerge.cbm_ok cbm (Cbm14Store.s_nodes st')).
Proof. exact Cbm14RefSnap.rollback_refines_nodes. Qed.
Print Assumptions C14_rollback_refines_nodes_partial.

(* ---- simulation for whole histories (node projection of the abstract model: merged models enter without their
   connections): running the store model and the abstract model side by side over any history whose operations are
   in the documented domain when executed (pre_run: fresh temporary / snapshot ids, the merged model is not
   merged already, unmerge / snapshot of a non-empty combined graph, rollback to a live snapshot) keeps them
   related (NSim: same nodes of the combined graph and of every live snapshot, abstract invariant HInv) ---- *)
Theorem C14_store_simulates_nodes_partial : forall cbm ops st hs st' hs',
  Cbm14RefHist.NSim cbm st hs -> Cbm14RefHist.pre_run cbm st hs ops ->
  Cbm14RefHist.sim_run cbm st hs ops = Some (st', hs') ->
  Cbm14RefHist.NSim cbm st' hs' /\ hs' = hrun hs (Cbm14RefHist.hops_run cbm st ops).
Proof. exact Cbm14RefHist.nsim_run. Qed.
Print Assumptions C14_store_simulates_nodes_partial.

Theorem C14_store_simulation_starts : forall cbm st,
  Cbm14RefBase.J (Cbm14Store.s_next st) (Cbm14Store.s_nodes st) -> Cbm14Store.gexists cbm st = false ->
  Cbm14RefHist.NSim cbm st hinit.
Proof. exact Cbm14RefHist.nsim_init. Qed.
Print Assumptions C14_store_simulation_starts.

Theorem C14_refinement_invariant_decidable : forall cbm st,
  Cbm14Abs.rgoodb cbm st = true ->
  Cbm14RefBase.J (Cbm14Store.s_next st) (Cbm14Store.s_nodes st) /\ Cbm14RefBase.cbm_wf cbm (Cbm14Store.s_nodes st).
Proof. exact Cbm14RefBase.rgoodb_sound. Qed.
Print Assumptions C14_refinement_invariant_decidable.

(* ---- the abstract theorems, transferred to the STORE level (nodes of the combined graph), in every state
   reachable by such a history (NSim cbm st hs; h_ms hs = the abstractions of the models currently merged) ---- *)
Theorem C14_store_contributors_exact : forall cbm st hs, Cbm14RefHist.NSim cbm st hs -> forall k n g,
  Cbm14RefBase.at_ cbm k (Cbm14Store.s_nodes st) = Some n ->
  (In g (Cbm14Abs.abs_con (Cbm14Store.n_si n)) <->
   exists A, In A (h_ms hs) /\ adm_id A = g /\ hasn k (adm_nodes A) = true).
Proof. exact Cbm14RefHist.store_contributors_exact. Qed.
Print Assumptions C14_store_contributors_exact.

Theorem C14_store_union : forall cbm st hs, Cbm14RefHist.NSim cbm st hs -> forall k,
  (exists n, Cbm14RefBase.at_ cbm k (Cbm14Store.s_nodes st) = Some n) <->
  exists A, In A (h_ms hs) /\ hasn k (adm_nodes A) = true.
Proof. exact Cbm14RefHist.store_union. Qed.
Print Assumptions C14_store_union.

Theorem C14_store_delegations_keyed : forall cbm st hs, Cbm14RefHist.NSim cbm st hs -> forall k n g x,
  Cbm14RefBase.at_ cbm k (Cbm14Store.s_nodes st) = Some n ->
  (Cbm14Abs.abs_del (Cbm14Store.n_ld n) = Some (g, x) ->
     exists A a, In A (h_ms hs) /\ adm_id A = g /\ getn k (adm_nodes A) = Some a /\ a_ld a = Some x) /\
  (Cbm14Abs.abs_del (Cbm14Store.n_cd n) = Some (g, x) ->
     exists A a, In A (h_ms hs) /\ adm_id A = g /\ getn k (adm_nodes A) = Some a /\ a_cd a = Some x).
Proof. exact Cbm14RefHist.store_delegations_keyed. Qed.
Print Assumptions C14_store_delegations_keyed.

Theorem C14_store_shared_once : forall cbm st hs, Cbm14RefHist.NSim cbm st hs ->
  NoDup (map Cbm14Store.n_nid (Cbm14Store.of_gid cbm st)).
Proof. exact Cbm14RefHist.store_shared_once. Qed.
Print Assumptions C14_store_shared_once.

(* merge_adm followed by unmerge_adm of the same model restores every node of the combined graph *)
Theorem C14_store_unmerge_inverse_nodes_partial : forall cbm adm tmp st hs st1 st2,
  Cbm14RefHist.NSim cbm st hs -> Cbm14RefHist.pre cbm (Cbm14Check.OpMerge adm tmp) st hs ->
  Cbm14Store.merge_adm cbm adm tmp st = Cbm14Store.OOk st1 -> Cbm14Store.unmerge_adm cbm adm st1 = Cbm14Store.OOk st2 ->
  forall k, getn k (Cbm14Abs.abs_nodes cbm st2) = getn k (Cbm14Abs.abs_nodes cbm st).
Proof. exact Cbm14RefHist.store_unmerge_inverse_nodes. Qed.
Print Assumptions C14_store_unmerge_inverse_nodes_partial.

(* snapshot; any operations not using that snapshot id (incl. further snapshots and rollbacks to them); rollback:
   every node of the combined graph is as it was *)
Theorem C14_store_rollback_nodes_partial : forall cbm id mid st hs st' hs',
  Cbm14RefHist.NSim cbm st hs ->
  Cbm14RefHist.pre_run cbm st hs (Cbm14Check.OpSnap id :: mid ++ [Cbm14Check.OpRollback id]) ->
  Cbm14RefHist.sim_run cbm st hs (Cbm14Check.OpSnap id :: mid ++ [Cbm14Check.OpRollback id]) = Some (st', hs') ->
  forallb (fun o => negb (Cbm14RefHist.otouches id o)) mid = true ->
  forall k, getn k (Cbm14Abs.abs_nodes cbm st') = getn k (Cbm14Abs.abs_nodes cbm st).
Proof. exact Cbm14RefHist.store_rollback_nodes. Qed.
Print Assumptions C14_store_rollback_nodes_partial.

(* merging the same delegation models in two orders (each merge under its own fresh temporary id) gives combined
   graphs with equivalent nodes; the sources must satisfy the frame invariant Good (decidable: goodb) and be
   pairwise compatible (the abstract hypothesis of C14_order_independent, on their abstractions) *)
Theorem C14_store_order_independent_nodes_partial : forall cbm st hs l1 l2 st1 hs1 st2 hs2,
  Cbm14RefHist.NSim cbm st hs ->
  Permutation (map fst l1) (map fst l2) -> ~ In cbm (map fst l1) ->
  (forall a, In a (map fst l1) -> Cbm14Store.gexists a st = true /\ Cbm14Frame.Good a st) ->
  pairwise_compatible (Cbm14RefOrder.adms_of st l1) ->
  Cbm14RefHist.pre_run cbm st hs (Cbm14RefOrder.mops l1) ->
  Cbm14RefHist.sim_run cbm st hs (Cbm14RefOrder.mops l1) = Some (st1, hs1) ->
  Cbm14RefHist.pre_run cbm st hs (Cbm14RefOrder.mops l2) ->
  Cbm14RefHist.sim_run cbm st hs (Cbm14RefOrder.mops l2) = Some (st2, hs2) ->
  forall k, opt_rel eqv_node (getn k (Cbm14Abs.abs_nodes cbm st1)) (getn k (Cbm14Abs.abs_nodes cbm st2)).
Proof. exact Cbm14RefOrder.store_order_independent_nodes. Qed.
Print Assumptions C14_store_order_independent_nodes_partial.

(* ---- FULL refinement for the other operations and for whole histories (nodes AND connections) ---- *)
Theorem C14_unmerge_refines : forall cbm g st,
  Cbm14RefBase.J (Cbm14Store.s_next st) (Cbm14Store.s_nodes st) ->
  Cbm14Frame.ebelow (Cbm14Store.s_next st) (Cbm14Store.s_edges st) ->
  Cbm14RefUnmerge.cbm_ok cbm (Cbm14Store.s_nodes st) -> Cbm14Store.gexists cbm st = true ->
  exists st', Cbm14Store.unmerge_adm cbm g st = Cbm14Store.OOk st' /\
              eqv (Cbm14Abs.abs_cbm cbm st') (sunmerge (Cbm14Abs.abs_cbm cbm st) g).
Proof. exact Cbm14RefFull.unmerge_refines. Qed.
Print Assumptions C14_unmerge_refines.

Theorem C14_snapshot_refines : forall cbm new st,
  Cbm14RefBase.J (Cbm14Store.s_next st) (Cbm14Store.s_nodes st) ->
  Cbm14Frame.ebelow (Cbm14Store.s_next st) (Cbm14Store.s_edges st) ->
  Cbm14Store.gexists cbm st = true -> Cbm14Store.gexists new st = false ->
  exists st', Cbm14Store.snapshot cbm new st = Cbm14Store.OOk st' /\
              eqv (Cbm14Abs.abs_cbm new st') (Cbm14Abs.abs_cbm cbm st) /\
              eqv (Cbm14Abs.abs_cbm cbm st') (Cbm14Abs.abs_cbm cbm st).
Proof. exact Cbm14RefFull.snapshot_refines. Qed.
Print Assumptions C14_snapshot_refines.

Theorem C14_rollback_refines : forall cbm sid st,
  Cbm14RefBase.J (Cbm14Store.s_next st) (Cbm14Store.s_nodes st) ->
  Cbm14Frame.ebelow (Cbm14Store.s_next st) (Cbm14Store.s_edges st) ->
  sid <> cbm -> Cbm14Store.gexists sid st = true ->
  exists st', Cbm14Store.rollback cbm sid st = Cbm14Store.OOk st' /\
              eqv (Cbm14Abs.abs_cbm cbm st') (Cbm14Abs.abs_cbm sid st).
Proof. exact Cbm14RefFull.rollback_refines. Qed.
Print Assumptions C14_rollback_refines.

(* simulation of whole histories by the abstract model WITH connections (a merged source enters as abs_adm adm st);
   documented domain fpre_run = pre_run + every merged source is mergeable (decidable mergeableb: well-formed
   abstraction, no self-loop; evaluated for every source of every correspondence case) *)
Theorem C14_store_simulates : forall cbm ops st hs st' hs',
  Cbm14RefFull.FSim cbm st hs -> Cbm14RefFull.fpre_run cbm st hs ops ->
  Cbm14RefFull.fsim_run cbm st hs ops = Some (st', hs') ->
  Cbm14RefFull.FSim cbm st' hs' /\ hs' = hrun hs (Cbm14RefFull.fhops_run cbm st ops).
Proof. exact Cbm14RefFull.fsim_run_ok. Qed.
Print Assumptions C14_store_simulates.

Theorem C14_store_simulation_starts_full : forall cbm st,
  Cbm14RefBase.J (Cbm14Store.s_next st) (Cbm14Store.s_nodes st) ->
  Cbm14Frame.ebelow (Cbm14Store.s_next st) (Cbm14Store.s_edges st) ->
  Cbm14Store.gexists cbm st = false -> Cbm14RefFull.FSim cbm st hinit.
Proof. exact Cbm14RefFull.fsim_init. Qed.
Print Assumptions C14_store_simulation_starts_full.

(* in every reachable state the abstraction of the combined graph is (equivalent to) the abstract combined model *)
Theorem C14_store_is_abstract : forall cbm st hs,
  Cbm14RefFull.FSim cbm st hs -> eqv (Cbm14Abs.abs_cbm cbm st) (h_cur hs).
Proof. exact Cbm14RefFull.fsim_eqv. Qed.
Print Assumptions C14_store_is_abstract.

(* unmerge is the inverse of merge ON THE STORE MODEL: merge_adm followed by unmerge_adm of the same model restores
   the combined graph, nodes and connections - provided the merged model brings no connection between two elements
   already there (no_new_inner_edges, on the abstractions).  That hypothesis is exactly known finding F2. *)
Theorem C14_store_unmerge_inverse_partial : forall cbm adm tmp st hs st1 st2,
  Cbm14RefFull.FSim cbm st hs -> Cbm14RefFull.fpre cbm (Cbm14Check.OpMerge adm tmp) st hs ->
  no_new_inner_edges (Cbm14Abs.abs_cbm cbm st) (Cbm14Abs.abs_adm adm st) ->
  Cbm14Store.merge_adm cbm adm tmp st = Cbm14Store.OOk st1 -> Cbm14Store.unmerge_adm cbm adm st1 = Cbm14Store.OOk st2 ->
  eqv (Cbm14Abs.abs_cbm cbm st2) (Cbm14Abs.abs_cbm cbm st).
Proof. exact Cbm14RefFull.store_unmerge_inverse. Qed.
Print Assumptions C14_store_unmerge_inverse_partial.

Theorem C14_store_rollback : forall cbm id mid st hs st' hs',
  Cbm14RefFull.FSim cbm st hs ->
  Cbm14RefFull.fpre_run cbm st hs (Cbm14Check.OpSnap id :: mid ++ [Cbm14Check.OpRollback id]) ->
  Cbm14RefFull.fsim_run cbm st hs (Cbm14Check.OpSnap id :: mid ++ [Cbm14Check.OpRollback id]) = Some (st', hs') ->
  forallb (fun o => negb (Cbm14RefHist.otouches id o)) mid = true ->
  eqv (Cbm14Abs.abs_cbm cbm st') (Cbm14Abs.abs_cbm cbm st).
Proof. exact Cbm14RefFull.store_rollback. Qed.
Print Assumptions C14_store_rollback.

Theorem C14_store_order_independent : forall cbm st hs l1 l2 st1 hs1 st2 hs2,
  Cbm14RefFull.FSim cbm st hs ->
  Permutation (map fst l1) (map fst l2) -> ~ In cbm (map fst l1) ->
  (forall a, In a (map fst l1) -> Cbm14Store.gexists a st = true /\ Cbm14Frame.Good a st) ->
  pairwise_compatible (Cbm14RefFull.fadms_of st l1) ->
  Cbm14RefFull.fpre_run cbm st hs (Cbm14RefOrder.mops l1) ->
  Cbm14RefFull.fsim_run cbm st hs (Cbm14RefOrder.mops l1) = Some (st1, hs1) ->
  Cbm14RefFull.fpre_run cbm st hs (Cbm14RefOrder.mops l2) ->
  Cbm14RefFull.fsim_run cbm st hs (Cbm14RefOrder.mops l2) = Some (st2, hs2) ->
  eqv (Cbm14Abs.abs_cbm cbm st1) (Cbm14Abs.abs_cbm cbm st2).
Proof. exact Cbm14RefFull.store_order_independent. Qed.
Print Assumptions C14_store_order_independent.

(* ---- REFUSALS, on the store-level model (which predicts the partial effects too: Cbm14Check.step_o replays the
   recorded order in which the code met the common nodes).  The property wants a refusal to change nothing; the
   code falls short three times (known findings F5, F6, F7, each replayed on the implementation):
   FULL statement: step_o cbm o ord st = OErr e st' -> st' = st  (for merges and rollbacks) ---- *)
Theorem C14_refused_merge_not_atomic_refuted :
  exists st', Cbm14Check.step_o 0 (Cbm14Check.OpMerge 2 101) [11; 10] Cbm14Refusal.rf_merged = Cbm14Store.OErr Cbm14Store.EPGQ st' /\
              Cbm14Store.view_of 0 st' <> Cbm14Store.view_of 0 Cbm14Refusal.rf_merged /\ Cbm14Store.gexists 101 st' = true /\
              exists st'', Cbm14Check.step_o 0 (Cbm14Check.OpMerge 2 101) [10; 11] Cbm14Refusal.rf_merged = Cbm14Store.OErr Cbm14Store.EPGQ st'' /\
                           Cbm14Store.view_of 0 st'' = Cbm14Store.view_of 0 Cbm14Refusal.rf_merged /\
                           Cbm14Store.gexists 101 st'' = true.
Proof. exact Cbm14Refusal.refused_merge_not_atomic. Qed.
Print Assumptions C14_refused_merge_not_atomic_refuted.

Theorem C14_remerge_not_refused_refuted :
  exists s1 s2 s3, Cbm14Store.merge_adm 0 1 100 Cbm14Refusal.rm_store = Cbm14Store.OOk s1 /\
                   Cbm14Store.merge_adm 0 1 101 s1 = Cbm14Store.OOk s2 /\
                   map Cbm14Store.n_si (Cbm14Store.of_gid 0 s2) = [Cbm14Store.SIds [1; 1]; Cbm14Store.SIds [1; 1]] /\
                   Cbm14Store.unmerge_adm 0 1 s2 = Cbm14Store.OOk s3 /\
                   map Cbm14Store.n_si (Cbm14Store.of_gid 0 s3) = [Cbm14Store.SIds [1]; Cbm14Store.SIds [1]].
Proof. exact Cbm14Refusal.remerge_not_refused. Qed.
Print Assumptions C14_remerge_not_refused_refuted.

Theorem C14_rollback_unknown_destroys_refuted :
  exists s1 s2, Cbm14Store.merge_adm 0 1 100 Cbm14Refusal.rm_store = Cbm14Store.OOk s1 /\ Cbm14Store.gexists 0 s1 = true /\
                Cbm14Store.rollback_gen false 0 55 s1 = Cbm14Store.OErr Cbm14Store.EAssert s2 /\
                Cbm14Store.gexists 0 s2 = false.
Proof. exact Cbm14Refusal.rollback_unknown_destroys. Qed.
Print Assumptions C14_rollback_unknown_destroys_refuted.

(* the full statement for the REPAIRED statement order of ABCCBMPropertyGraph.rollback (snapshot looked up before the
   combined graph deletes itself): rollback to an unknown or already used snapshot id is refused and changes nothing.
   Which order the code has is read from the source on every run (translator/gen_cbm14.py): *)
Theorem C14_rollback_unknown_refused : forall cbm sid st,
  Cbm14Store.gexists sid st = false ->
  Cbm14Store.rollback_gen true cbm sid st = Cbm14Store.OErr Cbm14Store.EAssert st.
Proof. exact Cbm14Refusal.rollback_unknown_refused. Qed.
Print Assumptions C14_rollback_unknown_refused.

Theorem C14_translated : Gen.Cbm14Gen.gen_ok = true.
Proof. exact Cbm14Refusal.gen_ok_true. Qed.
Print Assumptions C14_translated.

Theorem C14_rollback_follows_source :
  Cbm14Store.rollback = Cbm14Store.rollback_gen Gen.Cbm14Gen.rollback_checks_first.
Proof. exact Cbm14Refusal.rollback_follows_source. Qed.
Print Assumptions C14_rollback_follows_source.

(* ---- non-vacuity ---- *)
Example C14_ex_consistent_family : consistent [A1; A2; A3] /\ Forall wf_adm [A1; A2; A3].
Proof. exact fam_A_consistent. Qed.
Example C14_ex_order :
  exists C C', merge_all [A1; A2; A3] = Some C /\ merge_all [A3; A2; A1] = Some C' /\
               getn 10 (nodes C) = Some (mkC 1 [(5, 6)] [1; 2] (Some (2, 7)) None) /\
               getn 10 (nodes C') = Some (mkC 1 [(5, 6)] [2; 1] (Some (2, 7)) None).
Proof. exact ex_order. Qed.
Example C14_ex_unmerge :
  wf_cbm CA1 /\ wf_adm A2 /\ not_contributor (adm_id A2) CA1 /\ no_new_inner_edges CA1 A2 /\
  exists C', smerge CA1 A2 = Some C' /\ hasn 13 (nodes C') = true /\ hasn 13 (nodes (sunmerge C' 2)) = false /\
             gete (10, 11) (edges C') = Some (4, []).
Proof. exact ex_unmerge. Qed.
Example C14_ex_double_speaker : smerge CA1 D2 = None.
Proof. exact ex_double_speaker. Qed.
Example C14_ex_history :
  Forall op_wf ex_ops /\
  map fst (nodes (h_cur (hrun hinit ex_ops))) = [10; 11; 12; 13; 14] /\ map adm_id (h_ms (hrun hinit ex_ops)) = [1; 3].
Proof. exact ex_history. Qed.
Example C14_ex_rollback :
  hasn 100 (h_snaps (hrun hinit [HMerge A1])) = false /\
  forallb (fun o => negb (touches 100 o)) [HMerge A2; HSnap 101; HUnmerge 1; HRollback 101; HMerge A3] = true /\
  nodes (h_cur (hrun (hstep (hrun hinit [HMerge A1]) (HSnap 100)) [HMerge A2; HSnap 101; HUnmerge 1; HRollback 101; HMerge A3]))
    <> nodes (h_cur (hrun hinit [HMerge A1])).
Proof. exact ex_rollback. Qed.
Example C14_ex_sources_untouched :
  Cbm14Store.goodb 1 Cbm14Frame.ex_store = true /\ Cbm14Store.goodb 2 Cbm14Frame.ex_store = true /\
  Forall (Cbm14Frame.outside 0 1) Cbm14Frame.ex_sops /\ Forall (Cbm14Frame.outside 0 2) Cbm14Frame.ex_sops /\
  exists st', Cbm14Frame.run 0 Cbm14Frame.ex_store Cbm14Frame.ex_sops = Some st' /\
              map Cbm14Store.n_nid (Cbm14Store.of_gid 0 st') = [10; 11] /\
              map Cbm14Store.n_si (Cbm14Store.of_gid 0 st') = [Cbm14Store.SIds [1]; Cbm14Store.SIds [1]].
Proof. exact Cbm14Frame.ex_frame. Qed.
Example C14_ex_two_snapshots :
  let s1 := hrun hinit [HMerge A1] in
  let s2 := hrun hinit [HMerge A1; HSnap 100; HMerge A2] in
  let mid := [HMerge A2; HSnap 101; HMerge A3] in
  forallb (fun o => negb (touches 100 o)) mid = true /\
  h_cur (hrun hinit ([HMerge A1; HSnap 100] ++ mid ++ [HRollback 100])) = h_cur s1 /\
  h_cur (hrun hinit ([HMerge A1; HSnap 100] ++ mid ++ [HRollback 101])) = h_cur s2 /\
  h_cur (hrun hinit ([HMerge A1; HSnap 100] ++ mid ++ [HRollback 101; HRollback 100])) = h_cur s1 /\
  nodes (h_cur s1) <> nodes (h_cur s2).
Proof. exact ex_two_snapshots. Qed.
Example C14_ex_refinement :
  Cbm14Abs.rgoodb 0 Cbm14Frame.ex_store = true /\ Cbm14Store.gexists 0 Cbm14Frame.ex_store = false /\
  Cbm14RefHist.pre_run 0 Cbm14Frame.ex_store hinit Cbm14Frame.ex_sops /\
  exists st' hs', Cbm14RefHist.sim_run 0 Cbm14Frame.ex_store hinit Cbm14Frame.ex_sops = Some (st', hs') /\
                  map adm_id (h_ms hs') = [1] /\ map fst (nodes (h_cur hs')) = [10; 11] /\
                  map Cbm14Store.n_nid (Cbm14Store.of_gid 0 st') = [10; 11].
Proof. exact Cbm14RefHist.ex_refine. Qed.
Example C14_ex_store_order :
  let l1 := [(1, 100); (2, 101)] in let l2 := [(2, 100); (1, 101)] in
  Cbm14RefHist.NSim 0 Cbm14Frame.ex_store hinit /\ Permutation (map fst l1) (map fst l2) /\ ~ In 0 (map fst l1) /\
  (forall a, In a (map fst l1) -> Cbm14Store.gexists a Cbm14Frame.ex_store = true /\ Cbm14Frame.Good a Cbm14Frame.ex_store) /\
  pairwise_compatible (Cbm14RefOrder.adms_of Cbm14Frame.ex_store l1) /\
  Cbm14RefHist.pre_run 0 Cbm14Frame.ex_store hinit (Cbm14RefOrder.mops l1) /\
  Cbm14RefHist.pre_run 0 Cbm14Frame.ex_store hinit (Cbm14RefOrder.mops l2) /\
  exists st1 hs1 st2 hs2, Cbm14RefHist.sim_run 0 Cbm14Frame.ex_store hinit (Cbm14RefOrder.mops l1) = Some (st1, hs1) /\
                          Cbm14RefHist.sim_run 0 Cbm14Frame.ex_store hinit (Cbm14RefOrder.mops l2) = Some (st2, hs2) /\
                          map Cbm14Store.n_si (Cbm14Store.of_gid 0 st1) =
                            [Cbm14Store.SIds [1; 2]; Cbm14Store.SIds [1; 2]; Cbm14Store.SIds [2]] /\
                          map Cbm14Store.n_si (Cbm14Store.of_gid 0 st2) =
                            [Cbm14Store.SIds [2; 1]; Cbm14Store.SIds [2; 1]; Cbm14Store.SIds [2]].
Proof. exact Cbm14RefOrder.ex_order_store. Qed.
Example C14_ex_full_refinement :
  Cbm14Abs.rgoodb 0 Cbm14Frame.ex_store = true /\ Cbm14Store.goodb 1 Cbm14Frame.ex_store = true /\
  Cbm14Store.gexists 0 Cbm14Frame.ex_store = false /\
  Cbm14RefFull.fpre_run 0 Cbm14Frame.ex_store hinit Cbm14Frame.ex_sops /\
  exists st' hs', Cbm14RefFull.fsim_run 0 Cbm14Frame.ex_store hinit Cbm14Frame.ex_sops = Some (st', hs') /\
                  map adm_id (h_ms hs') = [1] /\ map fst (edges (h_cur hs')) = [(10, 11)] /\
                  map fst (Cbm14Abs.abs_edges 0 st') = [(10, 11)].
Proof. exact Cbm14RefFull.ex_full. Qed.

(* C14 - combined broker model: merge is order-independent and unmerge is its inverse.
   Only statements; each is closed by `exact` of a lemma from Proofs/Cbm14*.v.
   The statements are about the abstract combined model of Model/Cbm14Spec.v (finite map NodeID -> class,
   properties, contributors, delegations keyed by contributor; finite map of connections; smerge / sunmerge;
   histories hstep / hrun with snapshots).  Both that model and the store-level transcription of
   merge_adm / _update_node_delegations / unmerge_adm / snapshot / rollback (Model/Cbm14Store.v) are compared
   with the real code on every run (harness/c14.py, Model/Cbm14Check.v, Model/Cbm14SpecCheck.v).
   eqv: same elements, class, properties and delegations, contributors as a set, same connections. *)
From Coq Require Import List NArith Bool Permutation.
From FIM Require Import Model.Cbm14Spec Proofs.Cbm14Assoc Proofs.Cbm14Merge Proofs.Cbm14Unmerge Proofs.Cbm14Inv
     Proofs.Cbm14Hist Proofs.Cbm14Dec.
From FIM Require Model.Cbm14Store Model.Cbm14Check Proofs.Cbm14Frame.
Import ListNotations.
Open Scope N_scope.

(* ---- what one merge does, element by element: union; shared elements once; combined model's data kept;
   contributor appended; delegation taken from whichever side has one, keyed by the merged model's id ---- *)
Theorem C14_merge_elementwise : forall C A C' k,
  smerge C A = Some C' ->
  getn k (nodes C') =
  match getn k (nodes C), getn k (adm_nodes A) with
  | Some c, Some a => Some (upd (adm_id A) a c)
  | Some c, None => Some c
  | None, Some a => Some (stamp (adm_id A) a)
  | None, None => None
  end.
Proof. exact smerge_get_node. Qed.
Print Assumptions C14_merge_elementwise.

Theorem C14_merge_connections : forall C A C' e,
  smerge C A = Some C' ->
  gete e (edges C') =
  match gete e (edges C), gete e (adm_edges A) with
  | Some d, _ => Some d
  | None, Some d => Some d
  | None, None => None
  end.
Proof. exact smerge_get_edge. Qed.
Print Assumptions C14_merge_connections.

Theorem C14_shared_elements_once : forall C A C',
  wf_adm A -> nodup_keys C -> smerge C A = Some C' -> nodup_keys C'.
Proof. exact smerge_nodup. Qed.
Print Assumptions C14_shared_elements_once.

(* only one delegation model may speak for a resource: the merge is refused *)
Theorem C14_double_speaker_rejected : forall C A k c a,
  getn k (nodes C) = Some c -> In (k, a) (adm_nodes A) -> clash c a = true -> smerge C A = None.
Proof. exact double_speaker_rejected. Qed.
Print Assumptions C14_double_speaker_rejected.

(* ---- families: merging As left to right from the empty combined model ---- *)
(* element set = union, every element once, contributors EXACTLY the merged models having the element,
   delegations keyed by the contributor that supplied them, no dangling connection *)
Theorem C14_family_invariant : forall As C,
  Forall wf_adm As -> NoDup (map adm_id As) -> merge_all As = Some C ->
  nodup_keys C /\ all_alive C /\ no_dangling C /\ NoDup (map adm_id As) /\ Forall wf_adm As /\
  contributors_exact As C /\ keyed_by As C.
Proof. exact family_inv. Qed.
Print Assumptions C14_family_invariant.

(* connections = union of the families' connections, each with the data of a member; class and plain
   properties of every element are those of a member *)
Theorem C14_family_union : forall As C, merge_all As = Some C -> from_family As C.
Proof. exact family_union. Qed.
Print Assumptions C14_family_union.

Theorem C14_family_never_refused : forall As,
  Forall wf_adm As -> consistent As -> exists C, merge_all As = Some C.
Proof. exact family_total. Qed.
Print Assumptions C14_family_never_refused.

(* ---- order independence: any permutation of a family of pairwise compatible models, merged into any
   combined model C, is accepted as well and gives an equivalent result ---- *)
Theorem C14_order_independent : forall As As',
  Permutation As As' ->
  forall C D, Forall wf_adm As -> pairwise_compatible As -> merge_from C As = Some D ->
  exists D', merge_from C As' = Some D' /\ eqv D D'.
Proof. exact merge_from_perm. Qed.
Print Assumptions C14_order_independent.

(* the hypothesis is needed: FULL statement without `pairwise_compatible` is FALSE of the model and of the code
   (known finding F4; the repository's own four site/network advertisements describe their common nodes
   differently, so their combined model depends on the merge order) *)
Theorem C14_order_independent_refuted :
  exists A B C C', wf_adm A /\ wf_adm B /\ one_speaker A B /\
                   merge_all [A; B] = Some C /\ merge_all [B; A] = Some C' /\ ~ eqv C C'.
Proof. exact order_dependent_refuted. Qed.
Print Assumptions C14_order_independent_refuted.

(* ---- unmerge is the inverse of merge ----
   FULL statement (the property as written):
     wf_cbm C -> wf_adm A -> not_contributor (adm_id A) C -> smerge C A = Some C' -> eqv (sunmerge C' (adm_id A)) C
   It is FALSE of the faithful model and of the code (witness replayed on the implementation by the harness,
   known finding F2): connections carry no contributor record *)
Theorem C14_unmerge_inverse_edge_refuted :
  exists C A C', wf_cbm C /\ wf_adm A /\ not_contributor (adm_id A) C /\
                 smerge C A = Some C' /\ ~ eqv (sunmerge C' (adm_id A)) C.
Proof. exact unmerge_inverse_edge_refuted. Qed.
Print Assumptions C14_unmerge_inverse_edge_refuted.

(* partial: the merged model brings no connection between two elements already present - then unmerge restores
   the previous combined model *)
Theorem C14_unmerge_inverse_partial : forall C A C',
  wf_cbm C -> wf_adm A -> not_contributor (adm_id A) C -> no_new_inner_edges C A ->
  smerge C A = Some C' -> eqv (sunmerge C' (adm_id A)) C.
Proof. exact unmerge_inverse. Qed.
Print Assumptions C14_unmerge_inverse_partial.

(* ---- all histories of merge / unmerge / snapshot / rollback: the current combined model and every saved
   snapshot satisfy the invariant w.r.t. the delegation models currently merged (h_ms) ---- *)
Theorem C14_history_invariant : forall ops, Forall op_wf ops -> HInv (hrun hinit ops).
Proof. exact hinv_all. Qed.
Print Assumptions C14_history_invariant.

(* the invariant supplies the hypotheses of the unmerge theorems in every reachable state *)
Theorem C14_reachable_wf : forall Ms C, Inv Ms C -> wf_cbm C.
Proof. exact Inv_wf_cbm. Qed.
Print Assumptions C14_reachable_wf.

Theorem C14_reachable_not_contributor : forall Ms C g, Inv Ms C -> ~ In g (map adm_id Ms) -> not_contributor g C.
Proof. exact Inv_not_contributor. Qed.
Print Assumptions C14_reachable_not_contributor.

(* ---- rollback: after a snapshot and any operations that do not use that snapshot id - merges, unmerges,
   FURTHER snapshots under other ids and rollbacks to those - rolling back restores the combined model (and the
   record of what is merged) exactly; so with several snapshots outstanding each rollback gives the model of its own
   snapshot, in whatever order they are consumed (C14_ex_two_snapshots) ---- *)
Theorem C14_rollback : forall s id ops,
  hasn id (h_snaps s) = false ->
  forallb (fun o => negb (touches id o)) ops = true ->
  let s' := hstep (hrun (hstep s (HSnap id)) ops) (HRollback id) in
  h_cur s' = h_cur s /\ h_ms s' = h_ms s.
Proof. exact rollback_restores. Qed.
Print Assumptions C14_rollback.

(* ---- STORE LEVEL (Model/Cbm14Store.v, the transcription of the code over the shared in-memory store):
   merging does not alter the source models - nor any other graph of the store, e.g. the snapshots.
   For every history of merge_adm / unmerge_adm / snapshot / rollback on the combined graph cbm and every graph g
   that is none of the graphs the operations work on (cbm itself, the temporary / snapshot id an operation
   creates, the snapshot a rollback consumes), the nodes of g with all their properties, and g's canonical view
   (nodes + connections), are unchanged.  Good g st: internal ids unique and below start_id, no connection
   leaves g (decidable: goodb, checked on the initial store of every correspondence case). ---- *)
Theorem C14_sources_untouched : forall g cbm ops st st',
  Cbm14Frame.Good g st -> Forall (Cbm14Frame.outside cbm g) ops -> Cbm14Frame.run cbm st ops = Some st' ->
  Cbm14Store.view_of g st' = Cbm14Store.view_of g st /\ Cbm14Store.of_gid g st' = Cbm14Store.of_gid g st /\
  Cbm14Frame.Good g st'.
Proof. exact Cbm14Frame.history_frame. Qed.
Print Assumptions C14_sources_untouched.

Theorem C14_store_invariant_decidable : forall g st, Cbm14Store.goodb g st = true -> Cbm14Frame.Good g st.
Proof. exact Cbm14Frame.goodb_sound. Qed.
Print Assumptions C14_store_invariant_decidable.

(* ---- non-vacuity ---- *)
Example C14_ex_consistent_family : consistent [A1; A2; A3] /\ Forall wf_adm [A1; A2; A3].
Proof. exact fam_A_consistent. Qed.
Example C14_ex_order :
  exists C C', merge_all [A1; A2; A3] = Some C /\ merge_all [A3; A2; A1] = Some C' /\
               getn 10 (nodes C) = Some (mkC 1 [(5, 6)] [1; 2] (Some (2, 7)) None) /\
               getn 10 (nodes C') = Some (mkC 1 [(5, 6)] [2; 1] (Some (2, 7)) None).
Proof. exact ex_order. Qed.
Example C14_ex_unmerge :
  wf_cbm CA1 /\ wf_adm A2 /\ not_contributor (adm_id A2) CA1 /\ no_new_inner_edges CA1 A2 /\
  exists C', smerge CA1 A2 = Some C' /\ hasn 13 (nodes C') = true /\ hasn 13 (nodes (sunmerge C' 2)) = false /\
             gete (10, 11) (edges C') = Some (4, []).
Proof. exact ex_unmerge. Qed.
Example C14_ex_double_speaker : smerge CA1 D2 = None.
Proof. exact ex_double_speaker. Qed.
Example C14_ex_history :
  Forall op_wf ex_ops /\
  map fst (nodes (h_cur (hrun hinit ex_ops))) = [10; 11; 12; 13; 14] /\ map adm_id (h_ms (hrun hinit ex_ops)) = [1; 3].
Proof. exact ex_history. Qed.
Example C14_ex_rollback :
  hasn 100 (h_snaps (hrun hinit [HMerge A1])) = false /\
  forallb (fun o => negb (touches 100 o)) [HMerge A2; HSnap 101; HUnmerge 1; HRollback 101; HMerge A3] = true /\
  nodes (h_cur (hrun (hstep (hrun hinit [HMerge A1]) (HSnap 100)) [HMerge A2; HSnap 101; HUnmerge 1; HRollback 101; HMerge A3]))
    <> nodes (h_cur (hrun hinit [HMerge A1])).
Proof. exact ex_rollback. Qed.
Example C14_ex_sources_untouched :
  Cbm14Store.goodb 1 Cbm14Frame.ex_store = true /\ Cbm14Store.goodb 2 Cbm14Frame.ex_store = true /\
  Forall (Cbm14Frame.outside 0 1) Cbm14Frame.ex_sops /\ Forall (Cbm14Frame.outside 0 2) Cbm14Frame.ex_sops /\
  exists st', Cbm14Frame.run 0 Cbm14Frame.ex_store Cbm14Frame.ex_sops = Some st' /\
              map Cbm14Store.n_nid (Cbm14Store.of_gid 0 st') = [10; 11] /\
              map Cbm14Store.n_si (Cbm14Store.of_gid 0 st') = [Cbm14Store.SIds [1]; Cbm14Store.SIds [1]].
Proof. exact Cbm14Frame.ex_frame. Qed.
Example C14_ex_two_snapshots :
  let s1 := hrun hinit [HMerge A1] in
  let s2 := hrun hinit [HMerge A1; HSnap 100; HMerge A2] in
  let mid := [HMerge A2; HSnap 101; HMerge A3] in
  forallb (fun o => negb (touches 100 o)) mid = true /\
  h_cur (hrun hinit ([HMerge A1; HSnap 100] ++ mid ++ [HRollback 100])) = h_cur s1 /\
  h_cur (hrun hinit ([HMerge A1; HSnap 100] ++ mid ++ [HRollback 101])) = h_cur s2 /\
  h_cur (hrun hinit ([HMerge A1; HSnap 100] ++ mid ++ [HRollback 101; HRollback 100])) = h_cur s1 /\
  nodes (h_cur s1) <> nodes (h_cur s2).
Proof. exact ex_two_snapshots. Qed.

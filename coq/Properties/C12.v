(* C12 - delegations and pools survive encoding and regrouping unchanged.

   Statements only; each is closed by `exact` of a lemma of Proofs/Deleg12*.v.  The model is
   Model/Deleg12.v (Delegation, Delegations, the Capacities / Labels details, to_json / from_json at the JSON
   VALUE level) and Model/Pools12.v (Pool, Pools, build_index / generate / incorporate, annotate / read back),
   instantiated with the constants, enum members and field lists REGENERATED from the source
   (Gen/DelegGen.v).  `lc` is the verdict function of the Labels validators: every statement holds for
   every validator (the same one is applied when a Labels object is built and when it is decoded). *)
From Coq Require Import List ZArith NArith Bool String Permutation.
From FIM Require Import Base.Str Base.Corr Base.Json Gen.DelegGen Model.Deleg12 Model.Pools12 Model.Pools12H Model.Deleg12H
     Model.Deleg12T
     Proofs.Deleg12Enc Proofs.Deleg12Pools Proofs.Deleg12Regroup Proofs.Deleg12Annotate Proofs.Deleg12Main Proofs.Deleg12Hist Proofs.Deleg12DHist Proofs.Deleg12Text.
Import ListNotations.

(* ------------------------------------------------------------------------------------------------ *)
(* the regenerated data                                                                              *)
(* ------------------------------------------------------------------------------------------------ *)
(* the translator recognised everything it reads (fail-closed flag) *)
Theorem C12_translated : deleg_gen_ok = true.
Proof. exact gen_ok_true. Qed.
Print Assumptions C12_translated.

(* the model's inductives dtype / dformat have exactly the members of the two enums *)
Theorem C12_enum_members :
  delegation_type_members = ["CAPACITY"; "LABEL"]%string /\
  delegation_format_members = ["PoolDefinition"; "PoolReference"; "SinglePool"]%string.
Proof. exact enum_members_ok. Qed.
Print Assumptions C12_enum_members.

(* FIELD_POOL_ID, FIELD_POOL, FIELD_CAPACITIES, FIELD_LABELS are pairwise different: reading an inner
   dictionary as (pool_id?, pool?, capacities?, labels?) is what the code's key tests do *)
Theorem C12_wire_names_distinct : wire_names_distinct = true.
Proof. exact wire_names_ok. Qed.
Print Assumptions C12_wire_names_distinct.

(* no field name twice in Capacities / Labels (every entry of the regenerated lists) *)
Theorem C12_field_names_distinct : str_nodup deleg_cap_fields = true /\ str_nodup deleg_lab_fields = true.
Proof. exact fields_nodup_b. Qed.
Print Assumptions C12_field_names_distinct.

(* ------------------------------------------------------------------------------------------------ *)
(* encoding round trip                                                                               *)
(* ------------------------------------------------------------------------------------------------ *)
(* details: to_dict followed by the constructor gives the same object (all label / capacity values) *)
Theorem C12_details_roundtrip : forall lc x dd, det_ok lc x = true -> det_to_dict x = Some dd ->
  obj_of_dict lc (det_kind x) dd = Ok x.
Proof. exact details_roundtrip. Qed.
Print Assumptions C12_details_roundtrip.

(* a well-formed set of delegations encodes, and decodes to the same Delegations: same ids in the same order,
   same formats, pool names and details *)
Theorem C12_delegations_roundtrip_wf : forall lc ds, ds_wf lc ds = true ->
  exists doc, to_json ds = Ok doc /\ map fst doc = map d_id (ds_items ds) /\
              from_json lc (ds_type ds) doc = Ok ds.
Proof. exact delegations_roundtrip. Qed.
Print Assumptions C12_delegations_roundtrip_wf.

(* FULL STRENGTH: whatever the API built -- ds_inv and d_inv are the invariants C12_container_invariant /
   C12_delegation_invariant / C12_from_json_invariant establish for EVERY sequence of calls -- with details objects
   the constructor built (C12_constructor_builds_ok): if to_json encodes it (it refuses, loudly, only
   delegations without non-empty details), from_json gives the same Delegations back *)
Theorem C12_delegations_roundtrip : forall lc ds doc,
  ds_inv ds -> Forall d_inv (ds_items ds) ->
  Forall (fun d => forall x, d_details d = Some x -> det_ok lc x = true) (ds_items ds) ->
  to_json ds = Ok doc ->
  map fst doc = map d_id (ds_items ds) /\ from_json lc (ds_type ds) doc = Ok ds.
Proof. exact api_roundtrip. Qed.
Print Assumptions C12_delegations_roundtrip.

Theorem C12_constructor_builds_ok : forall lc ty dd x, obj_of_dict lc ty dd = Ok x -> det_ok lc x = true.
Proof. exact constructor_builds_ok. Qed.
Print Assumptions C12_constructor_builds_ok.

(* the constructor: a single-pool delegation keeps no pool name, a definition cannot take the reserved name *)
Theorem C12_constructor_shape : forall ty id fmt pool d0, new_deleg ty id fmt pool = Ok d0 ->
  d_inv d0 /\ d_type d0 = ty /\ d_id d0 = id /\ d_fmt d0 = fmt /\ d_details d0 = None.
Proof. exact new_deleg_inv. Qed.
Print Assumptions C12_constructor_shape.

(* ------------------------------------------------------------------------------------------------ *)
(* rejection rules, for all arguments                                                                *)
(* ------------------------------------------------------------------------------------------------ *)
Theorem C12_rejects_mixed : forall d x, det_kind x <> d_type d -> set_details d x = Err EDelegation.
Proof. exact rejects_mixed. Qed.
Print Assumptions C12_rejects_mixed.

Theorem C12_rejects_details_on_ref : forall d x, d_fmt d = FRef -> set_details d x = Err EDelegation.
Proof. exact rejects_details_on_ref. Qed.
Print Assumptions C12_rejects_details_on_ref.

Theorem C12_rejects_duplicate : forall ds d, d_type d = ds_type ds -> In (d_id d) (map d_id (ds_items ds)) ->
  add_delegation ds d = Err EDelegation.
Proof. exact rejects_duplicate. Qed.
Print Assumptions C12_rejects_duplicate.

(* several delegations in ONE add_delegations call: a repeated id (against the container or inside the call) is
   rejected; without repetition all are added, in order *)
Theorem C12_rejects_duplicate_in_batch : forall args ds, Forall (fun d => d_type d = ds_type ds) args ->
  NoDup (map d_id (ds_items ds)) -> ~ NoDup (map d_id (ds_items ds ++ args)) ->
  snd (add_delegations ds args) = Some EDelegation.
Proof. exact batch_rejects_duplicate. Qed.
Print Assumptions C12_rejects_duplicate_in_batch.

Theorem C12_batch_accepts : forall args ds, Forall (fun d => d_type d = ds_type ds) args ->
  NoDup (map d_id (ds_items ds ++ args)) ->
  add_delegations ds args = (mkDs (ds_type ds) (ds_items ds ++ args), None).
Proof. exact batch_accepts. Qed.
Print Assumptions C12_batch_accepts.

(* ... and nothing else is rejected by these two operations *)
Theorem C12_set_details_accepts_exactly : forall d x,
  (exists d', set_details d x = Ok d') <-> (d_fmt d <> FRef /\ det_kind x = d_type d).
Proof. exact set_details_ok_iff. Qed.
Print Assumptions C12_set_details_accepts_exactly.

Theorem C12_add_accepts : forall ds d, d_type d = ds_type ds -> ~ In (d_id d) (map d_id (ds_items ds)) ->
  add_delegation ds d = Ok (mkDs (ds_type ds) (ds_items ds ++ [d])).
Proof. exact add_accepts. Qed.
Print Assumptions C12_add_accepts.

(* invariants under ANY sequence of calls (failed calls leave the object as it was): the ids of a container
   are distinct and all its delegations are of its type; a reference never carries details, details are
   always of the delegation's type, the pool name is the one the constructor leaves (ctor_shape) *)
Theorem C12_container_invariant : forall ty ops, ds_inv (fold_left add_try ops (mkDs ty [])).
Proof. exact container_invariant. Qed.
Print Assumptions C12_container_invariant.

Theorem C12_delegation_invariant : forall ty id fmt pool d0 xs, new_deleg ty id fmt pool = Ok d0 ->
  d_inv (fold_left set_try xs d0).
Proof. exact delegation_invariant. Qed.
Print Assumptions C12_delegation_invariant.

(* the decoder: what it accepts satisfies the same invariants, with the ids of the document in order *)
Theorem C12_from_json_invariant : forall lc ty doc ds, from_json lc ty doc = Ok ds ->
  ds_type ds = ty /\ ds_inv ds /\ Forall d_inv (ds_items ds) /\ map d_id (ds_items ds) = map fst doc.
Proof. exact from_json_inv. Qed.
Print Assumptions C12_from_json_invariant.

(* the decoder rejects mixed content and details on a reference, ALWAYS: entry by entry ... *)
Theorem C12_from_json_rejects_details_on_ref : forall lc ty id j, j_pool_id j = None ->
  (j_caps j <> None \/ j_labs j <> None) -> entry_of_json lc ty id j = Err EDelegation.
Proof. exact entry_details_on_ref. Qed.
Print Assumptions C12_from_json_rejects_details_on_ref.

Theorem C12_from_json_rejects_mixed : forall lc ty id j p, j_pool_id j = Some p ->
  (match ty with TCap => j_labs j | TLab => j_caps j end) <> None -> entry_of_json lc ty id j = Err EDelegation.
Proof. exact entry_mixed. Qed.
Print Assumptions C12_from_json_rejects_mixed.

(* ... and for whole documents: one entry that is not of the three shapes of the format (definition /
   single-pool entry with this type's content only, bare reference) and the document is refused *)
Theorem C12_from_json_rejects_unclean : forall lc ty doc,
  (exists k j, In (k, j) doc /\ entry_clean ty j = false) -> exists e, from_json lc ty doc = Err e.
Proof. exact from_json_rejects_unclean. Qed.
Print Assumptions C12_from_json_rejects_unclean.

(* the remaining refusals, by class: no pool key, definition without this type's details, details the
   constructor refuses; and every entry of an accepted document is clean and acceptable on its own *)
Theorem C12_from_json_rejects_ill_formed : forall lc ty,
  (forall doc ds, from_json lc ty doc = Ok ds ->
                  forall k j, In (k, j) doc -> entry_clean ty j = true /\ exists d, entry_of_json lc ty k j = Ok d) /\
  (forall id j, j_pool_id j = None -> j_pool j = None -> entry_of_json lc ty id j = Err EDelegation) /\
  (forall id j p, j_pool_id j = Some p -> (match ty with TCap => j_labs j | TLab => j_caps j end) = None ->
                  (match ty with TCap => j_caps j | TLab => j_labs j end) = None ->
                  entry_of_json lc ty id j = Err EKey) /\
  (forall id j p dd e, j_pool_id j = Some p -> (match ty with TCap => j_labs j | TLab => j_caps j end) = None ->
                       (match ty with TCap => j_caps j | TLab => j_labs j end) = Some dd ->
                       first_error lc ty dd = Some e -> entry_of_json lc ty id j = Err e).
Proof. exact from_json_rejects_ill_formed. Qed.
Print Assumptions C12_from_json_rejects_ill_formed.

(* ------------------------------------------------------------------------------------------------ *)
(* pools -> per-node delegations -> pools                                                            *)
(* ------------------------------------------------------------------------------------------------ *)
(* the index lists every pool exactly once, under its own delegation id; an incomplete pool is refused *)
Theorem C12_index_complete : forall ty P, forallb (pool_ok ty) P = true ->
  exists idx, build_index P = Ok idx /\ idx_consistent idx /\ Permutation (flat_map snd idx) P.
Proof. exact index_complete. Qed.
Print Assumptions C12_index_complete.

Theorem C12_index_rejects_incomplete : forall P, (exists p, In p P /\ validate_pool p <> None) ->
  build_index P = Err EPool.
Proof. exact index_rejects_incomplete. Qed.
Print Assumptions C12_index_rejects_incomplete.

(* shape: the per-node delegations are exactly (as a multiset) one definition per pool on its defining node
   and one reference on each node of for_, with the pool's delegation id, name and details *)
Theorem C12_generate_shape : forall ty P idx, forallb (pool_ok ty) P = true -> no_conflict P = true ->
  build_index P = Ok idx ->
  exists G, generate ty (Some idx) = Ok G /\ NoDup (map fst G) /\
            Forall (fun nd => ds_type (snd nd) = ty) G /\
            Permutation (flatten_g G) (expected_events ty P).
Proof. exact generate_shape. Qed.
Print Assumptions C12_generate_shape.

(* conflict: if some node would take part in two pools under one delegation id (the JSON of a node is keyed
   by delegation id), generate raises DelegationException; so do pool details of the other class *)
Theorem C12_regroup_conflict_rejected : forall ty P, forallb (pool_ok ty) P = true ->
  forall idx, build_index P = Ok idx -> no_conflict P = false -> generate ty (Some idx) = Err EDelegation.
Proof. exact generate_conflict. Qed.
Print Assumptions C12_regroup_conflict_rejected.

Theorem C12_generate_rejects_foreign_details : forall ty did p x, p_details p = Some x -> det_kind x <> ty ->
  pool_events ty did p = Err EDelegation.
Proof. exact pool_events_foreign. Qed.
Print Assumptions C12_generate_rejects_foreign_details.

(* a pool named SINGLE_POOL_NAME cannot be written as a definition: generate refuses it (DelegationException from
   the Delegation constructor); pool_ok therefore asks for another name *)
Theorem C12_generate_rejects_reserved_pool_name : forall ty did p, p_id p = single_pool_name ->
  pool_events ty did p = Err EDelegation.
Proof. exact pool_events_reserved. Qed.
Print Assumptions C12_generate_rejects_reserved_pool_name.

(* the identity: pools -> index -> per-node delegations -> pools gives the same registry (same pools, each
   with the same type, id, delegation id, defining node, reference nodes and details) *)
Theorem C12_pools_regroup : forall ty P, pools_wf ty P = true ->
  exists P', regroup ty P = Ok P' /\ pools_equiv P' P.
Proof. exact pools_regroup. Qed.
Print Assumptions C12_pools_regroup.

(* ... whatever the order in which the nodes are read back (the code iterates a dict filled in set order) *)
Theorem C12_pools_regroup_any_order : forall ty P idx G G', pools_wf ty P = true ->
  build_index P = Ok idx -> generate ty (Some idx) = Ok G -> Permutation G' G ->
  exists P', incorporate_all ty G' [] = Ok P' /\ pools_equiv P' P.
Proof. exact pools_regroup_any_order. Qed.
Print Assumptions C12_pools_regroup_any_order.

(* through the graph: pools and single-pool delegations are written as node properties
   (annotate_delegations_and_pools), every annotated node is read back (get_delegations) and incorporated:
   the same pools come back, every node holds exactly the prescribed delegations plus its single-pool ones *)
Theorem C12_annotate_readback : forall lc ty P dels,
  pools_wf ty P = true -> pools_encodable lc P = true -> singles_ok lc ty P dels = true ->
  exists g P', annotate_readback lc ty dels P = Ok (g, P') /\ pools_equiv P' P /\
               Permutation (flatten_g g) (expected_events ty P ++ flatten_g dels) /\
               forall n ds, In (n, ds) dels -> lookup n g = Some ds.
Proof. exact annotate_readback_ok. Qed.
Print Assumptions C12_annotate_readback.

(* ------------------------------------------------------------------------------------------------ *)
(* ONE Pools object under any history (Model/Pools12H.v: heap of shared Pool objects, registry, index)  *)
(* ------------------------------------------------------------------------------------------------ *)
(* every history keeps the registry pointing at existing objects, each under its own pool id *)
Theorem C12_registry_valid_after_any_history : forall ops st, reg_valid st ->
  reg_valid (hfinal st ops) /\ st_type (hfinal st ops) = st_type st.
Proof. exact hrun_valid. Qed.
Print Assumptions C12_registry_valid_after_any_history.

(* build_index_by_delegation_id from ANY state -- whatever index an earlier call left behind, whatever was edited,
   re-delegated or replaced since --: the new index is the index of the CURRENT registry; it changes nothing else *)
Theorem C12_reindex_is_index_of_registry : forall st i0, reg_valid st -> build_index (reg_pools st) = Ok i0 ->
  exists idx, st_index (fst (hstep st HIndex)) = Some idx /\ resolve (st_heap (fst (hstep st HIndex))) idx = i0 /\
              st_heap (fst (hstep st HIndex)) = st_heap st /\ st_reg (fst (hstep st HIndex)) = st_reg st /\
              st_type (fst (hstep st HIndex)) = st_type st.
Proof. exact reindex_is_index_of_registry. Qed.
Print Assumptions C12_reindex_is_index_of_registry.

Theorem C12_reindex_rejects_like_registry : forall st e, reg_valid st -> build_index (reg_pools st) = Err e ->
  snd (hstep st HIndex) = VErr (exn_name e).
Proof. exact reindex_rejects. Qed.
Print Assumptions C12_reindex_rejects_like_registry.

(* the regrouping identity after ANY history of Pool(...), setters on any object, add_pool (incl. replacing a
   pool), build_index, generate, regroup: re-index, generate, read back = the pools the registry holds now *)
Theorem C12_regroup_after_any_history : forall ty ops,
  let st := hfinal (init_state ty) ops in
  pools_wf ty (reg_pools st) = true ->
  exists P', hregroup (fst (hstep st HIndex)) = Ok P' /\ pools_equiv P' (reg_pools st).
Proof. exact regroup_after_any_history. Qed.
Print Assumptions C12_regroup_after_any_history.

Theorem C12_conflict_after_any_history : forall ty ops,
  let st := hfinal (init_state ty) ops in
  forallb (pool_ok ty) (reg_pools st) = true -> no_conflict (reg_pools st) = false ->
  hgenerate (fst (hstep st HIndex)) = Err EDelegation.
Proof. exact conflict_after_any_history. Qed.
Print Assumptions C12_conflict_after_any_history.

(* a read-only query of Pools / Pool (get_node_ids, get_delegation_ids, get_pools_by_delegation_id, strict
   get_pool_by_id, validate_pools, get_type, the getters of a Pool) leaves the state exactly as it was *)
Theorem C12_pools_queries_change_nothing : forall st q, fst (hstep st (HQuery q)) = st.
Proof. exact query_changes_nothing. Qed.
Print Assumptions C12_pools_queries_change_nothing.

(* ------------------------------------------------------------------------------------------------ *)
(* ONE Delegations container under any history (Model/Deleg12H.v: heap of shared Delegation objects,     *)
(* the dictionary as references, the texts produced so far)                                            *)
(* ------------------------------------------------------------------------------------------------ *)
(* every state reachable by Delegation(...), set_details on any object, add_delegations (1..n arguments),
   remove_by_id, queries, to_json, from_json of earlier texts: objects as the API builds them with constructor-built
   details, references valid and of the container's type, ids distinct *)
Theorem C12_container_state_invariant : forall lc ops st, dst_inv lc st ->
  dst_inv lc (dfinal lc st ops) /\ dst_type (dfinal lc st ops) = dst_type st.
Proof. exact drun_inv. Qed.
Print Assumptions C12_container_state_invariant.

(* to_json is a function of the CURRENT content: after ANY history the call returns the encoding of what the
   container holds now, changes nothing, and whenever it succeeds from_json of its result IS the current content *)
Theorem C12_encode_after_any_history : forall lc ty ops doc,
  let st := dfinal lc (dinit ty) ops in
  snd (dstep lc st DEncode) = v_res v_jdoc (to_json (dcontent st)) /\
  dcontent (fst (dstep lc st DEncode)) = dcontent st /\
  (to_json (dcontent st) = Ok doc ->
   map fst doc = map d_id (ds_items (dcontent st)) /\ from_json lc ty doc = Ok (dcontent st)).
Proof. exact encode_after_any_history. Qed.
Print Assumptions C12_encode_after_any_history.

(* the queries and from_json of an earlier text change neither the container nor any delegation object *)
Theorem C12_container_queries_change_nothing : forall lc st o, dop_readonly o = true ->
  dst_heap (fst (dstep lc st o)) = dst_heap st /\ dst_refs (fst (dstep lc st o)) = dst_refs st /\
  dcontent (fst (dstep lc st o)) = dcontent st.
Proof. exact readonly_changes_nothing. Qed.
Print Assumptions C12_container_queries_change_nothing.

(* refused operations, classified against the property text: a refused add_delegations call leaves a PREFIX of its
   arguments in the container (all valid, ids distinct: C12_container_state_invariant) -- residue, but no violation of
   "duplicate ids are always rejected"; build_index, accepted or refused, changes no pool and not the registry *)
Theorem C12_refused_add_residue : forall h ty ks refs,
  exists pre post, ks = pre ++ post /\ fst (dadd h ty refs ks) = refs ++ pre.
Proof. exact dadd_residue. Qed.
Print Assumptions C12_refused_add_residue.

Theorem C12_index_changes_no_pool : forall st,
  st_heap (fst (hstep st HIndex)) = st_heap st /\ st_reg (fst (hstep st HIndex)) = st_reg st.
Proof. exact index_changes_no_pool. Qed.
Print Assumptions C12_index_changes_no_pool.

(* remove_by_id removes exactly the delegation with that id *)
Theorem C12_remove_by_id : forall lc st id,
  ds_items (dcontent (fst (dstep lc st (DRemove id)))) = filter (fun d => negb (str_eqb (d_id d) id)) (ds_items (dcontent st)).
Proof. exact remove_by_id_spec. Qed.
Print Assumptions C12_remove_by_id.

(* ------------------------------------------------------------------------------------------------ *)
(* text level and decode side (Model/Deleg12T.v over Base/Json.v: json.dumps / json.loads)              *)
(* ------------------------------------------------------------------------------------------------ *)
(* on every document the encoder can write, the decoder on raw JSON values IS the typed decoder of the theorems above *)
Theorem C12_text_value_agree : forall lc ty doc, from_json_value lc ty (json_of_doc doc) = from_json lc ty doc.
Proof. exact text_value_agree. Qed.
Print Assumptions C12_text_value_agree.

Theorem C12_details_value_agree : forall lc ty dd, xobj_of_json lc ty (json_of_ddict dd) = obj_of_dict lc ty dd.
Proof. exact xobj_of_ddict. Qed.
Print Assumptions C12_details_value_agree.

(* encode to TEXT, decode the text: the same Delegations (jwfb: the domain of the JSON text model, i.e. no lone
   surrogate code points in the strings and no repeated key) *)
Theorem C12_text_roundtrip : forall lc ds, ds_wf lc ds = true ->
  exists doc, to_json ds = Ok doc /\ to_json_text ds = Ok (jprint (json_of_doc doc)) /\
              (jwfb (json_of_doc doc) = true ->
               from_json_text lc (ds_type ds) (Some (jprint (json_of_doc doc))) = Ok (Some ds)).
Proof. exact text_roundtrip. Qed.
Print Assumptions C12_text_roundtrip.

(* accepted language, the outer layers: None, '', "None" give no Delegations, "{}" the empty set; a top level or an
   entry that is not an object is refused (AttributeError), details that are not an object too (TypeError) *)
Theorem C12_decode_special_inputs : forall lc ty,
  from_json_text lc ty None = Ok None /\ from_json_text lc ty (Some []) = Ok None /\
  from_json_text lc ty (Some neo4j_none) = Ok None /\ from_json_text lc ty (Some (S"{}")) = Ok (Some (mkDs ty [])).
Proof. exact special_inputs. Qed.
Print Assumptions C12_decode_special_inputs.

Theorem C12_decode_rejects_non_objects : forall lc ty,
  (forall v, (forall m, v <> JObj m) -> from_json_value lc ty v = Err e_attribute) /\
  (forall id v, (forall m, v <> JObj m) -> xentry_of_json lc ty id v = Err e_attribute) /\
  (forall v, (forall m, v <> JObj m) -> xobj_of_json lc ty v = Err EType).
Proof. exact decode_rejects_non_objects. Qed.
Print Assumptions C12_decode_rejects_non_objects.

(* decode closure: whatever TEXT is accepted (foreign key order, duplicate and unknown keys, any kinds), the result
   satisfies the API invariants ... *)
Theorem C12_decode_closure : forall lc ty t d, from_json_text lc ty t = Ok (Some d) ->
  ds_type d = ty /\ ds_inv d /\ Forall d_inv (ds_items d).
Proof. exact decode_closure_text. Qed.
Print Assumptions C12_decode_closure.

(* ... its details are constructor-built objects when the JSON object has no null value ... *)
Theorem C12_decoded_details_ok : forall lc ty v x, xobj_of_json lc ty v = Ok x -> no_null_values v = true ->
  det_ok lc x = true.
Proof. exact decoded_details_ok. Qed.
Print Assumptions C12_decoded_details_ok.

(* ... and then decode (encode d') = d' for the decoded d', and encode . decode . encode = encode.
   FULL STATEMENT (false): without the hypothesis on the details -- C12_decode_null_capacity_refuted *)
Theorem C12_decode_encode_decoded_partial : forall lc ty t d doc, from_json_text lc ty t = Ok (Some d) ->
  Forall (fun x => forall y, d_details x = Some y -> det_ok lc y = true) (ds_items d) ->
  to_json d = Ok doc ->
  from_json lc ty doc = Ok d /\ (forall ds2, from_json lc ty doc = Ok ds2 -> to_json ds2 = Ok doc).
Proof. exact decode_encode_decoded. Qed.
Print Assumptions C12_decode_encode_decoded_partial.

Theorem C12_decode_null_capacity_refuted :
  exists d t2 d2, from_json_text accept_all TCap (Some null_cap_text) = Ok (Some d) /\
                  to_json_text d = Ok t2 /\ from_json_text accept_all TCap (Some t2) = Ok (Some d2) /\ d2 <> d.
Proof. exact decode_null_capacity_refuted. Qed.
Print Assumptions C12_decode_null_capacity_refuted.

(* ------------------------------------------------------------------------------------------------ *)
(* non-vacuity: concrete instances of the hypotheses                                                 *)
(* ------------------------------------------------------------------------------------------------ *)

(* the three formats in one container *)

(* a node (node2) defines one pool and references another, under different delegation ids; node1 does the
   same the other way round *)


(* the same two pools under ONE delegation id: node2 would need two entries under "del1" -> conflict *)

Example C12_nonvacuous_roundtrip :
  ds_wf accept_all ex_ds = true /\ det_ok accept_all ex_caps = true /\ det_nonempty ex_caps = true /\
  (exists doc, to_json ex_ds = Ok doc /\ List.length doc = 3%nat /\ from_json accept_all TLab doc = Ok ex_ds) /\
  (* the same three delegations as the API builds them (the set_details on the reference is refused) *)
  ex_api_items = ds_items ex_ds /\
  new_deleg TLab (S"del2") FDef (Some (S"pool1")) = Ok (mkD TLab (S"del2") FDef (Some (S"pool1")) None) /\
  new_deleg TLab (S"del2") FDef (Some single_pool_name) = Err EDelegation /\
  new_deleg TLab (S"del1") FSingle (Some (S"p")) = Ok (mkD TLab (S"del1") FSingle None None).
Proof.
  split; [vm_compute; reflexivity|]. split; [vm_compute; reflexivity|]. split; [vm_compute; reflexivity|].
  split; [eexists; split; [vm_compute; reflexivity|]; split; vm_compute; reflexivity|].
  repeat split; vm_compute; reflexivity.
Qed.

Example C12_nonvacuous_regroup :
  pools_wf TLab ex_pools = true /\ pools_encodable accept_all ex_pools = true /\
  singles_ok accept_all TLab ex_pools ex_single = true /\
  (exists P', regroup TLab ex_pools = Ok P' /\ List.length P' = 2%nat) /\
  (exists g P', annotate_readback accept_all TLab ex_single ex_pools = Ok (g, P') /\ List.length g = 6%nat).
Proof.
  split; [vm_compute; reflexivity|]. split; [vm_compute; reflexivity|]. split; [vm_compute; reflexivity|].
  split; [eexists; split; vm_compute; reflexivity|].
  eexists. eexists. split; vm_compute; reflexivity.
Qed.

Example C12_nonvacuous_conflict :
  forallb (pool_ok TLab) ex_conflict = true /\ no_conflict ex_conflict = false /\
  (exists idx, build_index ex_conflict = Ok idx /\ generate TLab (Some idx) = Err EDelegation).
Proof.
  split; [vm_compute; reflexivity|]. split; [vm_compute; reflexivity|].
  eexists. split; vm_compute; reflexivity.
Qed.

(* a history that leaves a STALE index behind: two pools indexed, then pool1 moved to delegation id del9 and pool2
   replaced by a new object; the old index still lists pool1 under del1 and the old pool2 object; after re-indexing
   the regroup identity holds for the registry as it is now *)
Example C12_nonvacuous_history :
  let st := hfinal (init_state TLab) ex_history in
  pools_wf TLab (reg_pools st) = true /\
  option_map (fun i => v_index (resolve (st_heap st) i)) (st_index st)
    = Some (VL [VL [VS (S"del1"); VL [VS (S"pool1")]]; VL [VS (S"del2"); VL [VS (S"pool2")]]]) /\
  map p_deleg (reg_pools st) = [Some (S"del9"); Some (S"del2")] /\
  (exists P', hregroup (fst (hstep st HIndex)) = Ok P' /\ List.length P' = 2%nat).
Proof.
  split; [vm_compute; reflexivity|]. split; [vm_compute; reflexivity|]. split; [vm_compute; reflexivity|].
  eexists. split; vm_compute; reflexivity.
Qed.

(* encode, remove d1, change d2's details through the object, encode again: the second text is the encoding of the
   two remaining delegations with the new details, and it decodes to the current content *)
Example C12_nonvacuous_container_history :
  let st := dfinal accept_all (dinit TCap) ex_dhistory in
  map d_id (ds_items (dcontent st)) = [S"d2"; S"d3"] /\
  List.length (dst_texts st) = 2%nat /\
  nth_error (dst_texts st) 0 <> nth_error (dst_texts st) 1 /\
  (exists doc, nth_error (dst_texts st) 1 = Some (Ok doc) /\ to_json (dcontent st) = Ok doc /\
               from_json accept_all TCap doc = Ok (dcontent st)).
Proof.
  split; [vm_compute; reflexivity|]. split; [vm_compute; reflexivity|].
  split; [vm_compute; intro H; discriminate H|].
  eexists. split; [vm_compute; reflexivity|]. split; vm_compute; reflexivity.
Qed.

(* the three-format container as text: inside the domain of the JSON text model, and the text decodes to it *)
Example C12_nonvacuous_text :
  exists doc, to_json ex_ds = Ok doc /\ jwfb (json_of_doc doc) = true /\
              from_json_text accept_all TLab (Some (jprint (json_of_doc doc))) = Ok (Some ex_ds) /\
              (* a foreign rendering of it: other key order, whitespace, an unknown key, a repeated id *)
              from_json_text accept_all TLab
                (Some (S" { ""del3"" : {""pool"": ""x""}, ""del1"": {""labels"": {""vlan_range"": ""1-100""}, ""note"": [1, null], ""pool_id"": ""_""}, ""del3"": {""pool"": ""pool1""} } "))
              = Ok (Some (mkDs TLab [ mkD TLab (S"del3") FRef (Some (S"pool1")) None;
                                      mkD TLab (S"del1") FSingle None (Some (ex_labs (S"1-100"))) ])).
Proof.
  eexists. split; [vm_compute; reflexivity|]. split; [vm_compute; reflexivity|]. split; vm_compute; reflexivity.
Qed.

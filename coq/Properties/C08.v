(* C08 - removal and disconnection delete exactly the owned structure and nothing else.
   Only statements; each is closed by `exact` of a lemma from Proofs/T8Frame.v, Proofs/T8Exact.v.
   `exec experiment op caches` (Model/T8Ops.v) is the transcription of the removal / disconnect
   interface of fim/user/{topology,node,network_service,interface}.py over the graph-level removal
   procedures of fim/graph/abc_property_graph.py; `run m g = (result, (g', trace))` executes it from the
   graph g; `trace` lists the deleted node ids. *)
From Coq Require Import List NArith Bool.
From FIM Require Import Model.T8Graph Model.T8Ops Proofs.T8Frame.
Import ListNotations.

(* FRAME, every operation, every graph, every outcome (also after an exception with partial effects):
   the result is the subgraph induced by the survivors *)
Theorem C08_frame_induced_subgraph : forall ex o cs g r g' tr,
  run (exec ex o cs) g = (r, (g', tr)) -> g' = restrict g tr.
Proof. exact frame_exec. Qed.
Print Assumptions C08_frame_induced_subgraph.

(* a node is in the result iff it was there, with the same class, type, name and every other
   property, and was not deleted: nothing appears, nothing that survives is modified *)
Theorem C08_frame_nodes : forall ex o cs g r g' tr,
  run (exec ex o cs) g = (r, (g', tr)) ->
  forall x, In x (gnodes g') <-> In x (gnodes g) /\ ~ In (nid x) tr.
Proof. exact frame_nodes. Qed.
Print Assumptions C08_frame_nodes.

(* every connection between two survivors survives, with its class; no connection appears *)
Theorem C08_frame_edges : forall ex o cs g r g' tr,
  run (exec ex o cs) g = (r, (g', tr)) ->
  forall e, In e (gedges g') <-> In e (gedges g) /\ ~ In (ea e) tr /\ ~ In (eb e) tr.
Proof. exact frame_edges. Qed.
Print Assumptions C08_frame_edges.

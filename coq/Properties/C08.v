(* C08 - removal and disconnection delete exactly the owned structure and nothing else.
   Only statements; each is closed by `exact` of a lemma from Proofs/T8*.v.

   `exec experiment op caches` (Model/T8Ops.v) transcribes the removal / disconnect interface of
   fim/user/{topology,node,network_service,interface}.py over the graph-level removal procedures of
   fim/graph/abc_property_graph.py:1086-1202; `run m g = (result, (g', tr))` executes it from graph g;
   `tr` lists the deleted node ids; `result = inl _` is a normal return, `inr e` an exception (the
   partial effects stay in g' and tr).  All statements quantify over ALL graphs g (no well-formedness
   is assumed unless written), all operations and all arguments. *)
From Coq Require Import List NArith Bool.
From FIM Require Import Model.T8Graph Model.T8Ops Proofs.T8Frame Proofs.T8Query Proofs.T8Sound Proofs.T8SoundTop
     Proofs.T8Complete Proofs.T8Closed Proofs.T8Top Proofs.T8Owned Proofs.T8Handles Proofs.T8Witness.
Import ListNotations.

(* ================= "leaves every other element, property and connection exactly as it was" ============ *)

(* FRAME, every operation, every outcome (also an exception after partial effects): the result is the
   subgraph induced by the survivors *)
Theorem C08_frame_induced_subgraph : forall ex o cs g r g' tr,
  run (exec ex o cs) g = (r, (g', tr)) -> g' = restrict g tr.
Proof. exact frame_exec. Qed.
Print Assumptions C08_frame_induced_subgraph.

(* a node is in the result iff it was there - with the same class, type, name and every other property -
   and was not deleted: nothing appears, nothing that survives is modified *)
Theorem C08_frame_nodes : forall ex o cs g r g' tr,
  run (exec ex o cs) g = (r, (g', tr)) ->
  forall x, In x (gnodes g') <-> In x (gnodes g) /\ ~ In (nid x) tr.
Proof. exact frame_nodes. Qed.
Print Assumptions C08_frame_nodes.

(* every connection between two survivors survives, with its class; no connection appears *)
Theorem C08_frame_edges : forall ex o cs g r g' tr,
  run (exec ex o cs) g = (r, (g', tr)) ->
  forall e, In e (gedges g') <-> In e (gedges g) /\ ~ In (ea e) tr /\ ~ In (eb e) tr.
Proof. exact frame_edges. Qed.
Print Assumptions C08_frame_edges.

(* ================= "and nothing else" ================================================================= *)

(* every deleted id lies in a set described on the INITIAL graph alone (`allowed`, Proofs/T8SoundTop.v):
   the addressed element; what hangs below it by containment (has -> components, services; connects ->
   ports); the connection points next to a removed port (its sub-interfaces); the links attached to
   those; and, for the API-level element removals and disconnect, the connection points peering with an
   interface of the element across a link, with their links.  Every operation, every outcome. *)
Theorem C08_nothing_else_deleted : forall ex o cs g r g' tr,
  run (exec ex o cs) g = (r, (g', tr)) -> forall x, In x tr -> allowed g o x.
Proof. exact sound_exec. Qed.
Print Assumptions C08_nothing_else_deleted.

(* ================= "deletes that element, everything it owns ..." (normal return) ==================== *)

(* the addressed element is deleted (prune: no claim here, `targets g OPrune` is empty) *)
Theorem C08_addressed_element_deleted_partial : forall ex o cs g r g' tr,
  run (exec ex o cs) g = (inl r, (g', tr)) -> forall x, targets g o x -> In x tr.
Proof. exact target_exec. Qed.
Print Assumptions C08_addressed_element_deleted_partial.

(* the set of deleted ids is closed under ownership: a deleted node takes its components and services, a
   deleted component its services, a deleted service its ports, a deleted port the sub-interfaces that
   hang on it alone, a deleted connection point its two-ended links.  Every operation except
   remove_child_interface (which keeps the parent on purpose) and unpeer. *)
Theorem C08_removed_set_closed : forall ex o cs g r g' tr,
  closing o = true -> run (exec ex o cs) g = (inl r, (g', tr)) -> Closed g tr.
Proof. exact closed_exec. Qed.
Print Assumptions C08_removed_set_closed.

(* hence everything the addressed element owns is deleted: O_node / O_comp / O_ns / O_cp are the
   containment closures (Proofs/T8Complete.v).  `_partial`: no claim for prune. *)
Theorem C08_owned_deleted_partial : forall ex o cs g r g' tr,
  run (exec ex o cs) g = (inl r, (g', tr)) -> forall x, owned g o x -> In x tr.
Proof. exact owned_exec. Qed.
Print Assumptions C08_owned_deleted_partial.

(* "... and the link": a link with exactly two ends never survives one of its ends.  Every operation. *)
Theorem C08_two_ended_links_deleted : forall ex o cs g r g' tr,
  run (exec ex o cs) g = (inl r, (g', tr)) ->
  forall l i j, link2 g l i j -> In i tr -> In l tr.
Proof. exact links2_exec. Qed.
Print Assumptions C08_two_ended_links_deleted.

(* "... the service-side port": FULL STATEMENT (false of the code):
     forall ex o cs g r g' tr, run (exec ex o cs) g = (inl r, (g', tr)) ->
       forall l i sp, link2 g l i sp -> type_of g sp = T_ServicePort -> In i tr -> In sp tr.
   Witness: G1, remove_node n1 - the connected sub-interface 6 and its link 17 go, service port 16 stays
   (the disconnect loops only visit first-level interfaces; the same holds for Node.remove_network_service,
   Topology.remove_network_service on peered services, remove_child_interface, prune). *)
Theorem C08_artefact_ports_deleted_refuted :
  exists g nm r g' tr l i sp,
    run (exec true (ORemoveNode nm) []) g = (inl r, (g', tr)) /\
    link2 g l i sp /\ type_of g sp = T_ServicePort /\ In i tr /\ ~ In sp tr.
Proof. exact artefact_ports_deleted_refuted. Qed.
Print Assumptions C08_artefact_ports_deleted_refuted.

(* what IS proved about service-side ports: disconnect_interface and unpeer delete them
   (C08_addressed_element_deleted_partial with targets g (ODisconnect _ i) = the peer of i,
   targets g (OUnpeer a b) = the two path ends), and C08_nothing_else_deleted bounds the rest. *)

(* FULL STATEMENT (false): unpeer a b with no link between a port of a and a port of b deletes nothing. *)
Theorem C08_unpeer_only_peered_refuted :
  exists g a b,
    (forall p, In p (cpn g a) -> forall l, In l (lks g p) -> forall q, In q (cpn g l) -> ~ In q (cpn g b)) /\
    fst (run (exec true (OUnpeer a b) [[3]; [9]]) g) = inl [[]; []] /\
    trace_of (run (exec true (OUnpeer a b) [[3]; [9]]) g) = [3; 4; 8; 9]%N.
Proof. exact unpeer_only_peered_refuted. Qed.
Print Assumptions C08_unpeer_only_peered_refuted.

(* FULL STATEMENT (false): the connection point disconnect_interface deletes is a ServicePort. *)
Theorem C08_disconnect_only_service_port_refuted :
  exists g s i x, In x (snd (snd (run (exec true (ODisconnect s i) [[]]) g))) /\
                  class_of g x = CCP /\ type_of g x <> T_ServicePort.
Proof. exact disconnect_only_service_port_refuted. Qed.
Print Assumptions C08_disconnect_only_service_port_refuted.

(* ================= handles: "report the same interfaces as a freshly looked-up handle" ================ *)

(* disconnect_interface through a service handle whose list was fresh; the hypothesis on the peer says
   it has no neighbouring connection point (a service port has none) *)
Theorem C08_handles_disconnect : forall ex s i c g cs' g' tr,
  run (exec ex (ODisconnect s i) [c]) g = (inl cs', (g', tr)) ->
  class_of g s = CNS ->
  same c (cpn g s) ->
  (forall x, get_peers g i = Some [x] -> cpn g x = []) ->
  exists c', cs' = [c'] /\ same c' (cpn g' s).
Proof. exact handles_disconnect. Qed.
Print Assumptions C08_handles_disconnect.

(* unpeer through two service handles (this is what fix e4d7f01 repaired: the second list) *)
Theorem C08_handles_unpeer : forall ex a b ca cb g cs' g' tr,
  run (exec ex (OUnpeer a b) [ca; cb]) g = (inl cs', (g', tr)) ->
  class_of g a = CNS -> class_of g b = CNS ->
  same ca (cpn g a) -> same cb (cpn g b) ->
  (forall xy, unpeer_ends g a b = Some [xy] ->
     cpn g (fst xy) = [] /\ cpn g (snd xy) = [] /\
     class_of g (fst xy) = CCP /\ class_of g (snd xy) = CCP /\
     ~ In (snd xy) (cpn g a) /\ ~ In (fst xy) (cpn g b)) ->
  exists ca' cb', cs' = [ca'; cb'] /\ same ca' (cpn g' a) /\ same cb' (cpn g' b).
Proof. exact handles_unpeer. Qed.
Print Assumptions C08_handles_unpeer.

(* FULL STATEMENT (false) for remove_interface and remove_child_interface: the handle's list is not updated *)
Theorem C08_handles_remove_interface_refuted :
  exists g s nm c, same c (cpn g s) /\
    exists c' g' tr, run (exec false (ORemoveInterface s nm) [c]) g = (inl [c'], (g', tr)) /\ ~ same c' (cpn g' s).
Proof. exact handles_remove_interface_refuted. Qed.
Print Assumptions C08_handles_remove_interface_refuted.

Theorem C08_handles_remove_child_refuted :
  exists g p nm c, same c (cpn g p) /\
    exists c' g' tr, run (exec true (ORemoveChild p nm) [c]) g = (inl [c'], (g', tr)) /\ ~ same c' (cpn g' p).
Proof. exact handles_remove_child_refuted. Qed.
Print Assumptions C08_handles_remove_child_refuted.

(* what holds for every operation instead (`_partial`: the hypothesis-free part of the handle claim): a fresh
   look-up of a surviving handle reports exactly the old interfaces that survive *)
Theorem C08_handles_fresh_is_filtered_partial : forall ex o cs g r g' tr s,
  run (exec ex o cs) g = (r, (g', tr)) -> ~ In s tr ->
  forall y, In y (cpn g' s) <-> In y (cpn g s) /\ ~ In y tr.
Proof. exact fresh_is_filtered. Qed.
Print Assumptions C08_handles_fresh_is_filtered_partial.

(* ================= non-vacuity ======================================================================== *)
Example C08_nonvacuous_remove_node :
  ok_of (run (exec true (ORemoveNode 10) []) G1) = true /\
  trace_of (run (exec true (ORemoveNode 10) []) G1) = [10; 11; 12; 13; 14; 15]%N /\
  link2 G1 15 13 14 /\ sole G1 5 6.
Proof. split; [apply ex_remove_node_n2|]. split; [apply ex_remove_node_n2|]. split; [exact link2_G1_15 | exact sole_G1_5_6]. Qed.

Example C08_nonvacuous_disconnect :
  class_of G1 7 = CNS /\ sortN (cpn G1 7) = [8; 14; 16]%N /\ get_peers G1 13 = Some [14%N] /\ cpn G1 14 = [] /\
  ok_of (run (exec true (ODisconnect 7 13) [[8; 14; 16]%N]) G1) = true /\
  trace_of (run (exec true (ODisconnect 7 13) [[8; 14; 16]%N]) G1) = [14; 15]%N.
Proof. exact ex_disconnect_hyps. Qed.

Example C08_nonvacuous_unpeer :
  unpeer_ends G2 1 2 = Some [(3, 4)%N] /\ cpn G2 3 = [] /\ cpn G2 4 = [] /\ class_of G2 3 = CCP /\ class_of G2 4 = CCP /\
  cpn G2 1 = [3%N] /\ cpn G2 2 = [4%N] /\
  fst (run (exec true (OUnpeer 1 2) [[3%N]; [4%N]]) G2) = inl [[]; []] /\
  trace_of (run (exec true (OUnpeer 1 2) [[3%N]; [4%N]]) G2) = [3; 4; 5]%N.
Proof. exact ex_unpeer_hyps. Qed.

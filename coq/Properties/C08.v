(* C08 - removal and disconnection delete exactly the owned structure and nothing else.
   Only statements; each is closed by `exact` of a lemma from Proofs/T8*.v.

   `exec experiment op caches` (Model/T8Ops.v) transcribes the removal / disconnect interface of
   fim/user/{topology,node,network_service,interface}.py over the graph-level removal procedures of
   fim/graph/abc_property_graph.py:1086-1202; `run m g = (result, (g', tr))` executes it from graph g;
   `tr` lists the deleted node ids; `result = inl _` is a normal return, `inr e` an exception (the
   partial effects stay in g' and tr).  All statements quantify over ALL graphs g (no well-formedness
   is assumed unless written), all operations and all arguments. *)
From Coq Require Import List NArith Bool.
From FIM Require Import Model.T8Graph Model.T8Ops Proofs.T8Frame Proofs.T8Query Proofs.T8Sound Proofs.T8SoundTop
     Proofs.T8Complete Proofs.T8Closed Proofs.T8Top Proofs.T8Owned Proofs.T8Handles Proofs.T8Fixed Proofs.T8Inv
     Proofs.T8Link Proofs.T8Prune Proofs.T8Art Proofs.T8Eq Proofs.T8Witness.
Import ListNotations.

(* ================= "leaves every other element, property and connection exactly as it was" ============ *)

(* FRAME, every operation, every outcome (also an exception after partial effects): the result is the
   subgraph induced by the survivors *)
Theorem C08_frame_induced_subgraph : forall ex o cs g r g' tr,
  run (exec ex o cs) g = (r, (g', tr)) -> g' = restrict g tr.
Proof. exact frame_exec. Qed.
Print Assumptions C08_frame_induced_subgraph.

(* a node is in the result iff it was there - with the same class, type, name and every other property -
   and was not deleted: nothing appears, nothing that survives is modified *)
Theorem C08_frame_nodes : forall ex o cs g r g' tr,
  run (exec ex o cs) g = (r, (g', tr)) ->
  forall x, In x (gnodes g') <-> In x (gnodes g) /\ ~ In (nid x) tr.
Proof. exact frame_nodes. Qed.
Print Assumptions C08_frame_nodes.

(* every connection between two survivors survives, with its class; no connection appears *)
Theorem C08_frame_edges : forall ex o cs g r g' tr,
  run (exec ex o cs) g = (r, (g', tr)) ->
  forall e, In e (gedges g') <-> In e (gedges g) /\ ~ In (ea e) tr /\ ~ In (eb e) tr.
Proof. exact frame_edges. Qed.
Print Assumptions C08_frame_edges.

(* ================= "and nothing else" ================================================================= *)

(* every deleted id lies in a set described on the INITIAL graph alone (`allowed`, Proofs/T8SoundTop.v):
   the addressed element; what hangs below it by containment (has -> components, services; connects ->
   ports); the connection points next to a removed port (its sub-interfaces); the links attached to
   those; and, for the API-level element removals and disconnect, the connection points peering with an
   interface of the element across a link, with their links.  Every operation, every outcome. *)
Theorem C08_nothing_else_deleted : forall ex o cs g r g' tr,
  run (exec ex o cs) g = (r, (g', tr)) -> forall x, In x tr -> allowed g o x.
Proof. exact sound_exec. Qed.
Print Assumptions C08_nothing_else_deleted.

(* ================= "deletes that element, everything it owns ..." (normal return) ==================== *)

(* the addressed element is deleted (prune: no claim here, `targets g OPrune` is empty) *)
Theorem C08_addressed_element_deleted_partial : forall ex o cs g r g' tr,
  run (exec ex o cs) g = (inl r, (g', tr)) -> forall x, targets g o x -> In x tr.
Proof. exact target_exec. Qed.
Print Assumptions C08_addressed_element_deleted_partial.

(* the set of deleted ids is closed under ownership: a deleted node takes its components and services, a
   deleted component its services, a deleted service its ports, a deleted port the sub-interfaces that
   hang on it alone, a deleted connection point its two-ended links.  Every operation except
   remove_child_interface (which keeps the parent on purpose) and unpeer. *)
Theorem C08_removed_set_closed : forall ex o cs g r g' tr,
  closing o = true -> run (exec ex o cs) g = (inl r, (g', tr)) -> Closed g tr.
Proof. exact closed_exec. Qed.
Print Assumptions C08_removed_set_closed.

(* hence everything the addressed element owns is deleted: O_node / O_comp / O_ns / O_cp are the
   containment closures (Proofs/T8Complete.v).  `_partial`: no claim for prune. *)
Theorem C08_owned_deleted_partial : forall ex o cs g r g' tr,
  run (exec ex o cs) g = (inl r, (g', tr)) -> forall x, owned g o x -> In x tr.
Proof. exact owned_exec. Qed.
Print Assumptions C08_owned_deleted_partial.

(* "... and the link": a link with exactly two ends never survives one of its ends.  Every operation. *)
Theorem C08_two_ended_links_deleted : forall ex o cs g r g' tr,
  run (exec ex o cs) g = (inl r, (g', tr)) ->
  forall l i j, link2 g l i j -> In i tr -> In l tr.
Proof. exact links2_exec. Qed.
Print Assumptions C08_two_ended_links_deleted.

(* "... the service-side port": the ServicePort across a two-ended link from ANY interface the operation
   disconnects - the interfaces of the removed node / facility / switch / component and the sub-interfaces of
   their dedicated ports, the removed sub-interface, the disconnected interface (`disc_ifs`) - is deleted.
   (Refuted before fix edd75a8 for sub-interfaces; holds of the repaired code, all graphs.)  Since fix 18b6247
   `disc_ifs` also covers Node/Topology.remove_network_service: the ports of the removed service and the sub-interfaces of
   its dedicated ports.  NOT claimed for prune: it never disconnects (known finding).
   `self_peer_free g o ii` (needed since fix 5286851 made the disconnect loop skip interfaces that are already gone):
   the interfaces of the element are not connected to each other - ii is not across a link from, nor next to a
   ServicePort across a link from, another interface the operation disconnects. *)
Theorem C08_artefact_ports_deleted : forall ex o cs g r g' tr,
  run (exec ex o cs) g = (inl r, (g', tr)) ->
  forall ii l sp, disc_ifs g o ii -> self_peer_free g o ii ->
                  link2 g l ii sp -> type_of g sp = T_ServicePort -> In sp tr.
Proof. exact artefact_ports_deleted. Qed.
Print Assumptions C08_artefact_ports_deleted.

(* The same WITHOUT the hypothesis on the element's own interfaces, under the well-formedness WP g (distinct ids; a
   connection point has at most one link; a ServicePort has no neighbouring connection point; the edges at links and
   between a service and its ports are `connects` edges): the loop's skip (fix 5286851) is harmless - a skipped
   interface was deleted because it WAS the peering artefact of an earlier iteration, so the port across its link is
   that earlier interface, an interface of the element itself, and goes with the element.  `wpb` decides WP. *)
Theorem C08_artefact_ports_deleted_wf : forall ex o cs g r g' tr,
  WP g -> run (exec ex o cs) g = (inl r, (g', tr)) ->
  forall ii l sp, disc_ifs g o ii -> link2 g l ii sp -> type_of g sp = T_ServicePort -> In sp tr.
Proof. exact artefact_ports_deleted_wf. Qed.
Print Assumptions C08_artefact_ports_deleted_wf.

(* unpeer of two services not joined by service - ServicePort - link - ServicePort - service (four `connects` edges
   whose inner ends are both ServicePorts) raises and deletes nothing, for every graph (refuted before fix 13b815d;
   the ServicePort condition is fix 0d94156) *)
Theorem C08_unpeer_only_peered : forall ex a b cs g r g' tr,
  run (exec ex (OUnpeer a b) cs) g = (r, (g', tr)) ->
  (forall x m y, In x (cn g a) -> In m (cn g x) -> In y (cn g m) -> In b (cn g y) ->
                 ~ (type_of g x = T_ServicePort /\ type_of g y = T_ServicePort)) ->
  (exists e, r = inr e) /\ tr = [] /\ g' = g.
Proof. exact unpeer_only_peered. Qed.
Print Assumptions C08_unpeer_only_peered.

(* everything disconnect_interface deletes is a ServicePort peering with the interface, a connection point
   next to that port, or a link attached to them; every outcome, every graph (refuted before fix 13b815d) *)
Theorem C08_disconnect_only_service_port : forall ex s i cs g r g' tr,
  run (exec ex (ODisconnect s i) cs) g = (r, (g', tr)) ->
  forall x, In x tr ->
  exists p, In p (peer_cps g i) /\ type_of g p = T_ServicePort /\ U_cp g p true x.
Proof. exact disconnect_only_service_port. Qed.
Print Assumptions C08_disconnect_only_service_port.

(* Topology.remove_link on a link that carries a ServicePort (made by connect_interface / peer): raises, nothing
   changes (fix 65db950).  Every graph. *)
Theorem C08_remove_link_refuses_peering_link : forall ex nm cs g r g' tr,
  run (exec ex (ORemoveLink nm) cs) g = (r, (g', tr)) ->
  (forall l, In l (by_name g CLink nm) -> link_has_service_port g l = true) ->
  (exists e, r = inr e) /\ tr = [] /\ g' = g.
Proof. exact remove_link_refuses_peering_link. Qed.
Print Assumptions C08_remove_link_refuses_peering_link.

(* removal operations act on the MODEL regardless of the handle's cached interface list: whatever lists the handles
   carry (current, stale, empty), the resulting graph, the deleted ids and the outcome (normal / which exception)
   are the same.  Every operation, every graph. *)
Theorem C08_cache_independent : forall ex o cs cs' g,
  same_eff (run (exec ex o cs) g) (run (exec ex o cs') g).
Proof. exact cache_independent. Qed.
Print Assumptions C08_cache_independent.

(* ================= links of any number of ends: the exact equation =====================================
   The code deletes a link inside remove_cp_and_links when "exactly two interfaces connect to it" at the moment of
   that call.  WL g: no link has two ends inside one port family (two ends next to each other, or next to a common
   connection point).  Under WL each call takes at most one end of a given link and the order of the calls does not
   matter.  Every operation except remove_link (which deletes the link itself) and the legacy path-based unpeer: *)
Theorem C08_link_deleted_iff : forall ex o cs g r g' tr,
  WL g -> liftable o = true -> run (exec ex o cs) g = (inl r, (g', tr)) ->
  forall l, class_of g l = CLink ->
    (In l tr <-> ((2 <= length (cpn g l))%nat /\ (length (surv tr (cpn g l)) <= 1)%nat /\
                  exists e, In e (cpn g l) /\ In e tr)).
Proof. exact link_deleted_iff. Qed.
Print Assumptions C08_link_deleted_iff.

(* Without WL the equation is false: G11 - a port and its sub-interface are both ends of a three-ended link; removing
   the port takes both in ONE call after ONE test, the link stays with a single end.  (For a node with several
   components the outcome then also depends on Python's set iteration order; the harness does not compare such
   states with the model.) *)
Theorem C08_link_iff_needs_WL :
  wlb G11 = false /\
  ok_of (run (exec false (ORemoveInterface 1 2) [[2%N]]) G11) = true /\
  trace_of (run (exec false (ORemoveInterface 1 2) [[2%N]]) G11) = [2; 3]%N /\
  class_of G11 4 = CLink /\ sortN (cpn G11 4) = [2; 3; 5]%N /\
  surv (snd (snd (run (exec false (ORemoveInterface 1 2) [[2%N]]) G11))) (cpn G11 4) = [5%N].
Proof. exact link_iff_needs_WL. Qed.
Print Assumptions C08_link_iff_needs_WL.

(* ================= THE EQUATION: deleted = owned U artefacts =========================================
   For the element removals (remove_node / remove_facility / remove_switch / remove_component /
   Topology.remove_network_service / Node.remove_network_service) that return normally on a well-formed graph, the
   upper bound (C08_nothing_else_deleted) and the lower bounds (owned, artefact ports, links) meet:
     - a node that is not a link is deleted  <->  the addressed element owns it, or it is the ServicePort across a
       two-ended link from one of the element's interfaces (sub-interfaces of dedicated ports included);
     - a link is deleted  <->  it had >= 2 ends, lost >= 1 and <= 1 survives.
   WQ g = WP g (distinct ids, <= 1 link per connection point, ServicePorts have no neighbouring connection point,
   `connects` edges at links and between services and ports) + WL g (no link with two ends in one port family) +
   sub-interfaces hang on their port alone + a link that carries a ServicePort has exactly two ends.  `wqb` decides it;
   the harness reports how many generated states satisfy it. *)
Theorem C08_deleted_nonlinks_iff : forall ex o cs g r g' tr,
  WQ g -> element_removal o = true -> run (exec ex o cs) g = (inl r, (g', tr)) ->
  forall x, class_of g x <> CLink -> (In x tr <-> owned g o x \/ artefact g o x).
Proof. exact deleted_nonlinks_iff. Qed.
Print Assumptions C08_deleted_nonlinks_iff.

Theorem C08_deleted_links_iff : forall ex o cs g r g' tr,
  WQ g -> element_removal o = true -> run (exec ex o cs) g = (inl r, (g', tr)) ->
  forall l, class_of g l = CLink ->
    (In l tr <-> ((2 <= length (cpn g l))%nat /\ (length (surv tr (cpn g l)) <= 1)%nat /\
                  exists e, In e (cpn g l) /\ In e tr)).
Proof. exact deleted_links_iff. Qed.
Print Assumptions C08_deleted_links_iff.

(* ================= prune as repaired by proposed_fixes/C08-7 (operation OPrune7) ======================
   Selected by the harness when the running library's _prune_ns contains the node_exists guard.  Every removal step
   skips what an earlier step already removed, services and interfaces are disconnected before the graph-level
   removal.  ids_distinct g: node ids are distinct (add_node guarantees it). *)
Theorem C08_prune7_targets_deleted : forall ex cs g r g' tr,
  ids_distinct g -> run (exec ex OPrune7 cs) g = (inl r, (g', tr)) ->
  forall x, prune_target g x -> In x tr.
Proof. exact prune7_targets. Qed.
Print Assumptions C08_prune7_targets_deleted.

Theorem C08_prune7_owned_deleted : forall ex cs g r g' tr,
  ids_distinct g -> run (exec ex OPrune7 cs) g = (inl r, (g', tr)) ->
  forall x, prune_owned g x -> In x tr.
Proof. exact prune7_owned. Qed.
Print Assumptions C08_prune7_owned_deleted.

(* ================= prune as extended by proposed_fixes/C08-8 (operation OPrune8) ======================
   The collection phase also visits the sub-interfaces of the service ports; a sub-interface in the pruned state is
   disconnected and removed WITHOUT the port above it (the port is not owned by its sub-interface).  Selected by the
   harness when the running library's _prune_interface mentions delete_parent. *)
Theorem C08_prune8_targets_deleted : forall ex cs g r g' tr,
  ids_distinct g -> run (exec ex OPrune8 cs) g = (inl r, (g', tr)) ->
  forall x, prune_target8 g x -> In x tr.
Proof. exact prune8_targets. Qed.
Print Assumptions C08_prune8_targets_deleted.

(* ... and nothing but what removing each marked element may delete: for a marked SubInterface i that is U_cp g i false
   (itself and the links attached to it - not the port above it) plus what disconnecting it deletes *)
Theorem C08_prune8_nothing_else : forall ex cs g r g' tr,
  run (exec ex OPrune8 cs) g = (r, (g', tr)) -> forall x, In x tr -> A_prune8 g x.
Proof. exact (fun ex cs g r g' tr E x Hx => sound_exec ex OPrune8 cs g r g' tr E x Hx). Qed.
Print Assumptions C08_prune8_nothing_else.

(* ================= prune as extended by proposed_fixes/C08-9 (operation OPrune9) ======================
   The collection phase also visits the Facility nodes (Topology.nodes leaves them out) and removes a Facility node in
   the pruned state with remove_facility; everything else as OPrune8.  Selected by the harness when the running
   library's prune mentions facilities and _prune_node mentions remove_facility. *)
Theorem C08_prune9_targets_deleted : forall ex cs g r g' tr,
  ids_distinct g -> run (exec ex OPrune9 cs) g = (inl r, (g', tr)) ->
  forall x, prune_target9 g x -> In x tr.
Proof. exact prune9_targets. Qed.
Print Assumptions C08_prune9_targets_deleted.

(* ... and nothing but what removing each marked element may delete (a marked Facility node: what remove_facility of
   that name may delete, A_node) *)
Theorem C08_prune9_nothing_else : forall ex cs g r g' tr,
  run (exec ex OPrune9 cs) g = (r, (g', tr)) -> forall x, In x tr -> A_prune9 g x.
Proof. exact (fun ex cs g r g' tr E x Hx => sound_exec ex OPrune9 cs g r g' tr E x Hx). Qed.
Print Assumptions C08_prune9_nothing_else.

(* ================= handles: "report the same interfaces as a freshly looked-up handle" ================ *)

(* disconnect_interface through a service handle whose list was fresh; the hypothesis on the peer says
   it has no neighbouring connection point (a service port has none) *)
Theorem C08_handles_disconnect : forall ex s i c g cs' g' tr,
  run (exec ex (ODisconnect s i) [c]) g = (inl cs', (g', tr)) ->
  class_of g s = CNS ->
  same c (cpn g s) ->
  (forall x, get_peers_typed g i T_ServicePort = Some [x] -> cpn g x = []) ->
  exists c', cs' = [c'] /\ same c' (cpn g' s).
Proof. exact handles_disconnect. Qed.
Print Assumptions C08_handles_disconnect.

(* unpeer through two service handles (this is what fix e4d7f01 repaired: the second list) *)
Theorem C08_handles_unpeer : forall ex a b ca cb g cs' g' tr,
  run (exec ex (OUnpeer a b) [ca; cb]) g = (inl cs', (g', tr)) ->
  class_of g a = CNS -> class_of g b = CNS ->
  same ca (cpn g a) -> same cb (cpn g b) ->
  (forall xy, unpeer_ends g a b = Some [xy] ->
     cpn g (fst xy) = [] /\ cpn g (snd xy) = [] /\
     class_of g (fst xy) = CCP /\ class_of g (snd xy) = CCP /\
     ~ In (snd xy) (cpn g a) /\ ~ In (fst xy) (cpn g b)) ->
  exists ca' cb', cs' = [ca'; cb'] /\ same ca' (cpn g' a) /\ same cb' (cpn g' b).
Proof. exact handles_unpeer. Qed.
Print Assumptions C08_handles_unpeer.

(* remove_interface (refuted before fix 4c6e5fb).  Hypothesis: no two ports of the service are next to each other *)
Theorem C08_handles_remove_interface : forall ex s nm c g cs' g' tr,
  run (exec ex (ORemoveInterface s nm) [c]) g = (inl cs', (g', tr)) ->
  class_of g s = CNS ->
  same c (cpn g s) ->
  (forall i y, In i (cpn g s) -> In y (cpn g s) -> ~ In y (cpn g i)) ->
  exists c', cs' = [c'] /\ same c' (cpn g' s).
Proof. exact handles_remove_interface. Qed.
Print Assumptions C08_handles_remove_interface.

(* remove_child_interface (refuted before 4c6e5fb).  Hypotheses: the port is not next to itself; a peer of one of
   its sub-interfaces has no neighbouring connection point and is neither the port nor one of its sub-interfaces *)
Theorem C08_handles_remove_child : forall ex p nm c g cs' g' tr,
  run (exec ex (ORemoveChild p nm) [c]) g = (inl cs', (g', tr)) ->
  same c (cpn g p) ->
  ~ In p (cpn g p) ->
  (forall i x, In i (cpn g p) -> In x (peer_cps g i) -> cpn g x = [] /\ x <> p /\ ~ In x (cpn g p)) ->
  exists c', cs' = [c'] /\ same c' (cpn g' p).
Proof. exact handles_remove_child. Qed.
Print Assumptions C08_handles_remove_child.

(* and for every operation (`_partial`: the hypothesis-free part of the handle claim): a fresh
   look-up of a surviving handle reports exactly the old interfaces that survive *)
Theorem C08_handles_fresh_is_filtered_partial : forall ex o cs g r g' tr s,
  run (exec ex o cs) g = (r, (g', tr)) -> ~ In s tr ->
  forall y, In y (cpn g' s) <-> In y (cpn g s) /\ ~ In y tr.
Proof. exact fresh_is_filtered. Qed.
Print Assumptions C08_handles_fresh_is_filtered_partial.

(* ================= unpeer as rewritten by proposed_fixes/C08-6 (operation OUnpeer6) ==================
   The harness reads the RUNNING library (inspect.getsource(NetworkService.unpeer)): while unpeer still calls
   get_nodes_on_shortest_path the correspondence uses OUnpeer (theorems above); once C08-6 has landed it uses OUnpeer6
   and the statements below are the ones about the code.  `unpeer_pairs g a b` = the pairs (x, y): x a ServicePort of a,
   y a ServicePort across one of x's links, b the one service y is connected to.  ALL pairs are removed. *)

(* unpeer succeeds EXACTLY when the two services peer (for every graph; a is a service) *)
Theorem C08_unpeer6_succeeds_iff : forall ex a b cs g,
  class_of g a = CNS ->
  ((exists cs' g' tr, run (exec ex (OUnpeer6 a b) cs) g = (inl cs', (g', tr))) <-> unpeer_pairs g a b <> []).
Proof. exact unpeer6_succeeds_iff. Qed.
Print Assumptions C08_unpeer6_succeeds_iff.

(* no peering pair: "do not peer", nothing changes *)
Theorem C08_unpeer6_not_peered : forall ex a b cs g r g' tr,
  run (exec ex (OUnpeer6 a b) cs) g = (r, (g', tr)) -> unpeer_pairs g a b = [] ->
  (exists e, r = inr e) /\ tr = [] /\ g' = g.
Proof. exact unpeer6_not_peered. Qed.
Print Assumptions C08_unpeer6_not_peered.

(* it removes exactly the peering: both ends of every pair are deleted, and whatever is deleted is such an end, a
   connection point next to one, or a link attached to them (the two-ended links go by C08_two_ended_links_deleted) *)
Theorem C08_unpeer6_removes_exactly : forall ex a b cs g r g' tr,
  run (exec ex (OUnpeer6 a b) cs) g = (inl r, (g', tr)) ->
  (forall xy, In xy (unpeer_pairs g a b) -> In (fst xy) tr /\ In (snd xy) tr) /\
  (forall x, In x tr -> exists xy, In xy (unpeer_pairs g a b) /\ (U_cp g (fst xy) true x \/ U_cp g (snd xy) true x)).
Proof. exact unpeer6_removes_exactly. Qed.
Print Assumptions C08_unpeer6_removes_exactly.

Theorem C08_handles_unpeer6 : forall ex a b ca cb g cs' g' tr,
  run (exec ex (OUnpeer6 a b) [ca; cb]) g = (inl cs', (g', tr)) ->
  class_of g a = CNS -> class_of g b = CNS ->
  same ca (cpn g a) -> same cb (cpn g b) ->
  (forall xy, In xy (unpeer_pairs g a b) ->
     cpn g (fst xy) = [] /\ cpn g (snd xy) = [] /\ ~ In (snd xy) (cpn g a) /\ ~ In (fst xy) (cpn g b)) ->
  exists ca' cb', cs' = [ca'; cb'] /\ same ca' (cpn g' a) /\ same cb' (cpn g' b).
Proof. exact handles_unpeer6. Qed.
Print Assumptions C08_handles_unpeer6.

(* ================= non-vacuity ======================================================================== *)
Example C08_nonvacuous_remove_node :
  ok_of (run (exec true (ORemoveNode 10) []) G1) = true /\
  trace_of (run (exec true (ORemoveNode 10) []) G1) = [10; 11; 12; 13; 14; 15]%N /\
  link2 G1 15 13 14 /\ sole G1 5 6.
Proof. split; [apply ex_remove_node_n2|]. split; [apply ex_remove_node_n2|]. split; [exact link2_G1_15 | exact sole_G1_5_6]. Qed.

Example C08_nonvacuous_disconnect :
  class_of G1 7 = CNS /\ sortN (cpn G1 7) = [8; 14; 16]%N /\ get_peers_typed G1 13 T_ServicePort = Some [14%N] /\ cpn G1 14 = [] /\
  ok_of (run (exec true (ODisconnect 7 13) [[8; 14; 16]%N]) G1) = true /\
  trace_of (run (exec true (ODisconnect 7 13) [[8; 14; 16]%N]) G1) = [14; 15]%N.
Proof. exact ex_disconnect_hyps. Qed.

Example C08_nonvacuous_unpeer :
  unpeer_ends G2 1 2 = Some [(3, 4)%N] /\ cpn G2 3 = [] /\ cpn G2 4 = [] /\ class_of G2 3 = CCP /\ class_of G2 4 = CCP /\
  cpn G2 1 = [3%N] /\ cpn G2 2 = [4%N] /\
  fst (run (exec true (OUnpeer 1 2) [[3%N]; [4%N]]) G2) = inl [[]; []] /\
  trace_of (run (exec true (OUnpeer 1 2) [[3%N]; [4%N]]) G2) = [3; 4; 5]%N.
Proof. exact ex_unpeer_hyps. Qed.

(* the connected sub-interface 6 of n1 is one of the disconnected interfaces; its service port 16 goes *)
Example C08_nonvacuous_artefact :
  ok_of (run (exec true (ORemoveNode 1) []) G1) = true /\
  trace_of (run (exec true (ORemoveNode 1) []) G1) = [1; 2; 3; 4; 5; 6; 8; 9; 16; 17]%N /\
  sortN (disc_list G1 (node_interface_list G1 1)) = [4; 5; 6]%N /\ topo_nodes G1 1 = [1%N] /\
  type_of G1 16 = T_ServicePort /\ link2 G1 17 6 16 /\ self_peer_free G1 (ORemoveNode 1) 6.
Proof. repeat (split; [apply ex_remove_node_n1|]). split; [exact link2_G1_17 | exact G1_self_peer_free]. Qed.

Example C08_nonvacuous_remove_peering_link :
  by_name G2 CLink 5 = [5%N] /\ link_has_service_port G2 5 = true /\
  fst (run (exec true (ORemoveLink 5) []) G2) = inr ETopology.
Proof. repeat (split; [apply ex_remove_peering_link|]). apply ex_remove_peering_link. Qed.

Example C08_nonvacuous_not_peered :
  (forall x m y, In x (cn G3 1) -> In m (cn G3 x) -> In y (cn G3 m) -> In 2%N (cn G3 y) ->
                 ~ (type_of G3 x = T_ServicePort /\ type_of G3 y = T_ServicePort)) /\
  fst (run (exec true (OUnpeer 1 2) [[3%N]; [9%N]]) G3) = inr ETopology /\
  (* a chain exists but one end is a node port *)
  unpeer_ends G7 1 5 = Some [(2, 4)%N] /\ both_sp G7 (2, 4)%N = false /\
  fst (run (exec true (OUnpeer 1 5) [[2%N]; [4%N]]) G7) = inr ETopology.
Proof.
  split; [intros x m y A B C D _; exact (G3_not_peered x m y A B C D)|].
  split; [apply ex_unpeer_not_peered|]. repeat (split; [apply ex_unpeer_node_port|]). apply ex_unpeer_node_port.
Qed.

(* removing a peered service through the API takes the other service's port with it *)
Example C08_nonvacuous_remove_peered_service :
  by_name G2 CNS 1 = [1%N] /\ disc_list G2 (cpn G2 1) = [3%N] /\ type_of G2 4 = T_ServicePort /\
  ok_of (run (exec true (ORemoveNsTopo 1) []) G2) = true /\
  trace_of (run (exec true (ORemoveNsTopo 1) []) G2) = [1; 3; 4; 5]%N /\ link2 G2 5 3 4.
Proof. repeat (split; [apply ex_remove_peered_service|]). exact link2_G2_5. Qed.

Example C08_nonvacuous_handles_remove :
  class_of G5 1 = CNS /\ cpn G5 1 = [2%N] /\ cpn G5 2 = [] /\
  fst (run (exec false (ORemoveInterface 1 7) [[2%N]]) G5) = inl [[]] /\
  cpn G6 1 = [2%N] /\ peer_cps G6 2 = [] /\
  fst (run (exec true (ORemoveChild 1 7) [[2%N]]) G6) = inl [[]].
Proof.
  destruct ex_remove_interface_handle as [A [B [C D]]]. destruct ex_remove_child_handle as [E [F G]].
  repeat split; assumption.
Qed.

(* "peered and connected" (G8): the path-based unpeer is ambiguous, the rewrite removes exactly the peering *)
Example C08_nonvacuous_unpeer6 :
  (exists l, unpeer_ends G8 1 5 = Some l /\ length l = 2%nat) /\
  fst (run (exec true (OUnpeer 1 5) [[2; 6]%N; [4; 8]%N]) G8) = inr EAmbig /\
  unpeer_pairs G8 1 5 = [(6, 8)%N] /\ cpn G8 6 = [] /\ cpn G8 8 = [] /\ class_of G8 1 = CNS /\
  fst (run (exec true (OUnpeer6 1 5) [[2; 6]%N; [4; 8]%N]) G8) = inl [[2%N]; [4%N]] /\
  trace_of (run (exec true (OUnpeer6 1 5) [[2; 6]%N; [4; 8]%N]) G8) = [6; 7; 8]%N.
Proof. exact ex_unpeer6_peered_and_connected. Qed.

(* three-ended link (G10, WL holds): it survives the loss of one end and goes with the second *)
Example C08_nonvacuous_three_end_link :
  WL G10 /\ WL G1 /\
  trace_of (run (exec false (ORemoveNsTopo 5) []) G10) = [2; 5]%N /\
  trace_of (run (exec false (ORemoveNsTopo 6) []) (fst (snd (run (exec false (ORemoveNsTopo 5) []) G10)))) = [1; 3; 6]%N.
Proof. split; [exact WL_G10|]. split; [exact WL_G1|]. exact ex_three_end_link. Qed.

(* a node whose own two services peer with each other (G12): WP holds, the loop skips port 5, everything goes *)
Example C08_nonvacuous_own_services_peer :
  WP G12 /\ WP G1 /\ link2 G12 6 5 4 /\
  ok_of (run (exec true (ORemoveNode 1) []) G12) = true /\
  trace_of (run (exec true (ORemoveNode 1) []) G12) = [1; 2; 3; 4; 5; 6]%N /\
  topo_nodes G12 1 = [1%N] /\ sortN (disc_list G12 (node_interface_list G12 1)) = [4; 5]%N /\
  peer_cps G12 4 = [5%N] /\ type_of G12 4 = T_ServicePort.
Proof. split; [exact WP_G12|]. split; [exact WP_G1|]. split; [exact link2_G12|]. exact ex_own_services_peer. Qed.

Example C08_nonvacuous_equation : WQ G1 /\ WQ G12 /\ WQ G10.
Proof. split; [exact WQ_G1|]. split; [exact WQ_G12 | exact WQ_G10]. Qed.

(* an only-child sub-interface in the pruned state (G13): pruned alone, the port above it stays *)
Example C08_nonvacuous_prune8 :
  trace_of (run (exec true OPrune7 []) G13) = [] /\
  ok_of (run (exec true OPrune8 []) G13) = true /\
  trace_of (run (exec true OPrune8 []) G13) = [3%N] /\
  with_children G13 2 = [2; 3]%N /\ marked G13 3 = true.
Proof. exact ex_prune_only_child. Qed.

(* a Facility node in the pruned state (G14): not visited before C08-9, removed with its service, port and the peering
   artefacts afterwards; the other service stays *)
Example C08_nonvacuous_prune9 :
  trace_of (run (exec true OPrune8 []) G14) = [] /\
  ok_of (run (exec true OPrune9 []) G14) = true /\
  trace_of (run (exec true OPrune9 []) G14) = [1; 2; 3; 4; 5]%N /\
  prune_nodes G14 = [] /\ all_of_class G14 CNode = [1%N] /\ type_of G14 1 = T_Facility /\ marked G14 1 = true.
Proof. exact ex_prune_facility. Qed.

(* a plain link on a SUB-INTERFACE (G15): removing the component / node that owns the port above it deletes the link
   together with the sub-interface; G15 satisfies WQ, so C08_deleted_links_iff / C08_deleted_nonlinks_iff apply to it *)
Example C08_nonvacuous_link_on_subinterface :
  WQ G15 /\
  ok_of (run (exec true (ORemoveComponent 1 2) []) G15) = true /\
  trace_of (run (exec true (ORemoveComponent 1 2) []) G15) = [2; 3; 4; 5; 6]%N /\
  ok_of (run (exec true (ORemoveNode 1) []) G15) = true /\
  trace_of (run (exec true (ORemoveNode 1) []) G15) = [1; 2; 3; 4; 5; 6]%N /\
  type_of G15 5 = T_SubInterface /\ first_neighbor G15 6 RConnects CCP = [5; 7]%N.
Proof. split; [exact WQ_G15 | exact ex_link_on_subinterface]. Qed.

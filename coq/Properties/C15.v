(* C15 - capacity arithmetic and comparison obey their algebraic laws.
   Only statements; each is closed by `exact` of a lemma from Proofs/CapsAlg.v.  The operators
   cadd/csub/cgt/clt/ceq/negative_fields/cfree/to_json/to_str are Model/Caps.v instantiated with the
   per-field bodies REGENERATED from fim/slivers/capacities_labels.py (Gen/CapsGen.v). *)
From Coq Require Import List ZArith String Bool NArith.
From FIM Require Import Base.Str Gen.CapsGen Model.Caps Proofs.CapsAlg.
Import ListNotations.
Open Scope Z_scope.

(* the translator recognised every operator body (fail-closed flag) *)
Theorem C15_translated : gen_ok = true.
Proof. exact gen_ok_true. Qed.
Print Assumptions C15_translated.

Theorem C15_add_sub_cancel : forall a b, List.length a = List.length b -> csub (cadd a b) b = a.
Proof. exact add_sub_cancel. Qed.
Print Assumptions C15_add_sub_cancel.

Theorem C15_add_comm : forall a b, cadd a b = cadd b a.
Proof. exact add_comm. Qed.
Print Assumptions C15_add_comm.

Theorem C15_add_assoc : forall a b c, cadd (cadd a b) c = cadd a (cadd b c).
Proof. exact add_assoc. Qed.
Print Assumptions C15_add_assoc.

Theorem C15_fieldwise_add : forall a b i, (i < List.length a)%nat -> (i < List.length b)%nat ->
  nth i (cadd a b) 0 = nth i a 0 + nth i b 0.
Proof. exact fieldwise_add. Qed.
Print Assumptions C15_fieldwise_add.

Theorem C15_fieldwise_sub : forall a b i, (i < List.length a)%nat -> (i < List.length b)%nat ->
  nth i (csub a b) 0 = nth i a 0 - nth i b 0.
Proof. exact fieldwise_sub. Qed.
Print Assumptions C15_fieldwise_sub.

Theorem C15_free_is_total_minus_allocated : forall t a, cfree t a = csub t a.
Proof. exact free_is_sub. Qed.
Print Assumptions C15_free_is_total_minus_allocated.

Theorem C15_free_plus_allocated : forall t a, List.length t = List.length a -> cadd (cfree t a) a = t.
Proof. exact free_plus_allocated. Qed.
Print Assumptions C15_free_plus_allocated.

(* "a fits in b exactly when b-a has no negative field" (a < b is the code's "fits within") *)
Theorem C15_lt_iff_sub_nonneg : forall a b, wf a -> wf b -> (clt a b = true <-> negative_fields (csub b a) = []).
Proof. exact lt_iff. Qed.
Print Assumptions C15_lt_iff_sub_nonneg.

Theorem C15_gt_iff_sub_nonneg : forall a b, wf a -> wf b -> (cgt a b = true <-> negative_fields (csub a b) = []).
Proof. exact gt_iff. Qed.
Print Assumptions C15_gt_iff_sub_nonneg.

(* negative fields are reported by name, exactly *)
Theorem C15_negative_fields_exact : forall c f,
  In f (negative_fields c) <-> exists v, In (f, v) (named c) /\ v < 0.
Proof. exact negative_fields_exact. Qed.
Print Assumptions C15_negative_fields_exact.

Theorem C15_field_names_distinct : NoDup cap_fields.
Proof. exact fields_nodup. Qed.
Print Assumptions C15_field_names_distinct.

Theorem C15_eq_exact : forall a b, List.length a = List.length b -> (ceq a b = true <-> a = b).
Proof. exact eq_iff. Qed.
Print Assumptions C15_eq_exact.

Theorem C15_eq_refl : forall a, ceq a a = true.
Proof. exact eq_refl. Qed.
Print Assumptions C15_eq_refl.

Theorem C15_eq_sym : forall a b, ceq a b = ceq b a.
Proof. exact eq_sym. Qed.
Print Assumptions C15_eq_sym.

(* a result with a negative field is representable and printable: the printers are total functions
   (to_json / to_str are Gallina definitions), a negative field is never dropped, the decimal text
   reads back as the same integer, and the thousands separators only insert commas *)
Theorem C15_negative_field_kept : forall c f v, In (f, v) (named c) -> v < 0 -> In (f, v) (kept c).
Proof. exact negative_kept. Qed.
Print Assumptions C15_negative_field_kept.

Theorem C15_print_int_roundtrip : forall z, Z_of_str (str_of_Z z) = Some z.
Proof. exact print_int_roundtrip. Qed.
Print Assumptions C15_print_int_roundtrip.

Theorem C15_commas_only_insert : forall z, strip_commas (commas z) = str_of_Z z.
Proof. exact commas_strip. Qed.
Print Assumptions C15_commas_only_insert.

Theorem C15_units_cover_fields :
  forallb (fun f => existsb (fun u => String.eqb (fst u) f) cap_units) cap_fields = true.
Proof. exact units_cover. Qed.
Print Assumptions C15_units_cover_fields.

(* non-vacuity: the hypotheses are met by concrete non-trivial values *)
Example C15_nonvacuous :
  let a := [4; 8; 64; 500; 100; 0; 1; 9000] in
  let b := [1; 2; 128; 10; 0; 0; 0; 0] in
  wf a /\ wf b /\ clt a b = false /\ negative_fields (csub b a) <> [] /\
  negative_fields (csub a b) = ["ram"%string] /\ cadd (cfree a b) b = a.
Proof. vm_compute. repeat split; discriminate. Qed.

(* ---------------- extension round: further laws, FreeCapacity, allocation histories ---------------- *)
From Coq Require Import Permutation.

Theorem C15_sub_add_cancel : forall a b, List.length a = List.length b -> cadd (csub a b) b = a.
Proof. exact sub_add_cancel. Qed.
Print Assumptions C15_sub_add_cancel.

Theorem C15_sub_self_is_zero : forall a, csub a a = repeat 0 (List.length a).
Proof. exact sub_self. Qed.
Print Assumptions C15_sub_self_is_zero.

Theorem C15_add_zero : forall a, cadd a (repeat 0 (List.length a)) = a.
Proof. exact add_zero_r. Qed.
Print Assumptions C15_add_zero.

(* Capacities() is the all-zero value of the current field list *)
Theorem C15_default_is_zero : czero = repeat 0 nfields.
Proof. exact czero_repeat. Qed.
Print Assumptions C15_default_is_zero.

(* FreeCapacity(total=t, allocated=None): everything is free *)
Theorem C15_free_of_nothing_is_total : forall t, wf t -> cfree_none t = t.
Proof. exact free_none. Qed.
Print Assumptions C15_free_of_nothing_is_total.

(* FreeCapacity.<field> is total.<field> - allocated.<field>, for every field of the generated list *)
Theorem C15_free_field_access : forall t a i f, wf t -> wf a -> nth_error cap_fields i = Some f ->
  free_get f t a = Some (nth i t 0 - nth i a 0).
Proof. exact free_get_is_difference. Qed.
Print Assumptions C15_free_field_access.

(* 'fits within': a < b is b > a; it is the field-wise order, hence reflexive (the documented reading),
   antisymmetric and transitive *)
Theorem C15_lt_gt_dual : forall a b, clt a b = cgt b a.
Proof. exact lt_gt_dual. Qed.
Print Assumptions C15_lt_gt_dual.

Theorem C15_fits_fieldwise : forall a b, List.length a = List.length b ->
  (clt a b = true <-> forall i, (i < List.length a)%nat -> nth i a 0 <= nth i b 0).
Proof. exact fits_fieldwise. Qed.
Print Assumptions C15_fits_fieldwise.

Theorem C15_fits_refl : forall a, clt a a = true.
Proof. exact fits_refl. Qed.
Print Assumptions C15_fits_refl.

Theorem C15_fits_antisym : forall a b, List.length a = List.length b -> clt a b = true -> clt b a = true -> a = b.
Proof. exact fits_antisym. Qed.
Print Assumptions C15_fits_antisym.

Theorem C15_fits_trans : forall a b c, List.length a = List.length b -> List.length b = List.length c ->
  clt a b = true -> clt b c = true -> clt a c = true.
Proof. exact fits_trans. Qed.
Print Assumptions C15_fits_trans.

(* positive_fields: True exactly when every named field exists and is > 0; False only with a named field <= 0;
   KeyError only for a name that is not a field *)
Theorem C15_positive_fields_true : forall c fs,
  positive_fields c fs = Some true <-> Forall (fun f => exists v, getf f c = Some v /\ v > 0) fs.
Proof. exact positive_fields_true. Qed.
Print Assumptions C15_positive_fields_true.

Theorem C15_positive_fields_false : forall c fs,
  positive_fields c fs = Some false -> exists f v, In f fs /\ getf f c = Some v /\ v <= 0.
Proof. exact positive_fields_false. Qed.
Print Assumptions C15_positive_fields_false.

Theorem C15_positive_fields_keyerror : forall c fs,
  positive_fields c fs = None -> exists f, In f fs /\ getf f c = None.
Proof. exact positive_fields_keyerror. Qed.
Print Assumptions C15_positive_fields_keyerror.

(* allocation histories of ANY length: the accumulated allocation is the field-wise sum, does not depend on
   the order of the allocations, releasing the last one restores the previous state, and free + allocated =
   total after every history *)
Theorem C15_history_fieldwise_sum : forall l i, Forall wf l -> (i < nfields)%nat ->
  nth i (alloc_all l) 0 = fold_left Z.add (map (fun c => nth i c 0) l) 0.
Proof. exact alloc_all_field. Qed.
Print Assumptions C15_history_fieldwise_sum.

Theorem C15_history_order_independent : forall l l', Permutation l l' -> alloc_all l = alloc_all l'.
Proof. exact alloc_all_perm. Qed.
Print Assumptions C15_history_order_independent.

Theorem C15_history_release_last : forall l x, Forall wf l -> wf x -> csub (alloc_all (l ++ [x])) x = alloc_all l.
Proof. exact release_last. Qed.
Print Assumptions C15_history_release_last.

Theorem C15_free_plus_allocated_after_any_history : forall t l, wf t -> Forall wf l ->
  cadd (cfree t (alloc_all l)) (alloc_all l) = t.
Proof. exact free_after_history. Qed.
Print Assumptions C15_free_plus_allocated_after_any_history.

(* FreeCapacity printer: a field is shown exactly when free or total is non-zero; a negative free value is
   always shown (representable and printable) *)
Theorem C15_free_print_keeps_exactly : forall t a f fr tot,
  In (f, (fr, tot)) (fkept t a) <-> In (f, (fr, tot)) (fnamed t a) /\ ~ (fr = 0 /\ tot = 0).
Proof. exact fkept_exact. Qed.
Print Assumptions C15_free_print_keeps_exactly.

Theorem C15_negative_free_printed : forall t a f fr tot,
  In (f, (fr, tot)) (fnamed t a) -> fr < 0 -> In (f, (fr, tot)) (fkept t a).
Proof. exact negative_free_kept. Qed.
Print Assumptions C15_negative_free_printed.

Example C15_nonvacuous_ext :
  let t := [4; 8; 64; 500; 100; 0; 1; 9000] in
  let l := [[1; 2; 16; 10; 0; 0; 0; 0]; [2; 4; 64; 100; 50; 0; 1; 0]] in
  wf t /\ Forall wf l /\ alloc_all l = [3; 6; 80; 110; 50; 0; 1; 0] /\
  negative_fields (cfree t (alloc_all l)) = ["ram"%string] /\
  free_get "ram" t (alloc_all l) = Some (-16) /\
  positive_fields t ["cpu"; "ram"]%string = Some true /\ positive_fields t ["burst_size"; "nosuch"]%string = Some false /\
  positive_fields t ["cpu"; "nosuch"]%string = None /\ fkept t (alloc_all l) <> [].
Proof. vm_compute. repeat split; try discriminate; repeat constructor. Qed.

(* C15 - capacity arithmetic and comparison obey their algebraic laws.
   Only statements; each is closed by `exact` of a lemma from Proofs/CapsAlg.v.  The operators
   cadd/csub/cgt/clt/ceq/negative_fields/cfree/to_json/to_str are Model/Caps.v instantiated with the
   per-field bodies REGENERATED from fim/slivers/capacities_labels.py (Gen/CapsGen.v). *)
From Coq Require Import List ZArith String Bool NArith.
From FIM Require Import Base.Str Gen.CapsGen Model.Caps Proofs.CapsAlg.
Import ListNotations.
Open Scope Z_scope.

(* the translator recognised every operator body (fail-closed flag) *)
Theorem C15_translated : gen_ok = true.
Proof. exact gen_ok_true. Qed.
Print Assumptions C15_translated.

Theorem C15_add_sub_cancel : forall a b, List.length a = List.length b -> csub (cadd a b) b = a.
Proof. exact add_sub_cancel. Qed.
Print Assumptions C15_add_sub_cancel.

Theorem C15_add_comm : forall a b, cadd a b = cadd b a.
Proof. exact add_comm. Qed.
Print Assumptions C15_add_comm.

Theorem C15_add_assoc : forall a b c, cadd (cadd a b) c = cadd a (cadd b c).
Proof. exact add_assoc. Qed.
Print Assumptions C15_add_assoc.

Theorem C15_fieldwise_add : forall a b i, (i < List.length a)%nat -> (i < List.length b)%nat ->
  nth i (cadd a b) 0 = nth i a 0 + nth i b 0.
Proof. exact fieldwise_add. Qed.
Print Assumptions C15_fieldwise_add.

Theorem C15_fieldwise_sub : forall a b i, (i < List.length a)%nat -> (i < List.length b)%nat ->
  nth i (csub a b) 0 = nth i a 0 - nth i b 0.
Proof. exact fieldwise_sub. Qed.
Print Assumptions C15_fieldwise_sub.

Theorem C15_free_is_total_minus_allocated : forall t a, cfree t a = csub t a.
Proof. exact free_is_sub. Qed.
Print Assumptions C15_free_is_total_minus_allocated.

Theorem C15_free_plus_allocated : forall t a, List.length t = List.length a -> cadd (cfree t a) a = t.
Proof. exact free_plus_allocated. Qed.
Print Assumptions C15_free_plus_allocated.

(* "a fits in b exactly when b-a has no negative field" (a < b is the code's "fits within") *)
Theorem C15_lt_iff_sub_nonneg : forall a b, wf a -> wf b -> (clt a b = true <-> negative_fields (csub b a) = []).
Proof. exact lt_iff. Qed.
Print Assumptions C15_lt_iff_sub_nonneg.

Theorem C15_gt_iff_sub_nonneg : forall a b, wf a -> wf b -> (cgt a b = true <-> negative_fields (csub a b) = []).
Proof. exact gt_iff. Qed.
Print Assumptions C15_gt_iff_sub_nonneg.

(* negative fields are reported by name, exactly *)
Theorem C15_negative_fields_exact : forall c f,
  In f (negative_fields c) <-> exists v, In (f, v) (named c) /\ v < 0.
Proof. exact negative_fields_exact. Qed.
Print Assumptions C15_negative_fields_exact.

Theorem C15_field_names_distinct : NoDup cap_fields.
Proof. exact fields_nodup. Qed.
Print Assumptions C15_field_names_distinct.

Theorem C15_eq_exact : forall a b, List.length a = List.length b -> (ceq a b = true <-> a = b).
Proof. exact eq_iff. Qed.
Print Assumptions C15_eq_exact.

Theorem C15_eq_refl : forall a, ceq a a = true.
Proof. exact eq_refl. Qed.
Print Assumptions C15_eq_refl.

Theorem C15_eq_sym : forall a b, ceq a b = ceq b a.
Proof. exact eq_sym. Qed.
Print Assumptions C15_eq_sym.

(* a result with a negative field is representable and printable: the printers are total functions
   (to_json / to_str are Gallina definitions), a negative field is never dropped, the decimal text
   reads back as the same integer, and the thousands separators only insert commas *)
Theorem C15_negative_field_kept : forall c f v, In (f, v) (named c) -> v < 0 -> In (f, v) (kept c).
Proof. exact negative_kept. Qed.
Print Assumptions C15_negative_field_kept.

Theorem C15_print_int_roundtrip : forall z, Z_of_str (str_of_Z z) = Some z.
Proof. exact print_int_roundtrip. Qed.
Print Assumptions C15_print_int_roundtrip.

Theorem C15_commas_only_insert : forall z, strip_commas (commas z) = str_of_Z z.
Proof. exact commas_strip. Qed.
Print Assumptions C15_commas_only_insert.

Theorem C15_units_cover_fields :
  forallb (fun f => existsb (fun u => String.eqb (fst u) f) cap_units) cap_fields = true.
Proof. exact units_cover. Qed.
Print Assumptions C15_units_cover_fields.

(* non-vacuity: the hypotheses are met by concrete non-trivial values *)
Example C15_nonvacuous :
  let a := [4; 8; 64; 500; 100; 0; 1; 9000] in
  let b := [1; 2; 128; 10; 0; 0; 0; 0] in
  wf a /\ wf b /\ clt a b = false /\ negative_fields (csub b a) <> [] /\
  negative_fields (csub a b) = ["ram"%string] /\ cadd (cfree a b) b = a.
Proof. vm_compute. repeat split; discriminate. Qed.

(* C11 - authorization and accounting attributes cover every resource, in any order.
   Only statements; each is closed by `exact` of a lemma from Proofs/Collect11*.v.

   Model/Collect11.v      what ResourceAuthZAttributes / LogCollector DO on an abstract slice (storage order),
                          parameterised by the tables REGENERATED from the source (Gen/CollectGen.v)
   Model/Collect11Spec.v  what the request MUST name (`required`), the direct tally, slice equivalences
   collected s            the attribute mapping after collect_resource_attributes(source=topology) on a fresh
                          collector:  run [OTopo s] = Ok (collected s)                 (C11_collect_total)
   logged s               the LogCollector dictionary after the same call *)
From Coq Require Import List ZArith NArith Bool String Permutation.
From FIM Require Import Base.Str Gen.CollectGen Model.Collect11 Model.Collect11Spec
  Proofs.Collect11Tables Proofs.Collect11Attrs Proofs.Collect11Main Proofs.Collect11Log Proofs.Collect11Pdp Proofs.Collect11Hist.
Import ListNotations.

(* ---------- the translator recognised the source; the dispatch tables have an arm for every entry ---------- *)
Theorem C11_translated : gen_ok = true.
Proof. exact gen_ok_true. Qed.
Print Assumptions C11_translated.

Theorem C11_dispatch_total : dispatch_missing = [].
Proof. exact dispatch_total. Qed.
Print Assumptions C11_dispatch_total.

(* the attribute ids the collectors write are pairwise distinct (for every entry of the regenerated constants) *)
Theorem C11_attribute_ids_distinct : nodupN all_model_keys = true.
Proof. exact model_keys_distinct. Qed.
Print Assumptions C11_attribute_ids_distinct.

(* ---------- collection never fails: every service type of the guarded set has its NSTYPE_LUT entry ---------- *)
Theorem C11_collect_total : forall m s, collect_topo m s = Ok (topo_pure m s).
Proof. exact collect_topo_ok. Qed.
Print Assumptions C11_collect_total.

Theorem C11_collected_is_run : forall s, run [OTopo s] = Ok (collected s).
Proof. exact run_topo. Qed.
Print Assumptions C11_collected_is_run.

(* ---------- completeness: everything that needs authorization is named ---------- *)
Theorem C11_complete : forall s k v, In (k, v) (required s) -> In v (getk k (collected s)).
Proof. exact complete. Qed.
Print Assumptions C11_complete.

(* one entry per resource (CPU/RAM/disk of every node, bandwidth of every service, every component, every facility):
   the value lists ARE the required lists, in storage order, multiplicities included *)
Theorem C11_complete_per_resource : forall s k, In k multi_keys -> getk k (collected s) = required_of k s.
Proof. exact multi_exact. Qed.
Print Assumptions C11_complete_per_resource.

(* ---------- nothing spurious ---------- *)
Theorem C11_nothing_spurious : forall s k v,
  In v (getk k (collected s)) -> k = A_RESOURCE_TYPE \/ In (k, v) (required s).
Proof. exact nothing_spurious. Qed.
Print Assumptions C11_nothing_spurious.

Theorem C11_resource_type : forall s, getk A_RESOURCE_TYPE (collected s) = resource_type s.
Proof. exact type_exact. Qed.
Print Assumptions C11_resource_type.

Theorem C11_sites_listed_once : forall s k, In k set_keys -> NoDup (getk k (collected s)).
Proof. exact listed_once. Qed.
Print Assumptions C11_sites_listed_once.

Theorem C11_no_empty_attribute : forall s k, In k (keys (collected s)) <-> getk k (collected s) <> [].
Proof. exact no_empty_entry. Qed.
Print Assumptions C11_no_empty_attribute.

(* ---------- the result does not depend on the order in which nodes, services, facilities are stored ---------- *)
Theorem C11_order_independent : forall s s' k, slice_perm s s' ->
  Permutation (getk k (collected s)) (getk k (collected s')).
Proof. exact order_independent. Qed.
Print Assumptions C11_order_independent.

Theorem C11_order_independent_keys : forall s s' k, slice_perm s s' ->
  (In k (keys (collected s)) <-> In k (keys (collected s'))).
Proof. exact order_same_keys. Qed.
Print Assumptions C11_order_independent_keys.

(* ... nor on the order in which a reloaded model lists the components of a node: what relates the slice of
   a topology object to the slice of its serialized-and-reloaded ASM (that the reload yields a slice_eqv slice
   is observed by the correspondence, not proved: see notes/C11.md) *)
Theorem C11_reload_invariant : forall s s' k, slice_eqv s s' ->
  Permutation (getk k (collected s)) (getk k (collected s')).
Proof. exact reload_invariant. Qed.
Print Assumptions C11_reload_invariant.

Theorem C11_reload_invariant_keys : forall s s' k, slice_eqv s s' ->
  (In k (keys (collected s)) <-> In k (keys (collected s'))).
Proof. exact reload_same_keys. Qed.
Print Assumptions C11_reload_invariant_keys.

(* ---------- values accumulate across collected sources (state: ResourceAuthZAttributes._attributes) ---------- *)
Theorem C11_accumulates_per_resource : forall m s k, In k multi_keys ->
  getk k (topo_pure m s) = getk k m ++ required_of k s.
Proof. exact multi_closed. Qed.
Print Assumptions C11_accumulates_per_resource.

Theorem C11_accumulates_sites : forall s1 s2 k v, In k set_keys ->
  (In v (getk k (topo_pure (collected s1) s2)) <-> In v (required_of k s1) \/ In v (required_of k s2)).
Proof. exact accumulates_set. Qed.
Print Assumptions C11_accumulates_sites.

(* ---------- accounting summary = direct tally ---------- *)
Theorem C11_log_vms : forall s, l_vm (logged s) = tally_vms s.
Proof. exact log_vms. Qed.
Print Assumptions C11_log_vms.

Theorem C11_log_cores : forall s, l_core (logged s) = tally_cores s.
Proof. exact log_cores. Qed.
Print Assumptions C11_log_cores.

Theorem C11_log_switches : forall s, l_p4 (logged s) = tally_switches s.
Proof. exact log_switches. Qed.
Print Assumptions C11_log_switches.

Theorem C11_log_components : forall s c, dget c (l_comps (logged s)) = tally_component c s.
Proof. exact log_components. Qed.
Print Assumptions C11_log_components.

Theorem C11_log_component_types : forall s c,
  In c (map fst (l_comps (logged s))) <-> In c (flat_map n_comps (sl_nodes s)).
Proof. exact log_component_keys. Qed.
Print Assumptions C11_log_component_types.

Theorem C11_log_component_types_once : forall s, NoDup (map fst (l_comps (logged s))).
Proof. exact log_component_keys_once. Qed.
Print Assumptions C11_log_component_types_once.

Theorem C11_log_services : forall s, l_svcs (logged s) = tally_services s.
Proof. exact log_services. Qed.
Print Assumptions C11_log_services.

Theorem C11_log_sites : forall s x, In x (l_sites (logged s)) <-> site_used s x.
Proof. exact log_sites. Qed.
Print Assumptions C11_log_sites.

Theorem C11_log_sites_once : forall s, NoDup (l_sites (logged s)).
Proof. exact log_sites_once. Qed.
Print Assumptions C11_log_sites_once.

Theorem C11_log_facilities : forall s f, In f (l_facs (logged s)) <-> facility_used s f.
Proof. exact log_facilities. Qed.
Print Assumptions C11_log_facilities.

Theorem C11_log_facilities_once : forall s, NoDup (l_facs (logged s)).
Proof. exact log_facilities_once. Qed.
Print Assumptions C11_log_facilities_once.

Theorem C11_log_order_independent : forall s s', slice_perm s s' ->
  tally_vms s = tally_vms s' /\ tally_cores s = tally_cores s' /\ tally_switches s = tally_switches s' /\
  (forall c, tally_component c s = tally_component c s') /\
  Permutation (tally_services s) (tally_services s') /\
  (forall x, site_used s x <-> site_used s' x) /\ (forall f, facility_used s f <-> facility_used s' f).
Proof. exact tallies_order_independent. Qed.
Print Assumptions C11_log_order_independent.

(* ---------- PDP request: every attribute lands in exactly its category, with its type and all its values ---------- *)
Theorem C11_pdp_total : forall ops m, run ops = Ok m -> exists p, to_pdp m = Ok p.
Proof. exact pdp_total. Qed.
Print Assumptions C11_pdp_total.

Theorem C11_pdp_routing : forall ops m p k,
  run ops = Ok m -> to_pdp m = Ok p -> In k (keys m) ->
  exists dt cat, lookupN k attr_table = Some (dt, cat) /\ In cat pdp_cats /\
                 In (mkPA k dt (getk k m)) (attrs_of_cat cat p).
Proof. exact pdp_routing_run. Qed.
Print Assumptions C11_pdp_routing.

Theorem C11_pdp_nothing_else : forall m p c a,
  keys_in_table m -> to_pdp m = Ok p -> In a (attrs_of_cat c p) ->
  exists l dt, In (pa_id a, l) m /\ lookupN (pa_id a) attr_table = Some (dt, c) /\ a = mkPA (pa_id a) dt l /\ In c pdp_cats.
Proof. exact pdp_only. Qed.
Print Assumptions C11_pdp_nothing_else.

Theorem C11_pdp_each_id_once : forall m p, keys_in_table m -> NoDup (keys m) -> to_pdp m = Ok p ->
  NoDup (map pa_id (flat_map snd p)).
Proof. exact pdp_ids_once. Qed.
Print Assumptions C11_pdp_each_id_once.

Theorem C11_pdp_categories : forall m p, keys_in_table m -> to_pdp m = Ok p -> map fst p = pdp_cats.
Proof. exact pdp_categories. Qed.
Print Assumptions C11_pdp_categories.

(* the attributes derived from a slice carry the pinned XACML id text and data type and sit in the resource category
   (for every row of the pinned interface table, checked against the regenerated ATTRIBUTE_TYPES_AND_CATEGORIES) *)
Theorem C11_resource_attribute_interface : forall k u d, In (k, (u, d)) pinned_resource_rows ->
  urn_of k = u /\ exists dt c, lookupN k attr_table = Some (dt, c) /\ dtype_of dt = d /\ cat_of c = resource_category.
Proof. exact resource_rows. Qed.
Print Assumptions C11_resource_attribute_interface.

Theorem C11_resource_attribute_interface_covers :
  forallb (fun k => existsb (fun r => N.eqb (fst r) k) pinned_resource_rows) (base_keys ++ map snd nstype_lut) = true.
Proof. exact resource_rows_cover_b. Qed.
Print Assumptions C11_resource_attribute_interface_covers.

(* the hypotheses of the two previous theorems hold for every mapping a run produces *)
Theorem C11_run_keys_wellformed : forall ops m, run ops = Ok m -> NoDup (keys m) /\ keys_in_table m.
Proof. exact (fun ops m H => conj (proj1 (Inv_run ops m H)) (Inv_in_table m (Inv_run ops m H))). Qed.
Print Assumptions C11_run_keys_wellformed.

(* ---------- dispatch: every member class the topology API hands out (regenerated from Topology._get_node_by_id /
   _get_ns_by_id: Node, NetworkService, PortMirrorService) is routed by both collectors' METHOD_LUT (exact-class lookup).
   Before /repo 08ccccb PortMirrorService was missing from both tables (found by this obligation; tools/revert_try.sh
   C11 08ccccb breaks it again and yields a concrete member-wise case). ---------- *)
Theorem C11_dispatch_classes : forallb routed produced_classes = true.
Proof. exact dispatch_classes_b. Qed.
Print Assumptions C11_dispatch_classes.

(* ---------- topology object vs serialized model: the ASM path walks the reloaded graph by class; for ANY enumeration
   order of the same elements (and of each node's components) it yields the same attributes as the topology path.
   What remains observed: serialize/load preserves the elements (C01/C02), validate() is the identity on a validated model. *)
Theorem C11_asm_is_walk : forall g, run [OAsm g] = Ok (collected (slice_of_graph g)).
Proof. exact run_asm. Qed.
Print Assumptions C11_asm_is_walk.

Theorem C11_asm_enumeration_independent : forall g g' k, graph_eqv g g' ->
  Permutation (getk k (collected (slice_of_graph g))) (getk k (collected (slice_of_graph g'))).
Proof. exact asm_enumeration_independent. Qed.
Print Assumptions C11_asm_enumeration_independent.

Theorem C11_topo_vs_asm : forall s g ma k, graph_eqv (graph_of_slice s) g -> run [OAsm g] = Ok ma ->
  Permutation (getk k (collected s)) (getk k ma) /\ (In k (keys (collected s)) <-> In k (keys ma)).
Proof. exact topo_vs_asm. Qed.
Print Assumptions C11_topo_vs_asm.

Theorem C11_log_topo_vs_asm : forall s g, graph_eqv (graph_of_slice s) g ->
  log_run [OAsm g] = logged (slice_of_graph g) /\ slice_eqv s (slice_of_graph g).
Proof. exact log_topo_vs_asm. Qed.
Print Assumptions C11_log_topo_vs_asm.

(* ---------- histories on a long-lived collector and a long-lived (edited) topology ---------- *)
Theorem C11_history_total : forall es, hist_run es = Ok (hist_pure init_attrs es).
Proof. exact hist_run_ok. Qed.
Print Assumptions C11_history_total.

(* a collector created for the occasion answers with a function of the CURRENT slice only *)
Theorem C11_collect_history_memoryless : forall es mf outs i s,
  hist_run es = Ok (mf, outs) -> nth_error es i = Some (HFresh s) -> nth_error outs i = Some (collected s).
Proof. exact history_memoryless_run. Qed.
Print Assumptions C11_collect_history_memoryless.

(* the SAME collector fed several slices accumulates (ResourceAuthZAttributes._attributes: "list of values accumulated
   across collected sources"): exactly the per-resource values of every slice it was fed, in order; the union of the
   site sets; switch-p4 as soon as one of them had a switch - and nothing from collections made by other collectors *)
Theorem C11_same_collector_per_resource : forall es mf outs k, hist_run es = Ok (mf, outs) -> In k multi_keys ->
  getk k mf = flat_map (required_of k) (same_slices es).
Proof. exact same_collector_multi. Qed.
Print Assumptions C11_same_collector_per_resource.

Theorem C11_same_collector_sites : forall es mf outs k v, hist_run es = Ok (mf, outs) -> In k set_keys ->
  (In v (getk k mf) <-> exists s, In s (same_slices es) /\ In v (required_of k s)) /\ NoDup (getk k mf).
Proof. exact same_collector_set. Qed.
Print Assumptions C11_same_collector_sites.

Theorem C11_same_collector_type : forall es mf outs, hist_run es = Ok (mf, outs) ->
  getk A_RESOURCE_TYPE mf = [AS (if existsb has_switch (same_slices es) then S"switch-p4" else S"sliver")].
Proof. exact same_collector_type. Qed.
Print Assumptions C11_same_collector_type.

Theorem C11_collect_twice_in_a_row : forall s k,
  (In k multi_keys -> getk k (topo_pure (collected s) s) = getk k (collected s) ++ getk k (collected s)) /\
  (In k set_keys -> getk k (topo_pure (collected s) s) = getk k (collected s)) /\
  getk A_RESOURCE_TYPE (topo_pure (collected s) s) = getk A_RESOURCE_TYPE (collected s).
Proof. exact twice_in_a_row. Qed.
Print Assumptions C11_collect_twice_in_a_row.

(* ---------- the log line (LogCollector.__str__): counts printed = counts tallied ---------- *)
Theorem C11_log_summary_counts : forall s,
  sm_vms (summary_of (logged s)) = tally_vms s /\ sm_cores (summary_of (logged s)) = tally_cores s /\
  sm_p4s (summary_of (logged s)) = tally_switches s /\
  (forall x, In x (sm_sites (summary_of (logged s))) <-> site_used s x) /\
  (forall f, In f (sm_facs (summary_of (logged s))) <-> facility_used s f) /\
  sm_comps (summary_of (logged s)) = map (fun kv => colon (fst kv) (str_of_Z (snd kv))) (l_comps (logged s)) /\
  sm_svcs (summary_of (logged s))
    = map (fun kv => colon (fst kv) (str_of_Z (snd kv))) (filter (fun kv => negb (str_eqb (fst kv) (S"OVS"))) (tally_services s)) /\
  (forall key, dget key (sm_vmdetails (summary_of (logged s)))
               = countb (str_eqb key) (map vmdetail_key (flat_map vm_caps (sl_nodes s)))).
Proof. exact summary_counts. Qed.
Print Assumptions C11_log_summary_counts.

(* ---------- non-vacuity ---------- *)
(* one site; an out-of-slice mirror, an in-slice mirror (mirrored port "p1" is a labelled service port of the
   slice) and an external service: the shape on which the pre-c22c27e code lost the mirror site *)
Definition ex_node : node := mkNode NT_VM (S"n0") (Some (S"RENC")) (Some (2, 8, 10)%Z) None [S"SmartNIC"; S"SmartNIC"].
Definition ex_out : svc := mkSvc ST_PortMirror (Some (S"RENC")) None (Some (S"HundredGigE0/0/0/5")).
Definition ex_in : svc := mkSvc ST_PortMirror (Some (S"RENC")) None (Some (S"p1")).
Definition ex_ext : svc := mkSvc ST_FABNetv4Ext None (Some 10%Z) None.
Definition ex_slice : slice := mkSlice [ex_node] [Some (S"p1")] [ex_out; ex_in; ex_ext] [S"FAC1"].
Definition ex_slice' : slice := mkSlice [ex_node] [Some (S"p1")] [ex_ext; ex_in; ex_out] [S"FAC1"].

Example C11_nonvacuous_required :
  In (A_RESOURCE_MIRROR_SITE, AS (S"RENC")) (required ex_slice) /\
  In (A_RESOURCE_FABNETV4_EXT, AS (S"UNKNOWN-SITE")) (required ex_slice) /\
  In (A_RESOURCE_CPU, AI 2%Z) (required ex_slice) /\
  List.length (required ex_slice) = 12%nat /\
  getk A_RESOURCE_MIRROR_SITE (collected ex_slice) = [AS (S"RENC")] /\
  getk A_RESOURCE_MIRROR_SITE (collected ex_slice') = [AS (S"RENC")] /\
  getk A_RESOURCE_COMPONENT (collected ex_slice) = [AS (S"SmartNIC"); AS (S"SmartNIC")].
Proof. vm_compute. repeat split; tauto. Qed.

Example C11_nonvacuous_perm : slice_perm ex_slice ex_slice' /\ ex_slice <> ex_slice'.
Proof.
  split; [|discriminate].
  unfold slice_perm, ex_slice, ex_slice', same_ports; simpl. repeat split; try apply Permutation_refl; try tauto.
  apply Permutation_trans with [ex_in; ex_out; ex_ext]; [apply perm_swap|].
  apply Permutation_trans with [ex_in; ex_ext; ex_out]; [apply perm_skip, perm_swap|].
  apply perm_swap.
Qed.

Example C11_nonvacuous_pdp :
  match bind (run [OTopo ex_slice; OAction (SOne (S"create"))]) to_pdp with
  | Ok p => List.length (attrs_of_cat 0%N p) = 10%nat /\ List.length (attrs_of_cat 1%N p) = 1%nat /\
            map fst p = pdp_cats
  | Err _ => False
  end.
Proof. vm_compute. repeat split. Qed.

Example C11_nonvacuous_log :
  l_vm (logged ex_slice) = 1%Z /\ l_core (logged ex_slice) = 2%Z /\ dget (S"SmartNIC") (l_comps (logged ex_slice)) = 2%Z /\
  List.length (l_svcs (logged ex_slice)) = 3%nat /\ l_sites (logged ex_slice) = [S"RENC"] /\ l_facs (logged ex_slice) = [S"FAC1"].
Proof. vm_compute. repeat split. Qed.

Example C11_nonvacuous_history :
  let es := [HSame ex_slice; HFresh ex_slice'; HSame ex_slice'] in
  match hist_run es with
  | Ok (mf, outs) => nth_error outs 1 = Some (collected ex_slice') /\
                     getk A_RESOURCE_CPU mf = [AI 2%Z; AI 2%Z] /\ getk A_RESOURCE_MIRROR_SITE mf = [AS (S"RENC")] /\
                     List.length outs = 3%nat
  | Err _ => False
  end.
Proof. vm_compute. repeat split. Qed.

Example C11_nonvacuous_asm :
  let g := [GSvc ex_ext; GFac (S"FAC1"); GSvc ex_in; GPort (Some (S"p1")); GNode ex_node; GSvc ex_out] in
  graph_eqv (graph_of_slice ex_slice) g /\ graph_of_slice ex_slice <> g /\
  getk A_RESOURCE_MIRROR_SITE (collected (slice_of_graph g)) = [AS (S"RENC")].
Proof.
  split; [|split; [discriminate | vm_compute; reflexivity]].
  exists [GSvc ex_ext; GFac (S"FAC1"); GSvc ex_in; GPort (Some (S"p1")); GNode ex_node; GSvc ex_out]. split.
  - unfold graph_of_slice, ex_slice. cbn [sl_nodes sl_ports sl_svcs sl_facs map app].
    apply Permutation_sym.
    (* move each element of g to its place in the listing order *)
    apply Permutation_trans with (GNode ex_node :: [GSvc ex_ext; GFac (S"FAC1"); GSvc ex_in; GPort (Some (S"p1")); GSvc ex_out]).
    { apply Permutation_sym. apply (Permutation_middle [GSvc ex_ext; GFac (S"FAC1"); GSvc ex_in; GPort (Some (S"p1"))] [GSvc ex_out] (GNode ex_node)). }
    apply perm_skip.
    apply Permutation_trans with (GPort (Some (S"p1")) :: [GSvc ex_ext; GFac (S"FAC1"); GSvc ex_in; GSvc ex_out]).
    { apply Permutation_sym. apply (Permutation_middle [GSvc ex_ext; GFac (S"FAC1"); GSvc ex_in] [GSvc ex_out] (GPort (Some (S"p1")))). }
    apply perm_skip.
    apply Permutation_trans with (GSvc ex_out :: [GSvc ex_ext; GFac (S"FAC1"); GSvc ex_in]).
    { apply Permutation_sym. apply (Permutation_middle [GSvc ex_ext; GFac (S"FAC1"); GSvc ex_in] [] (GSvc ex_out)). }
    apply perm_skip.
    apply Permutation_trans with (GSvc ex_in :: [GSvc ex_ext; GFac (S"FAC1")]).
    { apply Permutation_sym. apply (Permutation_middle [GSvc ex_ext; GFac (S"FAC1")] [] (GSvc ex_in)). }
    apply Permutation_refl.
  - repeat constructor; simpl; try reflexivity; unfold node_eqv; repeat split; apply Permutation_refl.
Qed.

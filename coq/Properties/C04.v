(* C04 - graphs sharing the in-memory store are isolated; clones are independent.
   Statements only; every theorem is closed by `exact` of a lemma of Proofs/Isolation*.v.
   Model: Model/Store.v (shared store: one nx.Graph + start_id) and Model/StoreDisjoint.v (one nx.Graph
   and one id counter per graph id), tied to fim/graph/networkx_property_graph{,_disjoint}.py and
   networkx_mixin.py on every run by the history streams of harness/c04.py.

   [view G g]   = what graph id g can see of the nx.Graph G: its nodes WITH their internal ids and
                  property dictionaries, and the links whose two ends are among them (the content
                  extract_graph returns and every query filters on).
   [target o]   = the graph id operation o is addressed to (for clone: the NEW id; the source is only read).
   [frame_scope o] excludes exactly: merge_nodes (cross-graph by contract, C05/C14), operations that
                  rewrite the GraphID property (the deliberate re-homing the property text excludes), and
                  requires of an imported graph that it is a networkx graph (links join its own nodes) and,
                  for a direct import, that its nodes carry the id they are stored under (enforced by
                  ABCGraphImporter.get_graph_id before the storage is called). *)
From Coq Require Import List NArith Bool.
From FIM Require Import Base.Assoc Gen.PGConst Model.Store Model.StoreDisjoint.
From FIM Require Import Proofs.IsolationBase Proofs.IsolationShared Proofs.IsolationFrame Proofs.IsolationDisjoint.
From FIM Require Import Proofs.RefineSim Proofs.IsolationClone.
Import ListNotations.
Open Scope N_scope.

Theorem C04_translated : gen_ok = true.
Proof. exact eq_refl. Qed.
Print Assumptions C04_translated.

(* ---- shared store ---- *)

(* after ANY history (all 24 operations, malformed arguments, failing calls included) no two stored
   nodes share an internal id and every stored id was drawn from the allocator (is below start_id),
   so that add_graph / add_blank_node never land on a stored node *)
Theorem C04_internal_ids_unique : forall ops,
  NoDup (ids (sg (srun ops init_store))) /\
  forall i, In i (ids (sg (srun ops init_store))) -> i < snext (srun ops init_store).
Proof. exact ids_unique_all. Qed.
Print Assumptions C04_internal_ids_unique.

(* one step: an operation addressed to g leaves what every other graph id sees unchanged - nodes,
   internal ids, property dictionaries and links - also when it fails half-way *)
Theorem C04_frame : forall s o g',
  SInv s -> frame_scope o = true -> target o <> g' ->
  view (sg (fst (sstep s o))) g' = view (sg s) g'.
Proof. exact frame_step. Qed.
Print Assumptions C04_frame.

(* all interleaved histories: after an arbitrary prefix (no condition on it), any sequence of
   operations addressed to other graph ids leaves g' unchanged *)
Theorem C04_frame_histories : forall pre ops g',
  (forall o, In o ops -> frame_scope o = true /\ target o <> g') ->
  view (sg (srun (pre ++ ops) init_store)) g' = view (sg (srun pre init_store)) g'.
Proof. exact frame_after_any_prefix. Qed.
Print Assumptions C04_frame_histories.

(* ---- one nx.Graph per graph id ---- *)
Theorem C04_internal_ids_unique_disjoint : forall ops g,
  NoDup (ids (dget (drun ops init_dstore) g)) /\
  forall i, In i (ids (dget (drun ops init_dstore) g)) -> i < dcounter (drun ops init_dstore) g.
Proof. exact ids_unique_all_disjoint. Qed.
Print Assumptions C04_internal_ids_unique_disjoint.

(* here the frame needs no scope condition: whatever the operation, the nx.Graph stored under any
   other id is literally unchanged *)
Theorem C04_frame_disjoint : forall d o g', target o <> g' -> dget (fst (dstep d o)) g' = dget d g'.
Proof. exact frame_step_disjoint. Qed.
Print Assumptions C04_frame_disjoint.

Theorem C04_frame_histories_disjoint : forall ops d g',
  (forall o, In o ops -> target o <> g') -> dget (drun ops d) g' = dget d g'.
Proof. exact frame_histories_disjoint. Qed.
Print Assumptions C04_frame_histories_disjoint.

(* ---- clones ---- *)
(* after ANY history of well-formed operations ([wf_op]: imported graphs are networkx graphs), cloning a
   graph that has nodes (all carrying a NodeID, as add_graph demands) succeeds and the new id sees
   exactly the source's nodes - same order, same properties except GraphID := new id, fresh consecutive
   internal ids - and exactly the source's links between the corresponding nodes *)
Theorem C04_clone_same : forall ops g g2 ns es,
  (forall o, In o ops -> wf_op o = true) -> g <> g2 ->
  let s := srun ops init_store in
  view (sg s) g = (ns, es) -> ns <> [] -> existsb node_id_missing ns = false ->
  snd (s_clone s g g2) = Ok RUnit /\
  view (sg (fst (s_clone s g g2))) g2 = (stamp g2 (relabel_nodes ns (snext s)), map (relabel_edge ns (snext s)) es).
Proof. exact clone_same_all. Qed.
Print Assumptions C04_clone_same.

(* extract_graph - the mechanism behind clone_graph, serialization and find_matching_nodes - in ANY reachable
   store, stores that contain cross-graph links left by merge_nodes included (no condition on the history):
   None for a graph without nodes, else exactly the graph's own nodes and the links with BOTH ends in it.
   (C04_clone_same above likewise quantifies over histories WITH merges: [wf_op] only constrains imports.) *)
Theorem C04_extract_exact : forall ops g,
  let G := sg (srun ops init_store) in
  s_extract G g = match fst (view G g) with
                  | [] => None
                  | _ => Some (mkI (fst (view G g)) (snd (view G g)))
                  end.
Proof. exact extract_exact_all. Qed.
Print Assumptions C04_extract_exact.

Example C04_cross_link_nonvacuous :
  let s := srun ex_cross init_store in
  forallb wf_op ex_cross = true /\
  ge (sg s) = [(1, 3, [(k_class, PV 40)])] /\
  view (sg s) 10 = ([(1, [(k_graphid, PV 10); (k_nodeid, PV 20); (k_class, PV 30)])], []) /\
  s_extract (sg s) 10 = Some (mkI [(1, [(k_graphid, PV 10); (k_nodeid, PV 20); (k_class, PV 30)])] []) /\
  snd (s_clone s 10 12) = Ok RUnit /\
  view (sg (fst (s_clone s 10 12))) 12 = ([(4, [(k_graphid, PV 12); (k_nodeid, PV 20); (k_class, PV 30)])], []) /\
  view (sg (fst (s_clone s 10 12))) 11 = view (sg s) 11.
Proof. exact cross_link_nonvacuous. Qed.

(* later changes to either do not show up in the other (instance of the frame theorem) *)
Theorem C04_clone_independent : forall pre g g2 ops,
  g <> g2 -> (forall o, In o ops -> frame_scope o = true /\ (target o = g \/ target o = g2)) ->
  let s := srun (pre ++ [OClone g g2]) init_store in
  view (sg (srun (filter (fun o => N.eqb (target o) g) ops) s)) g2 = view (sg s) g2 /\
  view (sg (srun (filter (fun o => N.eqb (target o) g2) ops) s)) g = view (sg s) g.
Proof. exact clone_independent. Qed.
Print Assumptions C04_clone_independent.

(* one nx.Graph per id, after ANY history of well-formed operations: the clone under an id that holds no nodes is
   the relabelled, re-stamped copy of the source's whole nx.Graph.  (The two structural facts of nx.Graph - links
   join stored nodes, one link per pair - are invariants of this store too: DWf_run.)  Onto an id that HOLDS
   nodes the clone is skipped (C05_disjoint_clone_live_skips): known finding (deliberate in the code; C05-3 not landed). *)
Theorem C04_clone_same_disjoint : forall ops g g2,
  (forall o, In o ops -> wf_op o = true) ->
  let d := drun ops init_dstore in
  gn (dget d g) <> [] -> gn (dget d g2) = [] -> existsb node_id_missing (gn (dget d g)) = false ->
  snd (d_clone d g g2) = Ok RUnit /\
  dget (fst (d_clone d g g2)) g2 =
    mkG (stamp g2 (relabel_nodes (gn (dget d g)) 1)) (map (relabel_edge (gn (dget d g)) 1) (ge (dget d g))).
Proof. exact clone_same_disjoint_all. Qed.
Print Assumptions C04_clone_same_disjoint.

(* ---- non-vacuity: two graphs, an import whose keys collide with stored internal ids, a re-import,
   a clone; the operations on g0 / g2 leave g1 as it was ---- *)
Definition ex_pre : list op :=
  [OAddNode 11 20 30 None; OAddNode 11 21 30 None; OAddLink 11 20 40 21 None].
Definition ex_ops : list op :=
  [OImport 10 (mkI [(1, [(k_nodeid, PV 20); (k_class, PV 30)]); (2, [(k_nodeid, PV 21)])] [(1, 2, [(k_class, PV 40)])]);
   OImport 10 (mkI [(1, [(k_nodeid, PV 22)])] []); OClone 10 12; OAddNode 12 23 31 None; ODelGraph 10;
   OUpdNodes 12 50 (PV 60)].

Example C04_nonvacuous :
  forallb (fun o => frame_scope o && negb (N.eqb (target o) 11) && wf_op o) ex_ops = true /\
  view (sg (srun (ex_pre ++ ex_ops) init_store)) 11 =
    ([(1, [(k_graphid, PV 11); (k_nodeid, PV 20); (k_class, PV 30)]);
      (2, [(k_graphid, PV 11); (k_nodeid, PV 21); (k_class, PV 30)])], [(1, 2, [(k_class, PV 40)])]) /\
  view (sg (srun (ex_pre ++ ex_ops) init_store)) 12 =
    ([(6, [(k_graphid, PV 12); (k_nodeid, PV 22); (50, PV 60)]);
      (7, [(k_graphid, PV 12); (k_nodeid, PV 23); (k_class, PV 31); (50, PV 60)])], []) /\
  snext (srun (ex_pre ++ ex_ops) init_store) = 8.
Proof. vm_compute. repeat split. Qed.

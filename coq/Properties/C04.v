(* C04 - graphs sharing the in-memory store are isolated; clones are independent.
   Statements only; every theorem is closed by `exact` of a lemma of Proofs/Isolation*.v.
   Model: Model/Store.v (shared store: one nx.Graph + start_id) and Model/StoreDisjoint.v (one nx.Graph
   and one id counter per graph id), tied to fim/graph/networkx_property_graph{,_disjoint}.py and
   networkx_mixin.py on every run by the history streams of harness/c04.py.

   [view G g]   = what graph id g can see of the nx.Graph G: its nodes WITH their internal ids and
                  property dictionaries, and the links whose two ends are among them (the content
                  extract_graph returns and every query filters on).
   [target o]   = the graph id operation o is addressed to (for clone: the NEW id; the source is only read).
   [frame_scope o] excludes exactly: merge_nodes (cross-graph by contract, C05/C14), operations that
                  rewrite the GraphID property (the deliberate re-homing the property text excludes), and
                  requires of an imported graph that it is a networkx graph (links join its own nodes) and,
                  for a direct import, that its nodes carry the id they are stored under (enforced by
                  ABCGraphImporter.get_graph_id before the storage is called). *)
From Coq Require Import List NArith Bool.
From FIM Require Import Base.Assoc Gen.PGConst Model.Store Model.StoreDisjoint.
From FIM Require Import Proofs.IsolationBase Proofs.IsolationShared Proofs.IsolationFrame Proofs.IsolationDisjoint.
Import ListNotations.
Open Scope N_scope.

Theorem C04_translated : gen_ok = true.
Proof. exact eq_refl. Qed.
Print Assumptions C04_translated.

(* ---- shared store ---- *)

(* after ANY history (all 24 operations, malformed arguments, failing calls included) no two stored
   nodes share an internal id and every stored id was drawn from the allocator (is below start_id),
   so that add_graph / add_blank_node never land on a stored node *)
Theorem C04_internal_ids_unique : forall ops,
  NoDup (ids (sg (srun ops init_store))) /\
  forall i, In i (ids (sg (srun ops init_store))) -> i < snext (srun ops init_store).
Proof. exact ids_unique_all. Qed.
Print Assumptions C04_internal_ids_unique.

(* one step: an operation addressed to g leaves what every other graph id sees unchanged - nodes,
   internal ids, property dictionaries and links - also when it fails half-way *)
Theorem C04_frame : forall s o g',
  SInv s -> frame_scope o = true -> target o <> g' ->
  view (sg (fst (sstep s o))) g' = view (sg s) g'.
Proof. exact frame_step. Qed.
Print Assumptions C04_frame.

(* all interleaved histories: after an arbitrary prefix (no condition on it), any sequence of
   operations addressed to other graph ids leaves g' unchanged *)
Theorem C04_frame_histories : forall pre ops g',
  (forall o, In o ops -> frame_scope o = true /\ target o <> g') ->
  view (sg (srun (pre ++ ops) init_store)) g' = view (sg (srun pre init_store)) g'.
Proof. exact frame_after_any_prefix. Qed.
Print Assumptions C04_frame_histories.

(* ---- one nx.Graph per graph id ---- *)
Theorem C04_internal_ids_unique_disjoint : forall ops g,
  NoDup (ids (dget (drun ops init_dstore) g)) /\
  forall i, In i (ids (dget (drun ops init_dstore) g)) -> i < dcounter (drun ops init_dstore) g.
Proof. exact ids_unique_all_disjoint. Qed.
Print Assumptions C04_internal_ids_unique_disjoint.

(* here the frame needs no scope condition: whatever the operation, the nx.Graph stored under any
   other id is literally unchanged *)
Theorem C04_frame_disjoint : forall d o g', target o <> g' -> dget (fst (dstep d o)) g' = dget d g'.
Proof. exact frame_step_disjoint. Qed.
Print Assumptions C04_frame_disjoint.

Theorem C04_frame_histories_disjoint : forall ops d g',
  (forall o, In o ops -> target o <> g') -> dget (drun ops d) g' = dget d g'.
Proof. exact frame_histories_disjoint. Qed.
Print Assumptions C04_frame_histories_disjoint.

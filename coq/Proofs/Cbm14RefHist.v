(* C14 - refinement, node part, for whole histories: the store-level model simulates the abstract model
   (node projection: connections dropped); the abstract invariants transfer to the store level. *)
From Coq Require Import List NArith Bool Lia.
From FIM Require Import Model.Cbm14Store Model.Cbm14Check Model.Cbm14Spec Model.Cbm14Abs Proofs.Cbm14Assoc Proofs.Cbm14Merge
     Proofs.Cbm14Unmerge Proofs.Cbm14Inv Proofs.Cbm14Hist Proofs.Cbm14Frame Proofs.Cbm14RefBase Proofs.Cbm14RefPrep
     Proofs.Cbm14RefFold Proofs.Cbm14RefMerge Proofs.Cbm14RefUnmerge Proofs.Cbm14RefSnap.
Import ListNotations.
Open Scope N_scope.

(* the node projection of a source model: its nodes, no connections *)
Definition abs_adm_n (g : N) (st : store) : adm := mkAdm g (abs_adm_nodes g st) [].

Definition hop_of (st : store) (o : op) : hop :=
  match o with
  | OpMerge adm _ => HMerge (abs_adm_n adm st)
  | OpUnmerge g => HUnmerge g
  | OpSnap new => HSnap new
  | OpRollback sid => HRollback sid
  end.

(* the documented domain of one operation, in the current store / abstract state *)
Definition pre (cbm : N) (o : op) (st : store) (hs : hstate) : Prop :=
  match o with
  | OpMerge adm tmp => cbm <> tmp /\ adm <> cbm /\ gexists tmp st = false /\
                       Cbm14Spec.mem adm (map adm_id (h_ms hs)) = false
  | OpUnmerge g => gexists cbm st = true
  | OpSnap new => gexists cbm st = true /\ gexists new st = false
  | OpRollback sid => hasn sid (h_snaps hs) = true
  end.

Record NSim (cbm : N) (st : store) (hs : hstate) : Prop := mkNSim {
  ns_J : J (s_next st) (s_nodes st);
  ns_ok : cbm_ok cbm (s_nodes st);
  ns_cur : forall k, getn k (abs_nodes cbm st) = getn k (nodes (h_cur hs));
  ns_inv : HInv hs;
  ns_snaps : forall id C ms, getn id (h_snaps hs) = Some (C, ms) ->
             id <> cbm /\ gexists id st = true /\ cbm_ok id (s_nodes st) /\
             NoDup (map fst (nodes C)) /\
             forall k, getn k (abs_nodes id st) = getn k (nodes C)
}.

Lemma existsb_ext' {A} (f g : A -> bool) l : (forall x, f x = g x) -> existsb f l = existsb g l.
Proof. intro H. induction l; simpl; auto. rewrite H, IHl. reflexivity. Qed.

Lemma ok_transfer h ns ns' :
  ukeys ns' -> (forall k, at_ h k ns' = at_ h k ns) -> cbm_ok h ns -> cbm_ok h ns'.
Proof.
  intros K E W n Hn Gn. pose proof (at_uniq h (n_nid n) ns' n K Hn Gn eq_refl) as A. rewrite E in A.
  apply at_In in A as (Hn' & _ & _). apply (W n Hn' Gn).
Qed.

Lemma abs_transfer h st st' :
  (forall k, at_ h k (s_nodes st') = at_ h k (s_nodes st)) ->
  forall k, getn k (abs_nodes h st') = getn k (abs_nodes h st).
Proof. intros E k. rewrite !getn_abs, E. reflexivity. Qed.

Lemma gexists_transfer h st st' :
  (forall k, at_ h k (s_nodes st') = at_ h k (s_nodes st)) -> gexists h st = true -> gexists h st' = true.
Proof.
  intros E G. destruct (gexists_at h st G) as (k & n & A). rewrite <- E in A. eapply at_gexists; eauto.
Qed.

Lemma wf_abs_adm_n g st : ukeys (s_nodes st) -> wf_adm (abs_adm_n g st).
Proof.
  intro K. unfold wf_adm, abs_adm_n; simpl. split; [|split; [constructor|intros e []]].
  unfold abs_adm_nodes. rewrite map_map. simpl. apply (ukeys_nids g). exact K.
Qed.

(* one operation *)
Theorem nsim_step cbm o st hs st' :
  NSim cbm st hs -> pre cbm o st hs -> step cbm o st = OOk st' -> NSim cbm st' (hstep hs (hop_of st o)).
Proof.
  intros [Jst W CU HI SN] P H. pose proof Jst as (U & B & K). destruct HI as [IC IS].
  destruct o as [adm tmp|g|new|sid]; simpl in P, H; simpl hop_of; unfold hstep; cbv beta iota.
  - (* merge *)
    destruct P as (NE & NA & FR & NM). change (adm_id (abs_adm_n adm st)) with adm. rewrite NM.
    assert (cbm_wf cbm (s_nodes st)) as W0 by (intros n Hn Gn; apply (W n Hn Gn)).
    destruct (merge_refines_nodes cbm adm tmp st st' Jst W0 NE NA FR H) as (CF & MG & J' & _ & OT & TN).
    assert (conflict (h_cur hs) (abs_adm_n adm st) = false) as CF'.
    { rewrite <- CF. unfold conflict. apply existsb_ext'. intros [k a]. simpl. rewrite <- CU. reflexivity. }
    destruct (smerge_defined _ _ CF') as [C' SM]. rewrite SM.
    assert (~ In adm (map adm_id (h_ms hs))) as NIn by (intro X; apply mem_In in X; congruence).
    assert (forall n, In n (s_nodes st) -> n_gid n = cbm -> ~ In adm (abs_con (n_si n))) as NC.
    { intros n Hn Gn X. pose proof (at_uniq cbm (n_nid n) _ n K Hn Gn eq_refl) as A.
      pose proof (CU (n_nid n)) as E. rewrite getn_abs, A in E. simpl in E. symmetry in E.
      apply (Inv_not_contributor _ _ adm IC NIn (n_nid n) (absn n) E). exact X. }
    constructor; cbn [h_cur h_ms h_snaps].
    + exact J'.
    + apply (merge_keeps_ok cbm adm tmp st st' Jst W NE FR NC H).
    + intro k. rewrite MG, get_merge_nodes, (smerge_get_node _ _ _ k SM), CU. reflexivity.
    + assert (HInv (hstep hs (HMerge (abs_adm_n adm st)))) as X.
      { apply HInv_step; [split; auto|]. simpl. apply wf_abs_adm_n. exact K. }
      simpl in X. rewrite NM, SM in X. exact X.
    + intros id C ms G. destruct (SN id C ms G) as (N1 & G1 & O1 & D1 & A1).
      assert (id <> tmp) as N2 by (intro; subst; congruence).
      split; auto. split; [apply (gexists_transfer id st st' (fun k => OT id k N1 N2) G1)|].
      split; [apply (ok_transfer id (s_nodes st) (s_nodes st')); [apply J'|intro k; apply OT; auto|exact O1]|].
      split; auto. intro k. rewrite (abs_transfer id st st' (fun k => OT id k N1 N2)). apply A1.
  - (* unmerge *)
    destruct (unmerge_refines_nodes cbm g st Jst W P) as (st1 & E & UG & J' & W' & OT).
    rewrite E in H. inversion H; subst st1; clear H.
    pose proof IC as ((ND1 & ND2) & _).
    constructor; cbn [h_cur h_ms h_snaps].
    + exact J'.
    + exact W'.
    + intro k. rewrite UG.
      assert (NoDup (map fst (nodes (abs_cbm cbm st)))) as NDk by (simpl; rewrite keys_abs; apply (ukeys_nids cbm); exact K).
      rewrite (sunmerge_get_node _ g k NDk), (sunmerge_get_node _ g k ND1). simpl nodes. rewrite CU. reflexivity.
    + assert (HInv (hstep hs (HUnmerge g))) as X by (apply HInv_step; [split; auto|exact I]). exact X.
    + intros id C ms G. destruct (SN id C ms G) as (N1 & G1 & O1 & D1 & A1).
      split; auto. split; [apply (gexists_transfer id st st' (fun k => OT id k N1) G1)|].
      split; [apply (ok_transfer id (s_nodes st) (s_nodes st')); [apply J'|intro k; apply OT; auto|exact O1]|].
      split; auto. intro k. rewrite (abs_transfer id st st' (fun k => OT id k N1)). apply A1.
  - (* snapshot *)
    destruct P as (GE & FR).
    destruct (snapshot_refines_nodes cbm new st Jst GE FR) as (st1 & E & SG & OT & J' & OK').
    rewrite E in H. inversion H; subst st1; clear H.
    assert (new <> cbm) as NN by (intro; subst; congruence).
    assert (hasn new (h_snaps hs) = false) as HN.
    { destruct (hasn new (h_snaps hs)) eqn:X; auto. apply (has_get N.eqb) in X as [[C ms] X].
      destruct (SN new C ms X) as (_ & G1 & _). congruence. }
    rewrite HN. pose proof IC as ((ND1 & ND2) & _).
    constructor; cbn [h_cur h_ms h_snaps].
    + exact J'.
    + apply (ok_transfer cbm (s_nodes st) (s_nodes st')); [apply J'|intro k; apply OT; auto|exact W].
    + intro k. rewrite (abs_transfer cbm st st' (fun k => OT cbm k (not_eq_sym NN))). apply CU.
    + assert (HInv (hstep hs (HSnap new))) as X by (apply HInv_step; [split; auto|exact I]).
      simpl in X. rewrite HN in X. exact X.
    + intros id C ms G. unfold getn in G. simpl in G. fold (@getn (Cbm14Spec.cbm * list adm)) in G.
      destruct (id =? new) eqn:EI.
      * apply N.eqb_eq in EI. subst id. inversion G; subst C ms.
        split; auto. split; [|split; [apply OK'; exact W|split; auto]].
        -- destruct (gexists_at cbm st GE) as (k & n & A).
           pose proof (SG k) as X. rewrite !getn_abs, A in X. simpl in X.
           destruct (at_ new k (s_nodes st')) as [m|] eqn:A'; [eapply at_gexists; eauto|discriminate].
        -- intro k. rewrite SG. apply CU.
      * apply N.eqb_neq in EI. destruct (SN id C ms G) as (N1 & G1 & O1 & D1 & A1).
        split; auto. split; [apply (gexists_transfer id st st' (fun k => OT id k EI) G1)|].
        split; [apply (ok_transfer id (s_nodes st) (s_nodes st')); [apply J'|intro k; apply OT; auto|exact O1]|].
        split; auto. intro k. rewrite (abs_transfer id st st' (fun k => OT id k EI)). apply A1.
  - (* rollback *)
    apply (has_get N.eqb) in P as [[C ms] G]. fold (@getn (Cbm14Spec.cbm * list adm)) in G.
    destruct (SN sid C ms G) as (N1 & G1 & O1 & D1 & A1).
    destruct (rollback_refines_nodes cbm sid st Jst N1 G1) as (st1 & E & RG & OT & TS & J' & OK').
    rewrite E in H. inversion H; subst st1; clear H. rewrite G.
    constructor; cbn [h_cur h_ms h_snaps].
    + exact J'.
    + apply OK'. exact O1.
    + intro k. rewrite RG. apply A1.
    + assert (HInv (hstep hs (HRollback sid))) as X by (apply HInv_step; [split; auto|exact I]).
      simpl in X. rewrite G in X. exact X.
    + intros id C0 ms0 G0. unfold getn in G0.
      rewrite (get_filter_key N.eqb Neq (fun k => negb (k =? sid))) in G0.
      destruct (id =? sid) eqn:EI; simpl in G0; [discriminate|]. apply N.eqb_neq in EI.
      destruct (SN id C0 ms0 G0) as (M1 & M2 & M3 & M4 & M5).
      split; auto. split; [apply (gexists_transfer id st st' (fun k => OT id k M1 EI) M2)|].
      split; [apply (ok_transfer id (s_nodes st) (s_nodes st')); [apply J'|intro k; apply OT; auto|exact M3]|].
      split; auto. intro k. rewrite (abs_transfer id st st' (fun k => OT id k M1 EI)). apply M5.
Qed.

(* ---------- histories ---------- *)
(* run the store model and the abstract model side by side; None when the store model does not return normally *)
Fixpoint sim_run (cbm : N) (st : store) (hs : hstate) (ops : list op) : option (store * hstate) :=
  match ops with
  | [] => Some (st, hs)
  | o :: r => match step cbm o st with
              | OOk st' => sim_run cbm st' (hstep hs (hop_of st o)) r
              | _ => None
              end
  end.
(* every operation is in the documented domain when it is executed *)
Fixpoint pre_run (cbm : N) (st : store) (hs : hstate) (ops : list op) : Prop :=
  match ops with
  | [] => True
  | o :: r => pre cbm o st hs /\
              match step cbm o st with
              | OOk st' => pre_run cbm st' (hstep hs (hop_of st o)) r
              | _ => True
              end
  end.
(* the abstract operations performed along the way *)
Fixpoint hops_run (cbm : N) (st : store) (ops : list op) : list hop :=
  match ops with
  | [] => []
  | o :: r => hop_of st o :: match step cbm o st with OOk st' => hops_run cbm st' r | _ => [] end
  end.

Theorem nsim_run cbm ops : forall st hs st' hs',
  NSim cbm st hs -> pre_run cbm st hs ops -> sim_run cbm st hs ops = Some (st', hs') ->
  NSim cbm st' hs' /\ hs' = hrun hs (hops_run cbm st ops).
Proof.
  induction ops as [|o r IH]; intros st hs st' hs' S P H; simpl in *.
  - inversion H; subst. auto.
  - destruct P as [P0 P1]. destruct (step cbm o st) as [s1| |] eqn:E; try discriminate.
    apply (IH s1 _ st' hs'); auto. eapply nsim_step; eauto.
Qed.

Lemma nsim_init cbm st :
  J (s_next st) (s_nodes st) -> gexists cbm st = false -> NSim cbm st hinit.
Proof.
  intros Jst GE. constructor; simpl.
  - exact Jst.
  - intros n Hn Gn. exfalso. apply (notmp_of_fresh cbm st GE n Hn Gn).
  - intro k. rewrite getn_abs, (no_gid_at cbm st GE k). reflexivity.
  - apply HInv_init.
  - intros id C ms G. discriminate.
Qed.

(* ---------- the abstract invariant, read on the store ---------- *)
Section Transfer.
  Variables (cbm : N) (st : store) (hs : hstate).
  Hypothesis S : NSim cbm st hs.

  Lemma node_get k n : at_ cbm k (s_nodes st) = Some n -> getn k (nodes (h_cur hs)) = Some (absn n).
  Proof. intro A. rewrite <- (ns_cur _ _ _ S k), getn_abs, A. reflexivity. Qed.

  (* every node of the combined graph records EXACTLY the merged models that contain it *)
  Theorem store_contributors_exact k n g :
    at_ cbm k (s_nodes st) = Some n ->
    (In g (abs_con (n_si n)) <-> exists A, In A (h_ms hs) /\ adm_id A = g /\ hasn k (adm_nodes A) = true).
  Proof.
    intro A. destruct (ns_inv _ _ _ S) as [(_ & _ & _ & _ & _ & CE & _) _].
    specialize (CE k). rewrite (node_get k n A) in CE. apply CE.
  Qed.

  (* the node set of the combined graph is the union of the merged models' node sets *)
  Theorem store_union k :
    (exists n, at_ cbm k (s_nodes st) = Some n) <-> exists A, In A (h_ms hs) /\ hasn k (adm_nodes A) = true.
  Proof.
    destruct (ns_inv _ _ _ S) as [(_ & AL & _ & _ & _ & CE & _) _]. specialize (CE k).
    pose proof (ns_cur _ _ _ S k) as E. rewrite getn_abs in E. split.
    - intros [n A]. rewrite A in E. simpl in E. rewrite <- E in CE.
      assert (alive (absn n) = true) as X by (apply (AL k); auto).
      apply alive_exists in X as [g X]. apply CE in X as (B & HB & _ & HK). eauto.
    - intros (B & HB & HK). destruct (at_ cbm k (s_nodes st)) as [n|]; eauto.
      simpl in E. rewrite <- E in CE. rewrite (CE B HB) in HK. discriminate.
  Qed.

  (* delegations are keyed by the contributor that supplied them *)
  Theorem store_delegations_keyed k n g x :
    at_ cbm k (s_nodes st) = Some n ->
    (abs_del (n_ld n) = Some (g, x) ->
       exists A a, In A (h_ms hs) /\ adm_id A = g /\ getn k (adm_nodes A) = Some a /\ a_ld a = Some x) /\
    (abs_del (n_cd n) = Some (g, x) ->
       exists A a, In A (h_ms hs) /\ adm_id A = g /\ getn k (adm_nodes A) = Some a /\ a_cd a = Some x).
  Proof.
    intro A. destruct (ns_inv _ _ _ S) as [(_ & _ & _ & _ & _ & _ & KB) _].
    apply (KB k (absn n) g x (node_get k n A)).
  Qed.

  (* shared elements appear once *)
  Theorem store_shared_once : NoDup (map n_nid (of_gid cbm st)).
  Proof. apply (ukeys_nids cbm). apply (ns_J _ _ _ S). Qed.
End Transfer.

(* the abstract model accepts every merge the store model performs *)
Lemma merge_not_refused cbm adm tmp st hs st1 :
  NSim cbm st hs -> pre cbm (OpMerge adm tmp) st hs -> merge_adm cbm adm tmp st = OOk st1 ->
  exists C', smerge (h_cur hs) (abs_adm_n adm st) = Some C' /\
             hstep hs (HMerge (abs_adm_n adm st)) = mkH C' (h_ms hs ++ [abs_adm_n adm st]) (h_snaps hs).
Proof.
  intros S (NE & NA & FR & NM) H.
  assert (cbm_wf cbm (s_nodes st)) as W0 by (intros n Hn Gn; apply (ns_ok _ _ _ S n Hn Gn)).
  destruct (merge_refines_nodes cbm adm tmp st st1 (ns_J _ _ _ S) W0 NE NA FR H) as (CF & _).
  assert (conflict (h_cur hs) (abs_adm_n adm st) = false) as CF'.
  { rewrite <- CF. unfold conflict. apply existsb_ext'. intros [k a]. simpl. rewrite <- (ns_cur _ _ _ S). reflexivity. }
  destruct (smerge_defined _ _ CF') as [C' SM]. exists C'. split; auto.
  simpl. change (adm_id (abs_adm_n adm st)) with adm. rewrite NM, SM. reflexivity.
Qed.

(* ---------- unmerge is the inverse of merge, on the store (node part) ---------- *)
Theorem store_unmerge_inverse_nodes cbm adm tmp st hs st1 st2 :
  NSim cbm st hs -> pre cbm (OpMerge adm tmp) st hs ->
  merge_adm cbm adm tmp st = OOk st1 -> unmerge_adm cbm adm st1 = OOk st2 ->
  forall k, getn k (abs_nodes cbm st2) = getn k (abs_nodes cbm st).
Proof.
  intros S P H1 H2 k.
  destruct (merge_not_refused cbm adm tmp st hs st1 S P H1) as (C' & SM & HS).
  assert (NSim cbm st1 (hstep hs (hop_of st (OpMerge adm tmp)))) as S1 by (eapply nsim_step; eauto).
  simpl hop_of in S1. rewrite HS in S1.
  assert (gexists cbm st1 = true) as GE1.
  { unfold unmerge_adm in H2. destruct (gexists cbm st1); auto. discriminate. }
  assert (NSim cbm st2 (hstep (mkH C' (h_ms hs ++ [abs_adm_n adm st]) (h_snaps hs)) (hop_of st1 (OpUnmerge adm)))) as S2
    by (eapply nsim_step; eauto).
  rewrite (ns_cur _ _ _ S2 k), (ns_cur _ _ _ S k). simpl.
  destruct (ns_inv _ _ _ S) as [IC _]. destruct P as (_ & _ & _ & NM).
  assert (~ In adm (map adm_id (h_ms hs))) as NIn by (intro X; apply mem_In in X; congruence).
  apply (unmerge_nodes (h_cur hs) (abs_adm_n adm st) C' k); auto.
  - apply (Inv_wf_cbm _ _ IC).
  - apply wf_abs_adm_n. apply (ns_J _ _ _ S).
  - apply (Inv_not_contributor _ _ adm IC NIn).
Qed.

(* ---------- rollback, on the store (node part) ---------- *)
Definition otouches (id : N) (o : op) : bool :=
  match o with OpSnap i => i =? id | OpRollback i => i =? id | _ => false end.

Lemma touches_hop id st o : Cbm14Hist.touches id (hop_of st o) = otouches id o.
Proof. destruct o; reflexivity. Qed.

Lemma hops_untouched cbm id ops : forall st,
  forallb (fun o => negb (otouches id o)) ops = true ->
  forallb (fun o => negb (Cbm14Hist.touches id o)) (hops_run cbm st ops) = true.
Proof.
  induction ops as [|o r IH]; intros st H; simpl in *; auto.
  apply andb_true_iff in H as [H1 H2]. rewrite touches_hop, H1. simpl.
  destruct (step cbm o st); auto.
Qed.

Lemma sim_run_app cbm a : forall b st hs,
  sim_run cbm st hs (a ++ b) =
  match sim_run cbm st hs a with Some (s1, h1) => sim_run cbm s1 h1 b | None => None end.
Proof.
  induction a as [|o r IH]; intros b st hs; simpl; auto.
  destruct (step cbm o st); auto.
Qed.

Lemma hops_run_app cbm a : forall b st hs s1 h1,
  sim_run cbm st hs a = Some (s1, h1) -> hops_run cbm st (a ++ b) = hops_run cbm st a ++ hops_run cbm s1 b.
Proof.
  induction a as [|o r IH]; intros b st hs s1 h1 H; simpl in *.
  - inversion H; subst. reflexivity.
  - destruct (step cbm o st) as [s2| |]; try discriminate. f_equal. eapply IH; eauto.
Qed.

Lemma hrun_app s a b : hrun s (a ++ b) = hrun (hrun s a) b.
Proof. unfold hrun. apply fold_left_app. Qed.

Theorem store_rollback_nodes cbm id mid st hs st' hs' :
  NSim cbm st hs ->
  pre_run cbm st hs (OpSnap id :: mid ++ [OpRollback id]) ->
  sim_run cbm st hs (OpSnap id :: mid ++ [OpRollback id]) = Some (st', hs') ->
  forallb (fun o => negb (otouches id o)) mid = true ->
  forall k, getn k (abs_nodes cbm st') = getn k (abs_nodes cbm st).
Proof.
  intros S P H T k.
  destruct (nsim_run cbm _ st hs st' hs' S P H) as [S' EH].
  rewrite (ns_cur _ _ _ S' k), (ns_cur _ _ _ S k). f_equal. f_equal.
  (* the abstract run is  snapshot id ; untouched operations ; rollback id *)
  destruct P as [(GE & FR) _].
  assert (hasn id (h_snaps hs) = false) as HN.
  { destruct (hasn id (h_snaps hs)) eqn:X; auto. apply (has_get N.eqb) in X as [[C ms] X].
    destruct (ns_snaps _ _ _ S id C ms X) as (_ & G1 & _). congruence. }
  cbn [sim_run hops_run app hop_of] in H, EH. destruct (step cbm (OpSnap id) st) as [s1| |] eqn:E1; try discriminate.
  rewrite sim_run_app in H.
  destruct (sim_run cbm s1 (hstep hs (HSnap id)) mid) as [[s2 h2]|] eqn:E2; [|discriminate].
  rewrite (hops_run_app cbm mid [OpRollback id] s1 _ s2 h2 E2) in EH.
  change (HSnap id :: hops_run cbm s1 mid ++ hops_run cbm s2 [OpRollback id])
    with ([HSnap id] ++ hops_run cbm s1 mid ++ hops_run cbm s2 [OpRollback id]) in EH.
  rewrite !hrun_app in EH. cbn [hops_run hop_of] in EH.
  assert (hs' = hstep (hrun (hstep hs (HSnap id)) (hops_run cbm s1 mid)) (HRollback id)) as EH'.
  { rewrite EH. destruct (step cbm (OpRollback id) s2); reflexivity. }
  rewrite EH'.
  apply (rollback_restores hs id (hops_run cbm s1 mid) HN (hops_untouched cbm id mid s1 T)).
Qed.

(* ---------- a concrete instance ---------- *)
Lemma ex_refine :
  rgoodb 0 ex_store = true /\ gexists 0 ex_store = false /\
  pre_run 0 ex_store hinit ex_sops /\
  exists st' hs', sim_run 0 ex_store hinit ex_sops = Some (st', hs') /\
                  map adm_id (h_ms hs') = [1] /\ map fst (nodes (h_cur hs')) = [10; 11] /\
                  map n_nid (of_gid 0 st') = [10; 11].
Proof.
  split; [vm_compute; reflexivity|]. split; [vm_compute; reflexivity|]. split.
  - vm_compute. repeat split; try reflexivity; try discriminate.
  - eexists. eexists. split; [vm_compute; reflexivity|]. split; [|split]; vm_compute; reflexivity.
Qed.

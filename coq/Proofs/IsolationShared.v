(* C04 on the shared store: the allocator invariant over all histories, the frame theorem for one
   step and for histories, and the clone theorems. *)
From Coq Require Import List NArith Bool Lia.
From FIM Require Import Base.Assoc Model.Store Proofs.IsolationBase.
Import ListNotations.
Open Scope N_scope.

Definition ids (G : nxg) : list N := map fst (gn G).

(* every stored internal id is unique and was drawn from the allocator (below start_id) *)
Definition SInv (s : store) : Prop :=
  NoDup (ids (sg s)) /\ forall i, In i (ids (sg s)) -> i < snext s.

(* ---------- [G'] keeps (a subset of) the node ids of [G] ---------- *)
Definition keeps (G' G : nxg) : Prop :=
  (NoDup (ids G) -> NoDup (ids G')) /\ incl (ids G') (ids G).

Lemma keeps_refl G : keeps G G.
Proof. split; [auto | apply incl_refl]. Qed.

Lemma keeps_trans A B C : keeps A B -> keeps B C -> keeps A C.
Proof. intros [H1 H2] [H3 H4]. split; [auto | eapply incl_tran; eauto]. Qed.

Lemma keeps_same_nodes G' G : ids G' = ids G -> keeps G' G.
Proof. intro H. unfold keeps. rewrite H. split; [auto | apply incl_refl]. Qed.

Lemma keeps_set_node G id ps : keeps (nx_set_node G id ps) G.
Proof. apply keeps_same_nodes. unfold ids, nx_set_node. simpl. apply map_fst_set_node. Qed.

Lemma keeps_set_edge G a b ps : keeps (nx_set_edge G a b ps) G.
Proof. now apply keeps_same_nodes. Qed.

Lemma keeps_add_edge G a b ps : keeps (nx_add_edge G a b ps) G.
Proof. unfold nx_add_edge. destruct (nx_edge G a b); now apply keeps_same_nodes. Qed.

Lemma map_fst_filter_fst (p : N -> bool) (l : list node) :
  map fst (filter (fun n => p (fst n)) l) = filter p (map fst l).
Proof.
  induction l as [|[i ps] r IH]; simpl; [reflexivity|].
  destruct (p i); simpl; now rewrite IH.
Qed.

Lemma keeps_filter_nodes (p : N -> bool) G es :
  keeps (mkG (filter (fun n => p (fst n)) (gn G)) es) G.
Proof.
  unfold keeps, ids. simpl. rewrite map_fst_filter_fst. split.
  - apply NoDup_filter.
  - apply incl_filter.
Qed.

Lemma keeps_remove_node G id : keeps (nx_remove_node G id) G.
Proof. unfold nx_remove_node. apply (keeps_filter_nodes (fun i => negb (N.eqb i id))). Qed.

Lemma keeps_remove_nodes G l : keeps (nx_remove_nodes G l) G.
Proof. unfold nx_remove_nodes. apply (keeps_filter_nodes (fun i => negb (memN i l))). Qed.

Lemma keeps_upd_nodes G l p v : keeps (mkG (upd_nodes l p v (gn G)) (ge G)) G.
Proof.
  apply keeps_same_nodes. unfold ids, upd_nodes. simpl. rewrite map_map. apply map_ext.
  intros [i ps]. simpl. now destruct (memN i l).
Qed.

Lemma keeps_same_gn G es : keeps (mkG (gn G) es) G.
Proof. now apply keeps_same_nodes. Qed.

(* ---------- the graph-object methods keep the node ids ---------- *)
Ltac keeps_tac :=
  repeat match goal with
         | |- keeps ?G ?G => apply keeps_refl
         | |- keeps (nx_set_node _ _ _) _ => apply keeps_set_node
         | |- keeps (nx_set_edge _ _ _ _) _ => apply keeps_set_edge
         | |- keeps (nx_add_edge _ _ _ _) _ => apply keeps_add_edge
         | |- keeps (nx_remove_node _ _) _ => apply keeps_remove_node
         | |- keeps (fst (if ?c then _ else _)) _ => destruct c; simpl
         | |- keeps (fst (match ?x with _ => _ end)) _ => destruct x; simpl
         | |- keeps (fst (_, _)) _ => simpl
         end.

Lemma keeps_update_node G g n p v : keeps (fst (pg_update_node G g n p v)) G.
Proof. unfold pg_update_node. keeps_tac. Qed.
Lemma keeps_unset_node G g n p : keeps (fst (pg_unset_node G g n p)) G.
Proof. unfold pg_unset_node. keeps_tac. Qed.
Lemma keeps_update_nodes G g p v : keeps (fst (pg_update_nodes G g p v)) G.
Proof. unfold pg_update_nodes. keeps_tac. apply keeps_upd_nodes. Qed.
Lemma keeps_update_node_props G g n u : keeps (fst (pg_update_node_props G g n u)) G.
Proof. unfold pg_update_node_props. keeps_tac. Qed.
Lemma keeps_with_link G g a b k gd f : keeps (fst (with_link G g a b k gd f)) G.
Proof. unfold with_link. keeps_tac. Qed.
Lemma keeps_delete_node G g n : keeps (fst (pg_delete_node G g n)) G.
Proof. unfold pg_delete_node. keeps_tac. Qed.
Lemma keeps_add_link G g a r b ps : keeps (fst (pg_add_link G g a r b ps)) G.
Proof. unfold pg_add_link. keeps_tac. Qed.

Lemma gn_fold_remap u v es G : gn (fold_left (remap_edge u v) es G) = gn G.
Proof.
  revert G; induction es as [|[[p q] d] r IH]; intro G; simpl; [reflexivity|].
  rewrite IH. unfold remap_edge.
  destruct (nx_edge G u _); reflexivity.
Qed.

Lemma keeps_contract G u v : keeps (contract G u v) G.
Proof.
  unfold contract. eapply keeps_trans; [|apply keeps_remove_node].
  apply keeps_same_nodes. unfold ids. now rewrite gn_fold_remap.
Qed.

Lemma keeps_merge G g n g2 pol : keeps (fst (s_merge G g n g2 pol)) G.
Proof.
  unfold s_merge.
  destruct (N.eqb g g2); [apply keeps_refl|].
  destruct (negb (pg_graph_exists G g2)); [apply keeps_refl|].
  destruct (find_node G g n) as [u|]; [|apply keeps_refl].
  destruct (find_node G g2 n) as [v|]; [|apply keeps_refl].
  destruct (nx_node G u) as [mine|]; [|apply keeps_refl].
  destruct (nx_node G v) as [other|]; [|apply keeps_refl].
  destruct pol as [p|]; simpl.
  - destruct (merge_props p mine other mine); simpl; [|apply keeps_refl].
    eapply keeps_trans; [apply keeps_set_node | apply keeps_contract].
  - eapply keeps_trans; [apply keeps_set_node | apply keeps_contract].
Qed.

(* ---------- consecutive ids ---------- *)
Fixpoint seqN (f : N) (n : nat) : list N :=
  match n with O => [] | S k => f :: seqN (N.succ f) k end.

Lemma seqN_In f n i : In i (seqN f n) <-> f <= i < f + N.of_nat n.
Proof.
  revert f; induction n as [|k IH]; intro f; simpl.
  - split; [intros [] | lia].
  - rewrite IH. split.
    + intros [H|H]; lia.
    + intro H. destruct (N.eq_dec f i); [now left | right; lia].
Qed.

Lemma seqN_NoDup f n : NoDup (seqN f n).
Proof.
  revert f; induction n as [|k IH]; intro f; simpl; constructor.
  - rewrite seqN_In. lia.
  - apply IH.
Qed.

Lemma relabel_nodes_fst l f : map fst (relabel_nodes l f) = seqN f (length l).
Proof.
  revert f; induction l as [|[k ps] r IH]; intro f; simpl; [reflexivity|]. now rewrite IH.
Qed.

Lemma relabel_nodes_length l f : length (relabel_nodes l f) = length l.
Proof. revert f; induction l as [|[k ps] r IH]; intro f; simpl; [reflexivity|]. now rewrite IH. Qed.

Lemma map_fst_stamp g l : map fst (stamp g l) = map fst l.
Proof. unfold stamp. rewrite map_map. reflexivity. Qed.

Lemma index_of_bounds k l f i : index_of k l f = Some i -> f <= i < f + N.of_nat (length l).
Proof.
  revert f; induction l as [|[k' ps] r IH]; intro f; simpl; [discriminate|].
  destruct (N.eqb k k').
  - intro H; inversion H; subst. lia.
  - intro H. apply IH in H. lia.
Qed.

Lemma index_of_some k l f : ahas k l = true -> exists i, index_of k l f = Some i.
Proof.
  revert f; induction l as [|[k' ps] r IH]; intro f; unfold ahas; simpl; [discriminate|].
  destruct (N.eqb k k'); [eauto|]. intro H. apply IH. exact H.
Qed.

(* ---------- adding fresh nodes / edges ---------- *)
Lemma add_nodes_fresh ns : forall G,
  NoDup (map fst ns) -> (forall i, In i (map fst ns) -> ~ In i (ids G)) ->
  fold_left (fun acc n => nx_add_node acc (fst n) (snd n)) ns G = mkG (gn G ++ ns) (ge G).
Proof.
  induction ns as [|[i ps] r IH]; intros G Hnd Hfresh; simpl.
  - rewrite app_nil_r. now destruct G.
  - inversion Hnd; subst.
    assert (Hn : nx_node G i = None).
    { unfold nx_node. apply aget_None_notin. apply Hfresh. now left. }
    unfold nx_add_node at 2. rewrite Hn.
    rewrite IH; simpl.
    + now rewrite <- app_assoc.
    + exact H2.
    + intros j Hj. unfold ids. simpl. rewrite map_app. simpl. intro Hin.
      apply in_app_or in Hin as [Hin|[Hin|[]]].
      * apply (Hfresh j); [now right | exact Hin].
      * subst j. now apply H1.
Qed.

Lemma fold_add_edges_gn es : forall G,
  gn (fold_left (fun acc e => let '(a, b, ps) := e in nx_add_edge acc a b ps) es G) = gn G.
Proof.
  induction es as [|[[a b] ps] r IH]; intro G; simpl; [reflexivity|].
  rewrite IH. unfold nx_add_edge. now destruct (nx_edge G a b).
Qed.

Lemma fold_add_edges_view es g' : forall G,
  (forall e, In e es -> memN (fst (fst e)) (ids_in G g') = false) ->
  view (fold_left (fun acc e => let '(a, b, ps) := e in nx_add_edge acc a b ps) es G) g' = view G g'.
Proof.
  induction es as [|[[a b] ps] r IH]; intros G H; simpl; [reflexivity|].
  rewrite IH.
  - apply view_add_edge. apply (H (a, b, ps)). now left.
  - intros e He.
    replace (ids_in (nx_add_edge G a b ps) g') with (ids_in G g').
    + apply H. now right.
    + unfold ids_in, nx_add_edge. now destruct (nx_edge G a b).
Qed.

Lemma ids_in_incl G g : incl (ids_in G g) (ids G).
Proof.
  unfold ids_in, ids. intros i Hi. apply in_map_iff in Hi as [n [H1 H2]].
  apply filter_In in H2 as [H2 _]. apply in_map_iff. eauto.
Qed.

(* importing nodes none of which g' can see, under ids at or above every stored id, leaves g' alone *)
Lemma view_add_all G ns es g' first :
  NoDup (ids G) -> (forall i, In i (ids G) -> i < first) ->
  map fst ns = seqN first (length ns) ->
  (forall n, In n ns -> in_g g' n = false) ->
  (forall e, In e es -> first <= fst (fst e)) ->
  view (nx_add_all G ns es) g' = view G g'.
Proof.
  intros Hnd Hlt Hfst Hng Hes. unfold nx_add_all.
  assert (Hfresh : forall i, In i (map fst ns) -> ~ In i (ids G)).
  { intros i Hi Hin. rewrite Hfst in Hi. apply seqN_In in Hi. apply Hlt in Hin. lia. }
  rewrite add_nodes_fresh; [| rewrite Hfst; apply seqN_NoDup | exact Hfresh].
  assert (Hv : view (mkG (gn G ++ ns) (ge G)) g' = view G g').
  { unfold view, ids_in. simpl. rewrite filter_app.
    assert (E : filter (in_g g') ns = []).
    { clear -Hng. induction ns as [|n r IH]; simpl; [reflexivity|].
      rewrite (Hng n (or_introl eq_refl)). apply IH. intros; apply Hng; now right. }
    rewrite E, app_nil_r. reflexivity. }
  rewrite fold_add_edges_view; [exact Hv|].
  intros e He. apply memN_false. intro Hin.
  assert (Hsame : ids_in (mkG (gn G ++ ns) (ge G)) g' = ids_in G g').
  { unfold view in Hv. inversion Hv. unfold ids_in. simpl. now rewrite H0. }
  rewrite Hsame in Hin. apply ids_in_incl in Hin. apply Hlt in Hin. specialize (Hes e He). lia.
Qed.

Lemma ids_add_all G ns es :
  NoDup (ids G) -> (forall i, In i (map fst ns) -> ~ In i (ids G)) -> NoDup (map fst ns) ->
  ids (nx_add_all G ns es) = ids G ++ map fst ns.
Proof.
  intros Hnd Hfresh Hnd2. unfold nx_add_all, ids. rewrite fold_add_edges_gn.
  rewrite add_nodes_fresh by assumption. simpl. apply map_app.
Qed.

Lemma NoDup_app_intro {A} (l1 l2 : list A) :
  NoDup l1 -> NoDup l2 -> (forall x, In x l1 -> In x l2 -> False) -> NoDup (l1 ++ l2).
Proof.
  induction l1 as [|x r IH]; simpl; intros H1 H2 H3; [exact H2|].
  inversion H1; subst. constructor.
  - intro Hin. apply in_app_or in Hin as [Hin|Hin]; [now apply H4 | apply (H3 x); [now left | exact Hin]].
  - apply IH; auto. intros y Hy. apply H3. now right.
Qed.

(* ---------- the allocator invariant is preserved by every operation ---------- *)
Lemma SInv_keeps s G' : SInv s -> keeps G' (sg s) -> SInv (mkS G' (snext s)).
Proof.
  intros [H1 H2] [K1 K2]. split; simpl; [auto|]. intros i Hi. apply H2. now apply K2.
Qed.

Lemma SInv_del_graph s g : SInv s -> SInv (s_del_graph s g).
Proof. intro H. unfold s_del_graph. apply SInv_keeps; [exact H | apply keeps_remove_nodes]. Qed.

Lemma SInv_add_all s ns es :
  SInv s -> map fst ns = seqN (snext s) (length ns) ->
  SInv (mkS (nx_add_all (sg s) ns es) (snext s + N.of_nat (length ns))).
Proof.
  intros [H1 H2] Hfst.
  assert (Hfresh : forall i, In i (map fst ns) -> ~ In i (ids (sg s))).
  { intros i Hi Hin. rewrite Hfst in Hi. apply seqN_In in Hi. apply H2 in Hin. lia. }
  assert (Hnd : NoDup (map fst ns)) by (rewrite Hfst; apply seqN_NoDup).
  split; simpl; rewrite ids_add_all by assumption.
  - apply NoDup_app_intro; auto. intros i Hi Hj. now apply (Hfresh i Hj).
  - intros i Hi. apply in_app_or in Hi as [Hi|Hi].
    + apply H2 in Hi. lia.
    + rewrite Hfst in Hi. apply seqN_In in Hi. lia.
Qed.

Lemma SInv_lift s x : SInv s -> keeps (fst x) (sg s) -> SInv (fst (lift s x)).
Proof. intros H K. unfold lift. simpl. now apply SInv_keeps. Qed.

Lemma relabel_inodes_fst ig f : map fst (inodes (relabel ig f)) = seqN f (length (inodes (relabel ig f))).
Proof. unfold relabel. simpl. now rewrite relabel_nodes_fst, relabel_nodes_length. Qed.

Lemma SInv_add_graph s g ig : SInv s -> SInv (fst (s_add_graph s g ig)).
Proof.
  intro H. unfold s_add_graph.
  pose proof (SInv_del_graph s g H) as H1.
  set (s1 := s_del_graph s g) in *.
  set (t := relabel ig (snext s1)).
  destruct (existsb node_id_missing (inodes t)); cbn [fst]; [exact H1|].
  replace (length (inodes t)) with (length (stamp g (inodes t))) by (unfold stamp; apply map_length).
  apply (SInv_add_all s1); [exact H1|].
  rewrite map_fst_stamp. unfold stamp. rewrite map_length. apply relabel_inodes_fst.
Qed.

Lemma SInv_add_graph_direct s g ig : SInv s -> SInv (fst (s_add_graph_direct s g ig)).
Proof.
  intro H. unfold s_add_graph_direct. cbn [fst].
  apply (SInv_add_all (s_del_graph s g)); [now apply SInv_del_graph | apply relabel_inodes_fst].
Qed.

Lemma SInv_add_node s g n c ps G' :
  SInv s -> pg_add_node (sg s) g (snext s) n c ps = Some G' -> SInv (mkS G' (snext s + 1)).
Proof.
  intros H Hadd. unfold pg_add_node in Hadd.
  destruct (search (sg s) [(k_graphid, g); (k_nodeid, n)]); [|discriminate].
  set (G1 := nx_add_node (sg s) (snext s) (blank_attrs g n c)) in *.
  assert (H1 : SInv (mkS G1 (snext s + 1))).
  { change G1 with (nx_add_all (sg s) [(snext s, blank_attrs g n c)] []).
    change 1 with (N.of_nat (length [(snext s, blank_attrs g n c)])).
    apply SInv_add_all; [exact H | reflexivity]. }
  destruct ps as [upd|].
  - destruct (nx_node G1 (snext s)); inversion Hadd; subst; [|exact H1].
    apply (SInv_keeps (mkS G1 (snext s + 1))); [exact H1 | apply keeps_set_node].
  - inversion Hadd; subst. exact H1.
Qed.

Theorem SInv_step s o : SInv s -> SInv (fst (sstep s o)).
Proof.
  intro H. destruct o; simpl; try exact H.
  - now apply SInv_add_graph.
  - now apply SInv_add_graph_direct.
  - now apply SInv_del_graph.
  - unfold s_clone. destruct (s_extract (sg s) g); [now apply SInv_add_graph | exact H].
  - destruct (pg_add_node (sg s) g (snext s) n c ps) eqn:E; simpl; [|exact H].
    eapply SInv_add_node; eauto.
  - apply SInv_lift; [exact H | apply keeps_delete_node].
  - apply SInv_lift; [exact H | apply keeps_add_link].
  - apply SInv_lift; [exact H | apply keeps_update_node].
  - apply SInv_lift; [exact H | apply keeps_unset_node].
  - apply SInv_lift; [exact H | apply keeps_update_nodes].
  - apply SInv_lift; [exact H | apply keeps_update_node_props].
  - apply SInv_lift; [exact H | apply keeps_with_link].
  - apply SInv_lift; [exact H | apply keeps_with_link].
  - apply SInv_lift; [exact H | apply keeps_with_link].
  - apply SInv_lift; [exact H | apply keeps_merge].
Qed.

Lemma SInv_init : SInv init_store.
Proof. split; simpl; [constructor | intros i []]. Qed.

Theorem SInv_run ops : forall s, SInv s -> SInv (srun ops s).
Proof.
  induction ops as [|o r IH]; intros s H; simpl; [exact H|].
  apply IH. now apply SInv_step.
Qed.

Theorem ids_unique_all ops :
  NoDup (ids (sg (srun ops init_store))) /\
  forall i, In i (ids (sg (srun ops init_store))) -> i < snext (srun ops init_store).
Proof. exact (SInv_run ops init_store SInv_init). Qed.

(* C08 proofs, part 1: the frame.  Every program of Model/T8Ops.v mutates the graph through
   m_delete only; hence, whatever the operation, the graph, and the outcome (also after an
   exception with partial effects), the final graph is the subgraph of the initial graph induced by
   the nodes that are not in the trace of deleted ids. *)
From Coq Require Import List NArith Bool Lia.
From FIM Require Import Model.T8Graph Model.T8Ops.
Import ListNotations.

Lemma memN_In x l : memN x l = true <-> In x l.
Proof.
  unfold memN. rewrite existsb_exists. split.
  - intros [y [Hy He]]. apply N.eqb_eq in He. subst. exact Hy.
  - intros H. exists x. split; [exact H | apply N.eqb_refl].
Qed.

Lemma memN_false x l : memN x l = false <-> ~ In x l.
Proof.
  rewrite <- memN_In. destruct (memN x l); split; intro H.
  - discriminate.
  - exfalso. apply H. reflexivity.
  - intro H'. discriminate.
  - reflexivity.
Qed.

Lemma memN_cons x y l : memN x (y :: l) = N.eqb x y || memN x l.
Proof. reflexivity. Qed.

Lemma memN_app x a b : memN x (a ++ b) = memN x a || memN x b.
Proof. unfold memN. apply existsb_app. Qed.

Lemma filter_filter {A} (f g : A -> bool) l :
  filter f (filter g l) = filter (fun x => g x && f x) l.
Proof.
  induction l as [|x l IH]; simpl; [reflexivity|].
  destruct (g x); simpl; [destruct (f x); simpl; rewrite IH; reflexivity | exact IH].
Qed.

Lemma filter_true {A} (l : list A) : filter (fun _ => true) l = l.
Proof. induction l; simpl; congruence. Qed.

Lemma restrict_nil g : restrict g [] = g.
Proof. destruct g as [ns es]. unfold restrict. simpl. rewrite !filter_true. reflexivity. Qed.

Lemma delete_restrict g d n : delete (restrict g d) n = restrict g (n :: d).
Proof.
  unfold delete, restrict. simpl. rewrite !filter_filter. f_equal.
  - apply filter_ext. intros x. rewrite N.eqb_sym. destruct (N.eqb n (nid x)), (memN (nid x) d); reflexivity.
  - apply filter_ext. intros e. rewrite (N.eqb_sym (ea e) n), (N.eqb_sym (eb e) n).
    destruct (N.eqb n (ea e)), (N.eqb n (eb e)), (memN (ea e) d), (memN (eb e) d); reflexivity.
Qed.

(* ---- the invariant: the state graph is the restriction of g0 by the trace; the trace only grows ---- *)
Definition Inv {A} (m : M A) : Prop :=
  forall g0 s, fst s = restrict g0 (snd s) ->
    fst (snd (m s)) = restrict g0 (snd (snd (m s))) /\ exists d, snd (snd (m s)) = d ++ snd s.

Lemma Inv_ret {A} (x : A) : Inv (ret x).
Proof. intros g0 s H. simpl. split; [exact H | exists []; reflexivity]. Qed.

Lemma Inv_fail {A} e : Inv (@fail A e).
Proof. intros g0 s H. simpl. split; [exact H | exists []; reflexivity]. Qed.

Lemma Inv_bind {A B} (m : M A) (f : A -> M B) : Inv m -> (forall x, Inv (f x)) -> Inv (bind m f).
Proof.
  intros Hm Hf g0 s H. unfold bind. specialize (Hm g0 s H).
  destruct (m s) as [[x|e] s'] eqn:E; simpl in *.
  - destruct Hm as [H1 [d Hd]]. specialize (Hf x g0 s' H1). destruct Hf as [H2 [d' Hd']].
    split; [exact H2|]. exists (d' ++ d). rewrite Hd', Hd, app_assoc. reflexivity.
  - exact Hm.
Qed.

Lemma Inv_read {A} (f : graph -> A + exn) : Inv (m_read f).
Proof. intros g0 s H. simpl. split; [exact H | exists []; reflexivity]. Qed.

Lemma Inv_get {A} (f : graph -> A) : Inv (m_get f).
Proof. intros g0 s H. simpl. split; [exact H | exists []; reflexivity]. Qed.

Lemma Inv_delete n : Inv (m_delete n).
Proof.
  intros g0 s H. unfold m_delete. destruct (has_node (fst s) n); simpl.
  - split; [rewrite H; apply delete_restrict | exists [n]; reflexivity].
  - split; [exact H | exists []; reflexivity].
Qed.

Lemma Inv_need_node n : Inv (need_node n).
Proof. apply Inv_read. Qed.

Lemma Inv_guard b e : Inv (guard b e).
Proof. unfold guard. destruct b; [apply Inv_ret | apply Inv_fail]. Qed.

Lemma Inv_for_each {A} (f : A -> M unit) l : (forall x, Inv (f x)) -> Inv (for_each f l).
Proof.
  intros Hf. induction l as [|x l IH]; simpl; [apply Inv_ret|].
  apply Inv_bind; [apply Hf | intros _; exact IH].
Qed.

Lemma Inv_for_each_set {A} (f : A -> M unit) l : (forall x, Inv (f x)) -> Inv (for_each_set f l).
Proof.
  intros Hf g0 s H. unfold for_each_set.
  pose proof (Inv_for_each f l Hf g0 s H) as P.
  destruct (for_each f l s) as [[u|e] s'] eqn:E; simpl in *; exact P.
Qed.

Lemma Inv_uniq l e1 e2 : Inv (uniq l e1 e2).
Proof. unfold uniq. destruct l as [|x [|y r]]; [apply Inv_fail | apply Inv_ret | apply Inv_fail]. Qed.

Ltac inv_step :=
  first
    [ apply Inv_ret | apply Inv_fail | apply Inv_get | apply Inv_read | apply Inv_delete
    | apply Inv_need_node | apply Inv_guard | apply Inv_uniq
    | apply Inv_bind; [| intros ?]
    | apply Inv_for_each_set; intros ?
    | apply Inv_for_each; intros ? ].

Lemma Inv_need_class n c : Inv (need_class n c).
Proof. unfold need_class. repeat inv_step. Qed.

Lemma Inv_remove_cp n dp : Inv (remove_cp_and_links n dp).
Proof. unfold remove_cp_and_links. repeat inv_step. Qed.

Lemma Inv_remove_ns n : Inv (remove_ns n).
Proof. unfold remove_ns. repeat first [apply Inv_need_class | apply Inv_remove_cp | inv_step]. Qed.

Lemma Inv_remove_component n : Inv (remove_component n).
Proof. unfold remove_component. repeat first [apply Inv_need_class | apply Inv_remove_ns | inv_step]. Qed.

Lemma Inv_remove_node_graph n : Inv (remove_node_graph n).
Proof.
  unfold remove_node_graph.
  repeat first [apply Inv_need_class | apply Inv_remove_ns | apply Inv_remove_component | inv_step].
Qed.

Lemma Inv_remove_link_graph n : Inv (remove_link_graph n).
Proof. unfold remove_link_graph. repeat first [apply Inv_need_class | inv_step]. Qed.

Lemma Inv_disconnect_interface i : Inv (disconnect_interface i).
Proof.
  unfold disconnect_interface. apply Inv_bind; [apply Inv_need_node | intros _].
  apply Inv_bind; [apply Inv_get | intros p].
  destruct p as [[|x [|y r]]|]; repeat first [apply Inv_remove_cp | inv_step].
Qed.

Lemma Inv_disconnect_peers_of i : Inv (disconnect_peers_of i).
Proof.
  unfold disconnect_peers_of. apply Inv_bind; [apply Inv_need_node | intros _].
  apply Inv_bind; [apply Inv_get | intros p].
  destruct p as [[|x [|y r]]|]; try solve [repeat inv_step].
  apply Inv_bind; [apply Inv_get | intros par].
  destruct par as [|s [|s' r']]; repeat first [apply Inv_disconnect_interface | inv_step].
Qed.

Lemma Inv_disconnect_step i : Inv (disconnect_step i).
Proof.
  unfold disconnect_step. apply Inv_bind; [apply Inv_get | intros b]. destruct b; [apply Inv_disconnect_peers_of | apply Inv_ret].
Qed.

Lemma Inv_api_remove_node nm : Inv (api_remove_node nm).
Proof.
  unfold api_remove_node.
  repeat first [apply Inv_disconnect_step | apply Inv_disconnect_peers_of | apply Inv_remove_node_graph | inv_step].
Qed.

Lemma Inv_api_remove_facility nm : Inv (api_remove_facility nm).
Proof.
  unfold api_remove_facility.
  repeat first [apply Inv_disconnect_step | apply Inv_disconnect_peers_of | apply Inv_remove_node_graph | inv_step].
Qed.

Lemma Inv_api_remove_switch nm : Inv (api_remove_switch nm).
Proof. unfold api_remove_switch. repeat first [apply Inv_api_remove_node | inv_step]. Qed.

Lemma Inv_api_remove_link nm : Inv (api_remove_link nm).
Proof. unfold api_remove_link. repeat first [apply Inv_remove_link_graph | inv_step]. Qed.

Lemma Inv_remove_ns_disconnecting s : Inv (remove_ns_disconnecting s).
Proof.
  unfold remove_ns_disconnecting. repeat first [apply Inv_disconnect_step | apply Inv_disconnect_peers_of | apply Inv_remove_ns | inv_step].
Qed.

Lemma Inv_api_remove_ns_topo nm : Inv (api_remove_ns_topo nm).
Proof. unfold api_remove_ns_topo. repeat first [apply Inv_remove_ns_disconnecting | inv_step]. Qed.

Lemma Inv_api_remove_component n c : Inv (api_remove_component n c).
Proof.
  unfold api_remove_component.
  repeat first [apply Inv_need_class | apply Inv_disconnect_step | apply Inv_disconnect_peers_of | apply Inv_remove_component | inv_step].
Qed.

Lemma Inv_api_node_remove_ns n s : Inv (api_node_remove_ns n s).
Proof. unfold api_node_remove_ns. repeat first [apply Inv_remove_ns_disconnecting | inv_step]. Qed.

Lemma Inv_api_disconnect i c : Inv (api_disconnect i c).
Proof.
  unfold api_disconnect. apply Inv_bind; [apply Inv_disconnect_interface | intros r].
  destruct r; apply Inv_ret.
Qed.

Lemma Inv_api_remove_interface ex s i c : Inv (api_remove_interface ex s i c).
Proof. unfold api_remove_interface. repeat first [apply Inv_remove_cp | inv_step]. Qed.

Lemma Inv_api_remove_child p i c : Inv (api_remove_child p i c).
Proof. unfold api_remove_child. repeat first [apply Inv_remove_cp | apply Inv_disconnect_step | apply Inv_disconnect_peers_of | inv_step]. Qed.

Lemma Inv_api_unpeer_with xy ca cb : Inv (api_unpeer_with xy ca cb).
Proof. unfold api_unpeer_with. repeat first [apply Inv_remove_cp | inv_step]. Qed.

Lemma Inv_api_unpeer_checked xy ca cb : Inv (api_unpeer_checked xy ca cb).
Proof. unfold api_unpeer_checked. repeat first [apply Inv_api_unpeer_with | inv_step]. Qed.

Lemma Inv_api_unpeer a b ca cb : Inv (api_unpeer a b ca cb).
Proof.
  unfold api_unpeer. apply Inv_bind; [apply Inv_need_node | intros _].
  apply Inv_bind; [apply Inv_need_node | intros _].
  apply Inv_bind; [apply Inv_get | intros e].
  destruct e as [[|xy [|xy' r]]|]; try apply Inv_fail; [apply Inv_api_unpeer_checked|].
  apply Inv_bind; [apply Inv_get | intros b0]. destruct b0; apply Inv_fail.
Qed.

Lemma Inv_remove_if_there c : Inv (remove_if_there c).
Proof.
  unfold remove_if_there. apply Inv_bind; [apply Inv_get | intros b]. destruct b; [apply Inv_remove_cp | apply Inv_ret].
Qed.

Lemma Inv_api_unpeer6 a b ca cb : Inv (api_unpeer6 a b ca cb).
Proof.
  unfold api_unpeer6. apply Inv_bind; [apply Inv_need_node | intros x].
  apply Inv_bind; [apply Inv_guard | intros _].
  apply Inv_bind; [apply Inv_get | intros ps].
  destruct ps as [|p ps']; [apply Inv_fail|].
  apply Inv_bind; [apply Inv_for_each_set; intros c; apply Inv_remove_if_there | intros _; apply Inv_ret].
Qed.

Lemma Inv_api_prune : Inv api_prune.
Proof.
  unfold api_prune.
  repeat first [apply Inv_api_remove_node | apply Inv_api_remove_component | apply Inv_remove_ns
               | apply Inv_remove_cp | inv_step].
Qed.

Lemma Inv_exists_as c n : Inv (exists_as c n).
Proof. apply Inv_get. Qed.

Lemma Inv_prune_node7 nn : Inv (prune_node7 nn).
Proof. unfold prune_node7. apply Inv_bind; [apply Inv_exists_as | intros b]. destruct b; [apply Inv_api_remove_node | apply Inv_ret]. Qed.
Lemma Inv_prune_comp7 cn : Inv (prune_comp7 cn).
Proof. unfold prune_comp7. apply Inv_bind; [apply Inv_exists_as | intros b]. destruct b; [apply Inv_api_remove_component | apply Inv_ret]. Qed.
Lemma Inv_prune_ns7 s : Inv (prune_ns7 s).
Proof. unfold prune_ns7. apply Inv_bind; [apply Inv_exists_as | intros b]. destruct b; [apply Inv_remove_ns_disconnecting | apply Inv_ret]. Qed.
Lemma Inv_prune_if7 i : Inv (prune_if7 i).
Proof.
  unfold prune_if7. apply Inv_bind; [apply Inv_exists_as | intros b]. destruct b; [|apply Inv_ret].
  repeat first [apply Inv_disconnect_step | apply Inv_remove_cp | inv_step].
Qed.

Lemma Inv_prune_if8 i : Inv (prune_if8 i).
Proof.
  unfold prune_if8. apply Inv_bind; [apply Inv_exists_as | intros b]. destruct b; [|apply Inv_ret].
  apply Inv_bind; [apply Inv_get | intros ifs].
  apply Inv_bind; [apply Inv_for_each_set; intros k; apply Inv_disconnect_step | intros _].
  apply Inv_bind; [apply Inv_get | intros dp]. apply Inv_remove_cp.
Qed.

Lemma Inv_api_prune8 : Inv api_prune8.
Proof.
  unfold api_prune8.
  repeat first [apply Inv_prune_node7 | apply Inv_prune_comp7 | apply Inv_prune_ns7 | apply Inv_prune_if8 | inv_step].
Qed.

Lemma Inv_prune_node9 nn : Inv (prune_node9 nn).
Proof.
  unfold prune_node9. apply Inv_bind; [apply Inv_exists_as | intros b]. destruct b; [|apply Inv_ret].
  apply Inv_bind; [apply Inv_get | intros t].
  destruct (N.eqb t T_Facility); [apply Inv_api_remove_facility | apply Inv_api_remove_node].
Qed.

Lemma Inv_api_prune9 : Inv api_prune9.
Proof.
  unfold api_prune9.
  repeat first [apply Inv_prune_node9 | apply Inv_prune_comp7 | apply Inv_prune_ns7 | apply Inv_prune_if8 | inv_step].
Qed.

Lemma Inv_api_prune7 : Inv api_prune7.
Proof.
  unfold api_prune7.
  repeat first [apply Inv_prune_node7 | apply Inv_prune_comp7 | apply Inv_prune_ns7 | apply Inv_prune_if7 | inv_step].
Qed.

Lemma Inv_exec ex o cs : Inv (exec ex o cs).
Proof.
  unfold exec. destruct o;
    repeat first [apply Inv_api_remove_node | apply Inv_api_remove_facility | apply Inv_api_remove_switch
                 | apply Inv_api_remove_link | apply Inv_api_remove_ns_topo | apply Inv_api_remove_component
                 | apply Inv_api_node_remove_ns | apply Inv_api_disconnect | apply Inv_api_unpeer6 | apply Inv_api_unpeer
                 | apply Inv_api_remove_interface | apply Inv_api_remove_child | apply Inv_api_prune9 | apply Inv_api_prune8 | apply Inv_api_prune7 | apply Inv_api_prune | inv_step].
Qed.

(* ---- the frame theorem ---- *)
Theorem frame_run {A} (m : M A) g r g' tr : Inv m -> run m g = (r, (g', tr)) -> g' = restrict g tr.
Proof.
  intros Hm E. unfold run in E. specialize (Hm g (g, []) (eq_sym (restrict_nil g))).
  rewrite E in Hm. simpl in Hm. destruct Hm as [H _]. exact H.
Qed.

Theorem frame_exec ex o cs g r g' tr :
  run (exec ex o cs) g = (r, (g', tr)) -> g' = restrict g tr.
Proof. apply frame_run, Inv_exec. Qed.

(* readings of "g' = restrict g tr" *)
Lemma restrict_nodes g d x : In x (gnodes (restrict g d)) <-> In x (gnodes g) /\ ~ In (nid x) d.
Proof.
  unfold restrict. simpl. rewrite filter_In. rewrite negb_true_iff, memN_false. tauto.
Qed.

Lemma restrict_edges g d e :
  In e (gedges (restrict g d)) <-> In e (gedges g) /\ ~ In (ea e) d /\ ~ In (eb e) d.
Proof.
  unfold restrict. simpl. rewrite filter_In, andb_true_iff, !negb_true_iff, !memN_false. tauto.
Qed.

(* survivors keep their whole record (class, type, name, every other property); every edge between two
   survivors survives with its class; nothing appears *)
Theorem frame_nodes ex o cs g r g' tr :
  run (exec ex o cs) g = (r, (g', tr)) ->
  forall x, In x (gnodes g') <-> In x (gnodes g) /\ ~ In (nid x) tr.
Proof. intros E x. rewrite (frame_exec _ _ _ _ _ _ _ E). apply restrict_nodes. Qed.

Theorem frame_edges ex o cs g r g' tr :
  run (exec ex o cs) g = (r, (g', tr)) ->
  forall e, In e (gedges g') <-> In e (gedges g) /\ ~ In (ea e) tr /\ ~ In (eb e) tr.
Proof. intros E e. rewrite (frame_exec _ _ _ _ _ _ _ E). apply restrict_edges. Qed.

(* the relative order of the survivors is kept as well: the result is literally a filtered copy *)
Theorem frame_order ex o cs g r g' tr :
  run (exec ex o cs) g = (r, (g', tr)) ->
  gnodes g' = filter (fun x => negb (memN (nid x) tr)) (gnodes g).
Proof. intros E. rewrite (frame_exec _ _ _ _ _ _ _ E). reflexivity. Qed.

(* C17 - lemmas about Model/Diff17.v: the transcribed comparison equals the declarative specification. *)
From Coq Require Import List NArith ZArith Bool Lia.
Import ListNotations.
From FIM Require Import Model.Diff17.

(* ------------------------------------------------------------------------------------------- *)
(* tracked values                                                                               *)
(* ------------------------------------------------------------------------------------------- *)

Lemma optN_eqb_refl x : optN_eqb x x = true.
Proof. destruct x; cbn; auto using N.eqb_refl. Qed.

Lemma labels_eqb_refl a : labels_eqb a a = true.
Proof. unfold labels_eqb. apply forallb_forall. intros; apply optN_eqb_refl. Qed.

Lemma caps_eqb_refl a : caps_eqb a a = true.
Proof. unfold caps_eqb. apply forallb_forall. intros; apply Z.eqb_refl. Qed.

Lemma py_ne_refl {A} (eqb : A -> A -> bool) (H : forall a, eqb a a = true) x : py_ne eqb x x = false.
Proof. destruct x; cbn; auto. now rewrite H. Qed.

Lemma props_same_refl p : props_same p p = true.
Proof.
  unfold props_same, labels_same, caps_same, udata_same.
  rewrite (py_ne_refl labels_eqb labels_eqb_refl), (py_ne_refl caps_eqb caps_eqb_refl), (py_ne_refl N.eqb N.eqb_refl).
  reflexivity.
Qed.

Lemma prop_diff_flags p q :
  prop_diff p q = mkFlags (negb (labels_same p q)) (negb (caps_same p q)) (negb (udata_same p q)) false.
Proof. unfold prop_diff, labels_same, caps_same, udata_same. now rewrite !negb_involutive. Qed.

Lemma is_none_flags3 l c u : is_none (mkFlags (negb l) (negb c) (negb u) false) = l && c && u.
Proof. destruct l, c, u; reflexivity. Qed.

Lemma is_none_prop_diff p q : is_none (prop_diff p q) = props_same p q.
Proof. rewrite prop_diff_flags. apply is_none_flags3. Qed.

Lemma self_mod_exp p q : self_mod p q = exp_self p q.
Proof.
  unfold self_mod, exp_self. cbv zeta. rewrite is_none_prop_diff, prop_diff_flags. reflexivity.
Qed.

Lemma isnil_exp_self p q : isnil (exp_self p q) = props_same p q.
Proof. unfold exp_self. destruct (props_same p q); reflexivity. Qed.

Lemma isnil_true {A} (l : list A) : isnil l = true -> l = [].
Proof. destruct l; cbn; congruence. Qed.

Lemma isSome_mk_opt {D} (empty : D -> bool) d : isSome (mk_opt empty d) = negb (empty d).
Proof. unfold mk_opt. destruct (empty d); reflexivity. Qed.

(* ------------------------------------------------------------------------------------------- *)
(* lists                                                                                        *)
(* ------------------------------------------------------------------------------------------- *)

Lemma filter_all_true {A} (f : A -> bool) l : (forall x, In x l -> f x = true) -> filter f l = l.
Proof.
  induction l as [|x l IH]; cbn; intros H; auto.
  rewrite (H x (or_introl eq_refl)). f_equal. apply IH. intros; apply H; now right.
Qed.

Lemma flat_map_ext_in' {A B} (f g : A -> list B) l :
  (forall x, In x l -> f x = g x) -> flat_map f l = flat_map g l.
Proof.
  induction l as [|x l IH]; cbn; intros H; auto.
  rewrite (H x (or_introl eq_refl)). f_equal. apply IH. intros; apply H; now right.
Qed.

Lemma forallb_ext_in' {A} (f g : A -> bool) l :
  (forall x, In x l -> f x = g x) -> forallb f l = forallb g l.
Proof.
  induction l as [|x l IH]; cbn; intros H; auto.
  rewrite (H x (or_introl eq_refl)). f_equal. apply IH. intros; apply H; now right.
Qed.

Lemma isnil_filter {A} (f : A -> bool) l : isnil (filter f l) = forallb (fun x => negb (f x)) l.
Proof. induction l as [|x l IH]; cbn; auto. destruct (f x); cbn; auto. Qed.

Lemma isnil_app {A} (l r : list A) : isnil (l ++ r) = isnil l && isnil r.
Proof. destruct l; reflexivity. Qed.

Lemma isnil_flat_map {A B} (g : A -> list B) l : isnil (flat_map g l) = forallb (fun x => isnil (g x)) l.
Proof. induction l as [|x l IH]; cbn; auto. now rewrite isnil_app, IH. Qed.

Lemma forallb_and {A} (f g : A -> bool) l : forallb f l && forallb g l = forallb (fun x => f x && g x) l.
Proof.
  induction l as [|x l IH]; cbn; auto. rewrite <- IH.
  destruct (f x), (g x), (forallb f l), (forallb g l); reflexivity.
Qed.

Lemma nodupb_NoDup l : nodupb l = true -> NoDup l.
Proof.
  induction l as [|x l IH]; cbn; intros H; constructor.
  - apply andb_true_iff in H. destruct H as [H _]. apply negb_true_iff in H.
    intros Hin. assert (existsb (N.eqb x) l = true) as E.
    { apply existsb_exists. exists x. split; auto. apply N.eqb_refl. }
    congruence.
  - apply IH. apply andb_true_iff in H. tauto.
Qed.

(* ------------------------------------------------------------------------------------------- *)
(* dictionaries                                                                                 *)
(* ------------------------------------------------------------------------------------------- *)

Section DictLemmas.
  Context {E : Type} (nm : E -> N).

  Lemma has_dget k d : has nm k d = isSome (dget nm k d).
  Proof.
    unfold has, dget. induction d as [|x d IH]; cbn; auto.
    destruct (N.eqb (nm x) k); cbn; auto.
  Qed.

  Lemma has_in k d : has nm k d = true <-> In k (map nm d).
  Proof.
    unfold has. rewrite existsb_exists, in_map_iff. split; intros [x [H1 H2]]; exists x.
    - apply N.eqb_eq in H2. tauto.
    - split; try tauto. apply N.eqb_eq. tauto.
  Qed.

  Lemma dget_some k d e : dget nm k d = Some e -> In e d /\ nm e = k.
  Proof.
    unfold dget. intros H. apply find_some in H. destruct H as [H1 H2]. apply N.eqb_eq in H2. tauto.
  Qed.

  Lemma dget_nodup d e : NoDup (map nm d) -> In e d -> dget nm (nm e) d = Some e.
  Proof.
    unfold dget. induction d as [|x d IH]; cbn; intros ND Hin; [tauto|].
    inversion ND as [|? ? Hx ND']; subst.
    destruct Hin as [->|Hin].
    - now rewrite N.eqb_refl.
    - destruct (N.eqb (nm x) (nm e)) eqn:Q.
      + apply N.eqb_eq in Q. exfalso. apply Hx. rewrite Q. now apply in_map.
      + now apply IH.
  Qed.

  Lemma kids_added_exp oa ob : kids_added nm oa ob = exp_added nm oa ob.
  Proof.
    unfold kids_added, exp_added, dict_added. destruct oa as [a|], ob as [b|]; cbn [dflt]; auto.
    symmetry. apply filter_all_true. reflexivity.
  Qed.

  Lemma kids_removed_exp oa ob : kids_removed nm oa ob = exp_removed nm oa ob.
  Proof.
    unfold kids_removed, exp_removed, dict_removed. destruct oa as [a|], ob as [b|]; cbn [dflt]; auto.
    symmetry. apply filter_all_true. reflexivity.
  Qed.

  (* what is 'added' from old to new is what is 'removed' from new to old *)
  Lemma kids_added_removed oa ob : kids_added nm oa ob = kids_removed nm ob oa.
  Proof. destruct oa, ob; reflexivity. Qed.

  Lemma dict_common_nil_r a : dict_common nm a [] = [].
  Proof. unfold dict_common. induction a; cbn; auto. Qed.

  Lemma kids_common_dflt oa ob : kids_common nm oa ob = dict_common nm (dflt oa) (dflt ob).
  Proof.
    destruct oa as [a|], ob as [b|]; cbn [kids_common dflt]; auto. now rewrite dict_common_nil_r.
  Qed.

  Lemma flat_map_common {B} (g : E * E -> list B) a b :
    flat_map g (dict_common nm a b)
    = flat_map (fun e => match dget nm (nm e) b with Some e' => g (e, e') | None => [] end) a.
  Proof.
    unfold dict_common. induction a as [|x a IH]; cbn; auto.
    rewrite flat_map_app, IH. f_equal.
    destruct (dget nm (nm x) b); cbn; auto using app_nil_r.
  Qed.

  Lemma in_common a b e e' : In (e, e') (dict_common nm a b) <-> In e a /\ dget nm (nm e) b = Some e'.
  Proof.
    unfold dict_common. rewrite in_flat_map. split.
    - intros [x [Hx H]]. destruct (dget nm (nm x) b) eqn:Q; cbn in H; try tauto.
      destruct H as [H|[]]. inversion H; subst. tauto.
    - intros [H1 H2]. exists e. split; auto. rewrite H2. now left.
  Qed.

  Lemma mods_exp (pd fl : E -> E -> flags) oa ob :
    (forall e e', In (e, e') (dict_common nm (dflt oa) (dflt ob)) -> pd e e' = fl e e') ->
    flat_map (fun p : E * E => let f := pd (fst p) (snd p) in if is_none f then [] else [(fst p, f)])
             (kids_common nm oa ob)
    = exp_mod nm fl oa ob.
  Proof.
    intros H. rewrite kids_common_dflt, flat_map_common. unfold exp_mod.
    apply flat_map_ext_in'. intros e He.
    destruct (dget nm (nm e) (dflt ob)) as [e'|] eqn:Q; auto.
    cbn [fst snd]. cbv zeta. rewrite (H e e'); auto. apply in_common. tauto.
  Qed.

  Lemma exp_mod_ext (fl1 fl2 : E -> E -> flags) oa ob :
    (forall e e', In (e, e') (dict_common nm (dflt oa) (dflt ob)) -> fl1 e e' = fl2 e e') ->
    exp_mod nm fl1 oa ob = exp_mod nm fl2 oa ob.
  Proof.
    intros H. unfold exp_mod. apply flat_map_ext_in'. intros e He.
    destruct (dget nm (nm e) (dflt ob)) as [e'|] eqn:Q; auto.
    rewrite (H e e'); auto. apply in_common. tauto.
  Qed.

  (* nothing added, nothing removed, nothing modified  =  same key set and every common pair the same *)
  Lemma exp_empty_same (fl : E -> E -> flags) (same : E -> E -> bool) oa ob :
    (forall e e', In (e, e') (dict_common nm (dflt oa) (dflt ob)) -> is_none (fl e e') = same e e') ->
    isnil (exp_added nm oa ob) && isnil (exp_removed nm oa ob) && isnil (exp_mod nm fl oa ob)
    = kids_same nm same oa ob.
  Proof.
    intros H. unfold exp_added, exp_removed, exp_mod, kids_same.
    rewrite !isnil_filter, isnil_flat_map.
    rewrite <- andb_assoc, forallb_and, andb_comm. f_equal.
    - apply forallb_ext_in'. intros e He. rewrite negb_involutive, has_dget.
      destruct (dget nm (nm e) (dflt ob)) as [e'|] eqn:Q; cbn; auto.
      rewrite <- (H e e') by (apply in_common; tauto).
      destruct (is_none (fl e e')); reflexivity.
    - apply forallb_ext_in'. intros e He. now rewrite negb_involutive.
  Qed.

  Lemma kids_same_refl (same : E -> E -> bool) oa :
    NoDup (map nm (dflt oa)) -> (forall e, In e (dflt oa) -> same e e = true) -> kids_same nm same oa oa = true.
  Proof.
    intros ND H. unfold kids_same. apply andb_true_iff. split; apply forallb_forall; intros e He.
    - rewrite dget_nodup; auto.
    - apply has_in. now apply in_map.
  Qed.

  (* declarative reading of the expected lists *)
  Lemma exp_added_spec oa ob x :
    In x (exp_added nm oa ob) <-> In x (dflt ob) /\ ~ In (nm x) (map nm (dflt oa)).
  Proof.
    unfold exp_added. rewrite filter_In, negb_true_iff, <- not_true_iff_false, has_in. tauto.
  Qed.

  Lemma exp_removed_spec oa ob x :
    In x (exp_removed nm oa ob) <-> In x (dflt oa) /\ ~ In (nm x) (map nm (dflt ob)).
  Proof.
    unfold exp_removed. rewrite filter_In, negb_true_iff, <- not_true_iff_false, has_in. tauto.
  Qed.

  Lemma exp_mod_spec fl oa ob x f :
    NoDup (map nm (dflt ob)) ->
    (In (x, f) (exp_mod nm fl oa ob) <->
     In x (dflt oa) /\ exists y, In y (dflt ob) /\ nm y = nm x /\ f = fl x y /\ is_none f = false).
  Proof.
    intros ND. unfold exp_mod. rewrite in_flat_map. split.
    - intros [e [He H]]. destruct (dget nm (nm e) (dflt ob)) as [y|] eqn:Q; [|destruct H].
      destruct (is_none (fl e y)) eqn:Z; [destruct H|]. destruct H as [H|[]]. inversion H; subst.
      split; auto. exists y. apply dget_some in Q. intuition.
    - intros [Hx [y [Hy [Hn [Hf Hz]]]]]. exists x. split; auto.
      assert (dget nm (nm x) (dflt ob) = Some y) as Q by (rewrite <- Hn; apply dget_nodup; auto).
      rewrite Q. subst f. rewrite Hz. now left.
  Qed.
End DictLemmas.

(* ------------------------------------------------------------------------------------------- *)
(* InterfaceSliver.diff                                                                         *)
(* ------------------------------------------------------------------------------------------- *)

Lemma sub_mods_exp oa ob : sub_mods oa ob = exp_mod sub_name sub_flags oa ob.
Proof.
  unfold sub_mods.
  apply (mods_exp sub_name (fun x y => prop_diff (sub_props x) (sub_props y)) sub_flags).
  intros. apply prop_diff_flags.
Qed.

Lemma iface_diff_exact a b : iface_diff a b = iface_expected a b.
Proof.
  unfold iface_diff, iface_expected, mk_opt, idiff_empty. cbv zeta. cbn [i_self i_added i_removed i_mod].
  now rewrite kids_added_exp, kids_removed_exp, self_mod_exp, sub_mods_exp.
Qed.

Lemma is_none_sub_flags x y : is_none (sub_flags x y) = sub_same x y.
Proof. unfold sub_flags, sub_same, props_same. apply is_none_flags3. Qed.

Lemma iface_expected_some a b : isSome (iface_expected a b) = negb (iface_same a b).
Proof.
  unfold iface_expected. rewrite isSome_mk_opt. f_equal.
  unfold idiff_empty, iface_same, subs_same. cbn [i_self i_added i_removed i_mod].
  rewrite <- (exp_empty_same sub_name sub_flags sub_same) by (intros; apply is_none_sub_flags).
  rewrite isnil_exp_self, !andb_assoc. reflexivity.
Qed.

Lemma iface_diff_some a b : isSome (iface_diff a b) = negb (iface_same a b).
Proof. rewrite iface_diff_exact. apply iface_expected_some. Qed.

Lemma sub_same_refl x : sub_same x x = true.
Proof. apply props_same_refl. Qed.

Lemma wf_iface_nodup i : wf_iface i = true -> NoDup (map sub_name (dflt (if_subs i))).
Proof. unfold wf_iface. intros H. apply andb_true_iff in H. apply nodupb_NoDup. tauto. Qed.

Lemma iface_same_refl i : wf_iface i = true -> iface_same i i = true.
Proof.
  intros W. unfold iface_same, subs_same. rewrite props_same_refl. cbn.
  apply kids_same_refl; auto using wf_iface_nodup, sub_same_refl.
Qed.

Lemma isSome_false {A} (o : option A) : isSome o = false -> o = None.
Proof. destruct o; cbn; congruence. Qed.

Lemma iface_diff_self i : wf_iface i = true -> iface_diff i i = None.
Proof. intros W. apply isSome_false. now rewrite iface_diff_some, iface_same_refl. Qed.

Lemma iface_diff_none_iff a b : iface_diff a b = None <-> iface_same a b = true.
Proof.
  pose proof (iface_diff_some a b) as H. destruct (iface_diff a b), (iface_same a b); cbn in H; split; congruence.
Qed.

(* ------------------------------------------------------------------------------------------- *)
(* NetworkServiceSliver.diff                                                                    *)
(* ------------------------------------------------------------------------------------------- *)

Lemma if_flag_code a b : if_flag a b = if_flags_code a b.
Proof.
  unfold if_flag, if_flags_code. cbv zeta. rewrite iface_diff_some, prop_diff_flags. unfold set_sub. cbn.
  destruct (if_dedicated a), (iface_same a b); reflexivity.
Qed.

Lemma if_mods_exp oa ob : if_mods oa ob = exp_mod if_name if_flags_code oa ob.
Proof.
  unfold if_mods. apply (mods_exp if_name if_flag if_flags_code). intros. apply if_flag_code.
Qed.

(* unconditional: the service comparison is exactly the specification with the port flag as the code computes it *)
Lemma svc_diff_exact_code a b : svc_diff a b = svc_expected_code a b.
Proof.
  unfold svc_diff, svc_expected_code, svc_expected_with, mk_opt, sdiff_empty. cbv zeta.
  cbn [s_self s_added s_removed s_mod].
  now rewrite kids_added_exp, kids_removed_exp, self_mod_exp, if_mods_exp.
Qed.

(* a port without the dedicated type has no children, on either side *)
Lemma plain_port_subs_same x y :
  wf_iface x = true -> wf_iface y = true -> if_dedicated x = if_dedicated y -> if_dedicated x = false ->
  subs_same x y = true.
Proof.
  unfold wf_iface. intros Wx Wy C D. rewrite <- C, D in Wy. rewrite D in Wx.
  apply andb_true_iff in Wx. apply andb_true_iff in Wy. destruct Wx as [_ Wx], Wy as [_ Wy]. cbn in Wx, Wy.
  apply isnil_true in Wx. apply isnil_true in Wy.
  unfold subs_same, kids_same. rewrite Wx, Wy. reflexivity.
Qed.

Lemma in_kids_common_wf a b x y :
  wf_svc a = true -> wf_svc b = true -> In (x, y) (dict_common if_name (dflt (sv_ifs a)) (dflt (sv_ifs b))) ->
  wf_iface x = true /\ wf_iface y = true.
Proof.
  unfold wf_svc. intros Wa Wb H. apply in_common in H. destruct H as [H1 H2]. apply dget_some in H2.
  apply andb_true_iff in Wa. apply andb_true_iff in Wb. destruct Wa as [_ Wa], Wb as [_ Wb].
  rewrite forallb_forall in Wa, Wb. split; [apply Wa|apply Wb]; tauto.
Qed.

Lemma compat_svc_in' a b x y :
  compat_svc a b = true -> In (x, y) (dict_common if_name (dflt (sv_ifs a)) (dflt (sv_ifs b))) ->
  if_dedicated x = if_dedicated y.
Proof.
  intros H Hin. unfold compat_svc in H. rewrite kids_common_dflt, forallb_forall in H.
  specialize (H _ Hin). cbn in H. now apply eqb_prop in H.
Qed.

Lemma is_none_if_flags_code x y :
  wf_iface x = true -> wf_iface y = true -> if_dedicated x = if_dedicated y ->
  is_none (if_flags_code x y) = iface_same x y.
Proof.
  intros Wx Wy C. pose proof (plain_port_subs_same x y Wx Wy C) as P.
  unfold if_flags_code, iface_same, props_same, is_none. cbn.
  destruct (if_dedicated x) eqn:D.
  - destruct (labels_same _ _), (caps_same _ _), (udata_same _ _), (subs_same x y); reflexivity.
  - rewrite (P eq_refl).
    destruct (labels_same _ _), (caps_same _ _), (udata_same _ _); reflexivity.
Qed.

Lemma svc_expected_code_some a b :
  wf_svc a = true -> wf_svc b = true -> compat_svc a b = true ->
  isSome (svc_expected_code a b) = negb (svc_same a b).
Proof.
  intros Wa Wb C. unfold svc_expected_code, svc_expected_with. rewrite isSome_mk_opt. f_equal.
  unfold sdiff_empty, svc_same. cbn [s_self s_added s_removed s_mod].
  rewrite <- (exp_empty_same if_name if_flags_code iface_same).
  - rewrite isnil_exp_self, !andb_assoc. reflexivity.
  - intros x y Hin. destruct (in_kids_common_wf a b x y Wa Wb Hin).
    apply is_none_if_flags_code; auto. eapply compat_svc_in'; eauto.
Qed.

Lemma svc_diff_some a b :
  wf_svc a = true -> wf_svc b = true -> compat_svc a b = true ->
  isSome (svc_diff a b) = negb (svc_same a b).
Proof. intros. rewrite svc_diff_exact_code. now apply svc_expected_code_some. Qed.

(* the code's port flag is the specified one except for the signature of finding C17-1 *)
Lemma if_flags_code_spec x y :
  wf_iface x = true -> wf_iface y = true -> if_dedicated x = if_dedicated y ->
  port_only_change x y = false -> if_flags_code x y = if_flags_spec x y.
Proof.
  intros Wx Wy C P. pose proof (plain_port_subs_same x y Wx Wy C) as PP.
  unfold if_flags_code, if_flags_spec. f_equal.
  unfold port_only_change, iface_same in *.
  destruct (if_dedicated x) eqn:D.
  - cbn in *. destruct (props_same _ _), (subs_same x y); cbn in *; congruence.
  - now rewrite (PP eq_refl).
Qed.

Lemma svc_diff_exact_partial a b :
  wf_svc a = true -> wf_svc b = true -> compat_svc a b = true -> no_port_only_change a b = true ->
  svc_diff a b = svc_expected a b.
Proof.
  intros Wa Wb C P. rewrite svc_diff_exact_code.
  unfold svc_expected_code, svc_expected, svc_expected_with.
  rewrite (exp_mod_ext if_name if_flags_code if_flags_spec); auto.
  intros x y Hin. destruct (in_kids_common_wf a b x y Wa Wb Hin).
  apply if_flags_code_spec; auto.
  - eapply compat_svc_in'; eauto.
  - unfold no_port_only_change in P. rewrite kids_common_dflt, forallb_forall in P.
    specialize (P _ Hin). cbn in P. now apply negb_true_iff in P.
Qed.

Lemma wf_svc_nodup s : wf_svc s = true -> NoDup (map if_name (dflt (sv_ifs s))).
Proof. unfold wf_svc. intros H. apply andb_true_iff in H. apply nodupb_NoDup. tauto. Qed.

Lemma wf_svc_ifaces s i : wf_svc s = true -> In i (dflt (sv_ifs s)) -> wf_iface i = true.
Proof. unfold wf_svc. intros H. apply andb_true_iff in H. destruct H as [_ H]. rewrite forallb_forall in H. auto. Qed.

Lemma svc_same_refl s : wf_svc s = true -> svc_same s s = true.
Proof.
  intros W. unfold svc_same. rewrite props_same_refl. cbn.
  apply kids_same_refl; auto using wf_svc_nodup.
  intros i Hi. apply iface_same_refl. eapply wf_svc_ifaces; eauto.
Qed.

Lemma compat_svc_refl s : wf_svc s = true -> compat_svc s s = true.
Proof.
  intros W. unfold compat_svc. rewrite kids_common_dflt. apply forallb_forall. intros [x y] H.
  apply in_common in H. destruct H as [H1 H2]. rewrite dget_nodup in H2; auto using wf_svc_nodup.
  inversion H2; subst. cbn. apply eqb_reflx.
Qed.

Lemma svc_diff_self s : wf_svc s = true -> svc_diff s s = None.
Proof.
  intros W. apply isSome_false. rewrite svc_diff_some; auto using compat_svc_refl.
  now rewrite svc_same_refl.
Qed.

Lemma svc_diff_none_iff a b :
  wf_svc a = true -> wf_svc b = true -> compat_svc a b = true ->
  (svc_diff a b = None <-> svc_same a b = true).
Proof.
  intros Wa Wb C. pose proof (svc_diff_some a b Wa Wb C) as H.
  destruct (svc_diff a b), (svc_same a b); cbn in H; split; congruence.
Qed.

(* ------------------------------------------------------------------------------------------- *)
(* NodeSliver.diff                                                                              *)
(* ------------------------------------------------------------------------------------------- *)

Lemma the_svc_first c s : the_svc c = Some s -> first_svc c = Ok s.
Proof.
  unfold the_svc, first_svc. destruct (c_svcs c) as [[|x [|y l]]|]; intros H; inversion H; reflexivity.
Qed.

Lemma the_svc_in c s : the_svc c = Some s -> In s (dflt (c_svcs c)).
Proof.
  unfold the_svc. destruct (c_svcs c) as [[|x [|y l]]|]; intros H; inversion H; cbn; auto.
Qed.

Lemma wf_comp_svc c s : wf_comp c = true -> In s (dflt (c_svcs c)) -> wf_svc s = true.
Proof.
  unfold wf_comp. intros H. apply andb_true_iff in H. destruct H as [H _].
  apply andb_true_iff in H. destruct H as [_ H]. rewrite forallb_forall in H. auto.
Qed.

Lemma wf_comp_smartnic c : wf_comp c = true -> c_smartnic c = true -> exists s, the_svc c = Some s.
Proof.
  unfold wf_comp. intros H S. apply andb_true_iff in H. destruct H as [_ H]. rewrite S in H. cbn in H.
  destruct (the_svc c) as [s|]; [now exists s|discriminate].
Qed.

Lemma comp_flag_spec x y :
  wf_comp x = true -> wf_comp y = true -> compat_comp x y = true ->
  comp_flag x y = Ok (comp_flags_spec x y).
Proof.
  intros Wx Wy C. unfold comp_flag, comp_flags_spec. cbv zeta. rewrite prop_diff_flags.
  unfold compat_comp in C. apply andb_true_iff in C. destruct C as [C1 C2]. apply eqb_prop in C1.
  destruct (c_smartnic x) eqn:S.
  - destruct (wf_comp_smartnic x Wx S) as [sa Ha].
    destruct (wf_comp_smartnic y Wy (eq_sym C1)) as [sb Hb].
    rewrite Ha, Hb in *. rewrite (the_svc_first _ _ Ha), (the_svc_first _ _ Hb).
    rewrite svc_diff_some; auto.
    + cbn. destruct (svc_same sa sb); cbn; reflexivity.
    + apply (wf_comp_svc x); auto using the_svc_in.
    + apply (wf_comp_svc y); auto using the_svc_in.
  - reflexivity.
Qed.

Lemma comp_mods_pairs_ok (l : list (comp * comp)) fl :
  (forall p, In p l -> comp_flag (fst p) (snd p) = Ok (fl (fst p) (snd p))) ->
  comp_mods_pairs l
  = Ok (flat_map (fun p : comp * comp => let f := fl (fst p) (snd p) in if is_none f then [] else [(fst p, f)]) l).
Proof.
  induction l as [|[a b] l IH]; intros H; cbn [comp_mods_pairs flat_map]; auto.
  pose proof (H (a, b) (or_introl eq_refl)) as Hab. cbn [fst snd] in Hab. rewrite Hab.
  cbn [fst snd]. rewrite IH by (intros; apply H; now right).
  cbv zeta. destruct (is_none (fl a b)); reflexivity.
Qed.

Lemma wf_node_comps n c : wf_node n = true -> In c (dflt (n_comps n)) -> wf_comp c = true.
Proof.
  unfold wf_node. intros H. repeat (apply andb_true_iff in H; destruct H as [H ?]).
  match goal with Q : forallb wf_comp _ = true |- _ => rewrite forallb_forall in Q; auto end.
Qed.

Lemma wf_node_nodup_c n : wf_node n = true -> NoDup (map c_name (dflt (n_comps n))).
Proof.
  unfold wf_node. intros H. repeat (apply andb_true_iff in H; destruct H as [H ?]). now apply nodupb_NoDup.
Qed.

Lemma wf_node_nodup_s n : wf_node n = true -> NoDup (map sv_name (dflt (n_svcs n))).
Proof.
  unfold wf_node. intros H. repeat (apply andb_true_iff in H; destruct H as [H ?]). now apply nodupb_NoDup.
Qed.

Lemma comp_mods_exp a b :
  wf_node a = true -> wf_node b = true -> compat_node a b = true ->
  comp_mods (n_comps a) (n_comps b) = Ok (exp_mod c_name comp_flags_spec (n_comps a) (n_comps b)).
Proof.
  intros Wa Wb C. unfold comp_mods. rewrite (comp_mods_pairs_ok _ comp_flags_spec).
  - f_equal. apply (mods_exp c_name comp_flags_spec comp_flags_spec). reflexivity.
  - intros [x y] Hin. cbn [fst snd]. unfold compat_node in C. rewrite forallb_forall in C.
    pose proof (C _ Hin) as Cxy. cbn in Cxy.
    rewrite kids_common_dflt in Hin. apply in_common in Hin. destruct Hin as [H1 H2]. apply dget_some in H2.
    destruct H2 as [H2 _]. apply comp_flag_spec; auto.
    + apply (wf_node_comps a); auto.
    + apply (wf_node_comps b); auto.
Qed.

Lemma nsvc_mods_exp oa ob : nsvc_mods oa ob = exp_mod sv_name nsvc_flags oa ob.
Proof.
  unfold nsvc_mods.
  apply (mods_exp sv_name (fun x y => prop_diff (sv_props x) (sv_props y)) nsvc_flags).
  intros. apply prop_diff_flags.
Qed.

Lemma node_diff_exact a b :
  wf_node a = true -> wf_node b = true -> compat_node a b = true ->
  node_diff a b = Ok (node_expected a b).
Proof.
  intros Wa Wb C. unfold node_diff. rewrite comp_mods_exp; auto.
  unfold node_expected, mk_opt. cbv zeta.
  now rewrite !kids_added_exp, !kids_removed_exp, self_mod_exp, nsvc_mods_exp.
Qed.

Lemma is_none_comp_flags x y : is_none (comp_flags_spec x y) = comp_same x y.
Proof.
  unfold comp_flags_spec, comp_same, props_same, is_none. cbn.
  destruct (labels_same _ _), (caps_same _ _), (udata_same _ _), (c_smartnic x), (osvc_same _ _); reflexivity.
Qed.

Lemma is_none_nsvc_flags x y : is_none (nsvc_flags x y) = nsvc_same x y.
Proof. unfold nsvc_flags, nsvc_same, props_same. apply is_none_flags3. Qed.

Lemma node_expected_some a b : isSome (node_expected a b) = negb (node_same a b).
Proof.
  unfold node_expected. rewrite isSome_mk_opt. f_equal.
  unfold ndiff_empty, node_same. cbn [n_added_c n_removed_c n_added_s n_removed_s n_self n_mod_c n_mod_s].
  rewrite <- (exp_empty_same c_name comp_flags_spec comp_same) by (intros; apply is_none_comp_flags).
  rewrite <- (exp_empty_same sv_name nsvc_flags nsvc_same) by (intros; apply is_none_nsvc_flags).
  rewrite isnil_exp_self.
  destruct (isnil (exp_added c_name _ _)), (isnil (exp_removed c_name _ _)), (isnil (exp_added sv_name _ _)),
    (isnil (exp_removed sv_name _ _)), (isnil (exp_mod c_name _ _ _)), (isnil (exp_mod sv_name _ _ _)),
    (props_same _ _); reflexivity.
Qed.

Lemma node_diff_none_iff a b :
  wf_node a = true -> wf_node b = true -> compat_node a b = true ->
  (node_diff a b = Ok None <-> node_same a b = true).
Proof.
  intros Wa Wb C. rewrite node_diff_exact; auto. pose proof (node_expected_some a b) as H.
  destruct (node_expected a b), (node_same a b); cbn in H; split; congruence.
Qed.

Lemma osvc_same_refl c : wf_comp c = true -> osvc_same (the_svc c) (the_svc c) = true.
Proof.
  intros W. destruct (the_svc c) as [s|] eqn:Q; cbn; auto.
  apply svc_same_refl. apply (wf_comp_svc c); auto using the_svc_in.
Qed.

Lemma comp_same_refl c : wf_comp c = true -> comp_same c c = true.
Proof.
  intros W. unfold comp_same. rewrite props_same_refl, osvc_same_refl; auto. now rewrite orb_true_r.
Qed.

Lemma compat_comp_refl c : wf_comp c = true -> compat_comp c c = true.
Proof.
  intros W. unfold compat_comp. rewrite eqb_reflx. cbn.
  destruct (the_svc c) as [s|] eqn:Q; auto. apply compat_svc_refl. apply (wf_comp_svc c); auto using the_svc_in.
Qed.

Lemma compat_node_refl n : wf_node n = true -> compat_node n n = true.
Proof.
  intros W. unfold compat_node. rewrite kids_common_dflt. apply forallb_forall. intros [x y] H.
  apply in_common in H. destruct H as [H1 H2]. rewrite dget_nodup in H2; auto using wf_node_nodup_c.
  inversion H2; subst. cbn. apply compat_comp_refl. eapply wf_node_comps; eauto.
Qed.

Lemma node_same_refl n : wf_node n = true -> node_same n n = true.
Proof.
  intros W. unfold node_same. rewrite props_same_refl. cbn.
  rewrite kids_same_refl; auto using wf_node_nodup_c.
  - cbn. apply kids_same_refl; auto using wf_node_nodup_s. intros; apply props_same_refl.
  - intros c Hc. apply comp_same_refl. eapply wf_node_comps; eauto.
Qed.

Lemma node_diff_self n : wf_node n = true -> node_diff n n = Ok None.
Proof.
  intros W. apply node_diff_none_iff; auto using compat_node_refl, node_same_refl.
Qed.

Lemma node_diff_same_none a b :
  wf_node a = true -> wf_node b = true -> compat_node a b = true -> node_same a b = true ->
  node_diff a b = Ok None.
Proof. intros. now apply node_diff_none_iff. Qed.

(* ------------------------------------------------------------------------------------------- *)
(* added (old -> new) = removed (new -> old)                                                     *)
(* ------------------------------------------------------------------------------------------- *)

Lemma id_added_kids a b : id_added (iface_diff a b) = kids_added sub_name (if_subs a) (if_subs b).
Proof.
  unfold iface_diff. cbv zeta. cbn [i_self i_added i_removed i_mod].
  destruct (isnil (self_mod _ _)); cbn; auto.
  destruct (isnil (kids_added _ _ _)) eqn:Q; cbn; auto.
  destruct (isnil (kids_removed _ _ _) && isnil (sub_mods _ _)); cbn; auto using isnil_true, eq_sym.
Qed.

Lemma id_removed_kids a b : id_removed (iface_diff a b) = kids_removed sub_name (if_subs a) (if_subs b).
Proof.
  unfold iface_diff. cbv zeta. cbn [i_self i_added i_removed i_mod].
  destruct (isnil (self_mod _ _)); cbn; auto.
  destruct (isnil (kids_added _ _ _)); cbn; auto.
  destruct (isnil (kids_removed _ _ _)) eqn:Q; cbn; auto.
  destruct (isnil (sub_mods _ _)); cbn; auto using isnil_true, eq_sym.
Qed.

Lemma iface_antisym a b :
  id_added (iface_diff a b) = id_removed (iface_diff b a) /\ id_removed (iface_diff a b) = id_added (iface_diff b a).
Proof.
  rewrite !id_added_kids, !id_removed_kids. split; [|symmetry]; apply kids_added_removed.
Qed.

Lemma sd_added_kids a b : sd_added (svc_diff a b) = kids_added if_name (sv_ifs a) (sv_ifs b).
Proof.
  unfold svc_diff. cbv zeta. cbn [s_self s_added s_removed s_mod].
  destruct (isnil (self_mod _ _)); cbn; auto.
  destruct (isnil (kids_added _ _ _)) eqn:Q; cbn; auto.
  destruct (isnil (kids_removed _ _ _) && isnil (if_mods _ _)); cbn; auto using isnil_true, eq_sym.
Qed.

Lemma sd_removed_kids a b : sd_removed (svc_diff a b) = kids_removed if_name (sv_ifs a) (sv_ifs b).
Proof.
  unfold svc_diff. cbv zeta. cbn [s_self s_added s_removed s_mod].
  destruct (isnil (self_mod _ _)); cbn; auto.
  destruct (isnil (kids_added _ _ _)); cbn; auto.
  destruct (isnil (kids_removed _ _ _)) eqn:Q; cbn; auto.
  destruct (isnil (if_mods _ _)); cbn; auto using isnil_true, eq_sym.
Qed.

Lemma svc_antisym a b :
  sd_added (svc_diff a b) = sd_removed (svc_diff b a) /\ sd_removed (svc_diff a b) = sd_added (svc_diff b a).
Proof.
  rewrite !sd_added_kids, !sd_removed_kids. split; [|symmetry]; apply kids_added_removed.
Qed.

Lemma node_diff_lists a b o :
  node_diff a b = Ok o ->
  nd_added_c o = kids_added c_name (n_comps a) (n_comps b) /\
  nd_removed_c o = kids_removed c_name (n_comps a) (n_comps b) /\
  nd_added_s o = kids_added sv_name (n_svcs a) (n_svcs b) /\
  nd_removed_s o = kids_removed sv_name (n_svcs a) (n_svcs b).
Proof.
  unfold node_diff. destruct (comp_mods _ _) as [cm|e]; [|discriminate]. cbv zeta.
  intros H. inversion H; subst; clear H.
  destruct (ndiff_empty _) eqn:Q; cbn; auto.
  unfold ndiff_empty in Q. cbn [n_added_c n_removed_c n_added_s n_removed_s n_self n_mod_c n_mod_s] in Q.
  repeat (apply andb_true_iff in Q; destruct Q as [Q ?]).
  repeat split; symmetry; now apply isnil_true.
Qed.

Lemma node_antisym a b oab oba :
  node_diff a b = Ok oab -> node_diff b a = Ok oba ->
  nd_added_c oab = nd_removed_c oba /\ nd_removed_c oab = nd_added_c oba /\
  nd_added_s oab = nd_removed_s oba /\ nd_removed_s oab = nd_added_s oba.
Proof.
  intros H1 H2. apply node_diff_lists in H1. apply node_diff_lists in H2.
  destruct H1 as [A1 [A2 [A3 A4]]], H2 as [B1 [B2 [B3 B4]]].
  rewrite A1, A2, A3, A4, B1, B2, B3, B4.
  repeat split; try apply kids_added_removed; symmetry; apply kids_added_removed.
Qed.

(* ------------------------------------------------------------------------------------------- *)
(* the finding: the full statement at service level is false of the faithful model              *)
(* ------------------------------------------------------------------------------------------- *)

Lemma svc_exact_refuted :
  exists a b, wf_svc a = true /\ wf_svc b = true /\ compat_svc a b = true /\ svc_diff a b <> svc_expected a b.
Proof. exists w_old, w_new. repeat split; try (vm_compute; reflexivity). vm_compute. discriminate. Qed.

(* ... and what the two sides are on the witness: LABELS|SUB_INTERFACES reported, LABELS expected *)
Lemma svc_exact_refuted_values :
  option_map (fun d => map (fun p => flag_val (snd p)) (s_mod d)) (svc_diff w_old w_new) = Some [9%N] /\
  option_map (fun d => map (fun p => flag_val (snd p)) (s_mod d)) (svc_expected w_old w_new) = Some [1%N].
Proof. split; vm_compute; reflexivity. Qed.

(* C09 - calls through handles that may be stale: NetworkService.add_interface and peer use the names cached in the
   handle and read nothing from the graph before they write. *)
From Coq Require Import List NArith Bool Lia.
From FIM Require Import Base.Str Gen.T9Names Model.T9Graph Model.T9Ops Proofs.T9Monad Proofs.T9Simple Proofs.T9Ext
     Proofs.T9Rollback Proofs.T9Connect Proofs.T9Facility Proofs.T9Peer.
Import ListNotations.
Open Scope N_scope.

(* with the parent look-up of C09-8 the constructor is atomic whatever the handle *)
Lemma new_interface_pc_atomic fl name node_id p itype pure : atomic (new_interface_pc fl name node_id p itype pure).
Proof.
  unfold atomic, new_interface_pc.
  apply atomic_bind_nm; [nm|intro]. apply atomic_bind_nm; [nm|intro id].
  destruct itype as [ty|]; [|apply atomic_of_no_mut; nm].
  apply atomic_bind_nm; [nm|intro]. apply atomic_bind_nm; [nm|intro]. apply atomic_bind_nm; [nm|intro pn].
  eapply atomic_if_weaken; [|apply (mutate_pair_atomic (mkNode id cCP name ty 0) p rConnects (ret id))].
  - intros s (s0 & _ & E0). apply ask_ok in E0 as [-> E0]. eexists; eauto.
  - nm.
  - intro s; do 2 eexists; reflexivity.
Qed.

Lemma add_interface_h_atomic_pc fl ns cached name node_id itype pure :
  atomic (add_interface_h true fl ns cached name node_id itype pure).
Proof.
  unfold atomic, add_interface_h. apply atomic_bind_nm; [nm|intro].
  eapply atomic_if_weaken; [|apply new_interface_pc_atomic]. intros; exact I.
Qed.

Lemma add_interface_h_atomic_found pc fl ns cached name node_id itype pure :
  atomic_if (parent_found ns) (add_interface_h pc fl ns cached name node_id itype pure).
Proof.
  unfold add_interface_h. apply atomic_bind_nm; [nm|intro].
  destruct pc.
  - eapply atomic_if_weaken; [|apply new_interface_pc_atomic]. intros; exact I.
  - eapply atomic_if_weaken; [|apply new_interface_atomic].
    intros s (s0 & H0 & E0). eapply nm_keeps_parent; [| |exact E0]; [nm|exact H0].
Qed.

(* when the parent is there the look-up changes nothing *)
Lemma new_interface_pc_eq fl name node_id p itype pure s :
  (exists n, find_node (sg s) p = Ok n) ->
  new_interface_pc fl name node_id p itype pure s = new_interface fl name node_id (Some p) itype pure s.
Proof.
  intros [n Hn]. unfold new_interface_pc, new_interface, bind.
  destruct (guard (negb (is_substrate fl && match node_id with None => true | Some _ => false end)) ETopology s)
    as [s1 [u|e]] eqn:E1; [|reflexivity].
  apply guard_ok in E1 as [-> _].
  destruct (id_or_draw node_id s) as [s2 [id|e]] eqn:E2; [|reflexivity].
  apply id_or_draw_ok in E2 as (G2 & _ & _).
  destruct itype as [ty|]; [|reflexivity].
  destruct (guard (name_ok rule_iface name) EValue s2) as [s3 [u3|e]] eqn:E3; [|reflexivity].
  apply guard_ok in E3 as [-> _].
  destruct (opt_raise pure s2) as [s4 [u4|e]] eqn:E4; [|reflexivity].
  apply opt_raise_ok in E4 as ->.
  unfold ask. rewrite G2, Hn. reflexivity.
Qed.

Lemma port_on_service_h pc fl G a cached name pure s s1 r :
  closed G -> NoDup (ids G) -> In a (ids G) -> sg s = G ->
  add_interface_h pc fl a cached name None (Some tServicePort) pure s = (s1, r) ->
  match r with
  | Err _ => sg s1 = G
  | Ok p => exists o, nid o = p /\ ~ In p (ids G) /\ sg s1 = plus_port G a o
  end.
Proof.
  intros Hcl Hnd Ha Hsg H.
  apply (port_on_service fl G a cached name pure s s1 r Hcl Hnd Ha Hsg).
  destruct pc; [|exact H].
  unfold add_interface_h in H. unfold add_interface_cached.
  unfold bind in *. destruct (guard (negb (str_in name cached)) ETopology s) as [s0 [u|e]] eqn:Eg; [|exact H].
  apply guard_ok in Eg as [-> _].
  rewrite <- new_interface_pc_eq; [exact H|]. rewrite Hsg. apply parent_found_In; auto.
Qed.

(* peer through any two handles (names and cached interface names as the handles carry them) of two
   NetworkService nodes of the graph *)
Lemma peer_h_atomic pc fl a an ca b bn cb pure g fresh s' e :
  wf_graph g = true -> node_cls g a = Ok cNS -> node_cls g b = Ok cNS ->
  op_peer_h pc fl a an ca b bn cb pure (mkSt g fresh) = (s', Err e) -> sg s' = g.
Proof.
  intros Hwf Hca Hcb H. assert (Hcl := wf_closed g Hwf). assert (Hnd := wf_nodup g Hwf).
  destruct (node_cls_facts g a Hca) as (Ha & Ha1 & Ha2).
  destruct (node_cls_facts g b Hcb) as (Hb & Hb1 & Hb2).
  unfold op_peer_h in H.
  apply bind_err_cases in H as [H|(s1 & i1 & H1 & H)].
  { exact (port_on_service_h pc fl g a ca _ pure (mkSt g fresh) s' (Err e) Hcl Hnd Ha eq_refl H). }
  destruct (port_on_service_h pc fl g a ca _ pure (mkSt g fresh) s1 (Ok i1) Hcl Hnd Ha eq_refl H1) as (o1 & Hid1 & Hnew1 & Hs1).
  subst i1. destruct s1 as [g1 fr1]. simpl in Hs1. subst g1.
  set (G1 := plus_port g a o1) in *.
  assert (HclG1 : closed G1) by (apply plus_port_closed; auto).
  assert (HndG1 : NoDup (ids G1)) by (apply plus_port_nodup; auto).
  assert (HbG1 : In b (ids G1)).
  { unfold G1, plus_port, ids; simpl. rewrite map_app. apply in_app_iff. left. exact Hb. }
  assert (HrmO1 : forall fr, remove_cp_and_links (nid o1) (mkSt G1 fr) = (mkSt g fr, Ok tt)).
  { intro fr. apply remove_fresh_port; auto. }
  apply catch_any_err in H as (s2 & e2 & Hm & Hh).
  assert (Hs2 : sg s2 = G1).
  { apply bind_err_cases in Hm as [Hm|(s3 & i2 & H3 & Hm)].
    - exact (port_on_service_h pc fl G1 b cb _ None (mkSt G1 fr1) s2 (Err e2) HclG1 HndG1 HbG1 eq_refl Hm).
    - destruct (port_on_service_h pc fl G1 b cb _ None (mkSt G1 fr1) s3 (Ok i2) HclG1 HndG1 HbG1 eq_refl H3)
        as (o2 & Hid2 & Hnew2 & Hs3).
      subst i2. destruct s3 as [g3 fr3]. simpl in Hs3. subst g3.
      apply catch_any_err in Hm as (s4 & e4 & Hl & Hh2).
      assert (Hs4 : sg s4 = plus_port G1 b o2).
      { apply bind_err_cases in Hl as [Hl|(s5 & x & _ & Hl)]; [|unfold ret in Hl; discriminate].
        exact (new_link_atomic fl _ None _ _ None _ s4 e4 I Hl). }
      destruct s4 as [g4 fr4]. simpl in Hs4. subst g4.
      unfold bind in Hh2.
      rewrite (remove_fresh_port G1 b o2 fr4 HclG1 HndG1 Hnew2 HbG1) in Hh2.
      + unfold raise in Hh2. inversion Hh2. reflexivity.
      + unfold G1, plus_port. rewrite has_cls_app_old; auto.
      + unfold G1, plus_port. rewrite has_cls_app_old; auto. }
  destruct s2 as [g2 fr2]. simpl in Hs2. subst g2.
  unfold bind in Hh. rewrite HrmO1 in Hh. unfold raise in Hh. inversion Hh. reflexivity.
Qed.

(* ---------------------------------------------------------------- witnesses: a stale service handle, no parent look-up *)
From Coq Require Import String.
From FIM Require Import Proofs.T9Refuted.

Lemma add_interface_stale_refuted :
  exists fl ns cached name nid ty pure g fresh s' e,
    wf_graph g = true /\ add_interface_h false fl ns cached name nid ty pure (mkSt g fresh) = (s', Err e) /\ sg s' <> g.
Proof.
  exists Experiment, 77, [], (S "p9"), None, (Some tFacilityPort), None, g_two_nodes, supply,
         (fst (add_interface_h false Experiment 77 [] (S "p9") None (Some tFacilityPort) None (mkSt g_two_nodes supply))), EQuery.
  split; [exact g_two_nodes_wf|]. split; [vm_compute; reflexivity|differs].
Qed.

Lemma ex_add_interface_stale_pc :
  let r := add_interface_h true Experiment 77 [] (S "p9") None (Some tFacilityPort) None (mkSt g_two_nodes supply) in
  snd r = Err EQuery /\ sg (fst r) = g_two_nodes.
Proof. vm_compute. auto. Qed.

Lemma peer_stale_refuted :
  exists fl a an ca b bn cb pure g fresh s' e,
    wf_graph g = true /\ op_peer_h false fl a an ca b bn cb pure (mkSt g fresh) = (s', Err e) /\ sg s' <> g.
Proof.
  exists Experiment, 30, (S "a"), [], 77, (S "gone"), [], None, g_two_services, supply,
         (fst (op_peer_h false Experiment 30 (S "a") [] 77 (S "gone") [] None (mkSt g_two_services supply))), EQuery.
  split; [vm_compute; reflexivity|]. split; [vm_compute; reflexivity|differs].
Qed.

Lemma ex_peer_stale_pc :
  let r := op_peer_h true Experiment 30 (S "a") [] 77 (S "gone") [] None (mkSt g_two_services supply) in
  snd r = Err EQuery /\ sg (fst r) = g_two_services.
Proof. vm_compute. auto. Qed.

Lemma add_interface_h_pc_all fl ns cached name node_id itype pure s s' e :
  add_interface_h true fl ns cached name node_id itype pure s = (s', Err e) -> sg s' = sg s.
Proof. apply add_interface_h_atomic_pc. exact I. Qed.
Lemma add_interface_h_found_all pc fl ns cached name node_id itype pure s s' e :
  (exists n, find_node (sg s) ns = Ok n) ->
  add_interface_h pc fl ns cached name node_id itype pure s = (s', Err e) -> sg s' = sg s.
Proof. apply add_interface_h_atomic_found. Qed.

(* C12 proofs, part 5: the statements of Properties/C12.v in the form they are quoted there, and the values
   used by the non-vacuity Examples. *)
From Coq Require Import List ZArith NArith Bool String Permutation.
From FIM Require Import Base.Str Gen.DelegGen Model.Deleg12 Model.Pools12
     Proofs.Deleg12Enc Proofs.Deleg12Pools Proofs.Deleg12Regroup Proofs.Deleg12Annotate.
Import ListNotations.

(* the decoder, entry by entry: exactly the three shapes of the format get as far as the constructors *)
Lemma from_json_rejects_ill_formed : forall lc ty,
  (forall doc ds, from_json lc ty doc = Ok ds ->
                  forall k j, In (k, j) doc -> entry_clean ty j = true /\ exists d, entry_of_json lc ty k j = Ok d) /\
  (forall id j, j_pool_id j = None -> j_pool j = None -> entry_of_json lc ty id j = Err EDelegation) /\
  (forall id j p, j_pool_id j = Some p -> (match ty with TCap => j_labs j | TLab => j_caps j end) = None ->
                  (match ty with TCap => j_caps j | TLab => j_labs j end) = None ->
                  entry_of_json lc ty id j = Err EKey) /\
  (forall id j p dd e, j_pool_id j = Some p -> (match ty with TCap => j_labs j | TLab => j_caps j end) = None ->
                       (match ty with TCap => j_caps j | TLab => j_labs j end) = Some dd ->
                       first_error lc ty dd = Some e -> entry_of_json lc ty id j = Err e).
Proof.
  intros lc ty. split.
  - intros doc ds H k j HI. split; [eapply from_json_clean; eassumption|eapply from_json_entries; eassumption].
  - split; [apply entry_no_pool_key|]. split; [apply entry_missing_details|apply entry_bad_details].
Qed.

Lemma index_complete : forall ty P, forallb (pool_ok ty) P = true ->
  exists idx, build_index P = Ok idx /\ idx_consistent idx /\ Permutation (flat_map snd idx) P.
Proof. intros ty P OK. apply build_index_ok. apply (all_valid ty P OK). Qed.

Lemma index_rejects_incomplete : forall P, (exists p, In p P /\ validate_pool p <> None) ->
  build_index P = Err EPool.
Proof. intros P H. apply build_index_from_err. exact H. Qed.

Lemma generate_shape : forall ty P idx, forallb (pool_ok ty) P = true -> no_conflict P = true ->
  build_index P = Ok idx ->
  exists G, generate ty (Some idx) = Ok G /\ NoDup (map fst G) /\
            Forall (fun nd => ds_type (snd nd) = ty) G /\
            Permutation (flatten_g G) (expected_events ty P).
Proof.
  intros ty P idx OK NC B. destruct (generate_ok ty P OK idx B NC) as (G & E & [ND TY] & PM).
  exists G. tauto.
Qed.

Lemma pools_regroup : forall ty P, pools_wf ty P = true ->
  exists P', regroup ty P = Ok P' /\ pools_equiv P' P.
Proof. intros ty P WF. destruct (wf_parts ty P WF) as (OK & IDS & NC). apply regroup_ok; assumption. Qed.

Lemma pools_regroup_any_order : forall ty P idx G G', pools_wf ty P = true ->
  build_index P = Ok idx -> generate ty (Some idx) = Ok G -> Permutation G' G ->
  exists P', incorporate_all ty G' [] = Ok P' /\ pools_equiv P' P.
Proof.
  intros ty P idx G G' WF. destruct (wf_parts ty P WF) as (OK & IDS & NC).
  apply regroup_any_order; assumption.
Qed.

(* ---- values of the non-vacuity Examples ---- *)
Definition ex_caps : det := mkDet TCap (map (fun f => if str_eqb f (S"cpu") then Some (DInt 2) else
                                                      if str_eqb f (S"ram") then Some (DInt 1024) else Some (DInt 0))
                                            deleg_cap_fields).

Definition ex_labs (v : str) : det :=
  mkDet TLab (map (fun f => if str_eqb f (S"vlan_range") then Some (DStr v) else None) deleg_lab_fields).

Definition ex_ds : delegations :=
  mkDs TLab [ mkD TLab (S"del1") FSingle None (Some (ex_labs (S"1-100")));
              mkD TLab (S"del2") FDef (Some (S"pool1")) (Some (ex_labs (S"101-200")));
              mkD TLab (S"del3") FRef (Some (S"pool1")) None ].

Definition ex_pools : list pool :=
  [ mkP TLab (S"pool1") (Some (S"del1")) (Some (S"node1")) [S"node2"; S"node3"] (Some (ex_labs (S"1-100")));
    mkP TLab (S"pool2") (Some (S"del2")) (Some (S"node2")) [S"node1"; S"node4"; S"node5"] (Some (ex_labs (S"101-200"))) ].

Definition ex_single : gmap :=
  [ (S"node6", mkDs TLab [ mkD TLab (S"del3") FSingle None (Some (ex_labs (S"300-400"))) ]) ].

Definition ex_conflict : list pool :=
  [ mkP TLab (S"pool1") (Some (S"del1")) (Some (S"node1")) [S"node2"] (Some (ex_labs (S"1-100")));
    mkP TLab (S"pool2") (Some (S"del1")) (Some (S"node2")) [S"node3"] (Some (ex_labs (S"101-200"))) ].

(* ex_ds as the API builds it: every delegation is new_deleg followed by set_details attempts *)
Definition ex_api_items : list deleg :=
  [ fold_left set_try [ex_labs (S"1-100")] (mkD TLab (S"del1") FSingle None None);
    fold_left set_try [ex_labs (S"101-200")] (mkD TLab (S"del2") FDef (Some (S"pool1")) None);
    fold_left set_try [ex_labs (S"5-6")] (mkD TLab (S"del3") FRef (Some (S"pool1")) None) ].

(* C08 proofs, part 17: the upper and the lower bound meet.  For the element removals (node, facility, switch,
   component, service through the topology or through its node) on a well-formed graph:

       a node that is not a link is deleted  <->  it is owned by the addressed element, or it is the ServicePort across
                                                  a two-ended link from one of the element's interfaces
       a link is deleted                     <->  it had >= 2 ends, lost >= 1, and <= 1 survives      (T8Link.v)

   WQ g = WP g (T8Art.v), WL g (T8Link.v), "the connection points next to a port of a service hang on that port
   alone" (sub-interfaces), and "a link that carries a ServicePort has exactly two ends" (peering links). *)
From Coq Require Import List NArith Bool Lia Arith PeanoNat.
From FIM Require Import Model.T8Graph Model.T8Ops Proofs.T8Frame Proofs.T8Query Proofs.T8Hoare Proofs.T8Sound
     Proofs.T8SoundTop Proofs.T8Complete Proofs.T8Closed Proofs.T8Top Proofs.T8Owned Proofs.T8Handles Proofs.T8Fixed
     Proofs.T8Inv Proofs.T8Link Proofs.T8Prune Proofs.T8Art.
Import ListNotations.

Record WQ (g : graph) : Prop := mkWQ {
  wq_wp : WP g;
  wq_wl : WL g;
  wq_sub : forall s i x, class_of g s = CNS -> In i (cpn g s) -> In x (cpn g i) -> sole g i x;
  wq_splink : forall l p, class_of g l = CLink -> In p (cpn g l) -> type_of g p = T_ServicePort ->
                          length (cpn g l) = 2%nat
}.

Definition element_removal (o : op) : bool :=
  match o with
  | ORemoveNode _ | ORemoveFacility _ | ORemoveSwitch _ | ORemoveNsTopo _ | ORemoveComponent _ _ | ONodeRemoveNs _ _ => true
  | _ => false
  end.

(* the peering artefacts of the element: the ServicePort across a two-ended link from one of its interfaces *)
Definition artefact (g : graph) (o : op) (x : N) : Prop :=
  exists ii l, disc_ifs g o ii /\ link2 g l ii x /\ type_of g x = T_ServicePort.

Section Eq.
Variable g : graph.
Hypothesis HQ : WQ g.
Let HW : WP g := wq_wp g HQ.

Lemma len2_link2 l i p :
  class_of g l = CLink -> length (cpn g l) = 2%nat -> In i (cpn g l) -> In p (cpn g l) -> i <> p -> link2 g l i p.
Proof.
  intros Hl Hlen Hi Hp Hne. split; [exact Hl|]. split; [exact Hne|]. intros y.
  pose proof (first_neighbor_NoDup g l RConnects CCP) as Hn. fold (cpn g l) in Hn.
  destruct (cpn g l) as [|a [|b [|c r]]]; simpl in Hlen; try discriminate.
  inversion Hn as [|? ? Hab _]; subst. simpl in Hab.
  simpl in Hi, Hp. simpl. split.
  - intros [<-|[<-|[]]]; destruct Hi as [<-|[<-|[]]]; destruct Hp as [<-|[<-|[]]]; auto; exfalso; apply Hne; reflexivity.
  - intros [->| ->]; tauto.
Qed.

(* a ServicePort peer of a connection point is joined to it by a two-ended link *)
Lemma peer_link2 i p :
  class_of g i = CCP -> In p (peer_cps g i) -> type_of g p = T_ServicePort -> exists l, link2 g l i p.
Proof.
  intros Hi Hp Ht. unfold peer_cps in Hp. apply in_flat_map in Hp. destruct Hp as [l [Hl Hp]].
  apply removeN_In in Hp. destruct Hp as [Hp Hne].
  assert (Hlc : class_of g l = CLink) by (apply first_neighbor_In in Hl; tauto).
  apply nbrs_cls_In in Hp. destruct Hp as [[r Hr] Hpc].
  rewrite (wp_link_edges g HW l p r Hlc Hr) in Hr.
  assert (Hpl : In p (cpn g l)) by (unfold cpn; apply first_neighbor_In; auto).
  assert (Hil : In i (cpn g l)) by (unfold cpn; apply (first_neighbor_sym g i l RConnects CLink CCP); assumption).
  exists l. apply len2_link2; [exact Hlc | apply (wq_splink g HQ l p Hlc Hpl Ht) | exact Hil | exact Hpl | congruence].
Qed.

Lemma U_cp_owned s i x :
  class_of g s = CNS -> In i (cpn g s) -> class_of g x <> CLink -> U_cp g i true x -> O_cp g i true x.
Proof.
  intros Hs Hi Hx [[->|[_ Hn]]|[j [_ Hl]]].
  - left. reflexivity.
  - right. split; [reflexivity|]. apply (wq_sub g HQ s i x Hs Hi Hn).
  - exfalso. apply Hx. unfold lks in Hl. apply first_neighbor_In in Hl. tauto.
Qed.

Lemma U_ns_owned s x : class_of g s = CNS -> class_of g x <> CLink -> U_ns g s x -> O_ns g s x.
Proof.
  intros Hs Hx [->|[i [Hi Hu]]]; [left; reflexivity|]. right. exists i. split; [exact Hi|].
  apply (U_cp_owned s i x Hs Hi Hx Hu).
Qed.

Lemma U_comp_owned c x : class_of g x <> CLink -> U_comp g c x -> O_comp g c x.
Proof.
  intros Hx [->|[s [Hs Hu]]]; [left; reflexivity|]. right. exists s. split; [exact Hs|].
  apply U_ns_owned; [apply first_neighbor_In in Hs; tauto | exact Hx | exact Hu].
Qed.

Lemma U_node_owned n x : class_of g x <> CLink -> U_node g n x -> O_node g n x.
Proof.
  intros Hx [->|[[c [Hc Hu]]|[s [Hs Hu]]]]; [left; reflexivity | |].
  - right. left. exists c. split; [exact Hc | apply U_comp_owned; assumption].
  - right. right. exists s. split; [exact Hs|].
    apply U_ns_owned; [apply first_neighbor_In in Hs; tauto | exact Hx | exact Hu].
Qed.

(* what disconnecting interface i may delete, when it is not a link: the ServicePort across a two-ended link *)
Lemma U_disc_artefact i x :
  class_of g i = CCP -> class_of g x <> CLink -> U_disc g i x -> exists l, link2 g l i x /\ type_of g x = T_ServicePort.
Proof.
  intros Hi Hx [p [Hp [Ht [[->|[_ Hn]]|[j [_ Hl]]]]]].
  - destruct (peer_link2 i p Hi Hp Ht) as [l Hl]. exists l. auto.
  - rewrite (wp_sp_alone g HW p Ht) in Hn. destruct Hn.
  - exfalso. apply Hx. unfold lks in Hl. apply first_neighbor_In in Hl. tauto.
Qed.

Lemma U_disc_class i x : U_disc g i x -> class_of g x = CCP \/ class_of g x = CLink.
Proof.
  intros [p [Hp [_ [[->|[_ Hn]]|[j [_ Hl]]]]]].
  - left. apply (peer_cps_class g (g, []) i p (cons_init g)). exact Hp.
  - left. apply (cpn_class g p). exact Hn.
  - right. unfold lks in Hl. apply first_neighbor_In in Hl. tauto.
Qed.

End Eq.

(* a returning remove_node / remove_switch: the name addresses one node, and it is not a facility *)
Lemma ok_node_unique g nm n0 s' n :
  WP g -> topo_nodes g nm = [n0] ->
  bind (m_get (fun g => disc_list g (node_interface_list g n0))) (fun ifs =>
  bind (for_each_set disconnect_step ifs) (fun _ =>
  bind (m_get (fun g => by_name g CNode nm)) (fun all =>
  bind (uniq all EQuery EQuery) (fun n' => remove_node_graph n')))) (g, []) = (inl tt, s') ->
  In n (by_name g CNode nm) -> n = n0.
Proof.
  intros HW Ht E Hn.
  apply bind_ok in E. destruct E as [ifs [s1 [E1 E]]]. apply get_ok in E1. destruct E1 as [-> ->].
  apply bind_ok in E. destruct E as [[] [s1 [E1 E]]]. simpl in E1.
  apply bind_ok in E. destruct E as [all [s2 [E2 E]]]. apply get_ok in E2. destruct E2 as [-> ->].
  apply bind_ok in E. destruct E as [n' [s2 [E2 _]]]. apply uniq_ok in E2. destruct E2 as [Hu _].
  pose proof (cons_to g _ _ _ _ (Inv_for_each_set _ _ Inv_disconnect_step) (cons_init g) E1) as C1.
  (* the loop deletes connection points and links only *)
  assert (Hcl : forall x, In x (snd s1) -> class_of g x = CCP \/ class_of g x = CLink).
  { intros x Hx.
    pose proof (Sound_peers_loop g (fun x => exists i, U_disc g i x) (fun _ => True)
                  (disc_list g (node_interface_list g n0)) (fun _ _ => Logic.I) (fun i x _ H => ex_intro _ i H)) as S.
    specialize (S (g, []) (cons_init g) x). rewrite E1 in S. simpl in S.
    destruct (S Hx) as [[]|[i Hi]]. apply (U_disc_class g i x Hi). }
  assert (Hin : forall m, In m (by_name g CNode nm) -> In m (by_name (fst s1) CNode nm)).
  { intros m Hm. rewrite C1. apply by_name_restrict. split; [exact Hm|]. intros Hd.
    pose proof (by_name_class g HW CNode nm m Hm) as Hc. destruct (Hcl m Hd); congruence. }
  assert (H0 : In n0 (by_name g CNode nm)).
  { assert (A : In n0 (topo_nodes g nm)) by (rewrite Ht; left; reflexivity).
    unfold topo_nodes in A. apply filter_In in A. tauto. }
  pose proof (Hin n Hn) as A. pose proof (Hin n0 H0) as B. rewrite Hu in A, B.
  destruct A as [<-|[]]. destruct B as [<-|[]]. reflexivity.
Qed.

(* THE EQUATION for everything that is not a link *)
Theorem deleted_nonlinks_iff ex o cs g r g' tr :
  WQ g -> element_removal o = true -> run (exec ex o cs) g = (inl r, (g', tr)) ->
  forall x, class_of g x <> CLink -> (In x tr <-> owned g o x \/ artefact g o x).
Proof.
  intros HQ Ho E x Hx. pose proof (wq_wp g HQ) as HW. split.
  - (* upper bound -> owned or artefact *)
    intros Hin. pose proof (sound_exec ex o cs g (inl r) g' tr E x Hin) as HA.
    destruct o; simpl in Ho; try discriminate; simpl in HA.
    + (* remove_node *)
      destruct HA as [n [Hn HA]].
      unfold run in E. simpl in E. apply then_ret_ok in E. destruct E as [[] E]. unfold api_remove_node in E.
      apply bind_ok in E. destruct E as [cands [s1 [E1 E]]]. apply get_ok in E1. destruct E1 as [-> ->].
      apply bind_ok in E. destruct E as [n0 [s1 [E1 E]]]. apply uniq_ok in E1. destruct E1 as [Hc ->]. simpl in Hc.
      pose proof (ok_node_unique g name n0 _ n HW Hc E Hn) as ->.
      destruct HA as [HU|[i [Hi HU]]].
      * left. simpl. exists n0. split; [exact Hn|]. split; [apply (by_name_class g HW CNode name n0 Hn)|].
        apply (U_node_owned g HQ n0 x Hx HU).
      * right. destruct (U_disc_artefact g HQ i x) as [l [Hl Ht]]; [|exact Hx|exact HU|].
        { apply (disc_list_class g _ (fun j Hj => node_interface_list_class g n0 j Hj) i Hi). }
        exists i, l. split; [|auto]. simpl. exists n0. split; [rewrite Hc; left; reflexivity | exact Hi].
    + (* remove_facility *)
      destruct HA as [n [Hn [HU|[i [Hi HU]]]]].
      * left. simpl. exists n. split; [exact Hn|]. split; [apply (by_name_class g HW CNode name n Hn)|].
        apply (U_node_owned g HQ n x Hx HU).
      * right. destruct (U_disc_artefact g HQ i x) as [l [Hl Ht]]; [|exact Hx|exact HU|].
        { apply (disc_list_class g _ (fun j Hj => node_interface_list_class g n j Hj) i Hi). }
        exists i, l. split; [|auto]. simpl. exists n. auto.
    + (* remove_switch *)
      destruct HA as [n [Hn HA]].
      unfold run in E. simpl in E. apply then_ret_ok in E. destruct E as [[] E]. unfold api_remove_switch in E.
      apply bind_ok in E. destruct E as [all [s1 [E1 E]]]. apply get_ok in E1. destruct E1 as [-> ->].
      apply bind_ok in E. destruct E as [n1 [s1 [E1 E]]]. apply uniq_ok in E1. destruct E1 as [_ ->].
      apply bind_ok in E. destruct E as [t [s1 [E1 E]]]. apply get_ok in E1. destruct E1 as [-> ->].
      apply bind_ok in E. destruct E as [[] [s1 [E1 E]]]. apply guard_ok in E1. destruct E1 as [_ ->].
      unfold api_remove_node in E.
      apply bind_ok in E. destruct E as [cands [s1 [E1 E]]]. apply get_ok in E1. destruct E1 as [-> ->].
      apply bind_ok in E. destruct E as [n0 [s1 [E1 E]]]. apply uniq_ok in E1. destruct E1 as [Hc ->]. simpl in Hc.
      pose proof (ok_node_unique g name n0 _ n HW Hc E Hn) as ->.
      destruct HA as [HU|[i [Hi HU]]].
      * left. simpl. exists n0. split; [exact Hn|]. split; [apply (by_name_class g HW CNode name n0 Hn)|].
        apply (U_node_owned g HQ n0 x Hx HU).
      * right. destruct (U_disc_artefact g HQ i x) as [l [Hl Ht]]; [|exact Hx|exact HU|].
        { apply (disc_list_class g _ (fun j Hj => node_interface_list_class g n0 j Hj) i Hi). }
        exists i, l. split; [|auto]. simpl. exists n0. split; [rewrite Hc; left; reflexivity | exact Hi].
    + (* topology.remove_network_service *)
      destruct HA as [s [Hs [HU|[i [Hi HU]]]]].
      * left. simpl. exists s. split; [exact Hs|]. pose proof (by_name_class g HW CNS name s Hs) as Hsc.
        split; [exact Hsc | apply (U_ns_owned g HQ s x Hsc Hx HU)].
      * right. destruct (U_disc_artefact g HQ i x) as [l [Hl Ht]]; [|exact Hx|exact HU|].
        { apply (disc_list_class g _ (fun j Hj => cpn_class g s j Hj) i Hi). }
        exists i, l. split; [|auto]. simpl. exists s. auto.
    + (* remove_component *)
      destruct HA as [c [Hc [Hnm [HU|[i [Hi HU]]]]]].
      * left. simpl. exists c. split; [exact Hc|]. split; [exact Hnm | apply (U_comp_owned g HQ c x Hx HU)].
      * right. destruct (U_disc_artefact g HQ i x) as [l [Hl Ht]]; [|exact Hx|exact HU|].
        { apply (disc_list_class g _ (fun j Hj => owner_cps_class g c j Hj) i Hi). }
        exists i, l. split; [|auto]. simpl. exists c. auto.
    + (* node.remove_network_service *)
      destruct HA as [s [Hs [Hnm [HU|[i [Hi HU]]]]]].
      * left. simpl. exists s. split; [exact Hs|]. split; [exact Hnm|].
        apply (U_ns_owned g HQ s x); [apply first_neighbor_In in Hs; tauto | exact Hx | exact HU].
      * right. destruct (U_disc_artefact g HQ i x) as [l [Hl Ht]]; [|exact Hx|exact HU|].
        { apply (disc_list_class g _ (fun j Hj => cpn_class g s j Hj) i Hi). }
        exists i, l. split; [|auto]. simpl. exists s. auto.
  - (* lower bound *)
    intros [HO|[ii [l [Hd [Hl Ht]]]]].
    + apply (owned_exec ex o cs g r g' tr E x HO).
    + apply (artefact_ports_deleted_wf ex o cs g r g' tr HW E ii l x Hd Hl Ht).
Qed.

Lemma element_removal_liftable o : element_removal o = true -> liftable o = true.
Proof. destruct o; simpl; intros H; try discriminate; reflexivity. Qed.

(* ... and the links: T8Link.link_deleted_iff, restated here for the same operations and hypothesis *)
Theorem deleted_links_iff ex o cs g r g' tr :
  WQ g -> element_removal o = true -> run (exec ex o cs) g = (inl r, (g', tr)) ->
  forall l, class_of g l = CLink ->
    (In l tr <-> (2 <= length (cpn g l) /\ length (surv tr (cpn g l)) <= 1 /\ exists e, In e (cpn g l) /\ In e tr)).
Proof.
  intros HQ Ho E. apply (link_deleted_iff ex o cs g r g' tr (wq_wl g HQ) (element_removal_liftable o Ho) E).
Qed.

(* ---- a decidable version of WQ, for concrete graphs ---- *)
Definition wqb (g : graph) : bool :=
  wpb g && wlb g &&
  forallb (fun s => if cls_eqb (class_of g (nid s)) CNS
                    then forallb (fun i => forallb (fun x => memN i (cpn g x) && forallb (fun y => N.eqb y i) (cpn g x))
                                                   (cpn g i)) (cpn g (nid s))
                    else true) (gnodes g) &&
  forallb (fun l => if cls_eqb (class_of g (nid l)) CLink
                    then negb (existsb (fun p => N.eqb (type_of g p) T_ServicePort) (cpn g (nid l))) ||
                         Nat.eqb (length (cpn g (nid l))) 2
                    else true) (gnodes g).

Lemma wqb_sound g : wqb g = true -> WQ g.
Proof.
  unfold wqb. intros H.
  apply andb_true_iff in H. destruct H as [H H4]. apply andb_true_iff in H. destruct H as [H H3].
  apply andb_true_iff in H. destruct H as [H1 H2].
  constructor.
  - apply wpb_sound. exact H1.
  - apply wlb_sound. exact H2.
  - intros s i x Hs Hi Hx. rewrite forallb_forall in H3.
    destruct (class_node g s CNS Hs ltac:(discriminate)) as [sx [Hsx <-]].
    specialize (H3 sx Hsx). rewrite Hs in H3. simpl in H3.
    rewrite forallb_forall in H3. specialize (H3 i Hi). rewrite forallb_forall in H3. specialize (H3 x Hx).
    apply andb_true_iff in H3. destruct H3 as [A B]. split; [exact Hx|]. split; [apply memN_In; exact A|].
    intros y Hy. rewrite forallb_forall in B. apply N.eqb_eq. apply B. exact Hy.
  - intros l p Hl Hp Ht. rewrite forallb_forall in H4.
    destruct (class_node g l CLink Hl ltac:(discriminate)) as [lx [Hlx <-]].
    specialize (H4 lx Hlx). rewrite Hl in H4. simpl in H4. apply orb_true_iff in H4. destruct H4 as [A|A].
    + exfalso. apply negb_true_iff in A.
      assert (B : existsb (fun p0 => N.eqb (type_of g p0) T_ServicePort) (cpn g (nid lx)) = true).
      { apply existsb_exists. exists p. split; [exact Hp | apply N.eqb_eq; exact Ht]. } congruence.
    + apply Nat.eqb_eq. exact A.
Qed.

(* C17 (extension) - histories of comparisons on long-lived slivers: the modelled comparison is a function of its
   two operands, so these hold by construction; they are stated because the TIE checks exactly this of the
   implementation (stream `history`: edit in place, compare, edit more, compare again, undo, compare). *)
From Coq Require Import List NArith Bool.
Import ListNotations.
From FIM Require Import Model.Diff17 Proofs.Diff17Lemmas.

Lemma history_memoryless pre a b post :
  nth_error (run_history (pre ++ (a, b) :: post)) (length pre) = Some (node_diff a b).
Proof.
  unfold run_history. rewrite map_app. cbn [map fst snd].
  rewrite nth_error_app2 by (rewrite map_length; auto).
  rewrite map_length, PeanoNat.Nat.sub_diag. reflexivity.
Qed.

Lemma history_repeatable h i j p :
  nth_error h i = Some p -> nth_error h j = Some p -> nth_error (run_history h) i = nth_error (run_history h) j.
Proof.
  intros Hi Hj. unfold run_history. now rewrite (map_nth_error _ _ _ Hi), (map_nth_error _ _ _ Hj).
Qed.

(* whatever was compared before, a sliver brought back to the state of the other one compares as identical *)
Lemma history_undo_none h s :
  wf_node s = true -> nth_error (run_history (h ++ [(s, s)])) (length h) = Some (Ok None).
Proof. intros W. rewrite history_memoryless. now rewrite (node_diff_self s W). Qed.

(* C11: facts about the regenerated tables.  Each is a finite check over Gen/CollectGen.v, evaluated by
   the kernel (vm_compute) and lifted to a usable statement; they fail when the source tables change. *)
From Coq Require Import List ZArith NArith Bool String.
From FIM Require Import Base.Str Gen.CollectGen Model.Collect11 Model.Collect11Spec.
Import ListNotations.

Lemma gen_ok_true : gen_ok = true.
Proof. reflexivity. Qed.

Lemma dispatch_total : dispatch_missing = [].
Proof. reflexivity. Qed.

(* keys written by the node / service / facility folds themselves *)
Definition base_keys : list N :=
  [A_RESOURCE_TYPE; A_RESOURCE_CPU; A_RESOURCE_RAM; A_RESOURCE_DISK; A_RESOURCE_BW; A_RESOURCE_SITE;
   A_RESOURCE_COMPONENT; A_RESOURCE_FACILITY_PORT].

Fixpoint nodupN (l : list N) : bool :=
  match l with [] => true | x :: r => negb (memN x r) && nodupN r end.

Lemma memN_In x l : memN x l = true <-> In x l.
Proof.
  unfold memN. rewrite existsb_exists. split.
  - intros [y [Hy He]]. apply N.eqb_eq in He. subst. exact Hy.
  - intro H. exists x. split; [exact H | apply N.eqb_refl].
Qed.

Lemma memN_false x l : memN x l = false <-> ~ In x l.
Proof. rewrite <- memN_In. destruct (memN x l); split; intro H; try congruence; exfalso; apply H; reflexivity. Qed.

Lemma lookupN_In {V} k (l : list (N * V)) v : lookupN k l = Some v -> In (k, v) l.
Proof.
  induction l as [|[k' v'] r IH]; simpl; [discriminate|].
  destruct (N.eqb k k') eqn:E.
  - intro H; inversion H; subst. apply N.eqb_eq in E. subst. left; reflexivity.
  - intro H. right. apply IH. exact H.
Qed.

Lemma lookupN_none {V} k (l : list (N * V)) : lookupN k l = None -> ~ In k (map fst l).
Proof.
  induction l as [|[k' v'] r IH]; simpl; [tauto|].
  destruct (N.eqb k k') eqn:E; [discriminate|].
  intros H [H1|H1].
  - subst. rewrite N.eqb_refl in E. discriminate.
  - exact (IH H H1).
Qed.

(* all attribute-id constants the model uses are pairwise distinct, and so are the LUT targets *)
Definition all_model_keys : list N :=
  base_keys ++ [A_RESOURCE_FABNETV4_EXT; A_RESOURCE_FABNETV6_EXT; A_RESOURCE_MIRROR_SITE; A_RESOURCE_LIFETIME;
                A_RESOURCE_PROJECT; A_RESOURCE_SUBJECT; A_ACTION_ID; A_SUBJECT_ID; A_SUBJECT_PROJECT; A_PROJECT_TAG].

Lemma model_keys_distinct : nodupN all_model_keys = true.
Proof. vm_compute. reflexivity. Qed.

(* every service type of the guarded set has an NSTYPE_LUT entry: the lookup cannot raise KeyError *)
Lemma lut_total_b : forallb (fun t => match lookupN t nstype_lut with Some _ => true | None => false end) special_types = true.
Proof. vm_compute. reflexivity. Qed.

Lemma lut_total t : memN t special_types = true -> exists rn, lookupN t nstype_lut = Some rn.
Proof.
  intro H. apply memN_In in H.
  pose proof (proj1 (forallb_forall _ _) lut_total_b t H) as H1. cbv beta in H1.
  destruct (lookupN t nstype_lut) as [rn|]; [exists rn; reflexivity | discriminate].
Qed.

(* the LUT targets are not keys of the node / bandwidth / site / facility folds *)
Lemma lut_fresh_b : forallb (fun p => negb (memN (snd p) base_keys)) nstype_lut = true.
Proof. vm_compute. reflexivity. Qed.

Lemma lut_fresh t rn : lookupN t nstype_lut = Some rn -> memN rn base_keys = false.
Proof.
  intro H. apply lookupN_In in H.
  pose proof (proj1 (forallb_forall _ _) lut_fresh_b (t, rn) H) as H1. cbv beta in H1.
  apply negb_true_iff in H1. exact H1.
Qed.

(* which service types feed each of the three per-type attributes: exactly the named one *)
Lemma lut_v4 : lookupN ST_FABNetv4Ext nstype_lut = Some A_RESOURCE_FABNETV4_EXT /\ memN ST_FABNetv4Ext special_types = true.
Proof. vm_compute. split; reflexivity. Qed.
Lemma lut_v6 : lookupN ST_FABNetv6Ext nstype_lut = Some A_RESOURCE_FABNETV6_EXT /\ memN ST_FABNetv6Ext special_types = true.
Proof. vm_compute. split; reflexivity. Qed.
Lemma lut_pm : lookupN ST_PortMirror nstype_lut = Some A_RESOURCE_MIRROR_SITE /\ memN ST_PortMirror special_types = true.
Proof. vm_compute. split; reflexivity. Qed.
Lemma mirror_type_is : mirror_type = ST_PortMirror.
Proof. reflexivity. Qed.

(* the guarded set holds exactly the three named types *)
Lemma special_only_b : forallb (fun t => N.eqb t ST_FABNetv4Ext || N.eqb t ST_FABNetv6Ext || N.eqb t ST_PortMirror) special_types = true.
Proof. vm_compute. reflexivity. Qed.

Lemma special_only t : memN t special_types = true -> t = ST_FABNetv4Ext \/ t = ST_FABNetv6Ext \/ t = ST_PortMirror.
Proof.
  intro H. apply memN_In in H.
  pose proof (proj1 (forallb_forall _ _) special_only_b t H) as H1. cbv beta in H1.
  apply orb_true_iff in H1 as [H1|H1]; [apply orb_true_iff in H1 as [H1|H1]|]; apply N.eqb_eq in H1; tauto.
Qed.

Lemma st_distinct : nodupN [ST_FABNetv4Ext; ST_FABNetv6Ext; ST_PortMirror] = true.
Proof. vm_compute. reflexivity. Qed.

(* PDP: every key the model can ever write has a row in ATTRIBUTE_TYPES_AND_CATEGORIES, whose category is
   one of the categories of the request skeleton; those categories are distinct *)
Lemma table_covers_b :
  forallb (fun k => match lookupN k attr_table with Some (_, c) => memN c pdp_cats | None => false end)
          (all_model_keys ++ map snd nstype_lut) = true.
Proof. vm_compute. reflexivity. Qed.

Lemma table_covers k : In k (all_model_keys ++ map snd nstype_lut) ->
  exists dt c, lookupN k attr_table = Some (dt, c) /\ In c pdp_cats.
Proof.
  intro H. pose proof (proj1 (forallb_forall _ _) table_covers_b k H) as H1. cbv beta in H1.
  destruct (lookupN k attr_table) as [[dt c]|]; [|discriminate].
  exists dt, c. split; [reflexivity | apply memN_In; exact H1].
Qed.

(* every row of the table (not only the keys the model writes) is routed to a category of the skeleton *)
Lemma table_cats_b : forallb (fun r => memN (snd (snd r)) pdp_cats) attr_table = true.
Proof. vm_compute. reflexivity. Qed.

Lemma pdp_cats_distinct : nodupN pdp_cats = true.
Proof. vm_compute. reflexivity. Qed.

Lemma nodupN_NoDup l : nodupN l = true -> NoDup l.
Proof.
  induction l as [|x r IH]; simpl; intro H; [constructor|].
  apply andb_true_iff in H as [H1 H2]. apply negb_true_iff in H1. apply memN_false in H1.
  constructor; [exact H1 | apply IH; exact H2].
Qed.

(* the regenerated table gives every slice-derived attribute its pinned id text, data type and the resource category *)
Lemma resource_rows_b :
  forallb (fun r => match lookupN (fst r) attr_table with
                    | Some (dt, c) => str_eqb (urn_of (fst r)) (fst (snd r)) && str_eqb (dtype_of dt) (snd (snd r))
                                      && str_eqb (cat_of c) resource_category
                    | None => false end) pinned_resource_rows = true.
Proof. vm_compute. reflexivity. Qed.

Lemma resource_rows k u d : In (k, (u, d)) pinned_resource_rows ->
  urn_of k = u /\ exists dt c, lookupN k attr_table = Some (dt, c) /\ dtype_of dt = d /\ cat_of c = resource_category.
Proof.
  intro H. pose proof (proj1 (forallb_forall _ _) resource_rows_b _ H) as H1. cbv beta in H1. cbn [fst snd] in H1.
  destruct (lookupN k attr_table) as [[dt c]|]; [|discriminate].
  apply andb_true_iff in H1 as [H1 H3]. apply andb_true_iff in H1 as [H1 H2].
  apply str_eqb_eq in H1, H2, H3. split; [exact H1|]. exists dt, c. repeat split; assumption.
Qed.

(* the pinned rows cover every key a topology collection can write *)
Lemma resource_rows_cover_b :
  forallb (fun k => existsb (fun r => N.eqb (fst r) k) pinned_resource_rows) (base_keys ++ map snd nstype_lut) = true.
Proof. vm_compute. reflexivity. Qed.

(* every member class the topology API hands out (regenerated list) is routed by both collectors *)
Lemma dispatch_classes_b : forallb routed produced_classes = true.
Proof. vm_compute. reflexivity. Qed.

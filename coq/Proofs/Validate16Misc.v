(* C16 proofs (tags, names, boot script, opaque JSON data, capacities) and the pinned documented
   formats: the regenerated patterns denote exactly the hand-written length ranges / character sets of
   Model/Labels16Spec.v. *)
From Coq Require Import List ZArith NArith Bool String Lia Btauto.
From FIM Require Import Base.Str Base.Regex Base.RegexSound Model.Labels16Types Gen.UnicodeClasses Gen.LabelValidators
  Model.Labels16 Model.Labels16Spec Proofs.Validate16.
From FIM Require Gen.CapsGen.
Import ListNotations.

(* ---------------- character classes ---------------- *)

Lemma single_range x c : (N.leb x c && N.leb c x) = N.eqb c x.
Proof.
  destruct (N.eqb c x) eqn:E.
  - apply N.eqb_eq in E. subst. rewrite N.leb_refl. reflexivity.
  - apply N.eqb_neq in E. destruct (N.leb x c) eqn:A; destruct (N.leb c x) eqn:B; try reflexivity.
    apply N.leb_le in A, B. exfalso. apply E. lia.
Qed.

Local Opaque is_re_word is_re_digit is_re_space.

(* equality of two character-set predicates over the variable c, whatever the order of the items *)
Ltac cls_norm c :=
  unfold cls_in, name_char, tag_char, chr_in; cbn [existsb citem_in xorb];
  try change (catf cat_word c) with (is_re_word c); try change (catf 4%N c) with (is_re_word c);
  try change (catf cat_digit c) with (is_re_digit c); try change (catf 0%N c) with (is_re_digit c);
  try change (catf cat_space c) with (is_re_space c); try change (catf 2%N c) with (is_re_space c);
  rewrite ?single_range; btauto.

Lemma forallb_ext_eq {A} (p q : A -> bool) l : (forall x, p x = q x) -> forallb p l = forallb q l.
Proof. intro H. induction l as [|x l IH]; simpl; [reflexivity | rewrite H, IH; reflexivity]. Qed.

(* ---------------- tags ---------------- *)

Lemma tag_accepts_lang s : tag_accepts s = true <-> re_lang tag_re s.
Proof. unfold tag_accepts. rewrite tag_full. apply re_match_full. Qed.

Lemma tag_check_all_spec l : forall out,
  tag_check_all l = Some out <-> Forall tag_in_domain l /\ map TStr out = l.
Proof.
  induction l as [|t l IH]; intro out; cbn [tag_check_all].
  - split.
    + intro H; inversion H; subst. split; [constructor | reflexivity].
    + intros [_ H]. destruct out; [reflexivity | discriminate].
  - destruct t as [s|]; cbn [tag_check].
    + destruct (tag_accepts s) eqn:A.
      * destruct (tag_check_all l) as [l'|] eqn:E.
        -- split.
           ++ intro H; inversion H; subst. destruct (proj1 (IH l') eq_refl) as [F M]. split.
              ** constructor; [apply tag_accepts_lang; exact A | exact F].
              ** simpl. rewrite M. reflexivity.
           ++ intros [F M]. destruct out as [|o out]; [discriminate|]. simpl in M. inversion M; subst.
              inversion F; subst. assert (E' : Some l' = Some out) by (apply IH; split; [assumption | reflexivity]).
              inversion E'; reflexivity.
        -- split; [discriminate|]. intros [F M]. destruct out as [|o out]; [discriminate|]. simpl in M. inversion M; subst.
           inversion F; subst. assert (E' : @None (list str) = Some out) by (apply IH; split; [assumption | reflexivity]). discriminate.
      * split; [discriminate|]. intros [F _]. inversion F; subst. apply tag_accepts_lang in H1. congruence.
    + split; [discriminate|]. intros [F _]. inversion F; subst. contradiction.
Qed.

(* Tags(...) succeeds exactly when every tag given (positionally or inside a list/tuple) is a string in the
   tag language, and then stores exactly those tags, in order *)
Theorem tags_accept_iff_domain args out :
  tags_ctor args = Some out <->
  Forall tag_in_domain (flat_map targ_items args) /\ map TStr out = flat_map targ_items args.
Proof. apply tag_check_all_spec. Qed.

Theorem tags_stored_in_domain args out : tags_ctor args = Some out -> Forall (re_lang tag_re) out.
Proof.
  intro H. apply tags_accept_iff_domain in H as [F M]. rewrite <- M in F.
  apply Forall_forall. intros s Hs. rewrite Forall_forall in F. apply (F (TStr s)). apply in_map; exact Hs.
Qed.

(* to_json gives the list; from_json hands that list to the constructor as one argument *)
Theorem tags_recode args out : tags_ctor args = Some out -> tags_ctor [TA_many (map TStr out)] = Some out.
Proof.
  intro H. apply tags_accept_iff_domain in H as [F M]. apply tags_accept_iff_domain.
  cbn [flat_map targ_items]. rewrite app_nil_r. rewrite M. split; [exact F | reflexivity].
Qed.

(* pinned: a tag is 1..255 characters, each a word character or '-' *)
Theorem tag_domain_pinned s :
  tag_accepts s = true <-> (1 <= List.length s <= 255)%nat /\ forallb tag_char s = true.
Proof.
  rewrite tag_accepts_lang. unfold re_lang, tag_re.
  rewrite lang_rep_cls by lia. rewrite (forallb_ext_eq _ tag_char); [tauto|].
  intro c. cls_norm c.
Qed.

(* ---------------- names ---------------- *)

Lemma name_rule_mode cls r m : lookup cls name_rules = Some (r, m) -> m = Full.
Proof.
  intro H. apply lookup_In in H. destruct modes_full as (_ & _ & _ & F). rewrite forallb_forall in F.
  specialize (F _ H). cbn [snd] in F. destruct m; try discriminate; reflexivity.
Qed.

Theorem set_name_iff_lang cls r m s : lookup cls name_rules = Some (r, m) ->
  (set_name cls (SStr s) = Ok s <-> re_lang r s).
Proof.
  intro H. pose proof (name_rule_mode _ _ _ H) as ->. unfold set_name. rewrite H.
  destruct (re_match Full r s) eqn:M; split; intro X; try reflexivity; try discriminate.
  - apply re_match_full; exact M.
  - apply re_match_full in X. congruence.
Qed.

Theorem set_name_stores_argument cls v s : set_name cls v = Ok s -> v = SStr s.
Proof.
  unfold set_name. destruct v as [s'| |]; try discriminate.
  destruct (lookup cls name_rules) as [[r m]|]; [|discriminate].
  destruct (re_match m r s'); intro H; inversion H; reflexivity.
Qed.

Lemma name_rule_cls cls neg items lo hi extra :
  lookup cls name_rules = Some (rep (Cls neg items) lo (Some hi), Full) -> (lo <= hi)%nat ->
  (forall c, cls_in catf neg items c = name_char extra c) ->
  forall s, set_name cls (SStr s) = Ok s <-> (lo <= List.length s <= hi)%nat /\ forallb (name_char extra) s = true.
Proof.
  intros H Hle Hc s. rewrite (set_name_iff_lang _ _ _ s H). unfold re_lang.
  rewrite lang_rep_cls by exact Hle. rewrite (forallb_ext_eq _ (name_char extra)) by exact Hc. tauto.
Qed.

(* pinned: per sliver class, a name is lo..hi characters, each a word character or one of the listed ones *)
Theorem names_domain_pinned : forall cls lo hi extra, In (cls, (lo, hi, extra)) name_doc ->
  forall s, set_name cls (SStr s) = Ok s <-> (lo <= List.length s <= hi)%nat /\ forallb (name_char extra) s = true.
Proof.
  intros cls lo hi extra H. cbn [name_doc In] in H.
  repeat (destruct H as [H|H]; [inversion H; subst; clear H;
    (eapply name_rule_cls; [lazy -[rep]; reflexivity | lia | intro c; cls_norm c]) |]).
  contradiction.
Qed.

(* every class the translator found has a pinned entry and vice versa *)
Lemma name_rules_covered :
  forallb (fun x => existsb (fun d => str_eqb (fst x) (fst d)) name_doc) name_rules = true /\
  forallb (fun d => existsb (fun x => str_eqb (fst x) (fst d)) name_rules) name_doc = true.
Proof. split; vm_compute; reflexivity. Qed.

(* ---------------- boot script ---------------- *)

Theorem boot_script_domain s : set_boot_script (SStr s) = Ok (Some s) <-> (List.length s < boot_doc_limit)%nat.
Proof.
  unfold set_boot_script, boot_script_ok, boot_script_max, boot_doc_limit.
  destruct (Z.ltb (Z.of_nat (List.length s)) 1024) eqn:E; split; intro H; try reflexivity; try discriminate; lia.
Qed.

Theorem boot_script_stores_argument v r : set_boot_script v = Ok r ->
  match v with SStr s => r = Some s /\ (List.length s < boot_doc_limit)%nat | SNone => r = None | SOther => False end.
Proof.
  destruct v as [s| |]; cbn [set_boot_script]; intro H; try discriminate.
  - destruct (boot_script_ok _ _) eqn:E; inversion H; subst. split; [reflexivity|].
    apply boot_script_domain. unfold set_boot_script. rewrite E. reflexivity.
  - inversion H; reflexivity.
Qed.

(* ---------------- opaque JSON data ---------------- *)

Lemma jd_lookup cls mx : In (cls, mx) jd_doc -> lookup cls jd_max = Some (Z.of_nat mx).
Proof.
  cbn [jd_doc In]. intros [H|[H|[H|[]]]]; inversion H; subst; vm_compute; reflexivity.
Qed.

Theorem jd_str_domain cls mx s valid : In (cls, mx) jd_doc ->
  (jd_new cls (JD_str s valid) = Ok s <-> (List.length s <= mx)%nat /\ valid = true).
Proof.
  intro H. unfold jd_new. rewrite (jd_lookup _ _ H). unfold jd_str_reject.
  destruct (Z.gtb (Z.of_nat (List.length s)) (Z.of_nat mx)) eqn:E.
  - split; [discriminate|]. intros [L _]. lia.
  - destruct valid; split; intro X; try reflexivity; try discriminate.
    + split; [lia | reflexivity].
    + destruct X; discriminate.
Qed.

Theorem jd_obj_domain cls mx t : In (cls, mx) jd_doc ->
  (jd_new cls (JD_obj (Some t)) = Ok t <-> (List.length t <= mx)%nat).
Proof.
  intro H. unfold jd_new. rewrite (jd_lookup _ _ H). unfold jd_obj_reject.
  destruct (Z.gtb (Z.of_nat (List.length t)) (Z.of_nat mx)) eqn:E; split; intro X; try reflexivity; try discriminate; lia.
Qed.

Theorem jd_stored cls mx d t : In (cls, mx) jd_doc -> jd_new cls d = Ok t ->
  (List.length t <= mx)%nat /\
  match d with JD_str s valid => t = s /\ valid = true | JD_obj o => o = Some t | JD_none => t = empty_obj_text end.
Proof.
  intros H. unfold jd_new. rewrite (jd_lookup _ _ H). unfold jd_str_reject, jd_obj_reject.
  destruct d as [s valid | [u|] | ].
  - destruct (Z.gtb _ _) eqn:E; [discriminate|]. destruct valid; intro X; inversion X; subst. split; [lia | auto].
  - destruct (Z.gtb _ _) eqn:E; [discriminate|]. intro X; inversion X; subst. split; [lia | auto].
  - discriminate.
  - intro X; inversion X; subst. split; [|reflexivity].
    cbn [jd_doc In] in H. destruct H as [H|[H|[H|[]]]]; inversion H; subst; simpl; lia.
Qed.

(* whatever was accepted (as text or as an object) is accepted again as text, provided json.loads reads it *)
Theorem jd_reaccepted cls mx d t : In (cls, mx) jd_doc -> jd_new cls d = Ok t -> jd_new cls (JD_str t true) = Ok t.
Proof.
  intros H X. destruct (jd_stored _ _ _ _ H X) as [L _]. apply (jd_str_domain _ _ _ _ H). auto.
Qed.

Lemma jd_max_covered :
  forallb (fun x => existsb (fun d => str_eqb (fst x) (fst d)) jd_doc) jd_max = true.
Proof. vm_compute; reflexivity. Qed.

(* ---------------- capacities ---------------- *)

Lemma cap_asserts_spec v : cap_asserts v = None <-> cval_ok v.
Proof.
  destruct v as [z | b | | f | ]; cbn [cap_asserts cval_ok]; unfold CapsGen.set_reject.
  - destruct (Z.geb z 0) eqn:E; cbn [negb]; split; intro H; try reflexivity; try discriminate; lia.
  - destruct b; cbn; split; auto.
  - tauto.
  - split; [discriminate | contradiction].
  - split; [discriminate | contradiction].
Qed.

Lemma cset_inv st k v : caps_inv st -> cval_ok v -> caps_inv (cset st k v).
Proof.
  unfold caps_inv. intros H Hv. induction st as [|[k' v'] st IH]; simpl; [constructor|].
  inversion H; subst. destruct (str_eqb k k'); constructor; auto.
Qed.

Lemma cap_set_one_inv fg st kv : caps_inv st -> caps_inv (fst (cap_set_one fg st kv)).
Proof.
  intro H. destruct kv as [k v]. unfold cap_set_one. destruct (cap_asserts v) eqn:E; [exact H|].
  destruct (mem_str k cap_field_names); cbn [fst]; [|exact H]. apply cset_inv; [exact H | apply cap_asserts_spec; exact E].
Qed.

Theorem cap_set_fields_inv fg kws : forall st, caps_inv st -> caps_inv (fst (cap_set_fields fg st kws)).
Proof.
  induction kws as [|kv kws IH]; intros st H; cbn [cap_set_fields]; [exact H|].
  pose proof (cap_set_one_inv fg st kv H) as H1. destruct (cap_set_one fg st kv) as [st' [e|]]; cbn [fst] in *; [exact H1 | apply IH; exact H1].
Qed.

Lemma caps_init_inv : caps_inv caps_init.
Proof.
  unfold caps_inv, caps_init. apply Forall_forall. intros [k v] H. apply in_combine_r in H.
  apply in_map_iff in H as (z & <- & Hz). cbn [snd cval_ok].
  assert (F : forallb (fun z => Z.leb 0 z) CapsGen.cap_defaults = true) by reflexivity.
  rewrite forallb_forall in F. apply Z.leb_le. apply F; exact Hz.
Qed.

(* a Capacities object built by the constructor / _set_fields holds only None or non-negative ints *)
Theorem caps_ctor_inv fg kws st : caps_ctor fg kws = Ok st -> caps_inv st.
Proof.
  unfold caps_ctor. pose proof (cap_set_fields_inv fg kws caps_init caps_init_inv) as H.
  destruct (cap_set_fields fg caps_init kws) as [st' [e|]]; intro X; inversion X; subst. exact H.
Qed.

Theorem caps_accept_iff fg st k v : mem_str k cap_field_names = true ->
  (snd (cap_set_one fg st (k, v)) = None <-> cval_ok v).
Proof.
  intro Hk. rewrite <- cap_asserts_spec. unfold cap_set_one. destruct (cap_asserts v); [|rewrite Hk]; cbn [snd]; split; auto; discriminate.
Qed.

(* ---------------- names through the element handles (name setter, rename) ---------------- *)

(* the name in the model graph is always documented; it changes exactly when the assignment is accepted; it is
   rejected exactly when the new name is undocumented or (where the source tests it) already taken *)
Theorem elem_name_graph cls r m old s taken h g e :
  lookup cls name_rules = Some (r, m) -> re_lang r old -> elem_set_name cls old s taken = ((h, g), e) ->
  re_lang r g /\ (e = None -> h = s /\ g = s /\ re_lang r s) /\
  (e <> None -> g = old /\ (~ re_lang r s \/ (name_set_checks_unique = true /\ taken = true))).
Proof.
  intros Hl Hold. unfold elem_set_name.
  destruct (name_set_checks_unique && taken) eqn:U.
  - intro X. injection X as Hh Hg He. subst g e. split; [exact Hold|]. split; [discriminate|].
    intros _. split; [reflexivity|]. right. apply andb_true_iff in U. exact U.
  - destruct (set_name cls (SStr s)) as [s'|x] eqn:E; intro X; injection X as Hh Hg He.
    + apply set_name_stores_argument in E as E'. inversion E'; subst s'.
      pose proof (proj1 (set_name_iff_lang cls r m s Hl) E) as L. subst h g e.
      split; [exact L|]. split; [auto | intro C; exfalso; apply C; reflexivity].
    + subst g e. split; [exact Hold|]. split; [discriminate|]. intros _. split; [reflexivity|]. left.
      intro L. apply (set_name_iff_lang cls r m s Hl) in L. congruence.
Qed.

(* FULL STATEMENT: whatever name can be read after the call -- from the handle or from the model -- is documented.
   It holds of the code exactly when the setter validates before it caches (flag regenerated from
   fim/user/model_element.py); otherwise it is refuted by a witness. *)
Definition handle_name_full : Prop :=
  forall cls r m old s taken h g e, lookup cls name_rules = Some (r, m) -> re_lang r old ->
    elem_set_name cls old s taken = ((h, g), e) -> re_lang r h /\ re_lang r g.

Definition handle_name_refuted : Prop :=
  exists cls old s, set_name cls (SStr old) = Ok old /\
    match elem_set_name cls old s false with
    | ((h, g), Some _) => set_name cls (SStr h) <> Ok h /\ g = old
    | _ => False
    end.

Theorem handle_name_full_or_refuted :
  if name_setter_validates_first then handle_name_full else handle_name_refuted.
Proof.
  destruct name_setter_validates_first eqn:F.
  - intros cls r m old s taken h g e Hl Hold X.
    pose proof (elem_name_graph _ _ _ _ _ _ _ _ _ Hl Hold X) as (Hg & Hok & Herr).
    split; [|exact Hg]. unfold elem_set_name in X. rewrite F in X.
    destruct (name_set_checks_unique && taken).
    + injection X as Hh _ _. subst h. exact Hold.
    + destruct (set_name cls (SStr s)) as [s'|x] eqn:E; injection X as Hh Hg' He.
      * subst e. destruct (Hok eq_refl) as (_ & _ & L). subst h. exact L.
      * subst h. exact Hold.
  - exists (S"NodeSliver"), (S"n1"), (S"x"). unfold elem_set_name. rewrite F, andb_false_r. vm_compute.
    split; [reflexivity|]. split; [discriminate | reflexivity].
Qed.

(* C12 proofs, part 8: the text level and the decode side. *)
From Coq Require Import List ZArith NArith Bool Lia Permutation String.
From FIM Require Import Base.Str Base.Corr Base.Json Base.JsonRT Gen.DelegGen Model.Deleg12 Model.Deleg12T
     Proofs.Deleg12Enc.
Import ListNotations.

Lemma aget_lookup {A} k (m : list (str * A)) : aget k m = lookup k m.
Proof.
  induction m as [|[k' v] r IH]; simpl; [reflexivity|]. rewrite (str_eqb_sym k k'), IH. reflexivity.
Qed.

Lemma all_strs_map l : all_strs (map JStr l) = Some l.
Proof. induction l as [|s r IH]; simpl; [reflexivity|]. rewrite IH. reflexivity. Qed.

Section WithValidators.
Variable lc : str -> dval -> option exn.

(* ---- the typed layer is the JSON layer restricted to the kinds the encoder writes ---- *)
Lemma check_xitem_dval ty k v :
  check_xitem lc ty k (json_of_dval v) = match check_item lc ty (k, v) with Some e => Err e | None => Ok (Some v) end.
Proof.
  unfold check_xitem, check_item. cbn [fst snd]. destruct ty, v as [z|s|l]; cbn [json_of_dval]; try reflexivity.
  - destruct (z <? 0)%Z; [reflexivity|]. destruct (is_field TCap k); reflexivity.
  - destruct (is_field TLab k); [|reflexivity]. destruct (lc k (DStr s)); reflexivity.
  - rewrite all_strs_map. destruct (is_field TLab k); [|reflexivity]. destruct (lc k (DList l)); reflexivity.
Qed.

Lemma first_xerror_ddict ty dd :
  first_xerror lc ty (map (fun kv => (fst kv, json_of_dval (snd kv))) dd) = first_error lc ty dd.
Proof.
  induction dd as [|[k v] r IH]; [reflexivity|]. cbn [map first_xerror first_error fst snd].
  rewrite check_xitem_dval. destruct (check_item lc ty (k, v)); [reflexivity|exact IH].
Qed.

Lemma aget_map_dval f dd :
  aget f (map (fun kv : str * dval => (fst kv, json_of_dval (snd kv))) dd) = option_map json_of_dval (lookup f dd).
Proof.
  induction dd as [|[k v] r IH]; [reflexivity|]. cbn [map aget lookup fst snd].
  rewrite (str_eqb_sym f k). destruct (str_eqb k f); [reflexivity|exact IH].
Qed.

Lemma xobj_of_ddict ty dd : xobj_of_json lc ty (json_of_ddict dd) = obj_of_dict lc ty dd.
Proof.
  unfold xobj_of_json, json_of_ddict, obj_of_dict. rewrite first_xerror_ddict.
  destruct (first_error lc ty dd) eqn:FE; [reflexivity|]. f_equal. f_equal.
  apply map_ext. intro f. rewrite aget_map_dval. destruct (lookup f dd) as [x|] eqn:L; [|reflexivity].
  cbn [option_map]. rewrite check_xitem_dval.
  rewrite (first_error_In lc ty dd FE (f, x) (lookup_In f dd x L)). reflexivity.
Qed.

Lemma wire_neq : str_eqb field_pool_id field_pool = false /\ str_eqb field_pool_id field_capacities = false /\
  str_eqb field_pool_id field_labels = false /\ str_eqb field_pool field_pool_id = false /\
  str_eqb field_pool field_capacities = false /\ str_eqb field_pool field_labels = false /\
  str_eqb field_capacities field_pool_id = false /\ str_eqb field_capacities field_pool = false /\
  str_eqb field_capacities field_labels = false /\ str_eqb field_labels field_pool_id = false /\
  str_eqb field_labels field_pool = false /\ str_eqb field_labels field_capacities = false.
Proof. repeat split; vm_compute; reflexivity. Qed.

Lemma xentry_of_entry ty id j : xentry_of_json lc ty id (json_of_entry j) = entry_of_json lc ty id j.
Proof.
  destruct wire_neq as (A1 & A2 & A3 & A4 & A5 & A6 & A7 & A8 & A9 & A10 & A11 & A12).
  destruct j as [[pi|] [p|] [c|] [l|]]; destruct ty;
    unfold xentry_of_json, entry_of_json, json_of_entry, ahas, opt_member;
    cbn [option_map j_pool_id j_pool j_caps j_labs app aget fst snd pool_name bind];
    rewrite ?str_eqb_refl, ?A1, ?A2, ?A3, ?A4, ?A5, ?A6, ?A7, ?A8, ?A9, ?A10, ?A11, ?A12;
    cbn [aget pool_name bind orb]; rewrite ?str_eqb_refl, ?A1, ?A2, ?A3, ?A4, ?A5, ?A6, ?A7, ?A8, ?A9, ?A10, ?A11, ?A12;
    cbn [aget pool_name bind orb]; rewrite ?str_eqb_refl, ?A1, ?A2, ?A3, ?A4, ?A5, ?A6, ?A7, ?A8, ?A9, ?A10, ?A11, ?A12;
    cbn [aget pool_name bind orb]; rewrite ?xobj_of_ddict; try reflexivity;
    destruct (str_eqb pi single_pool_name); reflexivity.
Qed.

Lemma xfrom_items_doc ty doc : forall ds,
  xfrom_items lc ty (map (fun kj => (fst kj, json_of_entry (snd kj))) doc) ds = from_json_items lc ty doc ds.
Proof.
  induction doc as [|[k j] r IH]; intro ds; [reflexivity|]. cbn [map xfrom_items from_json_items fst snd].
  rewrite xentry_of_entry. destruct (entry_of_json lc ty k j); cbn [bind]; [|reflexivity].
  destruct (add_delegation ds a); cbn [bind]; [apply IH|reflexivity].
Qed.

(* on the documents the encoder writes, the JSON-level decoder is the typed decoder *)
Lemma text_value_agree ty doc : from_json_value lc ty (json_of_doc doc) = from_json lc ty doc.
Proof. unfold from_json_value, json_of_doc, from_json. apply xfrom_items_doc. Qed.

(* text round trip: the printed document parses back (Base/JsonRT.v) and decodes as the typed document does *)
Lemma text_decodes_printed ty doc : jwfb (json_of_doc doc) = true ->
  from_json_text lc ty (Some (jprint (json_of_doc doc))) = bind (from_json lc ty doc) (fun ds => Ok (Some ds)).
Proof.
  intro W. unfold from_json_text. rewrite (jparse_jprint _ W), text_value_agree.
  unfold json_of_doc at 1. cbn [jprint]. reflexivity.
Qed.

Lemma text_roundtrip ds : ds_wf lc ds = true ->
  exists doc, to_json ds = Ok doc /\ to_json_text ds = Ok (jprint (json_of_doc doc)) /\
              (jwfb (json_of_doc doc) = true ->
               from_json_text lc (ds_type ds) (Some (jprint (json_of_doc doc))) = Ok (Some ds)).
Proof.
  intro W. destruct (delegations_roundtrip lc ds W) as (doc & TJ & _ & FJ).
  exists doc. split; [exact TJ|]. split; [unfold to_json_text; rewrite TJ; reflexivity|].
  intro JW. rewrite (text_decodes_printed _ _ JW), FJ. reflexivity.
Qed.

(* ---- the special inputs and the kinds that are refused outright ---- *)
Lemma special_inputs ty : from_json_text lc ty None = Ok None /\ from_json_text lc ty (Some []) = Ok None /\
  from_json_text lc ty (Some neo4j_none) = Ok None /\ from_json_text lc ty (Some (S"{}")) = Ok (Some (mkDs ty [])).
Proof. repeat split; vm_compute; reflexivity. Qed.

Lemma top_level_not_object ty v : (forall m, v <> JObj m) -> from_json_value lc ty v = Err e_attribute.
Proof. intro H. destruct v; try reflexivity. exfalso. eapply H. reflexivity. Qed.

Lemma entry_not_object ty id v : (forall m, v <> JObj m) -> xentry_of_json lc ty id v = Err e_attribute.
Proof. intro H. destruct v; try reflexivity. exfalso. eapply H. reflexivity. Qed.

Lemma details_not_object ty v : (forall m, v <> JObj m) -> xobj_of_json lc ty v = Err EType.
Proof. intro H. destruct v; try reflexivity. exfalso. eapply H. reflexivity. Qed.

Lemma decode_rejects_non_objects ty :
  (forall v, (forall m, v <> JObj m) -> from_json_value lc ty v = Err e_attribute) /\
  (forall id v, (forall m, v <> JObj m) -> xentry_of_json lc ty id v = Err e_attribute) /\
  (forall v, (forall m, v <> JObj m) -> xobj_of_json lc ty v = Err EType).
Proof. split; [apply top_level_not_object|]. split; [apply entry_not_object|apply details_not_object]. Qed.

(* ---- decode closure ---- *)
Lemma xentry_inv ty id v d : xentry_of_json lc ty id v = Ok d -> d_type d = ty /\ d_id d = id /\ d_inv d.
Proof.
  unfold xentry_of_json. destruct v as [| | | | | |im]; try discriminate.
  destruct (aget field_pool_id im) as [pv|].
  - destruct (pool_name pv) as [po|]; [|discriminate]. cbn [bind].
    destruct (ahas _ im); [discriminate|].
    destruct (aget _ im) as [dv|]; [|discriminate].
    destruct (xobj_of_json lc ty dv) as [x|]; [|discriminate]. cbn [bind].
    match goal with |- bind (new_deleg ?a ?b ?c ?e) _ = _ -> _ => destruct (new_deleg a b c e) as [d0|] eqn:N end; [|discriminate].
    cbn [bind]. intro SD. apply new_deleg_inv in N as (I0 & T0 & ID0 & _ & _).
    pose proof (set_try_inv d0 x I0) as I1. unfold set_try in I1. rewrite SD in I1.
    unfold set_details in SD. destruct (d_fmt d0); try discriminate;
      (destruct (dtype_eqb (det_kind x) (d_type d0)); [|discriminate]; injection SD as <-; cbn; tauto).
  - destruct (aget field_pool im) as [pv|]; [|discriminate].
    destruct (ahas field_capacities im || ahas field_labels im); [discriminate|].
    destruct (pool_name pv) as [po|]; [|discriminate]. cbn [bind]. intro N.
    apply new_deleg_inv in N as (I0 & T0 & ID0 & _ & _). tauto.
Qed.

Lemma xfrom_items_inv ty m : forall ds ds', xfrom_items lc ty m ds = Ok ds' ->
  ds_type ds = ty -> ds_inv ds -> Forall d_inv (ds_items ds) ->
  ds_type ds' = ty /\ ds_inv ds' /\ Forall d_inv (ds_items ds') /\
  map d_id (ds_items ds') = map d_id (ds_items ds) ++ map fst m.
Proof.
  induction m as [|[k0 j0] r IH]; intros ds ds' H T I DI.
  - cbn in H. injection H as <-. rewrite app_nil_r. tauto.
  - cbn [xfrom_items] in H.
    destruct (xentry_of_json lc ty k0 j0) as [d|e] eqn:E; [|discriminate]. cbn [bind] in H.
    destruct (add_delegation ds d) as [ds1|e] eqn:A; [|discriminate]. cbn [bind] in H.
    apply xentry_inv in E as (Td & Id & Dd).
    assert (I1 : ds_inv ds1).
    { pose proof (add_try_inv ds d I) as X. unfold add_try in X. rewrite A in X. exact X. }
    apply add_ok_inv in A as (_ & _ & ->).
    destruct (IH _ _ H T I1) as (T' & I' & D' & M).
    { cbn [ds_items]. apply Forall_app. split; [exact DI|constructor; [exact Dd|constructor]]. }
    repeat split; try assumption; try apply I'.
    rewrite M. cbn [ds_items]. rewrite map_app. simpl. rewrite <- app_assoc. simpl. rewrite Id. reflexivity.
Qed.

(* whatever text / value from_json accepts, the result satisfies the API invariants (ids distinct and those of
   the document, all of the requested type, no details on a reference, details of the right class, pool names as
   the constructor leaves them) *)
Lemma decode_closure_value ty v d : from_json_value lc ty v = Ok d ->
  ds_type d = ty /\ ds_inv d /\ Forall d_inv (ds_items d).
Proof.
  unfold from_json_value. destruct v as [| | | | | |m]; try discriminate. intro H.
  apply xfrom_items_inv in H; try reflexivity; [tauto|split; constructor|constructor].
Qed.

Lemma decode_closure_text ty t d : from_json_text lc ty t = Ok (Some d) ->
  ds_type d = ty /\ ds_inv d /\ Forall d_inv (ds_items d).
Proof.
  unfold from_json_text. destruct t as [[|c s]|]; try discriminate.
  destruct (str_eqb (c :: s) neo4j_none); [discriminate|]. destruct (jparse (c :: s)) as [v|]; [|discriminate].
  destruct (from_json_value lc ty v) as [ds|] eqn:E; [|discriminate]. cbn [bind]. intro H. injection H as <-.
  eapply decode_closure_value. exact E.
Qed.

(* decode (encode d') = d' for the decoded d', and hence encode . decode . encode = encode, whenever the decoded
   details are objects the constructor builds with values (not None) in every capacity field *)
Lemma decode_encode_decoded ty t d doc : from_json_text lc ty t = Ok (Some d) ->
  Forall (fun x => forall y, d_details x = Some y -> det_ok lc y = true) (ds_items d) ->
  to_json d = Ok doc ->
  from_json lc ty doc = Ok d /\ (forall ds2, from_json lc ty doc = Ok ds2 -> to_json ds2 = Ok doc).
Proof.
  intros DT DO TJ. destruct (decode_closure_text ty t d DT) as (T & I & DI).
  destruct (api_roundtrip lc d doc I DI DO TJ) as [_ FJ]. rewrite T in FJ.
  split; [exact FJ|]. intros ds2 H. rewrite FJ in H. injection H as <-. exact TJ.
Qed.

(* the details object decoded from a JSON object without null values is one the constructor builds *)
Lemma decoded_details_ok ty v x : xobj_of_json lc ty v = Ok x -> no_null_values v = true -> det_ok lc x = true.
Proof.
  unfold xobj_of_json. destruct v as [| | | | | |m]; try discriminate.
  destruct (first_xerror lc ty m) eqn:FE; [discriminate|]. intros H NN. injection H as <-.
  unfold det_ok. cbn [det_kind det_vals]. cbn [no_null_values] in NN.
  assert (IN : forall k jv, In (k, jv) m -> exists o, check_xitem lc ty k jv = Ok o).
  { clear NN. induction m as [|[k0 v0] r IH]; intros k jv HI; [contradiction|]. cbn [first_xerror] in FE.
    destruct (check_xitem lc ty k0 v0) as [o|e] eqn:C; [|discriminate].
    destruct HI as [HI|HI]; [injection HI as <- <-; exists o; exact C|apply IH; assumption]. }
  induction (fields_of ty) as [|f r IHf]; [reflexivity|]. cbn [map vals_ok]. rewrite IHf, andb_true_r.
  rewrite aget_lookup. destruct (lookup f m) as [jv|] eqn:L; [|destruct ty; reflexivity].
  apply lookup_In in L. destruct (IN f jv L) as [o C]. rewrite C.
  rewrite forallb_forall in NN. specialize (NN (f, jv) L). cbn [snd] in NN.
  unfold check_xitem in C. destruct ty; cbn [val_ok].
  - destruct jv; try discriminate.
    destruct (z <? 0)%Z eqn:Hz; [discriminate|]. destruct (is_field TCap f); [|discriminate]. injection C as <-.
    apply Z.leb_le. apply Z.ltb_ge in Hz. exact Hz.
  - destruct jv; try discriminate.
    + destruct (is_field TLab f); [|discriminate]. destruct (lc f (DStr s)) eqn:LC; [discriminate|]. injection C as <-.
      rewrite LC. reflexivity.
    + destruct (all_strs l) as [t|]; [|discriminate]. destruct (is_field TLab f); [|discriminate].
      destruct (lc f (DList t)) eqn:LC; [discriminate|]. injection C as <-. rewrite LC. reflexivity.
Qed.

End WithValidators.

(* the divergence: a null capacity value is accepted, decodes to a None field, is dropped by the encoding and read
   back as 0: decode (encode d') <> d' *)
Definition null_cap_text : str := S"{""d1"": {""pool_id"": ""_"", ""capacities"": {""cpu"": null, ""ram"": 1}}}".

Lemma decode_null_capacity_refuted :
  exists d t2 d2, from_json_text accept_all TCap (Some null_cap_text) = Ok (Some d) /\
                  to_json_text d = Ok t2 /\ from_json_text accept_all TCap (Some t2) = Ok (Some d2) /\ d2 <> d.
Proof.
  eexists. eexists. eexists. split; [vm_compute; reflexivity|]. split; [vm_compute; reflexivity|].
  split; [vm_compute; reflexivity|]. intro H; discriminate H.
Qed.

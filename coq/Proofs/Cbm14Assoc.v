(* C14 - lemmas about the association lists of Model/Cbm14Spec.v (get / has through map, filter, app). *)
From Coq Require Import List NArith Bool Lia.
From FIM Require Import Model.Cbm14Spec.
Import ListNotations.
Open Scope N_scope.

Section AssocLemmas.
  Context {K : Type} (eqb : K -> K -> bool) (eqb_eq : forall a b, eqb a b = true <-> a = b).

  Lemma eqb_refl' k : eqb k k = true.
  Proof. apply eqb_eq; reflexivity. Qed.

  Lemma eqb_neq a b : a <> b -> eqb a b = false.
  Proof. intro H. destruct (eqb a b) eqn:E; auto. apply eqb_eq in E. contradiction. Qed.

  Lemma get_app {V} k (l1 l2 : list (K * V)) :
    get eqb k (l1 ++ l2) = match get eqb k l1 with Some v => Some v | None => get eqb k l2 end.
  Proof.
    induction l1 as [|[k' v] r IH]; simpl; auto.
    destruct (eqb k k'); auto.
  Qed.

  Lemma get_map {V W} (f : K -> V -> W) k (l : list (K * V)) :
    get eqb k (map (fun kv => (fst kv, f (fst kv) (snd kv))) l) = option_map (f k) (get eqb k l).
  Proof.
    induction l as [|[k' v] r IH]; simpl; auto.
    destruct (eqb k k') eqn:E; auto.
    apply eqb_eq in E; subst; reflexivity.
  Qed.

  Lemma get_filter_key {V} (p : K -> bool) k (l : list (K * V)) :
    get eqb k (filter (fun kv => p (fst kv)) l) = if p k then get eqb k l else None.
  Proof.
    induction l as [|[k' v] r IH]; simpl.
    - destruct (p k); auto.
    - destruct (p k') eqn:P; simpl.
      + destruct (eqb k k') eqn:E; auto.
        apply eqb_eq in E; subst. rewrite P. reflexivity.
      + rewrite IH. destruct (eqb k k') eqn:E; auto.
        apply eqb_eq in E; subst. rewrite P. reflexivity.
  Qed.

  Lemma get_Some_In {V} k v (l : list (K * V)) : get eqb k l = Some v -> In (k, v) l.
  Proof.
    induction l as [|[k' v'] r IH]; simpl; try discriminate.
    destruct (eqb k k') eqn:E.
    - intro H; inversion H; subst. apply eqb_eq in E; subst. auto.
    - auto.
  Qed.

  Lemma get_None_notin {V} k (l : list (K * V)) : get eqb k l = None <-> ~ In k (map fst l).
  Proof.
    induction l as [|[k' v'] r IH]; simpl.
    - tauto.
    - destruct (eqb k k') eqn:E.
      + apply eqb_eq in E; subst. split; [discriminate | intro H; exfalso; apply H; auto].
      + rewrite IH. split.
        * intros H [H1|H1]; [subst; rewrite eqb_refl' in E; discriminate | auto].
        * tauto.
  Qed.

  Lemma In_get {V} k v (l : list (K * V)) : NoDup (map fst l) -> In (k, v) l -> get eqb k l = Some v.
  Proof.
    induction l as [|[k' v'] r IH]; simpl; [tauto|].
    intros ND [H|H].
    - inversion H; subst. rewrite eqb_refl'. reflexivity.
    - inversion ND; subst. destruct (eqb k k') eqn:E.
      + apply eqb_eq in E; subst. exfalso. apply H2. change k' with (fst (k', v)). apply in_map. exact H.
      + auto.
  Qed.

  Lemma has_true_iff {V} k (l : list (K * V)) : has eqb k l = true <-> In k (map fst l).
  Proof.
    unfold has. destruct (get eqb k l) eqn:E.
    - split; auto. intros _. apply get_Some_In in E. change k with (fst (k, v)). apply in_map. exact E.
    - split; [discriminate|]. intro H. apply get_None_notin in E. contradiction.
  Qed.

  Lemma has_get {V} k (l : list (K * V)) : has eqb k l = true <-> exists v, get eqb k l = Some v.
  Proof.
    unfold has. destruct (get eqb k l); split; eauto; try discriminate. intros [v H]; discriminate.
  Qed.

  Lemma has_false_get {V} k (l : list (K * V)) : has eqb k l = false <-> get eqb k l = None.
  Proof. unfold has. destruct (get eqb k l); split; auto; discriminate. Qed.

  (* filter on values needs unique keys *)
  Lemma get_filter_val {V} (q : K * V -> bool) k (l : list (K * V)) :
    NoDup (map fst l) ->
    get eqb k (filter q l) = match get eqb k l with
                             | Some v => if q (k, v) then Some v else None
                             | None => None end.
  Proof.
    induction l as [|[k' v'] r IH]; simpl; auto.
    intro ND. inversion ND; subst.
    destruct (eqb k k') eqn:E.
    - apply eqb_eq in E; subst. destruct (q (k', v')) eqn:Q; simpl.
      + rewrite eqb_refl'. reflexivity.
      + assert (get eqb k' (filter q r) = None) as ->; auto.
        apply get_None_notin. intro H. apply H1.
        clear - H. induction r as [|x r IH]; simpl in *; auto.
        destruct (q x); simpl in *; tauto.
    - destruct (q (k', v')); simpl; [rewrite E|]; auto.
  Qed.

  Lemma keys_map {V W} (f : K -> V -> W) (l : list (K * V)) :
    map fst (map (fun kv => (fst kv, f (fst kv) (snd kv))) l) = map fst l.
  Proof. induction l as [|[k v] r IH]; simpl; congruence. Qed.

  Lemma NoDup_keys_filter {V} (q : K * V -> bool) (l : list (K * V)) :
    NoDup (map fst l) -> NoDup (map fst (filter q l)).
  Proof.
    induction l as [|x r IH]; simpl; auto.
    intro ND; inversion ND; subst. destruct (q x); simpl; auto.
    constructor; auto. intro H; apply H1.
    clear - H. induction r as [|y r IH]; simpl in *; auto. destruct (q y); simpl in *; tauto.
  Qed.

  Lemma keys_filter_incl {V} (q : K * V -> bool) (l : list (K * V)) k :
    In k (map fst (filter q l)) -> In k (map fst l).
  Proof. induction l as [|y r IH]; simpl; auto. destruct (q y); simpl; tauto. Qed.

  Lemma NoDup_keys_app {V} (l1 l2 : list (K * V)) :
    NoDup (map fst l1) -> NoDup (map fst l2) ->
    (forall k, In k (map fst l1) -> In k (map fst l2) -> False) ->
    NoDup (map fst (l1 ++ l2)).
  Proof.
    intros N1 N2 D. rewrite map_app.
    induction l1 as [|x r IH]; simpl in *; auto.
    inversion N1; subst. constructor.
    - rewrite in_app_iff. intros [H|H]; [contradiction|]. eapply D; eauto.
    - apply IH; auto. intros k H1' H2'. eapply D; eauto.
  Qed.
End AssocLemmas.

Lemma ekey_eqb_eq (a b : ekey) : ekey_eqb a b = true <-> a = b.
Proof.
  destruct a as [a1 a2], b as [b1 b2]. unfold ekey_eqb; simpl.
  rewrite andb_true_iff, !N.eqb_eq. split; [intros [? ?]; subst; auto | intro H; inversion H; auto].
Qed.

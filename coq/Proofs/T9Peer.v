(* C09 - NetworkService.peer (since fix 1e03994): whatever step is refused, the ports made so far are removed. *)
From Coq Require Import List NArith Bool Lia.
From FIM Require Import Base.Str Gen.T9Names Model.T9Graph Model.T9Ops Proofs.T9Monad Proofs.T9Simple Proofs.T9Ext
     Proofs.T9Rollback Proofs.T9Connect Proofs.T9Facility.
Import ListNotations.
Open Scope N_scope.

Definition plus_port (G : graph) (a : N) (o : node) : graph :=
  mkGraph (gnodes G ++ [o]) (gedges G ++ [mkEdge a (nid o) rConnects]).

Lemma plus_port_closed G a o : closed G -> In a (ids G) -> closed (plus_port G a o).
Proof.
  intros Hc Ha e He. unfold plus_port, ids in *; simpl in *. rewrite map_app.
  apply in_app_iff in He as [He|[<-|[]]].
  - destruct (Hc e He). split; apply in_app_iff; auto.
  - simpl. split; apply in_app_iff; [left; auto|right; left; auto].
Qed.
Lemma plus_port_nodup G a o : NoDup (ids G) -> ~ In (nid o) (ids G) -> NoDup (ids (plus_port G a o)).
Proof. intros. unfold plus_port, ids; simpl. rewrite map_app. simpl. apply NoDup_snoc; auto. Qed.

(* a port that hangs on a service (neither a ConnectionPoint nor a Link) and on nothing else can be removed *)
Lemma remove_fresh_port G a o fr :
  closed G -> NoDup (ids G) -> ~ In (nid o) (ids G) -> In a (ids G) ->
  has_cls G cCP a = false -> has_cls G cLink a = false ->
  remove_cp_and_links (nid o) (mkSt (plus_port G a o) fr) = (mkSt G fr, Ok tt).
Proof.
  intros Hcl Hnd Hnew Ha Hcp Hlk.
  set (E := plus_port G a o).
  assert (HndE : NoDup (ids E)) by (apply plus_port_nodup; auto).
  assert (Hfind : find_node E (nid o) = Ok o).
  { apply find_node_unique; auto. unfold E, plus_port; simpl. apply in_app_iff. right. left. reflexivity. }
  assert (Hne : a <> nid o) by (intro X; apply Hnew; rewrite <- X; exact Ha).
  assert (Hunt : untouched (nid o) (gedges G)) by (apply closed_untouched; auto).
  assert (Hadj : adj_rel E (nid o) rConnects = [a]).
  { unfold adj_rel, E, plus_port. cbn [gedges]. rewrite flat_map_app.
    fold (adj_es (gedges G) (nid o) rConnects). rewrite (adj_es_untouched _ _ _ Hunt). simpl.
    unfold other_end; simpl. rewrite (neqb_of_neq a (nid o)) by auto. rewrite N.eqb_refl. reflexivity. }
  assert (Hca : forall k, has_cls E k a = has_cls G k a).
  { intro k. unfold E, plus_port. apply has_cls_app_old. exact Ha. }
  assert (Hfn1 : first_neighbor E (nid o) rConnects cCP = Ok []).
  { unfold first_neighbor. rewrite Hfind, Hadj. simpl. rewrite Hca, Hcp. reflexivity. }
  assert (Hfn2 : first_neighbor E (nid o) rConnects cLink = Ok []).
  { unfold first_neighbor. rewrite Hfind, Hadj. simpl. rewrite Hca, Hlk. reflexivity. }
  assert (Hraw : remove_node_raw (nid o) E = G).
  { unfold remove_node_raw, E, plus_port. cbn [gnodes gedges]. rewrite !filter_app.
    rewrite (filter_untouched _ _ Hunt).
    rewrite filter_nodes_notin by (intros n Hn X; apply Hnew; rewrite <- X; apply in_map; auto).
    simpl. rewrite N.eqb_refl. simpl. unfold touches; simpl. rewrite N.eqb_refl, orb_true_r. simpl.
    rewrite !app_nil_r. destruct G; reflexivity. }
  unfold remove_cp_and_links, bind, ask. simpl sg. fold E.
  rewrite Hfn1. simpl. rewrite Hfn2. simpl.
  unfold bind, m_delete_node, mutate, g_delete_node. simpl sg. rewrite Hfind, Hraw. reflexivity.
Qed.

Lemma node_cls_facts g a : node_cls g a = Ok cNS ->
  In a (ids g) /\ has_cls g cCP a = false /\ has_cls g cLink a = false.
Proof.
  unfold node_cls, find_node, has_cls, cls_of. intro H.
  destruct (find_nodes g a) as [|n [|m r]] eqn:E; try discriminate. inversion H as [Hc].
  split; [|rewrite Hc; split; reflexivity].
  assert (In n (find_nodes g a)) by (rewrite E; left; auto).
  unfold find_nodes in H0. apply filter_In in H0 as [Hin He]. apply N.eqb_eq in He. subst. apply in_map; auto.
Qed.

Lemma port_on_service fl G a cached name pure s s1 r :
  closed G -> NoDup (ids G) -> In a (ids G) -> sg s = G ->
  add_interface_cached fl a cached name None (Some tServicePort) pure s = (s1, r) ->
  match r with
  | Err _ => sg s1 = G
  | Ok p => exists o, nid o = p /\ ~ In p (ids G) /\ sg s1 = plus_port G a o
  end.
Proof.
  intros Hcl Hnd Ha Hsg H. unfold add_interface_cached in H.
  destruct r as [p|e].
  - apply bind_ok in H as (s' & u & H1 & H). apply guard_ok in H1 as [-> _].
    assert (HclS : closed (sg s)) by (rewrite Hsg; auto).
    destruct (new_interface_shape _ _ _ _ _ _ _ _ _ HclS H) as (Hnew & Hs1 & _ & _).
    rewrite Hsg in Hnew, Hs1.
    exists (mkNode p cCP name tServicePort 0). split; [reflexivity|]. split; [apply has_node_false_In; auto|exact Hs1].
  - rewrite <- Hsg. apply bind_err_cases in H as [H|(s' & u & H1 & H)]; [exact (no_mut_guard _ _ _ _ _ H)|].
    apply guard_ok in H1 as [-> _].
    refine (new_interface_atomic fl name None a (Some tServicePort) pure s s1 e _ H).
    unfold parent_found. rewrite Hsg. apply parent_found_In; auto.
Qed.

Lemma peer_atomic fl a b pure g fresh s' e :
  wf_graph g = true -> node_cls g a = Ok cNS -> node_cls g b = Ok cNS ->
  op_peer fl a b pure (mkSt g fresh) = (s', Err e) -> sg s' = g.
Proof.
  intros Hwf Hca Hcb H. assert (Hcl := wf_closed g Hwf). assert (Hnd := wf_nodup g Hwf).
  destruct (node_cls_facts g a Hca) as (Ha & Ha1 & Ha2).
  destruct (node_cls_facts g b Hcb) as (Hb & Hb1 & Hb2).
  unfold op_peer in H.
  apply bind_err_cases in H as [H|(s1 & an & H1 & H)]; [exact (no_mut_ask _ _ _ _ H)|]. apply ask_ok in H1 as [-> _].
  apply bind_err_cases in H as [H|(s1 & bn & H1 & H)]; [exact (no_mut_ask _ _ _ _ H)|]. apply ask_ok in H1 as [-> _].
  apply bind_err_cases in H as [H|(s1 & ca & H1 & H)]; [exact (no_mut_ask _ _ _ _ H)|]. apply ask_ok in H1 as [-> _].
  apply bind_err_cases in H as [H|(s1 & cb & H1 & H)]; [exact (no_mut_ask _ _ _ _ H)|]. apply ask_ok in H1 as [-> _].
  apply bind_err_cases in H as [H|(s1 & i1 & H1 & H)].
  { exact (port_on_service fl g a ca _ pure (mkSt g fresh) s' (Err e) Hcl Hnd Ha eq_refl H). }
  destruct (port_on_service fl g a ca _ pure (mkSt g fresh) s1 (Ok i1) Hcl Hnd Ha eq_refl H1) as (o1 & Hid1 & Hnew1 & Hs1).
  subst i1. destruct s1 as [g1 fr1]. simpl in Hs1. subst g1.
  set (G1 := plus_port g a o1) in *.
  assert (HclG1 : closed G1) by (apply plus_port_closed; auto).
  assert (HndG1 : NoDup (ids G1)) by (apply plus_port_nodup; auto).
  assert (HbG1 : In b (ids G1)).
  { unfold G1, plus_port, ids; simpl. rewrite map_app. apply in_app_iff. left. exact Hb. }
  assert (HrmO1 : forall fr, remove_cp_and_links (nid o1) (mkSt G1 fr) = (mkSt g fr, Ok tt)).
  { intro fr. apply remove_fresh_port; auto. }
  apply catch_any_err in H as (s2 & e2 & Hm & Hh).
  (* whatever the inner part did, it failed leaving G1 *)
  assert (Hs2 : sg s2 = G1).
  { apply bind_err_cases in Hm as [Hm|(s3 & i2 & H3 & Hm)].
    - exact (port_on_service fl G1 b cb _ None (mkSt G1 fr1) s2 (Err e2) HclG1 HndG1 HbG1 eq_refl Hm).
    - destruct (port_on_service fl G1 b cb _ None (mkSt G1 fr1) s3 (Ok i2) HclG1 HndG1 HbG1 eq_refl H3)
        as (o2 & Hid2 & Hnew2 & Hs3).
      subst i2. destruct s3 as [g3 fr3]. simpl in Hs3. subst g3.
      apply catch_any_err in Hm as (s4 & e4 & Hl & Hh2).
      assert (Hs4 : sg s4 = plus_port G1 b o2).
      { apply bind_err_cases in Hl as [Hl|(s5 & x & _ & Hl)]; [|unfold ret in Hl; discriminate].
        exact (new_link_atomic fl _ None _ _ None _ s4 e4 I Hl). }
      destruct s4 as [g4 fr4]. simpl in Hs4. subst g4.
      unfold bind in Hh2.
      rewrite (remove_fresh_port G1 b o2 fr4 HclG1 HndG1 Hnew2 HbG1) in Hh2.
      + unfold raise in Hh2. inversion Hh2. reflexivity.
      + unfold G1, plus_port. rewrite has_cls_app_old; auto.
      + unfold G1, plus_port. rewrite has_cls_app_old; auto. }
  destruct s2 as [g2 fr2]. simpl in Hs2. subst g2.
  unfold bind in Hh. rewrite HrmO1 in Hh. unfold raise in Hh. inversion Hh. reflexivity.
Qed.

(* C18, instance sizing: the threshold-cell argument.

   map_caps cat req depends on req only through the candidate list filter (fits req) (values cat).
   Two requests that compare the same way (>=) with every catalogue value of each dimension have the same
   candidate list; `rep_of` sends a coordinate to the least catalogue value >= it, or max+1 when there is
   none, and that representative compares the same way with every catalogue value.  So the behaviour on ALL
   of Z^3 is determined by the finitely many representatives `reps cat`, on which `class_ok` is evaluated
   (vm_compute over the regenerated catalogue).  Nothing here depends on how list.sort works. *)
From Coq Require Import List ZArith NArith Bool Lia String.
From FIM Require Import Base.Str Base.PySort Gen.Catalog Model.Catalog18.
Import ListNotations.
Open Scope Z_scope.

(* ---------- one dimension ---------- *)
Definition max_of (vs : list Z) : Z := fold_right Z.max 0 vs.
Definition min_of (v : Z) (l : list Z) : Z := fold_right Z.min v l.

Definition rep_of (vs : list Z) (x : Z) : Z :=
  match filter (fun v => x <=? v) vs with
  | [] => max_of vs + 1
  | v :: l => min_of v l
  end.

Definition axis (vs : list Z) : list Z := (max_of vs + 1) :: nodup Z.eq_dec vs.

Lemma max_of_ge vs v : In v vs -> v <= max_of vs.
Proof.
  induction vs as [|a vs IH]; simpl; [tauto|]. intros [->|H]; [lia|]. specialize (IH H). lia.
Qed.

Lemma min_of_le v l : min_of v l <= v /\ forall u, In u l -> min_of v l <= u.
Proof.
  induction l as [|a l [IH1 IH2]]; simpl; [split; [lia|tauto]|].
  split; [lia|]. intros u [->|H]; [lia|]. specialize (IH2 u H). lia.
Qed.

Lemma min_of_in v l : In (min_of v l) (v :: l).
Proof.
  induction l as [|a l IH]; simpl; [auto|].
  destruct (Z.min_spec a (min_of v l)) as [[_ ->]|[_ ->]]; [auto|].
  destruct IH as [H|H]; [left; exact H|right; right; exact H].
Qed.

Lemma rep_same vs x v : In v vs -> (v >=? x) = (v >=? rep_of vs x).
Proof.
  intro Hv. unfold rep_of.
  destruct (filter (fun v => x <=? v) vs) as [|w l] eqn:E.
  - assert (Hlt : v < x).
    { destruct (Z.ltb_spec v x) as [|Hge]; [assumption|]. exfalso.
      assert (Hin : In v (filter (fun v => x <=? v) vs)) by (apply filter_In; split; [assumption|apply Z.leb_le; lia]).
      rewrite E in Hin. exact Hin. }
    pose proof (max_of_ge vs v Hv). rewrite !Z.geb_leb.
    transitivity false; [|symmetry]; apply Z.leb_gt; lia.
  - destruct (min_of_le w l) as [M1 M2].
    assert (Hm : x <= min_of w l).
    { assert (Hin : In (min_of w l) (filter (fun v => x <=? v) vs)) by (rewrite E; apply min_of_in).
      apply filter_In in Hin. destruct Hin as [_ Hin]. apply Z.leb_le in Hin. exact Hin. }
    rewrite !Z.geb_leb.
    destruct (Z.leb_spec x v) as [Hxv|Hxv].
    + symmetry. apply Z.leb_le.
      assert (Hin : In v (w :: l)) by (rewrite <- E; apply filter_In; split; [assumption|apply Z.leb_le; lia]).
      destruct Hin as [<-|Hin]; [assumption|apply M2; assumption].
    + symmetry. apply Z.leb_gt. lia.
Qed.

Lemma rep_in_axis vs x : In (rep_of vs x) (axis vs).
Proof.
  unfold rep_of, axis.
  destruct (filter (fun v => x <=? v) vs) as [|w l] eqn:E; [left; reflexivity|].
  right. apply nodup_In.
  assert (Hin : In (min_of w l) (filter (fun v => x <=? v) vs)) by (rewrite E; apply min_of_in).
  apply filter_In in Hin. tauto.
Qed.

(* ---------- three dimensions ---------- *)
Definition dim_vals (f : caps3 -> Z) (cat : list inst_entry) : list Z := map (fun e => f (snd e)) cat.

Definition req_rep (cat : list inst_entry) (req : caps3) : caps3 :=
  (rep_of (dim_vals core cat) (core req), rep_of (dim_vals ram cat) (ram req), rep_of (dim_vals disk cat) (disk req)).

(* one representative per threshold cell *)
Definition reps (cat : list inst_entry) : list caps3 :=
  let ac := axis (dim_vals core cat) in
  let ar := axis (dim_vals ram cat) in
  let ad := axis (dim_vals disk cat) in
  flat_map (fun c => flat_map (fun r => map (fun d => (c, r, d)) ad) ar) ac.

(* two requests are in the same cell when they compare alike with every catalogue value *)
Definition same_cell (cat : list inst_entry) (r1 r2 : caps3) : Prop :=
  forall x, In x (map snd cat) -> fits r1 x = fits r2 x.

Lemma same_cell_candidates cat r1 r2 : same_cell cat r1 r2 -> candidates cat r1 = candidates cat r2.
Proof. intro H. unfold candidates. apply filter_ext_in. exact H. Qed.

Lemma same_cell_map_caps cat r1 r2 : same_cell cat r1 r2 -> map_caps cat r1 = map_caps cat r2.
Proof. intro H. unfold map_caps. rewrite (same_cell_candidates _ _ _ H). reflexivity. Qed.

Lemma rep_same_cell cat req : same_cell cat req (req_rep cat req).
Proof.
  intros x Hx. apply in_map_iff in Hx. destruct Hx as [e [<- He]].
  unfold fits, req_rep. cbn [core ram disk fst snd].
  rewrite <- (rep_same (dim_vals core cat) (core req) (core (snd e))),
          <- (rep_same (dim_vals ram cat) (ram req) (ram (snd e))),
          <- (rep_same (dim_vals disk cat) (disk req) (disk (snd e))); [reflexivity| | |];
    unfold dim_vals; apply in_map_iff; exists e; split; auto.
Qed.

Lemma rep_in_reps cat req : In (req_rep cat req) (reps cat).
Proof.
  unfold reps, req_rep. cbv zeta.
  apply in_flat_map. exists (rep_of (dim_vals core cat) (core req)). split; [apply rep_in_axis|].
  apply in_flat_map. exists (rep_of (dim_vals ram cat) (ram req)). split; [apply rep_in_axis|].
  apply in_map_iff. exists (rep_of (dim_vals disk cat) (disk req)). split; [reflexivity|apply rep_in_axis].
Qed.

(* ---------- the finite obligation ---------- *)
Definition le3 (a b : caps3) : bool := (core a <=? core b) && (ram a <=? ram b) && (disk a <=? disk b).
Definition caps_eqb (a b : caps3) : bool := (core a =? core b) && (ram a =? ram b) && (disk a =? disk b).
Definition entry_eqb (a b : inst_entry) : bool := str_eqb (fst a) (fst b) && caps_eqb (snd a) (snd b).

Lemma caps_eqb_eq a b : caps_eqb a b = true <-> a = b.
Proof.
  destruct a as [[a1 a2] a3], b as [[b1 b2] b3]. unfold caps_eqb. cbn [core ram disk fst snd].
  rewrite !andb_true_iff, !Z.eqb_eq. split; [intros [[-> ->] ->]; reflexivity|intro H; inversion H; auto].
Qed.
Lemma entry_eqb_eq a b : entry_eqb a b = true <-> a = b.
Proof.
  destruct a as [n c], b as [n' c']. unfold entry_eqb. cbn [fst snd].
  rewrite andb_true_iff, str_eqb_eq, caps_eqb_eq. split; [intros [-> ->]; reflexivity|intro H; inversion H; auto].
Qed.

Definition fits_some (cat : list inst_entry) (req : caps3) : bool := existsb (fun x => fits req (snd x)) cat.

(* the answer for a representative: an entry of the catalogue, named by the result, which -- when something
   fits -- fits and has no other fitting entry below it, and otherwise is the last entry *)
Definition answer_ok (cat : list inst_entry) (req : caps3) (e : inst_entry) : bool :=
  if fits_some cat req
  then fits req (snd e)
       && forallb (fun x => implb (fits req (snd x) && le3 (snd x) (snd e)) (entry_eqb x e)) cat
  else opt_eqb entry_eqb (last_opt cat) (Some e).

Definition class_ok (cat : list inst_entry) (rep : caps3) : bool :=
  match map_caps cat rep with
  | None => false
  | Some n => match find (fun e => str_eqb (fst e) n) cat with
              | None => false
              | Some e => answer_ok cat rep e
              end
  end.


Lemma forallb_ext_in' {A} (f g : A -> bool) l : (forall x, In x l -> f x = g x) -> forallb f l = forallb g l.
Proof.
  induction l as [|a l IH]; simpl; [reflexivity|]. intro H. rewrite (H a (or_introl eq_refl)). f_equal.
  apply IH. intros x Hx. apply H. right. exact Hx.
Qed.

Lemma answer_ok_same_cell cat r1 r2 e : same_cell cat r1 r2 -> In e cat -> answer_ok cat r1 e = answer_ok cat r2 e.
Proof.
  intros H He. unfold answer_ok, fits_some.
  assert (Hf : forall x, In x cat -> fits r1 (snd x) = fits r2 (snd x)).
  { intros x Hx. apply H. apply in_map. exact Hx. }
  assert (E1 : existsb (fun x => fits r1 (snd x)) cat = existsb (fun x => fits r2 (snd x)) cat).
  { clear He. induction cat as [|a cat IH]; simpl; [reflexivity|].
    rewrite (Hf a (or_introl eq_refl)). f_equal. apply IH.
    - intros x Hx. apply H. simpl. right. exact Hx.
    - intros x Hx. apply Hf. right. exact Hx. }
  rewrite E1, (Hf e He).
  destruct (existsb (fun x => fits r2 (snd x)) cat); [|reflexivity].
  f_equal. apply forallb_ext_in'. intros x Hx. rewrite (Hf x Hx). reflexivity.
Qed.

(* ---------- the statement for every request ---------- *)
Definition sizing_spec (cat : list inst_entry) (req : caps3) : Prop :=
  exists e, In e cat /\ map_caps cat req = Some (fst e) /\
    ((exists x, In x cat /\ fits req (snd x) = true) ->
        fits req (snd e) = true /\
        forall x, In x cat -> fits req (snd x) = true -> le3 (snd x) (snd e) = true -> x = e) /\
    ((forall x, In x cat -> fits req (snd x) = false) -> last_opt cat = Some e).

Lemma class_ok_spec cat req : class_ok cat req = true -> sizing_spec cat req.
Proof.
  unfold class_ok. destruct (map_caps cat req) as [n|] eqn:Em; [|discriminate].
  destruct (find (fun e => str_eqb (fst e) n) cat) as [e|] eqn:Ef; [|discriminate].
  apply find_some in Ef. destruct Ef as [He Hn]. apply str_eqb_eq in Hn.
  intro Hok. exists e. split; [exact He|]. split; [rewrite Hn; exact Em|].
  unfold answer_ok, fits_some in Hok.
  destruct (existsb (fun x => fits req (snd x)) cat) eqn:Ex.
  - apply andb_true_iff in Hok. destruct Hok as [Hfit Hall]. split.
    + intros _. split; [exact Hfit|]. intros x Hx Hfx Hle.
      rewrite forallb_forall in Hall. specialize (Hall x Hx). rewrite Hfx, Hle in Hall. simpl in Hall.
      apply entry_eqb_eq. exact Hall.
    + intro Hnone. exfalso. apply existsb_exists in Ex. destruct Ex as [x [Hx Hfx]].
      rewrite (Hnone x Hx) in Hfx. discriminate.
  - split.
    + intros [x [Hx Hfx]]. exfalso.
      assert (existsb (fun x => fits req (snd x)) cat = true) by (apply existsb_exists; exists x; auto). congruence.
    + intros _. destruct (last_opt cat) as [l|]; simpl in Hok; [|discriminate].
      apply entry_eqb_eq in Hok. congruence.
Qed.

Lemma sizing_spec_same_cell cat r1 r2 : same_cell cat r1 r2 -> sizing_spec cat r2 -> sizing_spec cat r1.
Proof.
  intros H [e [He [Hm [Hs Hn]]]].
  assert (Hf : forall x, In x cat -> fits r1 (snd x) = fits r2 (snd x)).
  { intros x Hx. apply H. apply in_map. exact Hx. }
  exists e. split; [exact He|]. split; [rewrite (same_cell_map_caps _ _ _ H); exact Hm|]. split.
  - intros [x [Hx Hfx]]. destruct Hs as [Hfit Hmin]; [exists x; split; [exact Hx|rewrite <- Hf; assumption]|].
    split; [rewrite Hf; assumption|]. intros y Hy Hfy. apply Hmin; [exact Hy|rewrite <- Hf; assumption].
  - intro Hnone. apply Hn. intros x Hx. rewrite <- Hf; auto.
Qed.

Theorem sizing_all_requests cat : forallb (class_ok cat) (reps cat) = true -> forall req : caps3, sizing_spec cat req.
Proof.
  intros Hc req. rewrite forallb_forall in Hc.
  apply (sizing_spec_same_cell cat req (req_rep cat req) (rep_same_cell cat req)).
  apply class_ok_spec. apply Hc. apply rep_in_reps.
Qed.

(* ---------- instantiation on the regenerated catalogue ---------- *)
Lemma catalog_translated : catalog_gen_ok = true.
Proof. vm_cast_no_check (eq_refl true). Qed.

Lemma catalogue_cells_ok : forallb (class_ok catalogue) (reps catalogue) = true.
Proof. vm_cast_no_check (eq_refl true). Qed.

Theorem sizing_catalogue : forall req : caps3, sizing_spec catalogue req.
Proof. exact (sizing_all_requests catalogue catalogue_cells_ok). Qed.

Theorem same_cell_same_answer : forall cat r1 r2, same_cell cat r1 r2 ->
  candidates cat r1 = candidates cat r2 /\ map_caps cat r1 = map_caps cat r2.
Proof. intros cat r1 r2 H. split; [apply same_cell_candidates|apply same_cell_map_caps]; exact H. Qed.

Theorem every_request_has_rep : forall cat req, In (req_rep cat req) (reps cat) /\ same_cell cat req (req_rep cat req).
Proof. intros. split; [apply rep_in_reps|apply rep_same_cell]. Qed.

(* the last entry dominates every entry ("the largest size") *)
Definition last_is_largest (cat : list inst_entry) : bool :=
  match last_opt cat with
  | Some l => forallb (fun x => le3 (snd x) (snd l)) cat
  | None => false
  end.
Lemma catalogue_last_largest_b : last_is_largest catalogue = true.
Proof. vm_cast_no_check (eq_refl true). Qed.
Theorem catalogue_last_largest : exists l, last_opt catalogue = Some l /\ forall x, In x catalogue -> le3 (snd x) (snd l) = true.
Proof.
  pose proof catalogue_last_largest_b as H. unfold last_is_largest in H.
  destruct (last_opt catalogue) as [l|]; [|discriminate].
  exists l. split; [reflexivity|]. rewrite forallb_forall in H. exact H.
Qed.

(* names are unique, spell the capacities, and get_instance_capacities returns them *)
Definition size_name (c : caps3) : str :=
  S"fabric.c" ++ str_of_Z (core c) ++ S".m" ++ str_of_Z (ram c) ++ S".d" ++ str_of_Z (disk c).
Definition name_agrees (cat : list inst_entry) (e : inst_entry) : bool :=
  str_eqb (fst e) (size_name (snd e)) && opt_eqb caps_eqb (get_caps cat (fst e)) (Some (snd e)).
Lemma catalogue_names_agree_b : forallb (name_agrees catalogue) catalogue = true.
Proof. vm_cast_no_check (eq_refl true). Qed.
Theorem catalogue_names_agree : forall e, In e catalogue ->
  fst e = size_name (snd e) /\ get_caps catalogue (fst e) = Some (snd e).
Proof.
  intros e He. pose proof catalogue_names_agree_b as H. rewrite forallb_forall in H. specialize (H e He).
  unfold name_agrees in H. apply andb_true_iff in H. destruct H as [H1 H2]. apply str_eqb_eq in H1.
  split; [exact H1|]. destruct (get_caps catalogue (fst e)) as [c|]; simpl in H2; [|discriminate].
  apply caps_eqb_eq in H2. congruence.
Qed.

Fixpoint nodup_strb (l : list str) : bool :=
  match l with [] => true | x :: r => negb (existsb (str_eqb x) r) && nodup_strb r end.
Lemma nodup_strb_NoDup l : nodup_strb l = true -> NoDup l.
Proof.
  induction l as [|x l IH]; simpl; [constructor|]. intro H. apply andb_true_iff in H. destruct H as [H1 H2].
  constructor; [|apply IH; exact H2]. intro Hin. apply negb_true_iff in H1.
  assert (existsb (str_eqb x) l = true) by (apply existsb_exists; exists x; split; [exact Hin|apply str_eqb_refl]).
  congruence.
Qed.
Theorem catalogue_names_unique : NoDup (map fst catalogue).
Proof. apply nodup_strb_NoDup. vm_cast_no_check (eq_refl true). Qed.


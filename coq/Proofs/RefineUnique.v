(* C05: a NodeID is unique within its graph whatever the node's class - invariant over all histories
   (both storage flavours) that do not rewrite GraphID / NodeID and import graphs whose own NodeIDs
   are unique. *)
From Coq Require Import List NArith Bool Lia.
From FIM Require Import Base.Assoc Model.Store Model.StoreDisjoint.
From FIM Require Import Proofs.IsolationBase Proofs.IsolationShared Proofs.IsolationFrame Proofs.IsolationDisjoint.
Import ListNotations.
Open Scope N_scope.

(* the test _find_node applies *)
Definition P (g n : N) (nd : node) : bool := has_val (snd nd) k_nodeid n && has_val (snd nd) k_graphid g.
Definition cnt (g n : N) (l : list node) : nat := length (filter (P g n) l).

Definition NUniq (G : nxg) : Prop := forall g n, (cnt g n (gn G) <= 1)%nat.
Definition nle (G' G : nxg) : Prop := forall g n, (cnt g n (gn G') <= cnt g n (gn G))%nat.

Lemma nle_refl G : nle G G.
Proof. intros g n. lia. Qed.
Lemma nle_trans A B C : nle A B -> nle B C -> nle A C.
Proof. intros H1 H2 g n. specialize (H1 g n). specialize (H2 g n). lia. Qed.
Lemma NUniq_nle G' G : nle G' G -> NUniq G -> NUniq G'.
Proof. intros H1 H2 g n. specialize (H1 g n). specialize (H2 g n). lia. Qed.
Lemma nle_same_gn G' G : gn G' = gn G -> nle G' G.
Proof. intros E g n. rewrite E. lia. Qed.

Lemma search_P G g n : length (search G [(k_nodeid, n); (k_graphid, g)]) = cnt g n (gn G).
Proof.
  unfold search, cnt. rewrite map_length. f_equal. apply filter_ext. intros [i ps].
  unfold matches, P. simpl. now rewrite andb_true_r.
Qed.

Lemma search_P' G g n : length (search G [(k_graphid, g); (k_nodeid, n)]) = cnt g n (gn G).
Proof.
  unfold search, cnt. rewrite map_length. f_equal. apply filter_ext. intros [i ps].
  unfold matches, P. simpl. rewrite andb_true_r. apply andb_comm.
Qed.

Lemma cnt_app g n a b : cnt g n (a ++ b) = (cnt g n a + cnt g n b)%nat.
Proof. unfold cnt. now rewrite filter_app, app_length. Qed.

Lemma cnt_set_node g n id ps ps' l :
  aget id l = Some ps -> P g n (id, ps') = P g n (id, ps) -> cnt g n (set_node id ps' l) = cnt g n l.
Proof.
  unfold cnt. induction l as [|[i q] r IH]; [reflexivity|].
  intros Hget Hf. cbn [aget] in Hget. cbn [set_node]. rewrite N.eqb_sym in Hget. destruct (N.eqb i id) eqn:E.
  - apply N.eqb_eq in E; subst i. inversion Hget; subst q. cbn [filter]. rewrite Hf. destruct (P g n (id, ps)); reflexivity.
  - cbn [filter]. destruct (P g n (i, q)); cbn [length]; rewrite IH; auto.
Qed.

Lemma cnt_filter_le g n (h : node -> bool) l : (cnt g n (filter h l) <= cnt g n l)%nat.
Proof.
  unfold cnt. induction l as [|x r IH]; simpl; [lia|].
  destruct (h x); simpl; destruct (P g n x); simpl; lia.
Qed.

Lemma cnt_map_same g n (F : node -> node) l :
  (forall x, In x l -> P g n (F x) = P g n x) -> cnt g n (map F l) = cnt g n l.
Proof.
  unfold cnt. induction l as [|x r IH]; simpl; intro H; [reflexivity|].
  rewrite (H x (or_introl eq_refl)). destruct (P g n x); simpl; rewrite IH; auto.
Qed.

(* a property update that leaves NodeID and GraphID alone *)
Definition keeps_identity (ps ps' : props) : Prop :=
  forall x, has_val ps' k_nodeid x = has_val ps k_nodeid x /\ has_val ps' k_graphid x = has_val ps k_graphid x.

Lemma P_keeps g n id ps ps' : keeps_identity ps ps' -> P g n (id, ps') = P g n (id, ps).
Proof. intro H. unfold P. simpl. destruct (H n) as [H1 _]. destruct (H g) as [_ H2]. now rewrite H1, H2. Qed.

Lemma keeps_identity_aset ps p v : N.eqb p k_graphid = false -> N.eqb p k_nodeid = false -> keeps_identity ps (aset p v ps).
Proof.
  intros H1 H2 x. apply N.eqb_neq in H1, H2. split; apply has_val_aset_other; assumption.
Qed.
Lemma keeps_identity_aremove ps p : memN p no_unset = false -> keeps_identity ps (aremove p ps).
Proof.
  intros H x. split; apply has_val_aremove_other; intro E; subst p; discriminate H.
Qed.
Lemma keeps_identity_aupdate ps u : ahas k_graphid u = false -> ahas k_nodeid u = false -> keeps_identity ps (aupdate u ps).
Proof. intros H1 H2 x. split; now apply has_val_aupdate_notin. Qed.

Lemma nle_set_node G id ps ps' : nx_node G id = Some ps -> keeps_identity ps ps' -> nle (nx_set_node G id ps') G.
Proof.
  intros Hn Hk g n. unfold nx_set_node. cbn [gn]. rewrite (cnt_set_node g n id ps ps'); [apply le_n | exact Hn | now apply P_keeps].
Qed.

(* clearing a node's properties can only lower the counts *)
Lemma cnt_set_node_nil g n id l : (cnt g n (set_node id [] l) <= cnt g n l)%nat.
Proof.
  unfold cnt. induction l as [|[i q] r IH]; [apply le_n|].
  cbn [set_node]. destruct (N.eqb i id); cbn [filter].
  - change (P g n (i, [])) with false. cbv iota. destruct (P g n (i, q)); cbn [length]; lia.
  - destruct (P g n (i, q)); cbn [length]; lia.
Qed.

(* ---------- scope ---------- *)
Definition ident_key (p : N) : bool := N.eqb p k_graphid || N.eqb p k_nodeid.
Definition ident_free (ps : props) : bool := negb (ahas k_graphid ps) && negb (ahas k_nodeid ps).

Fixpoint pv_nodeids (l : list node) : list N :=
  match l with
  | [] => []
  | n :: r => match aget k_nodeid (snd n) with Some (PV x) => x :: pv_nodeids r | _ => pv_nodeids r end
  end.
Fixpoint nodupb (l : list N) : bool :=
  match l with [] => true | x :: r => negb (memN x r) && nodupb r end.
Definition import_unique (ig : igraph) : bool := nodupb (pv_nodeids (inodes ig)).

Definition nid_scope (o : op) : bool :=
  match o with
  | OUpdNode _ _ p _ | OUpdNodes _ p _ => negb (ident_key p)
  | OUpdNodeProps _ _ ps => ident_free ps
  | OAddNode _ _ _ (Some ps) => ident_free ps
  | OImport _ ig => import_unique ig
  | OImportDirect g ig => import_unique ig && forallb (fun n => has_val (snd n) k_graphid g) (inodes ig)
  | OMerge _ _ _ (Some pol) => negb (ahas k_graphid pol) && negb (ahas k_nodeid pol)
  | _ => true
  end.

(* ---------- graph-object mutators ---------- *)
Lemma nle_update_node G g n p v : ident_key p = false -> nle (fst (pg_update_node G g n p v)) G.
Proof.
  intro Hp. apply orb_false_iff in Hp as [H1 H2]. unfold pg_update_node.
  destruct (N.eqb p k_class); [apply nle_refl|].
  destruct (find_node G g n) as [id|]; [|apply nle_refl].
  destruct (nx_node G id) as [ps|] eqn:En; [|apply nle_refl]. simpl.
  eapply nle_set_node; eauto. now apply keeps_identity_aset.
Qed.

Lemma nle_unset_node G g n p : nle (fst (pg_unset_node G g n p)) G.
Proof.
  unfold pg_unset_node. destruct (N.eqb p k_class); [apply nle_refl|].
  destruct (memN p no_unset) eqn:Em; [apply nle_refl|].
  destruct (find_node G g n) as [id|]; [|apply nle_refl].
  destruct (nx_node G id) as [ps|] eqn:En; [|apply nle_refl]. simpl.
  eapply nle_set_node; eauto. now apply keeps_identity_aremove.
Qed.

Lemma nle_update_nodes G g p v : ident_key p = false -> nle (fst (pg_update_nodes G g p v)) G.
Proof.
  intro Hp. apply orb_false_iff in Hp as [H1 H2]. unfold pg_update_nodes.
  destruct (find_all G g) as [l|]; [|apply nle_refl].
  destruct (N.eqb p k_class); [apply nle_refl|]. simpl. intros g0 n0. simpl.
  unfold upd_nodes. rewrite cnt_map_same; [lia|].
  intros [i ps] _. simpl. destruct (memN i l); [|reflexivity].
  apply P_keeps. now apply keeps_identity_aset.
Qed.

Lemma nle_update_node_props G g n u : ident_free u = true -> nle (fst (pg_update_node_props G g n u)) G.
Proof.
  intro Hu. apply andb_true_iff in Hu as [H1 H2]. apply negb_true_iff in H1, H2.
  unfold pg_update_node_props. destruct (ahas k_class u); [apply nle_refl|].
  destruct (find_node G g n) as [id|]; [|apply nle_refl].
  destruct (nx_node G id) as [ps|] eqn:En; [|apply nle_refl]. simpl.
  eapply nle_set_node; eauto. now apply keeps_identity_aupdate.
Qed.

Lemma nle_with_link G g a b k gd f : nle (fst (with_link G g a b k gd f)) G.
Proof.
  unfold with_link. destruct gd; [apply nle_refl|].
  destruct (find_link G g a b) as [[[ia ib] ps]|]; [|apply nle_refl].
  destruct (has_val ps k_class k); [|apply nle_refl]. simpl. now apply nle_same_gn.
Qed.

Lemma nle_add_link G g a r b ps : nle (fst (pg_add_link G g a r b ps)) G.
Proof.
  unfold pg_add_link.
  destruct (find_node G g a); [|apply nle_refl].
  destruct (find_node G g b); [|apply nle_refl].
  assert (K : forall x y at_, nle (nx_add_edge G x y at_) G).
  { intros. apply nle_same_gn. unfold nx_add_edge. now destruct (nx_edge G x y). }
  destruct ps as [u|]; simpl; [destruct (ahas k_class u); simpl; [apply nle_refl|]|]; apply K.
Qed.

Lemma nle_remove_node G id : nle (nx_remove_node G id) G.
Proof. intros g n. unfold nx_remove_node. simpl. apply cnt_filter_le. Qed.

Lemma nle_delete_node G g n : nle (fst (pg_delete_node G g n)) G.
Proof.
  unfold pg_delete_node. destruct (find_node G g n); [|apply nle_refl]. simpl. apply nle_remove_node.
Qed.

Lemma nle_remove_nodes G l : nle (nx_remove_nodes G l) G.
Proof. intros g n. unfold nx_remove_nodes. simpl. apply cnt_filter_le. Qed.

(* merge: the other graph's node goes away; the surviving node keeps NodeID and GraphID (or, on the
   KeyError path, loses everything) *)
Lemma merge_props_keeps pol mine other todo np :
  ahas k_graphid pol = false -> ahas k_nodeid pol = false ->
  merge_props pol mine other todo = Some np ->
  forall k, (k = k_graphid \/ k = k_nodeid) -> aget k np = aget k todo.
Proof.
  intros Hg Hn. revert np. induction todo as [|[k v] r IH]; simpl; intros np H; [inversion H; reflexivity|].
  destruct (aget k pol) as [p|] eqn:Ek.
  - destruct (policy_value p v (aget k other)) as [x|]; [|discriminate].
    destruct (merge_props pol mine other r) as [rest|]; [|discriminate]. inversion H; subst np.
    intros k0 Hk0. simpl. destruct (N.eqb k0 k) eqn:E.
    + apply N.eqb_eq in E; subst k0. exfalso. unfold ahas in Hg, Hn.
      destruct Hk0; subst k; rewrite Ek in *; discriminate.
    + now apply IH.
  - destruct (merge_props pol mine other r) as [rest|]; [|discriminate]. inversion H; subst np.
    intros k0 Hk0. simpl. destruct (N.eqb k0 k); [reflexivity | now apply IH].
Qed.

Lemma nle_contract G u v : nle (contract G u v) G.
Proof.
  intros g n. unfold contract. rewrite gn_fold_remap. apply nle_remove_node.
Qed.

Lemma nx_node_contract G u v : u <> v -> nx_node (contract G u v) u = nx_node G u.
Proof.
  intro Hne. unfold nx_node, contract. rewrite gn_fold_remap. unfold nx_remove_node. simpl.
  induction (gn G) as [|[i q] r IH]; simpl; [reflexivity|].
  destruct (N.eqb i v) eqn:E; simpl.
  - apply N.eqb_eq in E; subst i. destruct (N.eqb u v) eqn:E2; [apply N.eqb_eq in E2; congruence | exact IH].
  - destruct (N.eqb u i); [reflexivity | exact IH].
Qed.

Lemma nle_merge G g n g2 pol :
  NoDup (ids G) ->
  match pol with Some p => ahas k_graphid p = false /\ ahas k_nodeid p = false | None => True end ->
  nle (fst (s_merge G g n g2 pol)) G.
Proof.
  intros Hnd Hpol. unfold s_merge.
  destruct (N.eqb g g2) eqn:Eg; [apply nle_refl|]. apply N.eqb_neq in Eg.
  destruct (negb (pg_graph_exists G g2)); [apply nle_refl|].
  destruct (find_node G g n) as [u|] eqn:Eu; [|apply nle_refl].
  destruct (find_node G g2 n) as [v|] eqn:Ev; [|apply nle_refl].
  destruct (nx_node G u) as [mine|] eqn:Emine; [|apply nle_refl].
  destruct (nx_node G v) as [other|] eqn:Eother; [|apply nle_refl].
  assert (Huv : u <> v).
  { intro E; subst v.
    destruct (find_node_sound G g n u Hnd Eu) as [p1 [A1 [A2 _]]].
    destruct (find_node_sound G g2 n u Hnd Ev) as [p2 [B1 [B2 _]]].
    rewrite A1 in B1. inversion B1; subst p2. apply Eg. eapply has_val_inj; eauto. }
  assert (Hc : nx_node (contract G u v) u = Some mine) by (rewrite nx_node_contract; assumption).
  assert (Kid : forall ps', keeps_identity mine ps' -> nle (nx_set_node (contract G u v) u ps') G).
  { intros ps' Hk. eapply nle_trans; [eapply nle_set_node; eauto | apply nle_contract]. }
  destruct pol as [p|]; simpl.
  - destruct Hpol as [Hp1 Hp2]. destruct (merge_props p mine other mine) as [np|] eqn:Em; simpl.
    + apply Kid. intro x. unfold has_val.
      rewrite (merge_props_keeps p mine other mine np Hp1 Hp2 Em k_nodeid) by (now right).
      rewrite (merge_props_keeps p mine other mine np Hp1 Hp2 Em k_graphid) by (now left). split; reflexivity.
    + apply nle_refl.
  - apply Kid. intro x. split; reflexivity.
Qed.

(* ---------- adding nodes ---------- *)
Lemma cnt_blank g n c g0 n0 :
  cnt g0 n0 [(0, blank_attrs g n c)] = if N.eqb n0 n && N.eqb g0 g then 1%nat else 0%nat.
Proof.
  unfold cnt, P, blank_attrs, has_val. simpl.
  rewrite (N.eqb_sym n n0), (N.eqb_sym g g0).
  destruct (N.eqb n0 n && N.eqb g0 g); reflexivity.
Qed.

Lemma cnt_id_irrelevant g n i j ps : cnt g n [(i, ps)] = cnt g n [(j, ps)].
Proof. unfold cnt. cbn [filter]. change (P g n (i, ps)) with (P g n (j, ps)). destruct (P g n (j, ps)); reflexivity. Qed.

Lemma NUniq_add_node G g newid n c ps G' :
  nx_node G newid = None ->
  match ps with Some u => ident_free u = true | None => True end ->
  NUniq G -> pg_add_node G g newid n c ps = Some G' -> NUniq G'.
Proof.
  intros Hfresh Hps HU Hadd. unfold pg_add_node in Hadd.
  destruct (search G [(k_graphid, g); (k_nodeid, n)]) eqn:Es; [|discriminate].
  assert (H0 : cnt g n (gn G) = 0%nat) by (rewrite <- search_P', Es; reflexivity).
  assert (E1 : nx_add_node G newid (blank_attrs g n c) = mkG (gn G ++ [(newid, blank_attrs g n c)]) (ge G)).
  { unfold nx_add_node. now rewrite Hfresh. }
  assert (HU1 : NUniq (mkG (gn G ++ [(newid, blank_attrs g n c)]) (ge G))).
  { intros g0 n0. simpl. rewrite cnt_app. rewrite (cnt_id_irrelevant g0 n0 newid 0), cnt_blank.
    destruct (N.eqb n0 n && N.eqb g0 g) eqn:E.
    - apply andb_true_iff in E as [Ea Eb]. apply N.eqb_eq in Ea, Eb. subst. lia.
    - specialize (HU g0 n0). lia. }
  rewrite E1 in Hadd. destruct ps as [u|]; [|inversion Hadd; subst; exact HU1].
  destruct (nx_node (mkG (gn G ++ [(newid, blank_attrs g n c)]) (ge G)) newid) as [q|] eqn:Eq; inversion Hadd; subst; [|exact HU1].
  apply andb_true_iff in Hps as [Hp1 Hp2]. apply negb_true_iff in Hp1, Hp2.
  eapply NUniq_nle; [|exact HU1]. eapply nle_set_node; eauto. now apply keeps_identity_aupdate.
Qed.

(* imported nodes *)
Lemma cnt_le_pv g n l : (cnt g n l <= length (filter (N.eqb n) (pv_nodeids l)))%nat.
Proof.
  unfold cnt. induction l as [|[i ps] r IH]; simpl; [lia|].
  unfold P at 1. simpl. unfold has_val at 1.
  destruct (aget k_nodeid ps) as [[x| |l0|l0]|]; simpl; try exact IH.
  rewrite (N.eqb_sym x n). destruct (N.eqb n x); simpl; [|exact IH].
  destruct (has_val ps k_graphid g); simpl; lia.
Qed.

Lemma nodupb_count n l : nodupb l = true -> (length (filter (N.eqb n) l) <= 1)%nat.
Proof.
  induction l as [|x r IH]; simpl; [lia|]. intro H. apply andb_true_iff in H as [H1 H2].
  specialize (IH H2). destruct (N.eqb n x) eqn:E; simpl; [|exact IH].
  apply N.eqb_eq in E; subst x. apply negb_true_iff in H1.
  assert (filter (N.eqb n) r = []).
  { clear -H1. induction r as [|y r IH]; simpl in *; [reflexivity|].
    apply orb_false_iff in H1 as [Ha Hb]. rewrite Ha. now apply IH. }
  rewrite H. simpl. lia.
Qed.

Lemma pv_nodeids_relabel l f : pv_nodeids (relabel_nodes l f) = pv_nodeids l.
Proof. revert f; induction l as [|[k ps] r IH]; intro f; simpl; [reflexivity|]. now rewrite IH. Qed.

Lemma pv_nodeids_stamp g l : pv_nodeids (stamp g l) = pv_nodeids l.
Proof.
  induction l as [|[k ps] r IH]; simpl; [reflexivity|].
  rewrite aget_aset_other by discriminate. now rewrite IH.
Qed.

Lemma cnt_other_graph g g0 n0 l :
  (forall nd, In nd l -> has_val (snd nd) k_graphid g = true) -> g0 <> g -> cnt g0 n0 l = 0%nat.
Proof.
  intros H Hne. unfold cnt. induction l as [|x r IH]; simpl; [reflexivity|].
  assert (E : has_val (snd x) k_graphid g0 = false).
  { destruct (has_val (snd x) k_graphid g0) eqn:E; [|reflexivity]. exfalso. apply Hne.
    eapply has_val_inj; [exact E | apply H; now left]. }
  unfold P at 1. rewrite E, andb_false_r. apply IH. intros; apply H; now right.
Qed.

Lemma filter_filter_nil {A} (f h : A -> bool) l :
  (forall x, In x l -> f x = true -> h x = false) -> filter f (filter h l) = [].
Proof.
  intro H. induction l as [|x r IH]; simpl; [reflexivity|].
  destruct (h x) eqn:Eh; simpl.
  - destruct (f x) eqn:Ef; [rewrite (H x (or_introl eq_refl) Ef) in Eh; discriminate|].
    apply IH. intros; apply H; [now right|assumption].
  - apply IH. intros; apply H; [now right|assumption].
Qed.

Lemma cnt_del_graph G g n : cnt g n (gn (nx_remove_nodes G (search G [(k_graphid, g)]))) = 0%nat.
Proof.
  unfold nx_remove_nodes, cnt. simpl. rewrite search_graphid_ids_in. rewrite filter_filter_nil; [reflexivity|].
  intros [i ps] Hin HP. apply negb_false_iff. apply memN_In. unfold ids_in. apply in_map_iff.
  exists (i, ps). split; [reflexivity|]. apply filter_In. split; [exact Hin|].
  unfold P in HP. apply andb_true_iff in HP as [_ HP]. exact HP.
Qed.

Lemma NUniq_import G g ns es :
  NoDup (map fst ns) -> (forall i, In i (map fst ns) -> ~ In i (ids (nx_remove_nodes G (search G [(k_graphid, g)])))) ->
  (forall nd, In nd ns -> has_val (snd nd) k_graphid g = true) -> nodupb (pv_nodeids ns) = true ->
  NUniq G -> NUniq (nx_add_all (nx_remove_nodes G (search G [(k_graphid, g)])) ns es).
Proof.
  intros Hnd Hfresh Hg Hu HU g0 n0.
  unfold nx_add_all. rewrite fold_add_edges_gn. rewrite add_nodes_fresh by assumption. cbn [gn].
  rewrite cnt_app. destruct (N.eq_dec g0 g) as [E|E].
  - subst g0. rewrite cnt_del_graph. pose proof (cnt_le_pv g n0 ns). pose proof (nodupb_count n0 _ Hu). lia.
  - rewrite (cnt_other_graph g g0 n0 ns Hg E). pose proof (nle_remove_nodes G (search G [(k_graphid, g)]) g0 n0).
    specialize (HU g0 n0). lia.
Qed.

Lemma stamp_in_g g l nd : In nd (stamp g l) -> has_val (snd nd) k_graphid g = true.
Proof.
  unfold stamp. intro H. apply in_map_iff in H as [[i ps] [E _]]. subst nd. simpl.
  unfold has_val. rewrite aget_aset_same. simpl. apply N.eqb_refl.
Qed.

Lemma NUniq_add_graph s g ig :
  SInv s -> import_unique ig = true -> NUniq (sg s) -> NUniq (sg (fst (s_add_graph s g ig))).
Proof.
  intros HI Hu HU. unfold s_add_graph.
  pose proof (SInv_del_graph s g HI) as [H1 H2].
  destruct (existsb node_id_missing (inodes (relabel ig (snext (s_del_graph s g))))); cbn [fst sg].
  - eapply NUniq_nle; [apply nle_remove_nodes | exact HU].
  - unfold s_del_graph. cbn [sg snext]. apply NUniq_import.
    + rewrite map_fst_stamp. rewrite relabel_inodes_fst. apply seqN_NoDup.
    + intros i Hi Hin. rewrite map_fst_stamp, relabel_inodes_fst in Hi. apply seqN_In in Hi.
      apply H2 in Hin. simpl in Hin. lia.
    + apply stamp_in_g.
    + rewrite pv_nodeids_stamp. unfold relabel. simpl. rewrite pv_nodeids_relabel. exact Hu.
    + exact HU.
Qed.

Lemma NUniq_add_graph_direct s g ig :
  SInv s -> import_unique ig = true -> forallb (fun n => has_val (snd n) k_graphid g) (inodes ig) = true ->
  NUniq (sg s) -> NUniq (sg (fst (s_add_graph_direct s g ig))).
Proof.
  intros HI Hu Hd HU. unfold s_add_graph_direct. cbn [fst sg].
  pose proof (SInv_del_graph s g HI) as [H1 H2].
  unfold s_del_graph. cbn [sg snext]. apply NUniq_import.
  - rewrite relabel_inodes_fst. apply seqN_NoDup.
  - intros i Hi Hin. rewrite relabel_inodes_fst in Hi. apply seqN_In in Hi. apply H2 in Hin. simpl in Hin. lia.
  - intros nd Hn. unfold relabel in Hn. simpl in Hn.
    assert (exists k, In (k, snd nd) (inodes ig)) as [k Hk].
    { clear -Hn. revert Hn. generalize (snext s). induction (inodes ig) as [|[k ps] r IH]; intros f Hn; simpl in *; [contradiction|].
      destruct Hn as [Hn|Hn]; [subst nd; exists k; now left | destruct (IH _ Hn) as [k' Hk']; exists k'; now right]. }
    rewrite forallb_forall in Hd. apply (Hd _ Hk).
  - unfold relabel. simpl. rewrite pv_nodeids_relabel. exact Hu.
  - exact HU.
Qed.

(* clone: the extracted nodes of g have unique NodeIDs because g has *)
Lemma pv_count_le_cnt g l n :
  (forall nd, In nd l -> has_val (snd nd) k_graphid g = true) ->
  length (filter (N.eqb n) (pv_nodeids l)) = cnt g n l.
Proof.
  intro H. unfold cnt. induction l as [|[i ps] r IH]; simpl; [reflexivity|].
  assert (Hg : has_val ps k_graphid g = true) by (apply (H (i, ps)); now left).
  assert (IH' : length (filter (N.eqb n) (pv_nodeids r)) = length (filter (P g n) r))
    by (apply IH; intros; apply H; now right).
  unfold P at 1. simpl. rewrite Hg, andb_true_r. unfold has_val.
  destruct (aget k_nodeid ps) as [[x| |l0|l0]|]; simpl; try exact IH'.
  rewrite (N.eqb_sym x n). destruct (N.eqb n x); simpl; now rewrite IH'.
Qed.

Lemma count_le1_nodupb l : (forall n, (length (filter (N.eqb n) l) <= 1)%nat) -> nodupb l = true.
Proof.
  induction l as [|x r IH]; simpl; intro H; [reflexivity|].
  apply andb_true_iff. split.
  - apply negb_true_iff. apply memN_false. intro Hin. specialize (H x). rewrite N.eqb_refl in H. simpl in H.
    assert (length (filter (N.eqb x) r) >= 1)%nat; [|lia].
    clear -Hin. induction r as [|y r IH]; simpl in *; [contradiction|].
    destruct Hin as [E|Hin]; [subst y; rewrite N.eqb_refl; simpl; lia|].
    destruct (N.eqb x y); simpl; [lia | now apply IH].
  - apply IH. intro n. specialize (H n). destruct (N.eqb n x); simpl in H; lia.
Qed.

Lemma extract_unique G g ig : NoDup (ids G) -> NUniq G -> s_extract G g = Some ig -> import_unique ig = true.
Proof.
  intros Hnd HU H. unfold s_extract in H. rewrite search_graphid_ids_in in H.
  destruct (ids_in G g) as [|x r] eqn:E; [discriminate|]. injection H as H. subst ig.
  unfold import_unique. cbn [inodes].
  change (fun n : N * props => (fst n =? x) || memN (fst n) r) with (fun n : N * props => memN (fst n) (x :: r)).
  rewrite <- E.
  assert (Hsame : filter (fun n => memN (fst n) (ids_in G g)) (gn G) = filter (in_g g) (gn G)).
  { apply filter_ext_in. intros [i ps] Hin. simpl.
    destruct (in_g g (i, ps)) eqn:Eg.
    - apply memN_In. unfold ids_in. apply in_map_iff. exists (i, ps). split; [reflexivity|]. apply filter_In. now split.
    - apply memN_false. intro Hm. unfold ids_in in Hm. apply in_map_iff in Hm as [[j q] [Hj Hf]]. simpl in Hj; subst j.
      apply filter_In in Hf as [Hq Hgq].
      assert (q = ps).
      { pose proof (NoDup_In_aget i q (gn G) Hnd Hq). pose proof (NoDup_In_aget i ps (gn G) Hnd Hin). congruence. }
      subst q. congruence. }
  rewrite Hsame. apply count_le1_nodupb. intro n.
  rewrite (pv_count_le_cnt g).
  - pose proof (cnt_filter_le g n (in_g g) (gn G)). specialize (HU g n). lia.
  - intros nd Hin. apply filter_In in Hin as [_ Hin]. exact Hin.
Qed.

(* ---------- the invariant, shared store ---------- *)
Theorem NUniq_step s o : SInv s -> nid_scope o = true -> NUniq (sg s) -> NUniq (sg (fst (sstep s o))).
Proof.
  intros HI Hsc HU. pose proof HI as [Hnd Hlt].
  assert (L : forall x, nle (fst x) (sg s) -> NUniq (sg (fst (lift s x)))).
  { intros x H. unfold lift. simpl. eapply NUniq_nle; eauto. }
  destruct o; simpl in Hsc; simpl; try exact HU.
  - now apply NUniq_add_graph.
  - apply andb_true_iff in Hsc as [H1 H2]. now apply NUniq_add_graph_direct.
  - eapply NUniq_nle; [apply nle_remove_nodes | exact HU].
  - unfold s_clone. destruct (s_extract (sg s) g) as [ig|] eqn:E; [|exact HU].
    apply NUniq_add_graph; auto. eapply extract_unique; eauto.
  - destruct (pg_add_node (sg s) g (snext s) n c ps) as [G'|] eqn:E; simpl; [|exact HU].
    eapply NUniq_add_node; [| |exact HU|exact E].
    + unfold nx_node. apply aget_None_notin. intro Hin. apply Hlt in Hin. lia.
    + destruct ps; [exact Hsc | exact I].
  - apply L, nle_delete_node.
  - apply L, nle_add_link.
  - apply L, nle_update_node. now apply negb_true_iff.
  - apply L, nle_unset_node.
  - apply L, nle_update_nodes. now apply negb_true_iff.
  - apply L, nle_update_node_props. exact Hsc.
  - apply L, nle_with_link.
  - apply L, nle_with_link.
  - apply L, nle_with_link.
  - apply L, nle_merge; [exact Hnd|]. destruct pol as [p|]; [|exact I].
    apply andb_true_iff in Hsc as [H1 H2]. apply negb_true_iff in H1, H2. now split.
Qed.

Lemma NUniq_empty : NUniq empty_nxg.
Proof. intros g n. unfold cnt. simpl. lia. Qed.

Theorem NUniq_run ops : forall s,
  SInv s -> (forall o, In o ops -> nid_scope o = true) -> NUniq (sg s) -> NUniq (sg (srun ops s)).
Proof.
  induction ops as [|o r IH]; intros s HI Hsc HU; simpl; [exact HU|].
  apply IH; [now apply SInv_step | intros; apply Hsc; now right | apply NUniq_step; auto; apply Hsc; now left].
Qed.

Theorem nodeid_unique_all ops :
  (forall o, In o ops -> nid_scope o = true) ->
  forall g n, (length (search (sg (srun ops init_store)) [(k_nodeid, n); (k_graphid, g)]) <= 1)%nat.
Proof.
  intros H g n. rewrite search_P. apply (NUniq_run ops init_store SInv_init H NUniq_empty).
Qed.

(* ---------- the invariant, one nx.Graph per id ---------- *)
Definition DUniq (d : dstore) : Prop := forall g, NUniq (dget d g).

Lemma DUniq_put d g G : DUniq d -> NUniq G -> DUniq (dput d g G).
Proof. intros H HG g'. rewrite dget_dput. destruct (N.eqb g' g); [exact HG | apply H]. Qed.

Lemma NUniq_fresh_graph g ns es :
  map fst ns = seqN 1 (length ns) -> (forall nd, In nd ns -> has_val (snd nd) k_graphid g = true) ->
  nodupb (pv_nodeids ns) = true -> NUniq (nx_add_all empty_nxg ns es).
Proof.
  intros Hfst Hg Hu.
  change empty_nxg with (nx_remove_nodes empty_nxg (search empty_nxg [(k_graphid, g)])).
  apply NUniq_import; [rewrite Hfst; apply seqN_NoDup | intros i _ [] | exact Hg | exact Hu | exact NUniq_empty].
Qed.

Lemma DUniq_add_graph d g ig : import_unique ig = true -> DUniq d -> DUniq (fst (d_add_graph d g ig)).
Proof.
  intros Hu H. unfold d_add_graph. destruct (gn (dget d g)); [|exact H].
  destruct (existsb node_id_missing (inodes (relabel ig 1))); cbn [fst]; [exact H|].
  intro g'. rewrite dget_dput_ctr. apply DUniq_put; [exact H|].
  apply (NUniq_fresh_graph g).
  - rewrite map_fst_stamp. unfold stamp. rewrite map_length. apply relabel_inodes_fst.
  - apply stamp_in_g.
  - rewrite pv_nodeids_stamp. unfold relabel. simpl. rewrite pv_nodeids_relabel. exact Hu.
Qed.

Theorem DUniq_step d o :
  DInv d -> nid_scope o = true -> (forall g, forallb (in_g g) (gn (dget d g)) = true) ->
  DUniq d -> DUniq (fst (dstep d o)).
Proof.
  intros HI Hsc Hhome HU.
  assert (L : forall g x, nle (fst x) (dget d g) -> DUniq (fst (dlift d g x))).
  { intros g x H. unfold dlift. simpl. apply DUniq_put; [exact HU|]. eapply NUniq_nle; eauto. }
  destruct o; simpl in Hsc; simpl; try exact HU.
  - now apply DUniq_add_graph.
  - apply andb_true_iff in Hsc as [H1 H2]. unfold d_add_graph_direct. cbn [fst].
    intro g'. rewrite dget_dput_ctr. apply DUniq_put; [exact HU|]. apply (NUniq_fresh_graph g).
    + apply relabel_inodes_fst.
    + intros nd Hn. unfold relabel in Hn. simpl in Hn.
      assert (exists k, In (k, snd nd) (inodes ig)) as [k Hk].
      { clear -Hn. revert Hn. generalize 1. induction (inodes ig) as [|[k ps] r IH]; intros f Hn; simpl in *; [contradiction|].
        destruct Hn as [Hn|Hn]; [subst nd; exists k; now left | destruct (IH _ Hn) as [k' Hk']; exists k'; now right]. }
      rewrite forallb_forall in H2. apply (H2 _ Hk).
    + unfold relabel. simpl. rewrite pv_nodeids_relabel. exact H1.
  - unfold d_del_graph. destruct (gn (dget d g)); [exact HU|]. apply DUniq_put; [exact HU | exact NUniq_empty].
  - destruct (d_clone_cases d g g2) as [[_ E]|[_ E]]; rewrite E; [exact HU|]. apply DUniq_add_graph; [|exact HU].
    unfold import_unique, d_extract. cbn [inodes]. apply count_le1_nodupb. intro n.
    rewrite (pv_count_le_cnt g).
    + apply HU.
    + intros nd Hin. specialize (Hhome g). rewrite forallb_forall in Hhome. apply (Hhome nd Hin).
  - destruct (pg_add_node (dget d g) g (dcounter d g) n c ps) as [G'|] eqn:E; simpl; [|exact HU].
    intro g'. rewrite dget_dput_ctr. apply DUniq_put; [exact HU|].
    eapply NUniq_add_node; [| |apply HU|exact E].
    + destruct (HI g) as [_ Hlt]. simpl in Hlt. unfold nx_node. apply aget_None_notin. intro Hin. apply Hlt in Hin. lia.
    + destruct ps; [exact Hsc | exact I].
  - apply L, nle_delete_node.
  - apply L, nle_add_link.
  - apply L, nle_update_node. now apply negb_true_iff.
  - apply L, nle_unset_node.
  - apply L, nle_update_nodes. now apply negb_true_iff.
  - apply L, nle_update_node_props. exact Hsc.
  - apply L, nle_with_link.
  - apply L, nle_with_link.
  - apply L, nle_with_link.
Qed.

(* every node stored under graph id g carries GraphID = g (one-graph-per-id store, inside the scope) *)
Definition homed (g : N) (G : nxg) : Prop := forallb (in_g g) (gn G) = true.
Definition DHome (d : dstore) : Prop := forall g, homed g (dget d g).

Lemma homed_same_gn g G' G : gn G' = gn G -> homed g G -> homed g G'.
Proof. unfold homed. intros E H. now rewrite E. Qed.

Lemma homed_set_node g G id ps ps' :
  nx_node G id = Some ps -> keeps_identity ps ps' -> homed g G -> homed g (nx_set_node G id ps').
Proof.
  unfold homed, nx_node, nx_set_node. simpl. intros Hn Hk H.
  induction (gn G) as [|[i q] r IH]; simpl in *; [reflexivity|].
  apply andb_true_iff in H as [H1 H2]. rewrite N.eqb_sym in Hn. destruct (N.eqb i id) eqn:E; simpl.
  - inversion Hn; subst q. rewrite H2, andb_true_r. unfold in_g in *. simpl in *.
    destruct (Hk g) as [_ Hg]. now rewrite Hg.
  - rewrite H1. simpl. now apply IH.
Qed.

Lemma homed_filter g G (h : node -> bool) es : homed g G -> homed g (mkG (filter h (gn G)) es).
Proof.
  unfold homed. simpl. intro H. rewrite forallb_forall in *. intros x Hx. apply filter_In in Hx as [Hx _]. now apply H.
Qed.

Lemma homed_pg_ops g G :
  homed g G ->
  (forall n p v, ident_key p = false -> homed g (fst (pg_update_node G g n p v))) /\
  (forall n p, homed g (fst (pg_unset_node G g n p))) /\
  (forall p v, ident_key p = false -> homed g (fst (pg_update_nodes G g p v))) /\
  (forall n u, ident_free u = true -> homed g (fst (pg_update_node_props G g n u))) /\
  (forall a b k gd f, homed g (fst (with_link G g a b k gd f))) /\
  (forall a r b ps, homed g (fst (pg_add_link G g a r b ps))) /\
  (forall n, homed g (fst (pg_delete_node G g n))).
Proof.
  intro H. repeat split.
  - intros n p v Hp. apply orb_false_iff in Hp as [H1 H2]. unfold pg_update_node.
    destruct (N.eqb p k_class); [exact H|]. destruct (find_node G g n) as [id|]; [|exact H].
    destruct (nx_node G id) as [ps|] eqn:En; [|exact H]. simpl.
    eapply homed_set_node; eauto. now apply keeps_identity_aset.
  - intros n p. unfold pg_unset_node. destruct (N.eqb p k_class); [exact H|].
    destruct (memN p no_unset) eqn:Em; [exact H|]. destruct (find_node G g n) as [id|]; [|exact H].
    destruct (nx_node G id) as [ps|] eqn:En; [|exact H]. simpl.
    eapply homed_set_node; eauto. now apply keeps_identity_aremove.
  - intros p v Hp. apply orb_false_iff in Hp as [H1 H2]. unfold pg_update_nodes.
    destruct (find_all G g) as [l|]; [|exact H]. destruct (N.eqb p k_class); [exact H|]. simpl.
    unfold homed in *. simpl. unfold upd_nodes. rewrite forallb_forall in *. intros x Hx.
    apply in_map_iff in Hx as [[i ps] [E Hin]]. subst x. specialize (H _ Hin). cbn [fst snd].
    destruct (memN i l); [|exact H]. unfold in_g in *. simpl in *.
    rewrite has_val_aset_other; [exact H | now apply N.eqb_neq].
  - intros n u Hu. apply andb_true_iff in Hu as [H1 H2]. apply negb_true_iff in H1, H2.
    unfold pg_update_node_props. destruct (ahas k_class u); [exact H|].
    destruct (find_node G g n) as [id|]; [|exact H].
    destruct (nx_node G id) as [ps|] eqn:En; [|exact H]. simpl.
    eapply homed_set_node; eauto. now apply keeps_identity_aupdate.
  - intros a b k gd f. unfold with_link. destruct gd; [exact H|].
    destruct (find_link G g a b) as [[[ia ib] ps]|]; [|exact H].
    destruct (has_val ps k_class k); [|exact H]. simpl. now apply (homed_same_gn g _ G).
  - intros a r b ps. unfold pg_add_link.
    destruct (find_node G g a); [|exact H]. destruct (find_node G g b); [|exact H].
    assert (K : forall x y at_, homed g (nx_add_edge G x y at_)).
    { intros. apply (homed_same_gn g _ G); [|exact H]. unfold nx_add_edge. now destruct (nx_edge G x y). }
    destruct ps as [u|]; simpl; [destruct (ahas k_class u); simpl; [exact H|]|]; apply K.
  - intro n. unfold pg_delete_node. destruct (find_node G g n); [|exact H]. simpl.
    unfold nx_remove_node. now apply homed_filter.
Qed.

Lemma homed_fresh_graph g ns es :
  NoDup (map fst ns) -> (forall nd, In nd ns -> has_val (snd nd) k_graphid g = true) ->
  homed g (nx_add_all empty_nxg ns es).
Proof.
  intros Hnd Hg. unfold homed, nx_add_all. rewrite fold_add_edges_gn.
  rewrite add_nodes_fresh; [|exact Hnd | intros i _ []]. simpl. apply forallb_forall. intros x Hx. now apply Hg.
Qed.

Lemma DHome_put d g G : DHome d -> homed g G -> DHome (dput d g G).
Proof.
  intros H HG g'. rewrite dget_dput. destruct (N.eqb g' g) eqn:E; [apply N.eqb_eq in E; now subst | apply H].
Qed.

Lemma relabel_snd_in ig f nd : In nd (inodes (relabel ig f)) -> exists k, In (k, snd nd) (inodes ig).
Proof.
  unfold relabel. simpl. revert f. induction (inodes ig) as [|[k ps] r IH]; intros f Hn; simpl in *; [contradiction|].
  destruct Hn as [Hn|Hn]; [subst nd; exists k; now left | destruct (IH _ Hn) as [k' Hk']; exists k'; now right].
Qed.

(* what "every node stored under g carries GraphID = g" needs of an operation *)
Definition home_scope (o : op) : bool :=
  match o with
  | OImport _ _ | OMerge _ _ _ _ => true
  | OImportDirect g ig => forallb (fun n => has_val (snd n) k_graphid g) (inodes ig)
  | _ => nid_scope o
  end.

Lemma nid_home_scope o : nid_scope o = true -> home_scope o = true.
Proof.
  destruct o; cbn; auto. intro H. now apply andb_true_iff in H as [_ H].
Qed.

Theorem DHome_step d o : DInv d -> home_scope o = true -> DHome d -> DHome (fst (dstep d o)).
Proof.
  intros HI Hsc H.
  assert (Hadd : forall g ig, DHome (fst (d_add_graph d g ig))).
  { intros g ig. unfold d_add_graph. destruct (gn (dget d g)); [|exact H].
    destruct (existsb node_id_missing (inodes (relabel ig 1))); cbn [fst]; [exact H|].
    intro g'. rewrite dget_dput_ctr. apply DHome_put; [exact H|]. apply homed_fresh_graph.
    - rewrite map_fst_stamp, relabel_inodes_fst. apply seqN_NoDup.
    - apply stamp_in_g. }
  destruct o; simpl in Hsc; simpl; try exact H.
  - apply Hadd.
  - pose proof Hsc as H2. unfold d_add_graph_direct. cbn [fst].
    intro g'. rewrite dget_dput_ctr. apply DHome_put; [exact H|]. apply homed_fresh_graph.
    + change (NoDup (map fst (inodes (relabel ig 1)))). rewrite relabel_inodes_fst. apply seqN_NoDup.
    + intros nd Hn. apply (relabel_snd_in ig 1) in Hn as [k Hk]. rewrite forallb_forall in H2. apply (H2 _ Hk).
  - unfold d_del_graph. destruct (gn (dget d g)); [exact H|]. apply DHome_put; [exact H | reflexivity].
  - destruct (d_clone_cases d g g2) as [[_ E]|[_ E]]; rewrite E; [exact H | apply Hadd].
  - destruct (pg_add_node (dget d g) g (dcounter d g) n c ps) as [G'|] eqn:E; simpl; [|exact H].
    intro g'. rewrite dget_dput_ctr. apply DHome_put; [exact H|].
    unfold pg_add_node in E. destruct (search (dget d g) [(k_graphid, g); (k_nodeid, n)]); [|discriminate].
    assert (Hfresh : nx_node (dget d g) (dcounter d g) = None).
    { destruct (HI g) as [_ Hlt]. simpl in Hlt. unfold nx_node. apply aget_None_notin. intro Hin. apply Hlt in Hin. lia. }
    assert (E1 : nx_add_node (dget d g) (dcounter d g) (blank_attrs g n c)
                 = mkG (gn (dget d g) ++ [(dcounter d g, blank_attrs g n c)]) (ge (dget d g))).
    { unfold nx_add_node. now rewrite Hfresh. }
    assert (H1 : homed g (mkG (gn (dget d g) ++ [(dcounter d g, blank_attrs g n c)]) (ge (dget d g)))).
    { unfold homed. simpl. rewrite forallb_app. rewrite (H g). simpl. rewrite andb_true_r.
      unfold in_g. simpl. apply blank_in_g. }
    rewrite E1 in E. destruct ps as [u|]; [|inversion E; subst; exact H1].
    destruct (nx_node (mkG (gn (dget d g) ++ [(dcounter d g, blank_attrs g n c)]) (ge (dget d g))) (dcounter d g)) as [q|] eqn:Eq;
      inversion E; subst; [|exact H1].
    apply andb_true_iff in Hsc as [Hp1 Hp2]. apply negb_true_iff in Hp1, Hp2.
    eapply homed_set_node; eauto. now apply keeps_identity_aupdate.
  - unfold dlift. simpl. apply DHome_put; [exact H | apply (homed_pg_ops g _ (H g))].
  - unfold dlift. simpl. apply DHome_put; [exact H | apply (homed_pg_ops g _ (H g))].
  - unfold dlift. simpl. apply DHome_put; [exact H | apply (homed_pg_ops g _ (H g)); now apply negb_true_iff].
  - unfold dlift. simpl. apply DHome_put; [exact H | apply (homed_pg_ops g _ (H g))].
  - unfold dlift. simpl. apply DHome_put; [exact H | apply (homed_pg_ops g _ (H g)); now apply negb_true_iff].
  - unfold dlift. simpl. apply DHome_put; [exact H | apply (homed_pg_ops g _ (H g)); exact Hsc].
  - unfold dlift. simpl. apply DHome_put; [exact H | apply (homed_pg_ops g _ (H g))].
  - unfold dlift. simpl. apply DHome_put; [exact H | apply (homed_pg_ops g _ (H g))].
  - unfold dlift. simpl. apply DHome_put; [exact H | apply (homed_pg_ops g _ (H g))].
Qed.

Theorem disjoint_invariants_run ops : forall d,
  (forall o, In o ops -> nid_scope o = true) -> DInv d -> DHome d -> DUniq d ->
  DInv (drun ops d) /\ DHome (drun ops d) /\ DUniq (drun ops d).
Proof.
  induction ops as [|o r IH]; intros d Hsc HI HH HU; simpl; [auto|].
  assert (Ho : nid_scope o = true) by (apply Hsc; now left).
  apply IH.
  - intros; apply Hsc; now right.
  - now apply DInv_step.
  - apply DHome_step; auto. now apply nid_home_scope.
  - apply DUniq_step; auto; intro g; apply HH.
Qed.

Theorem nodeid_unique_all_disjoint ops :
  (forall o, In o ops -> nid_scope o = true) ->
  forall g n, (length (search (dget (drun ops init_dstore) g) [(k_nodeid, n); (k_graphid, g)]) <= 1)%nat.
Proof.
  intros H g n. rewrite search_P.
  destruct (disjoint_invariants_run ops init_dstore H DInv_init) as [_ [_ HU]].
  - intro g0. reflexivity.
  - intro g0. apply NUniq_empty.
  - apply HU.
Qed.

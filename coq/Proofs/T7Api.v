(* C07 - the building calls of Model/T7Ops.v keep the invariant WF: symbolic execution of the monadic programs
   down to the unit mutations of Model/T7Steps.v, whose side conditions follow from the guards of the code. *)
From Coq Require Import String List NArith ZArith Bool Arith Lia.
From FIM Require Import Base.Str Gen.Rules Model.T7Graph Model.T7Ops Model.T7WF Model.T7Steps
     Proofs.T7Tables Proofs.T7WFRefl Proofs.T7Frame Proofs.T7Units.
Import ListNotations.

(* ---- inversion of the monad -------------------------------------------------------------------------- *)
Lemma bind_inv {A B} (m : M A) (f : A -> M B) s s' r :
  bind m f s = (s', r) ->
  (exists s1 a, m s = (s1, Ok a) /\ f a s1 = (s', r)) \/ (exists e, m s = (s', Err e) /\ r = Err e).
Proof.
  unfold bind. destruct (m s) as [s1 [a|e]]; intro H.
  - left. eauto.
  - right. inversion H; subst. eauto.
Qed.
Lemma ret_inv {A} (a : A) s s' r : ret a s = (s', r) -> s' = s /\ r = Ok a.
Proof. unfold ret. intro H. inversion H. auto. Qed.
Lemma raise_inv {A} e s s' (r : res A) : raise e s = (s', r) -> s' = s /\ r = Err e.
Proof. unfold raise. intro H. inversion H. auto. Qed.
Lemma guard_inv b e s s' r : guard b e s = (s', r) -> s' = s /\ ((b = true /\ r = Ok tt) \/ (b = false /\ r = Err e)).
Proof. unfold guard. destruct b; intro H; [apply ret_inv in H | apply raise_inv in H]; destruct H; subst; auto. Qed.
Lemma getg_inv s s' r : getg s = (s', r) -> s' = s /\ r = Ok (sg s).
Proof. unfold getg. intro H. inversion H. auto. Qed.
Lemma putg_inv g s s' r : putg g s = (s', r) -> sg s' = g /\ r = Ok tt.
Proof. unfold putg. intro H. inversion H. auto. Qed.

(* computations that only read the graph *)
Definition reads {A} (m : M A) : Prop := forall s s' r, m s = (s', r) -> sg s' = sg s.
Lemma reads_ret {A} (a : A) : reads (ret a).
Proof. intros s s' r H. apply ret_inv in H as [-> _]. reflexivity. Qed.
Lemma reads_raise {A} e : reads (@raise A e).
Proof. intros s s' r H. apply raise_inv in H as [-> _]. reflexivity. Qed.
Lemma reads_bind {A B} (m : M A) (f : A -> M B) : reads m -> (forall a, reads (f a)) -> reads (bind m f).
Proof.
  intros Hm Hf s s' r H. apply bind_inv in H as [[s1 [a [H1 H2]]]|[e [H1 _]]].
  - rewrite (Hf _ _ _ _ H2). eapply Hm; eauto.
  - eapply Hm; eauto.
Qed.
Lemma reads_guard b e : reads (guard b e).
Proof. intros s s' r H. apply guard_inv in H as [-> _]. reflexivity. Qed.
Lemma reads_getg : reads getg.
Proof. intros s s' r H. apply getg_inv in H as [-> _]. reflexivity. Qed.
Lemma reads_draw : reads draw.
Proof. intros s s' r H. unfold draw in H. destruct (sdr s); inversion H; reflexivity. Qed.
Lemma reads_id_or_draw o : reads (id_or_draw o).
Proof. destruct o; [apply reads_ret | apply reads_draw]. Qed.
Lemma reads_find1 x : reads (find1 x).
Proof. unfold find1. apply reads_bind; [apply reads_getg|]. intro g. destruct (find_nodes g x) as [|n [|? ?]]; try apply reads_raise. apply reads_ret. Qed.
Lemma reads_check_name k s : reads (check_name k s).
Proof. apply reads_guard. Qed.
Lemma reads_check_node_unique k n : reads (check_node_unique k n).
Proof. unfold check_node_unique. apply reads_bind; [apply reads_getg | intro; apply reads_ret]. Qed.
Lemma reads_q_first_nb x r k : reads (q_first_nb x r k).
Proof. unfold q_first_nb. apply reads_bind; [apply reads_find1|]. intro. apply reads_bind; [apply reads_getg | intro; apply reads_ret]. Qed.
Lemma reads_need k x : reads (need k x).
Proof. unfold need. apply reads_bind; [apply reads_getg | intro; apply reads_guard]. Qed.
Lemma reads_check_class x ks : reads (check_class x ks).
Proof. unfold check_class. apply reads_bind; [apply reads_find1 | intro; apply reads_guard]. Qed.
Lemma reads_mapM {A B} (f : A -> M B) l : (forall a, reads (f a)) -> reads (mapM f l).
Proof.
  intro H. induction l as [|a l IH]; simpl; [apply reads_ret|].
  apply reads_bind; [apply H|]. intro. apply reads_bind; [exact IH | intro; apply reads_ret].
Qed.
Lemma reads_for_each {A} (l : list A) (f : A -> M unit) : (forall a, reads (f a)) -> reads (for_each l f).
Proof.
  intro H. induction l as [|a l IH]; simpl; [apply reads_ret|]. apply reads_bind; [apply H | intro; exact IH].
Qed.
Lemma reads_name_prop n : reads (name_prop n).
Proof. unfold name_prop. destruct (nname n); [apply reads_ret | apply reads_raise]. Qed.
Lemma reads_type_is x t : reads (type_is x t).
Proof. unfold type_is, type_of_handle. apply reads_bind; [|intro; apply reads_ret]. apply reads_bind; [apply reads_find1 | intro; apply reads_ret]. Qed.

(* values *)
Lemma find1_val x s s' n : find1 x s = (s', Ok n) -> s' = s /\ find_nodes (sg s) x = [n].
Proof.
  unfold find1. intro H. apply bind_inv in H as [[s1 [g [H1 H2]]]|[e [_ H]]]; [|discriminate].
  apply getg_inv in H1 as [-> H1]. inversion H1; subst g. destruct (find_nodes (sg s) x) as [|m [|? ?]].
  - apply raise_inv in H2 as [_ H2]. discriminate.
  - apply ret_inv in H2 as [-> H2]. inversion H2. auto.
  - apply raise_inv in H2 as [_ H2]. discriminate.
Qed.
Lemma getg_val s s' g : getg s = (s', Ok g) -> s' = s /\ g = sg s.
Proof. intro H. apply getg_inv in H as [-> H]. inversion H. auto. Qed.
Lemma guard_ok_val b e s s' : guard b e s = (s', Ok tt) -> s' = s /\ b = true.
Proof. intro H. apply guard_inv in H as [-> [[H _]|[_ H]]]; [auto | discriminate]. Qed.
Lemma q_first_nb_val x r k s s' l : q_first_nb x r k s = (s', Ok l) -> s' = s /\ l = first_nb (sg s) x r k /\ has_id (sg s) x = true.
Proof.
  unfold q_first_nb. intro H. apply bind_inv in H as [[s1 [n [H1 H2]]]|[e [_ H]]]; [|discriminate].
  apply find1_val in H1 as [-> H1]. apply bind_inv in H2 as [[s2 [g [H2 H3]]]|[e [_ H]]]; [|discriminate].
  apply getg_val in H2 as [-> ->]. apply ret_inv in H3 as [-> H3]. inversion H3. split; [reflexivity|]. split; [reflexivity|].
  apply has_id_In. exists n. assert (Hin : In n (find_nodes (sg s) x)) by (rewrite H1; left; reflexivity).
  unfold find_nodes in Hin. apply filter_In in Hin as [A B]. apply str_eqb_eq in B. auto.
Qed.
Lemma need_val k x s s' : need k x s = (s', Ok tt) -> s' = s /\ resolve (sg s) k x = true.
Proof.
  unfold need. intro H. apply bind_inv in H as [[s1 [g [H1 H2]]]|[e [_ H]]]; [|discriminate].
  apply getg_val in H1 as [-> ->]. apply guard_ok_val in H2. exact H2.
Qed.
Lemma check_class_val x ks s s' : check_class x ks s = (s', Ok tt) -> s' = s /\ exists n, find_nodes (sg s) x = [n] /\ existsb (cls_eqb (ncls n)) ks = true.
Proof.
  unfold check_class, props. intro H. apply bind_inv in H as [[s1 [n [H1 H2]]]|[e [_ H]]]; [|discriminate].
  apply find1_val in H1 as [-> H1]. apply guard_ok_val in H2 as [-> H2]. eauto.
Qed.

(* primitive mutations *)
Lemma add_node_inv n s s' r :
  add_node n s = (s', r) ->
  (r = Ok tt /\ has_id (sg s) (nid n) = false /\ sg s' = g_add_node (sg s) n) \/ (exists e, r = Err e /\ sg s' = sg s).
Proof.
  unfold add_node. intro H. apply bind_inv in H as [[s1 [g [H1 H2]]]|[e [H1 _]]].
  - apply getg_val in H1 as [-> ->]. apply bind_inv in H2 as [[s2 [[] [H2 H3]]]|[e [H2 Hr]]].
    + apply guard_ok_val in H2 as [-> H2]. apply negb_true_iff in H2. apply putg_inv in H3 as [H3 ->]. left. auto.
    + apply guard_inv in H2 as [-> _]. right. eauto.
  - apply getg_inv in H1 as [_ H1]. discriminate.
Qed.
Lemma add_link_inv a rl b s s' r :
  add_link a rl b s = (s', r) ->
  (r = Ok tt /\ has_id (sg s) a = true /\ has_id (sg s) b = true /\ sg s' = g_add_edge (sg s) a rl b) \/ (exists e, r = Err e /\ sg s' = sg s).
Proof.
  unfold add_link. intro H. apply bind_inv in H as [[s1 [na [H1 H2]]]|[e [H1 Hr]]].
  - apply find1_val in H1 as [-> H1]. apply bind_inv in H2 as [[s2 [nb [H2 H3]]]|[e [H2 Hr]]].
    + apply find1_val in H2 as [-> H2]. apply bind_inv in H3 as [[s3 [g [H3 H4]]]|[e [H3 _]]].
      * apply getg_val in H3 as [-> ->]. apply putg_inv in H4 as [H4 ->]. left.
        repeat split; auto; apply has_id_In.
        -- exists na. assert (Hin : In na (find_nodes (sg s) a)) by (rewrite H1; left; reflexivity).
           unfold find_nodes in Hin. apply filter_In in Hin as [A B]. apply str_eqb_eq in B. auto.
        -- exists nb. assert (Hin : In nb (find_nodes (sg s) b)) by (rewrite H2; left; reflexivity).
           unfold find_nodes in Hin. apply filter_In in Hin as [A B]. apply str_eqb_eq in B. auto.
      * apply getg_inv in H3 as [_ H3]. discriminate.
    + right. exists e. split; [exact Hr|]. eapply reads_find1; eauto.
  - right. exists e. split; [exact Hr|]. eapply reads_find1; eauto.
Qed.
Lemma update_node_inv x f s s' r :
  update_node x f s = (s', r) ->
  (r = Ok tt /\ sg s' = g_update (sg s) x f) \/ (exists e, r = Err e /\ sg s' = sg s).
Proof.
  unfold update_node. intro H. apply bind_inv in H as [[s1 [na [H1 H2]]]|[e [H1 Hr]]].
  - apply find1_val in H1 as [-> H1]. apply bind_inv in H2 as [[s3 [g [H3 H4]]]|[e [H3 _]]].
    + apply getg_val in H3 as [-> ->]. apply putg_inv in H4 as [H4 ->]. left. auto.
    + apply getg_inv in H3 as [_ H3]. discriminate.
  - right. exists e. split; [exact Hr|]. eapply reads_find1; eauto.
Qed.
Lemma delete_node_inv x s s' r :
  delete_node x s = (s', r) ->
  (r = Ok tt /\ sg s' = g_del_node (sg s) x) \/ (exists e, r = Err e /\ sg s' = sg s).
Proof.
  unfold delete_node. intro H. apply bind_inv in H as [[s1 [na [H1 H2]]]|[e [H1 Hr]]].
  - apply find1_val in H1 as [-> H1]. apply bind_inv in H2 as [[s3 [g [H3 H4]]]|[e [H3 _]]].
    + apply getg_val in H3 as [-> ->]. apply putg_inv in H4 as [H4 ->]. left. auto.
    + apply getg_inv in H3 as [_ H3]. discriminate.
  - right. exists e. split; [exact Hr|]. eapply reads_find1; eauto.
Qed.

(* when a reading prefix is followed by a continuation *)
Lemma bind_reads {A B} (m : M A) (f : A -> M B) s s' r :
  reads m -> bind m f s = (s', r) ->
  (exists s1 a, m s = (s1, Ok a) /\ sg s1 = sg s /\ f a s1 = (s', r)) \/ (exists e, r = Err e /\ sg s' = sg s).
Proof.
  intros Hm H. apply bind_inv in H as [[s1 [a [H1 H2]]]|[e [H1 Hr]]].
  - left. exists s1, a. split; [exact H1|]. split; [eapply Hm; eauto | exact H2].
  - right. exists e. split; [exact Hr | eapply Hm; eauto].
Qed.

Create HintDb reads.
#[export] Hint Resolve reads_ret reads_raise reads_guard reads_getg reads_draw reads_id_or_draw reads_find1 reads_check_name
  reads_check_node_unique reads_q_first_nb reads_need reads_check_class reads_name_prop reads_type_is : reads.
#[export] Hint Extern 2 (reads (bind _ _)) => apply reads_bind; [|intro] : reads.
#[export] Hint Extern 2 (reads (mapM _ _)) => apply reads_mapM; intro : reads.
#[export] Hint Extern 2 (reads (for_each _ _)) => apply reads_for_each; intro : reads.
#[export] Hint Extern 1 (reads props) => unfold props : reads.
#[export] Hint Extern 1 (reads (props _)) => unfold props : reads.

Lemma nodes_named_nil_free g k name : nodes_named g k name = [] -> name_free g k (Some name) = true.
Proof.
  unfold nodes_named, name_free. induction (gnodes g) as [|n l IH]; simpl; [reflexivity|].
  destruct (cls_eqb (ncls n) k && ostr_eqb (nname n) (Some name)); [discriminate|]. simpl. exact IH.
Qed.

Lemma guard_ok_val' b e s s' (u : unit) : guard b e s = (s', Ok u) -> s' = s /\ b = true.
Proof. destruct u. apply guard_ok_val. Qed.
Lemma check_node_unique_val k name s s' u :
  check_node_unique k name s = (s', Ok u) -> s' = s /\ (u = true -> name_free (sg s) k (Some name) = true).
Proof.
  unfold check_node_unique. intro H. apply bind_inv in H as [[sx [g0 [Hx Hy]]]|[e [_ Hx]]]; [|discriminate].
  apply getg_val in Hx as [-> ->]. apply ret_inv in Hy as [-> Hy]. inversion Hy as [Hu]. split; [reflexivity|].
  intro E. rewrite E in Hu. apply nodes_named_nil_free.
  destruct (nodes_named (sg s) k name); [reflexivity | discriminate].
Qed.

(* peel a reading prefix off H : bind m f s = (s', r); the failure branch closes with the unchanged graph;
   afterwards every fact is about the current state *)
Ltac peel H W :=
  apply bind_reads in H; [| solve [auto 8 with reads]];
  let s1 := fresh "s" in let a := fresh "a" in let Hm := fresh "Hm" in let Hg := fresh "Hg" in
  let e := fresh "e" in let Hr := fresh "Hr" in
  destruct H as [[s1 [a [Hm [Hg H]]]] | [e [Hr Hg]]]; [| rewrite Hg; exact W];
  first [ apply getg_val in Hm; destruct Hm as [-> ->]; clear Hg
        | apply guard_ok_val' in Hm; destruct Hm as [-> Hm]; clear Hg
        | apply check_node_unique_val in Hm; destruct Hm as [-> Hm]; clear Hg
        | apply q_first_nb_val in Hm; destruct Hm as [-> [-> Hm]]; clear Hg
        | apply need_val in Hm; destruct Hm as [-> Hm]; clear Hg
        | apply check_class_val in Hm; destruct Hm as [-> Hm]; clear Hg
        | apply find1_val in Hm; destruct Hm as [-> Hm]; clear Hg
        | rewrite <- Hg in *; clear Hg ].

Lemma type_allowed_vocab k t id name lab : type_allowed k t = true -> vocab_ok (mkNode id k (Some t) (Some name) lab) = true.
Proof. unfold type_allowed, vocab_ok, vocab_ok_in. simpl. auto. Qed.

(* Topology.add_node *)
Lemma api_add_node sub name nid ntype s s' r :
  WF (sg s) -> type_allowed KNode ntype = true ->
  t_add_node sub name nid ntype s = (s', r) -> WF (sg s').
Proof.
  intros W T H. unfold t_add_node in H.
  peel H W. peel H W. peel H W. peel H W. peel H W. peel H W. peel H W.
  apply bind_inv in H as [[s6 [[] [H1 H2]]]|[e [H1 _]]].
  - apply add_node_inv in H1 as [[_ [Hf Hg']]|[e [He _]]]; [|discriminate].
    apply ret_inv in H2 as [-> _]. rewrite Hg'.
    assert (V : vocab_ok (mk a1 KNode (Some ntype) name false) = true) by exact T.
    apply WF_add_plain; [exact W|]. unfold plain_ok, fresh, new_node_ok. rewrite V, Hf. simpl. auto.
  - apply add_node_inv in H1 as [[H1 _]|[e' [_ Hg']]]; [discriminate|]. rewrite Hg'. exact W.
Qed.

(* ---- primitives that cannot fail ------------------------------------------------------------------------ *)
Lemma find_nodes_single g x : NoDup (map nid (gnodes g)) -> has_id g x = true -> exists n, find_nodes g x = [n].
Proof.
  intros ND H. apply has_id_In in H as [n [Hn E]]. exists n. rewrite <- E. apply find_nodes_unique; assumption.
Qed.
Lemma find1_ok x s : NoDup (map nid (gnodes (sg s))) -> has_id (sg s) x = true -> exists n, find1 x s = (s, Ok n).
Proof.
  intros ND H. destruct (find_nodes_single _ _ ND H) as [n E]. exists n. unfold find1, bind, getg. rewrite E. reflexivity.
Qed.
Lemma add_link_ok a rl b s :
  NoDup (map nid (gnodes (sg s))) -> has_id (sg s) a = true -> has_id (sg s) b = true ->
  add_link a rl b s = (mkSt (g_add_edge (sg s) a rl b) (sdr s), Ok tt).
Proof.
  intros ND Ha Hb. destruct (find1_ok a s ND Ha) as [na E1]. destruct (find1_ok b s ND Hb) as [nb E2].
  unfold add_link, bind. rewrite E1, E2. reflexivity.
Qed.
Lemma add_link_inv_ok a rl b s s' r :
  NoDup (map nid (gnodes (sg s))) -> has_id (sg s) a = true -> has_id (sg s) b = true ->
  add_link a rl b s = (s', r) -> r = Ok tt /\ sg s' = g_add_edge (sg s) a rl b.
Proof. intros ND Ha Hb H. rewrite (add_link_ok _ _ _ _ ND Ha Hb) in H. inversion H. auto. Qed.

Lemma nodup_add_node g n : NoDup (map nid (gnodes g)) -> has_id g (nid n) = false -> NoDup (map nid (gnodes (g_add_node g n))).
Proof. intros ND H. simpl. rewrite map_app. simpl. apply NoDup_snoc; [exact ND | apply has_id_false_notin; exact H]. Qed.

Lemma name_in_sibling g name ss a r k :
  ss = first_nb g a r k -> negb (name_in g name ss) = true -> sibling_free g a r k (Some name) = true.
Proof.
  intros -> H. apply negb_true_iff in H. unfold name_in, sibling_free in *.
  induction (first_nb g a r k) as [|j l IH]; simpl in *; [reflexivity|].
  apply orb_false_iff in H as [H1 H2]. rewrite H1. simpl. auto.
Qed.

(* element + owner edge, as the constructors do it: add_node then add_link *)
Lemma api_add_owned n a rl s s' r :
  WF (sg s) -> (has_id (sg s) (nid n) = false -> owned_ok (sg s) n a rl = true) ->
  bind (add_node n) (fun _ => add_link a rl (nid n)) s = (s', r) ->
  WF (sg s') /\ (r = Ok tt -> sg s' = add_owned (sg s) n a rl).
Proof.
  intros W OK H. apply bind_inv in H as [[s1 [[] [H1 H2]]]|[e [H1 Hr]]].
  - apply add_node_inv in H1 as [[_ [Hf Hg]]|[e [He _]]]; [|discriminate].
    specialize (OK Hf).
    assert (Ha : has_id (sg s) a = true).
    { unfold owned_ok in OK. repeat (apply andb_true_iff in OK as [OK ?]). eapply owner_shape_has_id; eauto. }
    apply add_link_inv_ok in H2.
    + destruct H2 as [-> Hg2]. rewrite Hg2, Hg. split; [|reflexivity]. apply WF_add_owned; assumption.
    + rewrite Hg. apply nodup_add_node; [apply (wf_ids _ W) | exact Hf].
    + rewrite Hg, has_id_add_node, Ha. reflexivity.
    + rewrite Hg, has_id_add_node, str_eqb_refl. apply orb_true_r.
  - apply add_node_inv in H1 as [[H1 _]|[e' [_ Hg]]]; [discriminate|]. rewrite Hg. split; [exact W|]. intro E0. congruence.
Qed.

(* NetworkService(NEW) without interfaces: top-level *)
Lemma api_new_service_top name sid nstype s s' r :
  WF (sg s) -> type_allowed KNS nstype = true ->
  new_service name sid nstype None s = (s', r) -> WF (sg s').
Proof.
  intros W T H. unfold new_service in H.
  peel H W. peel H W.
  apply bind_reads in H; [| solve [auto 8 with reads]].
  destruct H as [[s1 [a1 [Hm1 [Hg1 H]]]] | [e [Hr Hg]]]; [| rewrite Hg; exact W].
  apply bind_inv in Hm1 as [[s2 [u [Hu Hgu]]]|[e [_ Hx]]]; [|discriminate].
  apply check_node_unique_val in Hu as [-> Hu]. apply guard_ok_val' in Hgu as [-> Hgu]. clear Hg1.
  apply bind_inv in H as [[s6 [[] [H1 H2]]]|[e [H1 _]]].
  - apply add_node_inv in H1 as [[_ [Hf Hg']]|[e [He _]]]; [|discriminate].
    apply bind_inv in H2 as [[s7 [[] [H2 H3]]]|[e [H2 _]]].
    + apply ret_inv in H2 as [-> _]. apply ret_inv in H3 as [-> _]. rewrite Hg'.
      assert (V : vocab_ok (mk a KNS (Some nstype) name false) = true) by exact T.
      apply WF_add_plain; [exact W|]. unfold plain_ok, fresh, new_node_ok. rewrite V, Hf. simpl. auto.
    + apply ret_inv in H2 as [_ H2]. discriminate.
  - apply add_node_inv in H1 as [[H1 _]|[e' [_ Hg']]]; [discriminate|]. rewrite Hg'. exact W.
Qed.

(* ... under an owner p; the caller has checked the names of p's services *)
Lemma api_new_service_owned name sid nstype p s s' r :
  WF (sg s) -> type_allowed KNS nstype = true ->
  (cls_is (sg s) p KNode = true \/ cls_is (sg s) p KComposite = true \/ cls_is (sg s) p KComp = true) ->
  sibling_free (sg s) p Has KNS (Some name) = true ->
  new_service name sid nstype (Some p) s = (s', r) -> WF (sg s').
Proof.
  intros W T Hp SF H. unfold new_service in H.
  peel H W. peel H W.
  apply bind_inv in H as [[s1 [[] [H0 H]]]|[e [H0 _]]]; [|apply ret_inv in H0 as [_ H0]; discriminate].
  apply ret_inv in H0 as [-> _].
  (* add_node ;;; (add_link ;;; ret id)  -- regroup as (add_node ;;; add_link) *)
  apply bind_inv in H as [[s2 [[] [H1 H2]]]|[e [H1 _]]].
  - apply bind_inv in H2 as [[s3 [[] [H2 H3]]]|[e [H2 _]]].
    + apply ret_inv in H3 as [-> _].
      assert (HB : bind (add_node (mk a KNS (Some nstype) name false)) (fun _ => add_link p Has (nid (mk a KNS (Some nstype) name false))) s0 = (s3, Ok tt)).
      { unfold bind. rewrite H1. exact H2. }
      apply api_add_owned in HB; [tauto | exact W |]. intro Hf.
      assert (V : vocab_ok (mk a KNS (Some nstype) name false) = true) by exact T.
      unfold owned_ok, fresh, new_node_ok, owner_shape_ok. rewrite V, Hf. simpl. rewrite SF, andb_true_r.
      destruct Hp as [Hp|[Hp|Hp]]; rewrite Hp; simpl; try reflexivity; rewrite ?orb_true_r; reflexivity.
    + assert (HB : bind (add_node (mk a KNS (Some nstype) name false)) (fun _ => add_link p Has (nid (mk a KNS (Some nstype) name false))) s0 = (s', Err e)).
      { unfold bind. rewrite H1. exact H2. }
      apply api_add_owned in HB; [tauto | exact W |]. intro Hf.
      assert (V : vocab_ok (mk a KNS (Some nstype) name false) = true) by exact T.
      unfold owned_ok, fresh, new_node_ok, owner_shape_ok. rewrite V, Hf. simpl. rewrite SF, andb_true_r.
      destruct Hp as [Hp|[Hp|Hp]]; rewrite Hp; simpl; try reflexivity; rewrite ?orb_true_r; reflexivity.
  - apply add_node_inv in H1 as [[H1 _]|[e' [_ Hg']]]; [discriminate|]. rewrite Hg'. exact W.
Qed.

Lemma check_class_cls x ks s n :
  find_nodes (sg s) x = [n] -> existsb (cls_eqb (ncls n)) ks = true -> exists k, In k ks /\ cls_is (sg s) x k = true.
Proof.
  intros F E. apply existsb_exists in E as [k [Hk Ek]]. exists k. split; [exact Hk|].
  unfold cls_is, cls_of. rewrite F. exact Ek.
Qed.

(* Node.add_network_service *)
Lemma api_node_add_ns n name sid nstype s s' r :
  WF (sg s) -> type_allowed KNS nstype = true ->
  node_add_ns n name sid nstype s = (s', r) -> WF (sg s').
Proof.
  intros W T H. unfold node_add_ns in H.
  apply bind_reads in H; [| unfold nss_of; solve [auto 8 with reads]].
  destruct H as [[s1 [ss [Hm [Hg H]]]] | [e [Hr Hg]]]; [| rewrite Hg; exact W].
  unfold nss_of in Hm. apply bind_inv in Hm as [[s2 [[] [Hc Hq]]]|[e [_ Hx]]]; [|discriminate].
  apply check_class_val in Hc as [-> [m [Fm Em]]]. apply q_first_nb_val in Hq as [-> [-> _]]. clear Hg.
  peel H W. peel H W.
  destruct (check_class_cls _ _ _ _ Fm Em) as [k [Hk Hc]].
  eapply api_new_service_owned; eauto.
  - destruct Hk as [<-|[<-|[]]]; auto.
  - eapply name_in_sibling; eauto.
Qed.

(* Topology.add_network_service without interfaces *)
Lemma api_add_ns_nil fl sub name sid nstype s s' r :
  WF (sg s) -> type_allowed KNS nstype = true ->
  t_add_ns fl sub name sid nstype [] s = (s', r) -> WF (sg s').
Proof.
  intros W T H. unfold t_add_ns in H. apply bind_inv in H as [[s1 [id [H1 H2]]]|[e [H1 _]]].
  - simpl in H2. apply ret_inv in H2 as [-> _]. eapply api_new_service_top; eauto.
  - eapply api_new_service_top; eauto.
Qed.

(* ---- relabelling calls ----------------------------------------------------------------------------------- *)
Lemma api_update_node x f s s' r :
  WF (sg s) -> relabel_ok (sg s) x f = true -> update_node x f s = (s', r) -> WF (sg s').
Proof.
  intros W OK H. apply update_node_inv in H as [[_ Hg]|[e [_ Hg]]]; rewrite Hg; [|exact W].
  apply WF_relabel; assumption.
Qed.

Lemma wf_new_node_ok g n : WF g -> In n (gnodes g) -> new_node_ok n = true.
Proof.
  intros W Hn. unfold new_node_ok. apply andb_true_iff. split; [apply fields_ok_P; apply (wf_fields _ W); exact Hn | apply vocab_ok_P; apply (wf_vocab _ W); exact Hn].
Qed.

(* a relabelling that keeps id, class, type and name (only "Labels present" may change) is always admissible *)
Lemma relabel_ok_neutral g x f :
  WF g -> (forall n, nid (f n) = nid n /\ ncls (f n) = ncls n /\ ntyp (f n) = ntyp n /\ nname (f n) = nname n) ->
  relabel_ok g x f = true.
Proof.
  intros W Hf. unfold relabel_ok. apply forallb_forall. intros n Hn.
  destruct (str_eqb (nid n) x); [|reflexivity]. simpl.
  destruct (Hf n) as [A [B [C D]]]. rewrite A, B, C, D, str_eqb_refl, cls_eqb_refl.
  rewrite !(proj2 (ostr_eqb_eq _ _) eq_refl). simpl. rewrite ?andb_true_r.
  pose proof (wf_new_node_ok g n W Hn) as N. unfold new_node_ok, fields_ok, vocab_ok, vocab_ok_in in *. rewrite B, C, D. exact N.
Qed.

Lemma api_set_property fl rf p v s s' r :
  WF (sg s) ->
  (p = PName \/ p = PNames -> relabel_ok (sg s) (ref_id rf) (set_name v) = true) ->
  (p = PTypeNode -> relabel_ok (sg s) (ref_id rf) (set_typ v) = true) ->
  elem_set_property fl rf p v s = (s', r) -> WF (sg s').
Proof.
  intros W HN HT H. unfold elem_set_property in H. destruct p.
  - apply bind_reads in H; [| destruct (fl_rename_check fl); solve [auto 8 with reads]].
    destruct H as [[s1 [u [Hm [Hg H]]]] | [e [Hr Hg]]]; [| rewrite Hg; exact W].
    rewrite <- Hg in W. specialize (HN (or_introl eq_refl)). rewrite <- Hg in HN. clear Hg Hm.
    peel H W. eapply api_update_node; eauto.
  - destruct rf; try (apply raise_inv in H as [-> _]; exact W);
      (eapply api_update_node; [exact W | | exact H]; apply relabel_ok_neutral; [exact W | intro n; auto]).
  - eapply api_update_node; [exact W | | exact H]. apply relabel_ok_neutral; [exact W | intro n; auto].
  - eapply api_update_node; [exact W | | exact H]. apply relabel_ok_neutral; [exact W | intro n; destruct n; auto].
  - eapply api_update_node; [exact W | | exact H]. apply relabel_ok_neutral; [exact W | intro n; auto].
  - eapply api_update_node; eauto.
  - apply bind_reads in H; [| destruct (fl_props_check fl); solve [auto 8 with reads]].
    destruct H as [[s1 [u [Hm [Hg H]]]] | [e [Hr Hg]]]; [| rewrite Hg; exact W].
    rewrite <- Hg in W. specialize (HN (or_intror eq_refl)). rewrite <- Hg in HN. clear Hg Hm.
    peel H W. eapply api_update_node; eauto.
Qed.

Lemma api_unset_property rf p s s' r :
  WF (sg s) -> elem_unset_property rf p s = (s', r) -> WF (sg s').
Proof.
  intros W H. unfold elem_unset_property in H. destruct p;
    try (apply raise_inv in H as [-> _]; exact W); try (apply ret_inv in H as [-> _]; exact W);
    (eapply api_update_node; [exact W | | exact H]; apply relabel_ok_neutral; [exact W | intro n; destruct n; auto]).
Qed.

(* after set_name v the same update is neutral *)
Lemma relabel_ok_again g x v : WF g -> relabel_ok (relabel g x (set_name v)) x (set_name v) = true.
Proof.
  intro W. unfold relabel_ok. apply forallb_forall. intros n Hn.
  destruct (str_eqb (nid n) x) eqn:Ex; [|reflexivity]. simpl.
  rewrite str_eqb_refl, cls_eqb_refl, !(proj2 (ostr_eqb_eq _ _) eq_refl). simpl.
  unfold relabel, g_update in Hn. simpl in Hn. apply in_map_iff in Hn as [m [E Hm]].
  destruct (str_eqb (nid m) x) eqn:Em.
  - subst n. simpl. rewrite str_eqb_refl. simpl. rewrite !andb_true_r.
    pose proof (wf_new_node_ok g m W Hm) as N. unfold new_node_ok, fields_ok, vocab_ok, vocab_ok_in in *. simpl.
    destruct (ntyp m); [|discriminate]. apply andb_true_iff in N as [_ N]. simpl. exact N.
  - subst n. rewrite Em in Ex. discriminate.
Qed.

Lemma set_name_ok_graph fl rf v s s1 :
  elem_set_property fl rf PName v s = (s1, Ok tt) -> sg s1 = g_update (sg s) (ref_id rf) (set_name v).
Proof.
  intro H. unfold elem_set_property in H.
  apply bind_reads in H; [| destruct (fl_rename_check fl); solve [auto 8 with reads]].
  destruct H as [[s2 [u [_ [Hg H]]]] | [e [Hr _]]]; [|discriminate]. rewrite <- Hg. clear Hg.
  apply bind_reads in H; [| solve [auto 8 with reads]].
  destruct H as [[s3 [u' [_ [Hg H]]]] | [e [Hr _]]]; [|discriminate]. rewrite <- Hg. clear Hg.
  apply update_node_inv in H as [[_ Hg]|[e [He _]]]; [exact Hg | discriminate].
Qed.

Lemma api_rename fl rf new s s' r :
  WF (sg s) -> relabel_ok (sg s) (ref_id rf) (set_name new) = true ->
  elem_rename fl rf new s = (s', r) -> WF (sg s').
Proof.
  intros W OK H. unfold elem_rename in H. apply bind_inv in H as [[s1 [[] [H1 H2]]]|[e [H1 _]]].
  - apply set_name_ok_graph in H1.
    eapply api_update_node; [| | exact H2].
    + rewrite H1. apply WF_relabel; assumption.
    + rewrite H1. apply relabel_ok_again. exact W.
  - apply (api_set_property fl rf PName new s s' (Err e) W (fun _ => OK)); [intro X; discriminate X | exact H1].
Qed.

(* ---- remove_link ------------------------------------------------------------------------------------- *)
Lemma g_del_node_remove_set g x : g_del_node g x = remove_set g (fun y => str_eqb y x).
Proof. reflexivity. Qed.

Lemma In_nb_where_cls g y P j : In j (nb_where g y P) -> exists r, P j r = true.
Proof. intro H. apply In_nb_where in H as [r [_ H]]. eauto. Qed.

(* deleting a link none of whose ends is a service port is a closed removal *)
Lemma closed_del_link g l :
  WF g -> cls_is g l KLink = true ->
  (forall y, In y (first_nb g l Connects KCP) -> typ_is g y sServicePort = false) ->
  closed_b g (fun y => str_eqb y l) = true.
Proof.
  intros W Hl SP. unfold closed_b. apply forallb_forall. intros n Hn.
  destruct (str_eqb (nid n) l) eqn:E; [reflexivity|]. simpl.
  assert (NE : forall o k, cls_is g o k = true -> k <> KLink -> negb (str_eqb o l) = true).
  { intros o k Ho Hk. apply negb_true_iff. apply str_eqb_neq. intro Eo. subst o.
    rewrite (cls_is_unique _ _ _ k Hl) in Ho; [discriminate Ho | congruence]. }
  destruct (ncls n) eqn:Hc; try reflexivity.
  - apply forallb_forall. intros o Ho. unfold comp_owners in Ho. apply In_nb_where_cls in Ho as [r Ho].
    apply andb_true_iff in Ho as [_ Ho]. apply orb_true_iff in Ho as [Ho|Ho]; eapply NE; eauto; discriminate.
  - apply forallb_forall. intros o Ho. unfold ns_owners in Ho. apply In_nb_where_cls in Ho as [r Ho].
    apply andb_true_iff in Ho as [_ Ho]. apply orb_true_iff in Ho as [Ho|Ho]; [apply orb_true_iff in Ho as [Ho|Ho]|]; eapply NE; eauto; discriminate.
  - apply andb_true_iff. split.
    + apply forallb_forall. intros o Ho. unfold cp_owners in Ho. apply In_nb_where_cls in Ho as [r Ho].
      apply andb_true_iff in Ho as [_ Ho]. apply orb_true_iff in Ho as [Ho|Ho]; [eapply NE; eauto; discriminate|].
      apply andb_true_iff in Ho as [Ho _]. apply andb_true_iff in Ho as [_ Ho]. eapply NE; eauto; discriminate.
    + destruct (is_type n sServicePort) eqn:Et; [|reflexivity]. simpl.
      apply forallb_forall. intros l' Hl'. apply andb_true_iff. split.
      * apply negb_true_iff. apply str_eqb_neq. intro El. subst l'.
        apply In_first_nb in Hl' as [Hl' _]. apply nbrs_sym in Hl'.
        assert (Hin : In (nid n) (first_nb g l Connects KCP)).
        { apply In_first_nb. split; [exact Hl'|]. rewrite (cls_is_node g n _ (wf_ids _ W) Hn), Hc. reflexivity. }
        specialize (SP _ Hin). rewrite (typ_is_node g n _ (wf_ids _ W) Hn) in SP. unfold is_type in Et. congruence.
      * apply forallb_forall. intros y Hy. apply In_first_nb in Hy as [_ Hy]. eapply NE; eauto; discriminate.
Qed.

Lemma find_node_by_name_val name k s s' x :
  find_node_by_name name k s = (s', Ok x) -> s' = s /\ exists n, In n (gnodes (sg s)) /\ nid n = x /\ ncls n = k /\ nname n = Some name.
Proof.
  unfold find_node_by_name. intro H. apply bind_inv in H as [[s1 [g [H1 H2]]]|[e [_ H]]]; [|discriminate].
  apply getg_val in H1 as [-> ->]. destruct (nodes_named (sg s) k name) as [|n [|? ?]] eqn:E.
  - apply raise_inv in H2 as [_ H2]. discriminate.
  - apply ret_inv in H2 as [-> H2]. inversion H2. split; [reflexivity|]. exists n.
    assert (Hin : In n (nodes_named (sg s) k name)) by (rewrite E; left; reflexivity).
    unfold nodes_named in Hin. apply filter_In in Hin as [A B]. apply andb_true_iff in B as [B C]. apply cls_eqb_eq in B. apply ostr_eqb_eq in C. auto.
  - apply raise_inv in H2 as [_ H2]. discriminate.
Qed.
Lemma reads_find_node_by_name name k : reads (find_node_by_name name k).
Proof.
  unfold find_node_by_name. apply reads_bind; [apply reads_getg|]. intro g.
  destruct (nodes_named g k name) as [|n [|? ?]]; auto with reads.
Qed.
#[export] Hint Resolve reads_find_node_by_name : reads.

Lemma api_remove_link fl name s s' r :
  WF (sg s) -> remove_link_pre (sg s) name = true -> t_remove_link fl name s = (s', r) -> WF (sg s').
Proof.
  intros W P H. unfold t_remove_link in H.
  apply bind_reads in H; [| solve [auto 8 with reads]].
  destruct H as [[s1 [l [Hm [Hg H]]]] | [e [Hr Hg]]]; [| rewrite Hg; exact W].
  apply find_node_by_name_val in Hm as [E1 [n [Hn [Hid [Hc Hname]]]]]. subst s1. clear Hg.
  apply bind_reads in H; [| unfold cps_of_ns_or_link; solve [auto 8 with reads]].
  destruct H as [[s2 [cps [Hm [Hg H]]]] | [e [Hr Hg]]]; [| rewrite Hg; exact W].
  rewrite <- Hg in W, P, Hn. clear Hg Hm.
  peel H W. peel H W.
  unfold remove_network_link in H.
  apply bind_reads in H; [| solve [auto 8 with reads]].
  destruct H as [[s3 [u [Hm' [Hg H]]]] | [e [Hr Hg]]]; [| rewrite Hg; exact W].
  rewrite <- Hg in W, P, Hn. clear Hg Hm'.
  apply delete_node_inv in H as [[_ Hg]|[e [_ Hg]]]; rewrite Hg; [|exact W].
  rewrite g_del_node_remove_set. apply WF_remove_set; [exact W|].
  assert (Hl : cls_is (sg s3) l KLink = true) by (rewrite <- Hid, (cls_is_node _ n _ (wf_ids _ W) Hn), Hc; reflexivity).
  apply closed_del_link; [exact W | exact Hl |].
  intros y Hy. unfold remove_link_pre in P. rewrite forallb_forall in P. specialize (P _ Hn).
  rewrite Hc, Hname in P. rewrite cls_eqb_refl, (proj2 (ostr_eqb_eq _ _) eq_refl) in P. simpl in P.
  rewrite forallb_forall in P. rewrite Hid in P. apply negb_true_iff. apply P. exact Hy.
Qed.

(* ---- interfaces ---------------------------------------------------------------------------------------- *)
Lemma typ_is_excl g x t1 t2 : typ_is g x t1 = true -> str_eqb t1 t2 = false -> typ_is g x t2 = false.
Proof.
  unfold typ_is. destruct (typ_of g x) as [c|]; [|discriminate]. intros H1 H2. apply str_eqb_eq in H1. subst c. exact H2.
Qed.

Lemma type_is_val x t s s' b : type_is x t s = (s', Ok b) -> s' = s /\ b = typ_is (sg s) x t.
Proof.
  unfold type_is, type_of_handle, props. intro H. apply bind_inv in H as [[s1 [o [H1 H2]]]|[e [_ H]]]; [|discriminate].
  apply bind_inv in H1 as [[s2 [n [H0 H1]]]|[e [_ H]]]; [|discriminate].
  apply find1_val in H0 as [-> F]. apply ret_inv in H1 as [-> H1]. inversion H1; subst o.
  apply ret_inv in H2 as [-> H2]. inversion H2. split; [reflexivity|]. unfold typ_is, typ_of. rewrite F. reflexivity.
Qed.

Lemma names_mapM_val l s s' names :
  mapM (fun c => n <- props c ;; nm <- name_prop n ;; ret (Some nm)) l s = (s', Ok names) ->
  s' = s /\ names = map (name_of (sg s)) l.
Proof.
  revert s s' names. induction l as [|c l IH]; simpl; intros s s' names H.
  - apply ret_inv in H as [-> H]. inversion H. auto.
  - apply bind_inv in H as [[s1 [o [H1 H2]]]|[e [_ H]]]; [|discriminate].
    apply bind_inv in H1 as [[s2 [n [H0 H1]]]|[e [_ H]]]; [|discriminate].
    unfold props in H0. apply find1_val in H0 as [-> F].
    apply bind_inv in H1 as [[s3 [nm [H3 H4]]]|[e [_ H]]]; [|discriminate].
    unfold name_prop in H3. destruct (nname n) as [nm'|] eqn:En; [|apply raise_inv in H3 as [_ H3]; discriminate].
    apply ret_inv in H3 as [-> H3]. inversion H3; subst nm'. apply ret_inv in H4 as [-> H4]. inversion H4; subst o.
    apply bind_inv in H2 as [[s4 [ys [H5 H6]]]|[e [_ H]]]; [|discriminate].
    apply IH in H5 as [-> ->]. apply ret_inv in H6 as [-> H6]. inversion H6. split; [reflexivity|].
    f_equal. unfold name_of. rewrite F. symmetry. exact En.
Qed.

Lemma existsb_map_sibling g name l a r k :
  l = first_nb g a r k ->
  negb (existsb (fun o => ostr_eqb o (Some name)) (map (name_of g) l)) = true ->
  sibling_free g a r k (Some name) = true.
Proof.
  intros -> H. apply negb_true_iff in H. unfold sibling_free.
  induction (first_nb g a r k) as [|j l IH]; simpl in *; [reflexivity|].
  apply orb_false_iff in H as [H1 H2]. rewrite H1. simpl. auto.
Qed.

(* Interface(NEW): new interface / sub-interface (not a service port) under an existing owner *)
Lemma api_new_interface sub name iid parent itype lab s s' r :
  WF (sg s) -> type_allowed KCP itype = true -> str_eqb itype sServicePort = false ->
  (if str_eqb itype sSubInterface then cls_is (sg s) parent KCP && negb (typ_is (sg s) parent sSubInterface)
   else cls_is (sg s) parent KNS) = true ->
  sibling_free (sg s) parent Connects KCP (Some name) = true ->
  new_interface sub name iid parent itype lab s = (s', r) -> WF (sg s').
Proof.
  intros W T NSP Sh SF H. unfold new_interface in H.
  peel H W. peel H W. peel H W.
  assert (OK : has_id (sg s0) (nid (mk a0 KCP (Some itype) name lab)) = false ->
               owned_ok (sg s0) (mk a0 KCP (Some itype) name lab) parent Connects = true).
  { intro Hf. unfold owned_ok, fresh, new_node_ok, owner_shape_ok, is_type.
    assert (V : vocab_ok (mk a0 KCP (Some itype) name lab) = true) by exact T. rewrite V, Hf. simpl.
    rewrite NSP, SF. simpl. rewrite Sh. reflexivity. }
  apply bind_inv in H as [[s1 [[] [H1 H2]]]|[e [H1 _]]].
  - apply ret_inv in H2 as [-> _]. unfold add_interface_sliver in H1.
    apply api_add_owned in H1; [tauto | exact W | exact OK].
  - unfold add_interface_sliver in H1. apply api_add_owned in H1; [tauto | exact W | exact OK].
Qed.

(* Interface.add_child_interface *)
Lemma api_add_sub sub i name cid has_vlan s s' r :
  WF (sg s) -> iface_add_child sub i name cid has_vlan s = (s', r) -> WF (sg s').
Proof.
  intros W H. unfold iface_add_child in H.
  apply bind_reads in H; [| solve [auto 8 with reads]].
  destruct H as [[s1 [ded [Hm [Hg H]]]] | [e [Hr Hg]]]; [| rewrite Hg; exact W].
  apply type_is_val in Hm as [-> Hded]. clear Hg.
  peel H W. subst ded.
  apply bind_reads in H; [| unfold child_cps; solve [auto 8 with reads]].
  destruct H as [[s2 [ch [Hc [Hg H]]]] | [e [Hr Hg]]]; [| rewrite Hg; exact W].
  unfold child_cps in Hc. apply bind_inv in Hc as [[s3 [[] [Hc1 Hq]]]|[e [_ Hx]]]; [|discriminate].
  apply check_class_val in Hc1 as [-> [m [Fm Em]]]. apply q_first_nb_val in Hq as [-> [-> _]]. clear Hg.
  apply bind_reads in H; [| solve [auto 8 with reads]].
  destruct H as [[s4 [names [Hn [Hg H]]]] | [e [Hr Hg]]]; [| rewrite Hg; exact W].
  apply names_mapM_val in Hn as [-> ->]. clear Hg.
  peel H W. peel H W. peel H W. peel H W.
  assert (Sh : cls_is (sg s) i KCP && negb (typ_is (sg s) i sSubInterface) = true).
  { destruct (check_class_cls _ _ _ _ Fm Em) as [k [[<-|[]] Hk]]. rewrite Hk. simpl.
    rewrite (typ_is_excl _ _ _ sSubInterface (eq_sym Hded)); reflexivity. }
  assert (SF : sibling_free (sg s) i Connects KCP (Some name) = true) by (eapply existsb_map_sibling; eauto).
  apply bind_inv in H as [[s5 [id [H1 H2]]]|[e [H1 _]]]; [apply ret_inv in H2 as [-> _]|];
    apply (api_new_interface sub name cid i sSubInterface true _ _ _ W eq_refl eq_refl Sh SF H1).
Qed.

(* ---- add_link ------------------------------------------------------------------------------------------ *)
Lemma no_edge_after_add g a i j :
  no_edge g a j = true -> i <> j -> a <> j -> no_edge (g_add_edge g a Connects i) a j = true.
Proof.
  intros H Hij Haj. unfold no_edge in *. apply negb_true_iff in H. apply negb_true_iff.
  unfold g_add_edge. simpl. rewrite existsb_app. apply orb_false_iff. split.
  - destruct (existsb (fun e => same_ends e a j) (filter (fun e => negb (same_ends e a i)) (gedges g))) eqn:E; [|reflexivity].
    apply existsb_exists in E as [e [He Hs]]. apply filter_In in He as [He _].
    assert (existsb (fun e => same_ends e a j) (gedges g) = true) by (apply existsb_exists; eauto). congruence.
  - simpl. unfold same_ends. simpl. rewrite str_eqb_refl. simpl.
    assert (E1 : str_eqb i j = false) by (apply str_eqb_neq; exact Hij).
    assert (E2 : str_eqb a j = false) by (apply str_eqb_neq; exact Haj).
    rewrite E1, E2. reflexivity.
Qed.

Lemma link_loop id ifs : forall s s' r,
  WF (sg s) -> cls_is (sg s) id KLink = true -> NoDup ifs ->
  (forall i, In i ifs -> cls_is (sg s) i KCP = true /\ typ_is (sg s) i sServicePort = false /\ no_edge (sg s) id i = true) ->
  (forall y, In y (first_nb (sg s) id Connects KCP) -> typ_is (sg s) y sServicePort = false) ->
  for_each ifs (fun i => add_link id Connects i) s = (s', r) -> WF (sg s').
Proof.
  induction ifs as [|i ifs IH]; intros s s' r W Hl ND Hi Hy H; simpl in H.
  - apply ret_inv in H as [-> _]. exact W.
  - inversion ND as [|? ? Hnot ND']; subst.
    destruct (Hi i (or_introl eq_refl)) as [Ci [Ti Ni]].
    assert (OK : link_edge_ok (sg s) id i = true).
    { unfold link_edge_ok. rewrite Hl, Ci, Ti, Ni. simpl. apply forallb_forall. intros y Hy'. rewrite (Hy _ Hy'). reflexivity. }
    apply bind_inv in H as [[s1 [[] [H1 H2]]]|[e [H1 _]]].
    + apply add_link_inv in H1 as [[_ [_ [_ Hg]]]|[e [He _]]]; [|discriminate].
      assert (W1 : WF (sg s1)) by (rewrite Hg; apply (WF_add_link_edge _ _ _ W OK)).
      apply (IH s1 s' r W1); [rewrite Hg; exact Hl | exact ND' | | | exact H2].
      * intros j Hj. destruct (Hi j (or_intror Hj)) as [Cj [Tj Nj]]. rewrite Hg.
        split; [exact Cj|]. split; [exact Tj|].
        apply no_edge_after_add; [exact Nj | intro E; subst; contradiction |].
        intro E. subst j. rewrite (cls_is_unique _ _ _ KCP Hl) in Cj; [discriminate Cj | discriminate].
      * intros y Hy'. rewrite Hg in Hy'. apply In_first_nb in Hy' as [Hy' Cy].
        change (typ_is (sg s1) y sServicePort) with (typ_is (g_add_edge (sg s) id Connects i) y sServicePort) || rewrite Hg.
        rewrite (nbrs_add_edge _ _ _ _ _ Ni) in Hy'. apply in_app_or in Hy' as [Hy'|Hy'].
        -- apply (Hy y). apply In_first_nb. split; [exact Hy' | exact Cy].
        -- unfold nb_of in Hy'. simpl in Hy'. rewrite str_eqb_refl in Hy'. destruct Hy' as [Hy'|[]]. inversion Hy'; subst y. exact Ti.
    + apply add_link_inv in H1 as [[H1 _]|[e' [_ Hg]]]; [discriminate|]. rewrite Hg. exact W.
Qed.

Lemma has_name_free g k name :
  negb (existsb (has_name name) (filter (fun n => cls_eqb (ncls n) k) (gnodes g))) = true -> name_free g k (Some name) = true.
Proof.
  intro H. apply negb_true_iff in H. unfold name_free. induction (gnodes g) as [|n l IH]; simpl in *; [reflexivity|].
  destruct (cls_eqb (ncls n) k); simpl in *.
  - apply orb_false_iff in H as [H1 H2]. unfold has_name in H1. rewrite H1. simpl. auto.
  - auto.
Qed.

Lemma api_add_link fl sub name lid ltype ifs s s' r :
  WF (sg s) -> type_allowed KLink ltype = true -> add_link_pre (sg s) ifs = true ->
  t_add_link fl sub name lid ltype ifs s = (s', r) -> WF (sg s').
Proof.
  intros W T P H. unfold t_add_link in H.
  peel H W. peel H W. peel H W.
  apply bind_inv in H as [[s1 [id [H1 H2]]]|[e [H1 _]]]; [apply ret_inv in H2 as [-> _]|];
    unfold new_link in H1.
  all: peel H1 W; peel H1 W; peel H1 W; peel H1 W; peel H1 W.
  all: match type of W with WF (sg ?sc) => rename sc into scur end.
  all: unfold add_link_pre in P; apply andb_true_iff in P as [ND PF]; apply nodup_b_NoDup in ND.
  all: apply bind_inv in H1 as [[sX [[] [Ha Hb]]]|[e' [Ha _]]];
    [| apply add_node_inv in Ha as [[Ha _]|[e2 [_ Hg]]]; [discriminate | rewrite Hg; exact W]].
  all: apply add_node_inv in Ha as [[_ [Hf Hg]]|[e2 [He _]]]; [|discriminate].
  all: match type of Hg with sg _ = g_add_node _ (mk ?x KLink _ _ _) => set (lk := x) in * end.
  all: assert (W2 : WF (sg sX)) by
      (rewrite Hg; apply WF_add_plain; [exact W|]; unfold plain_ok, fresh, new_node_ok;
       assert (V : vocab_ok (mk lk KLink (Some ltype) name false) = true) by exact T; rewrite V, Hf; simpl;
       apply has_name_free; assumption).
  all: assert (Hcl : cls_is (sg sX) lk KLink = true) by
      (rewrite Hg; unfold cls_is, cls_of; pose proof (find_nodes_add_node_same _ _ Hf) as Fn;
       change (nid (mk lk KLink (Some ltype) name false)) with lk in Fn; rewrite Fn; reflexivity).
  all: assert (Hold : forall y k, has_id (sg scur) y = true -> cls_is (sg sX) y k = cls_is (sg scur) y k /\ forall t, typ_is (sg sX) y t = typ_is (sg scur) y t) by
      (intros y k Hy; rewrite Hg; assert (y <> nid (mk lk KLink (Some ltype) name false)) by (intro E; subst y; simpl in Hf; simpl in Hy; congruence);
       split; [apply cls_is_ext; apply find_nodes_add_node_other; assumption | intro t; apply typ_is_ext; apply find_nodes_add_node_other; assumption]).
  all: assert (Hnb : nbrs (sg sX) lk = []) by (rewrite Hg, nbrs_add_node; apply nbrs_fresh_nil; [apply (wf_edge_ends _ W) | exact Hf]).
  all: assert (Hifs : forall i, In i ifs -> cls_is (sg sX) i KCP = true /\ typ_is (sg sX) i sServicePort = false /\ no_edge (sg sX) lk i = true) by
      (intros i Hi; rewrite forallb_forall in PF; specialize (PF _ Hi); apply andb_true_iff in PF as [C1 C2]; apply negb_true_iff in C2;
       pose proof (cls_is_has_id _ _ _ C1) as Hh; destruct (Hold i KCP Hh) as [E1 E2]; rewrite E1, E2;
       split; [exact C1|]; split; [exact C2|];
       rewrite Hg; change (no_edge (sg scur) lk i = true);
       unfold no_edge; apply negb_true_iff; destruct (existsb (fun e => same_ends e lk i) (gedges (sg scur))) eqn:E; [|reflexivity];
       apply existsb_exists in E as [e0 [He0 Hs]]; destruct (wf_edge_ends _ W _ He0) as [A B]; apply has_id_In in A; apply has_id_In in B;
       unfold same_ends in Hs; apply orb_true_iff in Hs as [Hs|Hs]; apply andb_true_iff in Hs as [Hs1 HsX];
       apply str_eqb_eq in Hs1; apply str_eqb_eq in HsX; simpl in Hf; congruence).
  all: assert (Hys : forall y, In y (first_nb (sg sX) lk Connects KCP) -> typ_is (sg sX) y sServicePort = false) by
      (intros y Hy; apply In_first_nb in Hy as [Hy _]; rewrite Hnb in Hy; destruct Hy).
  - apply bind_inv in Hb as [[s3 [[] [Hc Hd]]]|[e3 [Hc _]]].
    + apply ret_inv in Hd as [-> _]. eapply link_loop; eauto.
    + eapply link_loop; eauto.
  - apply bind_inv in Hb as [[s3 [[] [Hc Hd]]]|[e3 [Hc _]]].
    + apply ret_inv in Hd as [-> _]. eapply link_loop; eauto.
    + eapply link_loop; eauto.
Qed.



(* C06: answers depend only on the current store content (Model/Query6Hist.v). *)
From Coq Require Import List NArith ZArith Bool.
From FIM Require Import Model.Query6 Model.Query6Check Model.Query6Hist.
Import ListNotations.

Lemma current_cons s h t :
  current s (h :: t) = current (match h with HSet s' => s' | HAsk _ => s end) t.
Proof. reflexivity. Qed.

Lemma run_app V : forall pre s post,
  run V s (pre ++ post) = run V s pre ++ run V (current s pre) post.
Proof.
  induction pre as [|h pre IH]; intros s post; auto.
  rewrite current_cons. destruct h as [s'|a]; simpl.
  - apply IH.
  - rewrite IH. reflexivity.
Qed.

(* the answer given at any point of a history is the query function applied to the store content at that point *)
Lemma run_ask V s pre a post :
  run V s (pre ++ HAsk a :: post) = run V s pre ++ answer_of V (current s pre) a :: run V (current s pre) post.
Proof. rewrite run_app. reflexivity. Qed.

(* ... and that content does not depend on the questions asked before: only on the mutations *)
Lemma current_ignores_asks : forall pre s, current s pre = current s (filter is_set pre).
Proof.
  induction pre as [|h pre IH]; intros s; auto.
  rewrite current_cons. destruct h as [s'|a]; cbn [filter is_set].
  - rewrite current_cons. apply IH.
  - apply IH.
Qed.

Lemma filter_asks_nil mid : forallb (fun h => negb (is_set h)) mid = true -> filter is_set mid = [].
Proof.
  induction mid as [|h mid IH]; auto. simpl. intros H. apply andb_true_iff in H as [H1 H2].
  destruct (is_set h); [discriminate|auto].
Qed.

(* the same question asked again with no mutation in between gets the same answer, whatever was asked meanwhile *)
Lemma repeat_same V s pre a mid :
  forallb (fun h => negb (is_set h)) mid = true ->
  run V s (pre ++ HAsk a :: mid ++ [HAsk a]) =
  run V s pre ++ answer_of V (current s pre) a :: run V (current s pre) mid ++ [answer_of V (current s pre) a].
Proof.
  intros H. rewrite run_ask. rewrite run_app. simpl.
  rewrite (current_ignores_asks mid), (filter_asks_nil mid H). reflexivity.
Qed.

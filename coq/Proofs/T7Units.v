(* C07 - each unit mutation of Model/T7Steps.v keeps the invariant WF under its boolean side condition.
   General (unbounded) lemmas: arbitrary graph, arbitrary new element. *)
From Coq Require Import String List NArith Bool Arith Lia.
From FIM Require Import Base.Str Gen.Rules Model.T7Graph Model.T7Ops Model.T7WF Model.T7Steps Model.T7Rel
     Proofs.T7Tables Proofs.T7WFRefl Proofs.T7Frame.
Import ListNotations.

(* ---- locality ------------------------------------------------------------------------------------- *)
Definition stable (g g' : graph) (y : str) : Prop :=
  nbrs g' y = nbrs g y /\ find_nodes g' y = find_nodes g y /\
  (forall j r, In (j, r) (nbrs g y) -> find_nodes g' j = find_nodes g j).

Lemma nb_where_stable g g' y (F : graph -> str -> rel -> bool) :
  stable g g' y ->
  (forall j r, find_nodes g' j = find_nodes g j -> F g' j r = F g j r) ->
  nb_where g' y (F g') = nb_where g y (F g).
Proof. intros [H1 [H2 H3]] HF. apply nb_where_ext; [exact H1|]. intros j r Hin. apply HF. eapply H3; eauto. Qed.

Lemma first_nb_stable g g' y r k : stable g g' y -> first_nb g' y r k = first_nb g y r k.
Proof.
  intro H. rewrite !first_nb_as_where.
  apply (nb_where_stable g g' y (fun g j r' => rel_eqb r' r && cls_is g j k) H).
  intros j r' E. rewrite (cls_is_ext _ _ _ _ E). reflexivity.
Qed.
Lemma comp_owners_stable g g' y : stable g g' y -> comp_owners g' y = comp_owners g y.
Proof.
  intro H. unfold comp_owners.
  apply (nb_where_stable g g' y (fun g j r => rel_eqb r Has && (cls_is g j KNode || cls_is g j KComposite)) H).
  intros j r E. rewrite !(cls_is_ext _ _ _ _ E). reflexivity.
Qed.
Lemma ns_owners_stable g g' y : stable g g' y -> ns_owners g' y = ns_owners g y.
Proof.
  intro H. unfold ns_owners.
  apply (nb_where_stable g g' y (fun g j r => rel_eqb r Has && (cls_is g j KNode || cls_is g j KComposite || cls_is g j KComp)) H).
  intros j r E. rewrite !(cls_is_ext _ _ _ _ E). reflexivity.
Qed.
Lemma cp_owners_stable g g' y : stable g g' y -> cp_owners g' y = cp_owners g y.
Proof.
  intro H. unfold cp_owners. destruct H as [H1 [H2 H3]]. apply nb_where_ext; [exact H1|].
  intros j r Hin. specialize (H3 _ _ Hin).
  rewrite !(cls_is_ext _ _ _ _ H3), (typ_is_ext _ _ _ _ H3), (typ_is_ext _ _ _ _ H2). reflexivity.
Qed.
Lemma flat_map_ext_in {A B} (f h : A -> list B) l : (forall x, In x l -> f x = h x) -> flat_map f l = flat_map h l.
Proof.
  induction l as [|a l IH]; simpl; intro H; [reflexivity|].
  rewrite (H a (or_introl eq_refl)). f_equal. apply IH. intros; apply H; right; assumption.
Qed.

Lemma peers_stable g g' y :
  stable g g' y -> (forall l, In l (first_nb g y Connects KLink) -> stable g g' l) -> peers g' y = peers g y.
Proof.
  intros H HL. unfold peers. rewrite (first_nb_stable _ _ _ _ _ H).
  apply flat_map_ext_in. intros l Hl. rewrite (first_nb_stable _ _ _ _ _ (HL _ Hl)). reflexivity.
Qed.


Lemma typ_is_stable g g' y t : stable g g' y -> typ_is g' y t = typ_is g y t.
Proof. intros [_ [H _]]. apply typ_is_ext. exact H. Qed.

Lemma struct_stable g g' m :
  stable g g' (nid m) ->
  (ntyp m = Some sServicePort -> forall l, In l (first_nb g (nid m) Connects KLink) -> stable g g' l) ->
  struct_P g m -> struct_P g' m.
Proof.
  intros H HL [S1 [S2 S3]]. split; [|split].
  - intro Hc. rewrite (comp_owners_stable _ _ _ H). auto.
  - intro Hc. destruct (S2 Hc) as [A [B C]]. split; [|split].
    + rewrite (cp_owners_stable _ _ _ H). exact A.
    + intros j Hj. rewrite (first_nb_stable _ _ _ _ _ H) in Hj. specialize (B _ Hj).
      rewrite (typ_is_stable _ _ _ _ H).
      destruct H as [H1 [H2 H3]]. apply In_first_nb in Hj as [Hj _]. rewrite (typ_is_ext _ _ _ _ (H3 _ _ Hj)). exact B.
    + intro Ht. rewrite (peers_stable _ _ _ H (HL Ht)). auto.
  - intros Hc j r Hin. destruct H as [H1 [H2 H3]]. rewrite H1 in Hin. destruct (S3 Hc _ _ Hin) as [A B].
    split; [exact A|]. rewrite (cls_is_ext _ _ _ _ (H3 _ _ Hin)). exact B.
Qed.

Lemma struct_stableR ep g g' m :
  stable g g' (nid m) ->
  (ntyp m = Some sServicePort -> ep (nid m) = false -> forall l, In l (first_nb g (nid m) Connects KLink) -> stable g g' l) ->
  struct_Pr ep g m -> struct_Pr ep g' m.
Proof.
  intros H HL [S1 [S2 S3]]. split; [|split].
  - intro Hc. rewrite (comp_owners_stable _ _ _ H). auto.
  - intro Hc. destruct (S2 Hc) as [A [B C]]. split; [|split].
    + rewrite (cp_owners_stable _ _ _ H). exact A.
    + intros j Hj. rewrite (first_nb_stable _ _ _ _ _ H) in Hj. specialize (B _ Hj).
      rewrite (typ_is_stable _ _ _ _ H).
      destruct H as [H1 [H2 H3]]. apply In_first_nb in Hj as [Hj _]. rewrite (typ_is_ext _ _ _ _ (H3 _ _ Hj)). exact B.
    + intros Ht Hp. rewrite (peers_stable _ _ _ H (HL Ht Hp)). auto.
  - intros Hc j r Hin. destruct H as [H1 [H2 H3]]. rewrite H1 in Hin. destruct (S3 Hc _ _ Hin) as [A B].
    split; [exact A|]. rewrite (cls_is_ext _ _ _ _ (H3 _ _ Hin)). exact B.
Qed.

Lemma scope_stable g g' m : stable g g' (nid m) -> scope_of g' m = scope_of g m.
Proof.
  intro H. unfold scope_of. destruct (ncls m); try reflexivity.
  - apply comp_owners_stable; assumption.
  - apply ns_owners_stable; assumption.
  - apply cp_owners_stable; assumption.
Qed.

Lemma name_clash_stable g g' a b :
  stable g g' (nid a) -> stable g g' (nid b) -> name_clash g' a b = name_clash g a b.
Proof. intros Ha Hb. unfold name_clash. rewrite (scope_stable _ _ _ Ha), (scope_stable _ _ _ Hb). reflexivity. Qed.

(* ---- small facts ------------------------------------------------------------------------------------ *)
Lemma cls_is_unique g a k1 k2 : cls_is g a k1 = true -> k1 <> k2 -> cls_is g a k2 = false.
Proof.
  unfold cls_is. destruct (cls_of g a) as [c|]; [|discriminate]. intros H Hne. apply cls_eqb_eq in H. subst.
  destruct (cls_eqb k1 k2) eqn:E; [apply cls_eqb_eq in E; contradiction | reflexivity].
Qed.
Lemma cls_is_has_id g a k : cls_is g a k = true -> has_id g a = true.
Proof.
  unfold cls_is, cls_of, find_nodes, has_id. induction (gnodes g) as [|n l IH]; simpl; [discriminate|].
  destruct (str_eqb (nid n) a); simpl; auto.
Qed.
Lemma has_id_find g x : has_id g x = true -> find_nodes g x <> [].
Proof.
  unfold has_id, find_nodes. induction (gnodes g) as [|n l IH]; simpl; [discriminate|].
  destruct (str_eqb (nid n) x); simpl; [discriminate | auto].
Qed.
Lemma In_find_nodes g n : In n (gnodes g) -> In n (find_nodes g (nid n)).
Proof. intro H. unfold find_nodes. apply filter_In. split; [exact H | apply str_eqb_refl]. Qed.
Lemma find_nodes_unique g n : NoDup (map nid (gnodes g)) -> In n (gnodes g) -> find_nodes g (nid n) = [n].
Proof.
  unfold find_nodes. induction (gnodes g) as [|m l IH]; simpl; intros ND Hin; [contradiction|].
  inversion ND as [|? ? Hnot ND']; subst. destruct Hin as [E|Hin].
  - subst m. rewrite str_eqb_refl. f_equal.
    destruct (filter (fun n0 => str_eqb (nid n0) (nid n)) l) as [|z zs] eqn:F; [reflexivity|].
    assert (Hz : In z (filter (fun n0 => str_eqb (nid n0) (nid n)) l)) by (rewrite F; left; reflexivity).
    apply filter_In in Hz as [Hz1 Hz2]. apply str_eqb_eq in Hz2. exfalso. apply Hnot. rewrite <- Hz2. apply in_map. exact Hz1.
  - destruct (str_eqb (nid m) (nid n)) eqn:E.
    + apply str_eqb_eq in E. exfalso. apply Hnot. rewrite E. apply in_map. exact Hin.
    + auto.
Qed.
Lemma cls_is_node g n k : NoDup (map nid (gnodes g)) -> In n (gnodes g) -> cls_is g (nid n) k = cls_eqb (ncls n) k.
Proof. intros ND Hin. unfold cls_is, cls_of. rewrite (find_nodes_unique _ _ ND Hin). reflexivity. Qed.
Lemma typ_is_node g n t : NoDup (map nid (gnodes g)) -> In n (gnodes g) -> typ_is g (nid n) t = ostr_eqb (ntyp n) (Some t).
Proof.
  intros ND Hin. unfold typ_is, typ_of. rewrite (find_nodes_unique _ _ ND Hin).
  destruct (ntyp n); reflexivity.
Qed.
Lemma name_of_node g n : NoDup (map nid (gnodes g)) -> In n (gnodes g) -> name_of g (nid n) = nname n.
Proof. intros ND Hin. unfold name_of. rewrite (find_nodes_unique _ _ ND Hin). reflexivity. Qed.

Lemma ForallOrdPairs_snoc {A} (R : A -> A -> Prop) l x :
  ForallOrdPairs R l -> Forall (fun a => R a x) l -> ForallOrdPairs R (l ++ [x]).
Proof.
  induction l as [|a l IH]; simpl; intros H1 H2.
  - constructor; constructor.
  - inversion H1; subst. inversion H2; subst. constructor.
    + apply Forall_app. split; [assumption | constructor; [assumption | constructor]].
    + apply IH; assumption.
Qed.
Lemma ForallOrdPairs_impl_in {A} (R R' : A -> A -> Prop) l :
  (forall a b, In a l -> In b l -> R a b -> R' a b) -> ForallOrdPairs R l -> ForallOrdPairs R' l.
Proof.
  induction l as [|a l IH]; intros H F; [constructor|]. inversion F; subst. constructor.
  - rewrite Forall_forall in *. intros b Hb. apply H; [left; reflexivity | right; exact Hb | auto].
  - apply IH; [|assumption]. intros; apply H; try (right; assumption); assumption.
Qed.
Lemma ForallOrdPairs_filter {A} (R : A -> A -> Prop) f l : ForallOrdPairs R l -> ForallOrdPairs R (filter f l).
Proof.
  induction l as [|a l IH]; simpl; intro F; [constructor|]. inversion F; subst.
  destruct (f a); [|auto]. constructor; [|auto].
  rewrite Forall_forall in *. intros b Hb. apply filter_In in Hb as [Hb _]. auto.
Qed.

Lemma NoDup_snoc {A} (l : list A) x : NoDup l -> ~ In x l -> NoDup (l ++ [x]).
Proof.
  induction l as [|a l IH]; simpl; intros H1 H2; [constructor; [intros []|constructor]|].
  inversion H1; subst. constructor.
  - intro Hin. apply in_app_or in Hin as [Hin|[Hin|[]]]; [contradiction|]. subst. apply H2. left. reflexivity.
  - apply IH; [assumption|]. intro; apply H2; right; assumption.
Qed.

Lemma has_id_false_notin g x : has_id g x = false -> ~ In x (map nid (gnodes g)).
Proof.
  intros H Hin. apply in_map_iff in Hin as [n [E Hn]].
  assert (has_id g x = true) by (apply has_id_In; eauto). congruence.
Qed.

(* ---- add_plain --------------------------------------------------------------------------------------- *)
Lemma stable_add_node g n y :
  (forall e, In e (gedges g) -> edge_ends_P g e) -> has_id g (nid n) = false -> has_id g y = true ->
  stable g (g_add_node g n) y.
Proof.
  intros HE Hx Hy. split; [reflexivity|]. split.
  - apply find_nodes_add_node_other. intro E. subst. congruence.
  - intros j r Hin. apply find_nodes_add_node_other. intro E. subst.
    apply (nbrs_has_id _ _ _ _ HE) in Hin as [Hj _]. congruence.
Qed.

Lemma In_has_id g n : In n (gnodes g) -> has_id g (nid n) = true.
Proof. intro H. apply has_id_In. eauto. Qed.

Lemma first_nb_has_id g y r k l :
  (forall e, In e (gedges g) -> edge_ends_P g e) -> In l (first_nb g y r k) -> has_id g l = true.
Proof. intros HE H. apply In_first_nb in H as [H _]. apply (nbrs_has_id _ _ _ _ HE) in H as [H _]. exact H. Qed.

Lemma name_clash_false_by_name g a b :
  negb (cls_eqb (ncls a) (ncls b) && ostr_eqb (nname a) (nname b)) = true -> name_clash g a b = false.
Proof.
  intro H. apply negb_true_iff in H. unfold name_clash.
  destruct (cls_eqb (ncls a) (ncls b)); [|reflexivity]. simpl in *.
  destruct (nname a) as [x|], (nname b) as [y|]; simpl in *; try reflexivity. rewrite H. reflexivity.
Qed.

Lemma WF_WFr g : WF g <-> WFr no_exempt no_exempt g.
Proof.
  split.
  - intros [F V I E D St N]. constructor; auto.
    + intros n Hn _. destruct (St n Hn) as [A [B C]]. split; [exact A|]. split; [|exact C].
      intro Hc. destruct (B Hc) as [B1 [B2 B3]]. repeat split; auto.
    + eapply ForallOrdPairs_impl_in; [|exact N]. intros a b _ _ H _ _. exact H.
  - intros [F V I E D St N]. constructor; auto.
    + intros n Hn. destruct (St n Hn eq_refl) as [A [B C]]. split; [exact A|]. split; [|exact C].
      intro Hc. destruct (B Hc) as [B1 [B2 B3]]. repeat split; auto.
    + unfold names_P. eapply ForallOrdPairs_impl_in; [|exact N]. intros a b _ _ H. apply H; reflexivity.
Qed.

Theorem WFr_add_plain ep g n : WFr no_exempt ep g -> plain_ok g n = true -> WFr no_exempt ep (add_plain g n).
Proof.
  intros W H. unfold plain_ok in H. repeat (apply andb_true_iff in H as [H ?]).
  unfold fresh in H. apply negb_true_iff in H. unfold new_node_ok in H2. apply andb_true_iff in H2 as [Hf Hv].
  destruct W as [F V I E D St N]. unfold add_plain.
  assert (STB : forall m, In m (gnodes g) -> stable g (g_add_node g n) (nid m))
    by (intros m Hm; apply stable_add_node; auto using In_has_id).
  assert (STL : forall m, In m (gnodes g) -> forall l, In l (first_nb g (nid m) Connects KLink) -> stable g (g_add_node g n) l)
    by (intros m Hm l Hl; apply stable_add_node; auto; eapply first_nb_has_id; eauto).
  constructor; simpl.
  - intros m Hm. apply in_app_or in Hm as [Hm|[Hm|[]]]; [auto | subst; apply fields_ok_P; exact Hf].
  - intros m Hm. apply in_app_or in Hm as [Hm|[Hm|[]]]; [auto | subst; apply vocab_ok_P; exact Hv].
  - rewrite map_app. simpl. apply NoDup_snoc; [exact I | apply has_id_false_notin; exact H].
  - intros e He. destruct (E _ He) as [[na [A1 A2]] [nb [B1 B2]]]. split; [exists na | exists nb]; (split; [apply in_or_app; left; assumption | assumption]).
  - exact D.
  - intros m Hm _. apply in_app_or in Hm as [Hm|[Hm|[]]].
    + apply (struct_stableR ep g); auto. intros _ _. apply STL; assumption.
    + subst m. split; [|split]; intro Hc; rewrite Hc in H1; simpl in H1; try discriminate.
      intros j r Hin. rewrite nbrs_add_node, (nbrs_fresh_nil _ _ E H) in Hin. destruct Hin.
  - apply ForallOrdPairs_snoc.
    + eapply ForallOrdPairs_impl_in; [|exact N]. intros a b Ha Hb Hab _ _. simpl in Hab.
      rewrite (name_clash_stable g); auto.
    + apply Forall_forall. intros m Hm _ _. apply name_clash_false_by_name.
      unfold name_free in H0. rewrite forallb_forall in H0. apply H0. exact Hm.
Qed.

Theorem WF_add_plain g n : WF g -> plain_ok g n = true -> WF (add_plain g n).
Proof. intros W H. apply WF_WFr. apply WFr_add_plain; [apply WF_WFr; exact W | exact H]. Qed.

(* ---- add_owned --------------------------------------------------------------------------------------- *)


Lemma sServicePort_ne_sub : str_eqb sSubInterface sServicePort = false.
Proof. reflexivity. Qed.

Lemma is_type_excl n t1 t2 : is_type n t1 = true -> str_eqb t1 t2 = false -> is_type n t2 = false.
Proof.
  unfold is_type. intros H1 H2. apply ostr_eqb_eq in H1. rewrite H1. simpl. exact H2.
Qed.

Lemma owner_shape_has_id g n a r : owner_shape_ok g n a r = true -> has_id g a = true.
Proof.
  unfold owner_shape_ok. destruct (ncls n); try discriminate; intro H.
  - apply andb_true_iff in H as [_ H]. apply orb_true_iff in H as [H|H]; eapply cls_is_has_id; eauto.
  - apply andb_true_iff in H as [_ H]. apply orb_true_iff in H as [H|H]; [apply orb_true_iff in H as [H|H]|]; eapply cls_is_has_id; eauto.
  - apply andb_true_iff in H as [_ H]. destruct (is_type n sSubInterface).
    + apply andb_true_iff in H as [H _]. eapply cls_is_has_id; eauto.
    + eapply cls_is_has_id; eauto.
Qed.

Lemma owner_not_link g n a r : owner_shape_ok g n a r = true -> cls_is g a KLink = false.
Proof.
  unfold owner_shape_ok. destruct (ncls n); try discriminate; intro H.
  - apply andb_true_iff in H as [_ H]. apply orb_true_iff in H as [H|H]; eapply cls_is_unique; eauto; discriminate.
  - apply andb_true_iff in H as [_ H]. apply orb_true_iff in H as [H|H]; [apply orb_true_iff in H as [H|H]|]; eapply cls_is_unique; eauto; discriminate.
  - apply andb_true_iff in H as [_ H]. destruct (is_type n sSubInterface).
    + apply andb_true_iff in H as [H _]. eapply cls_is_unique; eauto; discriminate.
    + eapply cls_is_unique; eauto; discriminate.
Qed.

Lemma list_eqb_str_eq (l1 l2 : list str) : list_eqb str_eqb l1 l2 = true -> l1 = l2.
Proof.
  revert l2; induction l1 as [|a l1 IH]; destruct l2 as [|b l2]; simpl; intro H; try discriminate; [reflexivity|].
  apply andb_true_iff in H as [H1 H2]. apply str_eqb_eq in H1. f_equal; auto.
Qed.

Lemma nb_where_single g y j r (P : str -> rel -> bool) :
  nbrs g y = [(j, r)] -> nb_where g y P = if P j r then [j] else [].
Proof. intro H. unfold nb_where. rewrite H. simpl. destruct (P j r); reflexivity. Qed.



Lemma owner_shape_has_idR g n a r : owner_shape_okR g n a r = true -> has_id g a = true.
Proof.
  unfold owner_shape_okR. destruct (ncls n); try discriminate; intro H.
  - apply andb_true_iff in H as [_ H]. apply orb_true_iff in H as [H|H]; eapply cls_is_has_id; eauto.
  - apply andb_true_iff in H as [_ H]. apply orb_true_iff in H as [H|H]; [apply orb_true_iff in H as [H|H]|]; eapply cls_is_has_id; eauto.
  - apply andb_true_iff in H as [_ H]. destruct (is_type n sSubInterface).
    + apply andb_true_iff in H as [H _]. eapply cls_is_has_id; eauto.
    + eapply cls_is_has_id; eauto.
Qed.
Lemma owner_not_linkR g n a r : owner_shape_okR g n a r = true -> cls_is g a KLink = false.
Proof.
  unfold owner_shape_okR. destruct (ncls n); try discriminate; intro H.
  - apply andb_true_iff in H as [_ H]. apply orb_true_iff in H as [H|H]; eapply cls_is_unique; eauto; discriminate.
  - apply andb_true_iff in H as [_ H]. apply orb_true_iff in H as [H|H]; [apply orb_true_iff in H as [H|H]|]; eapply cls_is_unique; eauto; discriminate.
  - apply andb_true_iff in H as [_ H]. destruct (is_type n sSubInterface).
    + apply andb_true_iff in H as [H _]. eapply cls_is_unique; eauto; discriminate.
    + eapply cls_is_unique; eauto; discriminate.
Qed.

Section AddOwnedR.
Variables (ep : str -> bool) (g : graph) (n : node) (a : str) (r : rel).
Let x := nid n.
Let g' := add_owned g n a r.
Hypothesis W : WFr no_exempt ep g.
Hypothesis OK : owned_okR g n a r = true.
Hypothesis HSP : ncls n = KCP -> is_type n sServicePort = true -> ep (nid n) = true.

Lemma aw_freshR : has_id g x = false.
Proof. unfold owned_okR in OK. repeat (apply andb_true_iff in OK as [OK ?]). apply negb_true_iff in OK. exact OK. Qed.
Lemma aw_new_ok : fields_ok n = true /\ vocab_ok n = true.
Proof. unfold owned_okR in OK. repeat (apply andb_true_iff in OK as [OK ?]). unfold new_node_ok in H1. apply andb_true_iff in H1. exact H1. Qed.
Lemma aw_shape : owner_shape_okR g n a r = true.
Proof. unfold owned_okR in OK. repeat (apply andb_true_iff in OK as [OK ?]). assumption. Qed.
Lemma aw_sibling : sibling_free g a r (ncls n) (nname n) = true.
Proof. unfold owned_okR in OK. repeat (apply andb_true_iff in OK as [OK ?]). assumption. Qed.
Lemma aw_has_a : has_id g a = true.
Proof. eapply owner_shape_has_idR. apply aw_shape. Qed.

Let Hf := aw_freshR.
Let Ha := aw_has_a.

Lemma ao_a_ne_x : a <> x.
Proof. intro E. rewrite E in Ha. congruence. Qed.

Lemma ao_find_old y : y <> x -> find_nodes g' y = find_nodes g y.
Proof. intro H. unfold g', add_owned. rewrite find_nodes_add_edge. apply find_nodes_add_node_other. exact H. Qed.
Lemma ao_find_newR : find_nodes g' x = [n].
Proof. unfold g', add_owned. rewrite find_nodes_add_edge. apply find_nodes_add_node_same. exact Hf. Qed.

Lemma ao_nbrs y :
  nbrs g' y = nbrs g y ++ (if str_eqb a y then [(x, r)] else if str_eqb x y then [(a, r)] else []).
Proof.
  unfold g', add_owned. rewrite nbrs_add_edge.
  - rewrite nbrs_add_node. reflexivity.
  - change (no_edge g a (nid n) = true). apply no_edge_fresh; [apply (r_edge_ends _ _ _ W) | exact Hf].
Qed.

Lemma ao_old_nb_ne y j r' : In (j, r') (nbrs g y) -> j <> x /\ y <> x.
Proof.
  intro H. apply (nbrs_has_id _ _ _ _ (r_edge_ends _ _ _ W)) in H as [H1 H2].
  split; intro E; subst; congruence.
Qed.

Lemma ao_stable y : has_id g y = true -> y <> a -> stable g g' y.
Proof.
  intros Hy Hne. split; [|split].
  - rewrite ao_nbrs. assert (E1 : str_eqb a y = false) by (apply str_eqb_neq; congruence).
    assert (E2 : str_eqb x y = false) by (apply str_eqb_neq; intro E; subst; congruence).
    rewrite E1, E2. apply app_nil_r.
  - apply ao_find_old. intro E. subst. congruence.
  - intros j r' Hin. apply ao_find_old. apply (ao_old_nb_ne _ _ _ Hin).
Qed.

Lemma ao_nbrs_a : nbrs g' a = nbrs g a ++ [(x, r)].
Proof. rewrite ao_nbrs, str_eqb_refl. reflexivity. Qed.
Lemma ao_nbrs_xR : nbrs g' x = [(a, r)].
Proof.
  rewrite ao_nbrs. rewrite (nbrs_fresh_nil _ _ (r_edge_ends _ _ _ W) Hf).
  assert (E1 : str_eqb a x = false) by (apply str_eqb_neq; apply ao_a_ne_x).
  rewrite E1, str_eqb_refl. reflexivity.
Qed.

Lemma ao_cls_old y k : y <> x -> cls_is g' y k = cls_is g y k.
Proof. intro H. apply cls_is_ext. apply ao_find_old. exact H. Qed.
Lemma ao_typ_old y t : y <> x -> typ_is g' y t = typ_is g y t.
Proof. intro H. apply typ_is_ext. apply ao_find_old. exact H. Qed.
Lemma ao_cls_newR k : cls_is g' x k = cls_eqb (ncls n) k.
Proof. unfold cls_is, cls_of. rewrite ao_find_newR. reflexivity. Qed.
Lemma ao_typ_new t : typ_is g' x t = is_type n t.
Proof. unfold typ_is, typ_of, is_type. rewrite ao_find_newR. destruct (ntyp n); reflexivity. Qed.
Lemma ao_name_old y : y <> x -> name_of g' y = name_of g y.
Proof. intro H. apply name_of_ext. apply ao_find_old. exact H. Qed.

(* a filtered neighbour list of the owner gains at most the new element *)
Lemma ao_where_a (P P' : str -> rel -> bool) :
  (forall j r', In (j, r') (nbrs g a) -> P' j r' = P j r') ->
  nb_where g' a P' = nb_where g a P ++ (if P' x r then [x] else []).
Proof.
  intro H. rewrite (nb_where_app g g' a P P' [(x, r)] ao_nbrs_a H). simpl. destruct (P' x r); reflexivity.
Qed.

Lemma ao_first_nb_aR r' k :
  first_nb g' a r' k = first_nb g a r' k ++ (if rel_eqb r r' && cls_eqb (ncls n) k then [x] else []).
Proof.
  rewrite !first_nb_as_where. rewrite (ao_where_a (fun j r0 => rel_eqb r0 r' && cls_is g j k)).
  - rewrite ao_cls_newR. reflexivity.
  - intros j r0 Hin. rewrite ao_cls_old; [reflexivity | apply (ao_old_nb_ne _ _ _ Hin)].
Qed.



(* what the side condition says, by class of the new element *)
Lemma aw_cases :
  (ncls n = KComp /\ r = Has /\ (cls_is g a KNode = true \/ cls_is g a KComposite = true)) \/
  (ncls n = KNS /\ r = Has /\ (cls_is g a KNode = true \/ cls_is g a KComposite = true \/ cls_is g a KComp = true)) \/
  (ncls n = KCP /\ r = Connects /\ True /\
     ((is_type n sSubInterface = true /\ cls_is g a KCP = true /\ typ_is g a sSubInterface = false) \/
      (is_type n sSubInterface = false /\ cls_is g a KNS = true))).
Proof.
  pose proof aw_shape as H. unfold owner_shape_okR in H. destruct (ncls n) eqn:Ec; try discriminate.
  - left. apply andb_true_iff in H as [H1 H2]. apply rel_eqb_eq in H1. apply orb_true_iff in H2. auto.
  - right; left. apply andb_true_iff in H as [H1 H2]. apply rel_eqb_eq in H1.
    apply orb_true_iff in H2 as [H2|H2]; [apply orb_true_iff in H2|]; tauto.
  - right; right. apply andb_true_iff in H as [H1 H3].
    apply rel_eqb_eq in H1. split; [reflexivity|]. split; [exact H1|]. split; [exact I|].
    destruct (is_type n sSubInterface).
    + left. apply andb_true_iff in H3 as [H3 H4]. apply negb_true_iff in H4. auto.
    + right. auto.
Qed.

Lemma aw_not_link : cls_is g a KLink = false.
Proof. eapply owner_not_linkR. apply aw_shape. Qed.

Lemma aw_stable_old m : In m (gnodes g) -> nid m <> a -> stable g g' (nid m).
Proof. intros Hm Hne. apply ao_stable; [apply In_has_id; exact Hm | exact Hne]. Qed.
Lemma aw_stable_link y l : In l (first_nb g y Connects KLink) -> stable g g' l.
Proof.
  intro Hl. apply ao_stable.
  - eapply first_nb_has_id; [apply (r_edge_ends _ _ _ W) | exact Hl].
  - intro E. subst l. apply In_first_nb in Hl as [_ Hl]. rewrite aw_not_link in Hl. discriminate.
Qed.

(* the owner's own lists *)
Lemma aw_comp_owners_a : comp_owners g' a = comp_owners g a.
Proof.
  unfold comp_owners.
  rewrite (ao_where_a (fun j r0 => rel_eqb r0 Has && (cls_is g j KNode || cls_is g j KComposite))).
  - rewrite !ao_cls_newR.
    destruct aw_cases as [[E _]|[[E _]|[E _]]]; rewrite E; simpl; rewrite andb_false_r; apply app_nil_r.
  - intros j r0 Hin. destruct (ao_old_nb_ne _ _ _ Hin) as [Hj _].
    rewrite !(ao_cls_old j _ Hj). reflexivity.
Qed.
Lemma aw_ns_owners_a : cls_is g a KNS = true -> ns_owners g' a = ns_owners g a.
Proof.
  intro HK. unfold ns_owners.
  rewrite (ao_where_a (fun j r0 => rel_eqb r0 Has && (cls_is g j KNode || cls_is g j KComposite || cls_is g j KComp))).
  - rewrite !ao_cls_newR.
    destruct aw_cases as [[E [_ [H|H]]]|[[E [_ [H|[H|H]]]]|[E _]]];
      try (rewrite (cls_is_unique _ _ _ _ H) in HK; [discriminate HK | discriminate]).
    rewrite E. simpl. rewrite andb_false_r. apply app_nil_r.
  - intros j r0 Hin. destruct (ao_old_nb_ne _ _ _ Hin) as [Hj _].
    rewrite !(ao_cls_old j _ Hj). reflexivity.
Qed.
Lemma aw_cp_owners_a : cls_is g a KCP = true -> cp_owners g' a = cp_owners g a.
Proof.
  intro HK. unfold cp_owners.
  rewrite (ao_where_a
            (fun j r0 => rel_eqb r0 Connects && (cls_is g j KNS || (typ_is g a sSubInterface && cls_is g j KCP && negb (typ_is g j sSubInterface))))).
  - rewrite !ao_cls_newR, (ao_typ_old a _ ao_a_ne_x).
    destruct aw_cases as [[E [_ [H|H]]]|[[E [_ [H|[H|H]]]]|[E [_ [_ [[H1 [H2 H3]]|[H1 H2]]]]]]];
      try (rewrite (cls_is_unique _ _ _ _ H) in HK; [discriminate HK | discriminate]).
    + rewrite E, H3. simpl. rewrite andb_false_r. apply app_nil_r.
    + rewrite (cls_is_unique _ _ _ _ H2) in HK; [discriminate HK | discriminate].
  - intros j r0 Hin. destruct (ao_old_nb_ne _ _ _ Hin) as [Hj _].
    rewrite !(ao_cls_old j _ Hj), (ao_typ_old j _ Hj), (ao_typ_old a _ ao_a_ne_x).
    reflexivity.
Qed.

Lemma aw_links_a : first_nb g' a Connects KLink = first_nb g a Connects KLink.
Proof.
  rewrite ao_first_nb_aR.
  destruct aw_cases as [[E _]|[[E _]|[E _]]]; rewrite E; simpl; rewrite andb_false_r; apply app_nil_r.
Qed.
Lemma aw_peers_a : peers g' a = peers g a.
Proof.
  unfold peers. rewrite aw_links_a. apply flat_map_ext_in. intros l Hl.
  rewrite (first_nb_stable g g' l Connects KCP (aw_stable_link _ _ Hl)). reflexivity.
Qed.

Lemma aw_scope_old m : In m (gnodes g) -> scope_of g' m = scope_of g m.
Proof.
  intro Hm. destruct (str_eq_dec (nid m) a) as [E|Hne]; [|apply scope_stable; apply aw_stable_old; assumption].
  unfold scope_of. pose proof (cls_is_node g m (ncls m) (r_ids _ _ _ W) Hm) as Hc. rewrite cls_eqb_refl, E in Hc.
  destruct (ncls m); try reflexivity; rewrite E.
  - apply aw_comp_owners_a.
  - apply aw_ns_owners_a. exact Hc.
  - apply aw_cp_owners_a. exact Hc.
Qed.

(* the new element's own lists *)
Lemma aw_scope_new : scope_of g' n = [a].
Proof.
  pose proof ao_nbrs_xR as Hn.
  pose proof ao_a_ne_x as Hax.
  unfold scope_of.
  destruct aw_cases as [[E [Er [H|H]]]|[[E [Er [H|[H|H]]]]|[E [Er [_ [[H1 [H2 H3]]|[H1 H2]]]]]]]; rewrite E.
  - unfold comp_owners. rewrite (nb_where_single _ _ _ _ _ Hn), Er, !(ao_cls_old a _ Hax), H. reflexivity.
  - unfold comp_owners. rewrite (nb_where_single _ _ _ _ _ Hn), Er, !(ao_cls_old a _ Hax), H, orb_true_r. reflexivity.
  - unfold ns_owners. rewrite (nb_where_single _ _ _ _ _ Hn), Er, !(ao_cls_old a _ Hax), H. reflexivity.
  - unfold ns_owners. rewrite (nb_where_single _ _ _ _ _ Hn), Er, !(ao_cls_old a _ Hax), H. simpl. rewrite orb_true_r. reflexivity.
  - unfold ns_owners. rewrite (nb_where_single _ _ _ _ _ Hn), Er, !(ao_cls_old a _ Hax), H. simpl. rewrite !orb_true_r. reflexivity.
  - unfold cp_owners. rewrite (nb_where_single _ _ _ _ _ Hn), Er.
    rewrite !(ao_cls_old a _ Hax), (ao_typ_old a _ Hax), ao_typ_new, H1, H2, H3.
    simpl. rewrite orb_true_r. reflexivity.
  - unfold cp_owners. rewrite (nb_where_single _ _ _ _ _ Hn), Er.
    rewrite !(ao_cls_old a _ Hax), H2. reflexivity.
Qed.

Lemma aw_edges : gedges g' = gedges g ++ [mkEdge a x r].
Proof.
  unfold g', add_owned, g_add_edge. simpl. f_equal. apply filter_id. intros e He.
  pose proof (no_edge_fresh g a x (r_edge_ends _ _ _ W) Hf) as Hn. unfold no_edge in Hn. apply negb_true_iff in Hn.
  fold x. destruct (same_ends e a x) eqn:E; [|reflexivity].
  assert (existsb (fun e => same_ends e a x) (gedges g) = true) by (apply existsb_exists; eauto). congruence.
Qed.

Lemma aw_struct_new : struct_Pr ep g' n.
Proof.
  pose proof ao_nbrs_xR as Hn. unfold x in Hn. pose proof ao_a_ne_x as Hax. unfold x in Hax. pose proof aw_scope_new as Hs. unfold scope_of in Hs.
  pose proof ao_typ_new as Htn. unfold x in Htn.
  split; [|split]; intro Hc.
  - rewrite Hc in Hs. rewrite Hs. reflexivity.
  - rewrite Hc in Hs. split; [rewrite Hs; reflexivity|]. split.
    + intros j Hj. apply In_first_nb in Hj as [Hj Hk]. rewrite Hn in Hj. destruct Hj as [Hj|[]]. injection Hj as Ej Erj. subst j.
      rewrite (ao_cls_old a _ Hax) in Hk. rewrite Htn, (ao_typ_old a _ Hax).
      destruct aw_cases as [[E _]|[[E _]|[E [Er [_ [[H1 [H2 H3]]|[H1 H2]]]]]]]; [congruence | congruence | |].
      * rewrite H1, H3. discriminate.
      * rewrite (cls_is_unique _ _ _ _ H2) in Hk; [discriminate Hk | discriminate].
    + intros Ht Hp. exfalso. assert (X : is_type n sServicePort = true) by (unfold is_type; rewrite Ht; reflexivity).
      rewrite (HSP Hc X) in Hp. discriminate Hp.
  - destruct aw_cases as [[E _]|[[E _]|[E _]]]; congruence.
Qed.

Lemma aw_struct_old m : In m (gnodes g) -> struct_Pr ep g' m.
Proof.
  intro Hm. pose proof (r_struct _ _ _ W _ Hm eq_refl) as [S1 [S2 S3]].
  destruct (str_eq_dec (nid m) a) as [E|Hne].
  - pose proof (cls_is_node g m (ncls m) (r_ids _ _ _ W) Hm) as Hc. rewrite cls_eqb_refl, E in Hc.
    split; [|split]; intro Hk; rewrite E.
    + rewrite aw_comp_owners_a. rewrite <- E. auto.
    + rewrite Hk in Hc. destruct (S2 Hk) as [A [B C]]. rewrite E in A, B, C. split; [|split].
      * rewrite (aw_cp_owners_a Hc). exact A.
      * intros j Hj. rewrite ao_first_nb_aR in Hj. apply in_app_or in Hj as [Hj|Hj].
        -- specialize (B _ Hj). apply In_first_nb in Hj as [Hj _]. destruct (ao_old_nb_ne _ _ _ Hj) as [Hjx _].
           rewrite (ao_typ_old a _ ao_a_ne_x), (ao_typ_old j _ Hjx). exact B.
        -- destruct (rel_eqb r Connects && cls_eqb (ncls n) KCP) eqn:Eb; [|destruct Hj].
           destruct Hj as [Hj|[]]. subst j. rewrite (ao_typ_old a _ ao_a_ne_x), ao_typ_new.
           destruct aw_cases as [[En _]|[[En _]|[En [Er [_ [[H1 [H2 H3]]|[H1 H2]]]]]]].
           ++ rewrite En in Eb. simpl in Eb. rewrite andb_false_r in Eb. discriminate.
           ++ rewrite En in Eb. simpl in Eb. rewrite andb_false_r in Eb. discriminate.
           ++ rewrite H1, H3. discriminate.
           ++ rewrite (cls_is_unique _ _ _ _ H2) in Hc; [discriminate Hc | discriminate].
      * intros Ht Hp. rewrite aw_peers_a. auto.
    + rewrite Hk in Hc. rewrite aw_not_link in Hc. discriminate.
  - apply (struct_stableR ep g); [apply aw_stable_old; assumption | intros _ _ l Hl; eapply aw_stable_link; eauto | split; auto].
Qed.

Lemma aw_sibling_name m :
  In m (gnodes g) -> ncls m = ncls n -> scope_of g m = [a] -> ostr_eqb (nname m) (nname n) = false.
Proof.
  intros Hm Hc Hs. pose proof aw_sibling as SF. unfold sibling_free in SF. rewrite forallb_forall in SF.
  assert (Hin : In (nid m) (first_nb g a r (ncls n))).
  { apply In_first_nb. split.
    - apply nbrs_sym. unfold scope_of in Hs.
      assert (Hi : exists r0, In (a, r0) (nbrs g (nid m)) /\ r0 = r).
      { destruct aw_cases as [[E [Er _]]|[[E [Er _]]|[E [Er _]]]]; rewrite Hc, E in Hs;
          (assert (Ha' : In a [a]) by (left; reflexivity)); rewrite <- Hs in Ha';
          apply In_nb_where in Ha' as [r0 [H1 H2]]; exists r0; (split; [exact H1|]);
          apply andb_true_iff in H2 as [H2 _]; apply rel_eqb_eq in H2; congruence. }
      destruct Hi as [r0 [H1 H2]]. subst r0. exact H1.
    - rewrite <- Hc. rewrite (cls_is_node g m _ (r_ids _ _ _ W) Hm). apply cls_eqb_refl. }
  specialize (SF _ Hin). apply negb_true_iff in SF. rewrite (name_of_node g m (r_ids _ _ _ W) Hm) in SF. exact SF.
Qed.

Theorem WFr_add_owned_sec : WFr no_exempt ep g'.
Proof.
  destruct aw_new_ok as [Hfo Hvo].
  constructor.
  - intros m Hm. unfold g', add_owned in Hm. simpl in Hm. apply in_app_or in Hm as [Hm|[Hm|[]]];
      [apply (r_fields _ _ _ W); assumption | subst; apply fields_ok_P; exact Hfo].
  - intros m Hm. unfold g', add_owned in Hm. simpl in Hm. apply in_app_or in Hm as [Hm|[Hm|[]]];
      [apply (r_vocab _ _ _ W); assumption | subst; apply vocab_ok_P; exact Hvo].
  - unfold g', add_owned. simpl. rewrite map_app. simpl. apply NoDup_snoc; [apply (r_ids _ _ _ W) | apply has_id_false_notin; exact Hf].
  - intros e He. rewrite aw_edges in He.
    assert (Hsub : forall y, has_id g y = true -> exists n0, In n0 (gnodes g') /\ nid n0 = y).
    { intros y Hy. apply has_id_In in Hy as [n0 [A B]]. exists n0. split; [|exact B]. unfold g', add_owned. simpl. apply in_or_app. left. exact A. }
    apply in_app_or in He as [He|[He|[]]].
    + destruct (r_edge_ends _ _ _ W _ He) as [A B]. split; apply Hsub; apply has_id_In; assumption.
    + subst e. simpl. split; [apply Hsub; exact Ha|]. exists n. split; [|reflexivity]. unfold g', add_owned. simpl. apply in_or_app. right. left. reflexivity.
  - rewrite aw_edges. apply ForallOrdPairs_snoc; [apply (r_edges_distinct _ _ _ W)|].
    apply Forall_forall. intros e He. simpl. unfold same_ends. simpl.
    destruct (r_edge_ends _ _ _ W _ He) as [A B]. apply has_id_In in A. apply has_id_In in B.
    assert (E1 : str_eqb x (eb e) = false) by (apply str_eqb_neq; intro E; rewrite <- E in B; fold x in Hf; congruence).
    assert (E2 : str_eqb x (ea e) = false) by (apply str_eqb_neq; intro E; rewrite <- E in A; fold x in Hf; congruence).
    rewrite E1, E2, !andb_false_r. reflexivity.
  - intros m Hm _. unfold g', add_owned in Hm. simpl in Hm. apply in_app_or in Hm as [Hm|[Hm|[]]].
    + apply aw_struct_old. exact Hm.
    + subst m. apply aw_struct_new.
  - change (gnodes g') with (gnodes g ++ [n]). apply ForallOrdPairs_snoc.
    + eapply ForallOrdPairs_impl_in; [|apply (r_names _ _ _ W)]. intros m1 m2 H1 H2 Hc _ _. simpl in Hc. specialize (Hc eq_refl eq_refl).
      unfold name_clash in *. rewrite (aw_scope_old _ H1), (aw_scope_old _ H2). exact Hc.
    + apply Forall_forall. intros m Hm _ _. unfold name_clash. rewrite (aw_scope_old _ Hm), aw_scope_new.
      destruct (cls_eqb (ncls m) (ncls n)) eqn:Ec; [|reflexivity]. simpl. apply cls_eqb_eq in Ec.
      destruct (list_eqb str_eqb (scope_of g m) [a]) eqn:Es; [|apply andb_false_r].
      apply list_eqb_str_eq in Es. pose proof (aw_sibling_name m Hm Ec Es) as Hn.
      destruct (nname m), (nname n); simpl in *; try reflexivity. rewrite Hn. reflexivity.
Qed.

End AddOwnedR.


Lemma owned_ok_R g n a r : owned_ok g n a r = true -> owned_okR g n a r = true /\ (ncls n = KCP -> is_type n sServicePort = false).
Proof.
  unfold owned_ok, owned_okR. intro H. apply andb_true_iff in H as [H Hs]. apply andb_true_iff in H as [H Hsh]. apply andb_true_iff in H as [Hf Hn].
  rewrite Hf, Hn, Hs. simpl. rewrite andb_true_r.
  unfold owner_shape_ok in Hsh. unfold owner_shape_okR. destruct (ncls n); try discriminate Hsh.
  - rewrite Hsh. split; [reflexivity | intro X; discriminate X].
  - rewrite Hsh. split; [reflexivity | intro X; discriminate X].
  - apply andb_true_iff in Hsh as [H1 H3]. apply andb_true_iff in H1 as [H1 H4]. apply negb_true_iff in H4.
    rewrite H1, H3. auto.
Qed.

Theorem WFr_add_owned ep g n a r :
  WFr no_exempt ep g -> owned_okR g n a r = true -> (ncls n = KCP -> is_type n sServicePort = true -> ep (nid n) = true) ->
  WFr no_exempt ep (add_owned g n a r).
Proof. intros W OK H. exact (WFr_add_owned_sec ep g n a r W OK H). Qed.

Theorem WF_add_owned g n a r : WF g -> owned_ok g n a r = true -> WF (add_owned g n a r).
Proof.
  intros W OK. destruct (owned_ok_R _ _ _ _ OK) as [OKR NSP]. apply WF_WFr.
  apply WFr_add_owned; [apply WF_WFr; exact W | exact OKR | intros C X; rewrite (NSP C) in X; discriminate X].
Qed.

(* the frame facts of add_owned, in the form the API proofs use them *)
Lemma aw_fresh g n a r : owned_ok g n a r = true -> has_id g (nid n) = false.
Proof. intro OK. destruct (owned_ok_R _ _ _ _ OK) as [OKR _]. exact (aw_freshR g n a r OKR). Qed.
Lemma ao_cls_new g n a r : owned_ok g n a r = true -> forall k, cls_is (add_owned g n a r) (nid n) k = cls_eqb (ncls n) k.
Proof. intro OK. destruct (owned_ok_R _ _ _ _ OK) as [OKR _]. exact (ao_cls_newR g n a r OKR). Qed.
Lemma ao_find_new g n a r : owned_ok g n a r = true -> find_nodes (add_owned g n a r) (nid n) = [n].
Proof. intro OK. destruct (owned_ok_R _ _ _ _ OK) as [OKR _]. exact (ao_find_newR g n a r OKR). Qed.
Lemma ao_first_nb_a g n a r : WF g -> owned_ok g n a r = true -> forall r' k,
  first_nb (add_owned g n a r) a r' k = first_nb g a r' k ++ (if rel_eqb r r' && cls_eqb (ncls n) k then [nid n] else []).
Proof. intros W OK. destruct (owned_ok_R _ _ _ _ OK) as [OKR _]. apply WF_WFr in W. exact (ao_first_nb_aR no_exempt g n a r W OKR). Qed.
Lemma ao_nbrs_x g n a r : WF g -> owned_ok g n a r = true -> nbrs (add_owned g n a r) (nid n) = [(a, r)].
Proof. intros W OK. destruct (owned_ok_R _ _ _ _ OK) as [OKR _]. apply WF_WFr in W. exact (ao_nbrs_xR no_exempt g n a r W OKR). Qed.


(* ---- add_link_edge ----------------------------------------------------------------------------------- *)
Section AddLinkEdge.
Variables (ep : str -> bool) (g : graph) (l i : str).
Let g' := add_link_edge g l i.
Hypothesis W : WFr no_exempt ep g.
Hypothesis OK : link_edge_okR ep g l i = true.

Lemma le_parts :
  cls_is g l KLink = true /\ cls_is g i KCP = true /\ (typ_is g i sServicePort = true -> ep i = true) /\ no_edge g l i = true /\
  (forall y, In y (first_nb g l Connects KCP) -> typ_is g y sServicePort = true -> ep y = true).
Proof.
  unfold link_edge_okR in OK. repeat (apply andb_true_iff in OK as [OK ?]).
  repeat split; auto.
  - intro T. rewrite T in H1. simpl in H1. exact H1.
  - intros y Hy T. rewrite forallb_forall in H. specialize (H y Hy). rewrite T in H. simpl in H. exact H.
Qed.

Lemma le_l_ne_i : l <> i.
Proof.
  destruct le_parts as [A [B _]]. intro E. subst. rewrite (cls_is_unique _ _ _ _ A) in B; [discriminate B | discriminate].
Qed.

Lemma le_find y : find_nodes g' y = find_nodes g y.
Proof. reflexivity. Qed.

Lemma le_nbrs y :
  nbrs g' y = nbrs g y ++ (if str_eqb l y then [(i, Connects)] else if str_eqb i y then [(l, Connects)] else []).
Proof. destruct le_parts as [_ [_ [_ [NE _]]]]. unfold g', add_link_edge. rewrite (nbrs_add_edge _ _ _ _ _ NE). reflexivity. Qed.

Lemma le_stable y : y <> l -> y <> i -> stable g g' y.
Proof.
  intros H1 H2. split; [|split; [reflexivity | intros; reflexivity]].
  rewrite le_nbrs.
  assert (E1 : str_eqb l y = false) by (apply str_eqb_neq; congruence).
  assert (E2 : str_eqb i y = false) by (apply str_eqb_neq; congruence).
  rewrite E1, E2. apply app_nil_r.
Qed.

Lemma le_where (P : str -> rel -> bool) y :
  nb_where g' y P = nb_where g y P ++
    map fst (filter (fun p => P (fst p) (snd p))
      (if str_eqb l y then [(i, Connects)] else if str_eqb i y then [(l, Connects)] else [])).
Proof. apply (nb_where_app g g' y P P _ (le_nbrs y)). reflexivity. Qed.

Lemma le_cls y k : cls_is g' y k = cls_is g y k. Proof. reflexivity. Qed.
Lemma le_typ y t : typ_is g' y t = typ_is g y t. Proof. reflexivity. Qed.

Lemma le_comp_owners y : comp_owners g' y = comp_owners g y.
Proof.
  destruct le_parts as [A [B _]]. unfold comp_owners. rewrite le_where.
  destruct (str_eqb l y); [|destruct (str_eqb i y)]; simpl; try apply app_nil_r.
Qed.
Lemma le_ns_owners y : ns_owners g' y = ns_owners g y.
Proof.
  destruct le_parts as [A [B _]]. unfold ns_owners. rewrite le_where.
  destruct (str_eqb l y); [|destruct (str_eqb i y)]; simpl; try apply app_nil_r.
Qed.
Lemma le_cp_owners y : cp_owners g' y = cp_owners g y.
Proof.
  destruct le_parts as [A [B _]]. unfold cp_owners.
  change (fun (j : str) (r : rel) => rel_eqb r Connects && (cls_is g' j KNS || typ_is g' y sSubInterface && cls_is g' j KCP && negb (typ_is g' j sSubInterface)))
    with (fun (j : str) (r : rel) => rel_eqb r Connects && (cls_is g j KNS || typ_is g y sSubInterface && cls_is g j KCP && negb (typ_is g j sSubInterface))).
  rewrite le_where.
  destruct (str_eqb l y) eqn:E1; [|destruct (str_eqb i y) eqn:E2]; simpl; try apply app_nil_r.
  - (* y = l: the new neighbour i is an interface; l is a link, never a sub-interface *)
    apply str_eqb_eq in E1. subst y.
    assert (Hs : typ_is g l sSubInterface && cls_is g i KCP = false \/ True) by (right; exact I).
    rewrite (cls_is_unique _ _ _ _ B) by discriminate. simpl.
    destruct (typ_is g l sSubInterface && cls_is g i KCP && negb (typ_is g i sSubInterface)) eqn:E; [|apply app_nil_r].
    (* a link node whose type is SubInterface: excluded by the vocabulary *)
    exfalso. apply andb_true_iff in E as [E _]. apply andb_true_iff in E as [E _].
    unfold cls_is, cls_of in A. unfold typ_is, typ_of in E.
    destruct (find_nodes g l) as [|m ms] eqn:F; [discriminate|].
    assert (Hm : In m (gnodes g)).
    { assert (In m (find_nodes g l)) by (rewrite F; left; reflexivity). unfold find_nodes in H. apply filter_In in H. tauto. }
    apply cls_eqb_eq in A. pose proof (r_vocab _ _ _ W _ Hm) as V. apply vocab_ok_P in V.
    unfold vocab_ok, vocab_ok_in in V. rewrite A in V. simpl in V.
    destruct (ntyp m) as [t|]; [|discriminate]. apply str_eqb_eq in E. subst t.
    revert V. vm_compute. discriminate.
  - rewrite (cls_is_unique _ _ _ KNS A) by discriminate. rewrite (cls_is_unique _ _ _ KCP A) by discriminate.
    rewrite andb_false_r. simpl. apply app_nil_r.
Qed.

Lemma le_first_cp y : y <> l -> first_nb g' y Connects KCP = first_nb g y Connects KCP.
Proof.
  intro Hne. destruct le_parts as [A [B _]]. rewrite !first_nb_as_where.
  change (fun (j : str) (r' : rel) => rel_eqb r' Connects && cls_is g' j KCP) with (fun (j : str) (r' : rel) => rel_eqb r' Connects && cls_is g j KCP).
  rewrite le_where.
  assert (E1 : str_eqb l y = false) by (apply str_eqb_neq; congruence). rewrite E1.
  destruct (str_eqb i y); simpl; try apply app_nil_r.
  rewrite (cls_is_unique _ _ _ _ A) by discriminate. simpl. apply app_nil_r.
Qed.
Lemma le_first_link y : y <> i -> first_nb g' y Connects KLink = first_nb g y Connects KLink.
Proof.
  intro Hne. destruct le_parts as [A [B _]]. rewrite !first_nb_as_where.
  change (fun (j : str) (r' : rel) => rel_eqb r' Connects && cls_is g' j KLink) with (fun (j : str) (r' : rel) => rel_eqb r' Connects && cls_is g j KLink).
  rewrite le_where.
  assert (E2 : str_eqb i y = false) by (apply str_eqb_neq; congruence). rewrite E2.
  destruct (str_eqb l y); simpl; try apply app_nil_r.
  rewrite (cls_is_unique _ _ _ _ B) by discriminate. simpl. apply app_nil_r.
Qed.

Lemma le_scope m : scope_of g' m = scope_of g m.
Proof. unfold scope_of. destruct (ncls m); auto using le_comp_owners, le_ns_owners, le_cp_owners. Qed.

Lemma le_struct m : In m (gnodes g) -> struct_Pr ep g' m.
Proof.
  intro Hm. pose proof (r_struct _ _ _ W _ Hm eq_refl) as [S1 [S2 S3]]. destruct le_parts as [A [B [C [NE SP]]]].
  pose proof (cls_is_node g m (ncls m) (r_ids _ _ _ W) Hm) as Hc. rewrite cls_eqb_refl in Hc.
  split; [|split]; intro Hk.
  - rewrite le_comp_owners. auto.
  - rewrite Hk in Hc. destruct (S2 Hk) as [P1 [P2 P3]].
    assert (Hml : nid m <> l) by (intro E; rewrite E in Hc; rewrite (cls_is_unique _ _ _ _ A) in Hc; [discriminate Hc | discriminate]).
    split; [rewrite le_cp_owners; exact P1|]. split.
    + intros j Hj. rewrite (le_first_cp _ Hml) in Hj. rewrite !le_typ. auto.
    + intros Ht Hp. assert (Tm : typ_is g (nid m) sServicePort = true) by (rewrite (typ_is_node g m _ (r_ids _ _ _ W) Hm), Ht; reflexivity).
      assert (Hmi : nid m <> i).
      { intro E. rewrite E in Tm, Hp. rewrite (C Tm) in Hp. discriminate Hp. }
      unfold peers. rewrite (le_first_link _ Hmi). specialize (P3 Ht Hp). unfold peers in P3. rewrite <- P3. f_equal.
      apply flat_map_ext_in. intros l' Hl'. destruct (str_eq_dec l' l) as [E|Hne].
      * (* the service port would be an end of l: excluded by the side condition *)
        subst l'. exfalso. apply In_first_nb in Hl' as [Hl' _]. apply nbrs_sym in Hl'.
        assert (Hin : In (nid m) (first_nb g l Connects KCP)) by (apply In_first_nb; split; [exact Hl' | exact Hc]).
        rewrite (SP _ Hin Tm) in Hp. discriminate Hp.
      * rewrite (le_first_cp _ Hne). reflexivity.
  - intros j r Hin. rewrite Hk in Hc. rewrite le_nbrs in Hin. apply in_app_or in Hin as [Hin|Hin]; [apply (S3 Hk); exact Hin|].
    destruct (str_eqb l (nid m)) eqn:E1.
    + destruct Hin as [Hin|[]]. inversion Hin; subst. split; [reflexivity | exact B].
    + destruct (str_eqb i (nid m)) eqn:E2; [|destruct Hin].
      apply str_eqb_eq in E2. rewrite <- E2 in Hc. rewrite (cls_is_unique _ _ _ _ B) in Hc; [discriminate Hc | discriminate].
Qed.

Theorem WFr_add_link_edge_sec : WFr no_exempt ep g'.
Proof.
  destruct le_parts as [A [B [C [NE SP]]]].
  assert (EG : gedges g' = gedges g ++ [mkEdge l i Connects]).
  { unfold g', add_link_edge, g_add_edge. simpl. f_equal. apply filter_id. intros e He.
    unfold no_edge in NE. apply negb_true_iff in NE. destruct (same_ends e l i) eqn:E; [|reflexivity].
    assert (existsb (fun e => same_ends e l i) (gedges g) = true) by (apply existsb_exists; eauto). congruence. }
  constructor.
  - apply (r_fields _ _ _ W).
  - apply (r_vocab _ _ _ W).
  - apply (r_ids _ _ _ W).
  - intros e He. rewrite EG in He. apply in_app_or in He as [He|[He|[]]]; [apply (r_edge_ends _ _ _ W); exact He|].
    subst e. simpl. split; apply has_id_In; eapply cls_is_has_id; eauto.
  - rewrite EG. apply ForallOrdPairs_snoc; [apply (r_edges_distinct _ _ _ W)|].
    apply Forall_forall. intros e He. simpl.
    unfold no_edge in NE. apply negb_true_iff in NE.
    destruct (same_ends (mkEdge l i Connects) (ea e) (eb e)) eqn:E; [|reflexivity]. exfalso.
    assert (Hs : same_ends e l i = true).
    { unfold same_ends in *. simpl in E. rewrite (str_eqb_sym (ea e) l), (str_eqb_sym (eb e) i), (str_eqb_sym (ea e) i), (str_eqb_sym (eb e) l).
      apply orb_true_iff in E as [E|E]; apply andb_true_iff in E as [E1 E2]; rewrite E1, E2; simpl; [reflexivity | apply orb_true_r]. }
    assert (existsb (fun e => same_ends e l i) (gedges g) = true) by (apply existsb_exists; eauto). congruence.
  - intros m Hm _. apply le_struct. exact Hm.
  - change (gnodes g') with (gnodes g).
    eapply ForallOrdPairs_impl_in; [|apply (r_names _ _ _ W)]. intros a b _ _ Hc _ _. simpl in Hc. specialize (Hc eq_refl eq_refl).
    unfold name_clash in *. rewrite !le_scope. exact Hc.
Qed.
End AddLinkEdge.


Theorem WFr_add_link_edge ep g l i : WFr no_exempt ep g -> link_edge_okR ep g l i = true -> WFr no_exempt ep (add_link_edge g l i).
Proof. intros W OK. exact (WFr_add_link_edge_sec ep g l i W OK). Qed.

Lemma link_edge_ok_R g l i : link_edge_ok g l i = true -> link_edge_okR no_exempt g l i = true.
Proof.
  unfold link_edge_ok, link_edge_okR, no_exempt. intro H. repeat (apply andb_true_iff in H as [H ?]).
  rewrite H, H3, H2, H1. simpl.
  apply forallb_forall. intros y Hy. rewrite forallb_forall in H0. rewrite (H0 y Hy). reflexivity.
Qed.

Theorem WF_add_link_edge g l i : WF g -> link_edge_ok g l i = true -> WF (add_link_edge g l i).
Proof. intros W OK. apply WF_WFr. apply WFr_add_link_edge; [apply WF_WFr; exact W | apply link_edge_ok_R; exact OK]. Qed.


(* ---- remove_set ------------------------------------------------------------------------------------- *)
Section RemoveSet.
Variables (g : graph) (del : str -> bool).
Let g' := remove_set g del.
Hypothesis W : WF g.
Hypothesis CL : closed_b g del = true.

Lemma rs_find y : del y = false -> find_nodes g' y = find_nodes g y.
Proof.
  intro H. unfold g', remove_set, find_nodes. simpl. induction (gnodes g) as [|n l IH]; simpl; [reflexivity|].
  destruct (str_eqb (nid n) y) eqn:E.
  - apply str_eqb_eq in E. rewrite E, H. simpl. rewrite <- E at 1. rewrite str_eqb_refl. f_equal. exact IH.
  - destruct (negb (del (nid n))); simpl; [rewrite E|]; exact IH.
Qed.

Lemma rs_nbrs y : del y = false -> nbrs g' y = filter (fun p => negb (del (fst p))) (nbrs g y).
Proof.
  intro H. unfold g', remove_set, nbrs. simpl. induction (gedges g) as [|e l IH]; simpl; [reflexivity|].
  rewrite filter_app, <- IH. clear IH.
  destruct (str_eqb (ea e) y) eqn:E1.
  - apply str_eqb_eq in E1. rewrite E1, H. simpl. destruct (del (eb e)); simpl; [reflexivity|]. rewrite <- E1 at 1. rewrite str_eqb_refl. reflexivity.
  - destruct (str_eqb (eb e) y) eqn:E2.
    + apply str_eqb_eq in E2. rewrite E2, H, andb_true_r. simpl. destruct (del (ea e)); simpl; [reflexivity|]. rewrite E1, <- E2 at 1. rewrite str_eqb_refl. reflexivity.
    + simpl. destruct (negb (del (ea e)) && negb (del (eb e))); simpl; [rewrite E1, E2|]; reflexivity.
Qed.

Lemma rs_cls y k : del y = false -> cls_is g' y k = cls_is g y k.
Proof. intro H. apply cls_is_ext. apply rs_find. exact H. Qed.
Lemma rs_typ y t : del y = false -> typ_is g' y t = typ_is g y t.
Proof. intro H. apply typ_is_ext. apply rs_find. exact H. Qed.

(* a filtered neighbour list all of whose members survive is unchanged *)
Lemma rs_where_keep y (F : graph -> str -> rel -> bool) :
  del y = false ->
  (forall j r, del j = false -> F g' j r = F g j r) ->
  (forall j, In j (nb_where g y (F g)) -> del j = false) ->
  nb_where g' y (F g') = nb_where g y (F g).
Proof.
  intros Hy HF Hk. unfold nb_where in *. rewrite (rs_nbrs _ Hy).
  induction (nbrs g y) as [|[j r] l IH]; simpl in *; [reflexivity|].
  destruct (F g j r) eqn:E.
  - assert (Hj : del j = false) by (apply Hk; left; reflexivity). rewrite Hj. simpl. rewrite (HF _ _ Hj), E. simpl.
    f_equal. apply IH. intros; apply Hk; right; assumption.
  - destruct (del j) eqn:Hj; simpl; [apply IH; exact Hk|]. rewrite (HF _ _ Hj), E. apply IH. exact Hk.
Qed.

Lemma rs_where_sub y (F : graph -> str -> rel -> bool) j :
  del y = false -> (forall j r, del j = false -> F g' j r = F g j r) ->
  In j (nb_where g' y (F g')) -> In j (nb_where g y (F g)) /\ del j = false.
Proof.
  intros Hy HF H. apply In_nb_where in H as [r [H1 H2]]. rewrite (rs_nbrs _ Hy) in H1.
  apply filter_In in H1 as [H1 H3]. simpl in H3. apply negb_true_iff in H3. split; [|exact H3].
  apply In_nb_where. exists r. split; [exact H1|]. rewrite <- (HF _ _ H3). exact H2.
Qed.

Lemma rs_closed m : In m (gnodes g) -> del (nid m) = false ->
  match ncls m with
  | KComp => forall o, In o (comp_owners g (nid m)) -> del o = false
  | KNS => forall o, In o (ns_owners g (nid m)) -> del o = false
  | KCP => (forall o, In o (cp_owners g (nid m)) -> del o = false) /\
           (ntyp m = Some sServicePort -> forall l, In l (first_nb g (nid m) Connects KLink) ->
              del l = false /\ forall y, In y (first_nb g l Connects KCP) -> del y = false)
  | _ => True
  end.
Proof.
  intros Hm Hd. unfold closed_b in CL. rewrite forallb_forall in CL. specialize (CL _ Hm). rewrite Hd in CL. simpl in CL.
  destruct (ncls m); try exact I.
  - intros o Ho. rewrite forallb_forall in CL. apply negb_true_iff. auto.
  - intros o Ho. rewrite forallb_forall in CL. apply negb_true_iff. auto.
  - apply andb_true_iff in CL as [C1 C2]. split.
    + intros o Ho. rewrite forallb_forall in C1. apply negb_true_iff. auto.
    + intros Ht l Hl. unfold is_type in C2. rewrite Ht in C2. rewrite (proj2 (ostr_eqb_eq _ _) eq_refl) in C2. simpl in C2.
      rewrite forallb_forall in C2. specialize (C2 _ Hl). apply andb_true_iff in C2 as [C2 C3].
      apply negb_true_iff in C2. split; [exact C2|]. intros y Hy. rewrite forallb_forall in C3. apply negb_true_iff. auto.
Qed.

Lemma rs_comp_owners m : In m (gnodes g) -> del (nid m) = false -> ncls m = KComp -> comp_owners g' (nid m) = comp_owners g (nid m).
Proof.
  intros Hm Hd Hc. pose proof (rs_closed m Hm Hd) as C. rewrite Hc in C. unfold comp_owners.
  apply (rs_where_keep (nid m) (fun g j r => rel_eqb r Has && (cls_is g j KNode || cls_is g j KComposite)) Hd).
  - intros j r Hj. rewrite !(rs_cls _ _ Hj). reflexivity.
  - exact C.
Qed.
Lemma rs_ns_owners m : In m (gnodes g) -> del (nid m) = false -> ncls m = KNS -> ns_owners g' (nid m) = ns_owners g (nid m).
Proof.
  intros Hm Hd Hc. pose proof (rs_closed m Hm Hd) as C. rewrite Hc in C. unfold ns_owners.
  apply (rs_where_keep (nid m) (fun g j r => rel_eqb r Has && (cls_is g j KNode || cls_is g j KComposite || cls_is g j KComp)) Hd).
  - intros j r Hj. rewrite !(rs_cls _ _ Hj). reflexivity.
  - exact C.
Qed.
Lemma rs_cp_owners m : In m (gnodes g) -> del (nid m) = false -> ncls m = KCP -> cp_owners g' (nid m) = cp_owners g (nid m).
Proof.
  intros Hm Hd Hc. pose proof (rs_closed m Hm Hd) as C. rewrite Hc in C. destruct C as [C _]. unfold cp_owners.
  apply (rs_where_keep (nid m)
           (fun g j r => rel_eqb r Connects && (cls_is g j KNS || typ_is g (nid m) sSubInterface && cls_is g j KCP && negb (typ_is g j sSubInterface))) Hd).
  - intros j r Hj. rewrite !(rs_cls _ _ Hj), (rs_typ _ _ Hj), (rs_typ _ _ Hd). reflexivity.
  - exact C.
Qed.

Lemma rs_scope m : In m (gnodes g) -> del (nid m) = false -> scope_of g' m = scope_of g m.
Proof.
  intros Hm Hd. unfold scope_of. destruct (ncls m) eqn:Hc; try reflexivity.
  - apply rs_comp_owners; assumption.
  - apply rs_ns_owners; assumption.
  - apply rs_cp_owners; assumption.
Qed.

Lemma rs_first_sub y r k j : del y = false -> In j (first_nb g' y r k) -> In j (first_nb g y r k) /\ del j = false.
Proof.
  intros Hy H. rewrite first_nb_as_where in H.
  apply (rs_where_sub y (fun g j r' => rel_eqb r' r && cls_is g j k) j Hy) in H; [exact H|].
  intros j0 r0 Hj. rewrite (rs_cls _ _ Hj). reflexivity.
Qed.
Lemma rs_first_keep y r k : del y = false -> (forall j, In j (first_nb g y r k) -> del j = false) ->
  first_nb g' y r k = first_nb g y r k.
Proof.
  intros Hy Hk. rewrite !first_nb_as_where.
  apply (rs_where_keep y (fun g j r' => rel_eqb r' r && cls_is g j k) Hy); [|exact Hk].
  intros j0 r0 Hj. rewrite (rs_cls _ _ Hj). reflexivity.
Qed.

Theorem WF_remove_set_sec : WF g'.
Proof.
  constructor.
  - intros m Hm. unfold g', remove_set in Hm. simpl in Hm. apply filter_In in Hm as [Hm _]. apply (wf_fields _ W); exact Hm.
  - intros m Hm. unfold g', remove_set in Hm. simpl in Hm. apply filter_In in Hm as [Hm _]. apply (wf_vocab _ W); exact Hm.
  - unfold g', remove_set. simpl. pose proof (wf_ids _ W) as ND. induction (gnodes g) as [|n l IH]; simpl; [constructor|].
    inversion ND; subst. destruct (negb (del (nid n))); simpl; [|auto]. constructor; [|auto].
    intro Hin. apply H1. apply in_map_iff in Hin as [z [E Hz]]. apply filter_In in Hz as [Hz _]. rewrite <- E. apply in_map. exact Hz.
  - intros e He. unfold g', remove_set in He. simpl in He. apply filter_In in He as [He Hd].
    apply andb_true_iff in Hd as [Da Db]. destruct (wf_edge_ends _ W _ He) as [[na [A1 A2]] [nb [B1 B2]]].
    split; [exists na | exists nb]; (split; [|assumption]); unfold g', remove_set; simpl; apply filter_In; (split; [assumption|]); congruence.
  - unfold g', remove_set. simpl. apply ForallOrdPairs_filter. apply (wf_edges_distinct _ W).
  - intros m Hm. unfold g', remove_set in Hm. simpl in Hm. apply filter_In in Hm as [Hm Hd]. apply negb_true_iff in Hd.
    pose proof (wf_struct _ W _ Hm) as [S1 [S2 S3]]. pose proof (rs_closed m Hm Hd) as C.
    split; [|split]; intro Hk.
    + rewrite (rs_comp_owners m Hm Hd Hk). auto.
    + rewrite Hk in C. destruct C as [C1 C2]. destruct (S2 Hk) as [P1 [P2 P3]]. split; [|split].
      * rewrite (rs_cp_owners m Hm Hd Hk). exact P1.
      * intros j Hj. apply (rs_first_sub _ _ _ _ Hd) in Hj as [Hj Hdj]. rewrite (rs_typ _ _ Hd), (rs_typ _ _ Hdj). auto.
      * intro Ht. specialize (C2 Ht). specialize (P3 Ht). unfold peers in *. rewrite <- P3.
        rewrite (rs_first_keep _ _ _ Hd (fun l Hl => proj1 (C2 l Hl))).
        f_equal. apply flat_map_ext_in. intros l Hl. destruct (C2 l Hl) as [Dl Dy]. rewrite (rs_first_keep _ _ _ Dl Dy). reflexivity.
    + intros j r Hin. rewrite (rs_nbrs _ Hd) in Hin. apply filter_In in Hin as [Hin Hdj]. simpl in Hdj. apply negb_true_iff in Hdj.
      destruct (S3 Hk _ _ Hin) as [A B]. split; [exact A|]. rewrite (rs_cls _ _ Hdj). exact B.
  - unfold names_P, g', remove_set. simpl.
    assert (H : ForallOrdPairs (fun a b => name_clash g' a b = false) (filter (fun n => negb (del (nid n))) (gnodes g))).
    { pose proof (wf_names _ W) as N. unfold names_P in N.
      assert (Hsub : forall a, In a (gnodes g) -> In a (gnodes g)) by auto.
      revert N Hsub. generalize (gnodes g) at 1 2 4. intro l. induction l as [|a l IH]; simpl; intros N Hsub; [constructor|].
      inversion N; subst. destruct (negb (del (nid a))) eqn:Da; [|apply IH; auto].
      constructor; [|apply IH; auto]. apply negb_true_iff in Da.
      apply Forall_forall. intros b Hb. apply filter_In in Hb as [Hb Db]. apply negb_true_iff in Db.
      rewrite Forall_forall in H1. specialize (H1 _ Hb). unfold name_clash in *.
      rewrite (rs_scope a (Hsub _ (or_introl eq_refl)) Da), (rs_scope b (Hsub _ (or_intror Hb)) Db). exact H1. }
    exact H.
Qed.
End RemoveSet.

Theorem WF_remove_set g del : WF g -> closed_b g del = true -> WF (remove_set g del).
Proof. intros W C. exact (WF_remove_set_sec g del W C). Qed.

(* ---- relabel ---------------------------------------------------------------------------------------- *)
Lemma list_eqb_str_sym (a b : list str) : list_eqb str_eqb a b = list_eqb str_eqb b a.
Proof.
  revert b; induction a as [|x a IH]; destruct b as [|y b]; simpl; try reflexivity.
  rewrite (str_eqb_sym x y), IH. reflexivity.
Qed.
Lemma cls_eqb_sym a b : cls_eqb a b = cls_eqb b a.
Proof. destruct a, b; reflexivity. Qed.
Lemma name_clash_sym g a b : name_clash g a b = name_clash g b a.
Proof.
  unfold name_clash. rewrite (cls_eqb_sym (ncls a) (ncls b)), (list_eqb_str_sym (scope_of g a) (scope_of g b)).
  destruct (nname a), (nname b); try reflexivity. rewrite (str_eqb_sym s s0). reflexivity.
Qed.

Lemma FOP_map_nodup (R R' : node -> node -> Prop) (F : node -> node) l :
  (forall a, In a l -> nid (F a) = nid a) ->
  NoDup (map nid l) ->
  (forall a b, In a l -> In b l -> nid a <> nid b -> R a b -> R' (F a) (F b)) ->
  ForallOrdPairs R l -> ForallOrdPairs R' (map F l).
Proof.
  induction l as [|a l IH]; simpl; intros Hid ND H FO; [constructor|].
  inversion ND as [|? ? Hnot ND']; subst. inversion FO as [|? ? Ha FO']; subst. constructor.
  - apply Forall_forall. intros b' Hb'. apply in_map_iff in Hb' as [b [E Hb]]. subst b'.
    rewrite Forall_forall in Ha. apply H; auto.
    intro E. apply Hnot. rewrite E. apply in_map. exact Hb.
  - apply IH; auto.
Qed.

Section Relabel.
Variables (g : graph) (x : str) (f : node -> node).
Let g' := relabel g x f.
Let F := fun n => if str_eqb (nid n) x then f n else n.
Hypothesis W : WF g.
Hypothesis OK : relabel_ok g x f = true.

Lemma rl_ok n : In n (gnodes g) -> nid n = x ->
  nid (f n) = nid n /\ ncls (f n) = ncls n /\ fields_ok (f n) = true /\ vocab_ok (f n) = true /\
  (ntyp (f n) = ntyp n \/ ncls n = KNode \/ ncls n = KNS \/ ncls n = KComp) /\
  (nname (f n) = nname n \/ forall m, In m (gnodes g) -> nid m <> x -> name_clash g (f n) m = false).
Proof.
  intros Hn Hx. unfold relabel_ok in OK. rewrite forallb_forall in OK. specialize (OK _ Hn).
  rewrite Hx, str_eqb_refl in OK. simpl in OK. repeat (apply andb_true_iff in OK as [OK ?]).
  apply str_eqb_eq in OK. apply cls_eqb_eq in H2. unfold new_node_ok in H1. apply andb_true_iff in H1 as [Hf Hv].
  rewrite Hx. repeat split; auto.
  - repeat (apply orb_true_iff in H0 as [H0|H0]); [left; apply ostr_eqb_eq; exact H0 | | |]; apply cls_eqb_eq in H0; auto.
  - apply orb_true_iff in H as [H|H]; [left; apply ostr_eqb_eq; exact H|]. right. intros m Hm Hne.
    rewrite forallb_forall in H. specialize (H _ Hm). apply orb_true_iff in H as [H|H].
    + apply str_eqb_eq in H. contradiction.
    + apply negb_true_iff in H. exact H.
Qed.

Lemma rl_F_id n : In n (gnodes g) -> nid (F n) = nid n.
Proof. intro Hn. unfold F. destruct (str_eqb (nid n) x) eqn:E; [|reflexivity]. apply str_eqb_eq in E. apply (rl_ok n Hn E). Qed.
Lemma rl_F_cls n : In n (gnodes g) -> ncls (F n) = ncls n.
Proof. intro Hn. unfold F. destruct (str_eqb (nid n) x) eqn:E; [|reflexivity]. apply str_eqb_eq in E. apply (rl_ok n Hn E). Qed.

Lemma rl_nodes : gnodes g' = map F (gnodes g).
Proof. reflexivity. Qed.

Lemma rl_find y : find_nodes g' y = map F (find_nodes g y).
Proof.
  unfold find_nodes. rewrite rl_nodes. pose proof rl_F_id as H.
  induction (gnodes g) as [|n l IH]; simpl; [reflexivity|].
  rewrite (H n (or_introl eq_refl)). destruct (str_eqb (nid n) y); simpl; [f_equal|]; apply IH; intros; apply H; right; assumption.
Qed.
Lemma rl_find_in y n : In n (find_nodes g y) -> In n (gnodes g).
Proof. unfold find_nodes. intro H. apply filter_In in H. tauto. Qed.

Lemma rl_cls y k : cls_is g' y k = cls_is g y k.
Proof.
  unfold cls_is, cls_of. rewrite rl_find. destruct (find_nodes g y) as [|n l] eqn:E; [reflexivity|]. simpl.
  rewrite rl_F_cls; [reflexivity|]. apply (rl_find_in y). rewrite E. left. reflexivity.
Qed.
(* interface and link types do not change *)
Lemma rl_typ y t : cls_is g y KCP = true -> typ_is g' y t = typ_is g y t.
Proof.
  unfold cls_is, cls_of, typ_is, typ_of. rewrite rl_find. destruct (find_nodes g y) as [|n l] eqn:E; [reflexivity|]. simpl.
  intro Hc. apply cls_eqb_eq in Hc. assert (Hn : In n (gnodes g)) by (apply (rl_find_in y); rewrite E; left; reflexivity).
  unfold F. destruct (str_eqb (nid n) x) eqn:Ex; [|reflexivity]. apply str_eqb_eq in Ex.
  destruct (rl_ok n Hn Ex) as [_ [_ [_ [_ [[T|[T|[T|T]]] _]]]]]; try congruence. rewrite T. reflexivity.
Qed.
Lemma rl_nbrs y : nbrs g' y = nbrs g y.
Proof. reflexivity. Qed.

Lemma rl_first y r k : first_nb g' y r k = first_nb g y r k.
Proof. rewrite !first_nb_as_where. apply nb_where_ext; [reflexivity|]. intros. rewrite rl_cls. reflexivity. Qed.
Lemma rl_comp_owners y : comp_owners g' y = comp_owners g y.
Proof. unfold comp_owners. apply nb_where_ext; [reflexivity|]. intros. rewrite !rl_cls. reflexivity. Qed.
Lemma rl_ns_owners y : ns_owners g' y = ns_owners g y.
Proof. unfold ns_owners. apply nb_where_ext; [reflexivity|]. intros. rewrite !rl_cls. reflexivity. Qed.
Lemma rl_cp_owners y : cls_is g y KCP = true -> cp_owners g' y = cp_owners g y.
Proof.
  intro Hc. unfold cp_owners. apply nb_where_ext; [reflexivity|]. intros j r _. rewrite !rl_cls, (rl_typ y _ Hc).
  destruct (cls_is g j KCP) eqn:Ej; [rewrite (rl_typ j _ Ej); reflexivity|]. rewrite !andb_false_r. reflexivity.
Qed.
Lemma rl_peers y : peers g' y = peers g y.
Proof. unfold peers. rewrite rl_first. apply flat_map_ext_in. intros l _. rewrite rl_first. reflexivity. Qed.

Lemma rl_scope m : In m (gnodes g) -> scope_of g' (F m) = scope_of g m.
Proof.
  intro Hm. unfold scope_of. rewrite (rl_F_cls m Hm), (rl_F_id m Hm). destruct (ncls m) eqn:Hc; try reflexivity.
  - apply rl_comp_owners.
  - apply rl_ns_owners.
  - apply rl_cp_owners. rewrite (cls_is_node g m _ (wf_ids _ W) Hm), Hc. reflexivity.
Qed.
Lemma rl_scope_f m : In m (gnodes g) -> nid m = x -> scope_of g (f m) = scope_of g m.
Proof.
  intros Hm Hx. destruct (rl_ok m Hm Hx) as [A [B _]]. unfold scope_of. rewrite A, B. reflexivity.
Qed.

Theorem WF_relabel_sec : WF g'.
Proof.
  constructor.
  - intros m Hm. rewrite rl_nodes in Hm. apply in_map_iff in Hm as [m0 [E Hm0]]. subst m. unfold F.
    destruct (str_eqb (nid m0) x) eqn:Ex; [|apply (wf_fields _ W); exact Hm0].
    apply str_eqb_eq in Ex. apply fields_ok_P. apply (rl_ok m0 Hm0 Ex).
  - intros m Hm. rewrite rl_nodes in Hm. apply in_map_iff in Hm as [m0 [E Hm0]]. subst m. unfold F.
    destruct (str_eqb (nid m0) x) eqn:Ex; [|apply (wf_vocab _ W); exact Hm0].
    apply str_eqb_eq in Ex. apply vocab_ok_P. apply (rl_ok m0 Hm0 Ex).
  - rewrite rl_nodes, map_map. rewrite (map_ext_in _ nid); [apply (wf_ids _ W)|]. intros a Ha. apply rl_F_id. exact Ha.
  - intros e He. change (gedges g') with (gedges g) in He. destruct (wf_edge_ends _ W _ He) as [[na [A1 A2]] [nb [B1 B2]]].
    split; [exists (F na) | exists (F nb)]; (split; [rewrite rl_nodes; apply in_map; assumption | rewrite rl_F_id; assumption]).
  - apply (wf_edges_distinct _ W).
  - intros m Hm. rewrite rl_nodes in Hm. apply in_map_iff in Hm as [m0 [E Hm0]]. subst m.
    pose proof (wf_struct _ W _ Hm0) as [S1 [S2 S3]]. unfold struct_P. rewrite (rl_F_id m0 Hm0).
    pose proof (cls_is_node g m0 (ncls m0) (wf_ids _ W) Hm0) as Hc. rewrite cls_eqb_refl in Hc.
    split; [|split]; rewrite (rl_F_cls m0 Hm0); intro Hk.
    + rewrite rl_comp_owners. auto.
    + rewrite Hk in Hc. destruct (S2 Hk) as [P1 [P2 P3]]. split; [|split].
      * rewrite (rl_cp_owners _ Hc). exact P1.
      * intros j Hj. rewrite rl_first in Hj. rewrite (rl_typ _ _ Hc).
        assert (Hjc : cls_is g j KCP = true) by (apply In_first_nb in Hj; tauto). rewrite (rl_typ _ _ Hjc). auto.
      * intro Ht. rewrite rl_peers. apply P3.
        unfold F in Ht. destruct (str_eqb (nid m0) x) eqn:Ex; [|exact Ht]. apply str_eqb_eq in Ex.
        destruct (rl_ok m0 Hm0 Ex) as [_ [_ [_ [_ [[T|[T|[T|T]]] _]]]]]; congruence.
    + intros j r Hin. rewrite rl_nbrs in Hin. rewrite rl_cls. apply (S3 Hk). exact Hin.
  - unfold names_P. rewrite rl_nodes.
    apply (FOP_map_nodup (fun a b => name_clash g a b = false) (fun a b => name_clash g' a b = false) F (gnodes g));
      [apply rl_F_id | apply (wf_ids _ W) | | apply (wf_names _ W)].
    intros a b Ha Hb Hne Hab. unfold name_clash. rewrite (rl_scope a Ha), (rl_scope b Hb), (rl_F_cls a Ha), (rl_F_cls b Hb).
    unfold F. destruct (str_eqb (nid a) x) eqn:Ea; destruct (str_eqb (nid b) x) eqn:Eb.
    + apply str_eqb_eq in Ea. apply str_eqb_eq in Eb. congruence.
    + apply str_eqb_eq in Ea. apply str_eqb_neq in Eb.
      destruct (rl_ok a Ha Ea) as [A1 [A2 [_ [_ [_ [N|N]]]]]].
      * rewrite N. exact Hab.
      * specialize (N b Hb Eb). unfold name_clash in N. rewrite A2, (rl_scope_f a Ha Ea) in N. exact N.
    + apply str_eqb_eq in Eb. apply str_eqb_neq in Ea.
      destruct (rl_ok b Hb Eb) as [A1 [A2 [_ [_ [_ [N|N]]]]]].
      * rewrite N. exact Hab.
      * specialize (N a Ha Ea). rewrite name_clash_sym in N. unfold name_clash in N. rewrite A2, (rl_scope_f b Hb Eb) in N. exact N.
    + exact Hab.
Qed.
End Relabel.

Theorem WF_relabel g x f : WF g -> relabel_ok g x f = true -> WF (relabel g x f).
Proof. intros W OK. exact (WF_relabel_sec g x f W OK). Qed.

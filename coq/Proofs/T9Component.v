(* C09 - Node.add_component: every check except the id-uniqueness checks of the primitive add_node precedes
   the first mutation, and after the first mutation only PropertyGraphQueryException can be raised.  Hence
   every failure of another class (duplicate name, unknown model, invalid property, missing ids, ...)
   leaves the graph unchanged - for every state and every argument. *)
From Coq Require Import List NArith Bool Lia.
From FIM Require Import Base.Str Gen.T9Names Model.T9Graph Model.T9Ops Proofs.T9Monad Proofs.T9Simple.
Import ListNotations.
Open Scope N_scope.

Definition only_query {A} (m : M A) : Prop := forall s s' e, m s = (s', Err e) -> e = EQuery.
Definition nonquery_atomic {A} (m : M A) : Prop :=
  forall s s' e, m s = (s', Err e) -> e <> EQuery -> sg s' = sg s.

Lemma only_query_ret {A} (a : A) : only_query (ret a).
Proof. intros s s' e H; inversion H. Qed.
Lemma only_query_bind {A B} (m : M A) (k : A -> M B) :
  only_query m -> (forall a, only_query (k a)) -> only_query (bind m k).
Proof.
  intros Hm Hk s s' e H. unfold bind in H. destruct (m s) as [s1 [a|e1]] eqn:E.
  - eapply Hk; eauto.
  - inversion H; subst. eapply Hm; eauto.
Qed.
Lemma only_query_mutate f : (forall g e, f g = Err e -> e = EQuery) -> only_query (mutate f).
Proof.
  intros Hf s s' e H. unfold mutate in H. destruct (f (sg s)) eqn:E; inversion H; subst. eapply Hf; eauto.
Qed.
Lemma only_query_add_node n : only_query (m_add_node n).
Proof. apply only_query_mutate; intros; eapply g_add_node_err; eauto. Qed.
Lemma only_query_add_edge a r b : only_query (m_add_edge a r b).
Proof. apply only_query_mutate; intros; eapply g_add_edge_err; eauto. Qed.
Lemma only_query_for_each {A} (l : list A) f : (forall x, only_query (f x)) -> only_query (for_each l f).
Proof. intro H; induction l; simpl; [apply only_query_ret|]. apply only_query_bind; auto. Qed.

Lemma nonquery_of_no_mut {A} (m : M A) : no_mut m -> nonquery_atomic m.
Proof. intros H s s' e E _; eapply H; eauto. Qed.
Lemma nonquery_of_only {A} (m : M A) : only_query m -> nonquery_atomic m.
Proof. intros H s s' e E Hne. exfalso. apply Hne. eapply H; eauto. Qed.
Lemma nonquery_bind_nm {A B} (m : M A) (k : A -> M B) :
  no_mut m -> (forall a, nonquery_atomic (k a)) -> nonquery_atomic (bind m k).
Proof.
  intros Hm Hk s s' e H Hne. unfold bind in H. destruct (m s) as [s1 [a|e1]] eqn:E.
  - assert (X := Hk a s1 s' e H Hne). apply Hm in E. rewrite X. exact E.
  - inversion H; subst. eapply Hm; eauto.
Qed.

Lemma no_mut_draw_if_ids l : no_mut (draw_if_ids l).
Proof. induction l; simpl; nm. apply IHl. Qed.

Lemma op_add_component_nonquery pc fl pn name node_id spec_given nic sub_ids cat pure :
  nonquery_atomic (op_add_component pc fl pn name node_id spec_given nic sub_ids cat pure).
Proof.
  unfold op_add_component.
  apply nonquery_bind_nm; [nm|intro]. apply nonquery_bind_nm; [nm|intro]. apply nonquery_bind_nm; [nm|intro].
  apply nonquery_bind_nm; [nm|intro id]. apply nonquery_bind_nm; [nm|intro]. apply nonquery_bind_nm; [nm|intro].
  apply nonquery_bind_nm; [nm|intro].
  destruct cat as [spec|e0]; [|apply nonquery_of_no_mut; nm].
  apply nonquery_bind_nm.
  { destruct (cs_child spec); nm. apply no_mut_draw_if_ids. }
  intro drawn. apply nonquery_bind_nm; [nm|intro].
  apply nonquery_bind_nm; [destruct pc; nm|intro].
  apply nonquery_of_only.
  apply only_query_bind; [apply only_query_add_node|intro].
  apply only_query_bind; [apply only_query_add_edge|intro].
  apply only_query_bind; [|intro; apply only_query_ret].
  destruct drawn as [[[ch nsid] ifs]|]; [|apply only_query_ret].
  apply only_query_bind; [apply only_query_add_node|intro].
  apply only_query_bind; [apply only_query_add_edge|intro].
  apply only_query_for_each. intro ci.
  apply only_query_bind; [apply only_query_add_node|intro]. apply only_query_add_edge.
Qed.

Lemma add_component_atomic_nonquery pc fl pn name node_id spec_given nic sub_ids cat pure s s' e :
  op_add_component pc fl pn name node_id spec_given nic sub_ids cat pure s = (s', Err e) ->
  e <> EQuery -> sg s' = sg s.
Proof. apply op_add_component_nonquery. Qed.

(* non-vacuity: an unknown model (CatalogException) and a duplicate component name (TopologyException) *)
From Coq Require Import String.
From FIM Require Import Proofs.T9Refuted.
Lemma ex_component_unknown_model :
  let r := op_add_component false Experiment 1 (S "x1") None true true false (Err ECatalog) None (mkSt g_two_nodes supply) in
  snd r = Err ECatalog /\ sg (fst r) = g_two_nodes.
Proof. vm_compute. auto. Qed.
Lemma ex_component_dup_name :
  let r := op_add_component false Experiment 1 (S "nic1") None true false false (Ok (mkCompSpec tNIC None)) None
                            (mkSt g_two_nodes supply) in
  snd r = Err ETopology /\ sg (fst r) = g_two_nodes.
Proof. vm_compute. auto. Qed.
Lemma ex_component_ok :
  let r := op_add_component false Experiment 1 (S "nic2") None true false false
             (Ok (mkCompSpec tNIC (Some (mkChildNs (S "n1-nic2-l2ovs") tOVS None [mkChildIf (S "nic2-p1") tSharedPort None]))))
             None (mkSt g_two_nodes supply) in
  snd r = Ok 50 /\ List.length (gnodes (sg (fst r))) = 12%nat.
Proof. vm_compute. auto. Qed.

(* C05: the regenerated constants, the guards on identity properties and on Class, and the
   history invariant "identity properties never disappear, Class never changes". *)
From Coq Require Import List NArith Bool Lia.
From FIM Require Import Base.Assoc Gen.PGConst Model.Store Model.StoreDisjoint.
From FIM Require Import Proofs.IsolationBase Proofs.IsolationShared Proofs.IsolationDisjoint.
Import ListNotations.
Open Scope N_scope.

(* ---------- the model's constants are the source's (regenerated on every run) ---------- *)
Definition constants_tied : bool :=
  gen_ok &&
  N.eqb gen_graph_id k_graphid && N.eqb gen_node_id k_nodeid && N.eqb gen_class k_class &&
  N.eqb gen_type k_type && N.eqb gen_name k_name && N.eqb gen_networkx_label k_class &&
  list_eqb N.eqb gen_no_unset no_unset &&
  forallb (fun x => snd x) gen_class_guarded && Nat.eqb (List.length gen_class_guarded) 7%nat &&
  gen_unset_identity_guarded && gen_add_node_checks_any_class && gen_disjoint_merge_unsupported.

Lemma constants_tied_true : constants_tied = true.
Proof. vm_compute. reflexivity. Qed.

(* ---------- guards: rejected before anything is touched ---------- *)
Lemma unset_identity_rejected G g n p : In p no_unset -> pg_unset_node G g n p = (G, Err EQuery).
Proof.
  intro H. unfold pg_unset_node. destruct (N.eqb p k_class); [reflexivity|].
  assert (memN p no_unset = true) by now apply memN_In. now rewrite H0.
Qed.

Lemma unset_identity_shared s g n p :
  In p no_unset -> sstep s (OUnsetNode g n p) = (s, Err EQuery).
Proof. intro H. simpl. rewrite unset_identity_rejected by exact H. unfold lift. simpl. now destruct s. Qed.

Lemma dget_dput_same d g g' : dget (dput d g (dget d g)) g' = dget d g'.
Proof. rewrite dget_dput. destruct (N.eqb g' g) eqn:E; [apply N.eqb_eq in E; now subst | reflexivity]. Qed.

Lemma unset_identity_disjoint d g n p :
  In p no_unset ->
  snd (dstep d (OUnsetNode g n p)) = Err EQuery /\
  forall g', dget (fst (dstep d (OUnsetNode g n p))) g' = dget d g'.
Proof.
  intro H. simpl. rewrite unset_identity_rejected by exact H. unfold dlift. simpl.
  split; [reflexivity | intro g'; apply dget_dput_same].
Qed.

(* every operation that would write or remove 'Class' *)
Definition writes_class (o : op) : bool :=
  match o with
  | OUpdNode _ _ p _ | OUnsetNode _ _ p | OUpdNodes _ p _ | OUpdLink _ _ _ _ p _ | OUnsetLink _ _ _ _ p => N.eqb p k_class
  | OUpdNodeProps _ _ ps | OUpdLinkProps _ _ _ _ ps => ahas k_class ps
  | _ => false
  end.

Lemma class_write_rejected_shared s o :
  writes_class o = true -> sstep s o = (s, Err EQuery).
Proof.
  destruct s as [G nx]. destruct o; simpl; try discriminate; intro H; unfold lift; simpl.
  - unfold pg_update_node. now rewrite H.
  - unfold pg_unset_node. now rewrite H.
  - unfold pg_update_nodes. destruct (find_all G g); [now rewrite H | reflexivity].
  - unfold pg_update_node_props. now rewrite H.
  - unfold pg_update_link, with_link. now rewrite H.
  - unfold pg_unset_link, with_link. now rewrite H.
  - unfold pg_update_link_props, with_link. now rewrite H.
Qed.

Lemma class_write_rejected_disjoint d o :
  writes_class o = true ->
  snd (dstep d o) = Err EQuery /\ forall g', dget (fst (dstep d o)) g' = dget d g'.
Proof.
  destruct o; simpl; try discriminate; intro H; unfold dlift.
  - unfold pg_update_node. rewrite H. simpl. split; [reflexivity | intro; apply dget_dput_same].
  - unfold pg_unset_node. rewrite H. simpl. split; [reflexivity | intro; apply dget_dput_same].
  - unfold pg_update_nodes. destruct (find_all (dget d g) g); [rewrite H|]; simpl;
      (split; [reflexivity | intro; apply dget_dput_same]).
  - unfold pg_update_node_props. rewrite H. simpl. split; [reflexivity | intro; apply dget_dput_same].
  - unfold pg_update_link, with_link. rewrite H. simpl. split; [reflexivity | intro; apply dget_dput_same].
  - unfold pg_unset_link, with_link. rewrite H. simpl. split; [reflexivity | intro; apply dget_dput_same].
  - unfold pg_update_link_props, with_link. rewrite H. simpl. split; [reflexivity | intro; apply dget_dput_same].
Qed.

(* ---------- identity properties of a stored node never disappear, its class never changes ---------- *)
Definition ident_le (ps ps' : props) : Prop :=
  (forall p, In p no_unset -> ahas p ps = true -> ahas p ps' = true) /\ aget k_class ps' = aget k_class ps.

Lemma ident_le_refl ps : ident_le ps ps.
Proof. split; auto. Qed.

Lemma ident_le_trans a b c : ident_le a b -> ident_le b c -> ident_le a c.
Proof. intros [H1 H2] [H3 H4]. split; [auto | congruence]. Qed.

Lemma ident_le_aset ps p v : N.eqb p k_class = false -> ident_le ps (aset p v ps).
Proof.
  intro H. apply N.eqb_neq in H. split.
  - intros q _ Hq. rewrite ahas_aset, Hq. apply orb_true_r.
  - apply aget_aset_other. congruence.
Qed.

Lemma ident_le_aremove ps p : memN p no_unset = false -> ident_le ps (aremove p ps).
Proof.
  intro H. split.
  - intros q Hq Hh. unfold ahas in *. rewrite aget_aremove_other; [exact Hh|].
    intro E; subst q. apply memN_In in Hq. congruence.
  - apply aget_aremove_other. intro E. subst p. discriminate H.
Qed.

Lemma ident_le_aupdate ps upd : ahas k_class upd = false -> ident_le ps (aupdate upd ps).
Proof.
  intro H. split.
  - intros q _ Hq. now apply ahas_aupdate.
  - apply aget_aupdate_notin. unfold ahas in H. now destruct (aget k_class upd).
Qed.

(* node-wise evolution between two nx.Graphs *)
Definition evolves (G G' : nxg) : Prop :=
  forall id ps ps', nx_node G id = Some ps -> nx_node G' id = Some ps' -> ident_le ps ps'.

Lemma evolves_refl G : evolves G G.
Proof. intros id ps ps' H1 H2. rewrite H1 in H2. inversion H2. apply ident_le_refl. Qed.

Lemma evolves_same_nodes G G' : gn G' = gn G -> evolves G G'.
Proof. intros E id ps ps' H1 H2. unfold nx_node in *. rewrite E in H2. rewrite H1 in H2. inversion H2. apply ident_le_refl. Qed.

Lemma evolves_set_node G id ps0 ps1 :
  nx_node G id = Some ps0 -> ident_le ps0 ps1 -> evolves G (nx_set_node G id ps1).
Proof.
  intros Hn Hle i ps ps' H1 H2. unfold nx_node, nx_set_node in *. simpl in H2.
  rewrite aget_set_node in H2. destruct (N.eqb i id) eqn:E.
  - apply N.eqb_eq in E; subst i. rewrite Hn in H2, H1. inversion H1; inversion H2; subst. exact Hle.
  - rewrite H1 in H2. inversion H2. apply ident_le_refl.
Qed.

Lemma aget_filter_fst (p : N -> bool) (l : list node) id ps :
  aget id (filter (fun n => p (fst n)) l) = Some ps -> aget id l = Some ps.
Proof.
  induction l as [|[i q] r IH]; simpl; [discriminate|].
  destruct (p i) eqn:Ep; simpl.
  - destruct (N.eqb id i); [auto | exact IH].
  - intro H. specialize (IH H). destruct (N.eqb id i) eqn:E; [|exact IH].
    exfalso. apply N.eqb_eq in E; subst i. clear IH.
    apply aget_In in H. apply filter_In in H as [_ H]. simpl in H. congruence.
Qed.

Lemma evolves_filter_nodes (p : N -> bool) G es : evolves G (mkG (filter (fun n => p (fst n)) (gn G)) es).
Proof.
  intros id ps ps' H1 H2. unfold nx_node in *. simpl in H2. apply aget_filter_fst in H2.
  rewrite H1 in H2. inversion H2. apply ident_le_refl.
Qed.

Lemma aget_upd_nodes l p v ns id :
  aget id (upd_nodes l p v ns) =
  match aget id ns with Some ps => Some (if memN id l then aset p v ps else ps) | None => None end.
Proof.
  induction ns as [|[i q] r IH]; simpl; [reflexivity|].
  destruct (memN i l) eqn:Em; simpl; destruct (N.eqb id i) eqn:E; try exact IH.
  - apply N.eqb_eq in E; subst. now rewrite Em.
  - apply N.eqb_eq in E; subst. now rewrite Em.
Qed.

Lemma evolves_upd_nodes G l p v : N.eqb p k_class = false -> evolves G (mkG (upd_nodes l p v (gn G)) (ge G)).
Proof.
  intros Hp id ps ps' H1 H2. unfold nx_node in *. simpl in H2. rewrite aget_upd_nodes, H1 in H2.
  inversion H2. destruct (memN id l); [now apply ident_le_aset | apply ident_le_refl].
Qed.

Lemma evolves_trans_keep A B C :
  (forall id, nx_node C id <> None -> nx_node B id <> None) -> evolves A B -> evolves B C -> evolves A C.
Proof.
  intros Hk H1 H2 id ps ps' Ha Hc.
  destruct (nx_node B id) as [q|] eqn:Eb.
  - eapply ident_le_trans; [eapply H1 | eapply H2]; eauto.
  - exfalso. apply (Hk id); [congruence | exact Eb].
Qed.

(* the graph-object mutators (everything except merge) *)
Lemma evolves_update_node G g n p v : evolves G (fst (pg_update_node G g n p v)).
Proof.
  unfold pg_update_node. destruct (N.eqb p k_class) eqn:Ep; [apply evolves_refl|].
  destruct (find_node G g n) as [id|]; [|apply evolves_refl].
  destruct (nx_node G id) as [ps|] eqn:En; [|apply evolves_refl]. simpl.
  eapply evolves_set_node; eauto. now apply ident_le_aset.
Qed.

Lemma evolves_unset_node G g n p : evolves G (fst (pg_unset_node G g n p)).
Proof.
  unfold pg_unset_node. destruct (N.eqb p k_class) eqn:Ep; [apply evolves_refl|].
  destruct (memN p no_unset) eqn:Em; [apply evolves_refl|].
  destruct (find_node G g n) as [id|]; [|apply evolves_refl].
  destruct (nx_node G id) as [ps|] eqn:En; [|apply evolves_refl]. simpl.
  eapply evolves_set_node; eauto. now apply ident_le_aremove.
Qed.

Lemma evolves_update_nodes G g p v : evolves G (fst (pg_update_nodes G g p v)).
Proof.
  unfold pg_update_nodes. destruct (find_all G g); [|apply evolves_refl].
  destruct (N.eqb p k_class) eqn:Ep; [apply evolves_refl|]. simpl. now apply evolves_upd_nodes.
Qed.

Lemma evolves_update_node_props G g n u : evolves G (fst (pg_update_node_props G g n u)).
Proof.
  unfold pg_update_node_props. destruct (ahas k_class u) eqn:Ep; [apply evolves_refl|].
  destruct (find_node G g n) as [id|]; [|apply evolves_refl].
  destruct (nx_node G id) as [ps|] eqn:En; [|apply evolves_refl]. simpl.
  eapply evolves_set_node; eauto. now apply ident_le_aupdate.
Qed.

Lemma evolves_with_link G g a b k gd f : evolves G (fst (with_link G g a b k gd f)).
Proof.
  unfold with_link. destruct gd; [apply evolves_refl|].
  destruct (find_link G g a b) as [[[ia ib] ps]|]; [|apply evolves_refl].
  destruct (has_val ps k_class k); [|apply evolves_refl]. simpl. now apply evolves_same_nodes.
Qed.

Lemma evolves_add_link G g a r b ps : evolves G (fst (pg_add_link G g a r b ps)).
Proof.
  unfold pg_add_link.
  destruct (find_node G g a); [|apply evolves_refl].
  destruct (find_node G g b); [|apply evolves_refl].
  assert (K : forall x y at_, evolves G (nx_add_edge G x y at_)).
  { intros. apply evolves_same_nodes. unfold nx_add_edge. now destruct (nx_edge G x y). }
  destruct ps as [u|]; simpl; [destruct (ahas k_class u); simpl; [apply evolves_refl|]|]; apply K.
Qed.

Lemma evolves_delete_node G g n : evolves G (fst (pg_delete_node G g n)).
Proof.
  unfold pg_delete_node. destruct (find_node G g n); [|apply evolves_refl]. simpl.
  unfold nx_remove_node. apply (evolves_filter_nodes (fun i => negb (N.eqb i _))).
Qed.

(* adding nodes under fresh ids does not touch the stored ones *)
Lemma evolves_append G ns es : (forall i, In i (map fst ns) -> ~ In i (ids G)) -> evolves G (mkG (gn G ++ ns) es).
Proof.
  intros Hf id ps ps' H1 H2. unfold nx_node in *. simpl in H2.
  assert (E : aget id (gn G ++ ns) = Some ps).
  { clear H2. induction (gn G) as [|[i q] r IH]; simpl in *; [discriminate|].
    destruct (N.eqb id i); [exact H1 | now apply IH]. }
  rewrite E in H2. inversion H2. apply ident_le_refl.
Qed.

Lemma evolves_add_all G ns es :
  NoDup (map fst ns) -> (forall i, In i (map fst ns) -> ~ In i (ids G)) -> evolves G (nx_add_all G ns es).
Proof.
  intros Hnd Hf. unfold nx_add_all. rewrite add_nodes_fresh by assumption.
  intros id ps ps' H1 H2. unfold nx_node in H2. rewrite fold_add_edges_gn in H2.
  eapply (evolves_append G ns (ge G)); eauto.
Qed.

Lemma evolves_del_graph s g : evolves (sg s) (sg (s_del_graph s g)).
Proof. unfold s_del_graph, nx_remove_nodes. simpl. apply (evolves_filter_nodes (fun i => negb (memN i _))). Qed.

Lemma keeps_present G' G id : keeps G' G -> nx_node G' id <> None -> nx_node G id <> None.
Proof.
  intros [_ K] H. unfold nx_node in *. intro E. apply aget_None_notin in E. apply E. apply K.
  destruct (aget id (gn G')) eqn:E'; [|congruence]. apply aget_In in E'.
  change id with (fst (id, p)). now apply in_map.
Qed.

Lemma aget_app_old {V} (l ns : list (N * V)) id : ~ In id (map fst ns) -> aget id (l ++ ns) = aget id l.
Proof.
  intro H. induction l as [|[i q] r IH]; simpl.
  - now apply aget_None_notin.
  - destruct (N.eqb id i); [reflexivity | exact IH].
Qed.

Lemma evolves_import s g ns es :
  SInv s -> map fst ns = seqN (snext s) (length ns) ->
  evolves (sg s) (nx_add_all (sg (s_del_graph s g)) ns es).
Proof.
  intros HI Hfst. pose proof (SInv_del_graph s g HI) as [H1 H2].
  assert (Hfresh : forall i, In i (map fst ns) -> ~ In i (ids (sg (s_del_graph s g)))).
  { intros i Hi Hin. rewrite Hfst in Hi. apply seqN_In in Hi. apply H2 in Hin. simpl in Hin. lia. }
  assert (Hnd : NoDup (map fst ns)) by (rewrite Hfst; apply seqN_NoDup).
  intros id ps ps' Ha Hc.
  unfold nx_add_all in Hc. rewrite add_nodes_fresh in Hc by assumption.
  unfold nx_node in Hc. rewrite fold_add_edges_gn in Hc. cbn [gn] in Hc.
  (* id is an old id (below start_id), hence not among the new ones: it is found in the old part *)
  assert (Hold : id < snext s).
  { destruct HI as [_ Hlt]. apply Hlt. unfold ids. unfold nx_node in Ha. apply aget_In in Ha.
    change id with (fst (id, ps)). now apply in_map. }
  assert (E : aget id (gn (sg (s_del_graph s g)) ++ ns) = aget id (gn (sg (s_del_graph s g)))).
  { apply aget_app_old. rewrite Hfst. rewrite seqN_In. lia. }
  rewrite E in Hc. eapply evolves_del_graph; eauto.
Qed.

Theorem identity_kept_step s o :
  SInv s -> (match o with OMerge _ _ _ _ => false | _ => true end) = true ->
  evolves (sg s) (sg (fst (sstep s o))).
Proof.
  intros HI Hm. destruct o; simpl; try apply evolves_refl; try discriminate.
  - unfold s_add_graph.
    destruct (existsb node_id_missing (inodes (relabel ig (snext (s_del_graph s g))))); cbn [fst sg].
    + apply evolves_del_graph.
    + apply evolves_import; [exact HI|]. rewrite map_fst_stamp. unfold stamp. rewrite map_length.
      apply relabel_inodes_fst.
  - unfold s_add_graph_direct. cbn [fst sg]. apply evolves_import; [exact HI | apply relabel_inodes_fst].
  - apply evolves_del_graph.
  - unfold s_clone. destruct (s_extract (sg s) g) as [ig|]; [|apply evolves_refl].
    unfold s_add_graph.
    destruct (existsb node_id_missing (inodes (relabel ig (snext (s_del_graph s g2))))); cbn [fst sg].
    + apply evolves_del_graph.
    + apply evolves_import; [exact HI|]. rewrite map_fst_stamp. unfold stamp. rewrite map_length.
      apply relabel_inodes_fst.
  - destruct (pg_add_node (sg s) g (snext s) n c ps) as [G'|] eqn:E; simpl; [|apply evolves_refl].
    unfold pg_add_node in E. destruct (search (sg s) [(k_graphid, g); (k_nodeid, n)]); [|discriminate].
    destruct HI as [Hnd Hlt].
    assert (Hfresh : nx_node (sg s) (snext s) = None).
    { unfold nx_node. apply aget_None_notin. intro Hin. apply Hlt in Hin. lia. }
    assert (E1 : nx_add_node (sg s) (snext s) (blank_attrs g n c) = mkG (gn (sg s) ++ [(snext s, blank_attrs g n c)]) (ge (sg s))).
    { unfold nx_add_node. now rewrite Hfresh. }
    assert (Hap : evolves (sg s) (mkG (gn (sg s) ++ [(snext s, blank_attrs g n c)]) (ge (sg s)))).
    { apply evolves_append. intros i [Hi|[]] Hin. simpl in Hi. subst i. apply Hlt in Hin. lia. }
    rewrite E1 in E. destruct ps as [upd|]; [|inversion E; subst; exact Hap].
    destruct (nx_node _ (snext s)) as [q|] eqn:Eq; inversion E; subst; [|exact Hap].
    intros id ps ps' Ha Hc. unfold nx_node, nx_set_node in Hc. simpl in Hc. rewrite aget_set_node in Hc.
    destruct (N.eqb id (snext s)) eqn:Ei.
    + apply N.eqb_eq in Ei; subst id. rewrite Hfresh in Ha. discriminate.
    + eapply Hap; eauto.
  - apply evolves_delete_node.
  - apply evolves_add_link.
  - apply evolves_update_node.
  - apply evolves_unset_node.
  - apply evolves_update_nodes.
  - apply evolves_update_node_props.
  - apply evolves_with_link.
  - apply evolves_with_link.
  - apply evolves_with_link.
Qed.

(* ---------- ids only ever come from the allocator: a deleted id is never re-used ---------- *)
Lemma ids_add_all_cases s ns es i :
  SInv s -> map fst ns = seqN (snext s) (length ns) ->
  In i (ids (nx_add_all (sg s) ns es)) -> In i (ids (sg s)) \/ snext s <= i.
Proof.
  intros [H1 H2] Hfst Hin.
  rewrite ids_add_all in Hin.
  - apply in_app_or in Hin as [Hin|Hin]; [now left|]. right. rewrite Hfst in Hin. apply seqN_In in Hin. lia.
  - exact H1.
  - intros j Hj Hin'. rewrite Hfst in Hj. apply seqN_In in Hj. apply H2 in Hin'. lia.
  - rewrite Hfst. apply seqN_NoDup.
Qed.

Lemma step_ids s o i :
  SInv s -> In i (ids (sg (fst (sstep s o)))) -> In i (ids (sg s)) \/ snext s <= i.
Proof.
  intros HI Hin.
  assert (Kdel : forall g j, In j (ids (sg (s_del_graph s g))) -> In j (ids (sg s))).
  { intros g j. unfold s_del_graph. simpl. apply keeps_remove_nodes. }
  assert (Kimp : forall g ig, In i (ids (sg (fst (s_add_graph s g ig)))) -> In i (ids (sg s)) \/ snext s <= i).
  { intros g ig. unfold s_add_graph.
    destruct (existsb node_id_missing (inodes (relabel ig (snext (s_del_graph s g))))); cbn [fst sg]; intro H.
    - left. eapply Kdel; eauto.
    - apply (ids_add_all_cases (s_del_graph s g)) in H.
      + destruct H as [H|H]; [left; eapply Kdel; eauto | right; exact H].
      + now apply SInv_del_graph.
      + rewrite map_fst_stamp. unfold stamp. rewrite map_length. apply relabel_inodes_fst. }
  assert (Kk : forall x, keeps (fst x) (sg s) -> In i (ids (sg (fst (lift s x)))) -> In i (ids (sg s)) \/ snext s <= i).
  { intros x [_ K] H. left. apply K. exact H. }
  destruct o; simpl in Hin; try (now left).
  - now apply (Kimp g ig).
  - unfold s_add_graph_direct in Hin. cbn [fst sg] in Hin.
    apply (ids_add_all_cases (s_del_graph s g)) in Hin.
    + destruct Hin as [H|H]; [left; eapply Kdel; eauto | right; exact H].
    + now apply SInv_del_graph.
    + apply relabel_inodes_fst.
  - left. apply (Kdel g). exact Hin.
  - unfold s_clone in Hin. destruct (s_extract (sg s) g) as [ig|]; [now apply (Kimp g2 ig) | now left].
  - destruct (pg_add_node (sg s) g (snext s) n c ps) as [G'|] eqn:E; simpl in Hin; [|now left].
    unfold pg_add_node in E. destruct (search (sg s) [(k_graphid, g); (k_nodeid, n)]); [|discriminate].
    assert (Hin1 : In i (ids (nx_add_node (sg s) (snext s) (blank_attrs g n c)))).
    { destruct ps as [u|]; [|inversion E; subst; exact Hin].
      destruct (nx_node _ (snext s)); inversion E; subst; [|exact Hin].
      unfold ids, nx_set_node in Hin. simpl in Hin. now rewrite map_fst_set_node in Hin. }
    change (nx_add_node (sg s) (snext s) (blank_attrs g n c))
      with (nx_add_all (sg s) [(snext s, blank_attrs g n c)] []) in Hin1.
    apply (ids_add_all_cases s) in Hin1; [exact Hin1 | exact HI | reflexivity].
  - apply (Kk _ (keeps_delete_node _ _ _) Hin).
  - apply (Kk _ (keeps_add_link _ _ _ _ _ _) Hin).
  - apply (Kk _ (keeps_update_node _ _ _ _ _) Hin).
  - apply (Kk _ (keeps_unset_node _ _ _ _) Hin).
  - apply (Kk _ (keeps_update_nodes _ _ _ _) Hin).
  - apply (Kk _ (keeps_update_node_props _ _ _ _) Hin).
  - apply (Kk _ (keeps_with_link _ _ _ _ _ _ _) Hin).
  - apply (Kk _ (keeps_with_link _ _ _ _ _ _ _) Hin).
  - apply (Kk _ (keeps_with_link _ _ _ _ _ _ _) Hin).
  - apply (Kk _ (keeps_merge _ _ _ _ _) Hin).
Qed.

Lemma snext_mono s o : snext s <= snext (fst (sstep s o)).
Proof.
  destruct o; simpl; try lia.
  - unfold s_add_graph. destruct (existsb _ _); simpl; lia.
  - unfold s_clone. destruct (s_extract (sg s) g); [|simpl; lia].
    unfold s_add_graph. destruct (existsb _ _); simpl; lia.
  - destruct (pg_add_node (sg s) g (snext s) n c ps); simpl; lia.
Qed.

Lemma present_iff G id : nx_node G id <> None <-> In id (ids G).
Proof.
  unfold nx_node, ids. split.
  - intro H. destruct (aget id (gn G)) eqn:E; [|congruence]. apply aget_In in E.
    change id with (fst (id, p)). now apply in_map.
  - intros H E. apply aget_None_notin in E. contradiction.
Qed.

(* the history lift, for any class of operations whose single steps preserve identity properties *)
Section Histories.
Variable okop : op -> bool.
Hypothesis Hstep : forall s o, SInv s -> okop o = true -> evolves (sg s) (sg (fst (sstep s o))).

Theorem identity_kept_histories_gen ops : forall s,
  SInv s -> (forall o, In o ops -> okop o = true) -> evolves (sg s) (sg (srun ops s)).
Proof.
  induction ops as [|o r IH]; intros s HI Hmf; simpl; [apply evolves_refl|].
  assert (H1 : evolves (sg s) (sg (fst (sstep s o)))) by (apply Hstep; [exact HI | apply Hmf; now left]).
  assert (H2 : evolves (sg (fst (sstep s o))) (sg (srun r (fst (sstep s o))))).
  { apply IH; [now apply SInv_step | intros o' Ho'; apply Hmf; now right]. }
  intros id ps ps' Ha Hc.
  destruct (nx_node (sg (fst (sstep s o))) id) as [q|] eqn:Eb.
  - eapply ident_le_trans; [eapply H1 | eapply H2]; eauto.
  - (* absent after the first step, below the allocator: it can never come back *)
    exfalso.
    assert (Hlt : id < snext (fst (sstep s o))).
    { destruct HI as [_ Hlt]. pose proof (snext_mono s o).
      assert (id < snext s); [|lia]. apply Hlt. apply present_iff. congruence. }
    assert (Habs : forall ops' s', SInv s' -> id < snext s' -> nx_node (sg s') id = None ->
                                   nx_node (sg (srun ops' s')) id = None).
    { clear. induction ops' as [|o' r' IH']; intros s' HI' Hlt' Hn; simpl; [exact Hn|].
      apply IH'; [now apply SInv_step | pose proof (snext_mono s' o'); lia |].
      destruct (nx_node (sg (fst (sstep s' o'))) id) eqn:E; [|reflexivity]. exfalso.
      assert (Hin : In id (ids (sg (fst (sstep s' o'))))) by (apply present_iff; congruence).
      apply step_ids in Hin; [|exact HI']. destruct Hin as [Hin|Hin]; [|lia].
      apply present_iff in Hin. contradiction. }
    rewrite (Habs r (fst (sstep s o))) in Hc; [discriminate | now apply SInv_step | exact Hlt | exact Eb].
Qed.
End Histories.

(* C12 proofs, part 6: ONE Pools object under any history of operations: the index built by
   build_index_by_delegation_id is a function of the current registry (not of the history), hence the regrouping
   identity holds after any history. *)
From Coq Require Import List ZArith NArith Bool Lia Permutation String.
From FIM Require Import Base.Str Base.Corr Gen.DelegGen Model.Deleg12 Model.Pools12 Model.Pools12H
     Proofs.Deleg12Enc Proofs.Deleg12Pools Proofs.Deleg12Regroup Proofs.Deleg12Annotate Proofs.Deleg12Main.
Import ListNotations.

(* ---------------------------------------------------------------------------------------------- *)
(* heap lemmas                                                                                      *)
(* ---------------------------------------------------------------------------------------------- *)
Lemma nth_error_set_nth_same {A} k (x : A) l y : nth_error l k = Some y -> nth_error (set_nth k x l) k = Some x.
Proof.
  revert k. induction l as [|a r IH]; intros [|k] H; simpl in *; try discriminate; [reflexivity|apply IH; exact H].
Qed.

Lemma nth_error_set_nth_other {A} k j (x : A) l : j <> k -> nth_error (set_nth k x l) j = nth_error l j.
Proof.
  revert k j. induction l as [|a r IH]; intros [|k] [|j] H; simpl; try reflexivity; try contradiction.
  apply IH. congruence.
Qed.

Lemma pool_apply_id p o p' : pool_apply p o = Ok p' -> p_id p' = p_id p.
Proof.
  destruct o; simpl; try (intro H; injection H as <-; reflexivity).
  destruct l; [discriminate|]. intro H. injection H as <-. reflexivity.
Qed.

Lemma put_reg_valid h pid k reg p :
  nth_error h k = Some p -> p_id p = pid ->
  Forall (fun e => exists q, nth_error h (snd e) = Some q /\ p_id q = fst e) reg ->
  Forall (fun e => exists q, nth_error h (snd e) = Some q /\ p_id q = fst e) (put_reg pid k reg).
Proof.
  intros Hk Hp. induction reg as [|[q j] r IH]; intro F; simpl.
  - constructor; [exists p; split; assumption|constructor].
  - apply Forall_cons_iff in F as [Fh Ft]. destruct (str_eqb q pid) eqn:E.
    + apply str_eqb_eq in E. subst q. constructor; [exists p; split; assumption|exact Ft].
    + constructor; [exact Fh|apply IH; exact Ft].
Qed.

Lemma upd_obj_valid st k p p' : reg_valid st -> nth_error (st_heap st) k = Some p -> p_id p' = p_id p ->
  reg_valid (upd_obj st k p') /\ st_type (upd_obj st k p') = st_type st.
Proof.
  intros V Hk Hid. split; [|reflexivity]. unfold reg_valid, upd_obj in *. cbn [st_heap st_reg].
  eapply Forall_impl; [|exact V]. intros e (q & Hq & Hqid).
  destruct (Nat.eq_dec (snd e) k) as [EQ|NE].
  - exists p'. rewrite EQ. rewrite (nth_error_set_nth_same _ _ _ _ Hk). split; [reflexivity|].
    rewrite EQ, Hk in Hq. injection Hq as <-. congruence.
  - exists q. rewrite nth_error_set_nth_other by exact NE. split; assumption.
Qed.

Lemma get_or_create_valid st pn : reg_valid st ->
  reg_valid (fst (get_or_create st pn)) /\ st_type (fst (get_or_create st pn)) = st_type st /\
  exists p, nth_error (st_heap (fst (get_or_create st pn))) (snd (get_or_create st pn)) = Some p /\ p_id p = pn.
Proof.
  intro V. unfold get_or_create. destruct (lookup pn (st_reg st)) as [k|] eqn:L; cbn [fst snd].
  - split; [exact V|]. split; [reflexivity|]. apply lookup_Some_In in L. unfold reg_valid in V.
    rewrite Forall_forall in V. exact (V _ L).
  - cbn [st_heap st_reg st_type]. split; [|split; [reflexivity|]].
    + unfold reg_valid. cbn [st_heap st_reg]. apply Forall_app. split.
      * eapply Forall_impl; [|exact V]. intros e (q & Hq & Hid). exists q. split; [|exact Hid].
        rewrite nth_error_app1; [exact Hq|]. apply nth_error_Some. rewrite Hq. discriminate.
      * constructor; [|constructor]. cbn [fst snd]. exists (fresh_pool (st_type st) pn).
        rewrite nth_error_app2 by apply Nat.le_refl. rewrite Nat.sub_diag. split; reflexivity.
    + exists (fresh_pool (st_type st) pn). rewrite nth_error_app2 by apply Nat.le_refl. rewrite Nat.sub_diag.
      split; reflexivity.
Qed.

Lemma hinc_one_valid st node d : reg_valid st ->
  reg_valid (fst (hinc_one st node d)) /\ st_type (fst (hinc_one st node d)) = st_type st.
Proof.
  intro V. unfold hinc_one.
  destruct (d_fmt d) eqn:F; try (split; [exact V|reflexivity]);
    (destruct (d_pool d) as [pn|]; [|split; [exact V|reflexivity]];
     destruct (get_or_create_valid st pn V) as (V1 & T1 & p & Hp & Hid);
     destruct (get_or_create st pn) as [st1 k]; cbn [fst snd] in *; rewrite Hp).
  - destruct (p_on p); [split; assumption|].
    destruct (d_details d); cbn [fst];
      match goal with |- context [upd_obj st1 k ?q] =>
        destruct (upd_obj_valid st1 k p q V1 Hp eq_refl) as [V2 T2]; split; [exact V2|congruence] end.
  - cbn [fst]. match goal with |- context [upd_obj st1 k ?q] =>
        destruct (upd_obj_valid st1 k p q V1 Hp eq_refl) as [V2 T2]; split; [exact V2|congruence] end.
Qed.

Lemma hinc_items_valid node items : forall st, reg_valid st ->
  reg_valid (fst (hinc_items st node items)) /\ st_type (fst (hinc_items st node items)) = st_type st.
Proof.
  induction items as [|d r IH]; intros st V; [split; [exact V|reflexivity]|].
  cbn [hinc_items]. destruct (hinc_one_valid st node d V) as [V1 T1].
  destruct (hinc_one st node d) as [st1 [e|]]; cbn [fst] in *; [split; assumption|].
  destruct (IH st1 V1) as [V2 T2]. split; [exact V2|congruence].
Qed.

Lemma hstep_valid st o : reg_valid st -> reg_valid (fst (hstep st o)) /\ st_type (fst (hstep st o)) = st_type st.
Proof.
  intro V. unfold reg_valid in *. destruct o; cbn [hstep].
  - destruct (pool_apply_all _ _) as [p os]. cbn [fst st_heap st_reg st_type]. split; [|reflexivity].
    eapply Forall_impl; [|exact V]. intros e (q & Hq & Hid). exists q. split; [|exact Hid].
    rewrite nth_error_app1; [exact Hq|]. apply nth_error_Some. rewrite Hq. discriminate.
  - destruct (nth_error (st_heap st) k) as [p|] eqn:Hk; [|split; [exact V|reflexivity]].
    destruct (pool_apply p o) as [p'|e] eqn:A; [|split; [exact V|reflexivity]].
    cbn [fst st_heap st_reg st_type]. split; [|reflexivity].
    eapply Forall_impl; [|exact V]. intros e (q & Hq & Hid).
    destruct (Nat.eq_dec (snd e) k) as [EQ|NE].
    + exists p'. rewrite EQ. rewrite (nth_error_set_nth_same _ _ _ _ Hk). split; [reflexivity|].
      rewrite (pool_apply_id _ _ _ A). rewrite EQ, Hk in Hq. injection Hq as <-. exact Hid.
    + exists q. rewrite nth_error_set_nth_other by exact NE. split; assumption.
  - destruct (nth_error (st_heap st) k) as [p|] eqn:Hk; [|split; [exact V|reflexivity]].
    destruct (dtype_eqb (p_type p) (st_type st)); [|split; [exact V|reflexivity]].
    cbn [fst st_heap st_reg st_type]. split; [|reflexivity]. eapply put_reg_valid; [exact Hk|reflexivity|exact V].
  - destruct (index_from _ _ _) as [idx oe]. cbn [fst st_heap st_reg st_type]. split; [exact V|reflexivity].
  - destruct (dtype_eqb dty (st_type st)); [|split; [exact V|reflexivity]].
    destruct (hinc_items_valid node items st V) as [V1 T1].
    destruct (hinc_items st node items) as [st1 oe]. cbn [fst] in *. split; assumption.
  - split; [exact V|reflexivity].
  - destruct (get_or_create_valid st pid V) as (V1 & T1 & _).
    destruct (get_or_create st pid) as [st1 k]. cbn [fst] in *. split; assumption.
  - split; [exact V|reflexivity].
  - split; [exact V|reflexivity].
Qed.

Lemma hrun_valid ops : forall st, reg_valid st ->
  reg_valid (hfinal st ops) /\ st_type (hfinal st ops) = st_type st.
Proof.
  unfold hfinal. induction ops as [|o r IH]; intros st V; [split; [exact V|reflexivity]|].
  cbn [hrun]. destruct (hstep st o) as [st1 v] eqn:E1.
  destruct (hstep_valid st o V) as [V1 T1]. rewrite E1 in V1, T1. cbn [fst] in V1, T1.
  destruct (IH st1 V1) as [V2 T2]. destruct (hrun st1 r) as [st2 vs]. cbn [fst] in *. split; [exact V2|congruence].
Qed.

(* ---------------------------------------------------------------------------------------------- *)
(* the index of the state = the index of the registry's current pools                               *)
(* ---------------------------------------------------------------------------------------------- *)
Lemma deref_app h a b : deref h (a ++ b) = deref h a ++ deref h b.
Proof. unfold deref. apply flat_map_app. Qed.

Lemma resolve_group_add h did k p acc : nth_error h k = Some p ->
  resolve h (group_add did k acc) = group_add did p (resolve h acc).
Proof.
  intro Hk. induction acc as [|[d ks] r IH]; simpl.
  - unfold resolve. simpl. rewrite Hk. reflexivity.
  - destruct (str_eqb d did); simpl.
    + unfold resolve at 1. cbn [map fst snd]. rewrite deref_app. unfold deref at 2. simpl. rewrite Hk. reflexivity.
    + unfold resolve at 1. cbn [map fst snd]. f_equal. exact IH.
Qed.

Lemma index_from_spec h ks : forall acc,
  Forall (fun k => exists p, nth_error h k = Some p) ks ->
  match index_from h ks acc with
  | (acc', None) => build_index_from (deref h ks) (resolve h acc) = Ok (resolve h acc')
  | (_, Some e) => build_index_from (deref h ks) (resolve h acc) = Err e
  end.
Proof.
  induction ks as [|k r IH]; intros acc V; [reflexivity|].
  apply Forall_cons_iff in V as [[p Hk] Vr]. cbn [index_from]. rewrite Hk.
  assert (D : deref h (k :: r) = p :: deref h r) by (unfold deref; simpl; rewrite Hk; reflexivity).
  rewrite D. cbn [build_index_from].
  destruct (validate_pool p) as [e|]; [reflexivity|].
  destruct (p_deleg p) as [did|]; [|reflexivity].
  rewrite <- (resolve_group_add h did k p acc Hk). apply IH. exact Vr.
Qed.

Lemma reg_handles_valid st : reg_valid st ->
  Forall (fun k => exists p, nth_error (st_heap st) k = Some p) (map snd (st_reg st)).
Proof.
  unfold reg_valid. intro V. apply Forall_forall. intros k Hk. apply in_map_iff in Hk as (e & <- & He).
  rewrite Forall_forall in V. destruct (V e He) as (p & Hp & _). exists p. exact Hp.
Qed.

(* whatever the index held before (any history): after build_index it is the index of the current registry *)
Lemma reindex_is_index_of_registry st i0 : reg_valid st -> build_index (reg_pools st) = Ok i0 ->
  exists idx, st_index (fst (hstep st HIndex)) = Some idx /\ resolve (st_heap (fst (hstep st HIndex))) idx = i0 /\
              st_heap (fst (hstep st HIndex)) = st_heap st /\ st_reg (fst (hstep st HIndex)) = st_reg st /\
              st_type (fst (hstep st HIndex)) = st_type st.
Proof.
  intros V B. cbn [hstep].
  pose proof (index_from_spec (st_heap st) (map snd (st_reg st)) [] (reg_handles_valid st V)) as SP.
  destruct (index_from (st_heap st) (map snd (st_reg st)) []) as [idx oe].
  unfold build_index, reg_pools in B. cbn in SP.
  destruct oe as [e|]; rewrite B in SP; [discriminate|]. injection SP as SPE.
  exists idx. cbn. repeat split; try reflexivity. symmetry. exact SPE.
Qed.

Lemma reindex_rejects st e : reg_valid st -> build_index (reg_pools st) = Err e ->
  snd (hstep st HIndex) = VErr (exn_name e).
Proof.
  intros V B. cbn [hstep].
  pose proof (index_from_spec (st_heap st) (map snd (st_reg st)) [] (reg_handles_valid st V)) as SP.
  destruct (index_from (st_heap st) (map snd (st_reg st)) []) as [idx oe].
  unfold build_index, reg_pools in B. cbn in SP.
  destruct oe as [e'|]; rewrite B in SP; [|discriminate]. injection SP as <-. reflexivity.
Qed.

(* build_index, accepted or refused, changes no pool and not the registry (only the index) *)
Lemma index_changes_no_pool st : st_heap (fst (hstep st HIndex)) = st_heap st /\ st_reg (fst (hstep st HIndex)) = st_reg st.
Proof. cbn [hstep]. destruct (index_from _ _ _). split; reflexivity. Qed.

(* a read-only query changes nothing at all *)
Lemma query_changes_nothing st q : fst (hstep st (HQuery q)) = st.
Proof. reflexivity. Qed.

(* the regrouping identity from any state: re-index, generate, read back = the pools of the registry *)
Lemma regroup_from_state st : reg_valid st -> pools_wf (st_type st) (reg_pools st) = true ->
  exists P', hregroup (fst (hstep st HIndex)) = Ok P' /\ pools_equiv P' (reg_pools st).
Proof.
  intros V WF. destruct (pools_regroup (st_type st) (reg_pools st) WF) as (P' & RG & EQ).
  unfold regroup in RG. destruct (build_index (reg_pools st)) as [i0|e] eqn:B; [|discriminate]. cbn [bind] in RG.
  destruct (reindex_is_index_of_registry st i0 V B) as (idx & SI & RS & SH & SR & ST).
  exists P'. split; [|exact EQ]. unfold hregroup, hgenerate. rewrite SI, RS, ST. exact RG.
Qed.

Lemma init_valid ty : reg_valid (init_state ty).
Proof. constructor. Qed.

(* ... hence after ANY history on one Pools object *)
Lemma regroup_after_any_history ty ops :
  let st := hfinal (init_state ty) ops in
  pools_wf ty (reg_pools st) = true ->
  exists P', hregroup (fst (hstep st HIndex)) = Ok P' /\ pools_equiv P' (reg_pools st).
Proof.
  intros st WF. destruct (hrun_valid ops (init_state ty) (init_valid ty)) as [V T]. fold st in V, T.
  cbn in T. apply regroup_from_state; [exact V|rewrite T; exact WF].
Qed.

Lemma conflict_after_any_history ty ops :
  let st := hfinal (init_state ty) ops in
  forallb (pool_ok ty) (reg_pools st) = true -> no_conflict (reg_pools st) = false ->
  hgenerate (fst (hstep st HIndex)) = Err EDelegation.
Proof.
  intros st OK NC. destruct (hrun_valid ops (init_state ty) (init_valid ty)) as [V T]. fold st in V, T. cbn in T.
  destruct (index_complete ty (reg_pools st) OK) as (i0 & B & _).
  destruct (reindex_is_index_of_registry st i0 V B) as (idx & SI & RS & SH & SR & ST).
  unfold hgenerate. rewrite SI, RS, ST, T. eapply generate_conflict; eassumption.
Qed.

(* values of the non-vacuity Example: index, move pool1 to another delegation id, replace pool2 by a new object,
   and only then regroup *)
Definition ex_history : list hop :=
  [ HNew (mkPS TLab (S"pool1") (Some (S"del1")) (Some (S"node1")) [S"node2"; S"node3"] [PSetDetails (ex_labs (S"1-100"))]);
    HNew (mkPS TLab (S"pool2") (Some (S"del2")) (Some (S"node2")) [S"node1"] [PSetDetails (ex_labs (S"101-200"))]);
    HAdd 0; HAdd 1; HIndex;
    HPool 0 (PSetDeleg (S"del9"));
    HNew (mkPS TLab (S"pool2") (Some (S"del2")) (Some (S"node3")) [S"node4"] [PSetDetails (ex_labs (S"7-8"))]);
    HAdd 2 ].

(* C05: merge_nodes on the shared store keeps every link of both nodes, removes the other graph's node,
   leaves all other links alone and applies the discard / overwrite / combine policy property by
   property; and the witness that a KeyError raised by the policy comes AFTER the contraction. *)
From Coq Require Import List NArith Bool Lia.
From FIM Require Import Base.Assoc Model.Store.
From FIM Require Import Proofs.IsolationBase Proofs.IsolationShared Proofs.RefineGuards Proofs.RefineUnique.
Import ListNotations.
Open Scope N_scope.

Definition pres (G : nxg) (a b : N) : bool := match nx_edge G a b with Some _ => true | None => false end.

Lemma find_existsb {A} (f : A -> bool) l : (match find f l with Some _ => true | None => false end) = existsb f l.
Proof. induction l as [|x r IH]; simpl; [reflexivity|]. destruct (f x); [reflexivity | exact IH]. Qed.

Lemma pres_existsb G a b : pres G a b = existsb (edge_is a b) (ge G).
Proof.
  unfold pres, nx_edge. rewrite <- find_existsb. destruct (find (edge_is a b) (ge G)) as [[[x y] ps]|]; reflexivity.
Qed.

Lemma edge_is_sym a b e : edge_is a b e = edge_is b a e.
Proof. destruct e as [[x y] ps]. unfold edge_is. apply orb_comm. Qed.

Lemma existsb_ext' {A} (f h : A -> bool) l : (forall x, f x = h x) -> existsb f l = existsb h l.
Proof. intro H. induction l as [|x r IH]; simpl; [reflexivity|]. now rewrite H, IH. Qed.

Lemma pres_sym G a b : pres G a b = pres G b a.
Proof. rewrite !pres_existsb. apply existsb_ext'. intros; apply edge_is_sym. Qed.

Lemma edge_is_pair a b c d ps ps' : edge_is a b (c, d, ps) = edge_is a b (c, d, ps').
Proof. reflexivity. Qed.

Lemma edge_is_eq_pres G a b c d ps : edge_is a b (c, d, ps) = true -> pres G a b = pres G c d.
Proof.
  unfold edge_is. intro H. apply orb_true_iff in H as [H|H]; apply andb_true_iff in H as [H1 H2];
    apply N.eqb_eq in H1, H2; subst; [reflexivity | apply pres_sym].
Qed.

Lemma existsb_set_edge a b u x ps l :
  existsb (edge_is a b) (set_edge u x ps l) = existsb (edge_is a b) l.
Proof.
  induction l as [|[[p q] d] r IH]; [reflexivity|]. cbn [set_edge].
  destruct (edge_is u x (p, q, d)); cbn [existsb fst snd].
  - reflexivity.
  - now rewrite IH.
Qed.

(* the neighbour (as re-homed to u) an edge of v contributes *)
Definition xof (u v : N) (e : edge) : N :=
  let '(p, q, _) := e in let x0 := if N.eqb p v then q else p in if N.eqb x0 v then u else x0.

Lemma pres_remap u v G e a b :
  pres (remap_edge u v G e) a b = pres G a b || edge_is a b (u, xof u v e, []).
Proof.
  destruct e as [[p q] d]. unfold remap_edge, xof.
  set (x0 := if N.eqb p v then q else p). set (x := if N.eqb x0 v then u else x0).
  destruct (nx_edge G u x) as [ps|] eqn:E.
  - rewrite !pres_existsb. unfold nx_set_edge. cbn [ge]. rewrite existsb_set_edge.
    destruct (edge_is a b (u, x, [])) eqn:Ei; [|now rewrite orb_false_r].
    rewrite orb_true_r. rewrite <- pres_existsb. rewrite (edge_is_eq_pres G a b u x [] Ei).
    unfold pres. now rewrite E.
  - rewrite !pres_existsb. cbn [ge]. rewrite existsb_app. cbn [existsb]. now rewrite orb_false_r.
Qed.

Lemma pres_fold_remap u v es : forall G a b,
  pres (fold_left (remap_edge u v) es G) a b = pres G a b || existsb (fun e => edge_is a b (u, xof u v e, [])) es.
Proof.
  induction es as [|e r IH]; intros G a b; cbn [fold_left existsb]; [now rewrite orb_false_r|].
  rewrite IH, pres_remap. now rewrite orb_assoc.
Qed.

Lemma pres_remove_node G v a b :
  pres (nx_remove_node G v) a b = pres G a b && negb (N.eqb a v) && negb (N.eqb b v).
Proof.
  rewrite !pres_existsb. unfold nx_remove_node. cbn [ge].
  induction (ge G) as [|[[p q] d] r IH]; cbn [filter existsb]; [reflexivity|].
  destruct (edge_touches v (p, q, d)) eqn:Et; cbn [negb existsb].
  - rewrite IH. destruct (edge_is a b (p, q, d)) eqn:Ei; [|reflexivity].
    cbn [orb]. unfold edge_touches in Et. unfold edge_is in Ei.
    apply orb_true_iff in Ei as [Ei|Ei]; apply andb_true_iff in Ei as [E1 E2];
      apply N.eqb_eq in E1, E2; subst p q;
      apply orb_true_iff in Et as [Et|Et]; rewrite Et; cbn; now rewrite ?andb_false_r.
  - rewrite IH. destruct (edge_is a b (p, q, d)) eqn:Ei; [|reflexivity].
    cbn [orb]. unfold edge_touches in Et. apply orb_false_iff in Et as [Et1 Et2]. unfold edge_is in Ei.
    apply orb_true_iff in Ei as [Ei|Ei]; apply andb_true_iff in Ei as [E1 E2];
      apply N.eqb_eq in E1, E2; subst p q; rewrite Et1, Et2; reflexivity.
Qed.

Lemma xof_edge_is u v y e :
  y <> u -> y <> v -> edge_touches v e = true -> edge_is u y (u, xof u v e, []) = edge_is v y e.
Proof.
  intros Hu Hv. destruct e as [[p q] d]. unfold edge_touches, xof, edge_is. intro Ht.
  assert (Huy : N.eqb u y = false) by (apply N.eqb_neq; congruence).
  assert (Hvy : N.eqb v y = false) by (apply N.eqb_neq; congruence).
  rewrite N.eqb_refl, Huy. cbn [andb]. rewrite orb_false_r.
  destruct (N.eqb p v) eqn:Ep.
  - apply N.eqb_eq in Ep. subst p. rewrite Hvy. cbn [andb]. rewrite orb_false_r.
    destruct (N.eqb q v) eqn:Eq.
    + apply N.eqb_eq in Eq. subst q. now rewrite Huy, Hvy.
    + reflexivity.
  - cbn [orb] in Ht. rewrite Ep, Ht. cbn [andb orb]. now rewrite andb_true_r.
Qed.

Lemma existsb_filter {A} (f h : A -> bool) l : existsb f (filter h l) = existsb (fun x => h x && f x) l.
Proof.
  induction l as [|x r IH]; simpl; [reflexivity|]. destruct (h x); simpl; now rewrite IH.
Qed.

(* the contraction: v's links become u's *)
Theorem contract_neighbours G u v y :
  y <> u -> y <> v -> pres (contract G u v) u y = pres G u y || pres G v y.
Proof.
  intros Hu Hv. unfold contract. rewrite pres_fold_remap, pres_remove_node.
  assert (E1 : negb (N.eqb u v) = true \/ pres G u y = pres G u y) by (now right).
  rewrite existsb_filter.
  assert (E2 : existsb (fun x => edge_touches v x && edge_is u y (u, xof u v x, [])) (ge G) = pres G v y).
  { rewrite pres_existsb. apply existsb_ext'. intro e.
    destruct (edge_touches v e) eqn:Et.
    - cbn [andb]. now apply xof_edge_is.
    - cbn [andb]. destruct e as [[p q] d]. unfold edge_touches in Et. apply orb_false_iff in Et as [Et1 Et2].
      unfold edge_is. rewrite (N.eqb_sym p v) in Et1. rewrite (N.eqb_sym q v) in Et2.
      rewrite (N.eqb_sym p v), (N.eqb_sym q v), Et1, Et2. now rewrite andb_false_r. }
  rewrite E2. apply N.eqb_neq in Hv. rewrite Hv. cbn [negb]. rewrite andb_true_r.
  destruct (N.eqb u v) eqn:Euv.
  - apply N.eqb_eq in Euv; subst v. cbn [negb]. rewrite andb_false_r. cbn [orb]. now rewrite orb_diag.
  - cbn [negb]. now rewrite andb_true_r.
Qed.

(* links that touch neither node are untouched, properties included *)
Lemma find_set_edge_other a b u x ps l :
  a <> u -> b <> u -> find (edge_is a b) (set_edge u x ps l) = find (edge_is a b) l.
Proof.
  intros Ha Hb. induction l as [|[[p q] d] r IH]; [reflexivity|]. cbn [set_edge].
  destruct (edge_is u x (p, q, d)) eqn:Ei; cbn [find fst snd].
  - assert (edge_is a b (p, q, d) = false).
    { unfold edge_is in *. apply N.eqb_neq in Ha, Hb.
      apply orb_true_iff in Ei as [Ei|Ei]; apply andb_true_iff in Ei as [E1 E2]; apply N.eqb_eq in E1, E2; subst p q.
      - rewrite (N.eqb_sym u a), (N.eqb_sym u b), Ha, Hb. reflexivity.
      - rewrite (N.eqb_sym u a), (N.eqb_sym u b), Ha, Hb. now rewrite !andb_false_r. }
    assert (edge_is a b (p, q, ps) = false) by exact H. now rewrite H, H0.
  - destruct (edge_is a b (p, q, d)); [reflexivity | exact IH].
Qed.

Lemma find_app_other {A} (f : A -> bool) l e : f e = false -> find f (l ++ [e]) = find f l.
Proof.
  intro H. induction l as [|x r IH]; simpl; [now rewrite H|]. destruct (f x); [reflexivity | exact IH].
Qed.

Lemma nx_edge_remap_other u v G e a b :
  a <> u -> b <> u -> nx_edge (remap_edge u v G e) a b = nx_edge G a b.
Proof.
  intros Ha Hb. destruct e as [[p q] d]. unfold remap_edge.
  set (x := if N.eqb (if N.eqb p v then q else p) v then u else (if N.eqb p v then q else p)).
  destruct (nx_edge G u x) as [ps|]; unfold nx_edge; cbn [ge].
  - unfold nx_set_edge. cbn [ge]. now rewrite find_set_edge_other.
  - rewrite find_app_other; [reflexivity|].
    unfold edge_is. apply N.eqb_neq in Ha, Hb. rewrite (N.eqb_sym u a), (N.eqb_sym u b), Ha, Hb.
    reflexivity.
Qed.

Lemma find_filter_other a b v l :
  a <> v -> b <> v ->
  find (edge_is a b) (filter (fun e => negb (edge_touches v e)) l) = find (edge_is a b) l.
Proof.
  intros Ha Hb. induction l as [|[[p q] d] r IH]; [reflexivity|]. cbn [filter].
  destruct (edge_touches v (p, q, d)) eqn:Et; cbn [negb find].
  - assert (edge_is a b (p, q, d) = false).
    { unfold edge_is, edge_touches in *. apply N.eqb_neq in Ha, Hb.
      destruct (N.eqb p a && N.eqb q b) eqn:E1.
      - apply andb_true_iff in E1 as [X Y]. apply N.eqb_eq in X, Y. subst p q.
        rewrite Ha, Hb in Et. discriminate.
      - destruct (N.eqb p b && N.eqb q a) eqn:E2; [|reflexivity].
        apply andb_true_iff in E2 as [X Y]. apply N.eqb_eq in X, Y. subst p q.
        rewrite Ha, Hb in Et. discriminate. }
    now rewrite H.
  - destruct (edge_is a b (p, q, d)); [reflexivity | exact IH].
Qed.

Theorem contract_elsewhere G u v a b :
  a <> u -> b <> u -> a <> v -> b <> v -> nx_edge (contract G u v) a b = nx_edge G a b.
Proof.
  intros Hau Hbu Hav Hbv. unfold contract.
  assert (K : forall es G0, nx_edge (fold_left (remap_edge u v) es G0) a b = nx_edge G0 a b).
  { induction es as [|e r IH]; intro G0; cbn [fold_left]; [reflexivity|].
    rewrite IH. now apply nx_edge_remap_other. }
  rewrite K. unfold nx_edge, nx_remove_node. cbn [ge]. now rewrite find_filter_other.
Qed.

(* ---------- removal of the 'contraction' bookkeeping from the survivor's links ---------- *)
Lemma edge_is_strip u a b e : edge_is a b (strip_edge u e) = edge_is a b e.
Proof. destruct e as [[p q] d]. unfold strip_edge. destruct (edge_touches u (p, q, d)); reflexivity. Qed.

Lemma pres_strip u G a b : pres (strip_contraction u G) a b = pres G a b.
Proof.
  rewrite !pres_existsb. unfold strip_contraction. cbn [ge].
  induction (ge G) as [|e r IH]; [reflexivity|]. cbn [map existsb]. now rewrite edge_is_strip, IH.
Qed.

Lemma find_strip u a b l :
  find (edge_is a b) (map (strip_edge u) l) = option_map (strip_edge u) (find (edge_is a b) l).
Proof.
  induction l as [|e r IH]; [reflexivity|]. cbn [map find]. rewrite edge_is_strip.
  destruct (edge_is a b e); [reflexivity | exact IH].
Qed.

Lemma nx_edge_strip_other u G a b : a <> u -> b <> u -> nx_edge (strip_contraction u G) a b = nx_edge G a b.
Proof.
  intros Ha Hb. unfold nx_edge, strip_contraction. cbn [ge]. rewrite find_strip.
  destruct (find (edge_is a b) (ge G)) as [[[p q] d]|] eqn:E; [|reflexivity]. cbn [option_map].
  apply find_some in E as [_ E]. unfold strip_edge.
  assert (edge_touches u (p, q, d) = false).
  { unfold edge_is in E. unfold edge_touches. apply N.eqb_neq in Ha, Hb.
    apply orb_true_iff in E as [E|E]; apply andb_true_iff in E as [E1 E2]; apply N.eqb_eq in E1, E2; subst p q;
      now rewrite Ha, Hb. }
  now rewrite H.
Qed.

Lemma aget_drop_key k ps : aget k (drop_key k ps) = None.
Proof.
  unfold drop_key. induction ps as [|[k' v] r IH]; [reflexivity|]. cbn [filter fst].
  destruct (N.eqb k' k) eqn:E; cbn [negb]; [exact IH|]. cbn [aget]. rewrite N.eqb_sym, E. exact IH.
Qed.

Lemma nx_edge_strip_u u G y ps : nx_edge (strip_contraction u G) u y = Some ps -> aget k_contraction ps = None.
Proof.
  unfold nx_edge, strip_contraction. cbn [ge]. rewrite find_strip.
  destruct (find (edge_is u y) (ge G)) as [[[p q] d]|] eqn:E; [|discriminate]. cbn [option_map].
  apply find_some in E as [_ E]. unfold strip_edge.
  assert (edge_touches u (p, q, d) = true).
  { unfold edge_is in E. unfold edge_touches.
    apply orb_true_iff in E as [E|E]; apply andb_true_iff in E as [E1 E2]; apply N.eqb_eq in E1, E2; subst;
      rewrite N.eqb_refl; [reflexivity | apply orb_true_r]. }
  rewrite H. cbn [fst snd]. intro H0. inversion H0. apply aget_drop_key.
Qed.

(* ---------- the property policy ---------- *)
Definition policy_spec (pol : list (N * N)) (other : props) (k : N) (m : pval) : option pval :=
  match aget k pol with
  | None => Some m
  | Some p => policy_value p m (aget k other)
  end.

Lemma merge_props_spec pol mine other todo np :
  merge_props pol mine other todo = Some np ->
  forall k, aget k np = match aget k todo with Some m => policy_spec pol other k m | None => None end.
Proof.
  revert np. induction todo as [|[k0 v] r IH]; cbn [merge_props]; intros np H k.
  - inversion H. reflexivity.
  - destruct (match aget k0 pol with Some p => policy_value p v (aget k0 other) | None => Some v end) as [x|] eqn:Ex;
      [|discriminate].
    destruct (merge_props pol mine other r) as [rest|] eqn:Er; [|discriminate].
    inversion H; subst np. cbn [aget]. destruct (N.eqb k k0) eqn:E.
    + apply N.eqb_eq in E; subst k0. unfold policy_spec. exact (eq_sym Ex).
    + now apply IH.
Qed.

(* ---------- merge_nodes as a whole ---------- *)
Theorem merge_ok_spec G g n g2 pol G' :
  NoDup (ids G) -> s_merge G g n g2 pol = (G', Ok RUnit) ->
  exists u v mine other,
    find_node G g n = Some u /\ find_node G g2 n = Some v /\ u <> v /\
    nx_node G u = Some mine /\ nx_node G v = Some other /\
    (* the other graph's node is gone, all other nodes are as they were *)
    nx_node G' v = None /\
    (forall i, i <> u -> i <> v -> nx_node G' i = nx_node G i) /\
    (* every link of either node is a link of the surviving node *)
    (forall y, y <> u -> y <> v -> pres G' u y = pres G u y || pres G v y) /\
    (forall a b, a <> u -> b <> u -> a <> v -> b <> v -> nx_edge G' a b = nx_edge G a b) /\
    (* no link of the surviving node carries networkx's 'contraction' bookkeeping *)
    (forall y ps, nx_edge G' u y = Some ps -> aget k_contraction ps = None) /\
    (* the properties follow the policy, key by key *)
    exists np, nx_node G' u = Some np /\
      forall k, aget k np = match aget k mine with
                            | Some m => match pol with Some p => policy_spec p other k m | None => Some m end
                            | None => None
                            end.
Proof.
  intros Hnd H. unfold s_merge in H.
  destruct (N.eqb g g2) eqn:Eg; [inversion H|]. apply N.eqb_neq in Eg.
  destruct (negb (pg_graph_exists G g2)); [inversion H|].
  destruct (find_node G g n) as [u|] eqn:Eu; [|inversion H].
  destruct (find_node G g2 n) as [v|] eqn:Ev; [|inversion H].
  destruct (nx_node G u) as [mine|] eqn:Emine; [|inversion H].
  destruct (nx_node G v) as [other|] eqn:Eother; [|inversion H].
  assert (Huv : u <> v).
  { intro E; subst v.
    destruct (find_node_sound G g n u Hnd Eu) as [p1 [A1 [A2 _]]].
    destruct (find_node_sound G g2 n u Hnd Ev) as [p2 [B1 [B2 _]]].
    rewrite A1 in B1. inversion B1; subst p2. apply Eg. eapply has_val_inj; eauto. }
  set (G1 := strip_contraction u (contract G u v)) in *.
  assert (Hcu : nx_node G1 u = Some mine).
  { change (nx_node (contract G u v) u = Some mine). rewrite nx_node_contract; assumption. }
  assert (Hgn : gn G1 = filter (fun nd => negb (N.eqb (fst nd) v)) (gn G)).
  { unfold G1, strip_contraction, contract. cbn [gn]. now rewrite gn_fold_remap. }
  assert (Hcv : forall ps, nx_node (nx_set_node G1 u ps) v = None).
  { intro ps. unfold nx_node, nx_set_node. cbn [gn]. rewrite aget_set_node.
    assert (N.eqb v u = false) by (apply N.eqb_neq; congruence). rewrite H0.
    rewrite Hgn. apply aget_None_notin. rewrite (map_fst_filter_fst (fun i => negb (N.eqb i v))). intro Hin. apply filter_In in Hin as [_ Hin].
    rewrite N.eqb_refl in Hin. discriminate. }
  assert (Hci : forall ps i, i <> u -> i <> v -> nx_node (nx_set_node G1 u ps) i = nx_node G i).
  { intros ps i Hiu Hiv. unfold nx_node, nx_set_node. cbn [gn]. rewrite aget_set_node.
    assert (N.eqb i u = false) by now apply N.eqb_neq. rewrite H0. rewrite Hgn.
    clear -Hiv. induction (gn G) as [|[j q] r IH]; [reflexivity|]. cbn [filter fst].
    destruct (N.eqb j v) eqn:E; cbn [negb aget].
    - apply N.eqb_eq in E; subst j. assert (N.eqb i v = false) by now apply N.eqb_neq. now rewrite H.
    - destruct (N.eqb i j); [reflexivity | exact IH]. }
  assert (Hpres : forall ps y, y <> u -> y <> v ->
                  pres (nx_set_node G1 u ps) u y = pres G u y || pres G v y).
  { intros ps y Hyu Hyv. rewrite <- contract_neighbours by assumption. rewrite <- (pres_strip u (contract G u v)). reflexivity. }
  assert (Hels : forall ps a b, a <> u -> b <> u -> a <> v -> b <> v ->
                 nx_edge (nx_set_node G1 u ps) a b = nx_edge G a b).
  { intros ps a b H1 H2 H3 H4. rewrite <- (contract_elsewhere G u v a b) by assumption.
    rewrite <- (nx_edge_strip_other u (contract G u v) a b) by assumption. reflexivity. }
  assert (Hnoc : forall ps y q, nx_edge (nx_set_node G1 u ps) u y = Some q -> aget k_contraction q = None).
  { intros ps y q Hq. apply (nx_edge_strip_u u (contract G u v) y q). exact Hq. }
  assert (Hnu : forall ps, nx_node (nx_set_node G1 u ps) u = Some ps).
  { intro ps. unfold nx_node, nx_set_node. cbn [gn]. rewrite aget_set_node, N.eqb_refl.
    unfold nx_node in Hcu. now rewrite Hcu. }
  exists u, v, mine, other.
  destruct pol as [p|].
  - destruct (merge_props p mine other mine) as [np|] eqn:Em; inversion H; subst G'.
    repeat split; auto; try (intros; eapply Hnoc; eauto). exists np. split; [apply Hnu|]. intro k.
    rewrite (merge_props_spec p mine other mine np Em k). reflexivity.
  - inversion H; subst G'. repeat split; auto; try (intros; eapply Hnoc; eauto). exists mine. split; [apply Hnu|].
    intro k. now destruct (aget k mine).
Qed.

(* ---------- a failing merge leaves everything unchanged (fix e66ee73) ---------- *)
Theorem merge_fails_unchanged G g n g2 pol e : snd (s_merge G g n g2 pol) = Err e -> fst (s_merge G g n g2 pol) = G.
Proof.
  unfold s_merge. destruct (N.eqb g g2); [reflexivity|]. destruct (negb (pg_graph_exists G g2)); [reflexivity|].
  destruct (find_node G g n); [|reflexivity]. destruct (find_node G g2 n); [|reflexivity].
  destruct (nx_node G n0) as [mine|]; [|reflexivity]. destruct (nx_node G n1) as [other|]; [|reflexivity].
  destruct pol as [pp|]; [destruct (merge_props pp mine other mine)|]; cbn [fst snd]; try reflexivity; discriminate.
Qed.

Theorem merge_fails_unchanged_step s g n g2 pol e :
  snd (sstep s (OMerge g n g2 pol)) = Err e -> fst (sstep s (OMerge g n g2 pol)) = s.
Proof.
  cbn [sstep]. unfold lift. cbn [fst snd]. intro H. rewrite (merge_fails_unchanged _ _ _ _ _ _ H). now destruct s.
Qed.

(* ---------- identity properties survive merges whose policy does not name Class ---------- *)
Lemma merge_props_unnamed pol mine other todo np k :
  merge_props pol mine other todo = Some np -> aget k pol = None -> aget k np = aget k todo.
Proof.
  revert np. induction todo as [|[k0 v] r IH]; cbn [merge_props]; intros np H Hk; [inversion H; reflexivity|].
  destruct (match aget k0 pol with Some p => policy_value p v (aget k0 other) | None => Some v end) as [x|] eqn:Ex; [|discriminate].
  destruct (merge_props pol mine other r) as [rest|] eqn:Er; [|discriminate].
  inversion H; subst np. cbn [aget]. destruct (N.eqb k k0) eqn:E.
  - apply N.eqb_eq in E; subst k0. rewrite Hk in Ex. exact (eq_sym Ex).
  - now apply IH.
Qed.

Lemma merge_props_has pol mine other todo np k :
  merge_props pol mine other todo = Some np -> ahas k todo = true -> ahas k np = true.
Proof.
  revert np. induction todo as [|[k0 v] r IH]; cbn [merge_props]; intros np H Hk; [discriminate Hk|].
  destruct (match aget k0 pol with Some p => policy_value p v (aget k0 other) | None => Some v end) as [x|]; [|discriminate].
  destruct (merge_props pol mine other r) as [rest|] eqn:Er; [|discriminate].
  inversion H; subst np. unfold ahas in *. cbn [aget] in *. destruct (N.eqb k k0); [reflexivity | now apply (IH rest)].
Qed.

Definition class_scope (o : op) : bool :=
  match o with OMerge _ _ _ (Some pol) => negb (ahas k_class pol) | _ => true end.

Lemma evolves_merge G g n g2 pol :
  NoDup (ids G) -> match pol with Some p => ahas k_class p = false | None => True end ->
  evolves G (fst (s_merge G g n g2 pol)).
Proof.
  intros Hnd Hpol. unfold s_merge.
  destruct (N.eqb g g2); [apply evolves_refl|]. destruct (negb (pg_graph_exists G g2)); [apply evolves_refl|].
  destruct (find_node G g n) as [u|] eqn:Eu; [|apply evolves_refl].
  destruct (find_node G g2 n) as [v|] eqn:Ev; [|apply evolves_refl].
  destruct (nx_node G u) as [mine|] eqn:Emine; [|apply evolves_refl].
  destruct (nx_node G v) as [other|] eqn:Eother; [|apply evolves_refl].
  set (G1 := strip_contraction u (contract G u v)).
  assert (Hgn : gn G1 = filter (fun nd => negb (N.eqb (fst nd) v)) (gn G)).
  { unfold G1, strip_contraction, contract. cbn [gn]. now rewrite gn_fold_remap. }
  assert (K : forall np, ident_le mine np -> evolves G (nx_set_node G1 u np)).
  { intros np Hle id ps ps' Ha Hc. unfold nx_node, nx_set_node in Hc. cbn [gn] in Hc. rewrite aget_set_node in Hc.
    destruct (N.eqb id u) eqn:E.
    - apply N.eqb_eq in E; subst id. rewrite Emine in Ha. inversion Ha; subst ps.
      destruct (aget u (gn G1)); inversion Hc; subst. exact Hle.
    - rewrite Hgn in Hc. apply (aget_filter_fst (fun i => negb (N.eqb i v))) in Hc. unfold nx_node in Ha.
      rewrite Ha in Hc. inversion Hc. apply ident_le_refl. }
  destruct pol as [p|]; cbn [fst].
  - destruct (merge_props p mine other mine) as [np|] eqn:Em; cbn [fst]; [|apply evolves_refl].
    apply K. split.
    + intros k _ Hk. eapply merge_props_has; eauto.
    + eapply merge_props_unnamed; eauto. unfold ahas in Hpol. now destruct (aget k_class p).
  - apply K. apply ident_le_refl.
Qed.

Theorem identity_kept_step_merge s o : SInv s -> class_scope o = true -> evolves (sg s) (sg (fst (sstep s o))).
Proof.
  intros HI Hsc. destruct o; try (apply identity_kept_step; [exact HI | reflexivity]).
  cbn [sstep lift fst sg]. apply evolves_merge; [apply HI|].
  destruct pol as [p|]; [now apply negb_true_iff in Hsc | exact I].
Qed.

(* over ALL histories, merges included *)
Theorem identity_kept_all pre ops :
  (forall o, In o ops -> class_scope o = true) ->
  evolves (sg (srun pre init_store)) (sg (srun (pre ++ ops) init_store)).
Proof.
  intro H. unfold srun at 2. rewrite fold_left_app.
  apply (identity_kept_histories_gen class_scope identity_kept_step_merge); [|exact H].
  apply SInv_run. apply SInv_init.
Qed.

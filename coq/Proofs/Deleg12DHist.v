(* C12 proofs, part 7: ONE Delegations container under any history: the API invariants hold in every reachable
   state, the read-only operations change nothing, and to_json is a function of the CURRENT content: whenever it
   succeeds, from_json of its result is the current content. *)
From Coq Require Import List ZArith NArith Bool Lia Permutation String.
From FIM Require Import Base.Str Base.Corr Gen.DelegGen Model.Deleg12 Model.Pools12 Model.Deleg12H
     Proofs.Deleg12Enc.
Import ListNotations.

Lemma nth_error_dset_same {A} k (x : A) l y : nth_error l k = Some y -> nth_error (dset_nth k x l) k = Some x.
Proof.
  revert k. induction l as [|a r IH]; intros [|k] H; simpl in *; try discriminate; [reflexivity|apply IH; exact H].
Qed.

Lemma nth_error_dset_other {A} k j (x : A) l : j <> k -> nth_error (dset_nth k x l) j = nth_error l j.
Proof.
  revert k j. induction l as [|a r IH]; intros [|k] [|j] H; simpl; try reflexivity; try contradiction.
  apply IH. congruence.
Qed.

Lemma dset_nth_Forall {A} (P : A -> Prop) k x l : Forall P l -> P x -> Forall P (dset_nth k x l).
Proof.
  revert k. induction l as [|a r IH]; intros k F Px; [destruct k; constructor|].
  apply Forall_cons_iff in F as [Fa Fr]. destruct k; simpl; constructor; auto.
Qed.

Lemma dderef_app h a b : dderef h (a ++ b) = dderef h a ++ dderef h b.
Proof. unfold dderef. apply flat_map_app. Qed.

Lemma dderef_In h refs d : In d (dderef h refs) -> In d h.
Proof.
  unfold dderef. intro H. apply in_flat_map in H as (k & _ & Hk).
  destruct (nth_error h k) as [x|] eqn:E; [|contradiction]. destruct Hk as [<-|[]]. eapply nth_error_In. exact E.
Qed.

Lemma set_details_inv d x d' : set_details d x = Ok d' -> d_inv d ->
  d_inv d' /\ d_id d' = d_id d /\ d_type d' = d_type d /\ d_details d' = Some x.
Proof.
  intros SD I. pose proof (set_try_inv d x I) as I'. unfold set_try in I'. rewrite SD in I'.
  split; [exact I'|]. unfold set_details in SD.
  destruct (d_fmt d); try discriminate;
    (destruct (dtype_eqb (det_kind x) (d_type d)); [|discriminate]; injection SD as <-; cbn; tauto).
Qed.

Section WithValidators.
Variable lc : str -> dval -> option exn.

Definition obj_ok (d : deleg) : Prop := d_inv d /\ forall x, d_details d = Some x -> det_ok lc x = true.

(* every reachable state: objects as the API builds them, references valid and of the container's type, ids distinct *)
Definition dst_inv (st : dstate) : Prop :=
  Forall obj_ok (dst_heap st) /\
  Forall (fun k => exists d, nth_error (dst_heap st) k = Some d /\ d_type d = dst_type st) (dst_refs st) /\
  NoDup (map d_id (dderef (dst_heap st) (dst_refs st))).

Lemma build_spec_ok s d v : build_spec lc s = (Some d, v) -> obj_ok d.
Proof.
  unfold build_spec. destruct (new_deleg (s_type s) (s_id s) (s_fmt s) (s_pool s)) as [d0|e] eqn:N; [|discriminate].
  apply new_deleg_inv in N as (I0 & _ & _ & _ & D0).
  assert (O0 : obj_ok d0) by (split; [exact I0|intros x Hx; congruence]).
  destruct (s_details s) as [[k dd]|]; [|intro H; injection H as <- _; exact O0].
  destruct (obj_of_dict lc k dd) as [x|e] eqn:O; [|intro H; injection H as <- _; exact O0].
  destruct (set_details d0 x) as [d1|e] eqn:SD; intro H; injection H as <- _; [|exact O0].
  destruct (set_details_inv d0 x d1 SD I0) as (I1 & _ & _ & D1). split; [exact I1|].
  intros y Hy. rewrite D1 in Hy. injection Hy as <-. eapply constructor_builds_ok. exact O.
Qed.

Lemma dderef_grow h d refs : Forall (fun k => exists x, nth_error h k = Some x) refs ->
  dderef (h ++ [d]) refs = dderef h refs.
Proof.
  induction refs as [|k r IH]; intro V; [reflexivity|]. apply Forall_cons_iff in V as [[x Hx] Vr].
  unfold dderef in *. cbn [flat_map]. rewrite IH by exact Vr. f_equal.
  rewrite nth_error_app1; [reflexivity|]. apply nth_error_Some. rewrite Hx. discriminate.
Qed.

Lemma dderef_set_ids h k d d' refs : nth_error h k = Some d -> d_id d' = d_id d ->
  map d_id (dderef (dset_nth k d' h) refs) = map d_id (dderef h refs).
Proof.
  intros Hk Hid. induction refs as [|j r IH]; [reflexivity|].
  unfold dderef in *. cbn [flat_map]. rewrite !map_app, IH. f_equal.
  destruct (Nat.eq_dec j k) as [->|NE].
  - rewrite (nth_error_dset_same _ _ _ _ Hk), Hk. simpl. congruence.
  - rewrite nth_error_dset_other by exact NE. reflexivity.
Qed.

Lemma dderef_filter_ids h f refs x : In x (map d_id (dderef h (filter f refs))) -> In x (map d_id (dderef h refs)).
Proof.
  induction refs as [|k r IH]; [tauto|]. unfold dderef in *. cbn [filter flat_map]. rewrite map_app, in_app_iff.
  destruct (f k); cbn [flat_map]; [rewrite map_app, in_app_iff|]; tauto.
Qed.

Lemma dderef_filter_nodup h f refs : NoDup (map d_id (dderef h refs)) -> NoDup (map d_id (dderef h (filter f refs))).
Proof.
  induction refs as [|k r IH]; intro ND; [constructor|]. unfold dderef in *. cbn [filter flat_map] in *.
  rewrite map_app in ND. destruct (f k); cbn [flat_map].
  - rewrite map_app. destruct (nth_error h k) as [d|]; cbn [map app] in *; [|apply IH; exact ND].
    apply NoDup_cons_iff in ND as [NI ND]. constructor; [|apply IH; exact ND].
    intro H. apply NI. eapply dderef_filter_ids. exact H.
  - apply IH. destruct (nth_error h k); cbn [map app] in ND; [apply NoDup_cons_iff in ND; tauto|exact ND].
Qed.

Lemma dadd_inv h ty ks : forall refs,
  Forall (fun k => exists d, nth_error h k = Some d /\ d_type d = ty) refs ->
  NoDup (map d_id (dderef h refs)) ->
  Forall (fun k => exists d, nth_error h k = Some d /\ d_type d = ty) (fst (dadd h ty refs ks)) /\
  NoDup (map d_id (dderef h (fst (dadd h ty refs ks)))).
Proof.
  induction ks as [|k r IH]; intros refs V ND; [split; assumption|]. cbn [dadd].
  destruct (nth_error h k) as [d|] eqn:Hk; [|split; assumption].
  destruct (add_delegation (mkDs ty (dderef h refs)) d) as [ds'|e] eqn:A; [|split; assumption].
  apply add_ok_inv in A as (T & NI & _). cbn [ds_type ds_items] in *.
  apply IH.
  - apply Forall_app. split; [exact V|]. constructor; [exists d; tauto|constructor].
  - rewrite dderef_app, map_app. unfold dderef at 2. simpl. rewrite Hk. simpl. apply NoDup_snoc; assumption.
Qed.

Lemma dstep_inv st o : dst_inv st -> dst_inv (fst (dstep lc st o)) /\ dst_type (fst (dstep lc st o)) = dst_type st.
Proof.
  intros (OH & VR & ND). unfold dst_inv. destruct o; cbn [dstep].
  - destruct (build_spec lc s) as [[d|] v] eqn:B; cbn [fst dst_heap dst_refs dst_type]; [|tauto].
    split; [|reflexivity]. split; [|split].
    + apply Forall_app. split; [exact OH|]. constructor; [eapply build_spec_ok; exact B|constructor].
    + eapply Forall_impl; [|exact VR]. intros k (x & Hx & Tx). exists x. split; [|exact Tx].
      rewrite nth_error_app1; [exact Hx|]. apply nth_error_Some. rewrite Hx. discriminate.
    + rewrite dderef_grow; [exact ND|]. eapply Forall_impl; [|exact VR]. intros k (x & Hx & _). exists x. exact Hx.
  - destruct (nth_error (dst_heap st) k) as [d|] eqn:Hk; [|cbn; tauto].
    destruct (obj_of_dict lc kind dd) as [x|e] eqn:O; [|cbn; tauto].
    destruct (set_details d x) as [d'|e] eqn:SD; [|cbn; tauto].
    cbn [fst dst_heap dst_refs dst_type]. split; [|reflexivity].
    assert (Od : obj_ok d) by (rewrite Forall_forall in OH; apply OH; eapply nth_error_In; exact Hk).
    destruct (set_details_inv d x d' SD (proj1 Od)) as (I1 & ID & TY & D1).
    split; [|split].
    + apply dset_nth_Forall; [exact OH|]. split; [exact I1|]. intros y Hy. rewrite D1 in Hy. injection Hy as <-.
      eapply constructor_builds_ok. exact O.
    + eapply Forall_impl; [|exact VR]. intros j (y & Hy & Ty).
      destruct (Nat.eq_dec j k) as [->|NE].
      * exists d'. rewrite (nth_error_dset_same _ _ _ _ Hk). split; [reflexivity|]. rewrite Hk in Hy. injection Hy as <-. congruence.
      * exists y. rewrite nth_error_dset_other by exact NE. tauto.
    + rewrite (dderef_set_ids _ _ d d' _ Hk ID). exact ND.
  - destruct (dadd_inv (dst_heap st) (dst_type st) ks (dst_refs st) VR ND) as [V' ND'].
    destruct (dadd (dst_heap st) (dst_type st) (dst_refs st) ks) as [refs oe]. cbn [fst dst_heap dst_refs dst_type] in *. tauto.
  - cbn [fst dst_heap dst_refs dst_type]. split; [|reflexivity]. split; [exact OH|]. split.
    + apply Forall_forall. intros k Hk. apply filter_In in Hk as [Hk _]. rewrite Forall_forall in VR. apply VR. exact Hk.
    + apply dderef_filter_nodup. exact ND.
  - cbn; tauto.
  - cbn; tauto.
  - cbn; tauto.
  - cbn; tauto.
  - cbn; tauto.
  - cbn; tauto.
  - cbn; tauto.
  - cbn [fst dst_heap dst_refs dst_type]. tauto.
  - cbn; tauto.
Qed.

Lemma drun_inv ops : forall st, dst_inv st ->
  dst_inv (dfinal lc st ops) /\ dst_type (dfinal lc st ops) = dst_type st.
Proof.
  unfold dfinal. induction ops as [|o r IH]; intros st I; [split; [exact I|reflexivity]|].
  cbn [drun]. destruct (dstep_inv st o I) as [I1 T1]. destruct (dstep lc st o) as [st1 v]. cbn [fst] in *.
  destruct (IH st1 I1) as [I2 T2]. destruct (drun lc st1 r) as [st2 vs]. cbn [fst] in *. split; [exact I2|congruence].
Qed.

Lemma dinit_inv ty : dst_inv (dinit ty).
Proof. repeat split; constructor. Qed.

(* the invariants of the value the container holds *)
Lemma dst_inv_content st : dst_inv st ->
  ds_inv (dcontent st) /\ Forall d_inv (ds_items (dcontent st)) /\
  Forall (fun d => forall x, d_details d = Some x -> det_ok lc x = true) (ds_items (dcontent st)).
Proof.
  intros (OH & VR & ND). unfold dcontent. cbn [ds_items ds_type].
  assert (A : forall d, In d (dderef (dst_heap st) (dst_refs st)) -> obj_ok d /\ d_type d = dst_type st).
  { intros d Hd. split; [rewrite Forall_forall in OH; apply OH; eapply dderef_In; exact Hd|].
    unfold dderef in Hd. apply in_flat_map in Hd as (k & Hk & Hd). rewrite Forall_forall in VR.
    destruct (VR k Hk) as (x & Hx & Tx). rewrite Hx in Hd. destruct Hd as [<-|[]]. exact Tx. }
  split; [split; [exact ND|]|split]; apply Forall_forall; intros d Hd; apply A in Hd; tauto || apply Hd.
Qed.

(* to_json after ANY history: it encodes the current content (by definition of the step), and whenever it succeeds its
   result decodes to exactly the current content *)
Lemma encode_from_state st doc : dst_inv st -> to_json (dcontent st) = Ok doc ->
  map fst doc = map d_id (ds_items (dcontent st)) /\ from_json lc (dst_type st) doc = Ok (dcontent st).
Proof.
  intros I TJ. destruct (dst_inv_content st I) as (DI & II & DO).
  exact (api_roundtrip lc (dcontent st) doc DI II DO TJ).
Qed.

Lemma encode_after_any_history ty ops doc :
  let st := dfinal lc (dinit ty) ops in
  snd (dstep lc st DEncode) = v_res v_jdoc (to_json (dcontent st)) /\
  dcontent (fst (dstep lc st DEncode)) = dcontent st /\
  (to_json (dcontent st) = Ok doc ->
   map fst doc = map d_id (ds_items (dcontent st)) /\ from_json lc ty doc = Ok (dcontent st)).
Proof.
  intros st. split; [reflexivity|]. split; [reflexivity|]. intro TJ.
  destruct (drun_inv ops (dinit ty) (dinit_inv ty)) as [I T]. fold st in I, T. cbn in T. rewrite <- T.
  apply encode_from_state; assumption.
Qed.

(* the read-only operations (queries, from_json of an earlier text) change neither the container nor any object *)
Lemma readonly_changes_nothing st o : dop_readonly o = true ->
  dst_heap (fst (dstep lc st o)) = dst_heap st /\ dst_refs (fst (dstep lc st o)) = dst_refs st /\
  dcontent (fst (dstep lc st o)) = dcontent st.
Proof. destruct o; try discriminate; intros _; repeat split. Qed.

(* a refused add_delegations call: what stays behind is a prefix of its arguments, nothing else changed *)
Lemma dadd_residue h ty ks : forall refs, exists pre post, ks = pre ++ post /\ fst (dadd h ty refs ks) = refs ++ pre.
Proof.
  induction ks as [|k r IH]; intro refs.
  - exists [], []. split; [reflexivity|]. cbn. rewrite app_nil_r. reflexivity.
  - cbn [dadd]. destruct (nth_error h k) as [d|].
    + destruct (add_delegation (mkDs ty (dderef h refs)) d).
      * destruct (IH (refs ++ [k])) as (pre & post & E & R). exists (k :: pre), post. split; [simpl; congruence|].
        rewrite R, <- app_assoc. reflexivity.
      * exists [], (k :: r). split; [reflexivity|]. cbn. rewrite app_nil_r. reflexivity.
    + exists [], (k :: r). split; [reflexivity|]. cbn. rewrite app_nil_r. reflexivity.
Qed.

(* remove_by_id: afterwards the id is gone and every other delegation is still there, in order *)
Lemma remove_by_id_spec st id :
  ds_items (dcontent (fst (dstep lc st (DRemove id)))) = filter (fun d => negb (str_eqb (d_id d) id)) (ds_items (dcontent st)).
Proof.
  cbn. induction (dst_refs st) as [|k r IH]; [reflexivity|]. unfold dderef in *. cbn [filter flat_map].
  unfold has_id_at at 1. destruct (nth_error (dst_heap st) k) as [d|] eqn:Hk.
  - destruct (str_eqb (d_id d) id) eqn:E; cbn [negb flat_map app filter].
    + rewrite E. cbn. exact IH.
    + rewrite Hk. cbn [app filter]. rewrite E. cbn. f_equal. exact IH.
  - cbn [negb flat_map]. rewrite Hk. exact IH.
Qed.

End WithValidators.

(* values of the non-vacuity Example: encode, remove a delegation, change the details of another through its object,
   encode again *)
Definition ex_dhistory : list dop :=
  [ DNew (mkSpec TCap (S"d1") FSingle None (Some (TCap, [(S"cpu", DInt 1)])));
    DNew (mkSpec TCap (S"d2") FDef (Some (S"p1")) (Some (TCap, [(S"ram", DInt 8)])));
    DNew (mkSpec TCap (S"d3") FRef (Some (S"p1")) None);
    DAdd [0%nat; 1%nat; 2%nat]; DEncode; DRemove (S"d1"); DSet 1 TCap [(S"ram", DInt 16)]; DGet (S"d2"); DEncode ].

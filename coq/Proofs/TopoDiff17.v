(* C17 (extension) - lemmas about Model/TopoDiff17.v (Topology.diff over flat graph views). *)
From Coq Require Import List NArith Bool.
Import ListNotations.
From FIM Require Import Model.Diff17 Model.TopoDiff17 Proofs.Diff17Lemmas Proofs.Diff17Edits.

Lemma wf_class_nodup l : wf_class l = true -> NoDup (map g_id l).
Proof. apply nodupb_NoDup. Qed.

Lemma gfind_dget k l : gfind k l = dget g_id k l.
Proof. reflexivity. Qed.

Lemma gfind_nodup l n : NoDup (map g_id l) -> In n l -> gfind (g_id n) l = Some n.
Proof. intros. rewrite gfind_dget. now apply dget_nodup. Qed.

Lemma only_in_self l : only_in l l = [].
Proof.
  unfold only_in. apply filter_nil. intros x Hx. apply negb_false_iff.
  unfold memN, gids. apply existsb_exists. exists (g_id x). split; [now apply in_map|apply N.eqb_refl].
Qed.

Lemma graph_diff_only_in a b :
  same_emptiness a b = true -> graph_diff a b = (only_in a b, only_in b a).
Proof.
  unfold same_emptiness, graph_diff, only_in. intros H. apply eqb_prop in H.
  destruct a, b; cbn in *; try discriminate; reflexivity.
Qed.

Lemma graph_diff_swap a b : graph_diff b a = (snd (graph_diff a b), fst (graph_diff a b)).
Proof. unfold graph_diff. rewrite (orb_comm (isnil b)). destruct (isnil a || isnil b); reflexivity. Qed.

Lemma opt_ne_refl x : opt_ne x x = false.
Proof. unfold opt_ne. now rewrite optN_eqb_refl. Qed.

Lemma gflags_self n : is_none (gflags n n) = true.
Proof. unfold gflags, is_none. cbn. now rewrite !opt_ne_refl. Qed.

(* the pairs with equal NodeID: at most one partner when NodeIDs are distinct *)
Lemma inner_none {B} k (P : gnode -> bool) (g : gnode -> B) l :
  (forall y, In y l -> g_id y <> k) ->
  flat_map (fun n1 => if N.eqb k (g_id n1) && P n1 then [g n1] else []) l = [].
Proof.
  intros H. apply flat_map_nil. intros y Hy.
  destruct (N.eqb k (g_id y)) eqn:Q; auto. apply N.eqb_eq in Q. exfalso. apply (H y Hy). auto.
Qed.

Lemma inner_find {B} k (P : gnode -> bool) (g : gnode -> B) l :
  NoDup (map g_id l) ->
  flat_map (fun n1 => if N.eqb k (g_id n1) && P n1 then [g n1] else []) l
  = match gfind k l with Some n1 => if P n1 then [g n1] else [] | None => [] end.
Proof.
  unfold gfind. induction l as [|x l IH]; cbn; intros ND; auto.
  inversion ND as [|? ? Hx ND']; subst.
  rewrite (N.eqb_sym (g_id x) k). destruct (N.eqb k (g_id x)) eqn:Q; cbn.
  - rewrite inner_none.
    + destruct (P x); reflexivity.
    + intros y Hy E. apply N.eqb_eq in Q. apply Hx. rewrite <- Q, <- E. now apply in_map.
  - now apply IH.
Qed.

Lemma graph_modified_exp a b :
  NoDup (map g_id b) -> no_silent_change a b = true -> graph_modified a b = exp_gmod a b.
Proof.
  intros ND H. unfold graph_modified, exp_gmod. apply flat_map_ext_in'. intros n Hn.
  rewrite (inner_find (g_id n) (fun n1 => opt_ne (g_lab n) (g_lab n1)) (fun n1 => (n, gflags n n1))); auto.
  unfold no_silent_change in H. rewrite forallb_forall in H. specialize (H n Hn).
  destruct (gfind (g_id n) b) as [n1|]; auto.
  unfold gflags, is_none in *. cbn.
  destruct (opt_ne (g_lab n) (g_lab n1)); cbn in *; auto.
  apply negb_true_iff in H. now rewrite H.
Qed.

Lemma topo_diff_exact_partial a b :
  wf_topo b = true -> visible_pair a b = true -> topo_diff a b = topo_expected a b.
Proof.
  unfold wf_topo, visible_pair. intros W V.
  repeat (apply andb_true_iff in W; destruct W as [W ?]).
  repeat (apply andb_true_iff in V; destruct V as [V ?]).
  unfold topo_diff, topo_expected. cbv zeta.
  rewrite !graph_diff_only_in by assumption. cbn [fst snd].
  rewrite !graph_modified_exp by (auto using wf_class_nodup). reflexivity.
Qed.

Lemma exclude_nil : exclude_parented [] [] [] [] = mkQuad [] [] [] [].
Proof. reflexivity. Qed.

Lemma graph_diff_self l : graph_diff l l = ([], []).
Proof. unfold graph_diff. destruct (isnil l || isnil l); auto. fold (only_in l l). now rewrite only_in_self. Qed.

Lemma exp_gmod_self l : NoDup (map g_id l) -> exp_gmod l l = [].
Proof.
  intros ND. unfold exp_gmod. apply flat_map_nil. intros n Hn. rewrite gfind_nodup; auto. now rewrite gflags_self.
Qed.

Lemma no_silent_change_self l : NoDup (map g_id l) -> no_silent_change l l = true.
Proof.
  intros ND. unfold no_silent_change. apply forallb_forall. intros n Hn. rewrite gfind_nodup; auto.
  now rewrite !opt_ne_refl.
Qed.

Lemma graph_modified_self l : wf_class l = true -> graph_modified l l = [].
Proof.
  intros W. apply wf_class_nodup in W. rewrite graph_modified_exp; auto using no_silent_change_self, exp_gmod_self.
Qed.

(* an identical copy: nothing added, removed or modified *)
Lemma topo_diff_self t : wf_topo t = true -> tdiff_empty (topo_diff t t) = true.
Proof.
  unfold wf_topo. intros W. repeat (apply andb_true_iff in W; destruct W as [W ?]).
  unfold topo_diff. cbv zeta. rewrite !graph_diff_self. cbn [fst snd]. rewrite exclude_nil.
  rewrite !graph_modified_self by assumption. reflexivity.
Qed.

(* added (old -> new) = removed (new -> old), all four classes at once *)
Lemma topo_antisym a b :
  td_added (topo_diff a b) = td_removed (topo_diff b a) /\ td_removed (topo_diff a b) = td_added (topo_diff b a).
Proof.
  unfold topo_diff. cbv zeta. cbn [td_added td_removed].
  rewrite (graph_diff_swap (t_nodes a) (t_nodes b)), (graph_diff_swap (t_svcs a) (t_svcs b)),
          (graph_diff_swap (t_comps a) (t_comps b)), (graph_diff_swap (t_ifs a) (t_ifs b)).
  cbn [fst snd]. split; reflexivity.
Qed.

(* reading of the specification *)
Lemma only_in_spec a b x : In x (only_in a b) <-> In x a /\ ~ In (g_id x) (map g_id b).
Proof.
  unfold only_in. rewrite filter_In, negb_true_iff, <- not_true_iff_false. unfold memN, gids.
  rewrite existsb_exists. split.
  - intros [H1 H2]. split; auto. intros Hin. apply H2. exists (g_id x). split; auto. apply N.eqb_refl.
  - intros [H1 H2]. split; auto. intros [y [Hy E]]. apply N.eqb_eq in E. subst. auto.
Qed.

Lemma exp_gmod_spec a b x f :
  NoDup (map g_id b) ->
  (In (x, f) (exp_gmod a b) <->
   In x a /\ exists y, In y b /\ g_id y = g_id x /\ f = gflags x y /\ is_none f = false).
Proof.
  intros ND. unfold exp_gmod. rewrite in_flat_map. split.
  - intros [n [Hn H]]. destruct (gfind (g_id n) b) as [y|] eqn:Q; [|destruct H].
    destruct (is_none (gflags n y)) eqn:Z; [destruct H|]. destruct H as [H|[]]. inversion H; subst.
    split; auto. exists y. rewrite gfind_dget in Q. apply dget_some in Q. intuition.
  - intros [Hx [y [Hy [Hn [Hf Hz]]]]]. exists x. split; auto.
    assert (gfind (g_id x) b = Some y) as Q by (rewrite <- Hn; apply gfind_nodup; auto).
    rewrite Q. subst f. rewrite Hz. now left.
Qed.

(* the full statement is false of the modelled method: two witnesses *)
Lemma topo_exact_refuted_silent_change :
  wf_topo wt1_old = true /\ wf_topo wt1_new = true /\ topo_diff wt1_old wt1_new <> topo_expected wt1_old wt1_new /\
  tdiff_empty (topo_diff wt1_old wt1_new) = true /\ tdiff_empty (topo_expected wt1_old wt1_new) = false.
Proof. repeat split; try (vm_compute; reflexivity). vm_compute. discriminate. Qed.

Lemma topo_exact_refuted_last_of_class :
  wf_topo wt2_old = true /\ wf_topo wt2_new = true /\ topo_diff wt2_old wt2_new <> topo_expected wt2_old wt2_new /\
  tdiff_empty (topo_diff wt2_old wt2_new) = true /\ tdiff_empty (topo_expected wt2_old wt2_new) = false.
Proof. repeat split; try (vm_compute; reflexivity). vm_compute. discriminate. Qed.

(* C01 proofs: what serialize_graph puts into the text, in ANY store - also one that holds links between nodes
   of different graph ids (cross-graph links, as merge_nodes leaves them): exactly the graph's own nodes and the
   links with both ends in it. *)
From Coq Require Import String.
From Coq Require Import List NArith ZArith Bool Lia.
From FIM Require Import Base.Str Model.Serial1Text Model.Serial1Graph.
From FIM Require Import Proofs.Serial1Text Proofs.Serial1Doc Proofs.Serial1Store Proofs.Serial1Main.
Import ListNotations.
Open Scope N_scope.

Definition own_nodes (s : store) (gid : str) : list gnode := filter (has_gid gid) (s_nodes s).
Definition own_edges (s : store) (gid : str) : list gedge :=
  filter (fun e : gedge => let '(u, v, _) := e in
                           memN u (map fst (own_nodes s gid)) && memN v (map fst (own_nodes s gid))) (s_edges s).

Lemma extract_some s gid g : extract s gid = Some g ->
  g = {| g_nodes := own_nodes s gid; g_edges := own_edges s gid |}.
Proof.
  unfold extract, own_edges, own_nodes. destruct (filter (has_gid gid) (s_nodes s)) as [|n0 r]; [discriminate|].
  intro H. inversion H. reflexivity.
Qed.

Theorem extract_exact s gid g : extract s gid = Some g ->
  (forall n, In n (g_nodes g) <-> In n (s_nodes s) /\ has_gid gid n = true)
  /\ (forall e, In e (g_edges g) <->
                In e (s_edges s) /\ In (fst (fst e)) (map fst (g_nodes g)) /\ In (snd (fst e)) (map fst (g_nodes g)))
  /\ closed g.
Proof.
  intro H. rewrite (extract_some s gid g H). cbn [g_nodes g_edges].
  assert (EDGE : forall e, In e (own_edges s gid) <->
                 In e (s_edges s) /\ In (fst (fst e)) (map fst (own_nodes s gid))
                 /\ In (snd (fst e)) (map fst (own_nodes s gid))).
  { intros [[u v] ps]. unfold own_edges. rewrite filter_In, andb_true_iff, !memN_In. simpl. tauto. }
  split; [|split].
  - intro n. apply filter_In.
  - exact EDGE.
  - intros e He. cbn [g_nodes g_edges] in *. apply EDGE in He. tauto.
Qed.

(* the text serialize_graph returns denotes exactly that graph *)
Theorem serialize_graph_denotes f s gid g : extract s gid = Some g -> fmt_ok f g = true ->
  exists t, serialize_graph s gid f = Some (Some t) /\ text_graph t = Some g.
Proof.
  intros E OK. destruct (ser_read f g OK) as (t & SE & RD). exists t.
  unfold serialize_graph, text_graph. rewrite E, SE. split; [reflexivity|exact RD].
Qed.

(* an absent graph has no text *)
Theorem serialize_graph_absent f s gid : extract s gid = None -> serialize_graph s gid f = None.
Proof. intro E. unfold serialize_graph. rewrite E. reflexivity. Qed.

(* a refused import (some node without NodeID) under a graph id that is not in use leaves the store exactly as it was
   - in particular nothing exists under the refused id and the id counter is where it was *)
Theorem add_graph_refused s gid g :
  existsb (has_gid gid) (s_nodes s) = false -> graph_shape g = true -> graph_ids_ok g = false ->
  add_graph s gid g = (s, RErrImport).
Proof.
  intros FR SH BAD. destruct (graph_shape_parts g SH) as [ND CL].
  unfold add_graph. rewrite FR, (relabel_spec _ g ND CL).
  assert (E : forallb (fun n => truthy (pget P_NodeID (snd n))) (g_nodes (relabelled (s_next s) g)) = false).
  { unfold graph_ids_ok in BAD. rewrite <- BAD. apply (forallb_snd (fun ps => truthy (pget P_NodeID ps))).
    simpl. apply map_snd_zip_ids. }
  rewrite E. reflexivity.
Qed.

Theorem import_refused ep s t gid g :
  is_direct ep = false -> text_graph t = Some g -> graph_shape g = true -> graph_ids_ok g = false ->
  existsb (has_gid gid) (s_nodes s) = false ->
  import_via ep s t gid = (s, RErrImport).
Proof.
  intros D T SH BAD FR. unfold text_graph in T.
  assert (I : import_string s t gid = (s, RErrImport)).
  { unfold import_string. rewrite T. destruct (nonempty g); [apply add_graph_refused; assumption|reflexivity]. }
  destruct ep; try discriminate; exact I.
Qed.

(* ---------- loading a text into a store that already holds something under the target id ---------- *)
(* whatever the store holds under gid (an older or a modified version of the graph, or nothing): after a re-stamping
   import of a text denoting g under gid, gid holds exactly (a copy of) g *)
Theorem load_restamp_any_store ep s t gid g :
  is_direct ep = false -> store_wf s = true -> text_graph t = Some g ->
  graph_shape g = true -> graph_ids_ok g = true -> g_nodes g <> [] ->
  exists s', import_via ep s t gid = (s', ROk gid)
             /\ extract s' gid = Some (copy_of s gid g)
             /\ content (copy_of s gid g) = content (restamp gid g).
Proof.
  intros D W T SH IDS NE. unfold text_graph in T. destruct (graph_shape_parts g SH) as [ND CL].
  destruct (add_graph_spec s gid g (store_wf_bounded s W) ND CL IDS NE) as (s' & AG & EX).
  exists s'. split; [|split; [exact EX|apply content_copy; assumption]].
  assert (I : import_string s t gid = (s', ROk gid)).
  { unfold import_string. rewrite T, (nonempty_b _ NE). exact AG. }
  destruct ep; try discriminate; exact I.
Qed.

Theorem load_direct_any_store ep s t gid g :
  is_direct ep = true -> store_wf s = true -> text_graph t = Some g ->
  graph_shape g = true -> g_nodes g <> [] -> (forall n, In n (g_nodes g) -> has_gid gid n = true) ->
  forall gid', exists s', import_via ep s t gid' = (s', ROk gid)
             /\ extract s' gid = Some (copy_direct s g)
             /\ content (copy_direct s g) = content g.
Proof.
  intros D W T SH NE HG gid'. unfold text_graph in T. destruct (graph_shape_parts g SH) as [ND CL].
  destruct (add_graph_direct_spec s gid g (store_wf_bounded s W) ND CL HG NE) as (s' & AG & EX).
  exists s'. split; [|split; [exact EX|apply content_relabelled; assumption]].
  assert (I : import_string_direct s t = (s', ROk gid)).
  { unfold import_string_direct. rewrite (get_graph_id_spec t _ _ T NE HG), T, (nonempty_b _ NE). exact AG. }
  destruct ep; try discriminate; exact I.
Qed.

Lemma pset_same k v ps : pget k ps = Some v -> pset k v ps = ps.
Proof.
  induction ps as [|[k' w] r IH]; [discriminate|]. simpl. destruct (N.eqb_spec k' k) as [->|NE].
  - intro H. inversion H. reflexivity.
  - intro H. rewrite IH by exact H. reflexivity.
Qed.

Lemma map_id_on_local {A} (f : A -> A) l : (forall x, In x l -> f x = x) -> map f l = l.
Proof.
  induction l as [|x l IH]; intro H; [reflexivity|]. simpl. rewrite (H x (or_introl eq_refl)), IH; [reflexivity|].
  intros y Hy. apply H. right. exact Hy.
Qed.

Lemma stamp_own gid g : (forall n, In n (g_nodes g) -> has_gid gid n = true) -> stamp gid g = g.
Proof.
  intro HG. unfold stamp. destruct g as [ns es]. simpl in *. f_equal.
  apply map_id_on_local. intros [k ps] Hn. simpl. f_equal. apply pset_same. apply (has_gid_inv gid (k, ps)), HG, Hn.
Qed.

(* RELOAD UNDER THE SAME ID: a stored graph is serialized (a snapshot); then - whatever happened to the stored graph
   in between, [s2] is any store - the snapshot is loaded back under the graph's own id through any entry point:
   afterwards the id holds exactly the snapshot's content *)
Theorem reload_same_id f ep s s2 gid g :
  store_wf s = true -> extract s gid = Some g -> fmt_ok f g = true -> graph_ids_ok g = true -> store_wf s2 = true ->
  exists t, serialize_graph s gid f = Some (Some t)
            /\ forall gid', exists s' g', import_via ep s2 t (if is_direct ep then gid' else gid) = (s', ROk gid)
                                         /\ extract s' gid = Some g' /\ content g' = content g.
Proof.
  intros W E OK IDS W2. destruct (serialize_graph_denotes f s gid g E OK) as (t & SE & TG).
  exists t. split; [exact SE|]. intro gid'.
  destruct (extract_facts _ _ _ E) as [NE HG]. pose proof (fmt_ok_shape f g OK) as SH.
  destruct (is_direct ep) eqn:D.
  - destruct (load_direct_any_store ep s2 t gid g D W2 TG SH NE HG gid') as (s' & A & B & C).
    exists s', (copy_direct s2 g). repeat split; assumption.
  - destruct (load_restamp_any_store ep s2 t gid g D W2 TG SH IDS NE) as (s' & A & B & C).
    exists s', (copy_of s2 gid g). split; [exact A|]. split; [exact B|].
    rewrite C. unfold restamp. rewrite (stamp_own gid g HG). reflexivity.
Qed.

(* C01 proofs: what serialize_graph puts into the text, in ANY store - also one that holds links between nodes
   of different graph ids (cross-graph links, as merge_nodes leaves them): exactly the graph's own nodes and the
   links with both ends in it. *)
From Coq Require Import String.
From Coq Require Import List NArith ZArith Bool Lia.
From FIM Require Import Base.Str Model.Serial1Text Model.Serial1Graph.
From FIM Require Import Proofs.Serial1Text Proofs.Serial1Doc Proofs.Serial1Store Proofs.Serial1Main.
Import ListNotations.
Open Scope N_scope.

Definition own_nodes (s : store) (gid : str) : list gnode := filter (has_gid gid) (s_nodes s).
Definition own_edges (s : store) (gid : str) : list gedge :=
  filter (fun e : gedge => let '(u, v, _) := e in
                           memN u (map fst (own_nodes s gid)) && memN v (map fst (own_nodes s gid))) (s_edges s).

Lemma extract_some s gid g : extract s gid = Some g ->
  g = {| g_nodes := own_nodes s gid; g_edges := own_edges s gid |}.
Proof.
  unfold extract, own_edges, own_nodes. destruct (filter (has_gid gid) (s_nodes s)) as [|n0 r]; [discriminate|].
  intro H. inversion H. reflexivity.
Qed.

Theorem extract_exact s gid g : extract s gid = Some g ->
  (forall n, In n (g_nodes g) <-> In n (s_nodes s) /\ has_gid gid n = true)
  /\ (forall e, In e (g_edges g) <->
                In e (s_edges s) /\ In (fst (fst e)) (map fst (g_nodes g)) /\ In (snd (fst e)) (map fst (g_nodes g)))
  /\ closed g.
Proof.
  intro H. rewrite (extract_some s gid g H). cbn [g_nodes g_edges].
  assert (EDGE : forall e, In e (own_edges s gid) <->
                 In e (s_edges s) /\ In (fst (fst e)) (map fst (own_nodes s gid))
                 /\ In (snd (fst e)) (map fst (own_nodes s gid))).
  { intros [[u v] ps]. unfold own_edges. rewrite filter_In, andb_true_iff, !memN_In. simpl. tauto. }
  split; [|split].
  - intro n. apply filter_In.
  - exact EDGE.
  - intros e He. cbn [g_nodes g_edges] in *. apply EDGE in He. tauto.
Qed.

(* the text serialize_graph returns denotes exactly that graph *)
Theorem serialize_graph_denotes f s gid g : extract s gid = Some g -> fmt_ok f g = true ->
  exists t, serialize_graph s gid f = Some (Some t) /\ text_graph t = Some g.
Proof.
  intros E OK. destruct (ser_read f g OK) as (t & SE & RD). exists t.
  unfold serialize_graph, text_graph. rewrite E, SE. split; [reflexivity|exact RD].
Qed.

(* an absent graph has no text *)
Theorem serialize_graph_absent f s gid : extract s gid = None -> serialize_graph s gid f = None.
Proof. intro E. unfold serialize_graph. rewrite E. reflexivity. Qed.

(* a refused import (some node without NodeID) under a graph id that is not in use leaves the store exactly as it was
   - in particular nothing exists under the refused id and the id counter is where it was *)
Theorem add_graph_refused s gid g :
  existsb (has_gid gid) (s_nodes s) = false -> graph_shape g = true -> graph_ids_ok g = false ->
  add_graph s gid g = (s, RErrImport).
Proof.
  intros FR SH BAD. destruct (graph_shape_parts g SH) as [ND CL].
  unfold add_graph. rewrite FR, (relabel_spec _ g ND CL).
  assert (E : forallb (fun n => truthy (pget P_NodeID (snd n))) (g_nodes (relabelled (s_next s) g)) = false).
  { unfold graph_ids_ok in BAD. rewrite <- BAD. apply (forallb_snd (fun ps => truthy (pget P_NodeID ps))).
    simpl. apply map_snd_zip_ids. }
  rewrite E. reflexivity.
Qed.

Theorem import_refused ep s t gid g :
  is_direct ep = false -> text_graph t = Some g -> graph_shape g = true -> graph_ids_ok g = false ->
  existsb (has_gid gid) (s_nodes s) = false ->
  import_via ep s t gid = (s, RErrImport).
Proof.
  intros D T SH BAD FR. unfold text_graph in T.
  assert (I : import_string s t gid = (s, RErrImport)).
  { unfold import_string. rewrite T. destruct (nonempty g); [apply add_graph_refused; assumption|reflexivity]. }
  destruct ep; try discriminate; exact I.
Qed.

(* C14 - refinement, connections: clone_graph copies the connections of a graph onto the fresh internal ids. *)
From Coq Require Import List NArith Bool Lia.
From FIM Require Import Model.Cbm14Store Model.Cbm14Spec Model.Cbm14Abs Proofs.Cbm14Assoc Proofs.Cbm14Frame
     Proofs.Cbm14RefBase Proofs.Cbm14RefPrep Proofs.Cbm14RefFold Proofs.Cbm14RefMerge Proofs.Cbm14RefUnmerge Proofs.Cbm14RefEdge.
Import ListNotations.
Open Scope N_scope.

(* m is an injective renaming onto ids >= nx *)
Definition renaming (nx : N) (m : list (N * N)) : Prop :=
  (forall i v, lookup m i = Some v -> nx <= v) /\
  (forall i j v, lookup m i = Some v -> lookup m j = Some v -> i = j).

Lemma clone_nodes_renaming new : forall l nx cn m,
  NoDup (map n_int l) -> clone_nodes new nx l = (cn, m) ->
  Forall2 (fun a t => lookup m (n_int a) = Some (n_int t)) l cn /\ renaming nx m /\
  (forall i v, lookup m i = Some v -> In i (map n_int l)).
Proof.
  induction l as [|a r IH]; intros nx cn m ND H; simpl in H.
  - inversion H; subst. split; [constructor|]. split; [split|]; simpl; intros; discriminate.
  - destruct (clone_nodes new (N.succ nx) r) as [cn0 m0] eqn:E. inversion H; subst; clear H.
    simpl in ND. inversion ND as [|? ? NI ND']; subst.
    destruct (IH _ _ _ ND' E) as (F & (R1 & R2) & D).
    split; [|split; [split|]].
    + constructor; [simpl; rewrite N.eqb_refl; reflexivity|].
      eapply Forall2_impl'; [|exact F]. intros x y L. simpl.
      destruct (n_int a =? n_int x) eqn:Q; auto. apply N.eqb_eq in Q.
      exfalso. apply NI. rewrite Q. apply D in L. exact L.
    + intros i v. simpl. destruct (n_int a =? i); [intro X; inversion X; lia|].
      intro X. apply R1 in X. lia.
    + intros i j v. simpl.
      destruct (n_int a =? i) eqn:Qi, (n_int a =? j) eqn:Qj; intros X Y.
      * apply N.eqb_eq in Qi, Qj. congruence.
      * inversion X; subst. apply R1 in Y. lia.
      * inversion Y; subst. apply R1 in X. lia.
      * eapply R2; eauto.
    + intros i v. simpl. destruct (n_int a =? i) eqn:Q; [apply N.eqb_eq in Q; auto|]. intro X. right. eapply D; eauto.
Qed.

Lemma edat_below nx es i j : ebelow nx es -> nx <= i -> edat es i j = None.
Proof.
  intros B L. unfold edat. destruct (find (joins i j) es) as [e|] eqn:F; auto.
  apply find_some in F as [F1 F2]. destruct (B e F1) as [X Y].
  unfold joins in F2. apply orb_true_iff in F2. rewrite !andb_true_iff, !N.eqb_eq in F2. lia.
Qed.

Lemma renaming_eqb nx m x y x' y' :
  renaming nx m -> lookup m x = Some x' -> lookup m y = Some y' -> (x' =? y') = (x =? y).
Proof.
  intros (_ & INJ) Lx Ly. destruct (N.eqb_spec x y) as [E|E].
  - subst. rewrite Lx in Ly. inversion Ly. apply N.eqb_refl.
  - apply N.eqb_neq. intro E'. subst. apply E. eapply INJ; eauto.
Qed.

(* the copied connections, seen through the renaming *)
Lemma clone_edges_edat nx m es i j i' j' :
  renaming nx m -> lookup m i = Some i' -> lookup m j = Some j' ->
  edat (clone_edges m es) i' j' = edat es i j.
Proof.
  intros RN Li Lj. unfold edat, clone_edges. induction es as [|e r IH]; simpl; auto.
  destruct (lookup m (e_a e)) as [a'|] eqn:La, (lookup m (e_b e)) as [b'|] eqn:Lb; simpl.
  - rewrite joins_mk.
    assert (pairb a' b' i' j' = joins i j e) as ->.
    { unfold pairb, joins.
      rewrite (renaming_eqb nx m i (e_a e) i' a' RN Li La), (renaming_eqb nx m j (e_b e) j' b' RN Lj Lb),
              (renaming_eqb nx m i (e_b e) i' b' RN Li Lb), (renaming_eqb nx m j (e_a e) j' a' RN Lj La).
      rewrite (N.eqb_sym i (e_a e)), (N.eqb_sym j (e_b e)), (N.eqb_sym i (e_b e)), (N.eqb_sym j (e_a e)).
      rewrite (andb_comm (e_b e =? i) (e_a e =? j)). reflexivity. }
    destruct (joins i j e); simpl; auto.
  - assert (joins i j e = false) as ->; auto.
    unfold joins. destruct (N.eqb_spec (e_a e) i), (N.eqb_spec (e_b e) j), (N.eqb_spec (e_a e) j), (N.eqb_spec (e_b e) i);
      simpl; auto; congruence.
  - assert (joins i j e = false) as ->; auto.
    unfold joins. destruct (N.eqb_spec (e_a e) i), (N.eqb_spec (e_b e) j), (N.eqb_spec (e_a e) j), (N.eqb_spec (e_b e) i);
      simpl; auto; congruence.
  - assert (joins i j e = false) as ->; auto.
    unfold joins. destruct (N.eqb_spec (e_a e) i), (N.eqb_spec (e_b e) j), (N.eqb_spec (e_a e) j), (N.eqb_spec (e_b e) i);
      simpl; auto; congruence.
Qed.

Lemma clone_edges_old nx m es i j : renaming nx m -> i < nx -> edat (clone_edges m es) i j = None.
Proof.
  intros (GE & _) L. unfold edat. destruct (find (joins i j) (clone_edges m es)) as [e|] eqn:F; auto.
  apply find_some in F as [F1 F2]. unfold clone_edges in F1. apply in_flat_map in F1 as (e0 & _ & F1).
  destruct (lookup m (e_a e0)) as [a'|] eqn:La; [|destruct F1].
  destruct (lookup m (e_b e0)) as [b'|] eqn:Lb; [|destruct F1].
  destruct F1 as [F1|[]]. subst e. apply GE in La. apply GE in Lb.
  rewrite joins_mk in F2. unfold pairb in F2. apply orb_true_iff in F2. rewrite !andb_true_iff, !N.eqb_eq in F2. lia.
Qed.

Lemma clone_edges_ebelow nx len m es :
  (forall i v, lookup m i = Some v -> v < nx + len) -> ebelow nx es -> ebelow (nx + len) (es ++ clone_edges m es).
Proof.
  intros V B e He. apply in_app_iff in He as [He|He]; [destruct (B e He); lia|].
  unfold clone_edges in He. apply in_flat_map in He as (e0 & _ & He).
  destruct (lookup m (e_a e0)) as [a'|] eqn:La; [|destruct He].
  destruct (lookup m (e_b e0)) as [b'|] eqn:Lb; [|destruct He].
  destruct He as [He|[]]. subst e. simpl. split; eapply V; eauto.
Qed.

(* C14 - refinement, node part: snapshot and rollback on the store model. *)
From Coq Require Import List NArith Bool Lia.
From FIM Require Import Model.Cbm14Store Model.Cbm14Spec Model.Cbm14Abs Proofs.Cbm14Assoc Proofs.Cbm14Frame
     Proofs.Cbm14RefBase Proofs.Cbm14RefPrep Proofs.Cbm14RefFold Proofs.Cbm14RefMerge Proofs.Cbm14RefUnmerge.
Import ListNotations.
Open Scope N_scope.

Lemma copy_keys new l cn : Forall2 (copy_of new) l cn -> NoDup (map n_nid l) -> NoDup (map key cn).
Proof.
  induction 1 as [|a0 t0 l l' R0 IM IH]; simpl; intro NN; [constructor|].
  inversion NN as [|? ? NI ND]; subst. constructor; auto.
  intro X. apply NI. apply in_map_iff in X as (t & Et & Ht).
  destruct (Forall2_in_r _ _ _ _ IM Ht) as (a & Ha & Ia).
  destruct R0 as (G1 & G2 & _). destruct Ia as (G1' & G2' & _).
  unfold key in Et. injection Et as Q1 Q2. assert (n_nid a = n_nid a0) as Q by congruence.
  rewrite <- Q. apply in_map. exact Ha.
Qed.

Lemma clone_spec g new st :
  J (s_next st) (s_nodes st) -> gexists new st = false ->
  exists cn, s_nodes (clone g new st) = s_nodes st ++ cn /\
             Forall2 (copy_of new) (of_gid g st) cn /\
             J (s_next (clone g new st)) (s_nodes st ++ cn).
Proof.
  intros (U & B & K) FR. pose proof (notmp_of_fresh new st FR) as NT.
  unfold clone. destruct (clone_nodes new (s_next st) (of_gid g st)) as [cn m] eqn:E.
  pose proof (clone_nodes_copy _ _ _ _ _ E) as CP.
  destruct (clone_nodes_spec _ _ _ _ _ E) as (S1 & S2 & _).
  exists cn. simpl. split; auto. split; auto. split; [|split].
  - unfold uniq. rewrite map_app. apply NoDup_app'; auto.
    intros x Hx Hy. apply in_map_iff in Hx as (n & En & Hn). apply in_map_iff in Hy as (n' & En' & Hn').
    specialize (B n Hn). destruct (S1 n' Hn') as (_ & ? & _). lia.
  - intros n Hn. apply in_app_iff in Hn as [Hn|Hn]; [specialize (B n Hn); lia|].
    destruct (S1 n Hn) as (_ & _ & ?). exact H.
  - unfold ukeys. rewrite map_app. apply NoDup_app'; auto.
    + apply (copy_keys new _ _ CP). apply (ukeys_nids g). exact K.
    + intros x Hx Hy. apply in_map_iff in Hx as (n & En & Hn). apply in_map_iff in Hy as (t & Et & Ht).
      apply (NT n Hn). destruct (S1 t Ht) as (G & _). unfold key in *. rewrite <- En in Et. inversion Et. congruence.
Qed.

Lemma find_copy new k l cn :
  Forall2 (copy_of new) l cn ->
  match find (fun n => n_nid n =? k) l with
  | Some a => exists t, find (fun n => n_nid n =? k) cn = Some t /\ copy_of new a t
  | None => find (fun n => n_nid n =? k) cn = None
  end.
Proof.
  induction 1 as [|a t l tn R F IH]; simpl; auto.
  assert (n_nid t = n_nid a) as E by apply R. rewrite E.
  destruct (n_nid a =? k); eauto.
Qed.

Lemma copy_abs new a t : copy_of new a t ->
  absn t = absn a /\ wf_cnode t = wf_cnode a /\ abs_con (n_si t) = abs_con (n_si a).
Proof.
  intros (_ & _ & C & O & S & L & D). unfold absn, wf_cnode. rewrite C, O, S, L, D. auto.
Qed.

Theorem snapshot_refines_nodes cbm new st :
  J (s_next st) (s_nodes st) -> gexists cbm st = true -> gexists new st = false ->
  exists st', snapshot cbm new st = OOk st' /\
    (forall k, getn k (abs_nodes new st') = getn k (abs_nodes cbm st)) /\
    (forall h k, h <> new -> at_ h k (s_nodes st') = at_ h k (s_nodes st)) /\
    J (s_next st') (s_nodes st') /\
    (cbm_ok cbm (s_nodes st) -> cbm_ok new (s_nodes st')).
Proof.
  intros Jst GE FR. unfold snapshot. rewrite GE. cbn [negb]. eexists. split; [reflexivity|].
  destruct (clone_spec cbm new st Jst FR) as (cn & E & CP & J2). rewrite E.
  pose proof (notmp_of_fresh new st FR) as NT.
  assert (forall n, In n cn -> n_gid n = new) as CN.
  { intros n Hn. destruct (Forall2_in_r _ _ _ _ CP Hn) as (a & _ & R). apply R. }
  assert (forall k, at_ new k (s_nodes st ++ cn) = find (fun n => n_nid n =? k) cn) as AN.
  { intro k. rewrite at_app, (at_other_gid new k (s_nodes st) NT). apply at_all_gid. exact CN. }
  split; [|split; [|split]].
  - intro k. rewrite !getn_abs, E, AN, at_gnodes.
    pose proof (find_copy new k _ _ CP) as FC. unfold of_gid in FC. fold (gnodes cbm (s_nodes st)) in FC.
    destruct (find (fun n => n_nid n =? k) (gnodes cbm (s_nodes st))) as [a|].
    + destruct FC as (t & -> & R). simpl. rewrite (proj1 (copy_abs new a t R)). reflexivity.
    + rewrite FC. reflexivity.
  - intros h k NH. rewrite at_app. destruct (at_ h k (s_nodes st)); auto.
    apply at_other_gid. intros n Hn. rewrite (CN n Hn). auto.
  - exact J2.
  - intros W n Hn Gn. apply in_app_iff in Hn as [Hn|Hn]; [exfalso; apply (NT n Hn Gn)|].
    destruct (Forall2_in_r _ _ _ _ CP Hn) as (a & Ha & R).
    destruct (copy_abs new a n R) as (_ & E1 & E2). unfold con_ok. rewrite E1, E2.
    unfold of_gid in Ha. apply filter_In in Ha as [Ha Ga]. apply N.eqb_eq in Ga. apply (W a Ha Ga).
Qed.

(* ---------- rollback ---------- *)
Lemma delete_graph_nodes g st :
  uniq (s_nodes st) ->
  s_nodes (delete_graph g st) = filter (fun n => negb (n_gid n =? g)) (s_nodes st) /\
  s_next (delete_graph g st) = s_next st.
Proof.
  intro U. unfold delete_graph.
  assert (fold_left (fun s n => delete_node (n_int n) s) (of_gid g st) st =
          fold_left (fun s i => delete_node i s) (map n_int (of_gid g st)) st) as ->.
  { generalize st at 2 4. induction (of_gid g st) as [|n r IH]; simpl; auto. }
  destruct (fold_delete_nodes (map n_int (of_gid g st)) st) as [-> ->]. split; auto.
  apply filter_ext_in. intros n Hn. f_equal.
  destruct (n_gid n =? g) eqn:G.
  - apply memN_In. apply in_map. unfold of_gid. apply filter_In. auto.
  - apply memN_false. intro X. apply in_map_iff in X as (m & E & Hm). unfold of_gid in Hm.
    apply filter_In in Hm as [Hm Gm]. assert (m = n) by (apply (uniq_inj (s_nodes st)); auto). subst.
    congruence.
Qed.

Lemma at_filter_gid g h k ns :
  at_ h k (filter (fun n => negb (n_gid n =? g)) ns) = if h =? g then None else at_ h k ns.
Proof.
  unfold at_. induction ns as [|m r IH]; simpl; [destruct (h =? g); auto|].
  destruct (n_gid m =? g) eqn:G; simpl.
  - rewrite IH. destruct (h =? g) eqn:H; auto.
    apply N.eqb_eq in G. apply N.eqb_neq in H. assert (n_gid m =? h = false) as -> by (apply N.eqb_neq; congruence).
    reflexivity.
  - rewrite IH. destruct (h =? g) eqn:H; auto.
    apply N.eqb_eq in H. subst. rewrite G. reflexivity.
Qed.

Lemma at_gexists g k st n : at_ g k (s_nodes st) = Some n -> gexists g st = true.
Proof.
  intro A. apply at_In in A as (Hn & G & _). unfold gexists. apply existsb_exists. exists n. split; auto.
  apply N.eqb_eq. exact G.
Qed.

Theorem rollback_refines_nodes cbm sid st :
  J (s_next st) (s_nodes st) -> sid <> cbm -> gexists sid st = true ->
  exists st', rollback cbm sid st = OOk st' /\
    (forall k, getn k (abs_nodes cbm st') = getn k (abs_nodes sid st)) /\
    (forall h k, h <> cbm -> h <> sid -> at_ h k (s_nodes st') = at_ h k (s_nodes st)) /\
    (forall k, at_ sid k (s_nodes st') = None) /\
    J (s_next st') (s_nodes st') /\
    (cbm_ok sid (s_nodes st) -> cbm_ok cbm (s_nodes st')).
Proof.
  intros (U & B & K) NE GE.
  destruct (delete_graph_nodes cbm st U) as [EN EX].
  set (D := filter (fun n => negb (n_gid n =? cbm)) (s_nodes st)) in *.
  assert (J (s_next st) D) as JD.
  { unfold D. split; [|split].
    - unfold uniq. apply NoDup_map_filter. exact U.
    - intros n Hn. apply filter_In in Hn as [Hn _]. auto.
    - unfold ukeys. apply NoDup_map_filter. exact K. }
  assert (forall k, at_ cbm k D = None) as DC by (intro k; unfold D; rewrite at_filter_gid, N.eqb_refl; reflexivity).
  assert (forall h k, h <> cbm -> at_ h k D = at_ h k (s_nodes st)) as DO.
  { intros h k NH. unfold D. rewrite at_filter_gid. apply N.eqb_neq in NH. rewrite NH. reflexivity. }
  assert (gexists sid (delete_graph cbm st) = true) as GE'.
  { destruct (gexists_at sid st GE) as (k & n & A). apply (at_gexists sid k _ n). rewrite EN, DO; auto. }
  unfold rollback. rewrite (rollback_gen_live _ cbm sid st GE GE'). unfold rehome. rewrite GE'. eexists. split; [reflexivity|].
  assert (s_nodes (map_gid sid (set_gid cbm) (delete_graph cbm st)) = map (rh cbm sid) D) as ES
    by (unfold map_gid; simpl; rewrite EN; reflexivity).
  assert (cbm <> sid) as NE' by auto.
  split; [|split; [|split; [|split]]].
  - intro k. rewrite !getn_abs, ES, (rh_at_cbm_new cbm sid k D NE' (DC k)), DO; auto.
    destruct (at_ sid k (s_nodes st)); reflexivity.
  - intros h k H1 H2. rewrite ES, rh_at_other; auto.
  - intro k. rewrite ES. apply rh_at_tmp. auto.
  - rewrite ES. simpl s_next. rewrite EX. apply rh_J; auto.
  - intros W n Hn Gn. rewrite ES in Hn. apply in_map_iff in Hn as (m & E & Hm). subst n.
    unfold rh in *. destruct (n_gid m =? sid) eqn:T.
    + apply N.eqb_eq in T. unfold D in Hm. apply filter_In in Hm as [Hm _].
      destruct (W m Hm T) as [W1 W2]. split; auto.
    + exfalso. unfold D in Hm. apply filter_In in Hm as [_ X]. apply negb_true_iff in X. apply N.eqb_neq in X. contradiction.
Qed.

(* C12 proofs, part 2: pools -> by-delegation index -> per-node delegations (shape, conflict rejection). *)
From Coq Require Import List ZArith NArith Bool Lia Permutation String.
From FIM Require Import Base.Str Gen.DelegGen Model.Deleg12 Model.Pools12 Proofs.Deleg12Enc.
Import ListNotations.

(* ---------------------------------------------------------------------------------------------- *)
(* helpers                                                                                          *)
(* ---------------------------------------------------------------------------------------------- *)
Lemma Permutation_filter {A} (f : A -> bool) l l' : Permutation l l' -> Permutation (filter f l) (filter f l').
Proof.
  induction 1; simpl.
  - constructor.
  - destruct (f x); [constructor|]; assumption.
  - destruct (f x), (f y); try constructor; try apply Permutation_refl.
  - eapply Permutation_trans; eassumption.
Qed.

Lemma perm_flat_map {A B} (g : A -> list B) l l' : Permutation l l' -> Permutation (flat_map g l) (flat_map g l').
Proof. intro H. apply Permutation_flat_map. exact H. Qed.

Lemma perm_Forall {A} (P : A -> Prop) l l' : Permutation l l' -> Forall P l -> Forall P l'.
Proof. intros H F. eapply Permutation_Forall; eassumption. Qed.

Lemma perm_snoc {A} (l : list A) x : Permutation (l ++ [x]) (x :: l).
Proof. apply Permutation_sym. apply Permutation_cons_append. Qed.

Lemma key_dec (a b : str * str) : {a = b} + {a <> b}.
Proof. decide equality; apply str_dec. Qed.

Lemma lookup_None {A} k (l : list (str * A)) : lookup k l = None <-> ~ In k (map fst l).
Proof.
  induction l as [|[k' v] r IH]; simpl.
  - tauto.
  - destruct (str_eqb k' k) eqn:E.
    + apply str_eqb_eq in E. subst. split; [discriminate|]. intro H. exfalso. apply H. left. reflexivity.
    + apply str_eqb_false in E. rewrite IH. tauto.
Qed.

Lemma lookup_Some_In {A} k (l : list (str * A)) v : lookup k l = Some v -> In (k, v) l.
Proof.
  induction l as [|[k' v'] r IH]; simpl; [discriminate|].
  destruct (str_eqb k' k) eqn:E.
  - apply str_eqb_eq in E. subst. intro H. injection H as <-. left. reflexivity.
  - intro H. right. apply IH. exact H.
Qed.

Lemma pair_eqb_eq a b : pair_eqb a b = true <-> a = b.
Proof.
  destruct a as [a1 a2], b as [b1 b2]. unfold pair_eqb. simpl. rewrite andb_true_iff, !str_eqb_eq.
  split; [intros [-> ->]; reflexivity|intro H; injection H as -> ->; tauto].
Qed.

Lemma pair_mem_In k l : pair_mem k l = true <-> In k l.
Proof.
  induction l as [|x l IH]; simpl.
  - split; [discriminate|tauto].
  - rewrite orb_true_iff, IH, pair_eqb_eq. tauto.
Qed.

Lemma pair_nodup_NoDup l : pair_nodup l = true <-> NoDup l.
Proof.
  induction l as [|x l IH]; simpl.
  - split; [constructor|reflexivity].
  - rewrite andb_true_iff, negb_true_iff, IH. split.
    + intros [A B]. constructor; [|assumption]. rewrite <- pair_mem_In. rewrite A. discriminate.
    + intros H. inversion H; subst. split; [|assumption].
      apply not_true_iff_false. rewrite pair_mem_In. assumption.
Qed.

(* ---------------------------------------------------------------------------------------------- *)
(* the by-delegation index lists every pool once, under its own delegation id                       *)
(* ---------------------------------------------------------------------------------------------- *)
Definition idx_consistent (idx : index) : Prop :=
  Forall (fun e => Forall (fun p => p_deleg p = Some (fst e)) (snd e)) idx.

Lemma group_add_perm {A} k (x : A) m : Permutation (flat_map snd (group_add k x m)) (flat_map snd m ++ [x]).
Proof.
  induction m as [|[k' xs] r IH]; simpl.
  - apply Permutation_refl.
  - destruct (str_eqb k' k); simpl.
    + rewrite <- !app_assoc. apply Permutation_app_head.
      eapply Permutation_trans; [|apply Permutation_app_comm]. simpl.
      apply Permutation_refl.
    + rewrite <- app_assoc. apply Permutation_app_head. exact IH.
Qed.

Lemma group_add_consistent did p idx : p_deleg p = Some did -> idx_consistent idx ->
  idx_consistent (group_add did p idx).
Proof.
  intros Hp. induction idx as [|[k xs] r IH]; intro C; simpl.
  - constructor; [|constructor]. simpl. constructor; [exact Hp|constructor].
  - inversion C as [|? ? Ch Cr]; subst. destruct (str_eqb k did) eqn:E.
    + apply str_eqb_eq in E. subst. constructor; [|exact Cr]. simpl in *.
      apply Forall_app. split; [exact Ch|constructor; [exact Hp|constructor]].
    + constructor; [exact Ch|]. apply IH. exact Cr.
Qed.

Lemma validate_ok_inv p : validate_pool p = None ->
  exists did on x, p_deleg p = Some did /\ p_on p = Some on /\ p_details p = Some x /\ p_for p <> [].
Proof.
  unfold validate_pool. destruct (p_deleg p) as [did|], (p_on p) as [on|], (p_for p) as [|n r], (p_details p) as [x|];
    intro H; try discriminate. exists did, on, x. repeat split; discriminate.
Qed.

Lemma build_index_from_ok l : forall idx0, Forall (fun p => validate_pool p = None) l -> idx_consistent idx0 ->
  exists idx, build_index_from l idx0 = Ok idx /\ idx_consistent idx /\
              Permutation (flat_map snd idx) (flat_map snd idx0 ++ l).
Proof.
  induction l as [|p r IH]; intros idx0 V C.
  - exists idx0. rewrite app_nil_r. repeat split; [exact C|apply Permutation_refl].
  - inversion V as [|? ? Vp Vr]; subst. simpl. rewrite Vp.
    destruct (validate_ok_inv p Vp) as (did & on & x & Hd & _). rewrite Hd.
    destruct (IH (group_add did p idx0) Vr (group_add_consistent did p idx0 Hd C)) as (idx & E & C' & P).
    exists idx. repeat split; [exact E|exact C'|].
    eapply Permutation_trans; [exact P|].
    eapply Permutation_trans; [apply Permutation_app_tail; apply group_add_perm|].
    rewrite <- app_assoc. apply Permutation_refl.
Qed.

Lemma build_index_ok P : Forall (fun p => validate_pool p = None) P ->
  exists idx, build_index P = Ok idx /\ idx_consistent idx /\ Permutation (flat_map snd idx) P.
Proof.
  intro V. destruct (build_index_from_ok P [] V) as (idx & E & C & Pm); [constructor|].
  exists idx. repeat split; assumption.
Qed.

(* an incomplete pool anywhere in the registry: the index is refused *)
Lemma build_index_from_err l : forall idx0, (exists p, In p l /\ validate_pool p <> None) ->
  build_index_from l idx0 = Err EPool.
Proof.
  induction l as [|p r IH]; intros idx0 [q [Hq Vq]]; [contradiction|].
  simpl. destruct (validate_pool p) as [e|] eqn:Vp.
  - unfold validate_pool in Vp.
    destruct (p_deleg p), (p_on p), (p_for p), (p_details p); try discriminate; injection Vp as <-; reflexivity.
  - destruct (validate_ok_inv p Vp) as (did & on & x & Hd & _). rewrite Hd.
    apply IH. destruct Hq as [->|Hq]; [contradiction|]. exists q. tauto.
Qed.

Lemma build_index_inv_valid l : forall idx0 idx, build_index_from l idx0 = Ok idx ->
  Forall (fun p => validate_pool p = None) l.
Proof.
  induction l as [|p r IH]; intros idx0 idx H; [constructor|].
  simpl in H. destruct (validate_pool p) as [e|] eqn:Vp; [discriminate|].
  destruct (p_deleg p) as [did|]; [|discriminate]. constructor; [exact Vp|]. eapply IH. exact H.
Qed.

(* ---------------------------------------------------------------------------------------------- *)
(* generate: flat form                                                                              *)
(* ---------------------------------------------------------------------------------------------- *)
Definition ev_key (e : str * deleg) : str * str := (fst e, d_id (snd e)).

Lemma gen_events_app ty g a b :
  gen_events ty g (a ++ b) = bind (gen_events ty g a) (fun g' => gen_events ty g' b).
Proof.
  revert g. induction a as [|[n d] r IH]; intro g; simpl; [reflexivity|].
  destruct (gen_add ty g n d); simpl; [apply IH|reflexivity].
Qed.

(* the events of a pool as generate creates them, when its details are of the right class *)
Definition pool_ready (ty : dtype) (p : pool) : Prop :=
  exists on x, p_on p = Some on /\ p_details p = Some x /\ det_kind x = ty /\ str_eqb (p_id p) single_pool_name = false.

Lemma pool_events_ready ty did p : pool_ready ty p -> p_deleg p = Some did ->
  pool_events ty did p = Ok (pool_evs ty p).
Proof.
  intros (on & x & Ho & Hx & K & NR) Hd. unfold pool_events, pool_evs. cbn [new_deleg]. rewrite NR. cbn [bind].
  rewrite Hx, Ho, Hd.
  unfold set_details. cbn [d_fmt d_type d_id d_pool]. rewrite K, dtype_eqb_refl. reflexivity.
Qed.

Lemma pool_events_foreign ty did p x : p_details p = Some x -> det_kind x <> ty ->
  pool_events ty did p = Err EDelegation.
Proof.
  intros Hx K. unfold pool_events. cbn [new_deleg]. destruct (str_eqb (p_id p) single_pool_name); [reflexivity|].
  cbn [bind]. rewrite Hx. unfold set_details. cbn [d_fmt d_type].
  destruct (dtype_eqb (det_kind x) ty) eqn:E; [apply dtype_eqb_eq in E; contradiction|reflexivity].
Qed.

(* a pool named SINGLE_POOL_NAME cannot be written as a definition: generate refuses it loudly *)
Lemma pool_events_reserved ty did p : p_id p = single_pool_name -> pool_events ty did p = Err EDelegation.
Proof. intro H. unfold pool_events. cbn [new_deleg]. rewrite H, str_eqb_refl. reflexivity. Qed.

Lemma gen_pools_flat ty did ps : forall g, Forall (pool_ready ty) ps -> Forall (fun p => p_deleg p = Some did) ps ->
  gen_pools ty did g ps = gen_events ty g (flat_map (pool_evs ty) ps).
Proof.
  induction ps as [|p r IH]; intros g R D; [reflexivity|].
  inversion R; inversion D; subst. cbn [gen_pools flat_map].
  rewrite (pool_events_ready ty did p); [|assumption|assumption]. cbn [bind].
  rewrite gen_events_app. destruct (gen_events ty g (pool_evs ty p)); cbn [bind]; [apply IH; assumption|reflexivity].
Qed.

Lemma gen_index_flat ty idx : forall g, Forall (fun e => Forall (pool_ready ty) (snd e)) idx -> idx_consistent idx ->
  gen_index ty g idx = gen_events ty g (flat_map (pool_evs ty) (flat_map snd idx)).
Proof.
  induction idx as [|[did ps] r IH]; intros g R C; [reflexivity|].
  inversion R; inversion C; subst. cbn [gen_index flat_map snd]. rewrite flat_map_app, gen_events_app.
  rewrite gen_pools_flat; [|assumption|assumption].
  destruct (gen_events ty g (flat_map (pool_evs ty) ps)); cbn [bind]; [apply IH; assumption|reflexivity].
Qed.

(* ---------------------------------------------------------------------------------------------- *)
(* gen_events: invariant, success, conflict                                                         *)
(* ---------------------------------------------------------------------------------------------- *)
Definition g_inv (ty : dtype) (g : gmap) : Prop :=
  NoDup (map fst g) /\ Forall (fun nd => ds_type (snd nd) = ty) g.

Lemma flatten_app g1 g2 : flatten_g (g1 ++ g2) = flatten_g g1 ++ flatten_g g2.
Proof. unfold flatten_g. apply flat_map_app. Qed.

Lemma replace_at_keys n ds g : map fst (replace_at n ds g) = map fst g.
Proof.
  induction g as [|[k x] r IH]; simpl; [reflexivity|].
  destruct (str_eqb k n) eqn:E; simpl; [|rewrite IH; reflexivity]. reflexivity.
Qed.

Lemma replace_at_flat n ds d g : lookup n g = Some ds ->
  Permutation (flatten_g (replace_at n (mkDs (ds_type ds) (ds_items ds ++ [d])) g)) (flatten_g g ++ [(n, d)]).
Proof.
  induction g as [|[k x] r IH]; simpl; [discriminate|].
  destruct (str_eqb k n) eqn:E.
  - apply str_eqb_eq in E. subst. intro H. injection H as ->. unfold flatten_g. simpl.
    rewrite map_app. simpl. rewrite <- !app_assoc. apply Permutation_app_head.
    simpl. eapply Permutation_trans; [|apply Permutation_app_comm]. apply Permutation_refl.
  - intro H. unfold flatten_g in *. simpl. rewrite <- app_assoc. apply Permutation_app_head. apply IH. exact H.
Qed.

Lemma replace_at_types ty n ds g : ds_type ds = ty -> Forall (fun nd => ds_type (snd nd) = ty) g ->
  Forall (fun nd => ds_type (snd nd) = ty) (replace_at n ds g).
Proof.
  intros T. induction g as [|[k x] r IH]; intro F; simpl; [constructor|].
  inversion F as [|? ? Fh Ft]. destruct (str_eqb k n); constructor; simpl; auto.
Qed.

(* all delegations of node n are in the entry lookup finds *)
Lemma flatten_keys_node g n ds : NoDup (map fst g) -> lookup n g = Some ds ->
  forall id, In (n, id) (map ev_key (flatten_g g)) <-> In id (map d_id (ds_items ds)).
Proof.
  induction g as [|[k x] r IH]; simpl; [discriminate|].
  intros ND H id. inversion ND as [|? ? NI ND']; subst.
  unfold flatten_g. simpl. rewrite map_app, in_app_iff.
  destruct (str_eqb k n) eqn:E.
  - apply str_eqb_eq in E. subst. injection H as ->.
    split.
    + intros [H|H].
      * rewrite map_map in H. apply in_map_iff in H as (d & Hk & Hd). unfold ev_key in Hk. simpl in Hk.
        injection Hk as <-. apply in_map. exact Hd.
      * exfalso. apply NI. apply in_map_iff in H as ([n' d'] & Hk & Hd). unfold ev_key in Hk. simpl in Hk.
        injection Hk as -> <-. apply in_flat_map in Hd as ([n2 ds2] & Hin & Hd). simpl in Hd.
        apply in_map_iff in Hd as (d2 & Heq & _). injection Heq as -> _.
        apply in_map_iff. exists (n, ds2). split; [reflexivity|exact Hin].
    + intro H. left. rewrite map_map. apply in_map_iff in H as (d & <- & Hd). apply in_map_iff. exists d.
      split; [reflexivity|exact Hd].
  - apply str_eqb_false in E. rewrite <- (IH ND' H id). unfold flatten_g. split.
    + intros [H1|H1]; [|exact H1]. exfalso. rewrite map_map in H1. apply in_map_iff in H1 as (d & Hk & _).
      unfold ev_key in Hk. simpl in Hk. injection Hk as -> _. apply E. reflexivity.
    + intro H1. right. exact H1.
Qed.

Lemma flatten_keys_absent g n : lookup n g = None -> forall id, ~ In (n, id) (map ev_key (flatten_g g)).
Proof.
  intros H id HI. apply lookup_None in H. apply H.
  apply in_map_iff in HI as ([n' d'] & Hk & Hd). unfold ev_key in Hk. simpl in Hk. injection Hk as -> _.
  unfold flatten_g in Hd. apply in_flat_map in Hd as ([n2 ds2] & Hin & Hd). simpl in Hd.
  apply in_map_iff in Hd as (d2 & Heq & _). injection Heq as -> _.
  apply in_map_iff. exists (n, ds2). split; [reflexivity|exact Hin].
Qed.

Lemma gen_add_ok ty g n d : g_inv ty g -> d_type d = ty -> ~ In (n, d_id d) (map ev_key (flatten_g g)) ->
  exists g', gen_add ty g n d = Ok g' /\ g_inv ty g' /\ Permutation (flatten_g g') (flatten_g g ++ [(n, d)]).
Proof.
  intros [ND TY] T NI. unfold gen_add. destruct (lookup n g) as [ds|] eqn:L.
  - assert (Tds : ds_type ds = ty).
    { apply lookup_Some_In in L. rewrite Forall_forall in TY. apply (TY (n, ds) L). }
    assert (NI' : ~ In (d_id d) (map d_id (ds_items ds))).
    { intro H. apply NI. apply (flatten_keys_node g n ds ND L). exact H. }
    rewrite (add_accepts ds d); [|congruence|exact NI']. cbn [bind].
    eexists. split; [reflexivity|]. split; [split|].
    + rewrite replace_at_keys. exact ND.
    + apply replace_at_types; [cbn; exact Tds|exact TY].
    + apply replace_at_flat. exact L.
  - rewrite (add_accepts (mkDs ty []) d); [|exact T|simpl; tauto]. cbn [bind ds_type ds_items app].
    eexists. split; [reflexivity|]. split; [split|].
    + rewrite map_app. simpl. apply NoDup_snoc; [exact ND|]. apply lookup_None. exact L.
    + apply Forall_app. split; [exact TY|]. constructor; [reflexivity|constructor].
    + rewrite flatten_app. unfold flatten_g at 2. simpl. apply Permutation_refl.
Qed.

Lemma gen_add_conflict ty g n d : g_inv ty g -> d_type d = ty -> In (n, d_id d) (map ev_key (flatten_g g)) ->
  gen_add ty g n d = Err EDelegation.
Proof.
  intros [ND TY] T HI. unfold gen_add. destruct (lookup n g) as [ds|] eqn:L.
  - assert (Tds : ds_type ds = ty).
    { apply lookup_Some_In in L. rewrite Forall_forall in TY. apply (TY (n, ds) L). }
    rewrite (rejects_duplicate ds d); [reflexivity|congruence|].
    apply (flatten_keys_node g n ds ND L). exact HI.
  - exfalso. eapply flatten_keys_absent; eassumption.
Qed.

Lemma gen_events_ok ty E : forall g, g_inv ty g -> Forall (fun e => d_type (snd e) = ty) E ->
  NoDup (map ev_key (flatten_g g ++ E)) ->
  exists g', gen_events ty g E = Ok g' /\ g_inv ty g' /\ Permutation (flatten_g g') (flatten_g g ++ E).
Proof.
  induction E as [|[n d] r IH]; intros g I T ND.
  - exists g. rewrite app_nil_r. repeat split; try apply I. apply Permutation_refl.
  - apply Forall_cons_iff in T as [Td Tr]. simpl in Td.
    assert (NI : ~ In (n, d_id d) (map ev_key (flatten_g g))).
    { rewrite map_app in ND. apply NoDup_remove_2 in ND. intro H. apply ND. apply in_or_app. left. exact H. }
    destruct (gen_add_ok ty g n d I Td NI) as (g1 & E1 & I1 & P1).
    assert (ND1 : NoDup (map ev_key (flatten_g g1 ++ r))).
    { eapply Permutation_NoDup; [|exact ND]. apply Permutation_map. apply Permutation_sym.
      eapply Permutation_trans; [apply Permutation_app_tail; exact P1|]. rewrite <- app_assoc. apply Permutation_refl. }
    destruct (IH g1 I1 Tr ND1) as (g' & E' & I' & P').
    exists g'. cbn [gen_events]. rewrite E1. cbn [bind]. repeat split; try apply I'; [exact E'|].
    eapply Permutation_trans; [exact P'|]. eapply Permutation_trans; [apply Permutation_app_tail; exact P1|].
    rewrite <- app_assoc. apply Permutation_refl.
Qed.

Lemma gen_events_conflict ty E : forall g, g_inv ty g -> Forall (fun e => d_type (snd e) = ty) E ->
  NoDup (map ev_key (flatten_g g)) -> ~ NoDup (map ev_key (flatten_g g ++ E)) ->
  gen_events ty g E = Err EDelegation.
Proof.
  induction E as [|[n d] r IH]; intros g I T ND0 NN.
  - exfalso. apply NN. rewrite app_nil_r. exact ND0.
  - apply Forall_cons_iff in T as [Td Tr]. simpl in Td. cbn [gen_events].
    destruct (in_dec key_dec (n, d_id d) (map ev_key (flatten_g g))) as [HI|NI].
    + rewrite (gen_add_conflict ty g n d I Td HI). reflexivity.
    + destruct (gen_add_ok ty g n d I Td NI) as (g1 & E1 & I1 & P1). rewrite E1. cbn [bind].
      apply IH; try assumption.
      * eapply Permutation_NoDup; [apply Permutation_map; apply Permutation_sym; exact P1|].
        rewrite map_app. simpl. apply NoDup_snoc; assumption.
      * intro H. apply NN. eapply Permutation_NoDup; [|exact H]. apply Permutation_map.
        eapply Permutation_trans; [apply Permutation_app_tail; exact P1|]. rewrite <- app_assoc. apply Permutation_refl.
Qed.

(* ---------------------------------------------------------------------------------------------- *)
(* from pool_ok to the premises above                                                               *)
(* ---------------------------------------------------------------------------------------------- *)
Lemma pool_ok_inv ty p : pool_ok ty p = true ->
  exists did on x, p_type p = ty /\ p_deleg p = Some did /\ p_on p = Some on /\ p_details p = Some x /\
                   det_kind x = ty /\ p_for p <> [] /\ NoDup (p_for p) /\ ~ In on (p_for p) /\
                   str_eqb (p_id p) single_pool_name = false.
Proof.
  unfold pool_ok. intro H. apply andb_true_iff in H as [T H]. apply andb_true_iff in T as [T NR].
  apply dtype_eqb_eq in T. unfold str_neqb in NR. apply negb_true_iff in NR.
  destruct (p_deleg p) as [did|], (p_on p) as [on|], (p_for p) as [|n r] eqn:F, (p_details p) as [x|]; try discriminate.
  apply andb_true_iff in H as [H NI]. apply andb_true_iff in H as [K ND].
  apply dtype_eqb_eq in K. apply str_nodup_NoDup in ND. apply negb_true_iff in NI. apply str_mem_false in NI.
  exists did, on, x. repeat split; try assumption; try reflexivity. discriminate.
Qed.

Lemma pool_ok_valid ty p : pool_ok ty p = true -> validate_pool p = None.
Proof.
  intro H. destruct (pool_ok_inv ty p H) as (did & on & x & _ & Hd & Ho & Hx & _ & Hf & _).
  unfold validate_pool. rewrite Hd, Ho, Hx. destruct (p_for p); [contradiction|reflexivity].
Qed.

Lemma pool_ok_ready ty p : pool_ok ty p = true -> pool_ready ty p.
Proof.
  intro H. destruct (pool_ok_inv ty p H) as (did & on & x & _ & Hd & Ho & Hx & K & _ & _ & _ & NR).
  exists on, x. tauto.
Qed.

Lemma pool_evs_keys ty p : map ev_key (pool_evs ty p) = pool_slots p.
Proof.
  unfold pool_evs, pool_slots. destruct (p_deleg p) as [did|], (p_on p) as [on|]; try reflexivity.
  simpl. unfold ev_key at 1. simpl. f_equal. rewrite map_map. reflexivity.
Qed.

Lemma expected_keys ty P : map ev_key (expected_events ty P) = flat_map pool_slots P.
Proof.
  unfold expected_events. induction P as [|p r IH]; simpl; [reflexivity|].
  rewrite map_app, pool_evs_keys, IH. reflexivity.
Qed.

Lemma pool_evs_types ty p : Forall (fun e => d_type (snd e) = ty) (pool_evs ty p).
Proof.
  unfold pool_evs. destruct (p_deleg p), (p_on p); try constructor; [reflexivity|].
  apply Forall_forall. intros e He. apply in_map_iff in He as (n & <- & _). reflexivity.
Qed.

Lemma expected_types ty P : Forall (fun e => d_type (snd e) = ty) (expected_events ty P).
Proof.
  unfold expected_events. induction P as [|p r IH]; simpl; [constructor|].
  apply Forall_app. split; [apply pool_evs_types|exact IH].
Qed.

Section Generate.
Variable ty : dtype.
Variable P : list pool.
Hypothesis OK : forallb (pool_ok ty) P = true.

Lemma all_valid : Forall (fun p => validate_pool p = None) P.
Proof. apply Forall_forall. intros p Hp. rewrite forallb_forall in OK. eapply pool_ok_valid. apply OK. exact Hp. Qed.

Lemma all_ready : Forall (pool_ready ty) P.
Proof. apply Forall_forall. intros p Hp. rewrite forallb_forall in OK. eapply pool_ok_ready. apply OK. exact Hp. Qed.

(* generate in flat form, for the index of P *)
Lemma generate_flat idx : build_index P = Ok idx ->
  idx_consistent idx /\ Permutation (flat_map snd idx) P /\
  generate ty (Some idx) = gen_events ty [] (expected_events ty (flat_map snd idx)).
Proof.
  intro B. destruct (build_index_ok P all_valid) as (idx' & B' & C & Pm). rewrite B in B'. injection B' as <-.
  split; [exact C|]. split; [exact Pm|].
  unfold generate. apply gen_index_flat; [|exact C].
  assert (R : Forall (pool_ready ty) (flat_map snd idx)).
  { eapply perm_Forall; [apply Permutation_sym; exact Pm|apply all_ready]. }
  clear - R. induction idx as [|[did ps] r IH]; [constructor|]. simpl in R. apply Forall_app in R as [R1 R2].
  constructor; [exact R1|apply IH; exact R2].
Qed.

(* success: the generated family holds exactly the prescribed delegations *)
Lemma generate_ok idx : build_index P = Ok idx -> no_conflict P = true ->
  exists G, generate ty (Some idx) = Ok G /\ g_inv ty G /\ Permutation (flatten_g G) (expected_events ty P).
Proof.
  intros B NC. destruct (generate_flat idx B) as (C & Pm & ->).
  assert (PE : Permutation (expected_events ty (flat_map snd idx)) (expected_events ty P)).
  { unfold expected_events. apply perm_flat_map. exact Pm. }
  destruct (gen_events_ok ty (expected_events ty (flat_map snd idx)) []) as (G & E & I & PG).
  - split; constructor.
  - apply expected_types.
  - simpl. eapply Permutation_NoDup; [apply Permutation_map; apply Permutation_sym; exact PE|].
    rewrite expected_keys. apply pair_nodup_NoDup. exact NC.
  - exists G. repeat split; try apply I; [exact E|]. eapply Permutation_trans; [exact PG|]. exact PE.
Qed.

(* conflict: some node would carry two entries under one delegation id *)
Lemma generate_conflict idx : build_index P = Ok idx -> no_conflict P = false ->
  generate ty (Some idx) = Err EDelegation.
Proof.
  intros B NC. destruct (generate_flat idx B) as (C & Pm & ->).
  apply gen_events_conflict.
  - split; constructor.
  - apply expected_types.
  - constructor.
  - simpl. intro ND. assert (X : NoDup (flat_map pool_slots P)).
    { rewrite <- (expected_keys ty). eapply Permutation_NoDup; [|exact ND]. apply Permutation_map.
      unfold expected_events. apply perm_flat_map. exact Pm. }
    apply pair_nodup_NoDup in X. unfold no_conflict in NC. congruence.
Qed.

End Generate.

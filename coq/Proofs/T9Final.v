(* C09 - statements in the shape of Properties/C09.v and the non-vacuity instances. *)
From Coq Require Import List NArith Bool String.
From FIM Require Import Base.Str Gen.T9Names Model.T9Graph Model.T9Ops Proofs.T9Monad Proofs.T9Simple Proofs.T9Ext
     Proofs.T9Connect Proofs.T9Atomic Proofs.T9Facility Proofs.T9Peer Proofs.T9Component Proofs.T9CompFresh
     Proofs.T9Refuted.
Import ListNotations.
Open Scope N_scope.

Lemma names_translated : t9_gen_ok = true.
Proof. reflexivity. Qed.

Lemma add_node_atomic_all fl name node_id ntype pure s s' e :
  op_add_node fl name node_id ntype pure s = (s', Err e) -> sg s' = sg s.
Proof. apply op_add_node_atomic. exact I. Qed.
Lemma add_node_service_atomic_all fl pn name node_id nstype pure s s' e :
  op_add_node_service fl pn name node_id nstype pure s = (s', Err e) -> sg s' = sg s.
Proof. apply op_add_node_service_atomic. exact I. Qed.
Lemma add_interface_atomic_all fl ns name node_id itype pure s s' e :
  op_add_interface fl ns name node_id itype pure s = (s', Err e) -> sg s' = sg s.
Proof. apply op_add_interface_atomic. exact I. Qed.
Lemma add_link_atomic_all fl name node_id ltype ifs pure s s' e :
  op_add_link fl name node_id ltype ifs pure s = (s', Err e) -> sg s' = sg s.
Proof. apply op_add_link_atomic. exact I. Qed.

(* ---------------------------------------------------------------- instances *)
Definition ex_ifs : list iface_h := [mkIface 8 (S "nic1-p1"); mkIface 9 (S "nic1-p2"); mkIface 8 (S "nic1-p1")].
Definition ex_ifs_stale : list iface_h := [mkIface 8 (S "nic1-p1"); mkIface 40 (S "gone")].

Lemma ex_service_hyps :
  wf_graph g_two_nodes = true /\ ifaces_typed g_two_nodes ex_ifs = true /\ supply_apart None supply ex_ifs = true
  /\ ifaces_typed g_two_nodes ex_ifs_stale = true /\ supply_apart None supply ex_ifs_stale = true.
Proof. vm_compute. auto. Qed.

(* two ports connected, the third element repeats the first: TopologyException, rolled back *)
Lemma ex_service_rollback_runs :
  let r := op_add_service Experiment (S "s1") None (Some tL2Bridge) ex_ifs None (mkSt g_two_nodes supply) in
  snd r = Err ETopology /\ sg (fst r) = g_two_nodes /\ List.length (sfresh (fst r)) = 3%nat.
Proof. vm_compute. auto. Qed.
(* a stale handle at position 1: PropertyGraphQueryException, rolled back as well (fix 16ce105) *)
Lemma ex_service_stale_runs :
  let r := op_add_service Experiment (S "s1") None (Some tL2Bridge) ex_ifs_stale None (mkSt g_two_nodes supply) in
  snd r = Err EQuery /\ sg (fst r) = g_two_nodes.
Proof. vm_compute. auto. Qed.
(* a derived link name of 256 characters: ValueError after the ServicePort exists, rolled back *)
Definition long_name (n : nat) : str := repeat 120 n.
Definition g_long : graph :=
  mkGraph [mkNode 1 cNN (long_name 200) tVM 1; mkNode 2 cComp (long_name 47) tNIC 2; mkNode 3 cNS (S "x-l2ovs") tOVS 3;
           mkNode 4 cCP (long_name 50) tSharedPort 4]
          [mkEdge 1 2 rHas; mkEdge 2 3 rHas; mkEdge 3 4 rConnects].
Lemma ex_service_long_runs :
  let r := op_add_service Experiment (S "s1") None (Some tL2Bridge) [mkIface 4 (long_name 50)] None (mkSt g_long supply) in
  snd r = Err EValue /\ sg (fst r) = g_long /\ List.length (sfresh (fst r)) = 5%nat.
Proof. vm_compute. auto. Qed.
Lemma ex_service_ok :
  let r := op_add_service Experiment (S "s1") None (Some tL2Bridge) (firstn 2 ex_ifs) None (mkSt g_two_nodes supply) in
  snd r = Ok 50 /\ List.length (gnodes (sg (fst r))) = 14%nat.
Proof. vm_compute. auto. Qed.

Lemma ex_add_node_dup :
  let r := op_add_node Experiment (S "n1") None (Some tVM) None (mkSt g_two_nodes supply) in
  snd r = Err ETopology /\ sg (fst r) = g_two_nodes.
Proof. vm_compute. auto. Qed.

Lemma ex_link_stale :
  let r := op_add_link Experiment (S "l1") None (Some tPatch) (Some [mkIface 4 (S "nic1-p1"); mkIface 40 (S "gone")]) None
                       (mkSt g_two_nodes supply) in
  snd r = Err EQuery /\ sg (fst r) = g_two_nodes.
Proof. vm_compute. auto. Qed.
Lemma ex_link_ok :
  let r := op_add_link Experiment (S "l1") None (Some tPatch) (Some [mkIface 4 (S "nic1-p1"); mkIface 8 (S "nic1-p1")]) None
                       (mkSt g_two_nodes supply) in
  snd r = Ok 50 /\ List.length (gedges (sg (fst r))) = 9%nat.
Proof. vm_compute. auto. Qed.

(* add_facility: the second port name is invalid: node, service and first port are removed again *)
Lemma ex_facility_late :
  let r := op_add_facility Experiment (S "fac1") None 0 0 [] tVLAN None
             (Some [mkFacPort (S "pa") None; mkFacPort [] None]) None (mkSt g_two_nodes supply) in
  snd r = Err EValue /\ sg (fst r) = g_two_nodes /\ List.length (sfresh (fst r)) = 4%nat.
Proof. vm_compute. auto. Qed.
Lemma ex_facility_ok :
  let r := op_add_facility Experiment (S "fac1") None 0 0 [] tVLAN None
             (Some [mkFacPort (S "pa") None; mkFacPort (S "pb") None]) None (mkSt g_two_nodes supply) in
  snd r = Ok 50 /\ List.length (gnodes (sg (fst r))) = 13%nat.
Proof. vm_compute. auto. Qed.

Lemma ex_switch_rb_late :
  let r := op_add_switch true Experiment (S "sw1") None 0 [] tVLAN None 2 (Some EAssert) (mkSt g_two_nodes supply) in
  snd r = Err EAssert /\ sg (fst r) = g_two_nodes.
Proof. vm_compute. auto. Qed.
Lemma ex_switch_ok :
  let r := op_add_switch false Experiment (S "sw1") None 0 [] tVLAN None 2 None (mkSt g_two_nodes supply) in
  snd r = Ok 50 /\ List.length (gnodes (sg (fst r))) = 13%nat.
Proof. vm_compute. auto. Qed.

(* peer: the other service already has "b-a": TopologyException, the port "a-b" is removed again *)
Lemma ex_peer_hyps :
  wf_graph g_two_services = true /\ node_cls g_two_services 30 = Ok cNS /\ node_cls g_two_services 31 = Ok cNS.
Proof. vm_compute. auto. Qed.
Lemma ex_peer_late :
  let r := op_peer Experiment 30 31 None (mkSt g_two_services supply) in
  snd r = Err ETopology /\ sg (fst r) = g_two_services /\ List.length (sfresh (fst r)) = 7%nat.
Proof. vm_compute. auto. Qed.
Lemma ex_peer_ok :
  let r := op_peer Experiment 30 31 None (mkSt (mkGraph (firstn 2 (gnodes g_two_services)) []) supply) in
  snd r = Ok tt /\ List.length (gnodes (sg (fst r))) = 5%nat /\ List.length (gedges (sg (fst r))) = 4%nat.
Proof. vm_compute. auto. Qed.

(* C16 proofs (part 1): the regenerated tables are complete and use whole-string matching. *)
From Coq Require Import List ZArith NArith Bool String Lia.
From FIM Require Import Base.Str Base.Regex Base.RegexSound Model.Labels16Types Gen.UnicodeClasses Gen.LabelValidators Model.Labels16.
Import ListNotations.

Lemma lv_gen_ok_true : lv_gen_ok = true /\ uc_ok = true.
Proof. split; reflexivity. Qed.

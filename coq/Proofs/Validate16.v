(* C16 proofs (Labels): acceptance = membership in the documented domain, on every entry point, and
   accepted objects re-decode.  Generic in the regenerated tables; the only facts taken from them are
   (by computation) that every call site uses whole-string matching and that the field list has no
   duplicates. *)
From Coq Require Import List ZArith NArith Bool String Lia.
From FIM Require Import Base.Str Base.Regex Base.RegexSound Model.Labels16Types Gen.UnicodeClasses Gen.LabelValidators
  Model.Labels16 Model.Labels16Spec.
Import ListNotations.

Lemma lv_gen_ok_true : lv_gen_ok = true /\ uc_ok = true.
Proof. split; reflexivity. Qed.

(* every regex call site is a whole-string match *)
Lemma modes_full :
  label_scalar_mode = Full /\ label_list_mode = Full /\ tag_mode = Full /\
  forallb (fun x => mmode_eqb (snd (snd x)) Full) name_rules = true.
Proof. repeat split; vm_compute; reflexivity. Qed.

Lemma scalar_full : label_scalar_mode = Full. Proof. apply modes_full. Qed.
Lemma list_full : label_list_mode = Full. Proof. apply modes_full. Qed.
Lemma tag_full : tag_mode = Full. Proof. apply modes_full. Qed.

Lemma re_match_full r s : re_match Full r s = true <-> re_lang r s.
Proof. apply py_fullmatch_spec. Qed.

(* ---------------- generic list facts ---------------- *)

Lemma first_err_none f l : first_err f l = None <-> Forall (fun x => f x = None) l.
Proof.
  induction l as [|x l IH]; simpl; split; intro H; auto.
  - destruct (f x) eqn:E; [discriminate|]. constructor; [exact E | apply IH; exact H].
  - inversion H; subst. rewrite H2. apply IH; assumption.
Qed.

Lemma forallb_Forall {A} (p : A -> bool) l : forallb p l = true <-> Forall (fun x => p x = true) l.
Proof.
  induction l as [|x l IH]; simpl; split; intro H; auto.
  - apply andb_true_iff in H as [H1 H2]. constructor; [exact H1 | apply IH; exact H2].
  - inversion H; subst. apply andb_true_iff; split; [assumption | apply IH; assumption].
Qed.

Lemma Forall_and {A} (P Q : A -> Prop) l : Forall (fun x => P x /\ Q x) l <-> Forall P l /\ Forall Q l.
Proof.
  induction l as [|x l IH]; split; intro H; auto.
  - inversion H; subst. apply IH in H3. destruct H2, H3. split; constructor; assumption.
  - destruct H as [H1 H2]. inversion H1; inversion H2; subst. constructor; [split; assumption | apply IH; split; assumption].
Qed.

Lemma Forall_iff {A} (P Q : A -> Prop) l : (forall x, P x <-> Q x) -> (Forall P l <-> Forall Q l).
Proof. intro H. split; intro F; eapply Forall_impl; try exact F; intros a; apply H. Qed.

(* ---------------- one value ---------------- *)


Lemma range_check_spec rk s : range_check rk s = None <-> range_spec rk s.
Proof.
  destruct rk as [b | sep b0 b1 c]; cbn [range_check range_spec].
  - destruct (py_int s) as [z|] eqn:E.
    + destruct (in_bounds b z) eqn:B; split; intro H; try discriminate; eauto.
      destruct H as (z' & Hz & Hb). inversion Hz; subst. congruence.
    + split; [discriminate|]. intros (z & Hz & _). discriminate.
  - destruct (split_on sep s) as [|p0 parts] eqn:Esp; cbn [hd nth_error].
    + split.
      * destruct (py_int []) eqn:E0; [|discriminate]. destruct (negb (in_bounds b0 z)); discriminate.
      * intros (p0 & p1 & rest & x & y & Hs & _). discriminate.
    + destruct (py_int p0) as [x|] eqn:E0.
      2:{ split; [discriminate|]. intros (q0 & q1 & rest & x & y & Hs & H0 & _). inversion Hs; subst. congruence. }
      destruct (in_bounds b0 x) eqn:B0; cbn [negb].
      2:{ split; [discriminate|]. intros (q0 & q1 & rest & x' & y & Hs & H0 & _ & Hb & _). inversion Hs; subst. congruence. }
      destruct parts as [|p1 rest]; cbn [nth_error].
      { split; [discriminate|]. intros (q0 & q1 & rest & x' & y & Hs & _). discriminate. }
      destruct (py_int p1) as [y|] eqn:E1.
      2:{ split; [discriminate|]. intros (q0 & q1 & rest' & x' & y & Hs & _ & H1 & _). inversion Hs; subst. congruence. }
      destruct (in_bounds b1 y) eqn:B1; cbn [negb].
      2:{ split; [discriminate|]. intros (q0 & q1 & rest' & x' & y' & Hs & _ & H1 & _ & Hb & _). inversion Hs; subst. congruence. }
      destruct (cmpb c x y) eqn:C.
      * split; [|reflexivity]. intros _. exists p0, p1, rest, x, y. repeat split; assumption.
      * split; [discriminate|]. intros (q0 & q1 & rest' & x' & y' & Hs & H0 & H1 & _ & _ & Hc). inversion Hs; subst. congruence.
Qed.

Definition regex_ok (k s : str) : Prop := forall r, lookup k label_validators = Some r -> re_lang r s.
Definition range_ok (k s : str) : Prop := forall rk, lookup k label_lambdas = Some rk -> range_spec rk s.

Lemma regex_phase_spec k v : is_strs v = true ->
  (regex_phase k v = None <-> Forall (regex_ok k) (elems v)).
Proof.
  intro Hs. unfold regex_phase, regex_ok. destruct (lookup k label_validators) as [r|] eqn:E.
  - destruct v as [s | l | |]; try discriminate; cbn [elems].
    + rewrite scalar_full. destruct (re_match Full r s) eqn:M; split; intro H; try discriminate; try reflexivity.
      * constructor; [|constructor]. intros r' Hr. inversion Hr; subst. apply re_match_full; exact M.
      * inversion H; subst. specialize (H2 r eq_refl). apply re_match_full in H2. congruence.
    + rewrite list_full. destruct (forallb (re_match Full r) l) eqn:M; split; intro H; try discriminate; try reflexivity.
      * apply forallb_Forall in M. eapply Forall_impl; [|exact M]. intros s Hm r' Hr. inversion Hr; subst.
        apply re_match_full; exact Hm.
      * assert (forallb (re_match Full r) l = true); [|congruence].
        apply forallb_Forall. eapply Forall_impl; [|exact H]. intros s Hm. apply re_match_full. apply Hm; reflexivity.
  - split; [|reflexivity]. intros _. apply Forall_forall. intros s _ r Hr. discriminate.
Qed.

Lemma range_phase_spec k v : range_phase k v = None <-> Forall (range_ok k) (elems v).
Proof.
  unfold range_phase, range_ok. destruct (lookup k label_lambdas) as [rk|] eqn:E.
  - rewrite first_err_none. apply Forall_iff. intro s. rewrite range_check_spec. split.
    + intros H rk' Hr. inversion Hr; subst; exact H.
    + intro H. apply H; reflexivity.
  - split; [|reflexivity]. intros _. apply Forall_forall. intros s _ rk Hr. discriminate.
Qed.

Lemma in_domain_split k l : Forall (in_domain k) l <-> Forall (regex_ok k) l /\ Forall (range_ok k) l.
Proof. unfold in_domain. apply Forall_and. Qed.

(* the loop body accepts a value for a known field exactly when every element is in the documented
   domain of that field; scalar and list alike *)
Theorem accept_iff_domain fg st k v :
  mem_str k label_fields = true -> is_strs v = true ->
  (snd (set_one fg st (k, v)) = None <-> Forall (in_domain k) (elems v)).
Proof.
  intros Hk Hs. rewrite in_domain_split, <- regex_phase_spec, <- range_phase_spec by exact Hs.
  unfold set_one. rewrite Hk. cbn [negb].
  destruct v as [s | l | |]; try discriminate;
    (destruct (regex_phase k _) eqn:R; [cbn [snd]; split; [discriminate | intros [? _]; discriminate]|];
     destruct (range_phase k _) eqn:G; cbn [snd]; split; try discriminate; auto; intros [_ ?]; discriminate).
Qed.

Theorem accepted_is_stored fg st k v :
  mem_str k label_fields = true -> snd (set_one fg st (k, v)) = None -> fst (set_one fg st (k, v)) = lset st k v.
Proof.
  intros Hk. unfold set_one. rewrite Hk. cbn [negb].
  destruct v as [s | l | |]; cbn [snd fst]; try discriminate;
    (destruct (regex_phase k _); [cbn [snd]; discriminate|]; destruct (range_phase k _); cbn [snd fst]; [discriminate | reflexivity]).
Qed.

Theorem rejected_unchanged fg st kv : snd (set_one fg st kv) <> None -> fst (set_one fg st kv) = st.
Proof.
  destruct kv as [k v]. unfold set_one.
  destruct v as [s | l | |]; cbn [snd fst]; try reflexivity;
    (destruct (negb (mem_str k label_fields)); [reflexivity|];
     destruct (regex_phase k _); [reflexivity|]; destruct (range_phase k _); cbn [snd fst]; [reflexivity | intro H; exfalso; apply H; reflexivity]).
Qed.

(* an unknown keyword or a non-string value never changes the object *)
Theorem unknown_or_untyped_unchanged fg st k v :
  mem_str k label_fields = false \/ is_strs v = false -> fst (set_one fg st (k, v)) = st.
Proof.
  intros [H|H]; unfold set_one.
  - rewrite H. destruct v; reflexivity.
  - destruct v; try discriminate; reflexivity.
Qed.

(* ---------------- the invariant ---------------- *)

Lemma mem_str_In k l : mem_str k l = true <-> In k l.
Proof.
  unfold mem_str. rewrite existsb_exists. split.
  - intros (x & Hx & E). apply str_eqb_eq in E. subst. exact Hx.
  - intro H. exists k. split; [exact H | apply str_eqb_refl].
Qed.

Lemma lset_keys st k v : map fst (lset st k v) = map fst st.
Proof.
  induction st as [|[k' v'] st IH]; simpl; [reflexivity|].
  destruct (str_eqb k k'); simpl; [reflexivity | rewrite IH; reflexivity].
Qed.

Lemma lset_inv st k v : labels_inv st -> val_ok k (Some v) -> labels_inv (lset st k v).
Proof.
  unfold labels_inv. intros H Hv. induction st as [|[k' v'] st IH]; simpl; [constructor|].
  inversion H; subst. destruct (str_eqb k k') eqn:E.
  - apply str_eqb_eq in E; subst. constructor; [exact Hv | assumption].
  - constructor; [assumption | apply IH; assumption].
Qed.

Lemma init_inv : labels_inv labels_init.
Proof. unfold labels_inv, labels_init. apply Forall_forall. intros kv H. apply in_map_iff in H as (f & <- & _). exact I. Qed.

Lemma set_one_inv fg st kv : labels_inv st -> labels_inv (fst (set_one fg st kv)).
Proof.
  intro H. destruct (snd (set_one fg st kv)) eqn:E.
  - rewrite rejected_unchanged; [exact H | congruence].
  - destruct kv as [k v]. destruct (mem_str k label_fields) eqn:Hk.
    + destruct (is_strs v) eqn:Hs.
      * rewrite accepted_is_stored by assumption. apply lset_inv; [exact H|]. split; [exact Hs|].
        apply (accept_iff_domain fg st k v Hk Hs). exact E.
      * rewrite unknown_or_untyped_unchanged; auto.
    + rewrite unknown_or_untyped_unchanged; auto.
Qed.

(* _set_fields keeps the invariant whether or not it raises (fields set before a raise stay set) *)
Theorem set_fields_inv fg kws : forall st, labels_inv st -> labels_inv (fst (set_fields fg st kws)).
Proof.
  induction kws as [|kv kws IH]; intros st H; cbn [set_fields]; [exact H|].
  pose proof (set_one_inv fg st kv H) as H1. destruct (set_one fg st kv) as [st' [e|]]; cbn [fst] in *; [exact H1 | apply IH; exact H1].
Qed.

Lemma set_one_keys fg st kv : map fst (fst (set_one fg st kv)) = map fst st.
Proof.
  destruct kv as [k v]. unfold set_one.
  destruct v; cbn [fst]; try reflexivity;
    (destruct (negb (mem_str k label_fields)); [reflexivity|]; destruct (regex_phase k _); [reflexivity|];
     destruct (range_phase k _); cbn [fst]; [reflexivity | apply lset_keys]).
Qed.

Lemma set_fields_keys fg kws : forall st, map fst (fst (set_fields fg st kws)) = map fst st.
Proof.
  induction kws as [|kv kws IH]; intro st; cbn [set_fields]; [reflexivity|].
  pose proof (set_one_keys fg st kv) as H1. destruct (set_one fg st kv) as [st' [e|]]; cbn [fst] in *; [exact H1 | rewrite IH; exact H1].
Qed.

Lemma init_wf : labels_wf labels_init.
Proof. unfold labels_wf, labels_init. rewrite map_map. exact (map_id label_fields). Qed.

Lemma as_result_ok p st : as_result p = Ok st -> fst p = st.
Proof. destruct p as [s [e|]]; simpl; intro H; inversion H; reflexivity. Qed.

Theorem ctor_inv kws st : labels_ctor kws = Ok st -> labels_inv st /\ labels_wf st.
Proof.
  unfold labels_ctor. intro H. apply as_result_ok in H. subst. split.
  - apply set_fields_inv, init_inv.
  - unfold labels_wf. rewrite set_fields_keys. apply init_wf.
Qed.

Theorem update_inv lab kws st : labels_inv lab -> labels_wf lab -> labels_update lab kws = Ok st -> labels_inv st /\ labels_wf st.
Proof.
  unfold labels_update. intros Hi Hw H. apply as_result_ok in H. subst. split.
  - apply set_fields_inv, Hi.
  - unfold labels_wf. rewrite set_fields_keys. exact Hw.
Qed.

Theorem from_dict_inv d st : labels_from_dict d = Ok st -> labels_inv st /\ labels_wf st.
Proof.
  unfold labels_from_dict. generalize (from_json_keys d). intros d' H. apply as_result_ok in H. subst. split.
  - apply set_fields_inv, init_inv.
  - unfold labels_wf. rewrite set_fields_keys. apply init_wf.
Qed.

Theorem every_entry_point e st : run_entry e = Ok st -> labels_inv st /\ labels_wf st.
Proof.
  destruct e as [kws | base kws | d]; cbn [run_entry].
  - apply ctor_inv.
  - destruct (labels_ctor base) as [lab|] eqn:E; [|discriminate]. apply ctor_inv in E as [Hi Hw]. apply update_inv; assumption.
  - apply from_dict_inv.
Qed.

(* objects reachable through any sequence of constructor / update / from_json calls *)
Inductive reachable : lobj -> Prop :=
| R_ctor kws st : labels_ctor kws = Ok st -> reachable st
| R_from_json d st : labels_from_dict d = Ok st -> reachable st
| R_update lab kws st : reachable lab -> labels_update lab kws = Ok st -> reachable st.

Theorem reachable_inv st : reachable st -> labels_inv st /\ labels_wf st.
Proof.
  induction 1 as [kws st H | d st H | lab kws st Hl [Hi Hw] H].
  - apply ctor_inv in H; exact H.
  - apply from_dict_inv in H; exact H.
  - eapply update_inv; eassumption.
Qed.

(* what "stored" means for a reader of the object *)
Lemma lookup_In {V} k (t : list (str * V)) v : lookup k t = Some v -> In (k, v) t.
Proof.
  induction t as [|[k' v'] t IH]; simpl; [discriminate|].
  destruct (str_eqb k k') eqn:E; intro H.
  - apply str_eqb_eq in E. inversion H; subst. left; reflexivity.
  - right; apply IH; exact H.
Qed.

Theorem stored_values_in_domain st k v : labels_inv st -> lget st k = Some v -> is_strs v = true /\ Forall (in_domain k) (elems v).
Proof.
  unfold lget, labels_inv. intros Hi H. destruct (lookup k st) as [[v'|]|] eqn:E; try discriminate. inversion H; subst.
  apply lookup_In in E. rewrite Forall_forall in Hi. apply (Hi _ E).
Qed.

(* ---------------- accepted objects re-decode ---------------- *)

Definition blank (l : lobj) : lobj := map (fun kv => (fst kv, @None lval)) l.

Lemma lset_app_notin done k v rest ov :
  ~ In k (map fst done) -> lset (done ++ (k, ov) :: rest) k v = done ++ (k, Some v) :: rest.
Proof.
  induction done as [|[k' v'] done IH]; simpl; intro H.
  - rewrite str_eqb_refl. reflexivity.
  - destruct (str_eqb k k') eqn:E.
    + apply str_eqb_eq in E. subst. exfalso. apply H. left; reflexivity.
    + rewrite IH; [reflexivity | tauto].
Qed.

Lemma recode_gen fg : forall todo done,
  NoDup (map fst done ++ map fst todo) -> labels_inv todo ->
  (forall k, In k (map fst todo) -> mem_str k label_fields = true) ->
  set_fields fg (done ++ blank todo) (labels_encode todo) = (done ++ todo, None).
Proof.
  induction todo as [|[k ov] todo IH]; intros done Hnd Hi Hk.
  - simpl. rewrite app_nil_r. reflexivity.
  - inversion Hi as [|? ? Hv Hi']; subst. cbn [fst snd] in Hv.
    assert (Hnd' : NoDup (map fst (done ++ [(k, ov)]) ++ map fst todo)).
    { rewrite map_app, <- app_assoc. exact Hnd. }
    assert (Hk' : forall k0, In k0 (map fst todo) -> mem_str k0 label_fields = true).
    { intros k0 H0. apply Hk. right; exact H0. }
    destruct ov as [v|].
    + destruct Hv as [Hs Hd].
      change (labels_encode ((k, Some v) :: todo)) with ((k, v) :: labels_encode todo).
      change (blank ((k, Some v) :: todo)) with ((k, @None lval) :: blank todo).
      cbn [set_fields].
      assert (Hkf : mem_str k label_fields = true) by (apply Hk; left; reflexivity).
      pose proof (proj2 (accept_iff_domain fg (done ++ (k, None) :: blank todo) k v Hkf Hs) Hd) as Hacc.
      pose proof (accepted_is_stored fg (done ++ (k, None) :: blank todo) k v Hkf Hacc) as Hst.
      destruct (set_one fg (done ++ (k, None) :: blank todo) (k, v)) as [st' oe]. cbn [fst snd] in *. subst oe st'.
      rewrite lset_app_notin.
      * specialize (IH (done ++ [(k, Some v)]) Hnd' Hi' Hk'). rewrite <- !app_assoc in IH. exact IH.
      * intro Hin. apply NoDup_remove_2 in Hnd. apply Hnd. apply in_or_app. left; exact Hin.
    + change (labels_encode ((k, None) :: todo)) with (labels_encode todo).
      change (blank ((k, None) :: todo)) with ((k, @None lval) :: blank todo).
      specialize (IH (done ++ [(k, None)]) Hnd' Hi' Hk'). rewrite <- !app_assoc in IH. exact IH.
Qed.

Fixpoint nodup_strb (l : list str) : bool :=
  match l with [] => true | x :: r => negb (mem_str x r) && nodup_strb r end.

Lemma nodup_strb_NoDup l : nodup_strb l = true -> NoDup l.
Proof.
  induction l as [|x l IH]; simpl; intro H; constructor; apply andb_true_iff in H as [H1 H2].
  - intro Hin. apply mem_str_In in Hin. rewrite Hin in H1. discriminate.
  - apply IH; exact H2.
Qed.

Lemma label_fields_nodup : NoDup label_fields.
Proof. apply nodup_strb_NoDup. vm_compute. reflexivity. Qed.

(* whatever was accepted is accepted again after to_dict/to_json -> from_json, and gives the same object *)
Lemma encode_keys st : forall kv, In kv (labels_encode st) -> In (fst kv) (map fst st).
Proof.
  induction st as [|[k ov] st IH]; intros kv H; [contradiction|].
  destruct ov as [v|].
  - change (labels_encode ((k, Some v) :: st)) with ((k, v) :: labels_encode st) in H. destruct H as [<-|H]; [left; reflexivity | right; apply IH; exact H].
  - change (labels_encode ((k, None) :: st)) with (labels_encode st) in H. right; apply IH; exact H.
Qed.

Lemma filter_all {A} (p : A -> bool) l : (forall x, In x l -> p x = true) -> filter p l = l.
Proof.
  induction l as [|x l IH]; intro H; simpl; [reflexivity|].
  rewrite (H x (or_introl eq_refl)). f_equal. apply IH. intros y Hy. apply H. right; exact Hy.
Qed.

Lemma from_json_keys_encode st : labels_wf st -> from_json_keys (labels_encode st) = labels_encode st.
Proof.
  intro Hw. unfold from_json_keys. destruct from_json_prefilters; [|reflexivity].
  apply filter_all. intros kv H. apply encode_keys in H. rewrite Hw in H. apply mem_str_In; exact H.
Qed.

Theorem accepted_recodes st : labels_inv st -> labels_wf st -> labels_recode st = Ok st.
Proof.
  intros Hi Hw. unfold labels_recode, labels_from_dict. rewrite (from_json_keys_encode st Hw).
  assert (Hb : labels_init = [] ++ blank st).
  { unfold labels_init, blank. rewrite <- Hw, map_map. reflexivity. }
  rewrite Hb, (recode_gen true); [reflexivity | | exact Hi |].
  - simpl. rewrite Hw. apply label_fields_nodup.
  - intros k Hk. rewrite Hw in Hk. apply mem_str_In; exact Hk.
Qed.

Corollary entry_point_recodes e st : run_entry e = Ok st -> labels_recode st = Ok st.
Proof. intro H. apply every_entry_point in H as [Hi Hw]. apply accepted_recodes; assumption. Qed.

(* documented boundary values *)
Lemma boundaries_hold :
  forallb (fun x => Bool.eqb (scalar_accepted (fst (fst x)) (snd (fst x))) (snd x) &&
                    Bool.eqb (list_accepted (fst (fst x)) (snd (fst x))) (snd x)) boundary_table = true.
Proof. vm_compute. reflexivity. Qed.
